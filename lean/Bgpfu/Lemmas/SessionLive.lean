import Bgpfu.Lemmas.Session
/-! Consequences of the session invariant: what single polls do, progress of fair rounds (C05
`all_complete`, C07 `close_fails_all`, C14 `others_still_delivered`, C18). Core Lean only. -/
namespace Session

theorem eq_of_map_nodup {α β} (f : α → β) {l : List α} (h : (l.map f).Nodup) {a b : α} (ha : a ∈ l) (hb : b ∈ l)
    (he : f a = f b) : a = b := by
  induction l with
  | nil => cases ha
  | cons x xs ih =>
    simp only [List.map_cons, List.nodup_cons, List.mem_map, not_exists, not_and] at h
    simp only [List.mem_cons] at ha hb
    rcases ha with rfl | ha <;> rcases hb with rfl | hb
    · rfl
    · exact absurd he.symm (h.1 b hb)
    · exact absurd he (h.1 a ha)
    · exact ih h.2 ha hb

theorem nodup_of_pairwise_lt {l : List Nat} (h : l.Pairwise (· < ·)) : l.Nodup :=
  h.imp (fun hab => Nat.ne_of_lt hab)

theorem Inv.find {s : St} (h : Inv s) {fu : Fut} (hm : fu ∈ s.futs) : findFut s.futs fu.fid = some fu :=
  findFut_of_mem h.1.fidNodup hm

theorem Core.idNodup {s : St} (h : Core s) : (s.futs.map (·.id)).Nodup := by
  rw [h.idsSent]; exact nodup_of_pairwise_lt h.sentInc

theorem Inv.idNodup {s : St} (h : Inv s) : (s.futs.map (·.id)).Nodup := h.1.idNodup

/-- different futures have different message-ids -/
theorem Core.id_inj {s : St} (h : Core s) {g g' : Fid} {fu fu' : Fut} (hg : findFut s.futs g = some fu)
    (hg' : findFut s.futs g' = some fu') (he : fu.id = fu'.id) : g = g' := by
  have := eq_of_map_nodup (·.id) h.idNodup (findFut_mem hg) (findFut_mem hg') he
  rw [← findFut_fid hg, ← findFut_fid hg', this]

theorem releaseRx_eq (s : St) : s.releaseRx = { s with rxOwner := s.rxQueue.head?, rxQueue := s.rxQueue.tail } := by
  unfold St.releaseRx
  split <;> simp [*]

/-! ## a poll that takes a bad message off the transport -/

/-- future `fu` (with fid `f`) reads from the transport when it is polled next -/
def Reads (s : St) (f : Fid) (fu : Fut) : Prop :=
  fu.pc = .reading ∨
  (fu.pc = .waitRx ∧ s.rxOwner = some f ∧ findSlot s.slots fu.id = some .pending) ∨
  (fu.pc = .start ∧ s.rxOwner = none ∧ findSlot s.slots fu.id = some .pending)

/-- the session layer cannot park message `m`: phase 1 fails, or there is no pending request with its id -/
def Bad (s : St) (m : Msg) : Prop := m.id = none ∨ ∃ mid, m.id = some mid ∧ findSlot s.slots mid ≠ some .pending

theorem iter_bad {s : St} {f : Fid} {id : Nat} {atRead : Bool} {m : Msg} {rest : List Msg} (las : s.lockAcrossSend = false)
    (hr : atRead = true ∨ findSlot s.slots id = some .pending) (hi : s.inbox = m :: rest) (hb : Bad s m) :
    s.iter f id atRead = .stop (({ s with inbox := rest, lost := s.lost ++ [m] }).finish f .err) := by
  apply iter_elim (motive := fun it => it = _) s f id atRead las
  · intro h1 h2; rcases hr with hr | hr <;> simp_all
  · intro m' h1 h2; rcases hr with hr | hr <;> simp_all
  · intro _ h; simp [hi] at h
  · intro _ h; simp [hi] at h
  · intro m' rest' _ hi' _
    rw [hi] at hi'; cases hi'; rfl
  · intro m' rest' mid _ hi' _ _
    rw [hi] at hi'; cases hi'; rfl
  · intro m' rest' mid _ hi' hm hs _
    rw [hi] at hi'; cases hi'
    rcases hb with hb | ⟨mid', hb1, hb2⟩
    · simp [hb] at hm
    · rw [hm] at hb1; cases hb1; exact absurd hs hb2
  · intro m' rest' mid _ hi' hm hs _
    rw [hi] at hi'; cases hi'
    rcases hb with hb | ⟨mid', hb1, hb2⟩
    · simp [hb] at hm
    · rw [hm] at hb1; cases hb1; exact absurd hs hb2

theorem poll_bad_msg {s : St} {f : Fid} {fu : Fut} {m : Msg} {rest : List Msg} (h : Inv s)
    (hf : findFut s.futs f = some fu) (hr : Reads s f fu) (hi : s.inbox = m :: rest) (hb : Bad s m) :
    s.poll f = { s with inbox := rest, lost := s.lost ++ [m], futs := setPc f (.done .err) s.futs,
                        rxOwner := s.rxQueue.head?, rxQueue := s.rxQueue.tail } := by
  have las := h.1.las
  have hfuel : s.inbox.length + 2 = (s.inbox.length + 1) + 1 := rfl
  unfold St.poll
  rw [St.fut_eq, hf]
  dsimp only
  rcases hr with hr | ⟨hr, ho, hs⟩ | ⟨hr, ho, hs⟩
  · have ho := (h.2.readOk f fu hf (by simp) hr).1
    rw [hr]; dsimp only
    rw [hfuel, runHolding_succ, iter_bad las (.inl rfl) hi hb]
    simp only [St.finish, releaseRx_eq, St.withPc]
  · rw [hr]; dsimp only
    simp only [ho, beq_self_eq_true, if_true]
    rw [hfuel, runHolding_succ, iter_bad las (.inr hs) hi hb]
    simp only [St.finish, releaseRx_eq, St.withPc]
  · have hq := h.2.freeOk ho
    rw [hr]; dsimp only
    have hc : (s.rxOwner.isNone && s.rxQueue.isEmpty) = true := by simp [ho, hq]
    rw [if_pos hc]
    rw [hfuel, runHolding_succ, iter_bad (s := { s with rxOwner := some f }) las (.inr hs) hi hb]
    simp only [St.finish, releaseRx_eq, St.withPc, hq, List.head?_nil, List.tail_nil]

/-! ## what a poll leaves alone -/

def liveCount (l : List Fut) : Nat := (l.filter Fut.isLive).length

theorem live_length (s : St) : s.live.length = liveCount s.futs := rfl

theorem liveCount_setPc {l : List Fut} {f : Fid} {fu : Fut} (pc : Pc) (h : findFut l f = some fu) :
    liveCount (setPc f pc l) + (if fu.isLive then 1 else 0)
      = liveCount l + (if ({ fu with pc := pc } : Fut).isLive then 1 else 0) := by
  induction l with
  | nil => simp [findFut] at h
  | cons x xs ih =>
    simp only [findFut, List.find?_cons] at h
    simp only [setPc]
    by_cases hx : x.fid = f
    · simp only [hx, beq_self_eq_true] at h
      cases h
      simp only [hx, beq_self_eq_true, if_true, liveCount, List.filter_cons]
      split <;> split <;> simp <;> omega
    · have hxf : (x.fid == f) = false := by simpa using hx
      simp only [hxf] at h
      simp only [hxf, Bool.false_eq_true, if_false, liveCount, List.filter_cons]
      have := ih h
      simp only [liveCount] at this
      split <;> (try simp only [List.length_cons]) <;> omega

theorem poll_not_live {s : St} {f : Fid} (h : ∀ fu, findFut s.futs f = some fu → fu.isLive = false) : s.poll f = s := by
  unfold St.poll
  rw [St.fut_eq]
  split
  · rfl
  · rename_i fu hf
    have := h fu hf
    split <;> first | rfl | (rename_i hpc; simp [Fut.isLive, hpc] at this)

theorem poll_owner_other {s : St} {f g : Fid} (h : Inv s) (ho : s.rxOwner = some g) (hg : g ≠ f) :
    (s.poll f).rxOwner = some g := by
  unfold St.poll
  rw [St.fut_eq]
  split
  · exact ho
  · rename_i fu hf
    split
    · exact ho
    · exact ho
    · simp only [ho, Option.isNone_some, Bool.false_and, Bool.false_eq_true, if_false, St.withPc]
    · have : (s.rxOwner == some f) = false := by simp [ho, hg]
      simp only [this, Bool.false_eq_true, if_false]; exact ho
    · rename_i hpc; exact absurd hpc (h.1.noWaitReq f fu hf).1
    · rename_i hpc
      have := (h.2.readOk f fu hf (by simp) hpc).1
      rw [ho] at this; exact absurd (Option.some.inj this) hg
    · rename_i m hpc; exact absurd hpc ((h.1.noWaitReq f fu hf).2 m)


/-! ## fair rounds drain the live futures -/

/-- a condition `C` on states that polls preserve, with a measure `M` that no poll increases and that
a poll of the lock owner (or, when the lock is free, of any live future) decreases -/
structure Drain (C : St → Prop) (M : St → Nat) : Prop where
  pres : ∀ s f, Inv s → C s → C (s.poll f)
  le : ∀ s f, Inv s → C s → M (s.poll f) ≤ M s
  lt : ∀ s f fu, Inv s → C s → findFut s.futs f = some fu → fu.isLive = true →
    (s.rxOwner = some f ∨ s.rxOwner = none) → M (s.poll f) < M s

/-- some future in `L` makes progress when polled: the lock owner, or (lock free) a live future -/
def Cand (s : St) (L : List Fid) : Prop :=
  (∃ g ∈ L, s.rxOwner = some g) ∨ (s.rxOwner = none ∧ ∃ g ∈ L, ∃ fu, findFut s.futs g = some fu ∧ fu.isLive = true)

theorem fold_poll {C : St → Prop} {M : St → Nat} (d : Drain C M) (L : List Fid) (s : St) (hi : Inv s) (hc : C s) :
    Inv (L.foldl St.poll s) ∧ C (L.foldl St.poll s) ∧ M (L.foldl St.poll s) ≤ M s ∧
      (Cand s L → M (L.foldl St.poll s) < M s) := by
  induction L generalizing s with
  | nil => exact ⟨hi, hc, Nat.le_refl _, by rintro (⟨g, hg, _⟩ | ⟨_, g, hg, _⟩) <;> cases hg⟩
  | cons f L ih =>
    have hi1 := poll_inv f hi
    have hc1 := d.pres s f hi hc
    have hle := d.le s f hi hc
    obtain ⟨h1, h2, h3, h4⟩ := ih (s.poll f) hi1 hc1
    refine ⟨h1, h2, Nat.le_trans h3 hle, ?_⟩
    intro hcand
    simp only [List.foldl_cons]
    rcases hcand with ⟨g, hg, ho⟩ | ⟨ho, g, hg, fu, hf, hl⟩
    · by_cases hgf : g = f
      · subst hgf
        obtain ⟨fu, hf, hpc⟩ := hi.2.ownOk g ho (by simp)
        have hl : fu.isLive = true := by rcases hpc with h | h <;> simp [Fut.isLive, h]
        exact Nat.lt_of_le_of_lt h3 (d.lt s g fu hi hc hf hl (.inl ho))
      · have hg' : g ∈ L := by simpa [hgf] using hg
        exact Nat.lt_of_lt_of_le (h4 (.inl ⟨g, hg', poll_owner_other hi ho hgf⟩)) hle
    · by_cases hlf : ∃ fu', findFut s.futs f = some fu' ∧ fu'.isLive = true
      · obtain ⟨fu', hf', hl'⟩ := hlf
        exact Nat.lt_of_le_of_lt h3 (d.lt s f fu' hi hc hf' hl' (.inr ho))
      · have hs : s.poll f = s := poll_not_live (fun fu' hf' => by
          cases hb : fu'.isLive with
          | false => rfl
          | true => exact absurd ⟨fu', hf', hb⟩ hlf)
        have hgf : g ≠ f := fun he => hlf ⟨fu, he ▸ hf, hl⟩
        have hg' : g ∈ L := by simpa [hgf] using hg
        rw [hs] at h4 ⊢
        exact h4 (.inr ⟨ho, g, hg', fu, hf, hl⟩)

theorem cand_round {s : St} (hi : Inv s) (hl : s.live ≠ []) : Cand s (s.live.map (·.fid)) := by
  cases ho : s.rxOwner with
  | none =>
    obtain ⟨fu, hfu⟩ := List.exists_mem_of_ne_nil _ hl
    have hm := hfu
    rw [St.live_eq, List.mem_filter] at hm
    exact .inr ⟨ho, fu.fid, List.mem_map.mpr ⟨fu, hfu, rfl⟩, fu, hi.find hm.1, hm.2⟩
  | some g =>
    obtain ⟨fu, hf, hpc⟩ := hi.2.ownOk g ho (by simp)
    refine .inl ⟨g, List.mem_map.mpr ⟨fu, ?_, findFut_fid hf⟩, ho⟩
    rw [St.live_eq, List.mem_filter]
    exact ⟨findFut_mem hf, by rcases hpc with h | h <;> simp [Fut.isLive, h]⟩

theorem round_drain {C : St → Prop} {M : St → Nat} (d : Drain C M) (s : St) (hi : Inv s) (hc : C s) :
    Inv s.round ∧ C s.round ∧ M s.round ≤ M s ∧ (s.live ≠ [] → M s.round < M s) := by
  obtain ⟨h1, h2, h3, h4⟩ := fold_poll d (s.live.map (·.fid)) s hi hc
  exact ⟨h1, h2, h3, fun hl => h4 (cand_round hi hl)⟩

theorem rounds_of_no_live (n : Nat) (s : St) (h : s.live = []) : St.rounds n s = s := by
  induction n with
  | zero => rfl
  | succ n ih =>
    have : s.round = s := by simp [St.round, h]
    simp [St.rounds, this, ih]

/-- fair rounds drain every live future within `M s` rounds -/
theorem rounds_drain {C : St → Prop} {M : St → Nat} (d : Drain C M) (n : Nat) (s : St) (hi : Inv s) (hc : C s)
    (hn : M s ≤ n) : Inv (St.rounds n s) ∧ C (St.rounds n s) ∧ (St.rounds n s).live = [] := by
  induction n generalizing s with
  | zero =>
    refine ⟨hi, hc, ?_⟩
    cases hl : s.live with
    | nil => exact hl
    | cons x xs =>
      have := (round_drain d s hi hc).2.2.2 (by simp [hl])
      omega
  | succ n ih =>
    by_cases hl : s.live = []
    · rw [rounds_of_no_live _ _ hl]; exact ⟨hi, hc, hl⟩
    · obtain ⟨h1, h2, _, h4⟩ := round_drain d s hi hc
      have := h4 hl
      exact ih s.round h1 h2 (by omega)


/-! ## case analysis of a poll -/

/-- polling `f` runs the `recv` loop: `f` is live and owns the lock or finds it free -/
def Runs (s : St) (f : Fid) : Prop :=
  ∃ fu, findFut s.futs f = some fu ∧ fu.isLive = true ∧ (s.rxOwner = some f ∨ s.rxOwner = none)

theorem set_owner_eq {s : St} {f : Fid} (h : s.rxOwner = some f) : ({ s with rxOwner := some f } : St) = s := by
  cases s; simp only [St.mk.injEq, true_and, and_true] at h ⊢; exact h.symm

/-- case analysis of a poll in a state satisfying the invariant -/
theorem poll_cases {motive : St → Prop} (s : St) (f : Fid) (h : Inv s)
    (skip : ¬ Runs s f → motive s)
    (enqueue : ∀ fu, findFut s.futs f = some fu → fu.pc = .start → ¬ Runs s f →
      motive { (s.withPc f .waitRx) with rxQueue := s.rxQueue ++ [f] })
    (run : ∀ fu b, findFut s.futs f = some fu → fu.isLive = true → Runs s f →
      Hold { s with rxOwner := some f } f → (b = true → findSlot s.slots fu.id = some .pending) →
      motive (St.runHolding (s.inbox.length + 2) { s with rxOwner := some f } f fu.id b)) :
    motive (s.poll f) := by
  unfold St.poll
  rw [St.fut_eq]
  split
  · rename_i hf
    exact skip (by rintro ⟨fu, hf', _⟩; rw [hf] at hf'; cases hf')
  · rename_i fu hf
    have hnl : fu.isLive = false → ¬ Runs s f := by
      rintro hl ⟨fu', hf', hl', _⟩
      rw [hf] at hf'; cases hf'; rw [hl] at hl'; cases hl'
    split
    · rename_i hpc; exact skip (hnl (by simp [Fut.isLive, hpc]))
    · rename_i hpc; exact skip (hnl (by simp [Fut.isLive, hpc]))
    · rename_i hpc
      have hl : fu.isLive = true := by simp [Fut.isLive, hpc]
      split
      · rename_i ho
        simp only [Bool.and_eq_true, Option.isNone_iff_eq_none, List.isEmpty_iff] at ho
        exact run fu false hf hl ⟨fu, hf, hl, .inr ho.1⟩ (hold_acquire h ho.1 hf) (by simp)
      · rename_i ho
        refine enqueue fu hf hpc ?_
        rintro ⟨fu', hf', _, ho' | ho'⟩
        · obtain ⟨fu'', hf'', hpc''⟩ := h.2.ownOk f ho' (by simp)
          rw [hf] at hf''; cases hf''
          rw [hpc] at hpc''; simp at hpc''
        · have := h.2.freeOk ho'
          simp [ho', this] at ho
    · rename_i hpc
      have hl : fu.isLive = true := by simp [Fut.isLive, hpc]
      split
      · rename_i ho
        have ho : s.rxOwner = some f := by simpa using ho
        have := run fu false hf hl ⟨fu, hf, hl, .inl ho⟩ (by rw [set_owner_eq ho]; exact hold_of_inv h ho hf) (by simp)
        rw [set_owner_eq ho] at this; exact this
      · rename_i ho
        have ho : s.rxOwner ≠ some f := by simpa using ho
        refine skip ?_
        rintro ⟨fu', hf', _, ho' | ho'⟩
        · exact ho ho'
        · rcases h.2.waitOk f fu hf (by simp) hpc with h1 | h1
          · exact ho h1
          · rw [h.2.freeOk ho'] at h1; cases h1
    · rename_i hpc; exact absurd hpc (h.1.noWaitReq f fu hf).1
    · rename_i hpc
      have hl : fu.isLive = true := by simp [Fut.isLive, hpc]
      have hr := h.2.readOk f fu hf (by simp) hpc
      have := run fu true hf hl ⟨fu, hf, hl, .inl hr.1⟩ (by rw [set_owner_eq hr.1]; exact hold_of_inv h hr.1 hf)
        (fun _ => hr.2)
      rw [set_owner_eq hr.1] at this; exact this
    · rename_i m hpc; exact absurd hpc ((h.1.noWaitReq f fu hf).2 m)


/-! ## polls only change program counters -/

/-- identity of a future: its fid and its message-id -/
def keys (l : List Fut) : List (Fid × Nat) := l.map fun x => (x.fid, x.id)

theorem keys_setPc (f : Fid) (pc : Pc) (l : List Fut) : keys (setPc f pc l) = keys l := by
  induction l with
  | nil => rfl
  | cons x xs ih =>
    simp only [setPc]
    split
    · simp [keys]
    · simp only [keys, List.map_cons] at ih ⊢; rw [ih]

theorem runHolding_keys (fuel : Nat) (s : St) (f : Fid) (id : Nat) (b : Bool) (las : s.lockAcrossSend = false)
    (hfuel : s.inbox.length < fuel) : keys (St.runHolding fuel s f id b).futs = keys s.futs := by
  refine runHolding_ind (P := fun s' _ => s'.lockAcrossSend = false ∧ keys s'.futs = keys s.futs)
    (Q := fun s' => keys s'.futs = keys s.futs) f id ?_ fuel s b ⟨las, rfl⟩ hfuel
  intro s' b' ⟨las', hk⟩
  apply iter_elim (motive := Iter.Post _ _) s' f id b' las' <;>
    simp only [Iter.Post, St.finish, St.withPc, releaseRx_eq, keys_setPc] <;> intros <;> simp [*]

theorem poll_keys {s : St} (f : Fid) (h : Inv s) : keys (s.poll f).futs = keys s.futs := by
  apply poll_cases (motive := fun s' => keys s'.futs = keys s.futs) s f h
  · intro _; rfl
  · intros; simp only [St.withPc, keys_setPc]
  · intro fu b _ _ _ hh _
    exact runHolding_keys _ _ f fu.id b hh.1.las (by simp)

theorem fold_poll_keys (L : List Fid) (s : St) (h : Inv s) : keys (L.foldl St.poll s).futs = keys s.futs := by
  induction L generalizing s with
  | nil => rfl
  | cons f L ih => simp only [List.foldl_cons]; rw [ih _ (poll_inv f h), poll_keys f h]

theorem fold_poll_inv (L : List Fid) (s : St) (h : Inv s) : Inv (L.foldl St.poll s) := by
  induction L generalizing s with
  | nil => exact h
  | cons f L ih => exact ih _ (poll_inv f h)

theorem round_inv {s : St} (h : Inv s) : Inv s.round := fold_poll_inv _ s h

theorem rounds_inv (n : Nat) {s : St} (h : Inv s) : Inv (St.rounds n s) := by
  induction n generalizing s with
  | zero => exact h
  | succ n ih => exact ih (round_inv h)

/-- fair rounds neither create nor remove futures, and never change a future's message-id -/
theorem rounds_keys (n : Nat) {s : St} (h : Inv s) : keys (St.rounds n s).futs = keys s.futs := by
  induction n generalizing s with
  | zero => rfl
  | succ n ih =>
    simp only [St.rounds]
    rw [ih (round_inv h)]
    exact fold_poll_keys _ s h

/-- the future with a given fid keeps its message-id -/
theorem id_of_keys {l l' : List Fut} (hk : keys l' = keys l) {g : Fid} {fu fu' : Fut}
    (hn : (l.map (·.fid)).Nodup) (h : findFut l g = some fu) (h' : findFut l' g = some fu') : fu'.id = fu.id := by
  have h1 : (fu'.fid, fu'.id) ∈ keys l := hk ▸ List.mem_map.mpr ⟨fu', findFut_mem h', rfl⟩
  obtain ⟨x, hx, he⟩ := List.mem_map.mp h1
  simp only [Prod.mk.injEq] at he
  have : x = fu := eq_of_map_nodup (·.fid) hn hx (findFut_mem h) (by rw [he.1, findFut_fid h', findFut_fid h])
  rw [← he.2, this]


/-! ## closed transport: every pending operation fails (C07) -/

theorem liveCount_done {l : List Fut} {f : Fid} {fu : Fut} (r : Res) (h : findFut l f = some fu) (hl : fu.isLive = true) :
    liveCount (setPc f (.done r) l) + 1 = liveCount l := by
  have := liveCount_setPc (.done r) h
  rw [hl] at this
  simpa [Fut.isLive] using this

theorem liveCount_keep {l : List Fut} {f : Fid} {fu : Fut} {pc : Pc} (h : findFut l f = some fu) (hl : fu.isLive = true)
    (hpc : ({ fu with pc := pc } : Fut).isLive = true) : liveCount (setPc f pc l) = liveCount l := by
  have := liveCount_setPc pc h
  rw [hl, hpc] at this
  simpa using this

/-- what a future gets whose own slot is in state `o` when the transport is closed and drained -/
def parkedRes : Option Slot → Res
  | some (.ready m) => if m.p2 then .ok m.tag else .err
  | _ => .err

/-- closed transport, nothing left to read; the futures selected by `F` are still live with their
slot as it was (`slot0`), or have finished with what was parked for them -/
structure ClosedC (F : Fid → Prop) (slot0 : Nat → Option Slot) (s : St) : Prop where
  closed : s.closed = true
  empty : s.inbox = []
  target : ∀ g fu, findFut s.futs g = some fu → F g →
    (fu.isLive = true ∧ findSlot s.slots fu.id = slot0 fu.id) ∨ fu.pc = .done (parkedRes (slot0 fu.id))

theorem iter_closed {s : St} {f : Fid} {id : Nat} {b : Bool} (las : s.lockAcrossSend = false)
    (hc : s.closed = true) (he : s.inbox = []) (hb : b = true → findSlot s.slots id = some .pending) :
    ∃ sl, (sl = s.slots ∨ sl = setSlot id .complete s.slots) ∧
      s.iter f id b = .stop (({ s with slots := sl }).finish f (parkedRes (findSlot s.slots id))) := by
  apply iter_elim (motive := fun it => ∃ sl, (sl = s.slots ∨ sl = setSlot id .complete s.slots) ∧
      it = .stop (({ s with slots := sl } : St).finish f (parkedRes (findSlot s.slots id)))) s f id b las
  · intro _ h; exact ⟨s.slots, .inl rfl, by rcases h with h | h <;> simp [h, parkedRes]⟩
  · intro m _ h; exact ⟨_, .inr rfl, by simp [h, parkedRes]⟩
  · intro h _ _
    have : findSlot s.slots id = some .pending := by rcases h with h | h; exact hb h; exact h
    exact ⟨s.slots, .inl rfl, by simp [this, parkedRes]⟩
  · intro _ _ h; simp [hc] at h
  · intro m rest _ h; simp [he] at h
  · intro m rest _ _ h; simp [he] at h
  · intro m rest _ _ h; simp [he] at h
  · intro m rest _ _ h; simp [he] at h

theorem closed_run {F : Fid → Prop} {slot0 : Nat → Option Slot} {s : St} {f : Fid} {fu : Fut} {b : Bool}
    (h : Hold s f) (hc : ClosedC F slot0 s) (hf : findFut s.futs f = some fu) (hl : fu.isLive = true)
    (hb : b = true → findSlot s.slots fu.id = some .pending) :
    ClosedC F slot0 (St.runHolding (s.inbox.length + 2) s f fu.id b) ∧
      liveCount (St.runHolding (s.inbox.length + 2) s f fu.id b).futs < liveCount s.futs := by
  have hfuel : s.inbox.length + 2 = (s.inbox.length + 1) + 1 := rfl
  obtain ⟨sl, hsl, he⟩ := iter_closed (f := f) h.1.las hc.closed hc.empty hb
  rw [hfuel, runHolding_succ, he]
  dsimp only
  simp only [St.finish, releaseRx_eq, St.withPc]
  constructor
  · refine ⟨hc.closed, hc.empty, ?_⟩
    simp only [findFut_setPc_some]
    rintro g fu' (⟨rfl, a, ha, rfl⟩ | ⟨hg, hf'⟩) hF
    · rw [hf] at ha; cases ha
      rcases hc.target g fu hf hF with ⟨_, h2⟩ | h2
      · right; rw [h2]
      · rw [Fut.isLive, h2] at hl; cases hl
    · rcases hc.target g fu' hf' hF with ⟨h1, h2⟩ | h2
      · left
        refine ⟨h1, ?_⟩
        rcases hsl with rfl | rfl
        · exact h2
        · rw [findSlot_setSlot, if_neg (fun he => hg (h.1.id_inj hf' hf he))]; exact h2
      · right; exact h2
  · have := liveCount_done (parkedRes (findSlot s.slots fu.id)) hf hl
    omega


theorem closed_poll {F : Fid → Prop} {slot0 : Nat → Option Slot} {s : St} (f : Fid) (h : Inv s) (hc : ClosedC F slot0 s) :
    ClosedC F slot0 (s.poll f) ∧ liveCount (s.poll f).futs ≤ liveCount s.futs ∧
      (Runs s f → liveCount (s.poll f).futs < liveCount s.futs) := by
  apply poll_cases (motive := fun s' => ClosedC F slot0 s' ∧ liveCount s'.futs ≤ liveCount s.futs ∧
      (Runs s f → liveCount s'.futs < liveCount s.futs)) s f h
  · intro hn; exact ⟨hc, Nat.le_refl _, fun hr => absurd hr hn⟩
  · intro fu hf hpc hn
    have hl : fu.isLive = true := by simp [Fut.isLive, hpc]
    refine ⟨⟨hc.closed, hc.empty, ?_⟩, ?_, fun hr => absurd hr hn⟩
    · simp only [St.withPc, findFut_setPc_some]
      rintro g fu' (⟨rfl, a, ha, rfl⟩ | ⟨hg, hf'⟩) hF
      · rw [hf] at ha; cases ha
        rcases hc.target g fu hf hF with ⟨_, h2⟩ | h2
        · left; exact ⟨by simp [Fut.isLive], h2⟩
        · rw [Fut.isLive, h2] at hl; cases hl
      · exact hc.target g fu' hf' hF
    · simp only [St.withPc]
      rw [liveCount_keep hf hl (by simp [Fut.isLive])]; exact Nat.le_refl _
  · intro fu b hf hl hr hh hb
    have hc1 : ClosedC F slot0 { s with rxOwner := some f } := ⟨hc.closed, hc.empty, hc.target⟩
    have := closed_run hh hc1 hf hl hb
    exact ⟨this.1, Nat.le_of_lt this.2, fun _ => this.2⟩

theorem closed_drain (F : Fid → Prop) (slot0 : Nat → Option Slot) :
    Drain (ClosedC F slot0) (fun s => liveCount s.futs) where
  pres _ f h hc := (closed_poll f h hc).1
  le _ f h hc := (closed_poll f h hc).2.1
  lt _ f fu h hc hf hl ho := (closed_poll f h hc).2.2 ⟨fu, hf, hl, ho⟩


theorem not_live_of_live_nil {s : St} (h : s.live = []) {fu : Fut} (hm : fu ∈ s.futs) : fu.isLive = false := by
  cases hl : fu.isLive with
  | false => rfl
  | true =>
    have : fu ∈ s.live := by rw [St.live_eq, List.mem_filter]; exact ⟨hm, hl⟩
    rw [h] at this; cases this

theorem closed_rounds {s : St} (h : Inv s) (hc : s.closed = true) (he : s.inbox = []) (n : Nat)
    (hn : s.live.length ≤ n) :
    (St.rounds n s).live = [] ∧ ∀ f0 ∈ s.live, ∀ f ∈ (St.rounds n s).futs, f.fid = f0.fid →
      f.id = f0.id ∧ f.pc = .done (parkedRes (s.slot f0.id)) := by
  let F : Fid → Prop := fun g => ∃ fu, findFut s.futs g = some fu ∧ fu.isLive = true
  have hc0 : ClosedC F (findSlot s.slots) s := by
    refine ⟨hc, he, ?_⟩
    rintro g fu hf ⟨fu', hf', hl⟩
    rw [hf] at hf'; cases hf'
    exact .inl ⟨hl, rfl⟩
  obtain ⟨hi', hc', hl'⟩ := rounds_drain (closed_drain F (findSlot s.slots)) n s h hc0 hn
  refine ⟨hl', ?_⟩
  intro f0 hf0 f hf hfid
  rw [St.live_eq, List.mem_filter] at hf0
  have h0 := h.find hf0.1
  have h1 := hi'.find hf
  rw [hfid] at h1
  have hid : f.id = f0.id := id_of_keys (rounds_keys n h) h.1.fidNodup h0 h1
  refine ⟨hid, ?_⟩
  rcases hc'.target f0.fid f h1 ⟨f0, h0, hf0.2⟩ with ⟨hl, _⟩ | hd
  · rw [not_live_of_live_nil hl' hf] at hl; cases hl
  · rw [hd, hid, St.slot_eq]


/-! ## responsive server: every live future completes with its own reply (C05 `all_complete`) -/

/-- responsive server, clean transport — on the components of the state that matter.
`tag k` is the payload of the reply to request `k`; the futures selected by `F` are still live or
have resolved with their reply. -/
structure CleanP (F : Fid → Prop) (tag : Nat → Nat) (closed : Bool) (inbox : List Msg)
    (slots : List (Nat × Slot)) (futs : List Fut) : Prop where
  open_ : closed = false
  inboxOk : ∀ m ∈ inbox, m.p2 = true ∧ ∃ k, m.id = some k ∧ findSlot slots k = some .pending ∧ m.tag = tag k
  inboxNodup : (inbox.map (·.id)).Nodup
  liveOk : ∀ g fu, findFut futs g = some fu → fu.isLive = true →
    (∃ m, findSlot slots fu.id = some (.ready m) ∧ m.p2 = true ∧ m.tag = tag fu.id) ∨ (∃ m ∈ inbox, m.id = some fu.id)
  target : ∀ g fu, findFut futs g = some fu → F g → fu.isLive = true ∨ fu.pc = .done (.ok (tag fu.id))

abbrev CleanC (F : Fid → Prop) (tag : Nat → Nat) (s : St) : Prop := CleanP F tag s.closed s.inbox s.slots s.futs

/-- the potential that fair rounds decrease -/
abbrev potential (s : St) : Nat := s.inbox.length + liveCount s.futs

variable {F : Fid → Prop} {tag : Nat → Nat} {closed : Bool} {inbox : List Msg} {slots : List (Nat × Slot)} {futs : List Fut}

theorem cleanP_park {m : Msg} {rest : List Msg} {mid : Nat} (h : CleanP F tag closed (m :: rest) slots futs)
    (hm : m.id = some mid) : CleanP F tag closed rest (setSlot mid (.ready m) slots) futs := by
  obtain ⟨h1, h2, h3, h4, h5⟩ := h
  have hm0 := h2 m (by simp)
  simp only [List.map_cons, List.nodup_cons, List.mem_map, not_exists, not_and] at h3
  refine ⟨h1, ?_, h3.2, ?_, h5⟩
  · intro m1 hm1
    obtain ⟨hp, k, hk, hs, ht⟩ := h2 m1 (by simp [hm1])
    refine ⟨hp, k, hk, ?_, ht⟩
    have : k ≠ mid := by
      intro he; subst he
      exact h3.1 m1 hm1 (by rw [hk, hm])
    rw [findSlot_setSlot, if_neg this]; exact hs
  · intro g fu hf hl
    obtain ⟨hp, k, hk, hs, ht⟩ := hm0
    rw [hm] at hk; cases hk
    by_cases hid : fu.id = mid
    · left
      refine ⟨m, ?_, hp, by rw [hid]; exact ht⟩
      rw [findSlot_setSlot, hid, if_pos rfl, hs]; rfl
    · rcases h4 g fu hf hl with ⟨m', hs', hp', ht'⟩ | ⟨m', hm', hid'⟩
      · left; refine ⟨m', ?_, hp', ht'⟩
        rw [findSlot_setSlot, if_neg hid]; exact hs'
      · right
        simp only [List.mem_cons] at hm'
        rcases hm' with rfl | hm'
        · rw [hm] at hid'; exact absurd (Option.some.inj hid').symm hid
        · exact ⟨m', hm', hid'⟩

theorem cleanP_setPc_live {f : Fid} {fu : Fut} {pc : Pc} (h : CleanP F tag closed inbox slots futs)
    (hf : findFut futs f = some fu) (hl : fu.isLive = true) (hpc : ({ fu with pc := pc } : Fut).isLive = true) :
    CleanP F tag closed inbox slots (setPc f pc futs) := by
  obtain ⟨h1, h2, h3, h4, h5⟩ := h
  refine ⟨h1, h2, h3, ?_, ?_⟩
  · simp only [findFut_setPc_some]
    rintro g fu' (⟨rfl, a, ha, rfl⟩ | ⟨hg, hf'⟩) hl'
    · rw [hf] at ha; cases ha; exact h4 g fu hf hl
    · exact h4 g fu' hf' hl'
  · simp only [findFut_setPc_some]
    rintro g fu' (⟨rfl, a, ha, rfl⟩ | ⟨hg, hf'⟩) hF
    · rw [hf] at ha; cases ha; exact .inl hpc
    · exact h5 g fu' hf' hF

theorem cleanP_complete {f : Fid} {fu : Fut} {m : Msg} (h : CleanP F tag closed inbox slots futs)
    (hinj : ∀ g fu', findFut futs g = some fu' → fu'.id = fu.id → g = f)
    (hf : findFut futs f = some fu) (hl : fu.isLive = true) (hs : findSlot slots fu.id = some (.ready m)) :
    (if m.p2 then Res.ok m.tag else Res.err) = .ok (tag fu.id) ∧
    CleanP F tag closed inbox (setSlot fu.id .complete slots) (setPc f (.done (.ok (tag fu.id))) futs) := by
  obtain ⟨h1, h2, h3, h4, h5⟩ := h
  have hnot : ∀ m1 ∈ inbox, m1.id ≠ some fu.id := by
    intro m1 hm1 he
    obtain ⟨_, k, hk, hs', _⟩ := h2 m1 hm1
    rw [he] at hk; cases hk
    rw [hs] at hs'; cases hs'
  constructor
  · rcases h4 f fu hf hl with ⟨m', hs', hp', ht'⟩ | ⟨m', hm', hid'⟩
    · rw [hs] at hs'; cases hs'
      simp [hp', ht']
    · exact absurd hid' (hnot m' hm')
  · refine ⟨h1, ?_, h3, ?_, ?_⟩
    · intro m1 hm1
      obtain ⟨hp, k, hk, hs', ht⟩ := h2 m1 hm1
      refine ⟨hp, k, hk, ?_, ht⟩
      have : k ≠ fu.id := by intro he; subst he; exact hnot m1 hm1 hk
      rw [findSlot_setSlot, if_neg this]; exact hs'
    · simp only [findFut_setPc_some]
      rintro g fu' (⟨rfl, a, ha, rfl⟩ | ⟨hg, hf'⟩) hl'
      · simp [Fut.isLive] at hl'
      · have hid : fu'.id ≠ fu.id := fun he => hg (hinj g fu' hf' he)
        rcases h4 g fu' hf' hl' with ⟨m', hs', hp', ht'⟩ | h
        · left; exact ⟨m', by rw [findSlot_setSlot, if_neg hid]; exact hs', hp', ht'⟩
        · right; exact h
    · simp only [findFut_setPc_some]
      rintro g fu' (⟨rfl, a, ha, rfl⟩ | ⟨hg, hf'⟩) hF
      · rw [hf] at ha; cases ha; right; rfl
      · exact h5 g fu' hf' hF


theorem cleanP_live_slot {g : Fid} {fu : Fut} (h : CleanP F tag closed inbox slots futs)
    (hf : findFut futs g = some fu) (hl : fu.isLive = true) :
    (∃ m, findSlot slots fu.id = some (.ready m)) ∨
      (findSlot slots fu.id = some .pending ∧ ∃ m ∈ inbox, m.id = some fu.id) := by
  rcases h.liveOk g fu hf hl with ⟨m, hs, _⟩ | ⟨m, hm, hid⟩
  · exact .inl ⟨m, hs⟩
  · obtain ⟨_, k, hk, hs, _⟩ := h.inboxOk m hm
    rw [hid] at hk; cases hk
    exact .inr ⟨hs, m, hm, hid⟩

theorem hold_again {s : St} {f : Fid} {m : Msg} {rest : List Msg} {mid : Nat} (h : Hold s f)
    (hi : s.inbox = m :: rest) (hm : m.id = some mid) :
    Hold { s with inbox := rest, slots := setSlot mid (.ready m) s.slots, rxOwner := some f } f := by
  have ho : s.rxOwner = some f := (h.2.holdOk f rfl).1
  have e : ({ s with inbox := rest, slots := setSlot mid (.ready m) s.slots, rxOwner := some f } : St)
      = { ({ s with inbox := rest } : St) with slots := setSlot mid (.ready m) s.slots } := by
    cases s; simp only [St.mk.injEq, true_and, and_true] at ho ⊢; exact ho.symm
  rw [e]
  exact hold_park (hold_inbox h hi) (h.1.inboxDel m (by simp [hi])) hm

theorem clean_run {s : St} {f : Fid} {fu : Fut} {b : Bool}
    (h : Hold s f) (hc : CleanC F tag s) (hf : findFut s.futs f = some fu) (hl : fu.isLive = true)
    (hb : b = true → findSlot s.slots fu.id = some .pending) :
    CleanC F tag (St.runHolding (s.inbox.length + 2) s f fu.id b) ∧
      potential (St.runHolding (s.inbox.length + 2) s f fu.id b) < potential s := by
  refine runHolding_ind
    (P := fun s' b' => Hold s' f ∧ CleanC F tag s' ∧ findFut s'.futs f = some fu ∧
      (b' = true → findSlot s'.slots fu.id = some .pending) ∧ potential s' ≤ potential s)
    (Q := fun s' => CleanC F tag s' ∧ potential s' < potential s) f fu.id ?_ _ s b
    ⟨h, hc, hf, hb, Nat.le_refl _⟩ (by omega)
  clear h hc hf hb
  intro s' b' ⟨h, hc, hf, hb, hM⟩
  have hls := cleanP_live_slot hc hf hl
  have hpend : (b' = true ∨ findSlot s'.slots fu.id = some .pending) → findSlot s'.slots fu.id = some .pending := by
    rintro (h' | h'); exact hb h'; exact h'
  have hne : findSlot s'.slots fu.id = some .pending → ∃ m ∈ s'.inbox, m.id = some fu.id := by
    intro hp
    rcases hls with ⟨m, hs⟩ | ⟨_, h2⟩
    · rw [hp] at hs; cases hs
    · exact h2
  apply iter_elim (motive := Iter.Post _ _) s' f fu.id b' h.1.las <;> simp only [Iter.Post]
  · -- own slot gone
    intro _ hs
    rcases hls with ⟨m, hs'⟩ | ⟨hs', _⟩ <;> rcases hs with hs | hs <;> rw [hs] at hs' <;> cases hs'
  · -- own slot ready
    intro m _ hs
    obtain ⟨hr, hc'⟩ := cleanP_complete hc (fun g fu' hg he => h.1.id_inj hg hf he) hf hl hs
    rw [hr]
    simp only [St.finish, releaseRx_eq, St.withPc]
    refine ⟨hc', ?_⟩
    have := liveCount_done (.ok (tag fu.id)) hf hl
    simp only [potential] at hM ⊢
    omega
  · intro _ _ hcl; rw [hc.open_] at hcl; cases hcl
  · intro hr hi _
    obtain ⟨m, hm, _⟩ := hne (hpend hr)
    rw [hi] at hm; cases hm
  · intro m rest _ hi hm
    obtain ⟨_, k, hk, _⟩ := hc.inboxOk m (by simp [hi])
    rw [hm] at hk; cases hk
  · intro m rest mid _ hi hm hs
    obtain ⟨_, k, hk, hs', _⟩ := hc.inboxOk m (by simp [hi])
    rw [hm] at hk; cases hk
    exact absurd hs' hs
  · -- park, lock handed on: queue again
    intro m rest mid _ hi hm _ _
    have hc1 : CleanP F tag s'.closed (m :: rest) s'.slots s'.futs := hi ▸ hc
    simp only [releaseRx_eq, St.withPc]
    refine ⟨cleanP_setPc_live (cleanP_park hc1 hm) hf hl (by simp [Fut.isLive]), ?_⟩
    simp only [potential] at hM ⊢
    rw [liveCount_keep hf hl (by simp [Fut.isLive])]
    rw [hi] at hM; simp only [List.length_cons] at hM
    omega
  · -- park, nobody waits: round the loop
    intro m rest mid _ hi hm _ _
    have hc1 : CleanP F tag s'.closed (m :: rest) s'.slots s'.futs := hi ▸ hc
    refine ⟨⟨hold_again h hi hm, cleanP_park hc1 hm, hf, by simp, ?_⟩, by simp [hi]⟩
    simp only [potential] at hM ⊢
    rw [hi] at hM; simp only [List.length_cons] at hM
    omega


theorem clean_poll {s : St} (f : Fid) (h : Inv s) (hc : CleanC F tag s) :
    CleanC F tag (s.poll f) ∧ potential (s.poll f) ≤ potential s ∧
      (Runs s f → potential (s.poll f) < potential s) := by
  apply poll_cases (motive := fun s' => CleanC F tag s' ∧ potential s' ≤ potential s ∧
      (Runs s f → potential s' < potential s)) s f h
  · intro hn; exact ⟨hc, Nat.le_refl _, fun hr => absurd hr hn⟩
  · intro fu hf hpc hn
    have hl : fu.isLive = true := by simp [Fut.isLive, hpc]
    refine ⟨cleanP_setPc_live hc hf hl (by simp [Fut.isLive]), ?_, fun hr => absurd hr hn⟩
    simp only [potential, St.withPc]
    rw [liveCount_keep hf hl (by simp [Fut.isLive])]; exact Nat.le_refl _
  · intro fu b hf hl hr hh hb
    have hc1 : CleanC F tag { s with rxOwner := some f } := hc
    have := clean_run hh hc1 hf hl hb
    exact ⟨this.1, Nat.le_of_lt this.2, fun _ => this.2⟩

theorem clean_drain (F : Fid → Prop) (tag : Nat → Nat) : Drain (CleanC F tag) potential where
  pres _ f h hc := (clean_poll f h hc).1
  le _ f h hc := (clean_poll f h hc).2.1
  lt _ f fu h hc hf hl ho := (clean_poll f h hc).2.2 ⟨fu, hf, hl, ho⟩

/-- the reply that is available for request `id`: parked in its slot, or still on the transport -/
def St.reply (s : St) (id : Nat) : Option Msg :=
  match s.slot id with
  | some (.ready m) => some m
  | _ => s.inbox.find? (·.id == some id)

/-- **responsive server, clean transport** (hypothesis of `all_complete`): the transport is open; every
message on it passes both parse phases, answers a pending request, and no two answer the same
request; the reply to every live future is parked (and passes phase 2) or on the transport. -/
def Clean (s : St) : Prop :=
  s.closed = false ∧
  (∀ m ∈ s.inbox, m.p2 = true ∧ m.id.bind s.slot = some .pending) ∧
  (s.inbox.map (·.id)).Nodup ∧
  (∀ fu ∈ s.live, (s.reply fu.id).map (·.p2) = some true)

instance (s : St) : Decidable (Clean s) := by unfold Clean; infer_instance

/-- the payload a live future is going to resolve with -/
def St.replyTag (s : St) (id : Nat) : Nat := ((s.reply id).map (·.tag)).getD 0


theorem find?_of_nodup_map {α β} [BEq β] [LawfulBEq β] (f : α → β) {l : List α} (h : (l.map f).Nodup) {a : α} (ha : a ∈ l) :
    l.find? (fun x => f x == f a) = some a := by
  cases hfind : l.find? (fun x => f x == f a) with
  | none =>
    rw [List.find?_eq_none] at hfind
    exact absurd (by simp) (hfind a ha)
  | some b =>
    have hb := List.mem_of_find?_eq_some hfind
    have he := List.find?_some hfind
    simp only [beq_iff_eq] at he
    rw [eq_of_map_nodup f h hb ha he]

theorem cleanC_of_clean {s : St} (hc : Clean s) :
    CleanC (fun g => ∃ fu, findFut s.futs g = some fu ∧ fu.isLive = true) s.replyTag s := by
  obtain ⟨h1, h2, h3, h4⟩ := hc
  have hreply : ∀ m ∈ s.inbox, ∀ k, m.id = some k → findSlot s.slots k = some .pending → s.reply k = some m := by
    intro m hm k hk hs
    simp only [St.reply, St.slot_eq, hs]
    rw [← hk]
    exact find?_of_nodup_map (·.id) h3 hm
  refine ⟨h1, ?_, h3, ?_, ?_⟩
  · intro m hm
    obtain ⟨hp, hb⟩ := h2 m hm
    refine ⟨hp, ?_⟩
    cases hk : m.id with
    | none => simp [hk] at hb
    | some k =>
      simp only [hk, Option.bind_some, St.slot_eq] at hb
      exact ⟨k, rfl, hb, by simp [St.replyTag, hreply m hm k hk hb]⟩
  · intro g fu hf hl
    have hm : fu ∈ s.live := by rw [St.live_eq, List.mem_filter]; exact ⟨findFut_mem hf, hl⟩
    have := h4 fu hm
    simp only [Option.map_eq_some_iff] at this
    obtain ⟨m, hr, hp⟩ := this
    simp only [St.reply, St.slot_eq] at hr
    split at hr
    · rename_i m' hs
      cases hr
      exact .inl ⟨m, hs, hp, by simp [St.replyTag, St.reply, St.slot_eq, hs]⟩
    · have hmem := List.mem_of_find?_eq_some hr
      have he := List.find?_some hr
      exact .inr ⟨m, hmem, by simpa using he⟩
  · rintro g fu hf ⟨fu', hf', hl⟩
    rw [hf] at hf'; cases hf'
    exact .inl hl

/-- under a responsive server, `inbox + live` fair rounds complete every live future with its reply -/
theorem clean_rounds {s : St} (h : Inv s) (hc : Clean s) (n : Nat) (hn : s.inbox.length + s.live.length ≤ n) :
    (St.rounds n s).live = [] ∧ ∀ f0 ∈ s.live, ∀ f ∈ (St.rounds n s).futs, f.fid = f0.fid →
      f.id = f0.id ∧ ∃ m, s.reply f0.id = some m ∧ f.pc = .done (.ok m.tag) := by
  obtain ⟨hi', hc', hl'⟩ := rounds_drain (clean_drain _ _) n s h (cleanC_of_clean hc) hn
  refine ⟨hl', ?_⟩
  intro f0 hf0 f hf hfid
  have hrep := hc.2.2.2 f0 hf0
  rw [St.live_eq, List.mem_filter] at hf0
  have h0 := h.find hf0.1
  have h1 := hi'.find hf
  rw [hfid] at h1
  have hid : f.id = f0.id := id_of_keys (rounds_keys n h) h.1.fidNodup h0 h1
  refine ⟨hid, ?_⟩
  simp only [Option.map_eq_some_iff] at hrep
  obtain ⟨m, hr, _⟩ := hrep
  refine ⟨m, hr, ?_⟩
  rcases hc'.target f0.fid f h1 ⟨f0, h0, hf0.2⟩ with hl | hd
  · rw [not_live_of_live_nil hl' hf] at hl; cases hl
  · rw [hd, hid]; simp [St.replyTag, hr]


/-! ## drops -/

/-- a drop touches neither the request map nor the transport -/
theorem drop_frame (s : St) (f : Fid) : (s.drop f).slots = s.slots ∧ (s.drop f).inbox = s.inbox ∧
    (s.drop f).closed = s.closed ∧ (s.drop f).sent = s.sent ∧ (s.drop f).delivered = s.delivered := by
  unfold St.drop
  split
  · simp
  · split <;> (try split) <;> simp [St.withPc, releaseRx_eq]

theorem drop_fut (s : St) (f g : Fid) :
    findFut (s.drop f).futs g = if g = f then (findFut s.futs f).map (fun x => if x.isLive then { x with pc := .dropped } else x)
      else findFut s.futs g := by
  unfold St.drop
  rw [St.fut_eq]
  split
  · rename_i hf
    by_cases hg : g = f <;> simp [hg, hf]
  · rename_i fu hf
    split <;> (try split) <;> rename_i hpc <;>
      (try simp only [St.withPc, releaseRx_eq, findFut_setPc]) <;> by_cases hg : g = f <;>
      simp [hg, hf, hpc, Fut.isLive] <;> (cases fu; simp_all)

theorem mem_live_iff {s : St} (h : Inv s) {fu : Fut} :
    fu ∈ s.live ↔ findFut s.futs fu.fid = some fu ∧ fu.isLive = true := by
  rw [St.live_eq, List.mem_filter]
  constructor
  · rintro ⟨h1, h2⟩; exact ⟨h.find h1, h2⟩
  · rintro ⟨h1, h2⟩; exact ⟨findFut_mem h1, h2⟩

/-- the live futures after a drop are the live futures before, minus the dropped one -/
theorem drop_live {s : St} (f : Fid) (h : Inv s) {fu : Fut} : fu ∈ (s.drop f).live ↔ fu ∈ s.live ∧ fu.fid ≠ f := by
  rw [mem_live_iff (drop_inv f h), mem_live_iff h, drop_fut]
  by_cases hg : fu.fid = f
  · simp only [hg, if_true, ne_eq, not_true_eq_false, and_false, iff_false, not_and, Option.map_eq_some_iff]
    rintro ⟨a, ha, he⟩ hl
    split at he
    · rw [← he] at hl; simp [Fut.isLive] at hl
    · rename_i hna; rw [he] at hna; exact hna hl
  · simp [hg]


/-- `Clean` only looks at the transport, the request map and the live futures -/
theorem clean_of_frame {s s' : St} (hc : Clean s) (h1 : s'.closed = s.closed) (h2 : s'.inbox = s.inbox)
    (h3 : s'.slots = s.slots) (h4 : ∀ fu ∈ s'.live, fu ∈ s.live) : Clean s' := by
  obtain ⟨c1, c2, c3, c4⟩ := hc
  have hslot : s'.slot = s.slot := by funext id; simp [St.slot, h3]
  refine ⟨by rw [h1]; exact c1, ?_, by rw [h2]; exact c3, ?_⟩
  · intro m hm
    rw [h2] at hm
    rw [hslot]; exact c2 m hm
  · intro fu hfu
    have := c4 fu (h4 fu hfu)
    simpa [St.reply, hslot, h2] using this

theorem clean_drop {s : St} (f : Fid) (h : Inv s) (hc : Clean s) : Clean (s.drop f) := by
  obtain ⟨h1, h2, h3, _, _⟩ := drop_frame s f
  exact clean_of_frame hc h3 h2 h1 (fun fu hfu => ((drop_live f h).mp hfu).1)

theorem drops_inv (ds : List Fid) {s : St} (h : Inv s) : Inv (ds.foldl St.drop s) := by
  induction ds generalizing s with
  | nil => exact h
  | cons f ds ih => exact ih (drop_inv f h)

theorem drops_clean (ds : List Fid) {s : St} (h : Inv s) (hc : Clean s) : Clean (ds.foldl St.drop s) := by
  induction ds generalizing s with
  | nil => exact hc
  | cons f ds ih => exact ih (drop_inv f h) (clean_drop f h hc)

theorem drops_live (ds : List Fid) {s : St} (h : Inv s) {fu : Fut} :
    fu ∈ (ds.foldl St.drop s).live ↔ fu ∈ s.live ∧ fu.fid ∉ ds := by
  induction ds generalizing s with
  | nil => simp
  | cons f ds ih =>
    simp only [List.foldl_cons, List.mem_cons, not_or]
    rw [ih (drop_inv f h), drop_live f h]
    constructor
    · rintro ⟨⟨a, b⟩, c⟩; exact ⟨a, b, c⟩
    · rintro ⟨a, b, c⟩; exact ⟨⟨a, b⟩, c⟩

theorem nodup_of_map {α β} (f : α → β) {l : List α} (h : (l.map f).Nodup) : l.Nodup := by
  rw [List.Nodup, List.pairwise_map] at h
  exact h.imp (fun {a b} (hab : f a ≠ f b) (he : a = b) => hab (he ▸ rfl))

theorem drops_frame (ds : List Fid) (s : St) :
    (ds.foldl St.drop s).inbox = s.inbox ∧ (ds.foldl St.drop s).slots = s.slots := by
  induction ds generalizing s with
  | nil => exact ⟨rfl, rfl⟩
  | cons d ds ih =>
    simp only [List.foldl_cons]
    rw [(ih (s.drop d)).1, (ih (s.drop d)).2]
    exact ⟨(drop_frame s d).2.1, (drop_frame s d).1⟩

theorem drops_live_length (ds : List Fid) {s : St} (h : Inv s) : (ds.foldl St.drop s).live.length ≤ s.live.length := by
  have hnd : (ds.foldl St.drop s).live.Nodup :=
    (nodup_of_map _ (drops_inv ds h).1.fidNodup).sublist List.filter_sublist
  exact List.Nodup.length_le_of_subset hnd (fun fu hfu => ((drops_live ds h).mp hfu).1)

theorem drops_run (ds : List Fid) (s : St) : ds.foldl St.drop s = s.run (ds.map .drop) := by
  simp only [St.run, List.foldl_map]; rfl

/-! ## after a message that fails phase 1 -/

/-- the state after `f` took the bad message `m` off the transport is clean provided the rest of the
transport and the other live futures are -/
theorem clean_after_bad {s : St} {f : Fid} {fu : Fut} {m : Msg} {rest : List Msg} (h : Inv s)
    (hf : findFut s.futs f = some fu) (hr : Reads s f fu) (hi : s.inbox = m :: rest) (hb : Bad s m)
    (hopen : s.closed = false)
    (hrest : ∀ m' ∈ rest, m'.p2 = true ∧ m'.id.bind s.slot = some .pending)
    (hnodup : (rest.map (·.id)).Nodup)
    (hothers : ∀ g ∈ s.live, g.fid ≠ f → (({ s with inbox := rest } : St).reply g.id).map (·.p2) = some true) :
    Clean (s.poll f) := by
  have hinv' := poll_inv f h
  have e := poll_bad_msg h hf hr hi hb
  refine ⟨by rw [e]; exact hopen, ?_, by rw [e]; exact hnodup, ?_⟩
  · rw [e]; exact hrest
  · intro g hg
    have hg' := (mem_live_iff hinv').mp hg
    rw [e] at hg'
    simp only [findFut_setPc_some] at hg'
    rcases hg' with ⟨⟨hgf, a, _, ha⟩ | ⟨hgf, hfg⟩, hl⟩
    · rw [ha] at hl; simp [Fut.isLive] at hl
    · have := hothers g ((mem_live_iff h).mpr ⟨hfg, hl⟩) hgf
      rw [e]; exact this

/-! ## closed transport: single polls and sends -/

theorem closed_poll_result {s : St} {f : Fid} {fu : Fut} (h : Inv s) (hc : s.closed = true) (he : s.inbox = [])
    (hf : findFut s.futs f = some fu) (hl : fu.isLive = true) (ho : s.rxOwner = some f ∨ s.rxOwner = none) :
    findFut (s.poll f).futs f = some { fu with pc := .done (parkedRes (s.slot fu.id)) } := by
  have hruns : Runs s f := ⟨fu, hf, hl, ho⟩
  apply poll_cases (motive := fun s' => findFut s'.futs f = some { fu with pc := .done (parkedRes (s.slot fu.id)) }) s f h
  · intro hn; exact absurd hruns hn
  · intro _ _ _ hn; exact absurd hruns hn
  · intro fu' b hf' _ _ hh hb
    rw [hf] at hf'; cases hf'
    have hfuel : s.inbox.length + 2 = (s.inbox.length + 1) + 1 := rfl
    obtain ⟨sl, _, hiter⟩ := iter_closed (s := { s with rxOwner := some f }) (f := f) hh.1.las hc he hb
    rw [hfuel, runHolding_succ, hiter]
    simp [St.finish, releaseRx_eq, St.withPc, findFut_setPc, hf, St.slot_eq]

theorem closed_send {s : St} (h : Inv s) (hc : s.closed = true) (b : Bool) :
    s.send b = ({ s with nextId := s.nextId + 1 }, .sendErr) := by
  have hr := h.1.closedRpc hc
  unfold St.send
  simp only [hr, Option.isSome_none, Bool.false_eq_true, if_false, hc, if_true]
  split <;> rfl

/-! ## a new request in a usable session -/

theorem open_send {s : St} (h : Inv s) (hr : s.rpc = none) (hc : s.closed = false) (hg : s.gateOpen = true) :
    s.send true = ({ s with nextId := s.nextId + 1, slots := s.slots ++ [(s.nextId + 1, .pending)],
                            sent := s.sent ++ [s.nextId + 1],
                            futs := s.futs ++ [{ fid := s.nextFid, id := s.nextId + 1, pc := .start }],
                            nextFid := s.nextFid + 1 }, .sendOk s.nextFid (s.nextId + 1)) ∧
    (s.nextId + 1) ∉ s.sent ∧ (∀ fu ∈ s.futs, fu.id ≠ s.nextId + 1 ∧ fu.fid ≠ s.nextFid) ∧
    findSlot s.slots (s.nextId + 1) = none ∧ (s.send true).1.slot (s.nextId + 1) = some .pending := by
  have e : s.send true = (({ s with
      nextId := s.nextId + 1, slots := s.slots ++ [(s.nextId + 1, .pending)], sent := s.sent ++ [s.nextId + 1],
      futs := s.futs ++ [{ fid := s.nextFid, id := s.nextId + 1, pc := .start }],
      nextFid := s.nextFid + 1 } : St), .sendOk s.nextFid (s.nextId + 1)) := by
    unfold St.send
    simp [hr, hc, hg, St.register]
  have h1 : (s.nextId + 1) ∉ s.sent := fun hm => by have := h.1.sentLe _ hm; omega
  have h3 : findSlot s.slots (s.nextId + 1) = none := by
    cases hs : findSlot s.slots (s.nextId + 1) with
    | none => rfl
    | some sl => have := h.1.keysLe _ _ hs; omega
  refine ⟨e, h1, ?_, h3, ?_⟩
  · intro fu hfu
    constructor
    · intro he; apply h1; rw [← h.1.idsSent, ← he]; exact List.mem_map.mpr ⟨fu, hfu, rfl⟩
    · intro he
      have := h.1.fidLt fu.fid (List.mem_map.mpr ⟨fu, hfu, rfl⟩)
      rw [he] at this; exact Nat.lt_irrefl _ this
  · rw [e]; simp [St.slot_eq, findSlot_append, h3]


/-- dropping the lock owner hands the lock to the first waiter (or frees it) -/
theorem drop_owner {s : St} {f : Fid} (h : Inv s) (ho : s.rxOwner = some f) :
    (s.drop f).rxOwner = s.rxQueue.head? ∧ (s.drop f).rxQueue = s.rxQueue.tail ∧ (s.drop f).rxOwner ≠ some f := by
  obtain ⟨fu, hf, hpc⟩ := h.2.ownOk f ho (by simp)
  have h12 : (s.drop f).rxOwner = s.rxQueue.head? ∧ (s.drop f).rxQueue = s.rxQueue.tail := by
    unfold St.drop
    rw [St.fut_eq, hf]
    rcases hpc with hpc | hpc <;> simp [hpc, ho, St.withPc, releaseRx_eq]
  refine ⟨h12.1, h12.2, ?_⟩
  rw [h12.1]
  intro he
  have hm : f ∈ s.rxQueue := List.mem_of_mem_head? (by rw [he]; rfl)
  exact (h.2.qOk f hm).2.1 ho

end Session
