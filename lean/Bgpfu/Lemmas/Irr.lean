import Bgpfu.Lemmas.Closure
import Bgpfu.Lemmas.Rpsl
/-!
Lemmas about the connection / pipeline model and the four resolvers of `Model/Irr.lean`.
-/
namespace Irr
open Rpsl RpslSpec

/-! ### what the server answers to a batch of queries -/

def answers (sv : Server) : Nat → List Query → List (Query × Response)
  | _, [] => []
  | i, q :: qs => (q, respond sv i q) :: answers sv (i + 1) qs

theorem answers_fst (sv : Server) (i : Nat) (qs : List Query) :
    (answers sv i qs).map (·.1) = qs := by
  induction qs generalizing i with
  | nil => rfl
  | cons q qs ih => simp [answers, ih]

theorem respond_faultfree (db : Db) (i : Nat) (q : Query) :
    respond { db := db, faults := [] } i q = serve db q := by
  simp [respond]

theorem answers_faultfree (db : Db) (i : Nat) (qs : List Query) :
    answers { db := db, faults := [] } i qs = qs.map fun q => (q, serve db q) := by
  induction qs generalizing i with
  | nil => rfl
  | cons q qs ih => simp [answers, ih, respond_faultfree]

/-! ### events -/

def sents : List Event → List (Query × Response)
  | [] => []
  | .sent _ q r :: es => (q, r) :: sents es
  | .recv _ _ _ :: es => sents es

def recvs : List Event → List (Query × Response)
  | [] => []
  | .sent _ _ _ :: es => recvs es
  | .recv _ sq r :: es => (sq, r) :: recvs es

/-- every response the client consumed was attributed to the query the server answered -/
def Attributed : List Event → Prop
  | [] => True
  | .sent _ _ _ :: es => Attributed es
  | .recv cq sq _ :: es => cq = sq ∧ Attributed es

theorem sents_append (a b : List Event) : sents (a ++ b) = sents a ++ sents b := by
  induction a with
  | nil => rfl
  | cons e a ih => cases e <;> simp [sents, ih]

theorem recvs_append (a b : List Event) : recvs (a ++ b) = recvs a ++ recvs b := by
  induction a with
  | nil => rfl
  | cons e a ih => cases e <;> simp [recvs, ih]

theorem attributed_append (a b : List Event) : Attributed (a ++ b) ↔ Attributed a ∧ Attributed b := by
  induction a with
  | nil => simp [Attributed]
  | cons e a ih => cases e <;> simp [Attributed, ih, and_assoc]

/-- the events of a completed exchange: consumed responses are correctly attributed, and they are
exactly the responses the server sent, in the order it sent them, each once -/
def EvOk (ev : List Event) : Prop := Attributed ev ∧ recvs ev = sents ev

theorem EvOk.nil : EvOk [] := ⟨trivial, rfl⟩

theorem EvOk.append {a b : List Event} (ha : EvOk a) (hb : EvOk b) : EvOk (a ++ b) :=
  ⟨(attributed_append a b).mpr ⟨ha.1, hb.1⟩, by rw [recvs_append, sents_append, ha.2, hb.2]⟩

/-! ### pipeline invariant -/

/-- the evaluator holds its connection and nothing is outstanding on it -/
def Clean (st : Ev) : Prop := ∃ c, st.conn = some c ∧ c.unread = []

structure PInv (p : Pipe) : Prop where
  /-- the client's queue of in-flight queries is the list of queries whose answers are outstanding -/
  aligned : p.conn.unread.map (·.1) = p.queue
  attributed : Attributed p.ev
  /-- consumed ++ outstanding = sent -/
  balance : recvs p.ev ++ p.conn.unread = sents p.ev

theorem PInv.new (c : Conn) (h : c.unread = []) : PInv (Pipe.new c) :=
  ⟨by simp [Pipe.new, h], trivial, by simp [Pipe.new, h, recvs, sents]⟩

theorem PInv.push {p : Pipe} (sv : Server) (q : Query) (h : PInv p) : PInv (push sv q p) := by
  refine ⟨?_, ?_, ?_⟩
  · simp [Irr.push, h.aligned]
  · simp only [Irr.push]
    exact (attributed_append _ _).mpr ⟨h.attributed, by simp [Attributed]⟩
  · simp only [Irr.push, recvs_append, sents_append, recvs, sents, List.append_nil]
    rw [← List.append_assoc, h.balance]

theorem push_nq (sv : Server) (q : Query) (p : Pipe) : (push sv q p).conn.nq = p.conn.nq + 1 := rfl

theorem PInv.pushAll {p : Pipe} (sv : Server) (qs : List Query) (h : PInv p) :
    PInv (pushAll sv qs p) := by
  induction qs generalizing p with
  | nil => exact h
  | cons q qs ih => exact ih (h.push sv q)

theorem pushAll_unread (sv : Server) (qs : List Query) (p : Pipe) :
    (pushAll sv qs p).conn.unread = p.conn.unread ++ answers sv p.conn.nq qs := by
  induction qs generalizing p with
  | nil => simp [pushAll, answers]
  | cons q qs ih =>
    rw [pushAll, ih]
    simp [Irr.push, answers]

theorem pop_spec {p : Pipe} (h : PInv p) (q : Query) (r : Response) (us : List (Query × Response))
    (hu : p.conn.unread = (q, r) :: us) :
    ∃ p', pop p = (some r, p') ∧ PInv p' ∧ p'.conn.unread = us ∧ p'.conn.nq = p.conn.nq := by
  have hq : p.queue = q :: us.map (·.1) := by rw [← h.aligned, hu]; rfl
  refine ⟨{ conn := { p.conn with unread := us }, queue := us.map (·.1), ev := p.ev ++ [.recv q q r] },
    ?_, ⟨rfl, ?_, ?_⟩, rfl, rfl⟩
  · simp [pop, hq, hu]
  · exact (attributed_append _ _).mpr ⟨h.attributed, by simp [Attributed]⟩
  · have := h.balance
    rw [hu] at this
    simp only [recvs_append, sents_append, recvs, sents, List.append_nil]
    rw [List.append_assoc]
    simpa using this

theorem popN_spec (us : List (Query × Response)) (p : Pipe) (h : PInv p) (hu : p.conn.unread = us) :
    ∃ p', popN us.length p = (us.map (·.2), p') ∧ PInv p' ∧ p'.queue = [] ∧ p'.conn.unread = [] ∧
      p'.conn.nq = p.conn.nq := by
  induction us generalizing p with
  | nil =>
    refine ⟨p, rfl, h, ?_, hu, rfl⟩
    rw [← h.aligned, hu]; rfl
  | cons u us ih =>
    obtain ⟨q, r⟩ := u
    obtain ⟨p1, h1, h2, h3, h4⟩ := pop_spec h q r us hu
    obtain ⟨p2, h5, h6, h7, h8, h9⟩ := ih p1 h2 h3
    refine ⟨p2, ?_, h6, h7, h8, by rw [h9, h4]⟩
    simp [popN, h1, h5]

theorem responses_spec (p : Pipe) (h : PInv p) :
    ∃ p', responses p = (p.conn.unread.map (·.2), p') ∧ PInv p' ∧ p'.queue = [] ∧
      p'.conn.unread = [] ∧ p'.conn.nq = p.conn.nq := by
  have hl : p.queue.length = p.conn.unread.length := by rw [← h.aligned]; simp
  unfold responses
  rw [hl]
  exact popN_spec _ p h rfl

theorem drop_spec (p : Pipe) (h : PInv p) :
    ∃ ev, p.drop = ({ unread := [], nq := p.conn.nq }, ev) ∧ EvOk ev := by
  obtain ⟨p', h1, h2, _, h4, h5⟩ := responses_spec p h
  refine ⟨p'.ev, ?_, h2.attributed, ?_⟩
  · simp only [Pipe.drop, h1]
    have : p'.conn = { unread := [], nq := p.conn.nq } := by
      cases hc : p'.conn with
      | mk u n => rw [hc] at h4 h5; simp at h4 h5; rw [h4, h5]
    rw [this]
  · have := h2.balance
    rw [h4] at this
    simpa using this

/-! ### the resolvers keep the evaluator clean and their exchanges are well attributed -/

theorem withConn_inv {α : Type} (f : Conn → Outcome α × Conn × List Event) (st : Ev) (hst : Clean st)
    (hf : ∀ c, c.unread = [] → (f c).2.1.unread = [] ∧ EvOk (f c).2.2) :
    Clean (withConn f st).2.1 ∧ EvOk (withConn f st).2.2 := by
  obtain ⟨c, hc, hu⟩ := hst
  rcases hfc : f c with ⟨o, c', ev⟩
  have := hf c hu
  rw [hfc] at this
  simp only [withConn, hc, hfc]
  exact ⟨⟨c', rfl, this.1⟩, this.2⟩

theorem finish_inv (p : Pipe) (h : PInv p) : p.drop.1.unread = [] ∧ EvOk p.drop.2 := by
  obtain ⟨ev, h1, h2⟩ := drop_spec p h
  rw [h1]
  exact ⟨rfl, h2⟩

theorem resolveAutNum_inv (sv : Server) (a : Nat) (st : Ev) (hst : Clean st) :
    Clean (resolveAutNum sv a st).2.1 ∧ EvOk (resolveAutNum sv a st).2.2 := by
  unfold resolveAutNum
  apply withConn_inv _ st hst
  intro c hc
  have hp := (PInv.new c hc).pushAll sv [.routes4 a, .routes6 a]
  obtain ⟨p', h1, h2, _⟩ := responses_spec _ hp
  simp only [h1]
  exact finish_inv p' h2

theorem resolveRouteSet_inv (cfg : Cfg) (sv : Server) (n : String) (st : Ev) (hst : Clean st) :
    Clean (resolveRouteSet cfg sv n st).2.1 ∧ EvOk (resolveRouteSet cfg sv n st).2.2 := by
  unfold resolveRouteSet
  apply withConn_inv _ st hst
  intro c hc
  have hp := (PInv.new c hc).push sv (.routeSetMembers n)
  obtain ⟨p', h1, h2, _⟩ := responses_spec _ hp
  simp only [h1]
  exact finish_inv p' h2

theorem resolveFilterSet_inv (sv : Server) (n : String) (st : Ev) (hst : Clean st) :
    Clean (resolveFilterSet sv n st).2.1 ∧ EvOk (resolveFilterSet sv n st).2.2 := by
  unfold resolveFilterSet
  apply withConn_inv _ st hst
  intro c hc
  have hp := (PInv.new c hc).push sv (.filterSet n)
  obtain ⟨p', h1, h2, _⟩ := responses_spec _ hp
  simp only [h1]
  exact finish_inv p' h2

/-- the first pop of the as-set resolver -/
theorem pop_first (sv : Server) (q : Query) (c : Conn) (hc : c.unread = []) :
    ∃ p', pop (push sv q (Pipe.new c)) = (some (respond sv c.nq q), p') ∧ PInv p' ∧
      p'.conn.unread = [] ∧ p'.conn.nq = c.nq + 1 := by
  have hp := (PInv.new c hc).push sv q
  have hu : (push sv q (Pipe.new c)).conn.unread = [(q, respond sv c.nq q)] := by
    simp [Irr.push, Pipe.new, hc]
  obtain ⟨p', h1, h2, h3, h4⟩ := pop_spec hp q _ [] hu
  exact ⟨p', h1, h2, h3, by rw [h4]; rfl⟩

theorem resolveAsSet_inv (sv : Server) (n : String) (st : Ev) (hst : Clean st) :
    Clean (resolveAsSet sv n st).2.1 ∧ EvOk (resolveAsSet sv n st).2.2 := by
  unfold resolveAsSet
  apply withConn_inv _ st hst
  intro c hc
  obtain ⟨p1, h1, h2, _⟩ := pop_first sv (.asSetMembers n) c hc
  simp only [h1]
  cases hr : respond sv c.nq (.asSetMembers n) with
  | err e => exact finish_inv p1 h2
  | empty =>
    simp only []
    have hp := h2.pushAll sv (Response.empty.items.flatMap followUps)
    obtain ⟨p', h3, h4, _⟩ := responses_spec _ hp
    simp only [h3]
    exact finish_inv p' h4
  | data items =>
    simp only []
    have hp := h2.pushAll sv ((Response.data items).items.flatMap followUps)
    obtain ⟨p', h3, h4, _⟩ := responses_spec _ hp
    simp only [h3]
    exact finish_inv p' h4

theorem resolvePeerAs_inv (cfg : Cfg) (st : Ev) (hst : Clean st) :
    Clean (resolvePeerAs cfg st).2.1 ∧ EvOk (resolvePeerAs cfg st).2.2 := by
  unfold resolvePeerAs
  split <;> exact ⟨hst, EvOk.nil⟩

theorem beginEval_clean (st : Ev) (h : Clean st) : Clean (beginEval st) := by
  obtain ⟨c, hc, hu⟩ := h
  exact ⟨{ c with nq := 0 }, by simp [beginEval, hc], hu⟩

theorem eval_inv' (cfg : Cfg) (sv : Server) (fuel : Nat) (e : Expr) (st : Ev) (hst : Clean st) :
    Clean (eval (resolvers cfg sv) fuel e st).2.1 ∧ EvOk (eval (resolvers cfg sv) fuel e st).2.2 :=
  eval_inv (resolvers cfg sv) Clean EvOk EvOk.nil
    (fun _ _ => EvOk.append)
    (fun n s hs => resolveFilterSet_inv _ n s hs)
    (fun n s hs => resolveAsSet_inv _ n s hs)
    (fun n s hs => resolveRouteSet_inv cfg _ n s hs)
    (fun a s hs => resolveAutNum_inv _ a s hs)
    (fun s hs => resolvePeerAs_inv cfg s hs)
    fuel e st hst

/-- every evaluation, whatever its outcome and whatever the server answers, leaves the evaluator
clean and produces well-attributed exchanges -/
theorem evaluate_inv (cfg : Cfg) (db : Db) (fuel : Nat) (e : Expr) (faults : Faults) (st : Ev)
    (hst : Clean st) :
    Clean (evaluate cfg db fuel e faults st).2.1 ∧ EvOk (evaluate cfg db fuel e faults st).2.2 := by
  unfold evaluate
  exact eval_inv' cfg _ fuel e _ (beginEval_clean st hst)

end Irr
