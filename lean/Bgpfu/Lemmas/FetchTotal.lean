import Bgpfu.Model.Fetch
import Bgpfu.Lemmas.Totality
/-! Totality of the configuration readers (C16 / C14 pattern): on EVERY event list — grammar document
or not — every loop consumes an event per iteration and `evs.length + 1` iterations suffice, so the
model artefact `Err.fuel` is never the answer of `readCandidates`. -/
namespace Xml

theorem skipToEnd_err (name : String) (evs : List Ev) (d : Nat) (e : Err)
    (h : skipToEnd name evs d = .error e) : e ≠ .fuel := by
  intro he; subst he; exact skipToEnd_not_fuel name evs d h

theorem attrLoop_err (p : String → Option String) (acc : Option FExpr) (l : List AttrItem) (e : Err)
    (h : attrLoop p acc l = .error e) : e ≠ .fuel := by
  fun_induction attrLoop p acc l <;> grind

theorem readName_shorter (u : String → Option String) (t : Tag) (evs rest : List Ev) (n : String)
    (h : readName u t evs = .ok (n, rest)) : rest.length < evs.length := by
  unfold readName at h
  split at h
  · cases h
  · rename_i s r hr
    split at h
    · simp only [Except.ok.injEq, Prod.mk.injEq] at h
      rw [← h.2]; exact readText_shorter _ _ _ _ hr
    · cases h

theorem readName_err (u : String → Option String) (t : Tag) (evs : List Ev) (e : Err)
    (h : readName u t evs = .error e) : e ≠ .fuel := by
  unfold readName at h
  split at h
  · rename_i e' he; simp only [Except.error.injEq] at h; subst h; exact readText_err _ _ _ he
  · split at h
    · cases h
    · cases h; simp

theorem thenLoop_good (c : FCfg) (fuel : Nat) (endRaw : String) (rj ot : Bool) (evs : List Ev) :
    Good evs fuel (thenLoop c fuel endRaw rj ot evs) := by
  fun_induction thenLoop c fuel endRaw rj ot evs <;> simp_all [Good] <;>
    grind [→ skipToEnd_shorter, → skipToEnd_err]

theorem thenLoop_shorter (c : FCfg) (fuel : Nat) (endRaw : String) (rj ot : Bool) (evs rest : List Ev) (v : Bool × Bool)
    (h : thenLoop c fuel endRaw rj ot evs = .ok (v, rest)) : rest.length < evs.length :=
  (thenLoop_good c fuel endRaw rj ot evs).1 v rest h

theorem thenLoop_err (c : FCfg) (fuel : Nat) (endRaw : String) (rj ot : Bool) (evs : List Ev)
    (h : thenLoop c fuel endRaw rj ot evs = .error .fuel) : fuel ≤ evs.length := by
  have := (thenLoop_good c fuel endRaw rj ot evs).2
  grind

theorem bodyLoop_good (c : FCfg) (u : String → Option String) (fuel : Nat) (endRaw : String) (st : BodySt) (evs : List Ev) :
    Good evs fuel (bodyLoop c u fuel endRaw st evs) := by
  fun_induction bodyLoop c u fuel endRaw st evs <;> simp_all [Good] <;>
    grind [→ skipToEnd_shorter, → skipToEnd_err, → readName_shorter, → readName_err, → thenLoop_shorter, → thenLoop_err]

theorem finish_err' (st : BodySt) (fe : FExpr) (e : Err) (h : st.finish fe = .error e) : e ≠ .fuel := by
  unfold BodySt.finish at h
  split at h
  · split at h
    · cases h
    · cases h; simp
  · cases h

theorem skipStmt_good {α} (fuel : Nat) (t : Tag) (evs : List Ev) :
    Good evs fuel (skipStmt t evs : Except Err (Option α × List Ev)) := by
  unfold skipStmt
  split
  · rename_i r hr
    constructor
    · intro v rest h; simp only [Except.ok.injEq, Prod.mk.injEq] at h; rw [← h.2]; exact skipToEnd_shorter _ _ _ _ hr
    · simp
  · rename_i e he
    constructor
    · simp
    · intro _ h; simp only [Except.error.injEq] at h; subst h; exact skipToEnd_not_fuel _ _ _ he

/-- a statement reader that consumes input and needs no more fuel than events -/
def GoodReader {T} (rd : StmtReader T) : Prop := ∀ fuel t evs, Good evs fuel (rd fuel t evs)

theorem readCandidate_good (c : FCfg) (p u : String → Option String) : GoodReader (readCandidate c p u) := by
  intro fuel t evs
  unfold readCandidate
  split
  · rename_i e he; have := attrLoop_err _ _ _ _ he; simp [Good, this]
  · exact skipStmt_good fuel t evs
  · exact skipStmt_good fuel t evs
  · have hb := bodyLoop_good c u fuel t.raw {} evs
    split
    · rename_i e he
      constructor
      · simp
      · intro hf h; simp only [Except.error.injEq] at h; subst h; exact hb.2 hf he
    · rename_i st r hr
      split
      · rename_i e he; have := finish_err' _ _ _ he; simp [Good, this]
      · constructor
        · intro v rest h; simp only [Except.ok.injEq, Prod.mk.injEq] at h; rw [← h.2]; exact hb.1 _ _ hr
        · simp

theorem rd_shorter {T} (rd : StmtReader T) (h : GoodReader rd) (fuel : Nat) (t : Tag) (evs rest : List Ev)
    (v : Option (String × T)) (hr : rd fuel t evs = .ok (v, rest)) : rest.length < evs.length :=
  (h fuel t evs).1 v rest hr

theorem rd_err {T} (rd : StmtReader T) (h : GoodReader rd) (fuel : Nat) (t : Tag) (evs : List Ev)
    (hr : rd fuel t evs = .error .fuel) : fuel ≤ evs.length := by
  have := (h fuel t evs).2
  grind

theorem policyOptionsLoop_good {T} (rd : StmtReader T) (h : GoodReader rd) (fuel : Nat) (endRaw : String)
    (map : List (String × T)) (evs : List Ev) : Good evs fuel (policyOptionsLoop rd fuel endRaw map evs) := by
  have h1 := rd_shorter rd h
  have h2 := rd_err rd h
  fun_induction policyOptionsLoop rd fuel endRaw map evs <;> simp_all [Good] <;> grind

theorem policyOptionsLoop_shorter {T} (rd : StmtReader T) (h : GoodReader rd) (fuel : Nat) (endRaw : String)
    (map v : List (String × T)) (evs rest : List Ev)
    (hr : policyOptionsLoop rd fuel endRaw map evs = .ok (v, rest)) : rest.length < evs.length :=
  (policyOptionsLoop_good rd h fuel endRaw map evs).1 v rest hr

theorem policyOptionsLoop_err {T} (rd : StmtReader T) (h : GoodReader rd) (fuel : Nat) (endRaw : String)
    (map : List (String × T)) (evs : List Ev)
    (hr : policyOptionsLoop rd fuel endRaw map evs = .error .fuel) : fuel ≤ evs.length := by
  have := (policyOptionsLoop_good rd h fuel endRaw map evs).2
  grind

theorem configurationLoop_good {T} (rd : StmtReader T) (h : GoodReader rd) (fuel : Nat) (endRaw : String) (seen : Bool)
    (map : List (String × T)) (evs : List Ev) : Good evs fuel (configurationLoop rd fuel endRaw seen map evs) := by
  have h1 := policyOptionsLoop_shorter rd h
  have h2 := policyOptionsLoop_err rd h
  fun_induction configurationLoop rd fuel endRaw seen map evs <;> simp_all [Good] <;> grind

theorem configurationLoop_shorter {T} (rd : StmtReader T) (h : GoodReader rd) (fuel : Nat) (endRaw : String) (seen : Bool)
    (map v : List (String × T)) (evs rest : List Ev)
    (hr : configurationLoop rd fuel endRaw seen map evs = .ok (v, rest)) : rest.length < evs.length :=
  (configurationLoop_good rd h fuel endRaw seen map evs).1 v rest hr

theorem configurationLoop_err {T} (rd : StmtReader T) (h : GoodReader rd) (fuel : Nat) (endRaw : String) (seen : Bool)
    (map : List (String × T)) (evs : List Ev)
    (hr : configurationLoop rd fuel endRaw seen map evs = .error .fuel) : fuel ≤ evs.length := by
  have := (configurationLoop_good rd h fuel endRaw seen map evs).2
  grind

theorem policiesLoop_total {T} (rd : StmtReader T) (h : GoodReader rd) (fuel : Nat) (endRaw : String)
    (this : Option (List (String × T))) (evs : List Ev) (hf : evs.length < fuel) :
    policiesLoop rd fuel endRaw this evs ≠ .error .fuel := by
  have h1 := configurationLoop_shorter rd h
  have h2 := configurationLoop_err rd h
  fun_induction policiesLoop rd fuel endRaw this evs <;> simp_all <;> grind

end Xml
