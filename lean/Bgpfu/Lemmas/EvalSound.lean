import Bgpfu.Lemmas.Resolve
/-!
Soundness of the evaluator model against the declarative denotation (`RpslSpec.denote`), by
induction on the depth of filter-set indirection and on the expression.
-/
namespace Irr
open Rpsl RpslSpec

/-- the resolvers of query.rs against a server that injects no faults -/
abbrev R (cfg : Cfg) (db : Db) : Resolvers Ev Event := resolvers cfg { db := db, faults := [] }

/-- the side condition under which the model of the route-set resolver is faithful to RFC 2622:
either the repair is in (and operators are within bounds), or no member carries an operator -/
def RsOk (cfg : Cfg) (db : Db) : Prop := (cfg.rsRange = true ∧ DbOpsOk db) ∨ RsPlain db

theorem evalNamed_sound (cfg : Cfg) (db : Db) (hcfg : RsOk cfg db) (n : Named) (st : Ev)
    (hst : Clean st) (S : PSet) (st' : Ev) (ev : List Event)
    (h : evalNamed (R cfg db) n st = (.ok S, st', ev)) (q : Pfx) (hq : q.Valid) :
    S q = true ↔ denoteNamed db n q := by
  cases n with
  | rsAny =>
    simp only [evalNamed, M.pure, Prod.mk.injEq, Outcome.ok.injEq] at h
    rw [← h.1]; simp [PSet.any, denoteNamed]
  | asAny =>
    simp only [evalNamed, M.pure, Prod.mk.injEq, Outcome.ok.injEq] at h
    rw [← h.1]; simp [PSet.any, denoteNamed]
  | peerAs =>
    simp only [evalNamed, resolvers, resolvePeerAs] at h
    split at h <;> simp at h
  | routeSet n =>
    have h1 : (resolveRouteSet cfg { db := db, faults := [] } n st).1 = .ok S := by
      have := congrArg Prod.fst h; exact this
    exact resolveRouteSet_sound cfg db n st hst S hcfg h1 q hq
  | asSet n =>
    have h1 : (resolveAsSet { db := db, faults := [] } n st).1 = .ok S := by
      have := congrArg Prod.fst h; exact this
    exact resolveAsSet_sound db n st hst S h1 q
  | autNum a =>
    have h1 : (resolveAutNum { db := db, faults := [] } a st).1 = .ok S := by
      have := congrArg Prod.fst h; exact this
    rw [resolveAutNum_ok db a st hst] at h1
    simp only [Outcome.ok.injEq] at h1
    rw [← h1]
    exact mem_routeRanges db a q

theorem evalPse_sound (cfg : Cfg) (db : Db) (hcfg : RsOk cfg db) (s : PrefixSetExpr) (st : Ev)
    (hst : Clean st) (hops : PseOpsOk s) (S : PSet) (st' : Ev) (ev : List Event)
    (h : evalPse (R cfg db) s st = (.ok S, st', ev)) (q : Pfx) (hq : q.Valid) :
    S q = true ↔ denotePse db s q := by
  cases s with
  | lit ms =>
    simp only [evalPse, M.pure, Prod.mk.injEq, Outcome.ok.injEq] at h
    rw [← h.1]
    exact litSet_iff ms q hq hops
  | named n => exact evalNamed_sound cfg db hcfg n st hst S st' ev h q hq

theorem opWithin_mono {M M' : Nat} (h : M ≤ M') (op : RangeOp) (hw : OpWithin M op) : OpWithin M' op := by
  cases op <;> simp only [OpWithin] at hw ⊢
  omega

theorem le_maxLen (f : Fam) : 32 ≤ f.maxLen := by cases f <;> simp [Fam.maxLen]

theorem evalWith_sound (cfg : Cfg) (db : Db) (hcfg : RsOk cfg db) (hdb : DbOpsOk db)
    (fuel : Nat) (self : Expr → M Ev Event PSet) (dself : Expr → Pfx → Prop)
    (heq : ∀ e st, eval (R cfg db) fuel e st = evalWith (R cfg db) self e st)
    (hself : ∀ e st, Clean st → OpsOk e → ∀ P st' ev, self e st = (.ok P, st', ev) →
      ∀ q, q.Valid → (P q = true ↔ dself e q))
    (hnotany : ∀ q, ¬ dself (.not .any) q) :
    ∀ e st, Clean st → OpsOk e → ∀ P st' ev, evalWith (R cfg db) self e st = (.ok P, st', ev) →
      ∀ q, q.Valid → (P q = true ↔ denoteWith db dself e q) := by
  intro e
  induction e with
  | any =>
    intro st _ _ P st' ev h q _
    simp only [evalWith, M.pure, Prod.mk.injEq, Outcome.ok.injEq] at h
    rw [← h.1]; simp [PSet.any, denoteWith]
  | prefixSet s op =>
    intro st hst hops P st' ev h q hq
    obtain ⟨out, s1, ev1, ev', h1, h2, _⟩ := M.bind_eq_ok h
    simp only [M.pure, Prod.mk.injEq, Outcome.ok.injEq] at h2
    rw [← h2.1]
    exact applyOp_opSet op out (denotePse db s) q hq (opWithin_mono (le_maxLen _) op hops.2)
      fun p hp => evalPse_sound cfg db hcfg s st hst hops.1 out s1 ev1 h1 p hp
  | asPath => intro st _ _ P st' ev h; simp [evalWith] at h
  | attrMatch => intro st _ _ P st' ev h; simp [evalWith] at h
  | filterSet n =>
    intro st hst _ P st' ev h q hq
    obtain ⟨e', s1, ev1, ev', h1, h2, _⟩ := M.bind_eq_ok h
    have hc1 : Clean s1 := by
      have := (resolveFilterSet_inv { db := db, faults := [] } n st hst).1
      have e : (resolveFilterSet { db := db, faults := [] } n st) = (.ok e', s1, ev1) := h1
      rw [e] at this; exact this
    have hr : (resolveFilterSet { db := db, faults := [] } n st).1 = .ok e' := by
      have := congrArg Prod.fst h1; exact this
    simp only [denoteWith]
    rcases resolveFilterSet_sound db n st hst e' hr with hf | ⟨hno, he⟩
    · have := hself e' s1 hc1 (FilterOf.opsOk hf hdb) P st' ev' h2 q hq
      rw [this]
      constructor
      · intro hd; exact ⟨e', hf, hd⟩
      · rintro ⟨e2, hf2, hd⟩; rw [FilterOf.unique hf hf2]; exact hd
    · subst he
      have := hself (.not .any) s1 hc1 trivial P st' ev' h2 q hq
      rw [this]
      constructor
      · intro hd; exact absurd hd (hnotany q)
      · rintro ⟨e2, hf2, _⟩; exact absurd hf2 (hno e2)
  | not e ih =>
    intro st hst hops P st' ev h q hq
    obtain ⟨s, s1, ev1, ev', h1, h2, _⟩ := M.bind_eq_ok h
    simp only [M.pure, Prod.mk.injEq, Outcome.ok.injEq] at h2
    rw [← h2.1]
    have := ih st hst hops s s1 ev1 h1 q hq
    simp only [denoteWith, PSet.not, ← this]
    cases s q <;> simp
  | and a b iha ihb =>
    intro st hst hops P st' ev h q hq
    obtain ⟨s, s1, ev1, ev', h1, h2, _⟩ := M.bind_eq_ok h
    obtain ⟨t, s2, ev2, ev'', h3, h4, _⟩ := M.bind_eq_ok h2
    have hc1 : Clean s1 := by
      have := (eval_inv' cfg { db := db, faults := [] } fuel a st hst).1
      rw [heq a st, h1] at this; exact this
    simp only [M.pure, Prod.mk.injEq, Outcome.ok.injEq] at h4
    rw [← h4.1]
    have ha := iha st hst hops.1 s s1 ev1 h1 q hq
    have hb := ihb s1 hc1 hops.2 t s2 ev2 h3 q hq
    simp only [denoteWith, PSet.and, Bool.and_eq_true, ha, hb]
  | or a b iha ihb =>
    intro st hst hops P st' ev h q hq
    obtain ⟨s, s1, ev1, ev', h1, h2, _⟩ := M.bind_eq_ok h
    obtain ⟨t, s2, ev2, ev'', h3, h4, _⟩ := M.bind_eq_ok h2
    have hc1 : Clean s1 := by
      have := (eval_inv' cfg { db := db, faults := [] } fuel a st hst).1
      rw [heq a st, h1] at this; exact this
    simp only [M.pure, Prod.mk.injEq, Outcome.ok.injEq] at h4
    rw [← h4.1]
    have ha := iha st hst hops.1 s s1 ev1 h1 q hq
    have hb := ihb s1 hc1 hops.2 t s2 ev2 h3 q hq
    simp only [denoteWith, PSet.or, Bool.or_eq_true, ha, hb]

theorem eval_sound (cfg : Cfg) (db : Db) (hcfg : RsOk cfg db) (hdb : DbOpsOk db) (fuel : Nat) :
    ∀ e st, Clean st → OpsOk e → ∀ P st' ev, eval (R cfg db) fuel e st = (.ok P, st', ev) →
      ∀ q, q.Valid → (P q = true ↔ denote db fuel e q) := by
  induction fuel with
  | zero =>
    exact evalWith_sound cfg db hcfg hdb 0 _ (fun _ _ => False) (fun _ _ => rfl)
      (fun e st _ _ P st' ev h => by simp at h) (fun _ h => h)
  | succ f ih =>
    exact evalWith_sound cfg db hcfg hdb (f + 1) (eval (R cfg db) f) (denote db f) (fun _ _ => rfl) ih
      (fun q => by cases f <;> simp [denote, denoteWith])

end Irr
