import Bgpfu.Model.Junos
/-!
Helper lemmas for C01 / C02 / C03 (association lists, `dedup`, `compare`, the reference Junos merge,
the reader of installed policies). Core Lean only.
-/
namespace Policy

/-! ### association lists -/
section AL
variable {α : Type}

theorem alGet_eq_none_iff (k : Str) (l : List (Str × α)) : alGet k l = none ↔ k ∉ keys l := by
  induction l with
  | nil => simp [alGet, keys]
  | cons x xs ih =>
    obtain ⟨k', v⟩ := x
    by_cases h : k' = k
    · simp [alGet, keys, h]
    · simp only [alGet, h, if_false, ih, keys, List.map_cons, List.mem_cons, not_or]
      constructor
      · intro h2; exact ⟨fun e => h e.symm, h2⟩
      · intro h2; exact h2.2

theorem alGet_isSome_iff (k : Str) (l : List (Str × α)) : (alGet k l).isSome ↔ k ∈ keys l := by
  cases h : alGet k l with
  | none => simp [(alGet_eq_none_iff k l).1 h]
  | some v =>
    simp only [Option.isSome_some, true_iff]
    by_cases hk : k ∈ keys l
    · exact hk
    · rw [(alGet_eq_none_iff k l).2 hk] at h; cases h

theorem alGet_mem {k : Str} {v : α} {l : List (Str × α)} (h : alGet k l = some v) : (k, v) ∈ l := by
  induction l with
  | nil => simp [alGet] at h
  | cons x xs ih =>
    obtain ⟨k', v'⟩ := x
    by_cases hk : k' = k
    · simp [alGet, hk] at h; simp [hk, h]
    · simp [alGet, hk] at h; simp [ih h]

theorem alGet_of_mem_nodup {k : Str} {v : α} {l : List (Str × α)} (hn : (keys l).Nodup)
    (h : (k, v) ∈ l) : alGet k l = some v := by
  induction l with
  | nil => simp at h
  | cons x xs ih =>
    obtain ⟨k', v'⟩ := x
    simp only [keys, List.map_cons, List.nodup_cons] at hn
    simp only [List.mem_cons, Prod.mk.injEq] at h
    rcases h with ⟨h1, h2⟩ | h
    · simp [alGet, h1, h2]
    · have : k' ≠ k := by
        intro e; apply hn.1; rw [e]
        exact List.mem_map.2 ⟨(k, v), h, rfl⟩
      simp only [alGet, this, if_false]
      exact ih hn.2 h

theorem alGet_alPut_same (k : Str) (v : α) (l : List (Str × α)) : alGet k (alPut k v l) = some v := by
  induction l with
  | nil => simp [alPut, alGet]
  | cons x xs ih =>
    obtain ⟨k', v'⟩ := x
    by_cases h : k' = k <;> simp [alPut, alGet, h, ih]

theorem alGet_alPut_other {k k' : Str} (v : α) (l : List (Str × α)) (h : k' ≠ k) :
    alGet k' (alPut k v l) = alGet k' l := by
  induction l with
  | nil => simp [alPut, alGet, Ne.symm h]
  | cons x xs ih =>
    obtain ⟨k2, v2⟩ := x
    by_cases h2 : k2 = k
    · subst h2; simp [alPut, alGet, Ne.symm h]
    · by_cases h3 : k2 = k'
      · subst h3; simp [alPut, alGet, h2]
      · simp [alPut, alGet, h2, h3, ih]

theorem alGet_alErase_same (k : Str) (l : List (Str × α)) : alGet k (alErase k l) = none := by
  rw [alGet_eq_none_iff]
  simp [keys, alErase]

theorem alGet_alErase_other {k k' : Str} (l : List (Str × α)) (h : k' ≠ k) :
    alGet k' (alErase k l) = alGet k' l := by
  induction l with
  | nil => simp [alErase, alGet]
  | cons x xs ih =>
    obtain ⟨k2, v2⟩ := x
    by_cases h2 : k2 = k
    · subst h2
      have : alErase k2 ((k2, v2) :: xs) = alErase k2 xs := by simp [alErase]
      rw [this, ih]; simp [alGet, Ne.symm h]
    · have : alErase k ((k2, v2) :: xs) = (k2, v2) :: alErase k xs := by simp [alErase, h2]
      rw [this]
      by_cases h3 : k2 = k' <;> simp [alGet, h3, ih]

theorem mem_keys_alPut (x k : Str) (v : α) (l : List (Str × α)) :
    x ∈ keys (alPut k v l) ↔ x = k ∨ x ∈ keys l := by
  induction l with
  | nil => simp [alPut, keys]
  | cons y ys ih =>
    obtain ⟨k2, v2⟩ := y
    by_cases h2 : k2 = k
    · subst h2; simp [alPut, keys]
    · simp only [alPut, h2, if_false]
      simp only [keys, List.map_cons, List.mem_cons] at ih ⊢
      rw [ih]
      constructor
      · rintro (h | h | h) <;> simp [h]
      · rintro (h | h | h) <;> simp [h]

theorem mem_keys_alErase (x k : Str) (l : List (Str × α)) :
    x ∈ keys (alErase k l) ↔ x ≠ k ∧ x ∈ keys l := by
  simp only [keys, alErase, List.mem_map, List.mem_filter, decide_eq_true_eq]
  constructor
  · rintro ⟨e, ⟨h1, h2⟩, rfl⟩; exact ⟨h2, e, h1, rfl⟩
  · rintro ⟨h1, e, h2, rfl⟩; exact ⟨e, ⟨h2, h1⟩, rfl⟩

theorem nodup_keys_alPut (k : Str) (v : α) (l : List (Str × α)) (h : (keys l).Nodup) :
    (keys (alPut k v l)).Nodup := by
  induction l with
  | nil => simp [alPut, keys]
  | cons y ys ih =>
    obtain ⟨k2, v2⟩ := y
    simp only [keys, List.map_cons, List.nodup_cons] at h
    by_cases h2 : k2 = k
    · subst h2; simp only [alPut, if_true, keys, List.map_cons, List.nodup_cons]; exact h
    · simp only [alPut, h2, if_false, keys, List.map_cons, List.nodup_cons]
      refine ⟨?_, ih h.2⟩
      intro hm
      have := (mem_keys_alPut k2 k v ys).1 hm
      rcases this with e | e
      · exact h2 e
      · exact h.1 e

theorem nodup_keys_alErase (k : Str) (l : List (Str × α)) (h : (keys l).Nodup) :
    (keys (alErase k l)).Nodup := by
  induction l with
  | nil => simp [alErase, keys]
  | cons y ys ih =>
    obtain ⟨k2, v2⟩ := y
    simp only [keys, List.map_cons, List.nodup_cons] at h
    by_cases h2 : k2 = k
    · have : alErase k ((k2, v2) :: ys) = alErase k ys := by simp [alErase, h2]
      rw [this]; exact ih h.2
    · have : alErase k ((k2, v2) :: ys) = (k2, v2) :: alErase k ys := by simp [alErase, h2]
      rw [this]
      simp only [keys, List.map_cons, List.nodup_cons]
      refine ⟨?_, ih h.2⟩
      intro hm
      exact h.1 ((mem_keys_alErase k2 k ys).1 hm).2

theorem alGet_alSet_same (k : Str) (o : Option α) (l : List (Str × α)) : alGet k (alSet k o l) = o := by
  cases o with
  | none => exact alGet_alErase_same k l
  | some v => exact alGet_alPut_same k v l

theorem alGet_alSet_other {k k' : Str} (o : Option α) (l : List (Str × α)) (h : k' ≠ k) :
    alGet k' (alSet k o l) = alGet k' l := by
  cases o with
  | none => exact alGet_alErase_other l h
  | some v => exact alGet_alPut_other v l h

theorem nodup_keys_alSet (k : Str) (o : Option α) (l : List (Str × α)) (h : (keys l).Nodup) :
    (keys (alSet k o l)).Nodup := by
  cases o with
  | none => exact nodup_keys_alErase k l h
  | some v => exact nodup_keys_alPut k v l h

theorem mem_keys_alSet {x k : Str} {o : Option α} {l : List (Str × α)} (h : x ∈ keys (alSet k o l)) :
    x = k ∨ x ∈ keys l := by
  cases o with
  | none => exact Or.inr ((mem_keys_alErase x k l).1 h).2
  | some v => exact (mem_keys_alPut x k v l).1 h

theorem alGet_map {β : Type} (f : Str → α → β) (k : Str) (l : List (Str × α)) :
    alGet k (l.map fun e => (e.1, f e.1 e.2)) = (alGet k l).map (f k) := by
  induction l with
  | nil => simp [alGet]
  | cons x xs ih =>
    obtain ⟨k', v⟩ := x
    by_cases h : k' = k
    · subst h; simp [alGet]
    · simp [alGet, h, ih]

theorem keys_map {β : Type} (f : Str → α → β) (l : List (Str × α)) :
    keys (l.map fun e => (e.1, f e.1 e.2)) = keys l := by
  simp [keys, List.map_map, Function.comp_def]

end AL

/-! ### dedup -/
section Dedup
variable {α : Type} [DecidableEq α]

theorem mem_dedup (x : α) (l : List α) : x ∈ dedup l ↔ x ∈ l := by
  induction l with
  | nil => simp [dedup]
  | cons y ys ih =>
    simp only [dedup, List.mem_cons, List.mem_filter, decide_eq_true_eq, ih]
    by_cases h : x = y <;> simp [h]

theorem nodup_dedup (l : List α) : (dedup l).Nodup := by
  induction l with
  | nil => simp [dedup]
  | cons y ys ih =>
    simp only [dedup, List.nodup_cons, List.mem_filter, decide_eq_true_eq]
    exact ⟨fun h => h.2 rfl, List.Nodup.sublist List.filter_sublist ih⟩

theorem dedup_eq_nil (l : List α) : dedup l = [] ↔ l = [] := by
  cases l <;> simp [dedup]

end Dedup

/-! ### compare -/

theorem compareOne_name {ev : List (Str × Evaluated)} {inst : List (Str × Installed)} {n : Str} {u : Update}
    (h : compareOne ev inst n = some u) : u.name = n := by
  unfold compareOne at h
  split at h <;> simp at h <;> (subst h; rfl)

theorem mem_compare {ev : List (Str × Evaluated)} {inst : List (Str × Installed)} {u : Update} :
    u ∈ compare ev inst ↔ (u.name ∈ keys ev ∨ u.name ∈ keys inst) ∧ compareOne ev inst u.name = some u := by
  unfold compare
  simp only [List.mem_filterMap, mem_dedup, List.mem_append]
  constructor
  · rintro ⟨n, hn, h⟩
    have := compareOne_name h
    subst this
    exact ⟨hn, h⟩
  · rintro ⟨hn, h⟩
    exact ⟨u.name, hn, h⟩

theorem filterMap_names (f : Str → Option Update) (hf : ∀ n u, f n = some u → u.name = n) (l : List Str) :
    (l.filterMap f).map Update.name = l.filter (fun n => (f n).isSome) := by
  induction l with
  | nil => simp
  | cons x xs ih =>
    cases h : f x with
    | none => simp [h, ih]
    | some u => simp [h, ih, hf x u h]

/-- `compare` emits at most one update per policy name (the names come out of a `HashSet`) -/
theorem compare_names_nodup (ev : List (Str × Evaluated)) (inst : List (Str × Installed)) :
    ((compare ev inst).map Update.name).Nodup := by
  unfold compare
  rw [filterMap_names _ (fun n u h => compareOne_name h)]
  exact List.Nodup.sublist List.filter_sublist (nodup_dedup _)

theorem render_name (c : Cfg) (u : Update) : (render c u).name = u.name := by
  cases u <;> rfl

/-! ### reference Junos: route-filters of one `<from>` -/

theorem applyFilters_adds (fs adds : List Range) :
    ∃ fs', applyFilters fs (adds.map addF) = .ok fs' ∧ ∀ x, x ∈ fs' ↔ x ∈ fs ∨ x ∈ adds := by
  induction adds generalizing fs with
  | nil => exact ⟨fs, by simp [applyFilters]⟩
  | cons a as ih =>
    obtain ⟨fs', h1, h2⟩ := ih (if a ∈ fs then fs else fs ++ [a])
    refine ⟨fs', by simpa [applyFilters, addF] using h1, ?_⟩
    intro x
    rw [h2]
    by_cases ha : a ∈ fs
    · simp only [ha, if_true, List.mem_cons]
      constructor
      · rintro (h | h); exact Or.inl h; exact Or.inr (Or.inr h)
      · rintro (h | h | h); exact Or.inl h; exact Or.inl (h ▸ ha); exact Or.inr h
    · simp only [ha, if_false, List.mem_append, List.mem_cons, List.not_mem_nil, or_false]
      constructor
      · rintro ((h | h) | h); exact Or.inl h; exact Or.inr (Or.inl h); exact Or.inr (Or.inr h)
      · rintro (h | h | h); exact Or.inl (Or.inl h); exact Or.inl (Or.inr h); exact Or.inr h

/-- deletes of distinct present filters followed by adds: succeeds, and yields `(fs ∖ dels) ∪ adds` -/
theorem applyFilters_dels_adds (fs dels adds : List Range) (hd : dels.Nodup) (hsub : ∀ r ∈ dels, r ∈ fs) :
    ∃ fs', applyFilters fs (dels.map delF ++ adds.map addF) = .ok fs' ∧
      ∀ x, x ∈ fs' ↔ (x ∈ fs ∧ x ∉ dels) ∨ x ∈ adds := by
  induction dels generalizing fs with
  | nil =>
    obtain ⟨fs', h1, h2⟩ := applyFilters_adds fs adds
    exact ⟨fs', by simpa using h1, by simpa using h2⟩
  | cons d ds ih =>
    simp only [List.nodup_cons] at hd
    have hdm : d ∈ fs := hsub d (by simp)
    obtain ⟨fs', h1, h2⟩ := ih (fs.filter (fun x => decide (x ≠ d))) hd.2 (by
      intro r hr
      simp only [List.mem_filter, decide_eq_true_eq]
      refine ⟨hsub r (by simp [hr]), ?_⟩
      intro e; subst e; exact hd.1 hr)
    refine ⟨fs', by simpa [applyFilters, delF, hdm] using h1, ?_⟩
    intro x
    rw [h2]
    simp only [List.mem_filter, decide_eq_true_eq, List.mem_cons, not_or]
    constructor
    · rintro (⟨⟨a, b⟩, c⟩ | h); exact Or.inl ⟨a, b, c⟩; exact Or.inr h
    · rintro (⟨a, b, c⟩ | h); exact Or.inl ⟨⟨a, b⟩, c⟩; exact Or.inr h

theorem mem_rdiff (x : Range) (a b : List Range) : x ∈ rdiff a b ↔ x ∈ a ∧ x ∉ b := by
  simp [rdiff]

theorem nodup_rdiff (a b : List Range) (h : a.Nodup) : (rdiff a b).Nodup :=
  List.Nodup.sublist List.filter_sublist h

/-! ### reference Junos: one family's `<term>` of an update against the installed term -/

/-- what `compare` passes as `old` agrees with the term installed for family `f` -/
def OldOk (f : Fam) (ts : List (Str × JTerm)) : Option (List Range) → Prop
  | none => alGet f.name ts = none
  | some o => o.Nodup ∧
      match alGet f.name ts with
      | none => o = []
      | some t => t.family = some f.name ∧ t.accept = true ∧ t.filters ≠ [] ∧ ∀ x, x ∈ o ↔ x ∈ t.filters

/-- the term for family `f` after the update -/
def NewOk (c : Cfg) (f : Fam) (d : Diff) (r : Option JTerm) : Prop :=
  if d.new = [] then
    (if c.skipEmptyFamily = true ∨ oldNonEmpty d = true then r = none else r = some emptyTerm)
  else ∃ fs, r = some ⟨some f.name, fs, true⟩ ∧ ∀ x, x ∈ fs ↔ x ∈ d.new

theorem oldOk_absent_of_empty {f : Fam} {ts : List (Str × JTerm)} {d : Diff} (h : OldOk f ts d.old)
    (he : oldNonEmpty d = false) : alGet f.name ts = none := by
  unfold oldNonEmpty at he
  cases ho : d.old with
  | none => rw [ho] at h; exact h
  | some o =>
    rw [ho] at h he
    simp only [Bool.not_eq_false', List.isEmpty_iff] at he
    subst he
    obtain ⟨_, h2⟩ := h
    cases hg : alGet f.name ts with
    | none => rfl
    | some t =>
      rw [hg] at h2
      exfalso
      apply h2.2.2.1
      cases hf : t.filters with
      | nil => rfl
      | cons x xs => have := (h2.2.2.2 x).2 (by simp [hf]); simp at this

theorem applyTerms_renderDiff (c : Cfg) (f : Fam) (ts : List (Str × JTerm)) (d : Diff)
    (h : OldOk f ts d.old) :
    ∃ ts', applyTerms ts (renderDiff c f d) = .ok ts' ∧ NewOk c f d (alGet f.name ts') ∧
      (∀ k, k ≠ f.name → alGet k ts' = alGet k ts) ∧ ((keys ts).Nodup → (keys ts').Nodup) ∧
      (∀ k ∈ keys ts', k = f.name ∨ k ∈ keys ts) := by
  by_cases hn : d.new = []
  · -- the family is empty afterwards
    cases he : oldNonEmpty d with
    | false =>
      have habs := oldOk_absent_of_empty h he
      cases hs : c.skipEmptyFamily with
      | true =>
        refine ⟨ts, by simp [renderDiff, hs, hn, he, applyTerms], ?_, fun _ _ => rfl, id, fun k hk => Or.inr hk⟩
        simp [NewOk, hn, hs, habs]
      | false =>
        refine ⟨alPut f.name emptyTerm ts, ?_, ?_, fun k hk => alGet_alPut_other _ _ hk,
          nodup_keys_alPut _ _ _, fun k hk => (mem_keys_alPut k _ _ _).1 hk⟩
        · simp [renderDiff, hs, hn, he, applyTerms, applyTerm, applyTermBody, habs, emptyTerm]
        · simp [NewOk, hn, hs, he, alGet_alPut_same]
    | true =>
      -- whole-term delete; the term exists because `old` is non-empty
      have hex : ∃ t, alGet f.name ts = some t := by
        unfold oldNonEmpty at he
        cases ho : d.old with
        | none => rw [ho] at he; simp at he
        | some o =>
          rw [ho] at h he
          cases hg : alGet f.name ts with
          | some t => exact ⟨t, rfl⟩
          | none =>
            obtain ⟨_, h2⟩ := h
            rw [hg] at h2
            subst h2; simp at he
      obtain ⟨t, ht⟩ := hex
      refine ⟨alErase f.name ts, ?_, ?_, fun k hk => alGet_alErase_other _ hk,
        nodup_keys_alErase _ _, fun k hk => Or.inr ((mem_keys_alErase k _ _).1 hk).2⟩
      · simp [renderDiff, hn, he, applyTerms, applyTerm, ht]
      · simp [NewOk, hn, he, alGet_alErase_same]
  · -- the family is non-empty afterwards: merge into the existing or a fresh term
    have hne : d.new.isEmpty = false := by cases hd : d.new <;> simp_all
    cases ho : d.old with
    | none =>
      rw [ho] at h
      have habs : alGet f.name ts = none := h
      obtain ⟨fs', h1, h2⟩ := applyFilters_adds [] d.new
      refine ⟨alPut f.name ⟨some f.name, fs', true⟩ ts, ?_, ?_, fun k hk => alGet_alPut_other _ _ hk,
        nodup_keys_alPut _ _ _, fun k hk => (mem_keys_alPut k _ _ _).1 hk⟩
      · simp [renderDiff, hne, ho, applyTerms, applyTerm, applyTermBody, habs, emptyTerm, h1]
      · simp only [NewOk, hn, if_false, alGet_alPut_same]
        exact ⟨fs', rfl, by simpa using h2⟩
    | some o =>
      rw [ho] at h
      obtain ⟨hnd, h2⟩ := h
      -- filters currently installed for this family, as a set equal to `o`
      have hF : ∀ x, x ∈ o ↔ x ∈ ((alGet f.name ts).getD emptyTerm).filters := by
        cases hg : alGet f.name ts with
        | none => rw [hg] at h2; subst h2; simp [emptyTerm]
        | some t => rw [hg] at h2; simpa using h2.2.2.2
      obtain ⟨fs', h1, h3⟩ := applyFilters_dels_adds ((alGet f.name ts).getD emptyTerm).filters
        (rdiff o d.new) (rdiff d.new o) (nodup_rdiff _ _ hnd)
        (fun r hr => (hF r).1 ((mem_rdiff r _ _).1 hr).1)
      refine ⟨alPut f.name ⟨some f.name, fs', true⟩ ts, ?_, ?_, fun k hk => alGet_alPut_other _ _ hk,
        nodup_keys_alPut _ _ _, fun k hk => (mem_keys_alPut k _ _ _).1 hk⟩
      · simp [renderDiff, hne, ho, applyTerms, applyTerm, applyTermBody, h1]
      · simp only [NewOk, hn, if_false, alGet_alPut_same]
        refine ⟨fs', rfl, ?_⟩
        intro x
        rw [h3, mem_rdiff, mem_rdiff, ← hF]
        by_cases hx : x ∈ d.new <;> by_cases hy : x ∈ o <;> simp [hx, hy]

/-! ### reference Junos: a whole update against the installed policy -/

theorem inet_ne_inet6 : inet ≠ inet6 := by decide

theorem fam_name_cases (f : Fam) : f.name = inet ∨ f.name = inet6 := by cases f <;> simp [Fam.name]

theorem applyTerms_append (ts : List (Str × JTerm)) (a b : List PTerm) :
    applyTerms ts (a ++ b) = match applyTerms ts a with
      | .error e => .error e
      | .ok ts1 => applyTerms ts1 b := by
  induction a generalizing ts with
  | nil => simp [applyTerms]
  | cons x xs ih =>
    simp only [List.cons_append, applyTerms]
    cases applyTerm ts x with
    | error e => rfl
    | ok ts' => exact ih ts'

theorem OldOk_congr {f : Fam} {ts ts1 : List (Str × JTerm)} {o : Option (List Range)}
    (he : alGet f.name ts1 = alGet f.name ts) (h : OldOk f ts o) : OldOk f ts1 o := by
  cases o with
  | none => simpa [OldOk, he] using h
  | some o => simpa [OldOk, he] using h

theorem applyStmt_update (c : Cfg) (n e : Str) (cur : Option JPolicy) (d4 d6 : Diff)
    (h4 : OldOk .v4 (cur.getD emptyPolicy).terms d4.old)
    (h6 : OldOk .v6 (cur.getD emptyPolicy).terms d6.old) :
    ∃ p', applyStmt cur (render c (.update n e d4 d6)) = .ok (some p') ∧ p'.thenReject = true ∧
      NewOk c .v4 d4 (alGet inet p'.terms) ∧ NewOk c .v6 d6 (alGet inet6 p'.terms) ∧
      (∀ k, k ≠ inet → k ≠ inet6 → alGet k p'.terms = alGet k (cur.getD emptyPolicy).terms) ∧
      ((keys (cur.getD emptyPolicy).terms).Nodup → (keys p'.terms).Nodup) ∧
      (∀ k ∈ keys p'.terms, k = inet ∨ k = inet6 ∨ k ∈ keys (cur.getD emptyPolicy).terms) := by
  obtain ⟨ts1, a1, a2, a3, a4, a5⟩ := applyTerms_renderDiff c .v4 _ d4 h4
  have h6' : OldOk .v6 ts1 d6.old := OldOk_congr (a3 _ (by simpa [Fam.name] using inet_ne_inet6.symm)) h6
  obtain ⟨ts2, b1, b2, b3, b4, b5⟩ := applyTerms_renderDiff c .v6 ts1 d6 h6'
  refine ⟨⟨some (commentPrefix ++ e), ts2, true⟩, ?_, rfl, ?_, b2, ?_, fun hn => b4 (a4 hn), ?_⟩
  · simp [applyStmt, render, applyTerms_append, a1, b1]
  · have : alGet inet ts2 = alGet inet ts1 := b3 _ (by simpa [Fam.name] using inet_ne_inet6)
    simpa [this, Fam.name] using a2
  · intro k hk1 hk2
    rw [b3 k (by simpa [Fam.name] using hk2), a3 k (by simpa [Fam.name] using hk1)]
  · intro k hk
    rcases b5 k hk with h | h
    · exact Or.inr (Or.inl (by simpa [Fam.name] using h))
    · rcases a5 k h with h | h
      · exact Or.inl (by simpa [Fam.name] using h)
      · exact Or.inr (Or.inr h)

theorem applyStmt_delete (c : Cfg) (n : Str) (p : JPolicy) :
    applyStmt (some p) (render c (.delete n)) = .ok none := by
  simp [applyStmt, render]

/-! ### several updates for pairwise distinct policies -/

/-- The updates of one run touch pairwise distinct policies, so each acts on the statement as it
was before the run, in whatever order they are loaded. -/
theorem applyAll_spec (R : PStmt → Option JPolicy) (ps : List PStmt) (cfg : JCfg)
    (hn : (ps.map PStmt.name).Nodup)
    (hR : ∀ p ∈ ps, applyStmt (alGet p.name cfg) p = .ok (R p)) :
    ∃ cfg', applyAll cfg ps = .ok cfg' ∧ (∀ p ∈ ps, alGet p.name cfg' = R p) ∧
      (∀ n, n ∉ ps.map PStmt.name → alGet n cfg' = alGet n cfg) ∧
      ((keys cfg).Nodup → (keys cfg').Nodup) ∧
      (∀ n ∈ keys cfg', n ∈ keys cfg ∨ n ∈ ps.map PStmt.name) := by
  induction ps generalizing cfg with
  | nil => exact ⟨cfg, rfl, by simp, by simp, id, fun n h => Or.inl h⟩
  | cons p rest ih =>
    simp only [List.map_cons, List.nodup_cons] at hn
    have hp := hR p (by simp)
    have hrest : ∀ q ∈ rest, applyStmt (alGet q.name (alSet p.name (R p) cfg)) q = .ok (R q) := by
      intro q hq
      have hne : q.name ≠ p.name := by
        intro e; apply hn.1; rw [← e]; exact List.mem_map.2 ⟨q, hq, rfl⟩
      rw [alGet_alSet_other _ _ hne]
      exact hR q (by simp [hq])
    obtain ⟨cfg', c1, c2, c3, c4, c5⟩ := ih (alSet p.name (R p) cfg) hn.2 hrest
    refine ⟨cfg', by simp [applyAll, applyPatch, hp, c1], ?_, ?_, fun h => c4 (nodup_keys_alSet _ _ _ h), ?_⟩
    · intro q hq
      simp only [List.mem_cons] at hq
      rcases hq with rfl | hq
      · rw [c3 _ hn.1, alGet_alSet_same]
      · exact c2 q hq
    · intro m hm
      simp only [List.map_cons, List.mem_cons, not_or] at hm
      rw [c3 m hm.2, alGet_alSet_other _ _ hm.1]
    · intro m hm
      rcases c5 m hm with h | h
      · rcases mem_keys_alSet h with h | h
        · exact Or.inr (by simp [h])
        · exact Or.inl h
      · exact Or.inr (by simp [h])

/-- frame: a policy that no payload names is left as it was, whatever the payloads do -/
theorem applyAll_frame (ps : List PStmt) (cfg cfg' : JCfg) (n : Str)
    (h : applyAll cfg ps = .ok cfg') (hn : n ∉ ps.map PStmt.name) : alGet n cfg' = alGet n cfg := by
  induction ps generalizing cfg with
  | nil => simp [applyAll] at h; subst h; rfl
  | cons p rest ih =>
    simp only [List.map_cons, List.mem_cons, not_or] at hn
    simp only [applyAll] at h
    cases hp : applyPatch cfg p with
    | error e => simp [hp] at h
    | ok c1 =>
      rw [hp] at h
      rw [ih c1 h hn.2]
      unfold applyPatch at hp
      cases hs : applyStmt (alGet p.name cfg) p with
      | error e => simp [hs] at hp
      | ok r =>
        simp [hs] at hp
        subst hp
        exact alGet_alSet_other _ _ hn.1

/-! ### agent states (Prop form of `agentState`) -/

def WfTerm (k : Str) (t : JTerm) : Prop :=
  ∃ f : Fam, k = f.name ∧ t.family = some f.name ∧ t.accept = true ∧ t.filters ≠ [] ∧
    ∀ x ∈ t.filters, Range.valid f x = true

def WfPolicy (p : JPolicy) : Prop :=
  p.thenReject = true ∧ (keys p.terms).Nodup ∧ ∀ k t, alGet k p.terms = some t → WfTerm k t

/-- the states the repaired agent can produce (see `Thm/C01.lean`, `reachable_agentState`) -/
def AgentState (cfg : JCfg) : Prop :=
  (keys cfg).Nodup ∧ ∀ n p, alGet n cfg = some p → WfPolicy p

theorem wfTerm_iff (k : Str) (t : JTerm) : wfTerm k t = true ↔ WfTerm k t := by
  unfold wfTerm WfTerm
  simp only [Bool.or_eq_true, Bool.and_eq_true, decide_eq_true_eq, Bool.not_eq_true',
    List.isEmpty_eq_false_iff, List.all_eq_true]
  constructor
  · rintro (⟨⟨⟨⟨a, b⟩, c⟩, d⟩, e⟩ | ⟨⟨⟨⟨a, b⟩, c⟩, d⟩, e⟩)
    · exact ⟨.v4, a, b, c, d, e⟩
    · exact ⟨.v6, a, b, c, d, e⟩
  · rintro ⟨f, a, b, c, d, e⟩
    cases f
    · exact Or.inl ⟨⟨⟨⟨a, b⟩, c⟩, d⟩, e⟩
    · exact Or.inr ⟨⟨⟨⟨a, b⟩, c⟩, d⟩, e⟩

theorem all_iff_alGet {α : Type} (l : List (Str × α)) (hn : (keys l).Nodup) (P : Str → α → Prop) :
    (∀ e ∈ l, P e.1 e.2) ↔ ∀ k v, alGet k l = some v → P k v := by
  constructor
  · intro h k v hg; exact h (k, v) (alGet_mem hg)
  · intro h e he; exact h e.1 e.2 (alGet_of_mem_nodup hn he)

theorem wfPolicy_iff (p : JPolicy) : wfPolicy p = true ↔ WfPolicy p := by
  unfold wfPolicy WfPolicy
  simp only [Bool.and_eq_true, decide_eq_true_eq, List.all_eq_true, wfTerm_iff]
  constructor
  · rintro ⟨⟨a, b⟩, c⟩; exact ⟨a, b, (all_iff_alGet _ b _).1 c⟩
  · rintro ⟨a, b, c⟩; exact ⟨⟨a, b⟩, (all_iff_alGet _ b _).2 c⟩

theorem agentState_iff (cfg : JCfg) : agentState cfg = true ↔ AgentState cfg := by
  unfold agentState AgentState
  simp only [Bool.and_eq_true, decide_eq_true_eq, List.all_eq_true, wfPolicy_iff]
  constructor
  · rintro ⟨a, b⟩; exact ⟨a, (all_iff_alGet _ a (fun _ p => WfPolicy p)).1 b⟩
  · rintro ⟨a, b⟩; exact ⟨a, (all_iff_alGet _ a (fun _ p => WfPolicy p)).2 b⟩

instance (cfg : JCfg) : Decidable (AgentState cfg) := decidable_of_iff _ (agentState_iff cfg)

theorem wfTerm_key {k : Str} {t : JTerm} (h : WfTerm k t) : k = inet ∨ k = inet6 := by
  obtain ⟨f, hk, _⟩ := h
  rw [hk]; exact fam_name_cases f

theorem wfTerm_fam {f : Fam} {t : JTerm} (h : WfTerm f.name t) :
    t.family = some f.name ∧ t.accept = true ∧ t.filters ≠ [] ∧ ∀ x ∈ t.filters, Range.valid f x = true := by
  obtain ⟨g, hk, h2⟩ := h
  have : f = g := by
    cases f <;> cases g <;> simp [Fam.name] at hk <;> first | rfl | (exfalso; revert hk; decide)
  subst this
  exact h2

/-! ### the reader of installed policies on agent states -/

theorem readRange_valid {f : Fam} {r : Range} (h : Range.valid f r = true) : readRange f r = .ok r := by
  unfold Range.valid at h
  simp only [Bool.and_eq_true, beq_iff_eq, decide_eq_true_eq] at h
  obtain ⟨⟨⟨⟨⟨h1, h2⟩, h3⟩, h4⟩, h5⟩, h6⟩ := h
  unfold readRange
  have e1 : (r.v6 != f.isV6) = false := by simp [h1]
  have e2 : (decide (f.bits < r.len) || decide (f.bits < r.lo) || decide (f.bits < r.hi)
      || decide (2 ^ f.bits ≤ r.addr)) = false := by
    simp only [Bool.or_eq_false_iff, decide_eq_false_iff_not, Nat.not_lt, Nat.not_le]
    omega
  have e3 : max r.len r.lo = r.lo := by omega
  simp only [e1, e2, e3, Bool.false_eq_true, if_false, h3, if_true, h6, Nat.sub_zero]

theorem readRanges_valid {f : Fam} (rs : List Range) (h : ∀ x ∈ rs, Range.valid f x = true) :
    readRanges f rs = .ok rs := by
  induction rs with
  | nil => rfl
  | cons r rs ih =>
    simp [readRanges, readRange_valid (h r (by simp)), ih (fun x hx => h x (by simp [hx]))]

theorem readTerm_wf {f : Fam} {t : JTerm} (h : WfTerm f.name t) :
    readTerm f.name t = .ok (f, dedup t.filters) := by
  obtain ⟨h1, h2, _, h4⟩ := wfTerm_fam h
  unfold readTerm
  have t4 : trimB inet = inet := by decide
  have t6 : trimB inet6 = inet6 := by decide
  cases f
  · simp [h1, h2, Fam.name, readRanges_valid _ h4, t4]
  · have : inet6 ≠ inet := inet_ne_inet6.symm
    simp [h1, h2, Fam.name, readRanges_valid _ h4, this, t6]

theorem readTerms_wf (ts : List (Str × JTerm)) (a b : Option (List Range)) (hn : (keys ts).Nodup)
    (hw : ∀ e ∈ ts, WfTerm e.1 e.2) (ha : a.isSome → inet ∉ keys ts) (hb : b.isSome → inet6 ∉ keys ts) :
    readTerms ts a b = .ok (a.or ((alGet inet ts).map fun t => dedup t.filters),
                            b.or ((alGet inet6 ts).map fun t => dedup t.filters)) := by
  induction ts generalizing a b with
  | nil => simp [readTerms, alGet]
  | cons e rest ih =>
    obtain ⟨k, t⟩ := e
    simp only [keys, List.map_cons, List.nodup_cons] at hn
    have hwt : WfTerm k t := hw (k, t) (by simp)
    obtain ⟨f, hk, _⟩ := id hwt
    subst hk
    have hrest : ∀ e ∈ rest, WfTerm e.1 e.2 := fun e he => hw e (by simp [he])
    simp only [readTerms, readTerm_wf hwt]
    cases f
    · -- inet
      have ha' : a = none := by
        cases a with
        | none => rfl
        | some x => exact absurd (by simp [keys, Fam.name]) (ha rfl)
      subst ha'
      simp only []
      rw [ih (some (dedup t.filters)) b hn.2 hrest (fun _ => by simpa [keys, Fam.name] using hn.1)
        (fun h => by
          have := hb h
          simp only [keys, List.map_cons, List.mem_cons, not_or] at this
          simpa [keys] using this.2)]
      simp [alGet, Fam.name, inet_ne_inet6]
    · have hb' : b = none := by
        cases b with
        | none => rfl
        | some x => exact absurd (by simp [keys, Fam.name]) (hb rfl)
      subst hb'
      simp only []
      rw [ih a (some (dedup t.filters)) hn.2 hrest
        (fun h => by
          have := ha h
          simp only [keys, List.map_cons, List.mem_cons, not_or] at this
          simpa [keys] using this.2)
        (fun _ => by simpa [keys, Fam.name] using hn.1)]
      simp [alGet, Fam.name, inet_ne_inet6.symm]

/-- the faithful view of an installed policy -/
def viewP (p : JPolicy) : Installed := ⟨dedup (filtersOf .v4 p), dedup (filtersOf .v6 p)⟩

def viewCfg (cfg : JCfg) : List (Str × Installed) := cfg.map fun e => (e.1, viewP e.2)

theorem readPolicy_wf (n : Str) (p : JPolicy) (h : WfPolicy p) :
    readPolicy .fixed n p = .ok (some (n, viewP p)) := by
  obtain ⟨h1, h2, h3⟩ := h
  unfold readPolicy
  rw [readTerms_wf p.terms none none h2 ((all_iff_alGet _ h2 _).2 h3) (by simp) (by simp)]
  simp only [h1, if_true, nameOf, Cfg.fixed, Option.none_or]
  unfold viewP filtersOf
  simp only [Fam.name]
  cases alGet inet p.terms <;> cases alGet inet6 p.terms <;> simp [dedup]

theorem readAll_wf (cfg : JCfg) (h : ∀ e ∈ cfg, WfPolicy e.2) : readAll .fixed cfg = .ok (viewCfg cfg) := by
  induction cfg with
  | nil => rfl
  | cons e rest ih =>
    obtain ⟨n, p⟩ := e
    simp [readAll, readPolicy_wf n p (h (n, p) (by simp)), ih (fun e he => h e (by simp [he])), viewCfg]

theorem keys_viewCfg (cfg : JCfg) : keys (viewCfg cfg) = keys cfg := by
  simp [viewCfg, keys, List.map_map, Function.comp_def]

theorem alGet_viewCfg (n : Str) (cfg : JCfg) : alGet n (viewCfg cfg) = (alGet n cfg).map viewP := by
  unfold viewCfg
  exact alGet_map (fun _ p => viewP p) n cfg

theorem readInstalled_agentState {cfg : JCfg} (h : AgentState cfg) :
    readInstalled .fixed cfg = .ok (viewCfg cfg) := by
  unfold readInstalled
  rw [readAll_wf cfg ((all_iff_alGet _ h.1 (fun _ p => WfPolicy p)).2 h.2)]
  simp [keys_viewCfg, h.1]

/-! ### what `compare` decides, case by case -/

theorem compareOne_update_inv {ev : List (Str × Evaluated)} {inst : List (Str × Installed)} {n n' e : Str}
    {d4 d6 : Diff} (h : compareOne ev inst n = some (.update n' e d4 d6)) :
    n' = n ∧ alGet n ev = some ⟨e, some (d4.new, d6.new)⟩ ∧
      ((∃ i, alGet n inst = some i ∧ d4.old = some i.v4 ∧ d6.old = some i.v6) ∨
       (alGet n inst = none ∧ d4.old = none ∧ d6.old = none)) := by
  unfold compareOne at h
  split at h <;> simp at h
  · rename_i e' a b i h1 h2
    obtain ⟨rfl, rfl, rfl, rfl⟩ := h
    exact ⟨rfl, h1, Or.inl ⟨i, h2, rfl, rfl⟩⟩
  · rename_i e' a b h1 h2
    obtain ⟨rfl, rfl, rfl, rfl⟩ := h
    exact ⟨rfl, h1, Or.inr ⟨h2, rfl, rfl⟩⟩

theorem compareOne_delete_inv {ev : List (Str × Evaluated)} {inst : List (Str × Installed)} {n n' : Str}
    (h : compareOne ev inst n = some (.delete n')) :
    n' = n ∧ alGet n ev = none ∧ ∃ i, alGet n inst = some i := by
  unfold compareOne at h
  split at h <;> simp at h
  rename_i i h1 h2
  exact ⟨h.symm, h1, i, h2⟩

theorem compareOne_failed {ev : List (Str × Evaluated)} {inst : List (Str × Installed)} {n e : Str}
    (h : alGet n ev = some ⟨e, none⟩) : compareOne ev inst n = none := by
  unfold compareOne
  rw [h]

theorem compareOne_evaluated {ev : List (Str × Evaluated)} (inst : List (Str × Installed)) {n e : Str}
    {a b : List Range} (h : alGet n ev = some ⟨e, some (a, b)⟩) :
    compareOne ev inst n =
      some (.update n e ⟨(alGet n inst).map (·.v4), a⟩ ⟨(alGet n inst).map (·.v6), b⟩) := by
  unfold compareOne
  rw [h]
  cases alGet n inst <;> rfl

theorem compareOne_unmanaged {ev : List (Str × Evaluated)} {inst : List (Str × Installed)} {n : Str}
    {i : Installed} (h : alGet n ev = none) (hi : alGet n inst = some i) :
    compareOne ev inst n = some (.delete n) := by
  unfold compareOne
  rw [h, hi]

/-! ### one update against an agent state -/

theorem oldOk_of_view (f : Fam) (p : JPolicy) (h : WfPolicy p) :
    OldOk f p.terms (some (dedup (filtersOf f p))) := by
  refine ⟨nodup_dedup _, ?_⟩
  unfold filtersOf
  cases hg : alGet f.name p.terms with
  | none => simp [dedup]
  | some t =>
    obtain ⟨h1, h2, h3, _⟩ := wfTerm_fam (h.2.2 _ _ hg)
    exact ⟨h1, h2, h3, fun x => mem_dedup x _⟩

theorem oldOk_absent (f : Fam) : OldOk f emptyPolicy.terms none := by
  simp [OldOk, emptyPolicy, alGet]

/-- an update emitted by `compare` for the faithful view of an agent state loads without error,
and every term of the resulting policy is the one described by `NewOk` -/
theorem update_applies (c : Cfg) {cfg : JCfg} (hs : AgentState cfg) {ev : List (Str × Evaluated)}
    {n n' e : Str} {d4 d6 : Diff}
    (hu : compareOne ev (viewCfg cfg) n = some (.update n' e d4 d6)) :
    ∃ p', applyStmt (alGet n cfg) (render c (.update n' e d4 d6)) = .ok (some p') ∧
      p'.thenReject = true ∧ (keys p'.terms).Nodup ∧
      NewOk c .v4 d4 (alGet inet p'.terms) ∧ NewOk c .v6 d6 (alGet inet6 p'.terms) ∧
      (∀ k ∈ keys p'.terms, k = inet ∨ k = inet6) := by
  obtain ⟨_, _, hinst⟩ := compareOne_update_inv hu
  rw [alGet_viewCfg] at hinst
  cases hg : alGet n cfg with
  | none =>
    rw [hg] at hinst
    simp only [Option.map_none, reduceCtorEq, false_and, exists_false, false_or, true_and] at hinst
    have h4 : OldOk .v4 ((none : Option JPolicy).getD emptyPolicy).terms d4.old := by
      rw [hinst.1]; exact oldOk_absent _
    have h6 : OldOk .v6 ((none : Option JPolicy).getD emptyPolicy).terms d6.old := by
      rw [hinst.2]; exact oldOk_absent _
    obtain ⟨p', a1, a2, a3, a4, _, a6, a7⟩ := applyStmt_update c n' e none d4 d6 h4 h6
    refine ⟨p', a1, a2, a6 (by simp [emptyPolicy, keys]), a3, a4, ?_⟩
    intro k hk
    rcases a7 k hk with h | h | h
    · exact Or.inl h
    · exact Or.inr h
    · simp [emptyPolicy, keys] at h
  | some p =>
    rw [hg] at hinst
    have hw : WfPolicy p := hs.2 n p hg
    simp only [Option.map_some, Option.some.injEq, exists_eq_left', reduceCtorEq, false_and, or_false] at hinst
    have h4 : OldOk .v4 ((some p).getD emptyPolicy).terms d4.old := by
      rw [hinst.1]; exact oldOk_of_view .v4 p hw
    have h6 : OldOk .v6 ((some p).getD emptyPolicy).terms d6.old := by
      rw [hinst.2]; exact oldOk_of_view .v6 p hw
    obtain ⟨p', a1, a2, a3, a4, _, a6, a7⟩ := applyStmt_update c n' e (some p) d4 d6 h4 h6
    refine ⟨p', a1, a2, a6 hw.2.1, a3, a4, ?_⟩
    intro k hk
    rcases a7 k hk with h | h | h
    · exact Or.inl h
    · exact Or.inr h
    · simp only [Option.getD_some] at h
      have := (alGet_isSome_iff k p.terms).2 h
      cases hk2 : alGet k p.terms with
      | none => simp [hk2] at this
      | some t => exact wfTerm_key (hw.2.2 k t hk2)

theorem delete_applies (c : Cfg) {cfg : JCfg} {ev : List (Str × Evaluated)} {n n' : Str}
    (hu : compareOne ev (viewCfg cfg) n = some (.delete n')) :
    applyStmt (alGet n cfg) (render c (.delete n')) = .ok none := by
  obtain ⟨_, _, i, hi⟩ := compareOne_delete_inv hu
  rw [alGet_viewCfg] at hi
  cases hg : alGet n cfg with
  | none => simp [hg] at hi
  | some p => exact applyStmt_delete c n' p

/-! ### a set of updates of one run against an agent state -/

theorem map_render_names (c : Cfg) (us : List Update) :
    (us.map (render c)).map PStmt.name = us.map Update.name := by
  simp [List.map_map, Function.comp_def, render_name]

/-- Any duplicate-free selection of the updates `compare` emits (in particular every prefix of
every permutation of them) loads without error; each acts on its own policy as that policy was
before the run; every other policy is untouched. -/
theorem applyUpdates (c : Cfg) {cfg : JCfg} (hs : AgentState cfg) (ev : List (Str × Evaluated))
    (us : List Update) (hn : (us.map Update.name).Nodup)
    (hsub : ∀ u ∈ us, u ∈ compare ev (viewCfg cfg)) :
    ∃ cfg', applyAll cfg (us.map (render c)) = .ok cfg' ∧
      (∀ u ∈ us, applyStmt (alGet u.name cfg) (render c u) = .ok (alGet u.name cfg')) ∧
      (∀ n, n ∉ us.map Update.name → alGet n cfg' = alGet n cfg) ∧ (keys cfg').Nodup ∧
      (∀ n ∈ keys cfg', n ∈ keys cfg ∨ n ∈ us.map Update.name) := by
  let R : PStmt → Option JPolicy := fun p =>
    match applyStmt (alGet p.name cfg) p with
    | .ok r => r
    | .error _ => none
  have hok : ∀ u ∈ us, ∃ r, applyStmt (alGet u.name cfg) (render c u) = .ok r := by
    intro u hu
    have hc := (mem_compare.1 (hsub u hu)).2
    cases u with
    | delete n => exact ⟨none, delete_applies c hc⟩
    | update n e d4 d6 =>
      obtain ⟨p', h1, _⟩ := update_applies c hs hc
      exact ⟨some p', h1⟩
  have hR : ∀ p ∈ us.map (render c), applyStmt (alGet p.name cfg) p = .ok (R p) := by
    intro p hp
    obtain ⟨u, hu, rfl⟩ := List.mem_map.1 hp
    obtain ⟨r, hr⟩ := hok u hu
    simp only [R, render_name] at hr ⊢
    rw [hr]
  obtain ⟨cfg', c1, c2, c3, c4, c5⟩ := applyAll_spec R (us.map (render c)) cfg
    (by rw [map_render_names]; exact hn) hR
  rw [map_render_names] at c3 c5
  refine ⟨cfg', c1, ?_, c3, c4 hs.1, c5⟩
  intro u hu
  have := c2 (render c u) (List.mem_map.2 ⟨u, hu, rfl⟩)
  rw [render_name] at this
  rw [this]
  have := hR (render c u) (List.mem_map.2 ⟨u, hu, rfl⟩)
  rwa [render_name] at this

/-! ### what the resulting policy accepts -/

/-- the evaluated ranges satisfy the type invariant of `PrefixRange<Ipv4>` / `PrefixRange<Ipv6>` -/
def EvValid (ev : List (Str × Evaluated)) : Prop :=
  ∀ n e a b, alGet n ev = some ⟨e, some (a, b)⟩ →
    (∀ x ∈ a, Range.valid .v4 x = true) ∧ (∀ x ∈ b, Range.valid .v6 x = true)

/-- policy `p` is a well-formed agent policy whose per-family route-filter sets are `a` and `b` -/
def Installs (p : JPolicy) (a b : List Range) : Prop :=
  WfPolicy p ∧ (∀ x, x ∈ filtersOf .v4 p ↔ x ∈ a) ∧ (∀ x, x ∈ filtersOf .v6 p ↔ x ∈ b)

theorem newOk_fixed_term {f : Fam} {d : Diff} {t : JTerm} (h : NewOk .fixed f d (some t))
    (hv : ∀ x ∈ d.new, Range.valid f x = true) : WfTerm f.name t := by
  unfold NewOk at h
  by_cases hn : d.new = []
  · simp [hn, Cfg.fixed] at h
  · simp only [hn, if_false] at h
    obtain ⟨fs, h1, h2⟩ := h
    simp only [Option.some.injEq] at h1
    subst h1
    refine ⟨f, rfl, rfl, rfl, ?_, fun x hx => hv x ((h2 x).1 hx)⟩
    intro he
    simp only at he
    subst he
    cases hd : d.new with
    | nil => exact hn hd
    | cons y ys => have := (h2 y).2 (by simp [hd]); simp at this

theorem newOk_fixed_filters {f : Fam} {d : Diff} {p : JPolicy}
    (h : NewOk .fixed f d (alGet f.name p.terms)) : ∀ x, x ∈ filtersOf f p ↔ x ∈ d.new := by
  unfold NewOk at h
  unfold filtersOf
  by_cases hn : d.new = []
  · simp only [hn, if_true, Cfg.fixed, true_or] at h
    simp [h, hn]
  · simp only [hn, if_false] at h
    obtain ⟨fs, h1, h2⟩ := h
    simp [h1, h2]

theorem installs_of_newOk {p : JPolicy} {d4 d6 : Diff} (h1 : p.thenReject = true)
    (h2 : (keys p.terms).Nodup) (h4 : NewOk .fixed .v4 d4 (alGet inet p.terms))
    (h6 : NewOk .fixed .v6 d6 (alGet inet6 p.terms)) (hk : ∀ k ∈ keys p.terms, k = inet ∨ k = inet6)
    (hv4 : ∀ x ∈ d4.new, Range.valid .v4 x = true) (hv6 : ∀ x ∈ d6.new, Range.valid .v6 x = true) :
    Installs p d4.new d6.new := by
  refine ⟨⟨h1, h2, ?_⟩, newOk_fixed_filters (f := .v4) h4, newOk_fixed_filters (f := .v6) h6⟩
  intro k t hg
  have hkk := hk k ((alGet_isSome_iff k p.terms).1 (by simp [hg]))
  rcases hkk with rfl | rfl
  · rw [hg] at h4; exact newOk_fixed_term (f := .v4) h4 hv4
  · rw [hg] at h6; exact newOk_fixed_term (f := .v6) h6 hv6

/-! ### from the structure to the accept sets and to route evaluation -/

theorem seteq_iff (a b : List Range) : seteq a b = true ↔ ∀ x, x ∈ a ↔ x ∈ b := by
  unfold seteq
  simp only [Bool.and_eq_true, List.all_eq_true, decide_eq_true_eq]
  constructor
  · rintro ⟨h1, h2⟩ x; exact ⟨h1 x, h2 x⟩
  · intro h; exact ⟨fun x => (h x).1, fun x => (h x).2⟩

theorem mem_acceptSet (f : Fam) (p : JPolicy) (x : Range) :
    x ∈ acceptSet f p ↔ ∃ kt ∈ p.terms, kt.2.accept = true ∧ kt.2.family = some f.name ∧ x ∈ kt.2.filters := by
  unfold acceptSet
  simp only [List.mem_flatMap]
  constructor
  · rintro ⟨kt, hkt, hx⟩
    by_cases hc : (kt.2.accept && kt.2.family == some f.name) = true
    · simp only [hc, if_true] at hx
      simp only [Bool.and_eq_true, beq_iff_eq] at hc
      exact ⟨kt, hkt, hc.1, hc.2, hx⟩
    · simp [hc] at hx
  · rintro ⟨kt, hkt, h1, h2, hx⟩
    exact ⟨kt, hkt, by simp [h1, h2, hx]⟩

theorem acceptSet_wf {p : JPolicy} (h : WfPolicy p) (f : Fam) (x : Range) :
    x ∈ acceptSet f p ↔ x ∈ filtersOf f p := by
  rw [mem_acceptSet]
  unfold filtersOf
  constructor
  · rintro ⟨⟨k, t⟩, hkt, _, h2, hx⟩
    have hg := alGet_of_mem_nodup h.2.1 hkt
    obtain ⟨g, hk, hfam, _⟩ := h.2.2 k t hg
    simp only at h2 hx
    rw [hfam] at h2
    simp only [Option.some.injEq] at h2
    rw [← h2, ← hk, hg]
    exact hx
  · intro hx
    cases hg : alGet f.name p.terms with
    | none => simp [hg] at hx
    | some t =>
      simp only [hg] at hx
      obtain ⟨h1, h2, _, _⟩ := wfTerm_fam (h.2.2 _ _ hg)
      exact ⟨(f.name, t), alGet_mem hg, h2, h1, hx⟩

theorem restricted_wf {p : JPolicy} (h : WfPolicy p) : restricted p = true := by
  unfold restricted
  simp only [List.all_eq_true]
  intro kt hkt
  obtain ⟨f, _, hfam, hacc, hne, _⟩ := h.2.2 kt.1 kt.2 (alGet_of_mem_nodup h.2.1 hkt)
  rcases fam_name_cases f with e | e <;> simp [hfam, hacc, e, hne]

theorem convergedTo_of_installs {p : JPolicy} {a b : List Range} (h : Installs p a b) :
    convergedTo p a b = true := by
  unfold convergedTo
  simp only [Bool.and_eq_true, restricted_wf h.1, seteq_iff, h.1.1, and_true, true_and]
  exact ⟨fun x => (acceptSet_wf h.1 .v4 x).trans (h.2.1 x), fun x => (acceptSet_wf h.1 .v6 x).trans (h.2.2 x)⟩

def famOf (v6 : Bool) : Fam := if v6 then .v6 else .v4

/-- For a policy whose accepting terms are all restricted and which ends in reject, route
evaluation accepts exactly the routes matched by a range of the accept set of the route's family. -/
theorem accepts_iff {p : JPolicy} (hr : restricted p = true) (hj : p.thenReject = true) (r : Route) :
    accepts p r = true ↔ ∃ g ∈ acceptSet (famOf r.v6) p, g.matchesRoute r = true := by
  unfold accepts
  simp only [hj, Bool.not_true, Bool.or_false, List.any_eq_true, Bool.and_eq_true]
  unfold restricted at hr
  simp only [List.all_eq_true] at hr
  have hname : (famOf r.v6).name = famName r.v6 := by cases r.v6 <;> rfl
  constructor
  · rintro ⟨kt, hkt, hacc, hm⟩
    have h1 := hr kt hkt
    simp only [hacc, Bool.not_true, Bool.false_or, Bool.and_eq_true, Bool.or_eq_true, beq_iff_eq,
      Bool.not_eq_true', List.isEmpty_eq_false_iff] at h1
    unfold JTerm.matchesRoute at hm
    simp only [Bool.and_eq_true, Bool.or_eq_true, List.any_eq_true] at hm
    obtain ⟨hf, hfil⟩ := hm
    rcases hfil with he | ⟨g, hg, hgm⟩
    · exact absurd (List.isEmpty_iff.1 he) h1.2
    · refine ⟨g, (mem_acceptSet _ _ _).2 ⟨kt, hkt, hacc, ?_, hg⟩, hgm⟩
      rcases h1.1 with e | e <;> (rw [e] at hf ⊢; simp only [beq_iff_eq] at hf; rw [hname, hf])
  · rintro ⟨g, hg, hgm⟩
    obtain ⟨kt, hkt, hacc, hfam, hx⟩ := (mem_acceptSet _ _ _).1 hg
    refine ⟨kt, hkt, hacc, ?_⟩
    unfold JTerm.matchesRoute
    simp only [hfam, hname, beq_self_eq_true, Bool.true_and, Bool.or_eq_true, List.any_eq_true]
    exact Or.inr ⟨g, hx, hgm⟩

theorem readInstalled_congr (c : Cfg) (h : c.unescapeNames = true) (cfg : JCfg) :
    readInstalled c cfg = readInstalled .fixed cfg := by
  have hp : ∀ n p, readPolicy c n p = readPolicy .fixed n p := by
    intro n p; simp [readPolicy, nameOf, h, Cfg.fixed]
  have ha : readAll c cfg = readAll .fixed cfg := by
    induction cfg with
    | nil => rfl
    | cons e rest ih => obtain ⟨n, p⟩ := e; simp [readAll, hp, ih]
  simp [readInstalled, ha]

/-! ### C02: the policy left behind by an update is safe, for the pinned writer as well -/

theorem newOk_term_cases {c : Cfg} {f : Fam} {d : Diff} {t : JTerm} (h : NewOk c f d (some t)) :
    t.accept = false ∨ (t.family = some f.name ∧ t.filters ≠ [] ∧ ∀ x ∈ t.filters, x ∈ d.new) := by
  unfold NewOk at h
  by_cases hn : d.new = []
  · simp only [hn, if_true] at h
    split at h
    · cases h
    · simp only [Option.some.injEq] at h; subst h; exact Or.inl rfl
  · simp only [hn, if_false] at h
    obtain ⟨fs, h1, h2⟩ := h
    simp only [Option.some.injEq] at h1
    subst h1
    refine Or.inr ⟨rfl, ?_, fun x hx => (h2 x).1 hx⟩
    intro he
    simp only at he
    subst he
    cases hd : d.new with
    | nil => exact hn hd
    | cons y ys => have := (h2 y).2 (by simp [hd]); simp at this

theorem safeFor_of_newOk {c : Cfg} {p : JPolicy} {d4 d6 : Diff} (h1 : p.thenReject = true)
    (h2 : (keys p.terms).Nodup) (h4 : NewOk c .v4 d4 (alGet inet p.terms))
    (h6 : NewOk c .v6 d6 (alGet inet6 p.terms)) (hk : ∀ k ∈ keys p.terms, k = inet ∨ k = inet6) :
    safeFor p d4.new d6.new = true := by
  have hterm : ∀ kt ∈ p.terms, kt.2.accept = false ∨
      (kt.1 = inet ∧ kt.2.family = some inet ∧ kt.2.filters ≠ [] ∧ ∀ x ∈ kt.2.filters, x ∈ d4.new) ∨
      (kt.1 = inet6 ∧ kt.2.family = some inet6 ∧ kt.2.filters ≠ [] ∧ ∀ x ∈ kt.2.filters, x ∈ d6.new) := by
    intro kt hkt
    obtain ⟨k, t⟩ := kt
    have hg := alGet_of_mem_nodup h2 hkt
    rcases hk k (List.mem_map.2 ⟨(k, t), hkt, rfl⟩) with rfl | rfl
    · rw [hg] at h4
      rcases newOk_term_cases h4 with h | h
      · exact Or.inl h
      · exact Or.inr (Or.inl ⟨rfl, h⟩)
    · rw [hg] at h6
      rcases newOk_term_cases h6 with h | h
      · exact Or.inl h
      · exact Or.inr (Or.inr ⟨rfl, h⟩)
  unfold safeFor
  simp only [Bool.and_eq_true, h1, and_true]
  refine ⟨⟨?_, ?_⟩, ?_⟩
  · unfold restricted
    simp only [List.all_eq_true]
    intro kt hkt
    rcases hterm kt hkt with h | ⟨_, h, hne, _⟩ | ⟨_, h, hne, _⟩
    · simp [h]
    · simp [h, hne]
    · simp [h, hne]
  · simp only [List.all_eq_true, decide_eq_true_eq]
    intro x hx
    obtain ⟨kt, hkt, hacc, hfam, hxf⟩ := (mem_acceptSet _ _ _).1 hx
    rcases hterm kt hkt with h | ⟨_, _, _, h⟩ | ⟨_, h, _, _⟩
    · rw [h] at hacc; cases hacc
    · exact h x hxf
    · rw [h] at hfam; simp only [Fam.name, Option.some.injEq] at hfam
      exact absurd hfam.symm inet_ne_inet6
  · simp only [List.all_eq_true, decide_eq_true_eq]
    intro x hx
    obtain ⟨kt, hkt, hacc, hfam, hxf⟩ := (mem_acceptSet _ _ _).1 hx
    rcases hterm kt hkt with h | ⟨_, h, _, _⟩ | ⟨_, _, _, h⟩
    · rw [h] at hacc; cases hacc
    · rw [h] at hfam; simp only [Fam.name, Option.some.injEq] at hfam
      exact absurd hfam inet_ne_inet6
    · exact h x hxf

/-! ### candidates and evaluation (C03); the run as an instance of `applyAll` -/

/-- a marked statement is a candidate of the repaired reader (under its true name) -/
theorem marked_is_candidate {running : List RStmt} {cands : List (Str × Option Str)}
    (hc : candidates .fixed running = .ok cands) {s : RStmt} (hs : s ∈ running) (hm : s.marked = true) :
    ∃ x, alGet s.name cands = some x ∧ (s.ann = .malformed → x = none) ∧
      (∀ e, s.ann = .parsed e → x = some e) := by
  unfold candidates at hc
  simp only at hc
  split at hc
  · rename_i hnd
    simp only [Except.ok.injEq] at hc
    subst hc
    unfold RStmt.marked at hm
    simp only [Bool.and_eq_true, bne_iff_ne, ne_eq] at hm
    obtain ⟨⟨ha, hr⟩, hann⟩ := hm
    cases hx : s.ann with
    | none => exact absurd hx hann
    | malformed =>
      refine ⟨none, alGet_of_mem_nodup hnd (List.mem_filterMap.2 ⟨s, hs, ?_⟩), (fun _ => rfl), (fun e he => by cases he)⟩
      simp [candOf, ha, hr, hx, nameOf, Cfg.fixed]
    | parsed e =>
      refine ⟨some e, alGet_of_mem_nodup hnd (List.mem_filterMap.2 ⟨s, hs, ?_⟩), (fun h => by cases h), ?_⟩
      · simp [candOf, ha, hr, hx, nameOf, Cfg.fixed]
      · intro e' he
        simp only [Ann.parsed.injEq] at he
        rw [he]
  · cases hc

theorem alGet_evaluateAll (oracle : Str → Option (List Range × List Range)) (cands : List (Str × Option Str))
    (n : Str) :
    alGet n (evaluateAll oracle cands) = (alGet n cands).map fun e =>
      match e with
      | some e => ⟨e, oracle e⟩
      | none => ⟨[], none⟩ := by
  induction cands with
  | nil => simp [evaluateAll, alGet]
  | cons x xs ih =>
    obtain ⟨k, e⟩ := x
    unfold evaluateAll at ih ⊢
    by_cases hk : k = n
    · subst hk; simp [alGet]; cases e <;> rfl
    · simp only [List.map_cons, alGet, hk, if_false]; exact ih

/-- the agent's own run is the instance "emitted order" -/
theorem run_eq {cfg : JCfg} (hs : AgentState cfg) (ev : List (Str × Evaluated)) :
    run .fixed cfg ev = applyAll cfg ((compare ev (viewCfg cfg)).map (render .fixed)) := by
  simp [run, plan, readInstalled_agentState hs]

end Policy
