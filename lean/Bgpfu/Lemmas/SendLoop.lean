import Bgpfu.Model.SendLoop
/-! Helper lemmas for the `write_all` loop model (C10). Core Lean only. -/
namespace Framing

/-- whatever the partial-write sizes: what was written is a prefix of the data, in order, and the loop
reports success exactly when nothing is left -/
theorem writeAll_spec (data : List Byte) (caps : List Nat) :
    ∃ rest, (writeAll data caps).1.flatten ++ rest = data ∧ ((writeAll data caps).2 = true ↔ rest = []) := by
  induction caps generalizing data with
  | nil =>
    cases data with
    | nil => exact ⟨[], by simp [writeAll]⟩
    | cons d ds => exact ⟨d :: ds, by simp [writeAll]⟩
  | cons c caps ih =>
    cases data with
    | nil => exact ⟨[], by simp [writeAll]⟩
    | cons d ds =>
      by_cases hc : c = 0
      · exact ⟨d :: ds, by simp [writeAll, hc]⟩
      · obtain ⟨rest, h1, h2⟩ := ih ((d :: ds).drop c)
        refine ⟨rest, ?_, ?_⟩
        · simp only [writeAll, hc, if_false, List.flatten_cons, List.append_assoc]
          rw [h1, List.take_append_drop]
        · simpa only [writeAll, hc, if_false] using h2

theorem writeAll_complete (data : List Byte) (caps : List Nat) (hpos : ∀ c ∈ caps, 1 ≤ c)
    (hlen : data.length ≤ caps.length) :
    (writeAll data caps).1.flatten = data ∧ (writeAll data caps).2 = true := by
  induction caps generalizing data with
  | nil =>
    have : data = [] := List.eq_nil_of_length_eq_zero (by simpa using hlen)
    subst this
    simp [writeAll]
  | cons c caps ih =>
    cases data with
    | nil => simp [writeAll]
    | cons d ds =>
      have hc : 1 ≤ c := hpos c (by simp)
      have hc0 : c ≠ 0 := by omega
      have := ih ((d :: ds).drop c) (fun x hx => hpos x (by simp [hx]))
        (by simp only [List.length_drop, List.length_cons] at hlen ⊢; omega)
      simp only [writeAll, hc0, if_false, List.flatten_cons]
      rw [this.1, this.2, List.take_append_drop]
      exact ⟨rfl, rfl⟩

/-- every chunk is non-empty (`write_all` never issues an empty write) -/
theorem writeAll_chunks (data : List Byte) (caps : List Nat) :
    ∀ ch ∈ (writeAll data caps).1, ch ≠ [] := by
  induction caps generalizing data with
  | nil => cases data <;> simp [writeAll]
  | cons c caps ih =>
    cases data with
    | nil => simp [writeAll]
    | cons d ds =>
      by_cases hc : c = 0
      · simp [writeAll, hc]
      · intro ch hch
        simp only [writeAll, hc, if_false, List.mem_cons] at hch
        rcases hch with rfl | hch
        · cases c with
          | zero => exact absurd rfl hc
          | succ c => simp
        · exact ih _ ch hch

theorem writeMany_flatten (sends : List (List Byte × List Nat))
    (h : ∀ p ∈ sends, (∀ c ∈ p.2, 1 ≤ c) ∧ p.1.length ≤ p.2.length) :
    (writeMany writeAll sends).flatten = (sends.map (·.1)).flatten := by
  induction sends with
  | nil => rfl
  | cons p ps ih =>
    obtain ⟨data, caps⟩ := p
    have hp := h (data, caps) (by simp)
    simp only [writeMany, List.flatten_append, List.map_cons, List.flatten_cons]
    rw [(writeAll_complete data caps hp.1 hp.2).1, ih (fun q hq => h q (by simp [hq]))]

end Framing
