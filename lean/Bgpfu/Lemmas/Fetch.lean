import Bgpfu.Spec.ConfigGrammar
import Bgpfu.Lemmas.Readers
/-! Lemmas for C16: the event-level loops of `Model/Fetch.lean` on rendered configurations refine a
child-level semantics (`…Abs`, for both `FCfg`s), and the child-level semantics of the repaired
code is the specification `select`. -/
namespace Xml

def liftR {α} (r : Except Err α) (rest : List Ev) : Except Err (α × List Ev) :=
  match r with
  | .ok v => .ok (v, rest)
  | .error e => .error e

@[simp] theorem liftR_ok {α} (v : α) (rest : List Ev) : liftR (.ok v) rest = .ok (v, rest) := rfl
@[simp] theorem liftR_error {α} (e : Err) (rest : List Ev) : liftR (.error e : Except Err α) rest = .error e := rfl

/-! ### attribute loop -/

def annOf (a : Attr) : Option String := if a.isComment then a.value.bind annotationRaw else none

def attrsAbs (parseExpr : String → Option String) (acc : Option FExpr) (attrs : List Attr) : AttrOutcome :=
  if attrs.any (fun a => a.isActive && a.value == some "false") then .inactive
  else .expr (match (attrs.filterMap annOf).getLast? with
    | some raw => some (toFExpr parseExpr raw)
    | none => acc)

theorem attrLoop_spec (parseExpr : String → Option String) (attrs : List Attr)
    (hwf : ∀ a ∈ attrs, (a.isActive || a.isComment) = true → a.value.isSome) (acc : Option FExpr) :
    attrLoop parseExpr acc (attrs.map .ok) = .ok (attrsAbs parseExpr acc attrs) := by
  induction attrs generalizing acc with
  | nil => simp [attrLoop, attrsAbs]
  | cons a rest ih =>
    have hwf' : ∀ a ∈ rest, (a.isActive || a.isComment) = true → a.value.isSome :=
      fun x hx => hwf x (by simp [hx])
    have ha := hwf a (by simp)
    simp only [List.map_cons, attrLoop]
    by_cases h1 : a.isActive = true
    · have h1' : (a.ns == Ns.bound JCMD && a.lname == "active") = true := h1
      have hc : a.isComment = false := by
        simp only [Attr.isActive, Attr.isComment, Bool.and_eq_true, beq_iff_eq] at h1 ⊢
        simp [h1.2]
      obtain ⟨v, hv⟩ := Option.isSome_iff_exists.mp (ha (by simp [h1]))
      simp only [h1', if_true, hv]
      by_cases hf : v = "false"
      · subst hf
        simp [attrsAbs, h1, hv]
      · have hf' : (v == "false") = false := by simpa using hf
        simp only [hf', Bool.false_eq_true, if_false]
        rw [ih hwf']
        simp [attrsAbs, h1, hv, hf, annOf, hc]
    · have h1' : (a.ns == Ns.bound JCMD && a.lname == "active") = false := by simpa [Attr.isActive] using h1
      have h1'' : a.isActive = false := by simpa using h1
      simp only [h1', Bool.false_eq_true, if_false]
      by_cases h2 : a.isComment = true
      · have h2' : (a.ns == Ns.bound JCMD && a.lname == "comment") = true := h2
        obtain ⟨v, hv⟩ := Option.isSome_iff_exists.mp (ha (by simp [h2]))
        simp only [h2', if_true, hv]
        cases hr : annotationRaw v with
        | none =>
          simp only []
          rw [ih hwf']
          simp [attrsAbs, h1'', annOf, h2, hv, hr]
        | some raw =>
          simp only []
          rw [ih hwf']
          simp only [attrsAbs, List.any_cons, h1'', Bool.false_and, Bool.false_or, List.filterMap_cons, annOf, h2,
            if_true, hv, Option.bind_some, hr, List.getLast?_cons]
          split
          · rfl
          · cases hl : (List.filterMap annOf rest).getLast? <;> simp [annOf] at hl ⊢ <;> simp_all
      · have h2' : (a.ns == Ns.bound JCMD && a.lname == "comment") = false := by simpa [Attr.isComment] using h2
        have h2'' : a.isComment = false := by simpa using h2
        simp only [h2', Bool.false_eq_true, if_false]
        rw [ih hwf']
        simp [attrsAbs, h1'', annOf, h2'']

/-! ### `<then>` -/

/-- child-level semantics of `thenLoop` -/
def thenAbs (c : FCfg) (rj ot : Bool) : List ThenItem → Except Err (Bool × Bool)
  | [] => .ok (rj, ot)
  | .empty t :: cs =>
    if t.is XNM "reject" then thenAbs c true ot cs
    else if c.skipOther then thenAbs c rj true cs else .error .unexpected
  | .comment :: cs => thenAbs c rj ot cs
  | .elem _ _ :: cs => if c.skipOther then thenAbs c rj true cs else .error .unexpected
  | .text _ :: cs => if c.skipOther then thenAbs c rj true cs else .error .unexpected
  | .cdata :: cs => if c.skipOther then thenAbs c rj true cs else .error .unexpected

theorem skipToEnd_elem (raw : String) (inner tail : List Ev) (h : Inert raw inner) :
    skipToEnd raw (inner ++ .end raw :: tail) 0 = .ok tail := by
  rw [skipToEnd_inert _ _ _ _ h]; simp [skipToEnd]

theorem thenLoop_refines (c : FCfg) (cs : List ThenItem) (hwf : ∀ x ∈ cs, x.WF) (fuel : Nat) (raw : String)
    (rj ot : Bool) (rest : List Ev) (hf : (cs.flatMap ThenItem.render).length + 1 ≤ fuel) :
    thenLoop c fuel raw rj ot (cs.flatMap ThenItem.render ++ .end raw :: rest) = liftR (thenAbs c rj ot cs) rest := by
  induction cs generalizing fuel rj ot with
  | nil =>
    obtain ⟨f, rfl⟩ : ∃ f, fuel = f + 1 := ⟨fuel - 1, by omega⟩
    simp [thenLoop, thenAbs]
  | cons x cs ih =>
    obtain ⟨f, rfl⟩ : ∃ f, fuel = f + 1 := ⟨fuel - 1, by omega⟩
    have hwf' : ∀ x ∈ cs, x.WF := fun y hy => hwf y (by simp [hy])
    simp only [List.flatMap_cons, List.append_assoc, List.length_append] at hf ⊢
    cases x with
    | empty t =>
      simp only [ThenItem.render, List.cons_append, List.nil_append, thenLoop, thenAbs, List.length_cons, List.length_nil] at hf ⊢
      split
      · exact ih hwf' f _ _ (by omega)
      · split
        · exact ih hwf' f _ _ (by omega)
        · rfl
    | comment =>
      simp only [ThenItem.render, List.cons_append, List.nil_append, thenLoop, thenAbs, List.length_cons, List.length_nil] at hf ⊢
      exact ih hwf' f _ _ (by omega)
    | text s =>
      simp only [ThenItem.render, List.cons_append, List.nil_append, thenLoop, thenAbs, List.length_cons, List.length_nil] at hf ⊢
      split
      · exact ih hwf' f _ _ (by omega)
      · rfl
    | cdata =>
      simp only [ThenItem.render, List.cons_append, List.nil_append, thenLoop, thenAbs, List.length_cons, List.length_nil] at hf ⊢
      split
      · exact ih hwf' f _ _ (by omega)
      · rfl
    | elem t inner =>
      have hi : Inert t.raw inner := hwf (.elem t inner) (by simp)
      simp only [ThenItem.render, List.cons_append, List.append_assoc, List.nil_append, thenLoop, thenAbs,
        List.length_cons, List.length_append, List.length_nil] at hf ⊢
      split
      · rw [skipToEnd_elem _ _ _ hi]
        exact ih hwf' f _ _ (by omega)
      · rfl

end Xml

namespace Xml

/-! ### statement body -/

/-- child-level semantics of `bodyLoop` -/
def bodyAbs (c : FCfg) (unescape : String → Option String) (st : BodySt) : List BodyItem → Except Err BodySt
  | [] => .ok st
  | .name _ _ span _ :: bs =>
    if st.name.isNone then
      (match unescape span with
       | some n => bodyAbs c unescape { st with name := some n } bs
       | none => .error .xml)
    else if c.skipOther then bodyAbs c unescape { st with other := true } bs else .error .unexpected
  | .then_ _ _ _ cs :: bs =>
    if st.thenOpen c then
      (match thenAbs c st.reject st.other cs with
       | .ok (rj, ot) => bodyAbs c unescape { st with reject := rj, other := ot, thenSeen := true } bs
       | .error e => .error e)
    else if c.skipOther then bodyAbs c unescape { st with other := true } bs else .error .unexpected
  | .comment :: bs => bodyAbs c unescape st bs
  | .elem _ _ :: bs => if c.skipOther then bodyAbs c unescape { st with other := true } bs else .error .unexpected
  | .empty _ :: bs => if c.skipOther then bodyAbs c unescape { st with other := true } bs else .error .unexpected
  | .text _ :: bs => if c.skipOther then bodyAbs c unescape { st with other := true } bs else .error .unexpected
  | .cdata :: bs => if c.skipOther then bodyAbs c unescape { st with other := true } bs else .error .unexpected

theorem xnmTag_is (l raw : String) (attrs : List AttrItem) (sp : Option String) (n : String) :
    (xnmTag l raw attrs sp).is XNM n = (l == n) := by
  simp [Tag.is, xnmTag]

theorem readText_elem (t : Tag) (s : String) (inner tail : List Ev) (hs : t.span = some s) (h : Inert t.raw inner) :
    readText t (inner ++ .end t.raw :: tail) = .ok (s, tail) := by
  simp [readText, skipToEnd_elem _ _ _ h, hs]

theorem bodyLoop_refines (c : FCfg) (unescape : String → Option String) (bs : List BodyItem)
    (hwf : ∀ b ∈ bs, b.WF unescape) (fuel : Nat) (raw : String) (st : BodySt) (rest : List Ev)
    (hf : (bs.flatMap BodyItem.render).length + 1 ≤ fuel) :
    bodyLoop c unescape fuel raw st (bs.flatMap BodyItem.render ++ .end raw :: rest)
      = liftR (bodyAbs c unescape st bs) rest := by
  induction bs generalizing fuel st with
  | nil =>
    obtain ⟨f, rfl⟩ : ∃ f, fuel = f + 1 := ⟨fuel - 1, by omega⟩
    simp [bodyLoop, bodyAbs]
  | cons b bs ih =>
    obtain ⟨f, rfl⟩ : ∃ f, fuel = f + 1 := ⟨fuel - 1, by omega⟩
    have hwf' : ∀ b ∈ bs, b.WF unescape := fun y hy => hwf y (by simp [hy])
    have hb := hwf b (by simp)
    simp only [List.flatMap_cons, List.append_assoc, List.length_append] at hf ⊢
    cases b with
    | comment =>
      simp only [BodyItem.render, List.cons_append, List.nil_append, bodyLoop, bodyAbs, List.length_cons, List.length_nil] at hf ⊢
      exact ih hwf' f _ (by omega)
    | empty t =>
      simp only [BodyItem.render, List.cons_append, List.nil_append, bodyLoop, bodyAbs, List.length_cons, List.length_nil] at hf ⊢
      split
      · exact ih hwf' f _ (by omega)
      · rfl
    | text s =>
      simp only [BodyItem.render, List.cons_append, List.nil_append, bodyLoop, bodyAbs, List.length_cons, List.length_nil] at hf ⊢
      split
      · exact ih hwf' f _ (by omega)
      · rfl
    | cdata =>
      simp only [BodyItem.render, List.cons_append, List.nil_append, bodyLoop, bodyAbs, List.length_cons, List.length_nil] at hf ⊢
      split
      · exact ih hwf' f _ (by omega)
      · rfl
    | elem t inner =>
      obtain ⟨hi, hn, ht⟩ := hb
      simp only [BodyItem.render, List.cons_append, List.append_assoc, List.nil_append, bodyLoop, bodyAbs,
        List.length_cons, List.length_append, List.length_nil, hn, ht, Bool.false_and, Bool.false_eq_true, if_false] at hf ⊢
      split
      · rw [skipToEnd_elem _ _ _ hi]
        exact ih hwf' f _ (by omega)
      · rfl
    | name nraw attrs span inner =>
      obtain ⟨hi, hu⟩ := hb
      obtain ⟨n, hn⟩ := Option.isSome_iff_exists.mp hu
      simp only [BodyItem.render, List.cons_append, List.append_assoc, List.nil_append, bodyLoop, bodyAbs,
        List.length_cons, List.length_append, List.length_nil, xnmTag_is] at hf ⊢
      have h1 : ("name" == "name") = true := by decide
      have h2 : ("name" == "then") = false := by decide
      simp only [h1, h2, Bool.true_and, Bool.false_and, Bool.false_eq_true, if_false]
      by_cases hnm : st.name.isNone = true
      · simp only [hnm, if_true, readName]
        have : readText (xnmTag "name" nraw attrs (some span)) (inner ++ Ev.end nraw :: (List.flatMap BodyItem.render bs ++ Ev.end raw :: rest))
            = .ok (span, List.flatMap BodyItem.render bs ++ Ev.end raw :: rest) :=
          readText_elem (xnmTag "name" nraw attrs (some span)) span inner _ rfl hi
        rw [this]
        simp only [hn]
        exact ih hwf' f _ (by omega)
      · simp only [hnm, Bool.false_eq_true, if_false]
        split
        · have := skipToEnd_elem nraw inner (List.flatMap BodyItem.render bs ++ Ev.end raw :: rest) hi
          simp only [xnmTag] at this ⊢
          rw [this]
          exact ih hwf' f _ (by omega)
        · rfl
    | then_ traw attrs span cs =>
      obtain ⟨hcs, hi⟩ := hb
      simp only [BodyItem.render, List.cons_append, List.append_assoc, List.nil_append, bodyLoop, bodyAbs,
        List.length_cons, List.length_append, List.length_nil, xnmTag_is] at hf ⊢
      have h1 : ("then" == "name") = false := by decide
      have h2 : ("then" == "then") = true := by decide
      simp only [h1, h2, Bool.true_and, Bool.false_and, Bool.false_eq_true, if_false]
      by_cases ho : st.thenOpen c = true
      · simp only [ho, if_true]
        have := thenLoop_refines c cs hcs f traw st.reject st.other
          (List.flatMap BodyItem.render bs ++ Ev.end raw :: rest) (by omega)
        simp only [xnmTag] at this ⊢
        rw [this]
        cases hr : thenAbs c st.reject st.other cs with
        | error e => simp
        | ok v =>
          obtain ⟨rj, ot⟩ := v
          simp only [liftR_ok]
          exact ih hwf' f _ (by omega)
      · simp only [ho, Bool.false_eq_true, if_false]
        split
        · have := skipToEnd_elem traw _ (List.flatMap BodyItem.render bs ++ Ev.end raw :: rest) hi
          simp only [xnmTag] at this ⊢
          rw [this]
          exact ih hwf' f _ (by omega)
        · rfl

end Xml

namespace Xml

/-! ### one statement -/

def stmtAbs (c : FCfg) (parseExpr unescape : String → Option String) (s : Stmt) : Except Err (Option (String × FExpr)) :=
  match attrsAbs parseExpr none s.attrs with
  | .inactive => .ok none
  | .expr none => .ok none
  | .expr (some fe) =>
    match bodyAbs c unescape {} s.body with
    | .error e => .error e
    | .ok st => st.finish fe

theorem Stmt.render_eq (s : Stmt) (tail : List Ev) :
    s.render ++ tail = .start s.tag :: (s.body.flatMap BodyItem.render ++ .end s.raw :: tail) := by
  simp [Stmt.render]

theorem Stmt.render_length (s : Stmt) : s.render.length = (s.body.flatMap BodyItem.render).length + 2 := by
  simp [Stmt.render]

theorem readCandidate_refines (c : FCfg) (parseExpr unescape : String → Option String) (s : Stmt)
    (hwf : s.WF unescape) (fuel : Nat) (tail : List Ev) (hf : s.render.length ≤ fuel + 1) :
    readCandidate c parseExpr unescape fuel s.tag (s.body.flatMap BodyItem.render ++ .end s.raw :: tail)
      = liftR (stmtAbs c parseExpr unescape s) tail := by
  rw [Stmt.render_length] at hf
  have hskip : ∀ {α}, (skipStmt s.tag (s.body.flatMap BodyItem.render ++ .end s.raw :: tail) : Except Err (Option α × List Ev))
      = .ok (none, tail) := by
    intro α
    have := skipToEnd_elem s.raw _ tail hwf.inert
    simp only [skipStmt, Stmt.tag, xnmTag]
    rw [this]
  unfold readCandidate stmtAbs
  have ha : attrLoop parseExpr none s.tag.attrs = .ok (attrsAbs parseExpr none s.attrs) := by
    simpa [Stmt.tag, xnmTag] using attrLoop_spec parseExpr s.attrs hwf.attrs none
  rw [ha]
  cases hx : attrsAbs parseExpr none s.attrs with
  | inactive => simp only []; rw [hskip]; rfl
  | expr e =>
    cases e with
    | none => simp only []; rw [hskip]; rfl
    | some fe =>
      simp only []
      have hb := bodyLoop_refines c unescape s.body hwf.body fuel s.raw {} tail (by omega)
      have : s.tag.raw = s.raw := rfl
      rw [this, hb]
      cases hr : bodyAbs c unescape {} s.body with
      | error e => simp
      | ok st =>
        simp only [liftR_ok]
        cases st.finish fe <;> simp

/-! ### Policies<T>: the three outer loops, generic in the statement reader -/

/-- child-level semantics of `policyOptionsLoop` for a statement semantics `sem` -/
def poAbs {T} (sem : Stmt → Except Err (Option (String × T))) (map : List (String × T)) : List PoItem →
    Except Err (List (String × T))
  | [] => .ok map
  | .comment :: is => poAbs sem map is
  | .stmt s :: is =>
    match sem s with
    | .error e => .error e
    | .ok none => poAbs sem map is
    | .ok (some (n, p)) => if map.any (·.1 == n) then .error .other else poAbs sem (map ++ [(n, p)]) is

/-- `rd` reads every statement of `ss` as `sem` says -/
def Reads {T} (rd : StmtReader T) (sem : Stmt → Except Err (Option (String × T))) (ss : List Stmt) : Prop :=
  ∀ s ∈ ss, ∀ (fuel : Nat) (tail : List Ev), s.render.length ≤ fuel + 1 →
    rd fuel s.tag (s.body.flatMap BodyItem.render ++ .end s.raw :: tail) = liftR (sem s) tail

theorem Stmt.tag_is (s : Stmt) : s.tag.is XNM "policy-statement" = true := by simp [Stmt.tag, xnmTag_is]

theorem policyOptionsLoop_refines {T} (rd : StmtReader T) (sem : Stmt → Except Err (Option (String × T)))
    (items : List PoItem) (hrd : Reads rd sem (stmtsOf items)) (fuel : Nat) (raw : String)
    (map : List (String × T)) (rest : List Ev) (hf : (items.flatMap PoItem.render).length + 1 ≤ fuel) :
    policyOptionsLoop rd fuel raw map (items.flatMap PoItem.render ++ .end raw :: rest)
      = liftR (poAbs sem map items) rest := by
  induction items generalizing fuel map with
  | nil =>
    obtain ⟨f, rfl⟩ : ∃ f, fuel = f + 1 := ⟨fuel - 1, by omega⟩
    simp [policyOptionsLoop, poAbs]
  | cons x is ih =>
    obtain ⟨f, rfl⟩ : ∃ f, fuel = f + 1 := ⟨fuel - 1, by omega⟩
    simp only [List.flatMap_cons, List.append_assoc, List.length_append] at hf ⊢
    cases x with
    | comment =>
      have hrd' : Reads rd sem (stmtsOf is) := by simpa [stmtsOf] using hrd
      simp only [PoItem.render, List.cons_append, List.nil_append, policyOptionsLoop, poAbs, List.length_cons, List.length_nil] at hf ⊢
      exact ih hrd' f _ (by omega)
    | stmt s =>
      have hrd' : Reads rd sem (stmtsOf is) := fun y hy => hrd y (by simp [stmtsOf] at hy ⊢; exact Or.inr hy)
      have hs := hrd s (by simp [stmtsOf]) f (List.flatMap PoItem.render is ++ Ev.end raw :: rest)
        (by simp only [PoItem.render] at hf; omega)
      simp only [PoItem.render] at hf ⊢
      rw [Stmt.render_eq, policyOptionsLoop]
      simp only [Stmt.tag_is, if_true, hs, poAbs]
      have hl : 2 ≤ s.render.length := by rw [Stmt.render_length]; omega
      cases hsem : sem s with
      | error e => simp
      | ok v =>
        cases v with
        | none => simp only [liftR_ok]; exact ih hrd' f _ (by omega)
        | some np =>
          obtain ⟨n, p⟩ := np
          simp only [liftR_ok]
          split
          · rfl
          · exact ih hrd' f _ (by omega)

theorem configurationLoop_comments {T} (rd : StmtReader T) (n fuel : Nat) (raw : String) (seen : Bool)
    (map : List (String × T)) (tail : List Ev) :
    configurationLoop rd (fuel + n) raw seen map (comments n ++ tail) = configurationLoop rd fuel raw seen map tail := by
  induction n with
  | zero => simp [comments]
  | succ n ih =>
    have : comments (n + 1) ++ tail = .comment :: (comments n ++ tail) := by simp [comments, List.replicate_succ]
    rw [this, ← Nat.add_assoc, configurationLoop]
    exact ih

theorem policiesLoop_comments {T} (rd : StmtReader T) (n fuel : Nat) (raw : String)
    (this : Option (List (String × T))) (tail : List Ev) :
    policiesLoop rd (fuel + n) raw this (comments n ++ tail) = policiesLoop rd fuel raw this tail := by
  induction n with
  | zero => simp [comments]
  | succ n ih =>
    have h : comments (n + 1) ++ tail = .comment :: (comments n ++ tail) := by simp [comments, List.replicate_succ]
    rw [h, ← Nat.add_assoc, policiesLoop]
    exact ih

theorem Config.render_length (cfg : Config) (dataRaw : String) :
    (cfg.render dataRaw).length = cfg.c1 + cfg.c2 + cfg.c3 + cfg.c4 + (cfg.items.flatMap PoItem.render).length + 5 := by
  simp [Config.render, comments]; omega

/-- **the three outer loops on a rendered configuration** -/
theorem policiesLoop_render {T} (rd : StmtReader T) (sem : Stmt → Except Err (Option (String × T)))
    (cfg : Config) (hrd : Reads rd sem cfg.stmts) (dataRaw : String) (rest : List Ev) (fuel : Nat)
    (hf : (cfg.render dataRaw).length + 1 ≤ fuel) :
    policiesLoop rd fuel dataRaw none (cfg.render dataRaw ++ rest) = poAbs sem [] cfg.items := by
  rw [Config.render_length] at hf
  obtain ⟨f, rfl⟩ : ∃ f, fuel = (((f + cfg.c4 + 1 + 1) + cfg.c3 + 1) + cfg.c2 + 1 + 1) + cfg.c1 :=
    ⟨fuel - (cfg.c1 + cfg.c2 + cfg.c3 + cfg.c4 + 5), by omega⟩
  have hfi : (cfg.items.flatMap PoItem.render).length + 1 ≤ f + cfg.c4 + 1 := by omega
  simp only [Config.render, List.append_assoc, List.cons_append]
  rw [policiesLoop_comments, policiesLoop]
  simp only [xnmTag_is, beq_self_eq_true, Option.isNone_none, Bool.and_self, if_true]
  have e1 : (f + cfg.c4 + 1 + 1 + cfg.c3 + 1 + cfg.c2 + 1) = ((f + cfg.c4 + 1 + 1 + cfg.c2 + 1) + 1) + cfg.c3 := by omega
  have hraw : ∀ l r a s, (xnmTag l r a s).raw = r := fun _ _ _ _ => rfl
  rw [hraw, e1, configurationLoop_comments, configurationLoop]
  simp only [xnmTag_is, beq_self_eq_true, Bool.not_false, Bool.and_self, if_true, hraw]
  have hpo := policyOptionsLoop_refines rd sem cfg.items hrd (f + cfg.c4 + 1 + 1 + cfg.c2 + 1) cfg.poRaw []
    (comments cfg.c4 ++ .end cfg.confRaw :: (comments cfg.c2 ++ .end dataRaw :: rest)) (by omega)
  simp only [List.nil_append] at hpo ⊢
  rw [hpo]
  cases hr : poAbs sem [] cfg.items with
  | error e => simp
  | ok map =>
    simp only [liftR_ok]
    have e2 : f + cfg.c4 + 1 + 1 + cfg.c2 + 1 = (f + 1 + 1 + cfg.c2 + 1) + cfg.c4 := by omega
    rw [e2, configurationLoop_comments]
    have e3 : f + 1 + 1 + cfg.c2 + 1 = (f + 1 + 1 + cfg.c2) + 1 := by omega
    rw [e3, configurationLoop]
    simp only [beq_self_eq_true, if_true]
    rw [← e3, ← e2, ← e1]
    have e5 : f + cfg.c4 + 1 + 1 + cfg.c3 + 1 + cfg.c2 + 1 = (f + cfg.c4 + 1 + 1 + cfg.c3 + 1 + 1) + cfg.c2 := by omega
    rw [e5, policiesLoop_comments, policiesLoop]
    simp

end Xml

namespace Xml

/-! ### the repaired code computes the specification -/

@[simp] theorem FCfg.fixed_skipOther : FCfg.fixed.skipOther = true := rfl
@[simp] theorem FCfg.fixed_thenOnce : FCfg.fixed.thenOnce = true := rfl
@[simp] theorem FCfg.pinned_skipOther : FCfg.pinned.skipOther = false := rfl
@[simp] theorem FCfg.pinned_thenOnce : FCfg.pinned.thenOnce = false := rfl

theorem thenAbs_fixed (cs : List ThenItem) (rj ot : Bool) :
    thenAbs .fixed rj ot cs = .ok (rj || cs.any ThenItem.isReject, ot || cs.any ThenItem.isDirty) := by
  induction cs generalizing rj ot with
  | nil => simp [thenAbs]
  | cons x cs ih =>
    cases x with
    | empty t =>
      simp only [thenAbs, FCfg.fixed_skipOther, if_true]
      split <;> rw [ih] <;> simp [ThenItem.isReject, ThenItem.isDirty, ThenItem.isComment, *]
    | comment => simp only [thenAbs]; rw [ih]; simp [ThenItem.isReject, ThenItem.isDirty, ThenItem.isComment]
    | elem t i => simp only [thenAbs, FCfg.fixed_skipOther, if_true]; rw [ih]; simp [ThenItem.isReject, ThenItem.isDirty, ThenItem.isComment]
    | text s => simp only [thenAbs, FCfg.fixed_skipOther, if_true]; rw [ih]; simp [ThenItem.isReject, ThenItem.isDirty, ThenItem.isComment]
    | cdata => simp only [thenAbs, FCfg.fixed_skipOther, if_true]; rw [ih]; simp [ThenItem.isReject, ThenItem.isDirty, ThenItem.isComment]

theorem bodyNames_cons (b : BodyItem) (bs : List BodyItem) :
    bodyNames (b :: bs) = (match b with | .name _ _ span _ => [span] | _ => []) ++ bodyNames bs := by
  cases b <;> rfl

theorem bodyThens_cons (b : BodyItem) (bs : List BodyItem) :
    bodyThens (b :: bs) = (match b with | .then_ _ _ _ cs => [cs] | _ => []) ++ bodyThens bs := by
  cases b <;> rfl

/-- what the body scan of the repaired code ends with, as a function of the whole body -/
def bodyFinal (unescape : String → Option String) (st : BodySt) (bs : List BodyItem) : BodySt :=
  { name := if st.name.isSome then st.name else (bodyNames bs).head?.bind unescape
    reject := st.reject || (!st.thenSeen && (bodyThens bs).head?.any (·.any ThenItem.isReject))
    thenSeen := st.thenSeen || !(bodyThens bs).isEmpty
    other := st.other || bs.any BodyItem.isOther
            || decide (1 < (bodyNames bs).length + st.name.isSome.toNat)
            || decide (1 < (bodyThens bs).length + st.thenSeen.toNat)
            || (!st.thenSeen && (bodyThens bs).head?.any (·.any ThenItem.isDirty)) }

theorem BodySt.ext' {a b : BodySt} (h1 : a.name = b.name) (h2 : a.reject = b.reject) (h3 : a.thenSeen = b.thenSeen)
    (h4 : a.other = b.other) : a = b := by
  cases a; cases b; simp_all

theorem bodyAbs_fixed (unescape : String → Option String) (bs : List BodyItem)
    (hwf : ∀ b ∈ bs, b.WF unescape) (st : BodySt) :
    bodyAbs .fixed unescape st bs = .ok (bodyFinal unescape st bs) := by
  induction bs generalizing st with
  | nil =>
    simp only [bodyAbs, Except.ok.injEq]
    apply BodySt.ext' <;> simp [bodyFinal, bodyNames, bodyThens]
    all_goals (cases st.name <;> cases st.thenSeen <;> simp)
  | cons b bs ih =>
    have hwf' : ∀ b ∈ bs, b.WF unescape := fun y hy => hwf y (by simp [hy])
    have hb := hwf b (by simp)
    cases b with
    | comment =>
      simp only [bodyAbs]; rw [ih hwf']
      simp [bodyFinal, bodyNames_cons, bodyThens_cons, BodyItem.isOther]
    | elem t inner =>
      simp only [bodyAbs, FCfg.fixed_skipOther, if_true]; rw [ih hwf']
      simp [bodyFinal, bodyNames_cons, bodyThens_cons, BodyItem.isOther]
    | empty t =>
      simp only [bodyAbs, FCfg.fixed_skipOther, if_true]; rw [ih hwf']
      simp [bodyFinal, bodyNames_cons, bodyThens_cons, BodyItem.isOther]
    | text s =>
      simp only [bodyAbs, FCfg.fixed_skipOther, if_true]; rw [ih hwf']
      simp [bodyFinal, bodyNames_cons, bodyThens_cons, BodyItem.isOther]
    | cdata =>
      simp only [bodyAbs, FCfg.fixed_skipOther, if_true]; rw [ih hwf']
      simp [bodyFinal, bodyNames_cons, bodyThens_cons, BodyItem.isOther]
    | name nraw attrs span inner =>
      obtain ⟨_, hu⟩ := hb
      obtain ⟨n, hn⟩ := Option.isSome_iff_exists.mp hu
      cases hnm : st.name with
      | none =>
        simp only [bodyAbs, hnm, Option.isNone_none, if_true, hn]; rw [ih hwf']
        simp only [Except.ok.injEq]
        apply BodySt.ext' <;> simp [bodyFinal, bodyNames_cons, bodyThens_cons, BodyItem.isOther, hnm, hn]
      | some m =>
        simp only [bodyAbs, hnm, Option.isNone_some, Bool.false_eq_true, if_false, FCfg.fixed_skipOther, if_true]; rw [ih hwf']
        simp only [Except.ok.injEq]
        apply BodySt.ext' <;> simp [bodyFinal, bodyNames_cons, bodyThens_cons, BodyItem.isOther, hnm]
    | then_ traw attrs span cs =>
      cases hts : st.thenSeen with
      | false =>
        simp only [bodyAbs, BodySt.thenOpen, FCfg.fixed_thenOnce, if_true, hts, Bool.not_false, thenAbs_fixed]; rw [ih hwf']
        simp only [Except.ok.injEq]
        apply BodySt.ext' <;> simp [bodyFinal, bodyNames_cons, bodyThens_cons, BodyItem.isOther, hts]
        ac_rfl
      | true =>
        simp only [bodyAbs, BodySt.thenOpen, FCfg.fixed_thenOnce, if_true, hts, Bool.not_true, Bool.false_eq_true, if_false,
          FCfg.fixed_skipOther]; rw [ih hwf']
        simp only [Except.ok.injEq]
        apply BodySt.ext' <;> simp [bodyFinal, bodyNames_cons, bodyThens_cons, BodyItem.isOther, hts]

end Xml

namespace Xml

theorem attrsAbs_eq (parseExpr : String → Option String) (s : Stmt) :
    attrsAbs parseExpr none s.attrs
      = if s.inactive then .inactive else .expr (s.annotation.map (toFExpr parseExpr)) := by
  unfold attrsAbs Stmt.inactive Stmt.annotation Stmt.annotations
  have : (fun a : Attr => if a.isComment then a.value.bind annotationRaw else none) = annOf := by
    funext a; rfl
  rw [this]
  split
  · rfl
  · cases (List.filterMap annOf s.attrs).getLast? <;> rfl

theorem all_clean_eq (cs : List ThenItem) :
    (cs.all fun c => c.isReject || c.isComment) = !cs.any ThenItem.isDirty := by
  induction cs with
  | nil => rfl
  | cons c cs ih => simp [List.all_cons, List.any_cons, ih, ThenItem.isDirty]

theorem keyed_names (bs : List BodyItem) (h : bs.any BodyItem.isName = true) : 1 ≤ (bodyNames bs).length := by
  induction bs with
  | nil => simp at h
  | cons b bs ih =>
    rw [bodyNames_cons]
    cases b <;> simp only [List.any_cons, BodyItem.isName, Bool.false_or, Bool.true_or] at h <;>
      simp only [List.nil_append, List.cons_append, List.length_cons] <;> first | omega | exact ih h

theorem names_head_wf (unescape : String → Option String) (bs : List BodyItem) (hwf : ∀ b ∈ bs, b.WF unescape)
    (span : String) (h : (bodyNames bs).head? = some span) : (unescape span).isSome := by
  induction bs with
  | nil => simp [bodyNames] at h
  | cons b bs ih =>
    have hwf' : ∀ b ∈ bs, b.WF unescape := fun y hy => hwf y (by simp [hy])
    have hb := hwf b (by simp)
    rw [bodyNames_cons] at h
    cases b <;> simp only [List.nil_append, List.cons_append, List.head?_cons, Option.some.injEq] at h
    case name => subst h; exact hb.2
    all_goals exact ih hwf' h

/-- **one statement: the repaired reader decides exactly `selected`** -/
theorem stmtAbs_fixed (parseExpr unescape : String → Option String) (s : Stmt) (hwf : s.WF unescape) :
    stmtAbs .fixed parseExpr unescape s = .ok (s.selected parseExpr unescape) := by
  unfold stmtAbs Stmt.selected
  rw [attrsAbs_eq]
  cases hi : s.inactive with
  | true => simp
  | false =>
    simp only [Bool.false_eq_true, if_false]
    cases ha : s.annotation with
    | none => simp
    | some raw =>
      simp only [Option.map_some, bodyAbs_fixed unescape s.body hwf.body]
      have hk := keyed_names s.body hwf.keyed
      unfold BodySt.finish Stmt.defaultReject Stmt.names Stmt.thens
      simp only [bodyFinal]
      cases hn : bodyNames s.body with
      | nil => simp [hn] at hk
      | cons span ns =>
        obtain ⟨n, hu⟩ := Option.isSome_iff_exists.mp (names_head_wf unescape s.body hwf.body span (by simp [hn]))
        cases ht : bodyThens s.body with
        | nil => simp
        | cons cs ts =>
          cases ts with
          | nil =>
            simp only [isDefaultReject, all_clean_eq]
            cases ns with
            | nil =>
              simp only [hn, ht, List.head?_cons, Option.any_some, Option.bind_some, hu, List.length_cons, List.length_nil,
                Option.isSome_none, Bool.toNat_false, Bool.not_false, Bool.true_and, Bool.false_or, Option.map_some]
              generalize s.body.any BodyItem.isOther = o
              generalize cs.any ThenItem.isReject = r
              generalize cs.any ThenItem.isDirty = d
              cases o <;> cases r <;> cases d <;> simp [hu]
            | cons m ms => simp
          | cons cs' ts' => simp

end Xml

namespace Xml

/-! ### duplicate names -/

def addAll {T} (map : List (String × T)) : List (String × T) → Except Err (List (String × T))
  | [] => .ok map
  | x :: xs => if map.any (·.1 == x.1) then .error .other else addAll (map ++ [x]) xs

theorem poAbs_ok {T} (sem : Stmt → Except Err (Option (String × T))) (sel : Stmt → Option (String × T))
    (items : List PoItem) (h : ∀ s ∈ stmtsOf items, sem s = .ok (sel s)) (map : List (String × T)) :
    poAbs sem map items = addAll map ((stmtsOf items).filterMap sel) := by
  induction items generalizing map with
  | nil => rfl
  | cons x is ih =>
    cases x with
    | comment => simpa [poAbs, stmtsOf] using ih (by simpa [stmtsOf] using h) map
    | stmt s =>
      have h' : ∀ s ∈ stmtsOf is, sem s = .ok (sel s) := fun y hy => h y (by simp [stmtsOf] at hy ⊢; exact Or.inr hy)
      have hs := h s (by simp [stmtsOf])
      simp only [poAbs, hs]
      have e : stmtsOf (.stmt s :: is) = s :: stmtsOf is := by simp [stmtsOf]
      rw [e, List.filterMap_cons]
      cases hsel : sel s with
      | none => simpa using ih h' map
      | some np =>
        obtain ⟨n, p⟩ := np
        simp only [addAll]
        split
        · rfl
        · exact ih h' _

theorem all_snoc {T} (map : List (String × T)) (x : String × T) (xs : List (String × T)) :
    (xs.all fun y => !(map ++ [x]).any (·.1 == y.1))
      = ((xs.all fun y => !map.any (·.1 == y.1)) && !xs.any (·.1 == x.1)) := by
  induction xs with
  | nil => rfl
  | cons y ys ih =>
    have hc : (y.1 == x.1) = (x.1 == y.1) := by
      rw [Bool.eq_iff_iff]; simp only [beq_iff_eq]; exact eq_comm
    rw [List.all_cons, List.all_cons, List.any_cons, ih, List.any_append]
    simp only [List.any_cons, List.any_nil, Bool.or_false, hc]
    generalize map.any (fun z => z.1 == y.1) = a
    generalize (x.1 == y.1) = b
    generalize (ys.all fun y => !map.any (·.1 == y.1)) = c
    generalize ys.any (·.1 == x.1) = d
    cases a <;> cases b <;> cases c <;> cases d <;> rfl

theorem addAll_eq {T} (map l : List (String × T)) :
    addAll map l = if nodupNames l && l.all (fun x => !map.any (·.1 == x.1)) then .ok (map ++ l) else .error .other := by
  induction l generalizing map with
  | nil => simp [addAll, nodupNames]
  | cons x xs ih =>
    simp only [addAll, nodupNames, List.all_cons]
    rw [ih, all_snoc]
    by_cases ha : (map.any fun z => z.1 == x.1) = true
    · simp [ha]
    · by_cases hb : (xs.any fun z => z.1 == x.1) = true <;> by_cases hc : nodupNames xs = true <;>
        by_cases hd : (xs.all fun y => !map.any fun z => z.1 == y.1) = true <;> simp [ha, hb, hc, hd]

theorem addAll_nil {T} (l : List (String × T)) :
    addAll [] l = if nodupNames l then .ok l else .error .other := by
  rw [addAll_eq]; simp

theorem poAbs_congr {T} (sem1 sem2 : Stmt → Except Err (Option (String × T))) (items : List PoItem)
    (h : ∀ s ∈ stmtsOf items, sem1 s = sem2 s) (map : List (String × T)) :
    poAbs sem1 map items = poAbs sem2 map items := by
  induction items generalizing map with
  | nil => rfl
  | cons x is ih =>
    cases x with
    | comment => simpa [poAbs] using ih (by simpa [stmtsOf] using h) map
    | stmt s =>
      have h' : ∀ s ∈ stmtsOf is, sem1 s = sem2 s := fun y hy => h y (by simp [stmtsOf] at hy ⊢; exact Or.inr hy)
      have hs := h s (by simp [stmtsOf])
      simp only [poAbs, hs]
      cases sem2 s with
      | error e => rfl
      | ok v =>
        cases v with
        | none => exact ih h' map
        | some np =>
          simp only []
          split
          · rfl
          · exact ih h' _

/-! ### the code as it is (`.pinned`) on statements without other content -/

theorem thenAbs_clean (c : FCfg) (cs : List ThenItem) (h : cs.any ThenItem.isDirty = false) (rj ot : Bool) :
    thenAbs c rj ot cs = .ok (rj || cs.any ThenItem.isReject, ot) := by
  induction cs generalizing rj with
  | nil => simp [thenAbs]
  | cons x cs ih =>
    simp only [List.any_cons, Bool.or_eq_false_iff] at h
    cases x with
    | empty t =>
      have : t.is XNM "reject" = true := by simpa [ThenItem.isDirty, ThenItem.isReject, ThenItem.isComment] using h.1
      simp only [thenAbs, this, if_true]; rw [ih h.2]; simp [ThenItem.isReject, this]
    | comment => simp only [thenAbs]; rw [ih h.2]; simp [ThenItem.isReject]
    | elem t i => simp [ThenItem.isDirty, ThenItem.isReject, ThenItem.isComment] at h
    | text s => simp [ThenItem.isDirty, ThenItem.isReject, ThenItem.isComment] at h
    | cdata => simp [ThenItem.isDirty, ThenItem.isReject, ThenItem.isComment] at h

theorem bodyAbs_pinned_plain (unescape : String → Option String) (bs : List BodyItem) (st : BodySt)
    (hinv : st.thenSeen = false → st.reject = false)
    (ho : bs.any BodyItem.isOther = false)
    (hn : (bodyNames bs).length + st.name.isSome.toNat ≤ 1)
    (ht : (bodyThens bs).length + st.thenSeen.toNat ≤ 1)
    (hc : ∀ cs ∈ bodyThens bs, cs.any ThenItem.isDirty = false) :
    bodyAbs .pinned unescape st bs = bodyAbs .fixed unescape st bs := by
  induction bs generalizing st with
  | nil => rfl
  | cons b bs ih =>
    simp only [List.any_cons, Bool.or_eq_false_iff] at ho
    rw [bodyNames_cons] at hn
    rw [bodyThens_cons] at ht hc
    cases b with
    | comment => simp only [bodyAbs]; exact ih st hinv ho.2 (by simpa using hn) (by simpa using ht) (by simpa using hc)
    | elem t i => simp [BodyItem.isOther] at ho
    | empty t => simp [BodyItem.isOther] at ho
    | text s => simp [BodyItem.isOther] at ho
    | cdata => simp [BodyItem.isOther] at ho
    | name nraw attrs span inner =>
      simp only [List.cons_append, List.nil_append, List.length_cons] at hn ht hc
      have hnone : st.name = none := by
        cases h : st.name with
        | none => rfl
        | some m => have : st.name.isSome.toNat = 1 := by simp [h]
                    omega
      simp only [bodyAbs, hnone, Option.isNone_none, if_true]
      cases unescape span with
      | none => rfl
      | some n =>
        have h0 : st.name.isSome.toNat = 0 := by simp [hnone]
        exact ih _ hinv ho.2 (by simp only [Option.isSome_some, Bool.toNat_true]; omega) ht hc
    | then_ traw attrs span cs =>
      simp only [List.cons_append, List.nil_append, List.length_cons] at hn ht hc
      have hts : st.thenSeen = false := by
        cases h : st.thenSeen with
        | false => rfl
        | true => have : st.thenSeen.toNat = 1 := by simp [h]
                  omega
      have hrj := hinv hts
      have hcl := hc cs (by simp)
      simp only [bodyAbs, BodySt.thenOpen, FCfg.pinned_thenOnce, FCfg.fixed_thenOnce, hts, hrj, Bool.not_false,
        Bool.false_eq_true, if_false, if_true, thenAbs_clean _ cs hcl]
      have h0 : st.thenSeen.toNat = 0 := by simp [hts]
      exact ih _ (by simp) ho.2 hn (by simp only [Bool.toNat_true]; omega) (fun x hx => hc x (by simp [hx]))

theorem stmtAbs_pinned_plain (parseExpr unescape : String → Option String) (s : Stmt)
    (h : s.inactive = false → s.annotation.isSome → s.plain = true) :
    stmtAbs .pinned parseExpr unescape s = stmtAbs .fixed parseExpr unescape s := by
  unfold stmtAbs
  rw [attrsAbs_eq]
  cases hi : s.inactive with
  | true => rfl
  | false =>
    cases ha : s.annotation with
    | none => rfl
    | some raw =>
      have hp := h hi (by simp [ha])
      simp only [Stmt.plain, Bool.and_eq_true, Bool.not_eq_true', decide_eq_true_eq, Stmt.names, Stmt.thens,
        List.all_eq_true] at hp
      obtain ⟨⟨⟨h1, h2⟩, h3⟩, h4⟩ := hp
      have := bodyAbs_pinned_plain unescape s.body {} (by simp) h1 (by simpa using of_decide_eq_true h2) (by simpa using of_decide_eq_true h3)
        (fun cs hcs => by simpa using h4 cs hcs)
      simp only [Bool.false_eq_true, if_false, Option.map_some, this]

end Xml
