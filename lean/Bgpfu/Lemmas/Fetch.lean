import Bgpfu.Spec.ConfigGrammar
import Bgpfu.Lemmas.Readers
/-! Lemmas for C16: the event-level loops of `Model/Fetch.lean` on rendered configurations refine a
child-level semantics (`…Abs`, for both `FCfg`s), and the child-level semantics of the repaired
code is the specification `select`. -/
namespace Xml

def liftR {α} (r : Except Err α) (rest : List Ev) : Except Err (α × List Ev) :=
  match r with
  | .ok v => .ok (v, rest)
  | .error e => .error e

@[simp] theorem liftR_ok {α} (v : α) (rest : List Ev) : liftR (.ok v) rest = .ok (v, rest) := rfl
@[simp] theorem liftR_error {α} (e : Err) (rest : List Ev) : liftR (.error e : Except Err α) rest = .error e := rfl

/-! ### attribute loop -/

def annOf (a : Attr) : Option String := if a.isComment then a.value.bind annotationRaw else none

def attrsAbs (parseExpr : String → Option String) (acc : Option FExpr) (attrs : List Attr) : AttrOutcome :=
  if attrs.any (fun a => a.isActive && a.value == some "false") then .inactive
  else .expr (match (attrs.filterMap annOf).getLast? with
    | some raw => some (toFExpr parseExpr raw)
    | none => acc)

theorem attrLoop_spec (parseExpr : String → Option String) (attrs : List Attr)
    (hwf : ∀ a ∈ attrs, (a.isActive || a.isComment) = true → a.value.isSome) (acc : Option FExpr) :
    attrLoop parseExpr acc (attrs.map .ok) = .ok (attrsAbs parseExpr acc attrs) := by
  induction attrs generalizing acc with
  | nil => simp [attrLoop, attrsAbs]
  | cons a rest ih =>
    have hwf' : ∀ a ∈ rest, (a.isActive || a.isComment) = true → a.value.isSome :=
      fun x hx => hwf x (by simp [hx])
    have ha := hwf a (by simp)
    simp only [List.map_cons, attrLoop]
    by_cases h1 : a.isActive = true
    · have h1' : (a.ns == Ns.bound JCMD && a.lname == "active") = true := h1
      have hc : a.isComment = false := by
        simp only [Attr.isActive, Attr.isComment, Bool.and_eq_true, beq_iff_eq] at h1 ⊢
        simp [h1.2]
      obtain ⟨v, hv⟩ := Option.isSome_iff_exists.mp (ha (by simp [h1]))
      simp only [h1', if_true, hv]
      by_cases hf : v = "false"
      · subst hf
        simp [attrsAbs, h1, hv]
      · have hf' : (v == "false") = false := by simpa using hf
        simp only [hf', Bool.false_eq_true, if_false]
        rw [ih hwf']
        simp [attrsAbs, h1, hv, hf, annOf, hc]
    · have h1' : (a.ns == Ns.bound JCMD && a.lname == "active") = false := by simpa [Attr.isActive] using h1
      have h1'' : a.isActive = false := by simpa using h1
      simp only [h1', Bool.false_eq_true, if_false]
      by_cases h2 : a.isComment = true
      · have h2' : (a.ns == Ns.bound JCMD && a.lname == "comment") = true := h2
        obtain ⟨v, hv⟩ := Option.isSome_iff_exists.mp (ha (by simp [h2]))
        simp only [h2', if_true, hv]
        cases hr : annotationRaw v with
        | none =>
          simp only []
          rw [ih hwf']
          simp [attrsAbs, h1'', annOf, h2, hv, hr]
        | some raw =>
          simp only []
          rw [ih hwf']
          simp only [attrsAbs, List.any_cons, h1'', Bool.false_and, Bool.false_or, List.filterMap_cons, annOf, h2,
            if_true, hv, Option.bind_some, hr, List.getLast?_cons]
          split
          · rfl
          · cases hl : (List.filterMap annOf rest).getLast? <;> simp [annOf] at hl ⊢ <;> simp_all
      · have h2' : (a.ns == Ns.bound JCMD && a.lname == "comment") = false := by simpa [Attr.isComment] using h2
        have h2'' : a.isComment = false := by simpa using h2
        simp only [h2', Bool.false_eq_true, if_false]
        rw [ih hwf']
        simp [attrsAbs, h1'', annOf, h2'']

/-! ### `<then>` -/

def ThenItem.isDirty (c : ThenItem) : Bool := !(c.isReject || c.isComment)

/-- child-level semantics of `thenLoop` -/
def thenAbs (c : FCfg) (rj ot : Bool) : List ThenItem → Except Err (Bool × Bool)
  | [] => .ok (rj, ot)
  | .empty t :: cs =>
    if t.is XNM "reject" then thenAbs c true ot cs
    else if c.skipOther then thenAbs c rj true cs else .error .unexpected
  | .comment :: cs => thenAbs c rj ot cs
  | .elem _ _ :: cs => if c.skipOther then thenAbs c rj true cs else .error .unexpected
  | .text _ :: cs => if c.skipOther then thenAbs c rj true cs else .error .unexpected
  | .cdata :: cs => if c.skipOther then thenAbs c rj true cs else .error .unexpected

theorem skipToEnd_elem (raw : String) (inner tail : List Ev) (h : Inert raw inner) :
    skipToEnd raw (inner ++ .end raw :: tail) 0 = .ok tail := by
  rw [skipToEnd_inert _ _ _ _ h]; simp [skipToEnd]

theorem thenLoop_refines (c : FCfg) (cs : List ThenItem) (hwf : ∀ x ∈ cs, x.WF) (fuel : Nat) (raw : String)
    (rj ot : Bool) (rest : List Ev) (hf : (cs.flatMap ThenItem.render).length + 1 ≤ fuel) :
    thenLoop c fuel raw rj ot (cs.flatMap ThenItem.render ++ .end raw :: rest) = liftR (thenAbs c rj ot cs) rest := by
  induction cs generalizing fuel rj ot with
  | nil =>
    obtain ⟨f, rfl⟩ : ∃ f, fuel = f + 1 := ⟨fuel - 1, by omega⟩
    simp [thenLoop, thenAbs]
  | cons x cs ih =>
    obtain ⟨f, rfl⟩ : ∃ f, fuel = f + 1 := ⟨fuel - 1, by omega⟩
    have hwf' : ∀ x ∈ cs, x.WF := fun y hy => hwf y (by simp [hy])
    simp only [List.flatMap_cons, List.append_assoc, List.length_append] at hf ⊢
    cases x with
    | empty t =>
      simp only [ThenItem.render, List.cons_append, List.nil_append, thenLoop, thenAbs, List.length_cons, List.length_nil] at hf ⊢
      split
      · exact ih hwf' f _ _ (by omega)
      · split
        · exact ih hwf' f _ _ (by omega)
        · rfl
    | comment =>
      simp only [ThenItem.render, List.cons_append, List.nil_append, thenLoop, thenAbs, List.length_cons, List.length_nil] at hf ⊢
      exact ih hwf' f _ _ (by omega)
    | text s =>
      simp only [ThenItem.render, List.cons_append, List.nil_append, thenLoop, thenAbs, List.length_cons, List.length_nil] at hf ⊢
      split
      · exact ih hwf' f _ _ (by omega)
      · rfl
    | cdata =>
      simp only [ThenItem.render, List.cons_append, List.nil_append, thenLoop, thenAbs, List.length_cons, List.length_nil] at hf ⊢
      split
      · exact ih hwf' f _ _ (by omega)
      · rfl
    | elem t inner =>
      have hi : Inert t.raw inner := hwf (.elem t inner) (by simp)
      simp only [ThenItem.render, List.cons_append, List.append_assoc, List.nil_append, thenLoop, thenAbs,
        List.length_cons, List.length_append, List.length_nil] at hf ⊢
      split
      · rw [skipToEnd_elem _ _ _ hi]
        exact ih hwf' f _ _ (by omega)
      · rfl

end Xml

namespace Xml

/-! ### statement body -/

/-- child-level semantics of `bodyLoop` -/
def bodyAbs (c : FCfg) (unescape : String → Option String) (st : BodySt) : List BodyItem → Except Err BodySt
  | [] => .ok st
  | .name _ _ span _ :: bs =>
    if st.name.isNone then
      (match unescape span with
       | some n => bodyAbs c unescape { st with name := some n } bs
       | none => .error .xml)
    else if c.skipOther then bodyAbs c unescape { st with other := true } bs else .error .unexpected
  | .then_ _ _ _ cs :: bs =>
    if st.thenOpen c then
      (match thenAbs c st.reject st.other cs with
       | .ok (rj, ot) => bodyAbs c unescape { st with reject := rj, other := ot, thenSeen := true } bs
       | .error e => .error e)
    else if c.skipOther then bodyAbs c unescape { st with other := true } bs else .error .unexpected
  | .comment :: bs => bodyAbs c unescape st bs
  | .elem _ _ :: bs => if c.skipOther then bodyAbs c unescape { st with other := true } bs else .error .unexpected
  | .empty _ :: bs => if c.skipOther then bodyAbs c unescape { st with other := true } bs else .error .unexpected
  | .text _ :: bs => if c.skipOther then bodyAbs c unescape { st with other := true } bs else .error .unexpected
  | .cdata :: bs => if c.skipOther then bodyAbs c unescape { st with other := true } bs else .error .unexpected

theorem xnmTag_is (l raw : String) (attrs : List AttrItem) (sp : Option String) (n : String) :
    (xnmTag l raw attrs sp).is XNM n = (l == n) := by
  simp [Tag.is, xnmTag]

theorem readText_elem (t : Tag) (s : String) (inner tail : List Ev) (hs : t.span = some s) (h : Inert t.raw inner) :
    readText t (inner ++ .end t.raw :: tail) = .ok (s, tail) := by
  simp [readText, skipToEnd_elem _ _ _ h, hs]

theorem bodyLoop_refines (c : FCfg) (unescape : String → Option String) (bs : List BodyItem)
    (hwf : ∀ b ∈ bs, b.WF unescape) (fuel : Nat) (raw : String) (st : BodySt) (rest : List Ev)
    (hf : (bs.flatMap BodyItem.render).length + 1 ≤ fuel) :
    bodyLoop c unescape fuel raw st (bs.flatMap BodyItem.render ++ .end raw :: rest)
      = liftR (bodyAbs c unescape st bs) rest := by
  induction bs generalizing fuel st with
  | nil =>
    obtain ⟨f, rfl⟩ : ∃ f, fuel = f + 1 := ⟨fuel - 1, by omega⟩
    simp [bodyLoop, bodyAbs]
  | cons b bs ih =>
    obtain ⟨f, rfl⟩ : ∃ f, fuel = f + 1 := ⟨fuel - 1, by omega⟩
    have hwf' : ∀ b ∈ bs, b.WF unescape := fun y hy => hwf y (by simp [hy])
    have hb := hwf b (by simp)
    simp only [List.flatMap_cons, List.append_assoc, List.length_append] at hf ⊢
    cases b with
    | comment =>
      simp only [BodyItem.render, List.cons_append, List.nil_append, bodyLoop, bodyAbs, List.length_cons, List.length_nil] at hf ⊢
      exact ih hwf' f _ (by omega)
    | empty t =>
      simp only [BodyItem.render, List.cons_append, List.nil_append, bodyLoop, bodyAbs, List.length_cons, List.length_nil] at hf ⊢
      split
      · exact ih hwf' f _ (by omega)
      · rfl
    | text s =>
      simp only [BodyItem.render, List.cons_append, List.nil_append, bodyLoop, bodyAbs, List.length_cons, List.length_nil] at hf ⊢
      split
      · exact ih hwf' f _ (by omega)
      · rfl
    | cdata =>
      simp only [BodyItem.render, List.cons_append, List.nil_append, bodyLoop, bodyAbs, List.length_cons, List.length_nil] at hf ⊢
      split
      · exact ih hwf' f _ (by omega)
      · rfl
    | elem t inner =>
      obtain ⟨hi, hn, ht⟩ := hb
      simp only [BodyItem.render, List.cons_append, List.append_assoc, List.nil_append, bodyLoop, bodyAbs,
        List.length_cons, List.length_append, List.length_nil, hn, ht, Bool.false_and, Bool.false_eq_true, if_false] at hf ⊢
      split
      · rw [skipToEnd_elem _ _ _ hi]
        exact ih hwf' f _ (by omega)
      · rfl
    | name nraw attrs span inner =>
      obtain ⟨hi, hu⟩ := hb
      obtain ⟨n, hn⟩ := Option.isSome_iff_exists.mp hu
      simp only [BodyItem.render, List.cons_append, List.append_assoc, List.nil_append, bodyLoop, bodyAbs,
        List.length_cons, List.length_append, List.length_nil, xnmTag_is] at hf ⊢
      have h1 : ("name" == "name") = true := by decide
      have h2 : ("name" == "then") = false := by decide
      simp only [h1, h2, Bool.true_and, Bool.false_and, Bool.false_eq_true, if_false]
      by_cases hnm : st.name.isNone = true
      · simp only [hnm, if_true, readName]
        have : readText (xnmTag "name" nraw attrs (some span)) (inner ++ Ev.end nraw :: (List.flatMap BodyItem.render bs ++ Ev.end raw :: rest))
            = .ok (span, List.flatMap BodyItem.render bs ++ Ev.end raw :: rest) :=
          readText_elem (xnmTag "name" nraw attrs (some span)) span inner _ rfl hi
        rw [this]
        simp only [hn]
        exact ih hwf' f _ (by omega)
      · simp only [hnm, Bool.false_eq_true, if_false]
        split
        · have := skipToEnd_elem nraw inner (List.flatMap BodyItem.render bs ++ Ev.end raw :: rest) hi
          simp only [xnmTag] at this ⊢
          rw [this]
          exact ih hwf' f _ (by omega)
        · rfl
    | then_ traw attrs span cs =>
      obtain ⟨hcs, hi⟩ := hb
      simp only [BodyItem.render, List.cons_append, List.append_assoc, List.nil_append, bodyLoop, bodyAbs,
        List.length_cons, List.length_append, List.length_nil, xnmTag_is] at hf ⊢
      have h1 : ("then" == "name") = false := by decide
      have h2 : ("then" == "then") = true := by decide
      simp only [h1, h2, Bool.true_and, Bool.false_and, Bool.false_eq_true, if_false]
      by_cases ho : st.thenOpen c = true
      · simp only [ho, if_true]
        have := thenLoop_refines c cs hcs f traw st.reject st.other
          (List.flatMap BodyItem.render bs ++ Ev.end raw :: rest) (by omega)
        simp only [xnmTag] at this ⊢
        rw [this]
        cases hr : thenAbs c st.reject st.other cs with
        | error e => simp
        | ok v =>
          obtain ⟨rj, ot⟩ := v
          simp only [liftR_ok]
          exact ih hwf' f _ (by omega)
      · simp only [ho, Bool.false_eq_true, if_false]
        split
        · have := skipToEnd_elem traw _ (List.flatMap BodyItem.render bs ++ Ev.end raw :: rest) hi
          simp only [xnmTag] at this ⊢
          rw [this]
          exact ih hwf' f _ (by omega)
        · rfl

end Xml
