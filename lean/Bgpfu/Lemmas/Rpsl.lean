import Bgpfu.Model.RpslSpec
/-!
Lemmas about the RPSL model: prefixes, range operators (model vs. RFC 2622 reading), the `M`
monad, and the generic invariant principle for `eval`.
-/
namespace Rpsl
open RpslSpec

theorem Pfx.trunc_len (q : Pfx) (j : Nat) : (q.trunc j).len = j := rfl
theorem Pfx.trunc_fam (q : Pfx) (j : Nat) : (q.trunc j).fam = q.fam := rfl

theorem Pfx.trunc_self (q : Pfx) : q.trunc q.len = q := by
  cases q; simp [Pfx.trunc]

theorem Pfx.covers_iff (p q : Pfx) : p.covers q = true ↔ p.len ≤ q.len ∧ q.trunc p.len = p := by
  simp [Pfx.covers]

theorem Pfx.covers_fam {p q : Pfx} (h : p.covers q = true) : p.fam = q.fam := by
  have := ((Pfx.covers_iff p q).mp h).2
  rw [← this]; rfl

theorem Pfx.covers_trunc (q : Pfx) (j : Nat) (h : j ≤ q.len) : (q.trunc j).covers q = true := by
  simp [Pfx.covers_iff, Pfx.trunc_len, h]

theorem Range.ofPfx_mem (p q : Pfx) : (Range.ofPfx p).mem q = true ↔ q = p := by
  unfold Range.mem Range.ofPfx
  constructor
  · intro h
    simp only [Bool.and_eq_true, decide_eq_true_eq] at h
    obtain ⟨⟨hc, h1⟩, h2⟩ := h
    obtain ⟨_, ht⟩ := (Pfx.covers_iff p q).mp hc
    have : p.len = q.len := by omega
    rw [this, Pfx.trunc_self] at ht
    exact ht
  · rintro rfl
    have : q.covers q = true := (Pfx.covers_iff q q).mpr ⟨Nat.le_refl _, Pfx.trunc_self q⟩
    simp [this]

theorem PSet.ofPfxRanges (ps : List Pfx) (q : Pfx) :
    PSet.ofRanges (ps.map Range.ofPfx) q = true ↔ q ∈ ps := by
  simp only [PSet.ofRanges, List.any_map, List.any_eq_true, Function.comp, Range.ofPfx_mem]
  constructor
  · rintro ⟨p, hp, rfl⟩; exact hp
  · intro h; exact ⟨q, h, rfl⟩

/-- the model's reading of an operator as a length interval, against RFC 2622's -/
theorem opInterval_admits (op : RangeOp) (M pl ql : Nat) (h1 : pl ≤ ql) (h2 : ql ≤ M)
    (hw : OpWithin M op) :
    (match opInterval op M pl with
      | some (a, b) => decide (a ≤ ql) && decide (ql ≤ b)
      | none => false) = true ↔ Admits op pl ql := by
  cases op with
  | none => simp [opInterval, Admits]; omega
  | lessIncl => simp [opInterval, Admits]; omega
  | lessExcl =>
    simp only [opInterval, Admits]
    by_cases h : pl + 1 ≤ M <;> simp [h] <;> omega
  | exact n =>
    simp only [opInterval, Admits]
    by_cases h : n ≤ M ∧ pl ≤ n <;> simp [h] <;> omega
  | range n m =>
    simp only [opInterval, Admits]
    simp only [OpWithin] at hw
    by_cases h : n ≤ M ∧ m ≤ M ∧ max pl n ≤ m <;> simp [h] <;> omega

/-- `applyOp` as an existential over the covering members -/
theorem applyOp_iff (op : RangeOp) (s : PSet) (q : Pfx) :
    applyOp op s q = true ↔
      ∃ p, s p = true ∧ p.covers q = true ∧
        (match opInterval op q.fam.maxLen p.len with
          | some (a, b) => decide (a ≤ q.len) && decide (q.len ≤ b)
          | none => false) = true := by
  simp only [applyOp, List.any_eq_true, List.mem_range, Bool.and_eq_true]
  constructor
  · rintro ⟨j, hj, h1, h2⟩
    exact ⟨q.trunc j, h1, Pfx.covers_trunc q j (by omega), h2⟩
  · rintro ⟨p, h1, h2, h3⟩
    obtain ⟨hl, ht⟩ := (Pfx.covers_iff p q).mp h2
    refine ⟨p.len, by omega, ?_, h3⟩
    rw [ht]; exact h1

/-- **range operator on a set: model = RFC 2622** (for probes of a length the family has) -/
theorem applyOp_opSet (op : RangeOp) (s : PSet) (d : Pfx → Prop) (q : Pfx) (hq : q.Valid)
    (hw : OpWithin q.fam.maxLen op)
    (hsd : ∀ p, p.Valid → (s p = true ↔ d p)) :
    applyOp op s q = true ↔ opSet op d q := by
  rw [applyOp_iff]
  unfold opSet
  constructor
  · rintro ⟨p, h1, h2, h3⟩
    have hl := ((Pfx.covers_iff p q).mp h2).1
    have hpv : p.Valid := by
      unfold Pfx.Valid at hq ⊢; rw [Pfx.covers_fam h2]; omega
    exact ⟨p, (hsd p hpv).mp h1, h2, (opInterval_admits op _ _ _ hl hq hw).mp h3⟩
  · rintro ⟨p, h1, h2, h3⟩
    have hl := ((Pfx.covers_iff p q).mp h2).1
    have hpv : p.Valid := by
      unfold Pfx.Valid at hq ⊢; rw [Pfx.covers_fam h2]; omega
    exact ⟨p, (hsd p hpv).mpr h1, h2, (opInterval_admits op _ _ _ hl hq hw).mpr h3⟩

/-- `apply(prefix, op)` on a single prefix is the interval `opInterval` predicts -/
theorem memberRange_eq (op : RangeOp) (p : Pfx) :
    memberRange op p =
      (opInterval op p.fam.maxLen p.len).map fun ab => { pfx := p, lo := ab.1, hi := ab.2 } := by
  unfold memberRange
  cases op with
  | none => simp [applyRange, opInterval, Range.ofPfx]
  | lessIncl => simp [applyRange, opInterval, Range.ofPfx]
  | lessExcl =>
    simp only [applyRange, opInterval, Range.ofPfx]
    by_cases h : p.len + 1 ≤ p.fam.maxLen <;> simp [h]
  | exact n =>
    simp only [applyRange, opInterval, Range.ofPfx]
    by_cases h1 : p.fam.maxLen < n
    · have : ¬ (n ≤ p.fam.maxLen ∧ p.len ≤ n) := by omega
      simp [h1, this]
    · by_cases h2 : p.len ≤ n
      · have h3 : max p.len n = n := by omega
        have : n ≤ p.fam.maxLen ∧ p.len ≤ n := by omega
        simp [h1, h3, this]
      · have h3 : ¬ max p.len n ≤ n := by omega
        have : ¬ (n ≤ p.fam.maxLen ∧ p.len ≤ n) := by omega
        simp [h1, h3, this]
  | range n m =>
    simp only [applyRange, opInterval, Range.ofPfx]
    by_cases h1 : p.fam.maxLen < n ∨ p.fam.maxLen < m
    · have : ¬ (n ≤ p.fam.maxLen ∧ m ≤ p.fam.maxLen ∧ max p.len n ≤ m) := by omega
      simp [h1, this]
    · by_cases h2 : max p.len n ≤ m
      · have : n ≤ p.fam.maxLen ∧ m ≤ p.fam.maxLen ∧ max p.len n ≤ m := by omega
        simp [h1, h2, this]
      · have : ¬ (n ≤ p.fam.maxLen ∧ m ≤ p.fam.maxLen ∧ max p.len n ≤ m) := by omega
        simp [h1, h2]

/-- one `<prefix><op>` member (of a literal set, or of a route-set under `Cfg.fixed`) -/
theorem member_mem (op : RangeOp) (p q : Pfx) (hq : q.Valid) (hw : OpWithin p.fam.maxLen op) :
    (∃ r, memberRange op p = some r ∧ r.mem q = true) ↔ opSet op (· = p) q := by
  rw [memberRange_eq]
  unfold opSet
  constructor
  · rintro ⟨r, hr, hm⟩
    cases hi : opInterval op p.fam.maxLen p.len with
    | none => simp [hi] at hr
    | some ab =>
      simp only [hi, Option.map_some, Option.some.injEq] at hr
      subst hr
      simp only [Range.mem, Bool.and_eq_true, decide_eq_true_eq] at hm
      obtain ⟨⟨hc, ha⟩, hb⟩ := hm
      have hl := ((Pfx.covers_iff p q).mp hc).1
      have hf := Pfx.covers_fam hc
      refine ⟨p, rfl, hc, (opInterval_admits op p.fam.maxLen _ _ hl (by rw [hf]; exact hq) hw).mp ?_⟩
      simp [hi, ha, hb]
  · rintro ⟨p', rfl, hc, ha⟩
    have hl := ((Pfx.covers_iff p' q).mp hc).1
    have hf := Pfx.covers_fam hc
    have := (opInterval_admits op p'.fam.maxLen _ _ hl (by rw [hf]; exact hq) hw).mpr ha
    cases hi : opInterval op p'.fam.maxLen p'.len with
    | none => simp [hi] at this
    | some ab =>
      simp only [hi, Bool.and_eq_true, decide_eq_true_eq] at this
      exact ⟨_, rfl, by simp [Range.mem, hc, this.1, this.2]⟩

theorem litSet_iff (ms : List (Pfx × RangeOp)) (q : Pfx) (hq : q.Valid)
    (hw : ∀ m ∈ ms, OpWithin m.1.fam.maxLen m.2) :
    litSet ms q = true ↔ ∃ m ∈ ms, opSet m.2 (· = m.1) q := by
  unfold litSet PSet.ofRanges
  rw [List.any_eq_true]
  constructor
  · rintro ⟨r, hr, hm⟩
    obtain ⟨m, hm1, hm2⟩ := List.mem_filterMap.mp hr
    exact ⟨m, hm1, (member_mem m.2 m.1 q hq (hw m hm1)).mp ⟨r, hm2, hm⟩⟩
  · rintro ⟨m, hm1, hm2⟩
    obtain ⟨r, hr, hm⟩ := (member_mem m.2 m.1 q hq (hw m hm1)).mpr hm2
    exact ⟨r, List.mem_filterMap.mpr ⟨m, hm1, hr⟩, hm⟩

/-! ### the `M` monad -/

theorem M.bind_eq_ok {σ ω α β} {x : M σ ω α} {f : α → M σ ω β} {s s2 : σ} {b : β} {ev2 : List ω}
    (h : M.bind x f s = (.ok b, s2, ev2)) :
    ∃ a s1 ev1 ev', x s = (.ok a, s1, ev1) ∧ f a s1 = (.ok b, s2, ev') ∧ ev2 = ev1 ++ ev' := by
  unfold M.bind at h
  rcases hx : x s with ⟨o, s1, ev1⟩
  rw [hx] at h
  cases o with
  | ok a =>
    simp only at h
    rcases hf : f a s1 with ⟨o', s', ev'⟩
    rw [hf] at h
    simp only [Prod.mk.injEq] at h
    obtain ⟨h1, h2, h3⟩ := h
    subst h1 h2 h3
    exact ⟨a, s1, ev1, ev', rfl, hf, rfl⟩
  | err e => simp at h
  | panic k => simp at h
  | diverge => simp at h

/-- invariant principle for `M.bind` -/
theorem M.bind_inv {σ ω α β} (I : σ → Prop) (E : List ω → Prop)
    (happ : ∀ a b, E a → E b → E (a ++ b))
    (x : M σ ω α) (f : α → M σ ω β) (s : σ)
    (hx : I (x s).2.1 ∧ E (x s).2.2)
    (hf : ∀ a s', I s' → I (f a s').2.1 ∧ E (f a s').2.2) :
    I (M.bind x f s).2.1 ∧ E (M.bind x f s).2.2 := by
  unfold M.bind
  rcases hxs : x s with ⟨o, s1, ev1⟩
  rw [hxs] at hx
  cases o with
  | ok a =>
    simp only
    have := hf a s1 hx.1
    rcases hfs : f a s1 with ⟨o', s', ev'⟩
    rw [hfs] at this
    exact ⟨this.1, happ _ _ hx.2 this.2⟩
  | err e => exact hx
  | panic k => exact hx
  | diverge => exact hx

/-- **invariant principle for `eval`**: a state invariant and an event property that every
resolver maintains are maintained by the evaluation of every expression, whatever its outcome -/
theorem eval_inv {σ ω} (R : Resolvers σ ω) (I : σ → Prop) (E : List ω → Prop)
    (hnil : E []) (happ : ∀ a b, E a → E b → E (a ++ b))
    (hfs : ∀ n s, I s → I (R.filterSet n s).2.1 ∧ E (R.filterSet n s).2.2)
    (has : ∀ n s, I s → I (R.asSet n s).2.1 ∧ E (R.asSet n s).2.2)
    (hrs : ∀ n s, I s → I (R.routeSet n s).2.1 ∧ E (R.routeSet n s).2.2)
    (han : ∀ n s, I s → I (R.autNum n s).2.1 ∧ E (R.autNum n s).2.2)
    (hpa : ∀ s, I s → I (R.peerAs s).2.1 ∧ E (R.peerAs s).2.2)
    (fuel : Nat) (e : Expr) (s : σ) (hs : I s) :
    I (eval R fuel e s).2.1 ∧ E (eval R fuel e s).2.2 := by
  have pure_inv : ∀ {α} (a : α) (s : σ), I s → I ((M.pure a : M σ ω α) s).2.1 ∧ E ((M.pure a : M σ ω α) s).2.2 :=
    fun a s hs => ⟨hs, hnil⟩
  have named : ∀ n s, I s → I (evalNamed R n s).2.1 ∧ E (evalNamed R n s).2.2 := by
    intro n s hs
    cases n with
    | rsAny => exact pure_inv _ s hs
    | asAny => exact pure_inv _ s hs
    | peerAs => exact hpa s hs
    | routeSet n => exact hrs n s hs
    | asSet n => exact has n s hs
    | autNum a => exact han a s hs
  have pse : ∀ p s, I s → I (evalPse R p s).2.1 ∧ E (evalPse R p s).2.2 := by
    intro p s hs
    cases p with
    | lit ms => exact pure_inv _ s hs
    | named n => exact named n s hs
  have withSelf : ∀ (self : Expr → M σ ω PSet),
      (∀ e s, I s → I (self e s).2.1 ∧ E (self e s).2.2) →
      ∀ e s, I s → I (evalWith R self e s).2.1 ∧ E (evalWith R self e s).2.2 := by
    intro self hself e
    induction e with
    | any => intro s hs; exact pure_inv _ s hs
    | prefixSet p op =>
      intro s hs
      exact M.bind_inv I E happ _ _ s (pse p s hs) fun a s' hs' => pure_inv _ s' hs'
    | asPath => intro s hs; exact ⟨hs, hnil⟩
    | attrMatch => intro s hs; exact ⟨hs, hnil⟩
    | filterSet n =>
      intro s hs
      exact M.bind_inv I E happ _ _ s (hfs n s hs) fun a s' hs' => hself a s' hs'
    | not e ih =>
      intro s hs
      exact M.bind_inv I E happ _ _ s (ih s hs) fun a s' hs' => pure_inv _ s' hs'
    | and a b iha ihb =>
      intro s hs
      exact M.bind_inv I E happ _ _ s (iha s hs) fun x s' hs' =>
        M.bind_inv I E happ _ _ s' (ihb s' hs') fun y s'' hs'' => pure_inv _ s'' hs''
    | or a b iha ihb =>
      intro s hs
      exact M.bind_inv I E happ _ _ s (iha s hs) fun x s' hs' =>
        M.bind_inv I E happ _ _ s' (ihb s' hs') fun y s'' hs'' => pure_inv _ s'' hs''
  induction fuel generalizing e s with
  | zero => exact withSelf _ (fun _ s hs => ⟨hs, hnil⟩) e s hs
  | succ n ih => exact withSelf _ (fun e s hs => ih e s hs) e s hs

end Rpsl

/-! ### the set-level operator does not depend on how the set is cut into ranges -/

namespace Rpsl
open RpslSpec

theorem Pfx.trunc_trunc (q : Pfx) (i j : Nat) (h1 : i ≤ j) (h2 : j ≤ q.len) :
    (q.trunc j).trunc i = q.trunc i := by
  simp only [Pfx.trunc, Pfx.mk.injEq, true_and, and_true]
  rw [← Nat.shiftRight_add]
  congr 1
  omega

theorem Pfx.covers_trans {a b c : Pfx} (h1 : a.covers b = true) (h2 : b.covers c = true) :
    a.covers c = true := by
  obtain ⟨l1, t1⟩ := (Pfx.covers_iff a b).mp h1
  obtain ⟨l2, t2⟩ := (Pfx.covers_iff b c).mp h2
  refine (Pfx.covers_iff a c).mpr ⟨by omega, ?_⟩
  calc c.trunc a.len = (c.trunc b.len).trunc a.len := (Pfx.trunc_trunc c a.len b.len l1 l2).symm
    _ = b.trunc a.len := by rw [t2]
    _ = a := t1

theorem Pfx.covers_trunc_of_covers {a q : Pfx} (h : a.covers q = true) (j : Nat) (h1 : a.len ≤ j)
    (h2 : j ≤ q.len) : a.covers (q.trunc j) = true := by
  obtain ⟨_, t⟩ := (Pfx.covers_iff a q).mp h
  refine (Pfx.covers_iff a _).mpr ⟨h1, ?_⟩
  rw [Pfx.trunc_trunc q a.len j h1 h2, t]

/-- well-formed range (`PrefixRange::new`): `prefix.len ≤ lo ≤ hi` -/
def Range.Wf (r : Range) : Prop := r.pfx.len ≤ r.lo ∧ r.lo ≤ r.hi

/-- for one range: applying the operator member by member (the model's `applyOp`) gives the range
that rpsl's `apply` + generic-ip's `with_length_range` compute -/
theorem applyOp_range (op : RangeOp) (r : Range) (hr : r.Wf) (q : Pfx) :
    applyOp op r.mem q = true ↔ ∃ r', applyRange op r = some (some r') ∧ r'.mem q = true := by
  rw [applyOp_iff]
  obtain ⟨P, lo, hi⟩ := r
  simp only [Range.Wf] at hr
  obtain ⟨hP, hlh⟩ := hr
  constructor
  · rintro ⟨p, hm, hc, hi'⟩
    simp only [Range.mem, Bool.and_eq_true, decide_eq_true_eq] at hm
    obtain ⟨⟨hPp, h1⟩, h2⟩ := hm
    have hPq := Pfx.covers_trans hPp hc
    have hl := ((Pfx.covers_iff p q).mp hc).1
    have hf : P.fam.maxLen = q.fam.maxLen := by rw [Pfx.covers_fam hPq]
    cases op with
    | none =>
      simp only [opInterval, Bool.and_eq_true, decide_eq_true_eq] at hi'
      refine ⟨⟨P, lo, hi⟩, rfl, ?_⟩
      simp only [Range.mem, hPq, Bool.true_and, Bool.and_eq_true, decide_eq_true_eq]; omega
    | lessIncl =>
      simp only [opInterval, Bool.and_eq_true, decide_eq_true_eq] at hi'
      refine ⟨⟨P, lo, P.fam.maxLen⟩, rfl, ?_⟩
      simp only [Range.mem, hPq, Bool.true_and, Bool.and_eq_true, decide_eq_true_eq]; omega
    | lessExcl =>
      simp only [opInterval] at hi'
      by_cases h : p.len + 1 ≤ q.fam.maxLen
      · simp only [h, if_true, Bool.and_eq_true, decide_eq_true_eq] at hi'
        have : lo + 1 ≤ P.fam.maxLen := by omega
        refine ⟨⟨P, lo + 1, P.fam.maxLen⟩, by simp [applyRange, this], ?_⟩
        simp only [Range.mem, hPq, Bool.true_and, Bool.and_eq_true, decide_eq_true_eq]; omega
      · simp [h] at hi'
    | exact n =>
      simp only [opInterval] at hi'
      by_cases h : n ≤ q.fam.maxLen ∧ p.len ≤ n
      · simp only [h, and_self, if_true, Bool.and_eq_true, decide_eq_true_eq] at hi'
        have h3 : ¬ P.fam.maxLen < n := by omega
        have h4 : max lo n ≤ n := by omega
        refine ⟨⟨P, max lo n, n⟩, by simp [applyRange, h3, h4], ?_⟩
        simp only [Range.mem, hPq, Bool.true_and, Bool.and_eq_true, decide_eq_true_eq]; omega
      · simp [h] at hi'
    | range n m =>
      simp only [opInterval] at hi'
      by_cases h : n ≤ q.fam.maxLen ∧ m ≤ q.fam.maxLen ∧ max p.len n ≤ m
      · simp only [h, and_self, if_true, Bool.and_eq_true, decide_eq_true_eq] at hi'
        have h3 : ¬ (P.fam.maxLen < n ∨ P.fam.maxLen < m) := by omega
        have h4 : max lo n ≤ m := by omega
        refine ⟨⟨P, max lo n, m⟩, by simp [applyRange, h3, h4], ?_⟩
        simp only [Range.mem, hPq, Bool.true_and, Bool.and_eq_true, decide_eq_true_eq]; omega
      · simp [h] at hi'
  · rintro ⟨r', hr', hm⟩
    have wit : ∀ j, lo ≤ j → j ≤ hi → j ≤ q.len → P.covers q = true →
        (match opInterval op q.fam.maxLen j with
          | some (a, b) => decide (a ≤ q.len) && decide (q.len ≤ b)
          | none => false) = true →
        ∃ p, (Range.mem ⟨P, lo, hi⟩ p = true) ∧ p.covers q = true ∧
          (match opInterval op q.fam.maxLen p.len with
            | some (a, b) => decide (a ≤ q.len) && decide (q.len ≤ b)
            | none => false) = true := by
      intro j h1 h2 h3 hPq h4
      refine ⟨q.trunc j, ?_, Pfx.covers_trunc q j h3, h4⟩
      simp [Range.mem, Pfx.covers_trunc_of_covers hPq j (by omega) h3, Pfx.trunc_len, h1, h2]
    cases op with
    | none =>
      simp only [applyRange, Option.some.injEq] at hr'
      subst hr'
      simp only [Range.mem, Bool.and_eq_true, decide_eq_true_eq] at hm
      exact wit q.len hm.1.2 hm.2 (Nat.le_refl _) hm.1.1 (by simp [opInterval])
    | lessIncl =>
      simp only [applyRange, Option.some.injEq] at hr'
      subst hr'
      simp only [Range.mem, Bool.and_eq_true, decide_eq_true_eq] at hm
      have hf : P.fam.maxLen = q.fam.maxLen := by rw [Pfx.covers_fam hm.1.1]
      refine wit (min q.len hi) (by omega) (by omega) (by omega) hm.1.1 ?_
      simp only [opInterval, Bool.and_eq_true, decide_eq_true_eq]; omega
    | lessExcl =>
      simp only [applyRange] at hr'
      by_cases h : lo + 1 ≤ P.fam.maxLen
      · simp only [h, if_true, Option.some.injEq] at hr'
        subst hr'
        simp only [Range.mem, Bool.and_eq_true, decide_eq_true_eq] at hm
        have hf : P.fam.maxLen = q.fam.maxLen := by rw [Pfx.covers_fam hm.1.1]
        refine wit (min (q.len - 1) hi) (by omega) (by omega) (by omega) hm.1.1 ?_
        have : min (q.len - 1) hi + 1 ≤ q.fam.maxLen := by omega
        simp only [opInterval, this, if_true, Bool.and_eq_true, decide_eq_true_eq]; omega
      · simp [h] at hr'
    | exact n =>
      simp only [applyRange] at hr'
      by_cases h3 : P.fam.maxLen < n
      · simp [h3] at hr'
      · by_cases h4 : max lo n ≤ n
        · simp only [h3, h4, if_true, if_false, Option.some.injEq] at hr'
          subst hr'
          simp only [Range.mem, Bool.and_eq_true, decide_eq_true_eq] at hm
          have hf : P.fam.maxLen = q.fam.maxLen := by rw [Pfx.covers_fam hm.1.1]
          refine wit (min n hi) (by omega) (by omega) (by omega) hm.1.1 ?_
          have : n ≤ q.fam.maxLen ∧ min n hi ≤ n := by omega
          simp only [opInterval, this, and_self, if_true, Bool.and_eq_true, decide_eq_true_eq]; omega
        · simp [h3, h4] at hr'
    | range n m =>
      simp only [applyRange] at hr'
      by_cases h3 : P.fam.maxLen < n ∨ P.fam.maxLen < m
      · simp [h3] at hr'
      · by_cases h4 : max lo n ≤ m
        · simp only [h3, h4, if_true, if_false, Option.some.injEq] at hr'
          subst hr'
          simp only [Range.mem, Bool.and_eq_true, decide_eq_true_eq] at hm
          have hf : P.fam.maxLen = q.fam.maxLen := by rw [Pfx.covers_fam hm.1.1]
          refine wit (min q.len hi) (by omega) (by omega) (by omega) hm.1.1 ?_
          have : n ≤ q.fam.maxLen ∧ m ≤ q.fam.maxLen ∧ max (min q.len hi) n ≤ m := by omega
          simp only [opInterval, this, and_self, if_true, Bool.and_eq_true, decide_eq_true_eq]; omega
        · simp [h3, h4] at hr'

/-- **`applyOp` is what the code computes on `output.ranges()`, whatever the aggregation**: for every
list of well-formed ranges denoting the set, applying rpsl's `apply` to each range and collecting
the survivors (`applyRanges`) gives the same set as the model's member-wise `applyOp` -/
theorem applyOp_ofRanges (op : RangeOp) (rs : List Range) (hrs : ∀ r ∈ rs, r.Wf) (q : Pfx) :
    applyOp op (PSet.ofRanges rs) q = true ↔ PSet.ofRanges (applyRanges op rs) q = true := by
  have hL : applyOp op (PSet.ofRanges rs) q = true ↔ ∃ r ∈ rs, applyOp op r.mem q = true := by
    simp only [applyOp_iff, PSet.ofRanges, List.any_eq_true]
    constructor
    · rintro ⟨p, ⟨r, hr, hm⟩, hc, hi⟩; exact ⟨r, hr, p, hm, hc, hi⟩
    · rintro ⟨r, hr, p, hm, hc, hi⟩; exact ⟨p, ⟨r, hr, hm⟩, hc, hi⟩
  rw [hL]
  simp only [PSet.ofRanges, applyRanges, List.any_eq_true, List.mem_filterMap]
  constructor
  · rintro ⟨r, hr, h⟩
    obtain ⟨r', h1, h2⟩ := (applyOp_range op r (hrs r hr) q).mp h
    exact ⟨r', ⟨r, hr, by simp [h1]⟩, h2⟩
  · rintro ⟨r', ⟨r, hr, h1⟩, h2⟩
    refine ⟨r, hr, (applyOp_range op r (hrs r hr) q).mpr ⟨r', ?_, h2⟩⟩
    cases ha : applyRange op r with
    | none => simp [ha] at h1
    | some o =>
      cases o with
      | none => simp [ha] at h1
      | some r'' => simp [ha] at h1; rw [h1]

end Rpsl
