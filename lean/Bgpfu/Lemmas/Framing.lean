import Bgpfu.Model.Framing
/-! Helper lemmas for the framing model (C06, C07). Core Lean only. -/
namespace Framing

def OccAt (pat l : List Byte) (j : Nat) : Prop := pat.isPrefixOf (l.drop j) = true

theorem marker_ne_nil : marker ≠ [] := by decide
theorem marker_length : marker.length = 6 := rfl

theorem find_none_iff (pat l : List Byte) (hp : pat ≠ []) :
    find pat l = none ↔ ∀ j, ¬ OccAt pat l j := by
  induction l with
  | nil =>
    cases pat with
    | nil => exact absurd rfl hp
    | cons p ps => simp [find, OccAt]
  | cons x xs ih =>
    simp only [find]
    split
    · rename_i h
      simp only [reduceCtorEq, false_iff]
      intro hall
      exact hall 0 (by simpa [OccAt] using h)
    · rename_i h
      simp only [Option.map_eq_none_iff, ih]
      constructor
      · intro hx j
        cases j with
        | zero => simpa [OccAt] using h
        | succ j => simpa [OccAt] using hx j
      · intro hx j
        simpa [OccAt] using hx (j+1)

theorem find_some_iff (pat l : List Byte) (i : Nat) (hp : pat ≠ []) :
    find pat l = some i ↔ (OccAt pat l i ∧ ∀ j < i, ¬ OccAt pat l j) := by
  induction l generalizing i with
  | nil =>
    cases pat with
    | nil => exact absurd rfl hp
    | cons p ps => simp [find, OccAt]
  | cons x xs ih =>
    simp only [find]
    split
    · rename_i h
      constructor
      · intro hi; cases hi; exact ⟨by simpa [OccAt] using h, by simp⟩
      · intro ⟨_, h3⟩
        cases i with
        | zero => rfl
        | succ i => exact absurd (by simpa [OccAt] using h) (h3 0 (by omega))
    · rename_i h
      cases i with
      | zero =>
        simp only [Option.map_eq_some_iff, Nat.add_eq_zero_iff, Nat.succ_ne_self, and_false, exists_false, false_iff]
        intro ⟨h', _⟩; exact h (by simpa [OccAt] using h')
      | succ i =>
        simp only [Option.map_eq_some_iff, Nat.add_right_cancel_iff, exists_eq_right, ih]
        constructor
        · intro ⟨h1, h3⟩
          refine ⟨by simpa [OccAt] using h1, ?_⟩
          intro j hj
          cases j with
          | zero => simpa [OccAt] using h
          | succ j => simpa [OccAt] using h3 j (by omega)
        · intro ⟨h1, h3⟩
          refine ⟨by simpa [OccAt] using h1, ?_⟩
          intro j hj
          simpa [OccAt] using h3 (j+1) (by omega)

theorem occAt_drop (pat l : List Byte) (s j : Nat) :
    OccAt pat (l.drop s) j ↔ OccAt pat l (s + j) := by
  simp [OccAt, List.drop_drop]

theorem isPrefixOf_append_of_le (pat x b : List Byte) (h : pat.length ≤ x.length) :
    pat.isPrefixOf (x ++ b) = pat.isPrefixOf x := by
  induction pat generalizing x with
  | nil => simp
  | cons p ps ih =>
    cases x with
    | nil => simp at h
    | cons y ys =>
      simp only [List.cons_append, List.isPrefixOf_cons_cons]
      rw [ih ys (by simpa using h)]

theorem isPrefixOf_length_le (pat x : List Byte) (h : pat.isPrefixOf x = true) :
    pat.length ≤ x.length := by
  induction pat generalizing x with
  | nil => simp
  | cons p ps ih =>
    cases x with
    | nil => simp at h
    | cons y ys =>
      simp only [List.isPrefixOf_cons_cons, Bool.and_eq_true] at h
      have := ih ys h.2
      simp; omega

/-- an occurrence lies inside the list -/
theorem occAt_bound (pat l : List Byte) (j : Nat) (h : OccAt pat l j) :
    j + pat.length ≤ l.length ∨ pat = [] := by
  unfold OccAt at h
  have := isPrefixOf_length_le _ _ h
  simp at this
  by_cases hj : j ≤ l.length
  · left; omega
  · right
    have : pat.length = 0 := by omega
    exact List.eq_nil_of_length_eq_zero this

theorem occAt_bound' (l : List Byte) (j : Nat) (h : OccAt marker l j) :
    j + 6 ≤ l.length := by
  rcases occAt_bound marker l j h with h | h
  · simpa [marker_length] using h
  · exact absurd h marker_ne_nil

/-- an occurrence in `s` is an occurrence in `s ++ t` -/
theorem occAt_append (pat s t : List Byte) (j : Nat) (h : OccAt pat s j) : OccAt pat (s ++ t) j := by
  by_cases hp : pat = []
  · subst hp; simp [OccAt]
  rcases occAt_bound pat s j h with hb | hb
  · unfold OccAt at *
    rw [List.drop_append_of_le_length (by omega)]
    rw [isPrefixOf_append_of_le _ _ _ (by simp; omega)]
    exact h
  · exact absurd hb hp

/-- an occurrence in `s ++ t` that ends inside `s` is an occurrence in `s` -/
theorem occAt_of_append (pat s t : List Byte) (j : Nat) (hj : j + pat.length ≤ s.length)
    (h : OccAt pat (s ++ t) j) : OccAt pat s j := by
  unfold OccAt at *
  rw [List.drop_append_of_le_length (by omega)] at h
  rwa [isPrefixOf_append_of_le _ _ _ (by simp; omega)] at h

theorem find_append_some (pat s t : List Byte) (i : Nat) (hp : pat ≠ [])
    (h : find pat s = some i) : find pat (s ++ t) = some i := by
  rw [find_some_iff _ _ _ hp] at h ⊢
  obtain ⟨h1, h2⟩ := h
  refine ⟨occAt_append _ _ _ _ h1, ?_⟩
  intro j hj hocc
  apply h2 j hj
  rcases occAt_bound pat s i h1 with hb | hb
  · exact occAt_of_append pat s t j (by omega) hocc
  · exact absurd hb hp

theorem find_shift (pat l : List Byte) (s : Nat) (hp : pat ≠ [])
    (hno : ∀ j < s, ¬ OccAt pat l j) :
    find pat l = (find pat (l.drop s)).map (· + s) := by
  cases hf : find pat (l.drop s) with
  | none =>
    rw [find_none_iff _ _ hp] at hf
    simp only [Option.map_none]
    rw [find_none_iff _ _ hp]
    intro j
    by_cases hj : j < s
    · exact hno j hj
    · have := hf (j - s)
      rw [occAt_drop] at this
      have e : s + (j - s) = j := by omega
      rwa [e] at this
  | some i =>
    rw [find_some_iff _ _ _ hp] at hf
    simp only [Option.map_some]
    rw [find_some_iff _ _ _ hp]
    obtain ⟨h1, h2⟩ := hf
    refine ⟨?_, ?_⟩
    · rw [occAt_drop] at h1; rwa [Nat.add_comm]
    · intro j hj
      by_cases hjs : j < s
      · exact hno j hjs
      · have := h2 (j - s) (by omega)
        rw [occAt_drop] at this
        have e : s + (j - s) = j := by omega
        rwa [e] at this

theorem no_occ_append (pat a b : List Byte)
    (hno : ∀ j, ¬ OccAt pat a j) :
    ∀ j < a.length - (pat.length - 1), ¬ OccAt pat (a ++ b) j := by
  intro j hj hocc
  apply hno j
  exact occAt_of_append pat a b j (by omega) hocc

/-! ### `recv` with the whole buffer searched on every iteration (reference loop) -/

def specRecv : (reads : List Read) → (buf : List Byte) → Out
  | [], buf =>
    match find marker buf with
    | some i => .msg (buf.take (i + marker.length)) (buf.drop (i + marker.length)) []
    | none => .pending buf
  | r :: rs, buf =>
    match find marker buf with
    | some i => .msg (buf.take (i + marker.length)) (buf.drop (i + marker.length)) (r :: rs)
    | none =>
      match r with
      | .data bs => specRecv rs (buf ++ bs)
      | .ioErr => .err buf
      | .eof => .err buf

/-- The receive loop with end-of-stream check and any restart distance `back ≥ marker.length - 1`
equals the reference loop that searches the whole buffer on every iteration. -/
theorem recvLoop_eq_spec_back (back : Nat) (hb : marker.length - 1 ≤ back) (reads : List Read) (searched : Nat)
    (buf : List Byte) (hno : ∀ j < searched, ¬ OccAt marker buf j) :
    recvLoop { back := back, eofCheck := true } reads searched buf = specRecv reads buf := by
  induction reads generalizing searched buf with
  | nil =>
    simp only [recvLoop, specRecv]
    rw [find_shift marker buf searched marker_ne_nil hno]
    cases find marker (buf.drop searched) with
    | none => rfl
    | some i => simp [Nat.add_comm]
  | cons r rs ih =>
    simp only [recvLoop, specRecv]
    rw [find_shift marker buf searched marker_ne_nil hno]
    cases hf : find marker (buf.drop searched) with
    | none =>
      simp only [Option.map_none]
      cases r with
      | data bs =>
        apply ih
        have hall : ∀ j, ¬ OccAt marker buf j := by
          have : find marker buf = none := by
            rw [find_shift marker buf searched marker_ne_nil hno, hf]; rfl
          exact (find_none_iff _ _ marker_ne_nil).mp this
        intro j hj
        exact no_occ_append marker buf bs hall j (by omega)
      | eof => rfl
      | ioErr => rfl
    | some i => simp [Nat.add_comm]

theorem recvLoop_eq_spec (reads : List Read) (searched : Nat) (buf : List Byte)
    (hno : ∀ j < searched, ¬ OccAt marker buf j) :
    recvLoop .fixed reads searched buf = specRecv reads buf :=
  recvLoop_eq_spec_back (marker.length - 1) (Nat.le_refl _) reads searched buf hno

theorem recv_eq_spec (buf : List Byte) (reads : List Read) :
    recv .fixed buf reads = specRecv reads buf :=
  recvLoop_eq_spec reads 0 buf (by intro j hj; omega)

/-! ### `split` -/

theorem find_some_bound (s : List Byte) (i : Nat) (h : find marker s = some i) : i + 6 ≤ s.length :=
  occAt_bound' s i ((find_some_iff _ _ _ marker_ne_nil).mp h).1

theorem splitAll_succ (fuel : Nat) (s : List Byte) (h : s.length ≤ fuel) :
    splitAll (fuel + 1) s = splitAll fuel s := by
  induction fuel generalizing s with
  | zero =>
    have : s = [] := List.eq_nil_of_length_eq_zero (by omega)
    subst this
    simp [splitAll, find, marker]
  | succ n ih =>
    rw [splitAll]
    conv => rhs; rw [splitAll]
    cases hf : find marker s with
    | none => rfl
    | some i =>
      have hb := find_some_bound s i hf
      simp only []
      rw [ih]
      simp [marker_length]; omega

theorem splitAll_ge (fuel : Nat) (s : List Byte) (h : s.length ≤ fuel) :
    splitAll fuel s = splitAll s.length s := by
  induction fuel with
  | zero =>
    have : s.length = 0 := by omega
    rw [this]
  | succ n ih =>
    by_cases hn : s.length ≤ n
    · rw [splitAll_succ n s hn]; exact ih hn
    · have : s.length = n + 1 := by omega
      rw [this]

theorem split_unfold (s : List Byte) :
    split s = match find marker s with
      | some i => ((s.take (i + 6)) :: (split (s.drop (i + 6))).1, (split (s.drop (i + 6))).2)
      | none => ([], s) := by
  unfold split
  cases hl : s.length with
  | zero =>
    have : s = [] := List.eq_nil_of_length_eq_zero hl
    subst this
    simp [splitAll, find, marker]
  | succ n =>
    rw [splitAll]
    cases hf : find marker s with
    | none => rfl
    | some i =>
      have hb := find_some_bound s i hf
      simp only [marker_length]
      rw [splitAll_ge n (s.drop (i + 6)) (by simp; omega)]

theorem split_none (s : List Byte) (h : find marker s = none) : split s = ([], s) := by
  rw [split_unfold, h]

theorem split_some (s : List Byte) (i : Nat) (h : find marker s = some i) :
    split s = ((s.take (i + 6)) :: (split (s.drop (i + 6))).1, (split (s.drop (i + 6))).2) := by
  rw [split_unfold, h]

/-- the residue of `split` contains no delimiter -/
theorem split_residue (s : List Byte) : find marker (split s).2 = none := by
  generalize hn : s.length = n
  induction n using Nat.strongRecOn generalizing s with
  | _ n ih =>
    cases hf : find marker s with
    | none => rw [split_none s hf]; exact hf
    | some i =>
      have hb := find_some_bound s i hf
      rw [split_some s i hf]
      exact ih (s.drop (i + 6)).length (by simp; omega) _ rfl

/-- `split` is incremental: splitting `s ++ t` = splitting `s`, then splitting residue ++ `t`. -/
theorem split_append (s t : List Byte) :
    split (s ++ t) = ((split s).1 ++ (split ((split s).2 ++ t)).1, (split ((split s).2 ++ t)).2) := by
  generalize hn : s.length = n
  induction n using Nat.strongRecOn generalizing s with
  | _ n ih =>
    cases hf : find marker s with
    | none => rw [split_none s hf]; simp
    | some i =>
      have hb := find_some_bound s i hf
      have hf' := find_append_some marker s t i marker_ne_nil hf
      rw [split_some s i hf, split_some (s ++ t) i hf']
      have e1 : (s ++ t).take (i + 6) = s.take (i + 6) := by
        rw [List.take_append_of_le_length (by omega)]
      have e2 : (s ++ t).drop (i + 6) = s.drop (i + 6) ++ t := by
        rw [List.drop_append_of_le_length (by omega)]
      rw [e1, e2, ih (s.drop (i + 6)).length (by simp; omega) _ rfl]
      simp

/-! ### one `recv` on data-only reads -/

def datas (cs : List (List Byte)) : List Read := cs.map .data

theorem specRecv_datas (cs : List (List Byte)) (buf : List Byte) :
    (find marker (buf ++ cs.flatten) = none ∧ specRecv (datas cs) buf = .pending (buf ++ cs.flatten)) ∨
    (∃ i cs' buf', find marker (buf ++ cs.flatten) = some i ∧
        specRecv (datas cs) buf = .msg ((buf ++ cs.flatten).take (i + 6)) buf' (datas cs') ∧
        buf' ++ cs'.flatten = (buf ++ cs.flatten).drop (i + 6) ∧ cs'.length ≤ cs.length) := by
  induction cs generalizing buf with
  | nil =>
    simp only [List.flatten_nil, List.append_nil, datas, List.map_nil, specRecv]
    cases hf : find marker buf with
    | none => left; exact ⟨rfl, rfl⟩
    | some i => right; exact ⟨i, [], buf.drop (i + 6), rfl, by simp [marker_length], by simp, by simp⟩
  | cons c cs ih =>
    simp only [datas, List.map_cons, specRecv, List.flatten_cons]
    cases hf : find marker buf with
    | some i =>
      right
      have hb := find_some_bound buf i hf
      have hf' := find_append_some marker buf (c ++ cs.flatten) i marker_ne_nil hf
      refine ⟨i, c :: cs, buf.drop (i + 6), hf', ?_, ?_, by simp⟩
      · simp only [marker_length, List.map_cons]
        rw [List.take_append_of_le_length (by omega)]
      · simp only [List.flatten_cons]
        rw [List.drop_append_of_le_length (by omega)]
    | none =>
      simp only []
      have := ih (buf ++ c)
      simp only [List.append_assoc] at this
      rcases this with ⟨h1, h2⟩ | ⟨i, cs', buf', h1, h2, h3, h4⟩
      · left; exact ⟨h1, h2⟩
      · right; exact ⟨i, cs', buf', h1, h2, h3, by simp; omega⟩

end Framing
