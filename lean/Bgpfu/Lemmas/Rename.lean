import Bgpfu.Model.Readers
import Bgpfu.Model.Hello
import Bgpfu.Model.Fetch
import Bgpfu.Model.FetchInstalled
import Bgpfu.Lemmas.Totality  -- only so that the matcher congruence lemmas both files need are generated once (C13 imports both via Lemmas/Misc)
/-!
Raw-name renaming (C13).

Rewriting a document to use another prefix (or the default namespace) for the same namespace URI
changes, in the event list the readers consume, exactly the RAW qualified names of elements:
`Tag.raw` of `Start`/`Empty` events and the name carried by `End` events. Namespace resolution
result, local name, attributes and `span` are unchanged. `renameEv f` is that rewrite for an
arbitrary renaming function `f`; every reader loop commutes with it as soon as `f` is injective
(the readers only ever compare a raw name with another raw name of the same document:
`read_to_end(name)`, end-name matching).

Shape of every loop lemma:
  `loop fuel (f endRaw) acc (renameEvs f evs) = mapRest f (loop fuel endRaw acc evs)`
where `mapRest f` renames the remaining events of an `ok` result and leaves the value alone.
-/
namespace Xml

/-- rename the raw qualified name of a tag -/
def renameTag (f : String → String) (t : Tag) : Tag := { t with raw := f t.raw }

/-- apply `f` to the raw qualified name of element events; everything else is unchanged -/
def renameEv (f : String → String) : Ev → Ev
  | .start t => .start (renameTag f t)
  | .empty t => .empty (renameTag f t)
  | .end raw => .end (f raw)
  | .text s => .text s
  | .cdata => .cdata
  | .comment => .comment
  | .decl => .decl
  | .pi => .pi
  | .doctype => .doctype
  | .eof => .eof
  | .error => .error

def renameEvs (f : String → String) : List Ev → List Ev := List.map (renameEv f)

/-- `f` is injective -/
def Inj (f : String → String) : Prop := ∀ a b, f a = f b → a = b

theorem Inj.beq {f : String → String} (hf : Inj f) (a b : String) : (f a == f b) = (a == b) := by
  by_cases h : a = b
  · subst h; simp
  · have : f a ≠ f b := fun h' => h (hf a b h')
    rw [beq_eq_false_iff_ne.mpr this, beq_eq_false_iff_ne.mpr h]

/-- rename the remaining events of a successful result -/
def mapRest {α} (f : String → String) : Except Err (α × List Ev) → Except Err (α × List Ev)
  | .ok (v, r) => .ok (v, renameEvs f r)
  | .error e => .error e

@[simp] theorem mapRest_ok {α} (f : String → String) (v : α) (r : List Ev) :
    mapRest f (.ok (v, r)) = .ok (v, renameEvs f r) := rfl
@[simp] theorem mapRest_error {α} (f : String → String) (e : Err) :
    mapRest (α := α) f (.error e) = .error e := rfl

@[simp] theorem renameEvs_nil (f : String → String) : renameEvs f [] = [] := rfl
@[simp] theorem renameEvs_cons (f : String → String) (e : Ev) (r : List Ev) :
    renameEvs f (e :: r) = renameEv f e :: renameEvs f r := rfl
@[simp] theorem renameEvs_length (f : String → String) (evs : List Ev) : (renameEvs f evs).length = evs.length := by
  simp [renameEvs]

@[simp] theorem renameTag_ns (f : String → String) (t : Tag) : (renameTag f t).ns = t.ns := rfl
@[simp] theorem renameTag_lname (f : String → String) (t : Tag) : (renameTag f t).lname = t.lname := rfl
@[simp] theorem renameTag_raw (f : String → String) (t : Tag) : (renameTag f t).raw = f t.raw := rfl
@[simp] theorem renameTag_attrs (f : String → String) (t : Tag) : (renameTag f t).attrs = t.attrs := rfl
@[simp] theorem renameTag_span (f : String → String) (t : Tag) : (renameTag f t).span = t.span := rfl
@[simp] theorem renameTag_is (f : String → String) (t : Tag) (u n : String) : (renameTag f t).is u n = t.is u n := rfl

/-! ### Model/Xml.lean -/

theorem skipToEnd_rename {f : String → String} (hf : Inj f) (name : String) (evs : List Ev) (d : Nat) :
    skipToEnd (f name) (renameEvs f evs) d = (match skipToEnd name evs d with
      | .ok r => .ok (renameEvs f r) | .error e => .error e) := by
  induction evs generalizing d with
  | nil => simp [skipToEnd]
  | cons ev rest ih =>
    cases ev with
    | start t =>
      simp only [renameEvs_cons, renameEv, skipToEnd, renameTag_raw, hf.beq]
      split <;> exact ih _
    | «end» raw =>
      simp only [renameEvs_cons, renameEv, skipToEnd, hf.beq]
      split
      · cases d with
        | zero => rfl
        | succ d => exact ih _
      · exact ih _
    | empty t => simpa [skipToEnd, renameEv] using ih d
    | text s => simpa [skipToEnd, renameEv] using ih d
    | cdata => simpa [skipToEnd, renameEv] using ih d
    | comment => simpa [skipToEnd, renameEv] using ih d
    | decl => simpa [skipToEnd, renameEv] using ih d
    | pi => simpa [skipToEnd, renameEv] using ih d
    | doctype => simpa [skipToEnd, renameEv] using ih d
    | eof => simp [skipToEnd, renameEv]
    | error => simp [skipToEnd, renameEv]

theorem readText_rename {f : String → String} (hf : Inj f) (t : Tag) (rest : List Ev) :
    readText (renameTag f t) (renameEvs f rest) = mapRest f (readText t rest) := by
  simp only [readText, renameTag_raw, renameTag_span, skipToEnd_rename hf]
  cases skipToEnd t.raw rest 0 with
  | error e => rfl
  | ok r => cases t.span <;> rfl

theorem skipToEndLenient_rename {f : String → String} (hf : Inj f) (name : String) (evs : List Ev) (d : Nat) :
    skipToEndLenient (f name) (renameEvs f evs) d = renameEvs f (skipToEndLenient name evs d) := by
  induction evs generalizing d with
  | nil => simp [skipToEndLenient]
  | cons ev rest ih =>
    cases ev with
    | start t =>
      simp only [renameEvs_cons, renameEv, skipToEndLenient, renameTag_raw, hf.beq]
      split <;> exact ih _
    | «end» raw =>
      simp only [renameEvs_cons, renameEv, skipToEndLenient, hf.beq]
      split
      · cases d with
        | zero => rfl
        | succ d => exact ih _
      · exact ih _
    | empty t => simpa [skipToEndLenient, renameEv] using ih d
    | text s => simpa [skipToEndLenient, renameEv] using ih d
    | cdata => simpa [skipToEndLenient, renameEv] using ih d
    | comment => simpa [skipToEndLenient, renameEv] using ih d
    | decl => simpa [skipToEndLenient, renameEv] using ih d
    | pi => simpa [skipToEndLenient, renameEv] using ih d
    | doctype => simpa [skipToEndLenient, renameEv] using ih d
    | eof => simp [skipToEndLenient, renameEv]
    | error => simp [skipToEndLenient, renameEv]

/-! ### Model/Readers.lean -/

theorem infoLoop_rename {f : String → String} (hf : Inj f) (fuel : Nat) (endRaw : String) (acc : List InfoElem) (evs : List Ev) :
    infoLoop fuel (f endRaw) acc (renameEvs f evs) = mapRest f (infoLoop fuel endRaw acc evs) := by
  fun_induction infoLoop fuel endRaw acc evs <;> (try cases ‹Ev›) <;>
    simp_all [infoLoop, renameEv, readText_rename hf, hf.beq]

theorem errorLoop_rename {f : String → String} (hf : Inj f) (fuel : Nat) (endRaw : String) (acc : ErrAcc) (evs : List Ev) :
    errorLoop fuel (f endRaw) acc (renameEvs f evs) = mapRest f (errorLoop fuel endRaw acc evs) := by
  fun_induction errorLoop fuel endRaw acc evs <;> (try cases ‹Ev›) <;>
    (try simp only [errorLoop, renameEvs_cons, renameEv, renameTag_is, *]) <;>
    simp_all [errorLoop, readText_rename hf, infoLoop_rename hf, hf.beq]

theorem readRpcError_rename {f : String → String} (hf : Inj f) (fuel : Nat) (t : Tag) (rest : List Ev) :
    readRpcError fuel (renameTag f t) (renameEvs f rest) = mapRest f (readRpcError fuel t rest) := by
  simp [readRpcError, errorLoop_rename hf]

theorem emptyLoop_rename {f : String → String} (hf : Inj f) (fuel : Nat) (endRaw : String) (this : Bool)
    (errors : List RpcError) (evs : List Ev) :
    emptyLoop fuel (f endRaw) this errors (renameEvs f evs) = mapRest f (emptyLoop fuel endRaw this errors evs) := by
  fun_induction emptyLoop fuel endRaw this errors evs <;> (try cases ‹Ev›) <;>
    simp_all [emptyLoop, renameEv, readRpcError_rename hf, hf.beq]

theorem dataLoop_rename {f : String → String} (hf : Inj f) (fuel : Nat) (endRaw : String) (this : Option String)
    (errors : List RpcError) (evs : List Ev) :
    dataLoop fuel (f endRaw) this errors (renameEvs f evs) = mapRest f (dataLoop fuel endRaw this errors evs) := by
  fun_induction dataLoop fuel endRaw this errors evs <;> (try cases ‹Ev›) <;>
    (try simp only [dataLoop, renameEvs_cons, renameEv, renameTag_is, *]) <;>
    simp_all [dataLoop, readText_rename hf, readRpcError_rename hf, hf.beq]

theorem bareLoop_rename {f : String → String} (hf : Inj f) (fuel : Nat) (endRaw : String)
    (errors : List RpcError) (evs : List Ev) :
    bareLoop fuel (f endRaw) errors (renameEvs f evs) = mapRest f (bareLoop fuel endRaw errors evs) := by
  fun_induction bareLoop fuel endRaw errors evs <;> (try cases ‹Ev›) <;>
    simp_all [bareLoop, renameEv, readRpcError_rename hf, hf.beq]

theorem loadInner_rename {f : String → String} (hf : Inj f) (c : RCfg) (fuel : Nat) (endRaw : String) (st : LoadSt) (evs : List Ev) :
    loadInner c fuel (f endRaw) st (renameEvs f evs) = mapRest f (loadInner c fuel endRaw st evs) := by
  fun_induction loadInner c fuel endRaw st evs <;> (try cases ‹Ev›) <;>
    (try simp only [loadInner, renameEvs_cons, renameEv, renameTag_is, *]) <;>
    simp_all [loadInner, readText_rename hf, readRpcError_rename hf, hf.beq]

theorem loadOuter_rename {f : String → String} (hf : Inj f) (c : RCfg) (fuel : Nat) (endRaw : String) (st : LoadSt) (evs : List Ev) :
    loadOuter c fuel (f endRaw) st (renameEvs f evs) = mapRest f (loadOuter c fuel endRaw st evs) := by
  fun_induction loadOuter c fuel endRaw st evs <;> (try cases ‹Ev›) <;>
    simp_all [loadOuter, renameEv, loadInner_rename hf, hf.beq]

theorem readBody_rename {f : String → String} (hf : Inj f) (c : RCfg) (k : ReplyKind) (fuel : Nat) (t : Tag) (rest : List Ev) :
    readBody c k fuel (renameTag f t) (renameEvs f rest) = mapRest f (readBody c k fuel t rest) := by
  cases k <;> simp [readBody, emptyLoop_rename hf, dataLoop_rename hf, bareLoop_rename hf, loadOuter_rename hf]

theorem readReplyElem_rename {f : String → String} (hf : Inj f) (c : RCfg) (k : ReplyKind) (fuel : Nat) (t : Tag) (rest : List Ev) :
    readReplyElem c k fuel (renameTag f t) (renameEvs f rest) = mapRest f (readReplyElem c k fuel t rest) := by
  simp only [readReplyElem, renameTag_attrs, readBody_rename hf]
  cases getAttr "message-id" t.attrs with
  | error e => rfl
  | ok oa =>
    cases oa with
    | none => rfl
    | some a =>
      simp only []
      cases parseMessageId a with
      | error e => rfl
      | ok id =>
        simp only []
        cases readBody c k fuel t rest with
        | error e => rfl
        | ok p => rfl

theorem fromXmlReply_rename {f : String → String} (hf : Inj f) (c : RCfg) (k : ReplyKind) (fuel : Nat)
    (this : Option (Nat × Body)) (evs : List Ev) :
    fromXmlReply c k fuel this (renameEvs f evs) = fromXmlReply c k fuel this evs := by
  fun_induction fromXmlReply c k fuel this evs <;> (try cases ‹Ev›) <;>
    simp_all [fromXmlReply, renameEv, readReplyElem_rename hf]

theorem readPartial_rename {f : String → String} (hf : Inj f) (c : RCfg) (fuel : Nat) (mid : Option Nat) (evs : List Ev) :
    readPartial c fuel mid (renameEvs f evs) = readPartial c fuel mid evs := by
  fun_induction readPartial c fuel mid evs <;> (try cases ‹Ev›) <;>
    simp_all [readPartial, renameEv, skipToEndLenient_rename hf]

theorem phase2_rename {f : String → String} (hf : Inj f) (c : RCfg) (k : ReplyKind) (id1 : Nat) (evs : List Ev) :
    phase2 c k id1 (renameEvs f evs) = phase2 c k id1 evs := by
  simp [phase2, fromXmlReply_rename hf]

theorem readMessage_rename {f : String → String} (hf : Inj f) (c : RCfg) (k : ReplyKind) (evs : List Ev) :
    readMessage c k (renameEvs f evs) = readMessage c k evs := by
  simp [readMessage, readPartial_rename hf, phase2_rename hf]

/-! ### Model/Hello.lean -/

theorem capsLoop_rename {f : String → String} (hf : Inj f) (c : RCfg) (o : UriOracle) (fuel : Nat) (endRaw : String)
    (acc : List Capability) (evs : List Ev) :
    capsLoop c o fuel (f endRaw) acc (renameEvs f evs) = mapRest f (capsLoop c o fuel endRaw acc evs) := by
  fun_induction capsLoop c o fuel endRaw acc evs <;> (try cases ‹Ev›) <;>
    simp_all [capsLoop, renameEv, readText_rename hf, hf.beq]

theorem helloLoop_rename {f : String → String} (hf : Inj f) (c : RCfg) (o : UriOracle) (fuel : Nat) (endRaw : String)
    (caps : Option (List Capability)) (sid : Option Nat) (evs : List Ev) :
    helloLoop c o fuel (f endRaw) caps sid (renameEvs f evs) = mapRest f (helloLoop c o fuel endRaw caps sid evs) := by
  fun_induction helloLoop c o fuel endRaw caps sid evs <;> (try cases ‹Ev›) <;>
    (try simp only [helloLoop, renameEvs_cons, renameEv, renameTag_is, *]) <;>
    simp_all [helloLoop, readText_rename hf, capsLoop_rename hf, hf.beq]

theorem fromXmlHello_rename {f : String → String} (hf : Inj f) (c : RCfg) (o : UriOracle) (fuel : Nat)
    (this : Option Hello) (evs : List Ev) :
    fromXmlHello c o fuel this (renameEvs f evs) = fromXmlHello c o fuel this evs := by
  fun_induction fromXmlHello c o fuel this evs <;> (try cases ‹Ev›) <;>
    simp_all [fromXmlHello, renameEv, helloLoop_rename hf]

theorem establish_rename {f : String → String} (hf : Inj f) (c : RCfg) (adv : Bool) (o : UriOracle) (evs : List Ev) :
    establish c adv o (renameEvs f evs) = establish c adv o evs := by
  simp [establish, fromXmlHello_rename hf]

/-! ### Model/Fetch.lean -/

theorem readName_rename {f : String → String} (hf : Inj f) (unescape : String → Option String) (t : Tag) (rest : List Ev) :
    readName unescape (renameTag f t) (renameEvs f rest) = mapRest f (readName unescape t rest) := by
  simp only [readName, readText_rename hf]
  cases readText t rest with
  | error e => rfl
  | ok p => obtain ⟨s, r⟩ := p; simp only [mapRest_ok]; cases unescape s <;> rfl

theorem thenLoop_rename {f : String → String} (hf : Inj f) (c : FCfg) (fuel : Nat) (endRaw : String) (reject other : Bool) (evs : List Ev) :
    thenLoop c fuel (f endRaw) reject other (renameEvs f evs) = mapRest f (thenLoop c fuel endRaw reject other evs) := by
  fun_induction thenLoop c fuel endRaw reject other evs <;> (try cases ‹Ev›) <;>
    simp_all [thenLoop, renameEv, skipToEnd_rename hf, hf.beq]

theorem bodyLoop_rename {f : String → String} (hf : Inj f) (c : FCfg) (unescape : String → Option String) (fuel : Nat)
    (endRaw : String) (st : BodySt) (evs : List Ev) :
    bodyLoop c unescape fuel (f endRaw) st (renameEvs f evs) = mapRest f (bodyLoop c unescape fuel endRaw st evs) := by
  fun_induction bodyLoop c unescape fuel endRaw st evs <;> (try cases ‹Ev›) <;>
    (try simp only [bodyLoop, renameEvs_cons, renameEv, renameTag_is, *]) <;>
    simp_all [bodyLoop, skipToEnd_rename hf, readName_rename hf, thenLoop_rename hf, hf.beq]

theorem skipStmt_rename {α} {f : String → String} (hf : Inj f) (t : Tag) (rest : List Ev) :
    skipStmt (α := α) (renameTag f t) (renameEvs f rest) = mapRest f (skipStmt t rest) := by
  simp only [skipStmt, renameTag_raw, skipToEnd_rename hf]
  cases skipToEnd t.raw rest 0 <;> rfl

/-- what it means for a statement reader to commute with a renaming -/
def StmtReader.Renames {T} (f : String → String) (rd : StmtReader T) : Prop :=
  ∀ fuel t rest, rd fuel (renameTag f t) (renameEvs f rest) = mapRest f (rd fuel t rest)

theorem readCandidate_rename {f : String → String} (hf : Inj f) (c : FCfg) (parseExpr unescape : String → Option String) :
    StmtReader.Renames f (readCandidate c parseExpr unescape) := by
  intro fuel t rest
  simp only [readCandidate, renameTag_attrs, renameTag_raw, skipStmt_rename hf, bodyLoop_rename hf]
  cases attrLoop parseExpr none t.attrs with
  | error e => rfl
  | ok a =>
    cases a with
    | inactive => rfl
    | expr oe =>
      cases oe with
      | none => rfl
      | some fe =>
        simp only []
        cases bodyLoop c unescape fuel t.raw {} rest with
        | error e => rfl
        | ok p => obtain ⟨st, r⟩ := p; simp only [mapRest_ok]; cases st.finish fe <;> rfl

theorem policyOptionsLoop_rename {T} {f : String → String} (hf : Inj f) (rd : StmtReader T) (hrd : StmtReader.Renames f rd)
    (fuel : Nat) (endRaw : String) (map : List (String × T)) (evs : List Ev) :
    policyOptionsLoop rd fuel (f endRaw) map (renameEvs f evs) = mapRest f (policyOptionsLoop rd fuel endRaw map evs) := by
  fun_induction policyOptionsLoop rd fuel endRaw map evs <;> (try cases ‹Ev›) <;>
    simp_all [policyOptionsLoop, renameEv, hrd _ _ _, hf.beq]

theorem configurationLoop_rename {T} {f : String → String} (hf : Inj f) (rd : StmtReader T) (hrd : StmtReader.Renames f rd)
    (fuel : Nat) (endRaw : String) (seen : Bool) (map : List (String × T)) (evs : List Ev) :
    configurationLoop rd fuel (f endRaw) seen map (renameEvs f evs) = mapRest f (configurationLoop rd fuel endRaw seen map evs) := by
  fun_induction configurationLoop rd fuel endRaw seen map evs <;> (try cases ‹Ev›) <;>
    simp_all [configurationLoop, renameEv, policyOptionsLoop_rename hf rd hrd, hf.beq]

theorem policiesLoop_rename {T} {f : String → String} (hf : Inj f) (rd : StmtReader T) (hrd : StmtReader.Renames f rd)
    (fuel : Nat) (endRaw : String) (this : Option (List (String × T))) (evs : List Ev) :
    policiesLoop rd fuel (f endRaw) this (renameEvs f evs) = policiesLoop rd fuel endRaw this evs := by
  fun_induction policiesLoop rd fuel endRaw this evs <;> (try cases ‹Ev›) <;>
    simp_all [policiesLoop, renameEv, configurationLoop_rename hf rd hrd, hf.beq]

theorem readCandidates_rename {f : String → String} (hf : Inj f) (c : FCfg) (parseExpr unescape : String → Option String)
    (dataRaw : String) (evs : List Ev) :
    readCandidates c parseExpr unescape (f dataRaw) (renameEvs f evs) = readCandidates c parseExpr unescape dataRaw evs := by
  simp [readCandidates, policiesLoop_rename hf _ (readCandidate_rename hf c parseExpr unescape)]

theorem readData_rename {α} (f : String → String) (k : Tag → List Ev → Except Err α)
    (hk : ∀ t rest, k (renameTag f t) (renameEvs f rest) = k t rest) (evs : List Ev) :
    readData k (renameEvs f evs) = readData k evs := by
  induction evs with
  | nil => rfl
  | cons ev rest ih =>
    cases ev <;> simp_all [readData, renameEv]

theorem readCandidatesDoc_rename {f : String → String} (hf : Inj f) (c : FCfg) (parseExpr unescape : String → Option String)
    (evs : List Ev) :
    readCandidatesDoc c parseExpr unescape (renameEvs f evs) = readCandidatesDoc c parseExpr unescape evs := by
  unfold readCandidatesDoc
  exact readData_rename f _ (fun t rest => by simp [readCandidates_rename hf]) evs

/-! ### Model/FetchInstalled.lean -/

theorem choiceValueLoop_rename {f : String → String} (hf : Inj f) (fuel : Nat) (evs : List Ev) :
    choiceValueLoop fuel (renameEvs f evs) = mapRest f (choiceValueLoop fuel evs) := by
  fun_induction choiceValueLoop fuel evs <;> (try cases ‹Ev›) <;>
    simp_all [choiceValueLoop, renameEv, readText_rename hf]

theorem routeFilterLoop_rename {f : String → String} (hf : Inj f) (fuel : Nat) (endRaw : String) (st : RfSt) (evs : List Ev) :
    routeFilterLoop fuel (f endRaw) st (renameEvs f evs) = mapRest f (routeFilterLoop fuel endRaw st evs) := by
  fun_induction routeFilterLoop fuel endRaw st evs <;> (try cases ‹Ev›) <;>
    (try simp only [routeFilterLoop, renameEvs_cons, renameEv, renameTag_is, *]) <;>
    simp_all [routeFilterLoop, readText_rename hf, choiceValueLoop_rename hf, hf.beq]

theorem readRouteFilter_rename {f : String → String} (hf : Inj f) (fuel : Nat) (t : Tag) (rest : List Ev) :
    readRouteFilter fuel (renameTag f t) (renameEvs f rest) = mapRest f (readRouteFilter fuel t rest) := by
  simp only [readRouteFilter, renameTag_raw, routeFilterLoop_rename hf]
  cases routeFilterLoop fuel t.raw {} rest with
  | error e => rfl
  | ok p => obtain ⟨st, r⟩ := p; simp only [mapRest_ok]; cases st.finish <;> rfl

theorem fromLoop_rename {f : String → String} (hf : Inj f) (fuel : Nat) (endRaw : String) (st : FromSt) (evs : List Ev) :
    fromLoop fuel (f endRaw) st (renameEvs f evs) = mapRest f (fromLoop fuel endRaw st evs) := by
  fun_induction fromLoop fuel endRaw st evs <;> (try cases ‹Ev›) <;>
    simp_all [fromLoop, renameEv, readText_rename hf, readRouteFilter_rename hf, hf.beq]

theorem readTermFrom_rename {f : String → String} (hf : Inj f) (fuel : Nat) (t : Tag) (rest : List Ev) :
    readTermFrom fuel (renameTag f t) (renameEvs f rest) = mapRest f (readTermFrom fuel t rest) := by
  simp only [readTermFrom, renameTag_raw, fromLoop_rename hf]
  cases fromLoop fuel t.raw {} rest with
  | error e => rfl
  | ok p => obtain ⟨st, r⟩ := p; simp only [mapRest_ok]; cases st.finish <;> rfl

theorem acceptLoop_rename {f : String → String} (hf : Inj f) (fuel : Nat) (endRaw : String) (accept : Bool) (evs : List Ev) :
    acceptLoop fuel (f endRaw) accept (renameEvs f evs) = mapRest f (acceptLoop fuel endRaw accept evs) := by
  fun_induction acceptLoop fuel endRaw accept evs <;> (try cases ‹Ev›) <;>
    simp_all [acceptLoop, renameEv, hf.beq]

theorem termLoop_rename {f : String → String} (hf : Inj f) (fuel : Nat) (endRaw : String) (st : TermSt) (evs : List Ev) :
    termLoop fuel (f endRaw) st (renameEvs f evs) = mapRest f (termLoop fuel endRaw st evs) := by
  fun_induction termLoop fuel endRaw st evs <;> (try cases ‹Ev›) <;>
    (try simp only [termLoop, renameEvs_cons, renameEv, renameTag_is, *]) <;>
    simp_all [termLoop, readText_rename hf, readTermFrom_rename hf, acceptLoop_rename hf, hf.beq]

theorem readTerm_rename {f : String → String} (hf : Inj f) (fuel : Nat) (t : Tag) (rest : List Ev) :
    readTerm fuel (renameTag f t) (renameEvs f rest) = mapRest f (readTerm fuel t rest) := by
  simp only [readTerm, renameTag_raw, termLoop_rename hf]
  cases termLoop fuel t.raw {} rest with
  | error e => rfl
  | ok p => obtain ⟨st, r⟩ := p; simp only [mapRest_ok]; cases st.finish <;> rfl

theorem instThenLoop_rename {f : String → String} (hf : Inj f) (fuel : Nat) (endRaw : String) (reject : Bool) (evs : List Ev) :
    instThenLoop fuel (f endRaw) reject (renameEvs f evs) = mapRest f (instThenLoop fuel endRaw reject evs) := by
  fun_induction instThenLoop fuel endRaw reject evs <;> (try cases ‹Ev›) <;>
    simp_all [instThenLoop, renameEv, hf.beq]

theorem instLoop_rename {f : String → String} (hf : Inj f) (o : IOracle) (fuel : Nat) (endRaw : String) (st : InstSt) (evs : List Ev) :
    instLoop o fuel (f endRaw) st (renameEvs f evs) = mapRest f (instLoop o fuel endRaw st evs) := by
  fun_induction instLoop o fuel endRaw st evs <;> (try cases ‹Ev›) <;>
    (try simp only [instLoop, renameEvs_cons, renameEv, renameTag_is, *]) <;>
    simp_all [instLoop, readName_rename hf, readTerm_rename hf, instThenLoop_rename hf, hf.beq]

theorem readInstalledStmt_rename {f : String → String} (hf : Inj f) (o : IOracle) :
    StmtReader.Renames f (readInstalledStmt o) := by
  intro fuel t rest
  simp only [readInstalledStmt, renameTag_raw, instLoop_rename hf]
  cases instLoop o fuel t.raw {} rest with
  | error e => rfl
  | ok p => obtain ⟨st, r⟩ := p; simp only [mapRest_ok]; cases st.finish <;> rfl

theorem readInstalledEv_rename {f : String → String} (hf : Inj f) (o : IOracle) (dataRaw : String) (evs : List Ev) :
    readInstalledEv o (f dataRaw) (renameEvs f evs) = readInstalledEv o dataRaw evs := by
  simp [readInstalledEv, policiesLoop_rename hf _ (readInstalledStmt_rename hf o)]

theorem readInstalledDoc_rename {f : String → String} (hf : Inj f) (o : IOracle) (evs : List Ev) :
    readInstalledDoc o (renameEvs f evs) = readInstalledDoc o evs := by
  unfold readInstalledDoc
  exact readData_rename f _ (fun t rest => by simp [readInstalledEv_rename hf]) evs

end Xml
