import Bgpfu.Lemmas.Framing
/-! Helper lemmas for the small-step model of SSH pump + bounded queue + consumer (C06). Core Lean only. -/
namespace Framing

/-- the messages the unbounded pump would still produce from the unprocessed events -/
def PQ.future (s : PQ) : List (List Byte) := (pump .fixed s.evs s.buf).1

/-- invariant of the waiting pump: the four places a message can be in partition, in order, the output of
the unbounded pump -/
def PQ.Inv (total : List (List Byte)) (cap : Nat) (s : PQ) : Prop :=
  s.delivered ++ s.queue ++ s.todo ++ s.future = total ∧ s.queue.length ≤ cap

theorem pump_data_fst (bs : List Byte) (evs : List ChanEv) (buf : List Byte) :
    (pump .fixed (.data bs :: evs) buf).1
      = (pumpData .fixed buf bs).1 ++ (pump .fixed evs (pumpData .fixed buf bs).2).1 := by
  simp [pump]

theorem PQ.init_inv (evs : List ChanEv) (cap : Nat) : (PQ.init evs).Inv (pump .fixed evs []).1 cap := by
  simp [PQ.Inv, PQ.init, PQ.future]

theorem PQ.chanStep_inv {total : List (List Byte)} {cap : Nat} {s : PQ} (h : s.Inv total cap) (ht : s.todo = []) :
    s.chanStep.Inv total cap := by
  obtain ⟨h1, h2⟩ := h
  unfold PQ.chanStep
  split
  · exact ⟨h1, h2⟩
  · rename_i bs evs he
    refine ⟨?_, h2⟩
    simp only [PQ.future, he, pump_data_fst, ht, List.append_nil] at h1 ⊢
    simpa using h1
  · rename_i evs he
    refine ⟨?_, h2⟩
    simp only [PQ.future, he, pump] at h1 ⊢
    exact h1
  · rename_i evs he
    refine ⟨?_, h2⟩
    simp only [PQ.future, he, pump] at h1 ⊢
    exact h1
  · rename_i evs he
    refine ⟨?_, h2⟩
    simp only [PQ.future, he, pump] at h1 ⊢
    exact h1

theorem PQ.pumpStep_inv {total : List (List Byte)} {cap : Nat} {s : PQ} (h : s.Inv total cap) :
    (s.pumpStep true cap).Inv total cap := by
  unfold PQ.pumpStep
  split
  · rename_i m ms ht
    split
    · rename_i hq
      obtain ⟨h1, h2⟩ := h
      refine ⟨?_, by simp; omega⟩
      simp only [PQ.future, ht] at h1 ⊢
      simpa using h1
    · exact h
  · rename_i ht
    exact PQ.chanStep_inv h ht

theorem PQ.consumeStep_inv {total : List (List Byte)} {cap : Nat} {s : PQ} (h : s.Inv total cap) :
    s.consumeStep.Inv total cap := by
  unfold PQ.consumeStep
  split
  · rename_i m q hq
    obtain ⟨h1, h2⟩ := h
    refine ⟨?_, by simp [hq] at h2 ⊢; omega⟩
    simp only [PQ.future, hq] at h1 ⊢
    simpa using h1
  · exact h

theorem PQ.step_inv {total : List (List Byte)} {cap : Nat} {s : PQ} (h : s.Inv total cap) (a : PQAct) :
    (s.step true cap a).Inv total cap := by
  cases a with
  | pump => exact PQ.pumpStep_inv h
  | consume => exact PQ.consumeStep_inv h

theorem PQ.run_inv {total : List (List Byte)} {cap : Nat} (acts : List PQAct) {s : PQ} (h : s.Inv total cap) :
    (PQ.run true cap acts s).Inv total cap := by
  induction acts generalizing s with
  | nil => exact h
  | cons a as ih => exact ih (PQ.step_inv h a)

theorem PQ.run_append (wait : Bool) (cap : Nat) (a b : List PQAct) (s : PQ) :
    PQ.run wait cap (a ++ b) s = PQ.run wait cap b (PQ.run wait cap a s) := by
  induction a generalizing s with
  | nil => rfl
  | cons x xs ih => exact ih _

/-! ### progress -/

/-- work left: every event has to be processed (1 step), every message not yet split off or not yet
enqueued has to be enqueued and dequeued (2 steps), every queued message has to be dequeued (1 step) -/
def PQ.work (s : PQ) : Nat :=
  s.evs.length + 2 * s.todo.length + s.queue.length + 2 * s.future.length

/-- a poll of the pump changes the state -/
def PQ.PumpEnabled (cap : Nat) (s : PQ) : Prop :=
  (s.todo ≠ [] ∧ s.queue.length < cap) ∨ (s.todo = [] ∧ s.evs ≠ [])

def PQ.ConsEnabled (s : PQ) : Prop := s.queue ≠ []

theorem PQ.chanStep_work {s : PQ} (ht : s.todo = []) : s.chanStep.work ≤ s.work ∧ (s.evs ≠ [] → s.chanStep.work < s.work) := by
  unfold PQ.chanStep
  split
  · rename_i he; simp [he]
  · rename_i bs evs he
    simp only [PQ.work, PQ.future, he, pump_data_fst, ht, List.length_cons, List.length_append, List.length_nil]
    omega
  · rename_i evs he
    simp only [PQ.work, PQ.future, he, pump, List.length_cons]
    omega
  · rename_i evs he
    simp only [PQ.work, PQ.future, he, pump, List.length_cons, List.length_nil]
    omega
  · rename_i evs he
    simp only [PQ.work, PQ.future, he, pump, List.length_cons, List.length_nil]
    omega

theorem PQ.pumpStep_work (cap : Nat) (s : PQ) :
    (s.pumpStep true cap).work ≤ s.work ∧ (s.PumpEnabled cap → (s.pumpStep true cap).work < s.work) := by
  unfold PQ.pumpStep
  split
  · rename_i m ms ht
    split
    · simp only [PQ.work, PQ.future, ht, List.length_cons, List.length_append, List.length_nil]
      omega
    · rename_i hq
      refine ⟨Nat.le_refl _, ?_⟩
      rintro (⟨_, h⟩ | ⟨h, _⟩)
      · exact absurd h hq
      · simp [ht] at h
  · rename_i ht
    have := PQ.chanStep_work ht
    refine ⟨this.1, ?_⟩
    rintro (⟨h, _⟩ | ⟨_, h⟩)
    · exact absurd ht h
    · exact this.2 h

theorem PQ.consumeStep_work (s : PQ) :
    s.consumeStep.work ≤ s.work ∧ (s.ConsEnabled → s.consumeStep.work < s.work) := by
  unfold PQ.consumeStep
  split
  · rename_i m q hq
    simp only [PQ.work, PQ.future, hq, List.length_cons]
    omega
  · rename_i hq
    exact ⟨Nat.le_refl _, fun h => absurd hq h⟩

theorem PQ.step_work (cap : Nat) (s : PQ) (a : PQAct) : (s.step true cap a).work ≤ s.work := by
  cases a with
  | pump => exact (PQ.pumpStep_work cap s).1
  | consume => exact (PQ.consumeStep_work s).1

theorem PQ.run_work (cap : Nat) (acts : List PQAct) (s : PQ) : (PQ.run true cap acts s).work ≤ s.work := by
  induction acts generalizing s with
  | nil => exact Nat.le_refl _
  | cons a as ih => exact Nat.le_trans (ih _) (PQ.step_work cap s a)

/-- the consumer never disables the pump -/
theorem PQ.pumpEnabled_consume {cap : Nat} {s : PQ} (h : s.PumpEnabled cap) : s.consumeStep.PumpEnabled cap := by
  unfold PQ.consumeStep
  split
  · rename_i m q hq
    rcases h with ⟨h1, h2⟩ | h
    · left; refine ⟨h1, ?_⟩
      simp only [hq, List.length_cons] at h2 ⊢
      omega
    · right; exact h
  · exact h

/-- the pump never disables the consumer -/
theorem PQ.consEnabled_pump {cap : Nat} {s : PQ} (h : s.ConsEnabled) : (s.pumpStep true cap).ConsEnabled := by
  unfold PQ.pumpStep
  split
  · split
    · simp [PQ.ConsEnabled]
    · exact h
  · unfold PQ.chanStep
    split <;> exact h

/-- unless all work is done, somebody can move (needs `cap ≥ 1`) -/
theorem PQ.enabled_of_work {cap : Nat} (hcap : 1 ≤ cap) {s : PQ} (h : 0 < s.work) :
    s.PumpEnabled cap ∨ s.ConsEnabled := by
  cases hq : s.queue with
  | cons m q => right; simp [PQ.ConsEnabled, hq]
  | nil =>
    left
    unfold PQ.PumpEnabled
    cases ht : s.todo with
    | cons m ms => left; simp [hq]; omega
    | nil =>
      right
      refine ⟨rfl, ?_⟩
      intro he
      simp [PQ.work, PQ.future, hq, ht, he, pump] at h

theorem PQ.run_work_pump {cap : Nat} (r : List PQAct) {s : PQ} (he : s.PumpEnabled cap) (hr : PQAct.pump ∈ r) :
    (PQ.run true cap r s).work < s.work := by
  induction r generalizing s with
  | nil => simp at hr
  | cons a as ih =>
    cases a with
    | pump => exact Nat.lt_of_le_of_lt (PQ.run_work cap as _) ((PQ.pumpStep_work cap s).2 he)
    | consume =>
      have hr' : PQAct.pump ∈ as := by simpa using hr
      exact Nat.lt_of_lt_of_le (ih (PQ.pumpEnabled_consume he) hr') (PQ.consumeStep_work s).1

theorem PQ.run_work_cons {cap : Nat} (r : List PQAct) {s : PQ} (he : s.ConsEnabled) (hr : PQAct.consume ∈ r) :
    (PQ.run true cap r s).work < s.work := by
  induction r generalizing s with
  | nil => simp at hr
  | cons a as ih =>
    cases a with
    | consume => exact Nat.lt_of_le_of_lt (PQ.run_work cap as _) ((PQ.consumeStep_work s).2 he)
    | pump =>
      have hr' : PQAct.consume ∈ as := by simpa using hr
      exact Nat.lt_of_lt_of_le (ih (PQ.consEnabled_pump he) hr') (PQ.pumpStep_work cap s).1

/-- a round (a stretch of the schedule in which both parties are polled at least once) does at least one
unit of work -/
theorem PQ.round_work {cap : Nat} (hcap : 1 ≤ cap) (r : List PQAct) (s : PQ)
    (hp : PQAct.pump ∈ r) (hc : PQAct.consume ∈ r) : (PQ.run true cap r s).work ≤ s.work - 1 := by
  by_cases h0 : 0 < s.work
  · rcases PQ.enabled_of_work hcap h0 with he | he
    · have := PQ.run_work_pump r he hp; omega
    · have := PQ.run_work_cons (cap := cap) r he hc; omega
  · have := PQ.run_work cap r s; omega

theorem PQ.rounds_work {cap : Nat} (hcap : 1 ≤ cap) (rounds : List (List PQAct)) (s : PQ)
    (hf : ∀ r ∈ rounds, PQAct.pump ∈ r ∧ PQAct.consume ∈ r) :
    (PQ.run true cap rounds.flatten s).work ≤ s.work - rounds.length := by
  induction rounds generalizing s with
  | nil => simp [PQ.run]
  | cons r rs ih =>
    rw [List.flatten_cons, PQ.run_append]
    have h1 := PQ.round_work hcap r s (hf r (by simp)).1 (hf r (by simp)).2
    have h2 := ih (PQ.run true cap r s) (fun x hx => hf x (by simp [hx]))
    simp only [List.length_cons]
    omega

theorem PQ.done_of_work_zero {s : PQ} (h : s.work = 0) : s.evs = [] ∧ s.todo = [] ∧ s.queue = [] ∧ s.future = [] := by
  simp only [PQ.work] at h
  refine ⟨?_, ?_, ?_, ?_⟩ <;> apply List.eq_nil_of_length_eq_zero <;> omega

theorem PQ.work_le_of_inv {total : List (List Byte)} {cap : Nat} {s : PQ} (h : s.Inv total cap) :
    s.work ≤ s.evs.length + 2 * (total.length - s.delivered.length) := by
  have := congrArg List.length h.1
  simp only [List.length_append] at this
  simp only [PQ.work]
  omega

theorem roundRobin_eq (n : Nat) : roundRobin n = (List.replicate n [PQAct.pump, PQAct.consume]).flatten := by
  induction n with
  | zero => rfl
  | succ n ih => simp [roundRobin, List.replicate_succ, ih]

theorem roundRobin_length (n : Nat) : (roundRobin n).length = 2 * n := by
  induction n with
  | zero => rfl
  | succ n ih => simp [roundRobin, ih]; omega

/-! ### final status -/

/-- `T` is the final status of the unbounded pump -/
def PQ.StInv (T : PumpEnd) (s : PQ) : Prop :=
  (s.st = .running ∧ (pump .fixed s.evs s.buf).2.2 = T) ∨ (s.st = .exited ∧ T = .exited ∧ s.evs = [])

theorem pump_data_st (bs : List Byte) (evs : List ChanEv) (buf : List Byte) :
    (pump .fixed (.data bs :: evs) buf).2.2 = (pump .fixed evs (pumpData .fixed buf bs).2).2.2 := by
  simp [pump]

theorem PQ.init_stInv (evs : List ChanEv) : (PQ.init evs).StInv (pump .fixed evs []).2.2 := by
  left; exact ⟨rfl, rfl⟩

theorem PQ.chanStep_stInv {T : PumpEnd} {s : PQ} (h : s.StInv T) : s.chanStep.StInv T := by
  unfold PQ.chanStep
  split
  · exact h
  · rename_i bs evs he
    rcases h with ⟨h1, h2⟩ | ⟨_, _, h3⟩
    · left; refine ⟨h1, ?_⟩
      simp only [he, pump_data_st] at h2 ⊢
      exact h2
    · simp [he] at h3
  · rename_i evs he
    rcases h with ⟨h1, h2⟩ | ⟨_, _, h3⟩
    · left; refine ⟨h1, ?_⟩
      simp only [he, pump] at h2 ⊢
      exact h2
    · simp [he] at h3
  · rename_i evs he
    rcases h with ⟨h1, h2⟩ | ⟨_, _, h3⟩
    · right; refine ⟨rfl, ?_, rfl⟩
      simp only [he, pump] at h2
      exact h2.symm
    · simp [he] at h3
  · rename_i evs he
    rcases h with ⟨h1, h2⟩ | ⟨_, _, h3⟩
    · right; refine ⟨rfl, ?_, rfl⟩
      simp only [he, pump, PumpCfg.fixed] at h2
      simpa using h2.symm
    · simp [he] at h3

theorem PQ.step_stInv {T : PumpEnd} {cap : Nat} {s : PQ} (h : s.StInv T) (a : PQAct) : (s.step true cap a).StInv T := by
  cases a with
  | pump =>
    simp only [PQ.step, PQ.pumpStep]
    split
    · split
      · exact h
      · exact h
    · exact PQ.chanStep_stInv h
  | consume =>
    simp only [PQ.step, PQ.consumeStep]
    split <;> exact h

theorem PQ.run_stInv {T : PumpEnd} {cap : Nat} (acts : List PQAct) {s : PQ} (h : s.StInv T) :
    (PQ.run true cap acts s).StInv T := by
  induction acts generalizing s with
  | nil => exact h
  | cons a as ih => exact ih (PQ.step_stInv h a)

theorem PQ.st_of_done {T : PumpEnd} {s : PQ} (h : s.StInv T) (he : s.evs = []) : s.st = T := by
  rcases h with ⟨h1, h2⟩ | ⟨h1, h2, _⟩
  · rw [h1, ← h2, he]; rfl
  · rw [h1, h2]

/-- data packets, then end of channel: the unbounded pump enqueues the split of the data before the end -/
theorem pump_data_then_end (cs : List (List Byte)) (e : ChanEv) (post : List ChanEv) (buf : List Byte)
    (hbuf : find marker buf = none) (he : e = .eof ∨ e = .closed) :
    (pump .fixed (cs.map .data ++ e :: post) buf).1 = (split (buf ++ cs.flatten)).1 ∧
    (pump .fixed (cs.map .data ++ e :: post) buf).2.2 = .exited := by
  induction cs generalizing buf with
  | nil =>
    rcases he with rfl | rfl <;> simp [pump, split_none _ hbuf, PumpCfg.fixed]
  | cons c cs ih =>
    have h1 : pumpData .fixed buf c = split (buf ++ c) := by simp [pumpData, PumpCfg.fixed]
    have := ih (split (buf ++ c)).2 (split_residue (buf ++ c))
    simp only [List.map_cons, List.cons_append, pump_data_fst, pump_data_st, h1, List.flatten_cons]
    rw [this.1, this.2, ← List.append_assoc, split_append (buf ++ c) cs.flatten]
    exact ⟨rfl, rfl⟩

/-! ### the variant that does not wait: once nothing is pending and no event comes, nothing moves -/

theorem PQ.stuck_step (wait : Bool) (cap : Nat) (s : PQ) (a : PQAct) (he : s.evs = []) (ht : s.todo = []) :
    (s.step wait cap a).evs = [] ∧ (s.step wait cap a).todo = [] ∧ (s.step wait cap a).buf = s.buf ∧
    (s.step wait cap a).delivered ++ (s.step wait cap a).queue = s.delivered ++ s.queue := by
  cases a with
  | pump => simp [PQ.step, PQ.pumpStep, PQ.chanStep, he, ht]
  | consume =>
    simp only [PQ.step, PQ.consumeStep]
    split
    · rename_i m q hq; simp [he, ht, hq]
    · simp [he, ht]

theorem PQ.stuck_run (wait : Bool) (cap : Nat) (acts : List PQAct) (s : PQ) (he : s.evs = []) (ht : s.todo = []) :
    (PQ.run wait cap acts s).buf = s.buf ∧
    (PQ.run wait cap acts s).delivered ++ (PQ.run wait cap acts s).queue = s.delivered ++ s.queue := by
  induction acts generalizing s with
  | nil => exact ⟨rfl, rfl⟩
  | cons a as ih =>
    obtain ⟨h1, h2, h3, h4⟩ := PQ.stuck_step wait cap s a he ht
    have := ih (s.step wait cap a) h1 h2
    exact ⟨this.1.trans h3, this.2.trans h4⟩

end Framing
