import Bgpfu.Spec.HelloGrammar
import Bgpfu.Lemmas.Readers
/-! The hello reader loops refine the child-level semantics (C12). -/
namespace Xml

def liftP {α} (r : Except Err α) (rest : List Ev) : Except Err (α × List Ev) :=
  match r with
  | .ok b => .ok (b, rest)
  | .error e => .error e

theorem capsLoop_refines (c : RCfg) (o : UriOracle) (cs : List CapLeaf) (hwf : ∀ x ∈ cs, x.WF)
    (fuel : Nat) (raw : String) (acc : List Capability) (rest : List Ev)
    (hf : (cs.flatMap CapLeaf.render).length + 1 ≤ fuel) :
    capsLoop c o fuel raw acc (cs.flatMap CapLeaf.render ++ .end raw :: rest) = liftP (capsAbs c o acc cs) rest := by
  induction cs generalizing fuel acc with
  | nil =>
    obtain ⟨f, rfl⟩ : ∃ f, fuel = f + 1 := ⟨fuel - 1, by omega⟩
    simp [capsLoop, capsAbs, liftP]
  | cons x cs ih =>
    obtain ⟨f, rfl⟩ : ∃ f, fuel = f + 1 := ⟨fuel - 1, by omega⟩
    have hwf' : ∀ x ∈ cs, x.WF := fun y hy => hwf y (by simp [hy])
    simp only [List.flatMap_cons, List.append_assoc, List.length_append] at hf ⊢
    cases x with
    | comment =>
      simp only [CapLeaf.render, List.cons_append, List.nil_append, capsLoop, capsAbs]
      by_cases hc : c.capsComment = true
      · simp only [hc, if_true]
        exact ih hwf' f _ (by simp only [CapLeaf.render, List.length_cons, List.length_nil] at hf; omega)
      · simp [hc, liftP]
    | cap span inner =>
      have hi : Inert "capability" inner := hwf (.cap span inner) (by simp)
      simp only [CapLeaf.render, leaf_append, capsLoop, capsAbs, baseTag_is, beq_self_eq_true, if_true,
        readText_leaf _ _ _ _ hi]
      cases hp : parseCapability o (c.tok span) with
      | error e => simp [liftP]
      | ok v =>
        simp only []
        exact ih hwf' f _ (by simp only [CapLeaf.render, leaf_length] at hf; omega)

theorem helloLoop_refines (c : RCfg) (o : UriOracle) (cs : List HChild) (hwf : ∀ x ∈ cs, x.WF)
    (fuel : Nat) (raw : String) (caps : Option (List Capability)) (sid : Option Nat) (rest : List Ev)
    (hf : (cs.flatMap HChild.render).length + 1 ≤ fuel) :
    helloLoop c o fuel raw caps sid (cs.flatMap HChild.render ++ .end raw :: rest)
      = liftP (helloAbs c o caps sid cs) rest := by
  induction cs generalizing fuel caps sid with
  | nil =>
    obtain ⟨f, rfl⟩ : ∃ f, fuel = f + 1 := ⟨fuel - 1, by omega⟩
    simp only [List.flatMap_nil, List.nil_append, helloLoop, beq_self_eq_true, if_true, helloAbs]
    cases caps <;> cases sid <;> simp [liftP]
  | cons x cs ih =>
    obtain ⟨f, rfl⟩ : ∃ f, fuel = f + 1 := ⟨fuel - 1, by omega⟩
    have hwf' : ∀ x ∈ cs, x.WF := fun y hy => hwf y (by simp [hy])
    simp only [List.flatMap_cons, List.append_assoc, List.length_append] at hf ⊢
    cases x with
    | comment =>
      simp only [HChild.render, List.cons_append, List.nil_append, helloLoop, helloAbs]
      exact ih hwf' f caps sid (by simp only [HChild.render, List.length_cons, List.length_nil] at hf; omega)
    | sid s inner =>
      have hi : Inert "session-id" inner := hwf (.sid s inner) (by simp)
      simp only [HChild.render, leaf_append, helloLoop, helloAbs, baseTag_is]
      have h1 : ("session-id" == "capabilities") = false := by decide
      simp only [h1, Bool.false_and, Bool.false_eq_true, if_false, beq_self_eq_true, Bool.true_and]
      cases sid with
      | some n => simp [liftP]
      | none =>
        simp only [Option.isNone_none, if_true, readText_leaf _ _ _ _ hi]
        cases hp : parseSessionId (c.tok s) with
        | none => simp [liftP]
        | some n =>
          simp only []
          exact ih hwf' f caps (some n) (by simp only [HChild.render, leaf_length] at hf; omega)
    | caps r ccs =>
      have hwc : ∀ y ∈ ccs, y.WF := hwf (.caps r ccs) (by simp)
      simp only [HChild.render, List.cons_append, List.append_assoc, List.length_cons, List.length_append,
        List.length_nil] at hf ⊢
      rw [helloLoop, helloAbs]
      have ht : ({ ns := Ns.bound BASE, lname := "capabilities", raw := r, attrs := [], span := none } : Tag).is BASE "capabilities" = true := by
        simp [Tag.is]
      simp only [ht, Bool.true_and]
      cases caps with
      | some v => simp [Tag.is, liftP]
      | none =>
        simp only [Option.isNone_none, if_true, List.nil_append]
        rw [capsLoop_refines c o ccs hwc f r [] _ (by omega)]
        cases hres : capsAbs c o [] ccs with
        | error e => simp [liftP]
        | ok v =>
          simp only [liftP]
          exact ih hwf' f (some v) sid (by omega)

def helloTag (raw : String) (attrs : List AttrItem) : Tag :=
  { ns := .bound BASE, lname := "hello", raw := raw, attrs := attrs, span := none }

theorem helloDoc_eq (raw : String) (attrs : List AttrItem) (cs : List HChild) :
    helloDoc raw attrs cs = .start (helloTag raw attrs) :: (cs.flatMap HChild.render ++ .end raw :: [.eof]) := by
  simp [helloDoc, helloTag]

/-- **Refinement for session establishment** on every document of the hello grammar. -/
theorem establish_doc (c : RCfg) (adv : Bool) (o : UriOracle) (raw : String) (attrs : List AttrItem)
    (cs : List HChild) (hwf : ∀ x ∈ cs, x.WF) :
    establish c adv o (helloDoc raw attrs cs) = establishAbs c adv o cs := by
  unfold establish establishAbs
  rw [helloDoc_eq]
  simp only [List.length_cons, List.length_append, List.length_nil]
  rw [fromXmlHello]
  have ht : (helloTag raw attrs).is BASE "hello" = true := by simp [Tag.is, helloTag]
  simp only [ht, if_true]
  have hraw : (helloTag raw attrs).raw = raw := rfl
  rw [hraw, helloLoop_refines c o cs hwf _ raw none none [.eof] (by omega)]
  cases helloAbs c o none none cs with
  | error e => simp [liftP]
  | ok h => simp only [liftP, fromXmlHello]; cases highestCommon (clientAdvertised adv) h.caps <;> rfl

end Xml
