import Bgpfu.Spec.HelloGrammar
import Bgpfu.Lemmas.Readers
import Bgpfu.Lemmas.CapsExact
/-! The hello reader loops refine the child-level semantics (C12). -/
namespace Xml

def liftP {α} (r : Except Err α) (rest : List Ev) : Except Err (α × List Ev) :=
  match r with
  | .ok b => .ok (b, rest)
  | .error e => .error e

theorem capsLoop_refines (c : RCfg) (o : UriOracle) (cs : List CapLeaf) (hwf : ∀ x ∈ cs, x.WF)
    (fuel : Nat) (raw : String) (acc : List Capability) (rest : List Ev)
    (hf : (cs.flatMap CapLeaf.render).length + 1 ≤ fuel) :
    capsLoop c o fuel raw acc (cs.flatMap CapLeaf.render ++ .end raw :: rest) = liftP (capsAbs c o acc cs) rest := by
  induction cs generalizing fuel acc with
  | nil =>
    obtain ⟨f, rfl⟩ : ∃ f, fuel = f + 1 := ⟨fuel - 1, by omega⟩
    simp [capsLoop, capsAbs, liftP]
  | cons x cs ih =>
    obtain ⟨f, rfl⟩ : ∃ f, fuel = f + 1 := ⟨fuel - 1, by omega⟩
    have hwf' : ∀ x ∈ cs, x.WF := fun y hy => hwf y (by simp [hy])
    simp only [List.flatMap_cons, List.append_assoc, List.length_append] at hf ⊢
    cases x with
    | comment =>
      simp only [CapLeaf.render, List.cons_append, List.nil_append, capsLoop, capsAbs]
      by_cases hc : c.capsComment = true
      · simp only [hc, if_true]
        exact ih hwf' f _ (by simp only [CapLeaf.render, List.length_cons, List.length_nil] at hf; omega)
      · simp [hc, liftP]
    | cap span inner =>
      have hi : Inert "capability" inner := hwf (.cap span inner) (by simp)
      simp only [CapLeaf.render, leaf_append, capsLoop, capsAbs, baseTag_is, beq_self_eq_true, if_true,
        readText_leaf _ _ _ _ hi]
      cases hp : parseCapability o (c.tok span) with
      | error e => simp [liftP]
      | ok v =>
        simp only []
        exact ih hwf' f _ (by simp only [CapLeaf.render, leaf_length] at hf; omega)

theorem helloLoop_refines (c : RCfg) (o : UriOracle) (cs : List HChild) (hwf : ∀ x ∈ cs, x.WF)
    (fuel : Nat) (raw : String) (caps : Option (List Capability)) (sid : Option Nat) (rest : List Ev)
    (hf : (cs.flatMap HChild.render).length + 1 ≤ fuel) :
    helloLoop c o fuel raw caps sid (cs.flatMap HChild.render ++ .end raw :: rest)
      = liftP (helloAbs c o caps sid cs) rest := by
  induction cs generalizing fuel caps sid with
  | nil =>
    obtain ⟨f, rfl⟩ : ∃ f, fuel = f + 1 := ⟨fuel - 1, by omega⟩
    simp only [List.flatMap_nil, List.nil_append, helloLoop, beq_self_eq_true, if_true, helloAbs]
    cases caps <;> cases sid <;> simp [liftP]
  | cons x cs ih =>
    obtain ⟨f, rfl⟩ : ∃ f, fuel = f + 1 := ⟨fuel - 1, by omega⟩
    have hwf' : ∀ x ∈ cs, x.WF := fun y hy => hwf y (by simp [hy])
    simp only [List.flatMap_cons, List.append_assoc, List.length_append] at hf ⊢
    cases x with
    | comment =>
      simp only [HChild.render, List.cons_append, List.nil_append, helloLoop, helloAbs]
      exact ih hwf' f caps sid (by simp only [HChild.render, List.length_cons, List.length_nil] at hf; omega)
    | sid s inner =>
      have hi : Inert "session-id" inner := hwf (.sid s inner) (by simp)
      simp only [HChild.render, leaf_append, helloLoop, helloAbs, baseTag_is]
      have h1 : ("session-id" == "capabilities") = false := by decide
      simp only [h1, Bool.false_and, Bool.false_eq_true, if_false, beq_self_eq_true, Bool.true_and]
      cases sid with
      | some n => simp [liftP]
      | none =>
        simp only [Option.isNone_none, if_true, readText_leaf _ _ _ _ hi]
        cases hp : parseSessionId (c.tok s) with
        | none => simp [liftP]
        | some n =>
          simp only []
          exact ih hwf' f caps (some n) (by simp only [HChild.render, leaf_length] at hf; omega)
    | caps r ccs =>
      have hwc : ∀ y ∈ ccs, y.WF := hwf (.caps r ccs) (by simp)
      simp only [HChild.render, List.cons_append, List.append_assoc, List.length_cons, List.length_append,
        List.length_nil] at hf ⊢
      rw [helloLoop, helloAbs]
      have ht : ({ ns := Ns.bound BASE, lname := "capabilities", raw := r, attrs := [], span := none } : Tag).is BASE "capabilities" = true := by
        simp [Tag.is]
      simp only [ht, Bool.true_and]
      cases caps with
      | some v => simp [Tag.is, liftP]
      | none =>
        simp only [Option.isNone_none, if_true, List.nil_append]
        rw [capsLoop_refines c o ccs hwc f r [] _ (by omega)]
        cases hres : capsAbs c o [] ccs with
        | error e => simp [liftP]
        | ok v =>
          simp only [liftP]
          exact ih hwf' f (some v) sid (by omega)

def helloTag (raw : String) (attrs : List AttrItem) : Tag :=
  { ns := .bound BASE, lname := "hello", raw := raw, attrs := attrs, span := none }

theorem helloDoc_eq (raw : String) (attrs : List AttrItem) (cs : List HChild) :
    helloDoc raw attrs cs = .start (helloTag raw attrs) :: (cs.flatMap HChild.render ++ .end raw :: [.eof]) := by
  simp [helloDoc, helloTag]

/-- **Refinement for session establishment** on every document of the hello grammar. -/
theorem establish_doc (c : RCfg) (adv : Bool) (o : UriOracle) (raw : String) (attrs : List AttrItem)
    (cs : List HChild) (hwf : ∀ x ∈ cs, x.WF) :
    establish c adv o (helloDoc raw attrs cs) = establishAbs c adv o cs := by
  unfold establish establishAbs
  rw [helloDoc_eq]
  simp only [List.length_cons, List.length_append, List.length_nil]
  rw [fromXmlHello]
  have ht : (helloTag raw attrs).is BASE "hello" = true := by simp [Tag.is, helloTag]
  simp only [ht, Option.isSome_none, Bool.and_false, Bool.not_false, Bool.and_true, if_true]
  have hraw : (helloTag raw attrs).raw = raw := rfl
  rw [hraw, helloLoop_refines c o cs hwf _ raw none none [.eof] (by omega)]
  cases helloAbs c o none none cs with
  | error e => simp [liftP]
  | ok h => simp only [liftP, fromXmlHello]; cases highestCommon (clientAdvertised adv) h.caps <;> rfl

end Xml

/-! ## where the capabilities of an accepted hello come from; the text helpers of the two models agree -/
namespace Xml

/-- the capabilities a `<capabilities>` element yields are exactly the parsed texts of its leaves -/
theorem capsAbs_mem_iff (c : RCfg) (o : UriOracle) (acc : List Capability) (ccs : List CapLeaf)
    (caps : List Capability) (h : capsAbs c o acc ccs = .ok caps) (k : Capability) :
    k ∈ caps ↔ k ∈ acc ∨ ∃ span inner, CapLeaf.cap span inner ∈ ccs ∧ parseCapability o (c.tok span) = .ok k := by
  induction ccs generalizing acc with
  | nil => simp only [capsAbs, Except.ok.injEq] at h; subst h; simp
  | cons x xs ih =>
    cases x with
    | comment =>
      simp only [capsAbs] at h
      split at h
      · rw [ih acc h]; simp
      · cases h
    | cap span inner =>
      simp only [capsAbs] at h
      split at h
      · next v hv =>
        rw [ih _ h]
        simp only [List.mem_append, List.mem_cons, CapLeaf.cap.injEq, List.not_mem_nil, or_false]
        constructor
        · rintro ((hk | rfl) | ⟨sp, inn, hm, hp⟩)
          · exact .inl hk
          · exact .inr ⟨span, inner, .inl ⟨rfl, rfl⟩, hv⟩
          · exact .inr ⟨sp, inn, .inr hm, hp⟩
        · rintro (hk | ⟨sp, inn, (⟨rfl, rfl⟩ | hm), hp⟩)
          · exact .inl (.inl hk)
          · rw [hv] at hp; cases hp; exact .inl (.inr rfl)
          · exact .inr ⟨sp, inn, hm, hp⟩
      · cases h

/-- the capability list of an accepted hello is that of one of its `<capabilities>` children -/
theorem helloAbs_caps (c : RCfg) (o : UriOracle) (caps : Option (List Capability)) (sid : Option Nat)
    (cs : List HChild) (h : Hello) (hh : helloAbs c o caps sid cs = .ok h) :
    caps = some h.caps ∨ ∃ r ccs, HChild.caps r ccs ∈ cs ∧ capsAbs c o [] ccs = .ok h.caps := by
  induction cs generalizing caps sid with
  | nil =>
    simp only [helloAbs] at hh
    split at hh
    · cases hh; exact .inl rfl
    · cases hh
  | cons x xs ih =>
    cases x with
    | comment =>
      simp only [helloAbs] at hh
      rcases ih _ _ hh with h1 | ⟨r, ccs, hm, hc⟩
      · exact .inl h1
      · exact .inr ⟨r, ccs, by simp [hm], hc⟩
    | caps r ccs =>
      simp only [helloAbs] at hh
      split at hh
      · split at hh
        · next v hv =>
          rcases ih _ _ hh with h1 | ⟨r', ccs', hm, hc⟩
          · cases h1; exact .inr ⟨r, ccs, by simp, hv⟩
          · exact .inr ⟨r', ccs', by simp [hm], hc⟩
        · cases hh
      · cases hh
    | sid s i =>
      simp only [helloAbs] at hh
      split at hh
      · split at hh
        · rcases ih _ _ hh with h1 | ⟨r, ccs, hm, hc⟩
          · exact .inl h1
          · exact .inr ⟨r, ccs, by simp [hm], hc⟩
        · cases hh
      · cases hh

theorem splitOnChar_eq (c : Char) (l : List Char) : splitOnChar c l = Caps.splitOn c l := by
  induction l with
  | nil => rfl
  | cons x xs ih =>
    simp only [splitOnChar, Caps.splitOn, ih, beq_iff_eq]
    split
    · rfl
    · cases Caps.splitOn c xs <;> rfl

theorem splitOnce_eq (c : Char) (l : List Char) : splitOnce c l = Caps.splitOnce c l := by
  induction l with
  | nil => rfl
  | cons x xs ih => simp only [splitOnce, Caps.splitOnce, ih, beq_iff_eq]

/-- the `:url:1.0` scheme lists of the two models (`String` here, `List Char` in `Caps`) agree -/
theorem urlSchemes_eq (q : String) : urlSchemes q = (Caps.urlSchemes q.toList).map String.ofList := by
  unfold urlSchemes Caps.urlSchemes
  rw [List.map_flatMap, splitOnChar_eq]
  congr 1
  funext pair
  rw [splitOnce_eq]
  cases Caps.splitOnce '=' pair with
  | none => rfl
  | some kv =>
    obtain ⟨k, v⟩ := kv
    simp only [splitOnChar_eq, beq_iff_eq]
    split <;> rfl

end Xml

namespace Xml

/-- the five components are exactly these: in particular **no** query and **no** fragment — a
present but empty one (`some ""`, as in `…base:1.0#` or `…base:1.0?`) does not qualify.
(`queryUnesc` is an annotation of the query and plays no part.) -/
def UriParts.Is (u : UriParts) (scheme : String) (authority : Option String) (path : String) : Prop :=
  u.scheme = scheme ∧ u.authority = authority ∧ u.path = path ∧ u.query = none ∧ u.fragment = none

instance (u : UriParts) (s : String) (a : Option String) (pa : String) : Decidable (u.Is s a pa) := by
  unfold UriParts.Is; infer_instance

set_option hygiene false in
/-- proves `classifyCapability s u = <exact capability> ↔ u.Is …` by walking down the `if` chain -/
macro "xml_exact" : tactic => `(tactic| (
  constructor
  · intro h
    unfold classifyCapability at h
    dsimp only at h
    unfold UriParts.Is
    repeat' (replace h := Caps.ite_cases h; rcases h with ⟨hc, h⟩ | ⟨_, h⟩)
    all_goals first | (cases h; done) | skip
    all_goals (
      simp only [Bool.and_eq_true, beq_iff_eq, Option.isNone_iff_eq_none] at hc
      simp only [hc, and_self])
  · rintro ⟨h1, h2, h3, h4, h5⟩
    obtain ⟨sc, au, pa, qu, fr, qe⟩ := u
    simp only at h1 h2 h3 h4 h5
    subst h1 h2 h3 h4 h5
    unfold classifyCapability
    dsimp only
    repeat (first | rw [if_neg (by decide)] | rw [if_pos (by decide)])))

end Xml
