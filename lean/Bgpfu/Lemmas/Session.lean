import Bgpfu.Model.Session
/-! Helper lemmas and the inductive invariant of the session model (C05, C07, C14, C18). Core Lean only. -/
namespace Session

/-! ## lookups in the future list and in the request map -/

def findFut (l : List Fut) (g : Fid) : Option Fut := l.find? (·.fid == g)
def findSlot (l : List (Nat × Slot)) (id : Nat) : Option Slot := (l.find? (·.1 == id)).map (·.2)

theorem St.fut_eq (s : St) (g : Fid) : s.fut g = findFut s.futs g := rfl
theorem St.slot_eq (s : St) (id : Nat) : s.slot id = findSlot s.slots id := rfl

def Fut.isLive (f : Fut) : Bool := match f.pc with | .done _ => false | .dropped => false | _ => true

theorem St.live_eq (s : St) : s.live = s.futs.filter Fut.isLive := rfl

theorem findFut_fid {l : List Fut} {g : Fid} {fu : Fut} (h : findFut l g = some fu) : fu.fid = g := by
  have := List.find?_some h
  simpa using this

theorem findFut_mem {l : List Fut} {g : Fid} {fu : Fut} (h : findFut l g = some fu) : fu ∈ l :=
  List.mem_of_find?_eq_some h

theorem findFut_of_mem {l : List Fut} {fu : Fut} (hn : (l.map (·.fid)).Nodup) (h : fu ∈ l) :
    findFut l fu.fid = some fu := by
  induction l with
  | nil => cases h
  | cons x xs ih =>
    simp only [List.map_cons, List.nodup_cons, List.mem_map, not_exists, not_and] at hn
    simp only [findFut, List.find?_cons]
    by_cases hx : x = fu
    · subst hx; simp
    · have hm : fu ∈ xs := by
        cases h with
        | head => exact absurd rfl hx
        | tail _ h => exact h
      have : (x.fid == fu.fid) = false := by
        simp only [beq_eq_false_iff_ne, ne_eq]
        intro he; exact hn.1 fu hm he.symm
      simp only [this]
      exact ih hn.2 hm

theorem findFut_none_of_lt {l : List Fut} {n : Nat} (h : ∀ fu ∈ l, fu.fid < n) : findFut l n = none := by
  simp only [findFut, List.find?_eq_none, beq_iff_eq]
  intro x hx he
  have := h x hx
  rw [he] at this
  exact Nat.lt_irrefl _ this

theorem findFut_setPc (f : Fid) (pc : Pc) (l : List Fut) (g : Fid) :
    findFut (setPc f pc l) g = if g = f then (findFut l f).map (fun x => { x with pc := pc }) else findFut l g := by
  induction l with
  | nil => simp [setPc, findFut]
  | cons x xs ih =>
    simp only [setPc]
    by_cases hx : x.fid = f
    · simp only [hx, beq_self_eq_true, if_true, findFut, List.find?_cons]
      by_cases hg : g = f
      · simp [hg, hx]
      · have : (f == g) = false := by simp; exact fun h => hg h.symm
        simp [hg, this]
    · have hxf : (x.fid == f) = false := by simpa using hx
      simp only [hxf, Bool.false_eq_true, if_false]
      simp only [findFut, List.find?_cons] at ih ⊢
      by_cases hg : g = f
      · subst hg
        simp only [hxf, if_true] at ih ⊢
        exact ih
      · simp only [hg, if_false] at ih ⊢
        split
        · rfl
        · exact ih

theorem findFut_setPc_some (f : Fid) (pc : Pc) (l : List Fut) (g : Fid) (fu : Fut) :
    findFut (setPc f pc l) g = some fu ↔
      ((g = f ∧ ∃ a, findFut l f = some a ∧ fu = { a with pc := pc }) ∨ (g ≠ f ∧ findFut l g = some fu)) := by
  rw [findFut_setPc]
  by_cases hg : g = f
  · simp only [hg, if_true, Option.map_eq_some_iff, true_and, ne_eq, not_true_eq_false, false_and, or_false]
    constructor
    · rintro ⟨a, h1, h2⟩; exact ⟨a, h1, h2.symm⟩
    · rintro ⟨a, h1, h2⟩; exact ⟨a, h1, h2.symm⟩
  · simp [hg]

theorem map_fid_setPc (f : Fid) (pc : Pc) (l : List Fut) : (setPc f pc l).map (·.fid) = l.map (·.fid) := by
  induction l with
  | nil => rfl
  | cons x xs ih =>
    simp only [setPc]
    split <;> simp [ih]

theorem map_id_setPc (f : Fid) (pc : Pc) (l : List Fut) : (setPc f pc l).map (·.id) = l.map (·.id) := by
  induction l with
  | nil => rfl
  | cons x xs ih =>
    simp only [setPc]
    split <;> simp [ih]

theorem mem_setPc {f : Fid} {pc : Pc} {l : List Fut} {x : Fut} (h : x ∈ setPc f pc l) :
    x ∈ l ∨ ∃ y ∈ l, y.fid = f ∧ x = { y with pc := pc } := by
  induction l with
  | nil => simp [setPc] at h
  | cons a as ih =>
    simp only [setPc] at h
    split at h
    · rename_i ha
      simp only [List.mem_cons] at h
      rcases h with h | h
      · exact .inr ⟨a, by simp, by simpa using ha, h⟩
      · exact .inl (by simp [h])
    · simp only [List.mem_cons] at h
      rcases h with h | h
      · exact .inl (by simp [h])
      · rcases ih h with h | ⟨y, hy, h1, h2⟩
        · exact .inl (by simp [h])
        · exact .inr ⟨y, by simp [hy], h1, h2⟩

theorem findFut_append (l : List Fut) (x : Fut) (g : Fid) :
    findFut (l ++ [x]) g = (findFut l g).or (if x.fid = g then some x else none) := by
  simp only [findFut, List.find?_append, List.find?_cons, List.find?_nil]
  by_cases h : x.fid = g
  · simp [h]
  · have : (x.fid == g) = false := by simpa using h
    simp [h, this]

theorem findFut_append_some (l : List Fut) (x : Fut) (g : Fid) (fu : Fut) :
    findFut (l ++ [x]) g = some fu ↔ (findFut l g = some fu ∨ (findFut l g = none ∧ x.fid = g ∧ fu = x)) := by
  rw [findFut_append]
  cases findFut l g with
  | none => by_cases h : x.fid = g <;> simp [h, eq_comm]
  | some a => simp

theorem findFut_id_mem {l : List Fut} {g : Fid} {fu : Fut} (h : findFut l g = some fu) : fu.id ∈ l.map (·.id) :=
  List.mem_map.mpr ⟨fu, findFut_mem h, rfl⟩

theorem findFut_fid_mem {l : List Fut} {g : Fid} {fu : Fut} (h : findFut l g = some fu) : g ∈ l.map (·.fid) :=
  List.mem_map.mpr ⟨fu, findFut_mem h, findFut_fid h⟩

theorem findSlot_setSlot (id : Nat) (v : Slot) (l : List (Nat × Slot)) (j : Nat) :
    findSlot (setSlot id v l) j = if j = id then (findSlot l id).map (fun _ => v) else findSlot l j := by
  induction l with
  | nil => simp [setSlot, findSlot]
  | cons x xs ih =>
    obtain ⟨k, x⟩ := x
    simp only [setSlot]
    by_cases hk : k = id
    · simp only [hk, beq_self_eq_true, if_true, findSlot, List.find?_cons]
      by_cases hj : j = id
      · simp [hj]
      · have : (id == j) = false := by simp; exact fun h => hj h.symm
        simp [hj, this]
    · have hkf : (k == id) = false := by simpa using hk
      simp only [hkf, Bool.false_eq_true, if_false]
      simp only [findSlot, List.find?_cons] at ih ⊢
      by_cases hj : j = id
      · subst hj
        simp only [hkf, if_true] at ih ⊢
        exact ih
      · simp only [hj, if_false] at ih ⊢
        split
        · rfl
        · exact ih

theorem findSlot_setSlot_some (id : Nat) (v : Slot) (l : List (Nat × Slot)) (j : Nat) (x : Slot) :
    findSlot (setSlot id v l) j = some x ↔
      ((j = id ∧ x = v ∧ ∃ y, findSlot l id = some y) ∨ (j ≠ id ∧ findSlot l j = some x)) := by
  rw [findSlot_setSlot]
  by_cases hj : j = id
  · simp only [hj, if_true, Option.map_eq_some_iff, true_and, ne_eq, not_true_eq_false, false_and, or_false]
    constructor
    · rintro ⟨a, h1, h2⟩; exact ⟨h2.symm, a, h1⟩
    · rintro ⟨h2, a, h1⟩; exact ⟨a, h1, h2.symm⟩
  · simp [hj]

theorem findSlot_removeSlot (id : Nat) (l : List (Nat × Slot)) (j : Nat) :
    findSlot (removeSlot id l) j = if j = id then none else findSlot l j := by
  induction l with
  | nil => simp [removeSlot, findSlot]
  | cons x xs ih =>
    obtain ⟨k, x⟩ := x
    simp only [removeSlot, findSlot] at ih ⊢
    simp only [List.filter_cons]
    by_cases hk : k = id
    · subst hk
      simp only [bne_self_eq_false, Bool.false_eq_true, if_false, List.find?_cons]
      by_cases hj : j = k
      · subst hj; simp at ih ⊢; try exact ih
      · have : (k == j) = false := by simp; exact fun h => hj h.symm
        simp only [this]
        simpa [hj] using ih
    · have : (k != id) = true := by simpa using hk
      simp only [this, if_true, List.find?_cons]
      by_cases hj : j = id
      · subst hj
        have : (k == j) = false := by simpa using hk
        simp only [this]
        (simp at ih ⊢; try exact ih)
      · by_cases hkj : k = j
        · simp [hkj, hj]
        · have : (k == j) = false := by simpa using hkj
          simp only [this]
          simpa [hj] using ih

theorem findSlot_append (l : List (Nat × Slot)) (k : Nat) (v : Slot) (j : Nat) :
    findSlot (l ++ [(k, v)]) j = (findSlot l j).or (if k = j then some v else none) := by
  simp only [findSlot, List.find?_append, List.find?_cons, List.find?_nil]
  by_cases h : k = j
  · simp [h]; cases List.find? (fun x => x.1 == j) l <;> simp
  · have : (k == j) = false := by simpa using h
    simp [h, this]

theorem findSlot_append_some (l : List (Nat × Slot)) (k : Nat) (v : Slot) (j : Nat) (x : Slot) :
    findSlot (l ++ [(k, v)]) j = some x ↔ (findSlot l j = some x ∨ (findSlot l j = none ∧ k = j ∧ x = v)) := by
  rw [findSlot_append]
  cases findSlot l j with
  | none => by_cases h : k = j <;> simp [h, eq_comm]
  | some a => simp

/-! ## the invariant -/

/-- everything except the receive lock -/
structure Core (s : St) : Prop where
  las : s.lockAcrossSend = false
  fidNodup : (s.futs.map (·.fid)).Nodup
  fidLt : ∀ x ∈ s.futs.map (·.fid), x < s.nextFid
  idsSent : s.futs.map (·.id) = s.sent
  sentInc : s.sent.Pairwise (· < ·)
  sentLe : ∀ x ∈ s.sent, x ≤ s.nextId
  rpcId : ∀ k, s.rpc = some k → k = s.nextId ∧ k ∉ s.sent
  closedRpc : s.closed = true → s.rpc = none
  readyOk : ∀ id m, findSlot s.slots id = some (.ready m) → m.id = some id ∧ m ∈ s.delivered
  inboxDel : ∀ m ∈ s.inbox, m ∈ s.delivered
  noWaitReq : ∀ g fu, findFut s.futs g = some fu → fu.pc ≠ .waitReqA ∧ ∀ m, fu.pc ≠ .waitReqB m
  resOk : ∀ g fu t, findFut s.futs g = some fu → fu.pc = .done (.ok t) →
    ∃ m ∈ s.delivered, m.id = some fu.id ∧ m.tag = t ∧ m.p2 = true
  queueNodup : s.rxQueue.Nodup
  keysLe : ∀ k sl, findSlot s.slots k = some sl → k ≤ s.nextId
  rb : s.rollbackOnFail = false

/-- well-formedness of the receive lock; `h = some f`: future `f` is running with the lock in its
hands, its program counter is stale and says nothing -/
structure Lock (s : St) (h : Option Fid) : Prop where
  qOk : ∀ g ∈ s.rxQueue, some g ≠ h ∧ s.rxOwner ≠ some g ∧ ∃ fu, findFut s.futs g = some fu ∧ fu.pc = .waitRx
  waitOk : ∀ g fu, findFut s.futs g = some fu → some g ≠ h → fu.pc = .waitRx → s.rxOwner = some g ∨ g ∈ s.rxQueue
  readOk : ∀ g fu, findFut s.futs g = some fu → some g ≠ h → fu.pc = .reading →
    s.rxOwner = some g ∧ findSlot s.slots fu.id = some .pending
  freeOk : s.rxOwner = none → s.rxQueue = []
  ownOk : ∀ g, s.rxOwner = some g → some g ≠ h →
    ∃ fu, findFut s.futs g = some fu ∧ (fu.pc = .waitRx ∨ fu.pc = .reading)
  holdOk : ∀ g, h = some g → s.rxOwner = some g ∧ ∃ fu, findFut s.futs g = some fu

/-- the inductive invariant of the current code -/
def Inv (s : St) : Prop := Core s ∧ Lock s none

/-- the invariant while future `f` runs holding the receive lock -/
def Hold (s : St) (f : Fid) : Prop := Core s ∧ Lock s (some f)

theorem inv_init : Inv {} := by
  refine ⟨⟨rfl, ?_, ?_, rfl, ?_, ?_, ?_, ?_, ?_, ?_, ?_, ?_, ?_, ?_, rfl⟩, ⟨?_, ?_, ?_, ?_, ?_, ?_⟩⟩ <;> simp [findFut, findSlot]

/-! ## proof automation for the invariant -/

macro "inv_fields" : tactic =>
  `(tactic| refine ⟨⟨?_, ?_, ?_, ?_, ?_, ?_, ?_, ?_, ?_, ?_, ?_, ?_, ?_, ?_, ?_⟩, ⟨?_, ?_, ?_, ?_, ?_, ?_⟩⟩)

macro "inv_norm" : tactic =>
  `(tactic| try simp only [map_fid_setPc, map_id_setPc, findFut_setPc_some, findSlot_setSlot_some, findSlot_removeSlot, findFut_append_some, findSlot_append_some, if_true, if_false,
      List.map_append, List.map_cons, List.map_nil, List.mem_append, List.mem_singleton, ne_eq, Option.some.injEq,
      reduceCtorEq, not_false_eq_true, not_true_eq_false, false_and, and_false, true_and, and_true, false_implies, implies_true,
      forall_const])

set_option hygiene false in
/-- membership facts about looked-up futures, for the actions that create futures or remove slots -/
macro "inv_facts" : tactic =>
  `(tactic| (
    have hidm : ∀ g fu, findFut s.futs g = some fu → fu.id ∈ s.sent := fun g fu h => c4 ▸ findFut_id_mem h
    have hfidm : ∀ g fu, findFut s.futs g = some fu → g < s.nextFid := fun g fu h => c3 g (findFut_fid_mem h)))

macro "inv_close" : tactic => `(tactic| (first | assumption | grind))

set_option hygiene false in
/-- take a `Hold s f` apart; the hold clause is specialised to `f` -/
macro "hold_cases" h:ident : tactic =>
  `(tactic| (
    obtain ⟨⟨c1, c2, c3, c4, c5, c6, c7, c8, c9, c10, c11, c12, c13, c14, c15⟩, ⟨h1, h2, h3, h4, h5, h6⟩⟩ := $h
    have h6 := h6 _ rfl
    simp only [ne_eq, Option.some.injEq] at h1 h2 h3 h5))

set_option hygiene false in
macro "inv_cases" h:ident : tactic =>
  `(tactic| (
    obtain ⟨⟨c1, c2, c3, c4, c5, c6, c7, c8, c9, c10, c11, c12, c13, c14, c15⟩, ⟨h1, h2, h3, h4, h5, h6⟩⟩ := $h
    clear h6
    simp only [ne_eq, reduceCtorEq, not_false_eq_true, true_and, forall_const] at h1 h2 h3 h5))

/-! ## data changes made by the lock holder -/

theorem hold_inbox {s : St} {f : Fid} {m : Msg} {rest : List Msg} (h : Hold s f) (hi : s.inbox = m :: rest) :
    Hold { s with inbox := rest } f := by
  hold_cases h
  inv_fields <;> inv_norm <;> inv_close

theorem hold_lost {s : St} {f : Fid} (l : List Msg) (h : Hold s f) : Hold { s with lost := l } f := by
  hold_cases h
  inv_fields <;> inv_norm <;> inv_close

theorem hold_park {s : St} {f : Fid} {m : Msg} {mid : Nat} (h : Hold s f) (hd : m ∈ s.delivered) (hm : m.id = some mid) :
    Hold { s with slots := setSlot mid (.ready m) s.slots } f := by
  hold_cases h
  inv_fields <;> inv_norm <;> inv_close

theorem hold_complete {s : St} {f : Fid} (id : Nat) (h : Hold s f) :
    Hold { s with slots := setSlot id .complete s.slots } f := by
  hold_cases h
  inv_fields <;> inv_norm <;> inv_close

/-! ## how the lock holder suspends or finishes -/

/-- the holder releases the lock and ends in a program counter that has nothing to do with the lock -/
theorem inv_release {s : St} {f : Fid} {pc : Pc} (h : Hold s f)
    (hpc : pc ≠ .waitRx ∧ pc ≠ .reading ∧ pc ≠ .waitReqA ∧ ∀ m, pc ≠ .waitReqB m)
    (hres : ∀ fu t, findFut s.futs f = some fu → pc = .done (.ok t) →
      ∃ m ∈ s.delivered, m.id = some fu.id ∧ m.tag = t ∧ m.p2 = true) :
    Inv ((s.releaseRx).withPc f pc) := by
  hold_cases h
  unfold St.releaseRx St.withPc
  split <;> inv_fields <;> inv_norm <;> inv_close

theorem inv_finish_err {s : St} {f : Fid} (h : Hold s f) : Inv (s.finish f .err) :=
  inv_release h (by simp) (by simp)

theorem inv_reading {s : St} {f : Fid} {fu : Fut} (h : Hold s f) (hf : findFut s.futs f = some fu)
    (hs : findSlot s.slots fu.id = some .pending) : Inv (s.withPc f .reading) := by
  hold_cases h
  unfold St.withPc
  inv_fields <;> inv_norm <;> (first | assumption | grind | skip)
  intro g hg
  exact ⟨{ fu with pc := .reading }, .inl ⟨by grind, fu, hf, rfl⟩, .inr rfl⟩

theorem inv_requeue {s : St} {f : Fid} (h : Hold s f) (hq : (s.releaseRx).rxOwner.isNone = false) :
    Inv { ((s.releaseRx).withPc f .waitRx) with rxQueue := (s.releaseRx).rxQueue ++ [f] } := by
  hold_cases h
  revert hq
  unfold St.releaseRx St.withPc
  split
  · simp
  · intro _
    inv_fields <;> inv_norm <;> inv_close

/-! ## how a future gets at the lock -/

theorem hold_of_inv {s : St} {f : Fid} {fu : Fut} (h : Inv s) (ho : s.rxOwner = some f)
    (hf : findFut s.futs f = some fu) : Hold s f := by
  inv_cases h
  inv_fields <;> inv_norm <;> inv_close

theorem hold_acquire {s : St} {f : Fid} {fu : Fut} (h : Inv s) (ho : s.rxOwner = none)
    (hf : findFut s.futs f = some fu) : Hold { s with rxOwner := some f } f := by
  inv_cases h
  inv_fields <;> inv_norm <;> inv_close

theorem inv_enqueue {s : St} {f : Fid} {fu : Fut} (h : Inv s) (hf : findFut s.futs f = some fu)
    (hpc : fu.pc = .start) (ho : (s.rxOwner.isNone && s.rxQueue.isEmpty) = false) :
    Inv { (s.withPc f .waitRx) with rxQueue := s.rxQueue ++ [f] } := by
  inv_cases h
  unfold St.withPc
  inv_fields <;> inv_norm <;> inv_close

/-! ## the `recv` loop, one iteration at a time -/

theorem reqBusy_false {s : St} (h : s.lockAcrossSend = false) : s.reqBusy = false := by simp [St.reqBusy, h]

/-- outcome of one iteration of the `recv` loop -/
inductive Iter where
  | stop (s : St)     -- the future suspends or finishes
  | again (s : St)    -- it parked a message, re-acquired the lock at once and goes round the loop

/-- one iteration of `St.runHolding` (same text, the recursive call replaced by `.again`) -/
def St.iter (s : St) (f : Fid) (id : Nat) (atRead : Bool) : Iter :=
  match (if atRead then Own.read else s.checkOwn f id) with
  | .wait => .stop (s.withPc f .waitReqA)
  | .fin s' => .stop s'
  | .read =>
    match s.inbox with
    | [] => .stop (if s.closed then s.finish f .err else s.withPc f .reading)
    | m :: rest =>
      let s := { s with inbox := rest }
      match m.id with
      | none => .stop (({ s with lost := s.lost ++ [m] }).finish f .err)
      | some mid =>
        if s.reqBusy then .stop (s.withPc f (.waitReqB m))
        else match s.slot mid with
          | some .pending =>
            let s := { s with slots := setSlot mid (.ready m) s.slots }
            let s := s.releaseRx
            if s.rxOwner.isNone then .again { s with rxOwner := some f }
            else .stop { (s.withPc f .waitRx) with rxQueue := s.rxQueue ++ [f] }
          | _ => .stop (({ s with lost := s.lost ++ [m] }).finish f .err)

theorem runHolding_succ (fuel : Nat) (s : St) (f : Fid) (id : Nat) (atRead : Bool) :
    St.runHolding (fuel + 1) s f id atRead =
      match s.iter f id atRead with
      | .stop s' => s'
      | .again s' => St.runHolding fuel s' f id false := by
  rw [St.runHolding]
  unfold St.iter
  generalize (if atRead then Own.read else s.checkOwn f id) = o
  cases o with
  | wait => rfl
  | fin s' => rfl
  | read =>
    dsimp only
    cases s.inbox with
    | nil => rfl
    | cons m rest =>
      dsimp only
      cases m.id with
      | none => rfl
      | some mid =>
        dsimp only
        split
        · rfl
        · generalize ({ s with inbox := rest } : St).slot mid = o
          rcases o with _ | _ | _ | _
          · rfl
          · dsimp only; split <;> rfl
          · rfl
          · rfl

theorem releaseRx_isNone (s : St) : (s.releaseRx).rxOwner.isNone = true ↔ s.rxQueue = [] := by
  unfold St.releaseRx
  split <;> simp [*]

/-- case analysis of one loop iteration in the current code (`lockAcrossSend = false`), with the
resulting states in normal form -/
theorem iter_elim {motive : Iter → Prop} (s : St) (f : Fid) (id : Nat) (atRead : Bool) (las : s.lockAcrossSend = false)
    (ownGone : atRead = false → (findSlot s.slots id = none ∨ findSlot s.slots id = some .complete) →
      motive (.stop (s.finish f .err)))
    (ownReady : ∀ m, atRead = false → findSlot s.slots id = some (.ready m) →
      motive (.stop (({ s with slots := setSlot id .complete s.slots }).finish f (if m.p2 then .ok m.tag else .err))))
    (eof : (atRead = true ∨ findSlot s.slots id = some .pending) → s.inbox = [] → s.closed = true →
      motive (.stop (s.finish f .err)))
    (wait : (atRead = true ∨ findSlot s.slots id = some .pending) → s.inbox = [] → s.closed = false →
      motive (.stop (s.withPc f .reading)))
    (garbage : ∀ m rest, (atRead = true ∨ findSlot s.slots id = some .pending) → s.inbox = m :: rest → m.id = none →
      motive (.stop (({ s with inbox := rest, lost := s.lost ++ [m] }).finish f .err)))
    (foreign : ∀ m rest mid, (atRead = true ∨ findSlot s.slots id = some .pending) → s.inbox = m :: rest →
      m.id = some mid → findSlot s.slots mid ≠ some .pending →
      motive (.stop (({ s with inbox := rest, lost := s.lost ++ [m] }).finish f .err)))
    (requeue : ∀ m rest mid, (atRead = true ∨ findSlot s.slots id = some .pending) → s.inbox = m :: rest →
      m.id = some mid → findSlot s.slots mid = some .pending → s.rxQueue ≠ [] →
      motive (.stop { ((({ s with inbox := rest, slots := setSlot mid (.ready m) s.slots } : St).releaseRx).withPc f .waitRx) with
        rxQueue := (({ s with inbox := rest, slots := setSlot mid (.ready m) s.slots } : St).releaseRx).rxQueue ++ [f] }))
    (again : ∀ m rest mid, (atRead = true ∨ findSlot s.slots id = some .pending) → s.inbox = m :: rest →
      m.id = some mid → findSlot s.slots mid = some .pending → s.rxQueue = [] →
      motive (.again { s with inbox := rest, slots := setSlot mid (.ready m) s.slots, rxOwner := some f })) :
    motive (s.iter f id atRead) := by
  have hread : (atRead = true ∨ findSlot s.slots id = some .pending) →
      motive (match s.inbox with
        | [] => .stop (if s.closed then s.finish f .err else s.withPc f .reading)
        | m :: rest =>
          match m.id with
          | none => .stop (({ s with inbox := rest, lost := s.lost ++ [m] } : St).finish f .err)
          | some mid =>
            match findSlot s.slots mid with
              | some .pending =>
                if (({ s with inbox := rest, slots := setSlot mid (.ready m) s.slots } : St).releaseRx).rxOwner.isNone
                then .again { (({ s with inbox := rest, slots := setSlot mid (.ready m) s.slots } : St).releaseRx) with rxOwner := some f }
                else .stop { ((({ s with inbox := rest, slots := setSlot mid (.ready m) s.slots } : St).releaseRx).withPc f .waitRx) with
                  rxQueue := (({ s with inbox := rest, slots := setSlot mid (.ready m) s.slots } : St).releaseRx).rxQueue ++ [f] }
              | _ => .stop (({ s with inbox := rest, lost := s.lost ++ [m] } : St).finish f .err)) := by
    intro hr
    split
    · rename_i hi
      by_cases hc : s.closed = true
      · simp only [hc, if_true]; exact eof hr hi hc
      · simp only [hc]; exact wait hr hi (by simpa using hc)
    · rename_i m rest hi
      split
      · rename_i hm; exact garbage m rest hr hi hm
      · rename_i mid hm
        split
        · rename_i hs
          by_cases hq : s.rxQueue = []
          · have : (({ s with inbox := rest, slots := setSlot mid (.ready m) s.slots } : St).releaseRx).rxOwner.isNone = true := by
              rw [releaseRx_isNone]; exact hq
            simp only [this, if_true]
            have h2 := again m rest mid hr hi hm hs hq
            have : ({ (({ s with inbox := rest, slots := setSlot mid (.ready m) s.slots } : St).releaseRx) with rxOwner := some f } : St)
                = { s with inbox := rest, slots := setSlot mid (.ready m) s.slots, rxOwner := some f } := by
              simp [St.releaseRx, hq]
            rw [this]; exact h2
          · have : (({ s with inbox := rest, slots := setSlot mid (.ready m) s.slots } : St).releaseRx).rxOwner.isNone = false := by
              rw [← Bool.not_eq_true, releaseRx_isNone]; exact hq
            simp only [this]
            exact requeue m rest mid hr hi hm hs hq
        · rename_i hs
          exact foreign m rest mid hr hi hm (by intro h; exact hs h)
  unfold St.iter
  cases atRead with
  | true =>
    simp only [if_true]
    have := hread (.inl rfl)
    simpa [reqBusy_false, St.reqBusy, las, St.slot_eq] using this
  | false =>
    simp only [Bool.false_eq_true, if_false, St.checkOwn, reqBusy_false las, St.slot_eq]
    rcases hs : findSlot s.slots id with _ | _ | m | _
    · exact ownGone rfl (.inl hs)
    · have := hread (.inr hs)
      simpa [reqBusy_false, St.reqBusy, las, St.slot_eq] using this
    · exact ownReady m rfl hs
    · exact ownGone rfl (.inr hs)


/-- `Q` if the iteration stops, `P` if it goes round again -/
def Iter.Post (Q P : St → Prop) : Iter → Prop
  | .stop s' => Q s'
  | .again s' => P s'

/-- induction over the loop: `P` holds at the top of every iteration, `Q` when the future stops -/
theorem runHolding_ind {P : St → Bool → Prop} {Q : St → Prop} (f : Fid) (id : Nat)
    (step : ∀ s b, P s b → (s.iter f id b).Post Q (fun s' => P s' false ∧ s'.inbox.length < s.inbox.length))
    (fuel : Nat) (s : St) (b : Bool) (hp : P s b) (hfuel : s.inbox.length < fuel) :
    Q (St.runHolding fuel s f id b) := by
  induction fuel generalizing s b with
  | zero => omega
  | succ n ih =>
    rw [runHolding_succ]
    have := step s b hp
    split
    · rename_i s' he; rw [he] at this; exact this
    · rename_i s' he
      rw [he] at this
      exact ih s' false this.1 (by have := this.2; omega)

theorem runHolding_inv (fuel : Nat) (s : St) (f : Fid) (id : Nat) (atRead : Bool) (h : Hold s f)
    (hf : ∃ fu, findFut s.futs f = some fu ∧ fu.id = id) (hfuel : s.inbox.length < fuel)
    (hread : atRead = true → findSlot s.slots id = some .pending) :
    Inv (St.runHolding fuel s f id atRead) := by
  refine runHolding_ind (P := fun s b => Hold s f ∧ (∃ fu, findFut s.futs f = some fu ∧ fu.id = id) ∧
    (b = true → findSlot s.slots id = some .pending)) f id ?_ fuel s atRead ⟨h, hf, hread⟩ hfuel
  clear h hf hfuel hread s atRead
  intro s b ⟨h, ⟨fu, hf, hid⟩, hread⟩
  have hdel : ∀ m rest, s.inbox = m :: rest → m ∈ s.delivered := fun m rest hi => h.1.inboxDel m (by simp [hi])
  apply iter_elim (motive := Iter.Post _ _) s f id b h.1.las <;> simp only [Iter.Post]
  · intro _ _; exact inv_finish_err h
  · intro m _ hs
    refine inv_release (hold_complete id h) (by simp) ?_
    intro fu' t hf' ht
    have hr := h.1.readyOk id m hs
    have hfu : fu' = fu := by simpa [hf] using hf'.symm
    subst hfu
    by_cases hp : m.p2 = true
    · simp only [hp, if_true, Pc.done.injEq, Res.ok.injEq] at ht
      exact ⟨m, hr.2, by rw [hid]; exact hr.1, ht, hp⟩
    · simp [hp] at ht
  · intro _ _ _; exact inv_finish_err h
  · intro hr _ _
    exact inv_reading h hf (by rcases hr with hr | hr; exact hid ▸ hread hr; exact hid ▸ hr)
  · intro m rest _ hi _
    exact inv_finish_err (hold_lost _ (hold_inbox h hi))
  · intro m rest mid _ hi _ _
    exact inv_finish_err (hold_lost _ (hold_inbox h hi))
  · intro m rest mid _ hi hm _ hq
    exact inv_requeue (hold_park (hold_inbox h hi) (hdel m rest hi) hm) (by rw [← Bool.not_eq_true, releaseRx_isNone]; exact hq)
  · intro m rest mid _ hi hm _ hq
    have ho : s.rxOwner = some f := (h.2.holdOk f rfl).1
    have e : ({ s with inbox := rest, slots := setSlot mid (.ready m) s.slots, rxOwner := some f } : St)
        = { ({ s with inbox := rest } : St) with slots := setSlot mid (.ready m) s.slots } := by
      cases s; simp only [St.mk.injEq, true_and, and_true] at ho ⊢; exact ho.symm
    rw [e]
    exact ⟨⟨hold_park (hold_inbox h hi) (hdel m rest hi) hm, ⟨fu, hf, hid⟩, by simp⟩, by simp [hi]⟩

/-! ## every action preserves the invariant -/

theorem inv_fut_reading {s : St} {f : Fid} {fu : Fut} (h : Inv s) (hf : findFut s.futs f = some fu) (hpc : fu.pc = .reading) :
    s.rxOwner = some f ∧ findSlot s.slots fu.id = some .pending :=
  h.2.readOk f fu hf (by simp) hpc

theorem poll_inv {s : St} (f : Fid) (h : Inv s) : Inv (s.poll f) := by
  unfold St.poll
  rw [St.fut_eq]
  split
  · exact h
  · rename_i fu hf
    split
    · exact h
    · exact h
    · rename_i hpc
      split
      · rename_i ho
        simp only [Bool.and_eq_true, Option.isNone_iff_eq_none, List.isEmpty_iff] at ho
        exact runHolding_inv _ _ f fu.id false (hold_acquire h ho.1 hf) ⟨fu, hf, rfl⟩ (by simp) (by simp)
      · rename_i ho
        exact inv_enqueue h hf hpc (by simpa using ho)
    · split
      · rename_i ho
        have ho : s.rxOwner = some f := by simpa using ho
        exact runHolding_inv _ _ f fu.id false (hold_of_inv h ho hf) ⟨fu, hf, rfl⟩ (by simp) (by simp)
      · exact h
    · rename_i hpc; exact absurd hpc (h.1.noWaitReq f fu hf).1
    · rename_i hpc
      have := inv_fut_reading h hf hpc
      exact runHolding_inv _ _ f fu.id true (hold_of_inv h this.1 hf) ⟨fu, hf, rfl⟩ (by simp) (fun _ => this.2)
    · rename_i m hpc; exact absurd hpc ((h.1.noWaitReq f fu hf).2 m)

theorem drop_inv {s : St} (f : Fid) (h : Inv s) : Inv (s.drop f) := by
  unfold St.drop
  rw [St.fut_eq]
  split
  · exact h
  · rename_i fu hf
    split
    · exact h
    · exact h
    · rename_i hpc
      inv_cases h
      unfold St.withPc
      inv_fields <;> inv_norm <;> inv_close
    · rename_i hpc
      split
      · rename_i ho
        have ho : s.rxOwner = some f := by simpa using ho
        exact inv_release (hold_of_inv h ho hf) (by simp) (by simp)
      · rename_i ho
        have ho : s.rxOwner ≠ some f := by simpa using ho
        inv_cases h
        unfold St.withPc
        inv_fields <;> inv_norm <;> inv_close
    · rename_i hpc; exact absurd hpc (h.1.noWaitReq f fu hf).1
    · rename_i hpc
      have := inv_fut_reading h hf hpc
      exact inv_release (hold_of_inv h this.1 hf) (by simp) (by simp)
    · rename_i m hpc; exact absurd hpc ((h.1.noWaitReq f fu hf).2 m)


theorem deliver_inv {s : St} (m : Msg) (h : Inv s) : Inv (s.deliver m) := by
  inv_cases h
  unfold St.deliver
  inv_fields <;> inv_norm <;> inv_close

theorem closeGate_inv {s : St} (h : Inv s) : Inv s.closeGate := by
  inv_cases h
  inv_facts
  unfold St.closeGate
  inv_fields <;> inv_norm <;> inv_close

theorem close_inv {s : St} (h : Inv s) : Inv s.close := by
  inv_cases h
  inv_facts
  unfold St.close
  dsimp only
  split
  · inv_fields <;> inv_norm <;> inv_close
  · simp only [c1, Bool.false_eq_true, if_false]
    inv_fields <;> inv_norm <;> inv_close

theorem send_inv {s : St} (b : Bool) (h : Inv s) : Inv (s.send b).1 := by
  inv_cases h
  inv_facts
  unfold St.send
  split
  · inv_fields <;> inv_norm <;> inv_close
  · rename_i hr
    have hr : s.rpc = none := by simpa using hr
    dsimp only
    split
    · inv_fields <;> inv_norm <;> inv_close
    · split
      · inv_fields <;> inv_norm <;> inv_close
      · split
        · unfold St.register
          dsimp only
          inv_fields <;> inv_norm <;> inv_close
        · simp only [c1, Bool.false_eq_true, if_false]
          inv_fields <;> inv_norm <;> inv_close

theorem openGate_inv {s : St} (h : Inv s) : Inv s.openGate.1 := by
  inv_cases h
  inv_facts
  unfold St.openGate
  dsimp only
  split
  · inv_fields <;> inv_norm <;> inv_close
  · rename_i k hr
    split
    · simp only [c1, Bool.false_eq_true, if_false]
      inv_fields <;> inv_norm <;> inv_close
    · unfold St.register
      simp only [c1, Bool.false_eq_true, if_false]
      inv_fields <;> inv_norm <;> inv_close


/-- the ghost record of the drawn ids plays no part in the invariant -/
theorem inv_consumed {s : St} (l : List Nat) (h : Inv s) : Inv { s with consumed := l } := by
  inv_cases h
  inv_fields <;> inv_norm <;> inv_close

theorem afterFail_eq {s : St} (h : s.rollbackOnFail = false) : s.afterFail = s := by
  simp [St.afterFail, h]

/-- in the code as it is (`rollbackOnFail = false`) an `rpc()` action is `St.send` plus the ghost record -/
theorem sendAct_eq {s : St} (b : Bool) (hrb : s.rollbackOnFail = false) (hr : s.rpc = none) :
    s.sendAct b = { (s.send b).1 with consumed := s.consumed ++ [s.nextId + 1] } := by
  have h2 : (s.send b).1.rollbackOnFail = false := by
    unfold St.send
    simp only [hr, Option.isSome_none, Bool.false_eq_true, if_false]
    split
    · exact hrb
    · split
      · exact hrb
      · split
        · exact hrb
        · split <;> exact hrb
  simp only [St.sendAct, hr, Option.isSome_none, Bool.false_eq_true, if_false]
  split
  · exact afterFail_eq (by exact h2)
  · rfl

theorem sendAct_busy {s : St} (b : Bool) (k : Nat) (hr : s.rpc = some k) : s.sendAct b = s := by
  simp [St.sendAct, hr]

theorem openGate_rb {s : St} (hrb : s.rollbackOnFail = false) : s.openGate.1.rollbackOnFail = false := by
  unfold St.openGate
  dsimp only
  split
  · exact hrb
  · split
    · exact hrb
    · exact hrb

theorem openGateAct_eq {s : St} (hrb : s.rollbackOnFail = false) : s.openGateAct = s.openGate.1 := by
  unfold St.openGateAct
  split
  · exact afterFail_eq (openGate_rb hrb)
  · rfl

theorem close_rb {s : St} (hrb : s.rollbackOnFail = false) : s.close.rollbackOnFail = false := by
  unfold St.close
  dsimp only
  split <;> exact hrb

theorem closeAct_eq {s : St} (hrb : s.rollbackOnFail = false) : s.closeAct = s.close := by
  unfold St.closeAct
  split
  · exact afterFail_eq (close_rb hrb)
  · rfl

theorem sendAct_inv {s : St} (b : Bool) (h : Inv s) : Inv (s.sendAct b) := by
  cases hr : s.rpc with
  | some k => rw [sendAct_busy b k hr]; exact h
  | none => rw [sendAct_eq b h.1.rb hr]; exact inv_consumed _ (send_inv b h)

theorem step_inv {s : St} (a : Act) (h : Inv s) : Inv (s.step a) := by
  cases a with
  | send b => exact sendAct_inv b h
  | gate o => cases o with
    | true => show Inv s.openGateAct; rw [openGateAct_eq h.1.rb]; exact openGate_inv h
    | false => exact closeGate_inv h
  | poll f => exact poll_inv f h
  | deliver m => exact deliver_inv m h
  | drop f => exact drop_inv f h
  | close => show Inv s.closeAct; rw [closeAct_eq h.1.rb]; exact close_inv h

theorem run_inv' {s : St} (acts : List Act) (h : Inv s) : Inv (s.run acts) := by
  induction acts generalizing s with
  | nil => exact h
  | cons a as ih => exact ih (step_inv a h)

/-- the invariant holds in every reachable state of the current code -/
theorem run_inv (acts : List Act) : Inv (St.run {} acts) := run_inv' acts inv_init

theorem run_append (s : St) (a b : List Act) : s.run (a ++ b) = (s.run a).run b := by
  simp [St.run, List.foldl_append]

end Session

namespace Session

/-! ## message-ids: the counter, the ghost record of the drawn ids, and what leaves them alone -/

/-- the id bookkeeping of a state: counter, drawn ids, variant flag, blocked `rpc()`, ids on the wire -/
def St.idv (s : St) : Nat × List Nat × Bool × Option Nat × List Nat :=
  (s.nextId, s.consumed, s.rollbackOnFail, s.rpc, s.sent)

theorem releaseRx_idv (s : St) : s.releaseRx.idv = s.idv := by
  unfold St.releaseRx; split <;> rfl

theorem finish_idv (s : St) (f : Fid) (r : Res) : (s.finish f r).idv = s.idv := by
  show ((s.releaseRx).withPc f (.done r)).idv = s.idv
  exact releaseRx_idv s

theorem checkOwn_idv {s s' : St} {f : Fid} {id : Nat} (h : s.checkOwn f id = .fin s') : s'.idv = s.idv := by
  unfold St.checkOwn at h
  split at h
  · cases h
  · split at h
    · cases h; exact finish_idv ..
    · cases h; exact finish_idv ..
    · cases h; exact finish_idv ..
    · cases h

theorem iter_idv (s : St) (f : Fid) (id : Nat) (b : Bool) :
    (s.iter f id b).Post (fun s' => s'.idv = s.idv) (fun s' => s'.idv = s.idv) := by
  unfold St.iter
  split
  · rfl
  · next s' he =>
    cases b with
    | true => simp at he
    | false => simp only [Bool.false_eq_true, if_false] at he; exact checkOwn_idv he
  · split
    · simp only [Iter.Post]; split
      · exact finish_idv ..
      · rfl
    · dsimp only
      split
      · exact finish_idv ..
      · split
        · rfl
        · split
          · split
            · simp only [Iter.Post]; exact releaseRx_idv _
            · simp only [Iter.Post]; exact releaseRx_idv _
          · exact finish_idv ..

theorem runHolding_idv (fuel : Nat) (s : St) (f : Fid) (id : Nat) (b : Bool) :
    (St.runHolding fuel s f id b).idv = s.idv := by
  induction fuel generalizing s b with
  | zero => rfl
  | succ n ih =>
    rw [runHolding_succ]
    have := iter_idv s f id b
    split
    · next s' he => rw [he] at this; exact this
    · next s' he => rw [he] at this; rw [ih]; exact this

theorem poll_idv (s : St) (f : Fid) : (s.poll f).idv = s.idv := by
  unfold St.poll
  split
  · rfl
  · dsimp only
    split
    · rfl
    · rfl
    · split
      · rw [runHolding_idv]; rfl
      · rfl
    · split
      · rw [runHolding_idv]
      · rfl
    · rw [runHolding_idv]
    · rw [runHolding_idv]
    · split
      · rfl
      · split
        · unfold St.park
          split
          · dsimp only
            split
            · rw [runHolding_idv]; exact releaseRx_idv _
            · exact releaseRx_idv _
          · exact finish_idv ..
        · rfl

theorem drop_idv (s : St) (f : Fid) : (s.drop f).idv = s.idv := by
  unfold St.drop
  split
  · rfl
  · split
    · rfl
    · rfl
    · rfl
    · split
      · exact releaseRx_idv _
      · rfl
    · exact releaseRx_idv _
    · exact releaseRx_idv _
    · exact releaseRx_idv _

end Session
namespace Session

theorem send_ids {s : St} (b : Bool) (hr : s.rpc = none) :
    (s.send b).1.nextId = s.nextId + 1 ∧ (s.send b).1.consumed = s.consumed ∧
    (s.send b).1.rollbackOnFail = s.rollbackOnFail ∧
    ((s.send b).1.rpc = none ∨ (s.send b).1.rpc = some (s.nextId + 1)) ∧
    ((s.send b).1.sent = s.sent ∨ (s.send b).1.sent = s.sent ++ [s.nextId + 1]) := by
  unfold St.send
  simp only [hr, Option.isSome_none, Bool.false_eq_true, if_false]
  split
  · exact ⟨rfl, rfl, rfl, .inl rfl, .inl rfl⟩
  · split
    · exact ⟨rfl, rfl, rfl, .inl rfl, .inl rfl⟩
    · split
      · exact ⟨rfl, rfl, rfl, .inl rfl, .inr rfl⟩
      · split
        · exact ⟨rfl, rfl, rfl, .inr rfl, .inl rfl⟩
        · exact ⟨rfl, rfl, rfl, .inr rfl, .inl rfl⟩

theorem openGate_ids (s : St) :
    s.openGate.1.nextId = s.nextId ∧ s.openGate.1.consumed = s.consumed ∧
    s.openGate.1.rollbackOnFail = s.rollbackOnFail ∧ (s.openGate.1.rpc = none ∨ s.openGate.1.rpc = s.rpc) ∧
    (s.openGate.1.sent = s.sent ∨ ∃ k, s.rpc = some k ∧ s.openGate.1.sent = s.sent ++ [k]) := by
  unfold St.openGate
  dsimp only
  split
  · next hr => exact ⟨rfl, rfl, rfl, .inl hr, .inl rfl⟩
  · next k hr =>
    split
    · exact ⟨rfl, rfl, rfl, .inl rfl, .inl rfl⟩
    · exact ⟨rfl, rfl, rfl, .inl rfl, .inr ⟨k, hr, rfl⟩⟩

theorem close_ids (s : St) :
    s.close.nextId = s.nextId ∧ s.close.consumed = s.consumed ∧ s.close.rollbackOnFail = s.rollbackOnFail ∧
    (s.close.rpc = none) ∧ s.close.sent = s.sent := by
  unfold St.close
  dsimp only
  split
  · next hr => exact ⟨rfl, rfl, rfl, hr, rfl⟩
  · exact ⟨rfl, rfl, rfl, rfl, rfl⟩

/-- the id bookkeeping invariant of the code as it is: the drawn ids are `1, 2, …, nextId` — every
number once, in order —, a blocked `rpc()` and everything on the wire carry drawn ids -/
structure Ids (s : St) : Prop where
  rb : s.rollbackOnFail = false
  cons : s.consumed = List.range' 1 s.nextId
  rpcLe : ∀ k, s.rpc = some k → k ∈ s.consumed
  sentCons : ∀ x ∈ s.sent, x ∈ s.consumed

theorem ids_init : Ids {} := ⟨rfl, rfl, by simp, by simp⟩

theorem ids_of_idv {s s' : St} (e : s'.idv = s.idv) (h : Ids s) : Ids s' := by
  simp only [St.idv, Prod.mk.injEq] at e
  obtain ⟨e1, e2, e3, e4, e5⟩ := e
  exact ⟨e3 ▸ h.rb, by rw [e1, e2]; exact h.cons, by rw [e4, e2]; exact h.rpcLe, by rw [e5, e2]; exact h.sentCons⟩

theorem range'_succ_right (n : Nat) : List.range' 1 (n + 1) = List.range' 1 n ++ [n + 1] := by
  rw [List.range'_concat]; simp [Nat.add_comm]

theorem step_ids {s : St} (a : Act) (h : Ids s) : Ids (s.step a) := by
  cases a with
  | poll f => exact ids_of_idv (poll_idv s f) h
  | drop f => exact ids_of_idv (drop_idv s f) h
  | deliver m => exact ids_of_idv (s := s) rfl h
  | gate o =>
    cases o with
    | false => exact ids_of_idv (s := s) rfl h
    | true =>
      show Ids s.openGateAct
      rw [openGateAct_eq h.rb]
      obtain ⟨e1, e2, e3, e4, e5⟩ := openGate_ids s
      refine ⟨e3 ▸ h.rb, by rw [e1, e2]; exact h.cons, ?_, ?_⟩
      · intro k hk
        rw [e2]
        rcases e4 with e4 | e4
        · rw [e4] at hk; cases hk
        · exact h.rpcLe k (e4 ▸ hk)
      · intro x hx
        rw [e2]
        rcases e5 with e5 | ⟨k, hk, e5⟩
        · exact h.sentCons x (e5 ▸ hx)
        · rw [e5] at hx
          rcases List.mem_append.1 hx with hx | hx
          · exact h.sentCons x hx
          · simp only [List.mem_singleton] at hx; subst hx; exact h.rpcLe x hk
  | close =>
    show Ids s.closeAct
    rw [closeAct_eq h.rb]
    obtain ⟨e1, e2, e3, e4, e5⟩ := close_ids s
    exact ⟨e3 ▸ h.rb, by rw [e1, e2]; exact h.cons, (by rw [e4]; intro k hk; cases hk), by rw [e5, e2]; exact h.sentCons⟩
  | send b =>
    show Ids (s.sendAct b)
    cases hr : s.rpc with
    | some k => rw [sendAct_busy b k hr]; exact h
    | none =>
      rw [sendAct_eq b h.rb hr]
      obtain ⟨e1, e2, e3, e4, e5⟩ := send_ids (s := s) b hr
      refine ⟨e3 ▸ h.rb, ?_, ?_, ?_⟩
      · show s.consumed ++ [s.nextId + 1] = List.range' 1 (s.send b).1.nextId
        rw [e1, range'_succ_right, h.cons]
      · intro k hk
        show k ∈ s.consumed ++ [s.nextId + 1]
        rcases e4 with e4 | e4
        · rw [show (s.send b).1.rpc = some k from hk] at e4; cases e4
        · rw [show (s.send b).1.rpc = some k from hk] at e4; cases e4; simp
      · intro x hx
        show x ∈ s.consumed ++ [s.nextId + 1]
        rcases e5 with e5 | e5
        · exact List.mem_append_left _ (h.sentCons x (e5 ▸ hx))
        · rw [show (s.send b).1.sent = _ from e5] at hx
          rcases List.mem_append.1 hx with hx | hx
          · exact List.mem_append_left _ (h.sentCons x hx)
          · exact List.mem_append_right _ hx

theorem run_ids' {s : St} (acts : List Act) (h : Ids s) : Ids (s.run acts) := by
  induction acts generalizing s with
  | nil => exact h
  | cons a as ih => exact ih (step_ids a h)

/-- the id bookkeeping invariant holds in every reachable state of the current code -/
theorem run_ids (acts : List Act) : Ids (St.run {} acts) := run_ids' acts ids_init

/-- an executed `send` draws the next id; no other action touches the counter or the record -/
theorem step_nextId {s : St} (hrb : s.rollbackOnFail = false) (a : Act) :
    (∀ b, a = .send b → s.rpc = none →
        (s.step a).nextId = s.nextId + 1 ∧ (s.step a).consumed = s.consumed ++ [s.nextId + 1]) ∧
    (∀ b k, a = .send b → s.rpc = some k → s.step a = s) ∧
    ((∀ b, a ≠ .send b) → (s.step a).nextId = s.nextId ∧ (s.step a).consumed = s.consumed) := by
  refine ⟨?_, ?_, ?_⟩
  · rintro b rfl hr
    show (s.sendAct b).nextId = _ ∧ (s.sendAct b).consumed = _
    rw [sendAct_eq b hrb hr]
    exact ⟨(send_ids b hr).1, rfl⟩
  · rintro b k rfl hr
    exact sendAct_busy b k hr
  · intro hne
    cases a with
    | send b => exact absurd rfl (hne b)
    | poll f => have := poll_idv s f; simp only [St.idv, Prod.mk.injEq] at this; exact ⟨this.1, this.2.1⟩
    | drop f => have := drop_idv s f; simp only [St.idv, Prod.mk.injEq] at this; exact ⟨this.1, this.2.1⟩
    | deliver m => exact ⟨rfl, rfl⟩
    | gate o =>
      cases o with
      | false => exact ⟨rfl, rfl⟩
      | true =>
        show s.openGateAct.nextId = _ ∧ s.openGateAct.consumed = _
        rw [openGateAct_eq hrb]; exact ⟨(openGate_ids s).1, (openGate_ids s).2.1⟩
    | close =>
      show s.closeAct.nextId = _ ∧ s.closeAct.consumed = _
      rw [closeAct_eq hrb]; exact ⟨(close_ids s).1, (close_ids s).2.1⟩

theorem step_nextId_le {s : St} (hrb : s.rollbackOnFail = false) (a : Act) : s.nextId ≤ (s.step a).nextId := by
  obtain ⟨h1, h2, h3⟩ := step_nextId hrb a
  cases a with
  | send b =>
    cases hr : s.rpc with
    | none => rw [(h1 b rfl hr).1]; omega
    | some k => rw [h2 b k rfl hr]; omega
  | poll f => rw [(h3 (fun _ h => by cases h)).1]; omega
  | drop f => rw [(h3 (fun _ h => by cases h)).1]; omega
  | deliver m => rw [(h3 (fun _ h => by cases h)).1]; omega
  | gate o => rw [(h3 (fun _ h => by cases h)).1]; omega
  | close => rw [(h3 (fun _ h => by cases h)).1]; omega

theorem run_nextId_le {s : St} (h : Ids s) (acts : List Act) : s.nextId ≤ (s.run acts).nextId := by
  induction acts generalizing s with
  | nil => exact Nat.le_refl _
  | cons a as ih => exact Nat.le_trans (step_nextId_le h.rb a) (ih (step_ids a h))

end Session
