import Bgpfu.Lemmas.Totality
import Bgpfu.Lemmas.Hello
/-!
`Misc*` around the root element (C13): comments before the root element and between the root's end
tag and the end of input.

Two lemma families, one lemma per reader loop:
* `*_mono`  — a loop that does not run out of fuel gives the same result with more fuel;
* `*_trail` — inserting comments in front of the final `Eof` (`trailMisc`) commutes with the loop:
  an `ok` result keeps its value and the remaining events get the same insertion, an error stays
  the same error. (Inside the root element both lists end in an error anyway: no loop but the
  document-level ones accepts `Eof`.)
-/
namespace Xml

/-! ### more fuel, same result -/

theorem infoLoop_mono (fuel : Nat) (endRaw : String) (acc : List InfoElem) (evs : List Ev)
    (h : infoLoop fuel endRaw acc evs ≠ .error .fuel) :
    infoLoop (fuel + 1) endRaw acc evs = infoLoop fuel endRaw acc evs := by
  fun_induction infoLoop fuel endRaw acc evs <;> simp_all [infoLoop]

theorem errorLoop_mono (fuel : Nat) (endRaw : String) (acc : ErrAcc) (evs : List Ev)
    (h : errorLoop fuel endRaw acc evs ≠ .error .fuel) :
    errorLoop (fuel + 1) endRaw acc evs = errorLoop fuel endRaw acc evs := by
  fun_induction errorLoop fuel endRaw acc evs <;> (try simp only [errorLoop, *]) <;>
    simp_all [infoLoop_mono]

theorem readRpcError_mono (fuel : Nat) (t : Tag) (evs : List Ev)
    (h : readRpcError fuel t evs ≠ .error .fuel) :
    readRpcError (fuel + 1) t evs = readRpcError fuel t evs :=
  errorLoop_mono fuel t.raw {} evs h

theorem emptyLoop_mono (fuel : Nat) (endRaw : String) (th : Bool) (errors : List RpcError) (evs : List Ev)
    (h : emptyLoop fuel endRaw th errors evs ≠ .error .fuel) :
    emptyLoop (fuel + 1) endRaw th errors evs = emptyLoop fuel endRaw th errors evs := by
  fun_induction emptyLoop fuel endRaw th errors evs <;> simp_all [emptyLoop, readRpcError_mono]

theorem dataLoop_mono (fuel : Nat) (endRaw : String) (th : Option String) (errors : List RpcError) (evs : List Ev)
    (h : dataLoop fuel endRaw th errors evs ≠ .error .fuel) :
    dataLoop (fuel + 1) endRaw th errors evs = dataLoop fuel endRaw th errors evs := by
  fun_induction dataLoop fuel endRaw th errors evs <;> (try simp only [dataLoop, *]) <;>
    simp_all [readRpcError_mono]

theorem bareLoop_mono (fuel : Nat) (endRaw : String) (errors : List RpcError) (evs : List Ev)
    (h : bareLoop fuel endRaw errors evs ≠ .error .fuel) :
    bareLoop (fuel + 1) endRaw errors evs = bareLoop fuel endRaw errors evs := by
  fun_induction bareLoop fuel endRaw errors evs <;> simp_all [bareLoop, readRpcError_mono]

theorem loadInner_mono (c : RCfg) (fuel : Nat) (endRaw : String) (st : LoadSt) (evs : List Ev)
    (h : loadInner c fuel endRaw st evs ≠ .error .fuel) :
    loadInner c (fuel + 1) endRaw st evs = loadInner c fuel endRaw st evs := by
  fun_induction loadInner c fuel endRaw st evs <;> (try simp only [loadInner, *]) <;>
    simp_all [readRpcError_mono]

theorem loadOuter_mono (c : RCfg) (fuel : Nat) (endRaw : String) (st : LoadSt) (evs : List Ev)
    (h : loadOuter c fuel endRaw st evs ≠ .error .fuel) :
    loadOuter c (fuel + 1) endRaw st evs = loadOuter c fuel endRaw st evs := by
  fun_induction loadOuter c fuel endRaw st evs <;> simp_all [loadOuter, loadInner_mono]

theorem readBody_mono (c : RCfg) (k : ReplyKind) (fuel : Nat) (t : Tag) (evs : List Ev)
    (h : readBody c k fuel t evs ≠ .error .fuel) :
    readBody c k (fuel + 1) t evs = readBody c k fuel t evs := by
  cases k <;> simp only [readBody] at h ⊢
  · exact emptyLoop_mono _ _ _ _ _ h
  · exact dataLoop_mono _ _ _ _ _ h
  · exact bareLoop_mono _ _ _ _ h
  · exact loadOuter_mono _ _ _ _ _ h

theorem readReplyElem_mono (c : RCfg) (k : ReplyKind) (fuel : Nat) (t : Tag) (evs : List Ev)
    (h : readReplyElem c k fuel t evs ≠ .error .fuel) :
    readReplyElem c k (fuel + 1) t evs = readReplyElem c k fuel t evs := by
  unfold readReplyElem at h ⊢
  split <;> try rfl
  split <;> try rfl
  rename_i hb
  have : readBody c k fuel t evs ≠ .error .fuel := by
    intro hb; simp_all
  rw [readBody_mono c k fuel t evs this]

theorem fromXmlReply_mono (c : RCfg) (k : ReplyKind) (fuel : Nat) (this : Option (Nat × Body)) (evs : List Ev)
    (h : fromXmlReply c k fuel this evs ≠ .error .fuel) :
    fromXmlReply c k (fuel + 1) this evs = fromXmlReply c k fuel this evs := by
  fun_induction fromXmlReply c k fuel this evs <;> simp_all [fromXmlReply, readReplyElem_mono]

theorem readPartial_mono (c : RCfg) (fuel : Nat) (mid : Option Nat) (evs : List Ev)
    (h : readPartial c fuel mid evs ≠ .error .fuel) :
    readPartial c (fuel + 1) mid evs = readPartial c fuel mid evs := by
  fun_induction readPartial c fuel mid evs <;> simp_all [readPartial]

theorem capsLoop_mono (c : RCfg) (o : UriOracle) (fuel : Nat) (endRaw : String) (acc : List Capability) (evs : List Ev)
    (h : capsLoop c o fuel endRaw acc evs ≠ .error .fuel) :
    capsLoop c o (fuel + 1) endRaw acc evs = capsLoop c o fuel endRaw acc evs := by
  fun_induction capsLoop c o fuel endRaw acc evs <;> simp_all [capsLoop]

theorem helloLoop_mono (c : RCfg) (o : UriOracle) (fuel : Nat) (endRaw : String) (caps : Option (List Capability))
    (sid : Option Nat) (evs : List Ev)
    (h : helloLoop c o fuel endRaw caps sid evs ≠ .error .fuel) :
    helloLoop c o (fuel + 1) endRaw caps sid evs = helloLoop c o fuel endRaw caps sid evs := by
  fun_induction helloLoop c o fuel endRaw caps sid evs <;> (try simp only [helloLoop, *]) <;>
    simp_all [capsLoop_mono]

theorem fromXmlHello_mono (c : RCfg) (o : UriOracle) (fuel : Nat) (this : Option Hello) (evs : List Ev)
    (h : fromXmlHello c o fuel this evs ≠ .error .fuel) :
    fromXmlHello c o (fuel + 1) this evs = fromXmlHello c o fuel this evs := by
  fun_induction fromXmlHello c o fuel this evs <;> simp_all [fromXmlHello, helloLoop_mono]

theorem fromXmlReply_mono_add (c : RCfg) (k : ReplyKind) (fuel : Nat) (this : Option (Nat × Body)) (evs : List Ev)
    (h : fromXmlReply c k fuel this evs ≠ .error .fuel) (n : Nat) :
    fromXmlReply c k (fuel + n) this evs = fromXmlReply c k fuel this evs := by
  induction n with
  | zero => rfl
  | succ n ih => rw [← Nat.add_assoc, fromXmlReply_mono _ _ _ _ _ (by rw [ih]; exact h), ih]

theorem readPartial_mono_add (c : RCfg) (fuel : Nat) (mid : Option Nat) (evs : List Ev)
    (h : readPartial c fuel mid evs ≠ .error .fuel) (n : Nat) :
    readPartial c (fuel + n) mid evs = readPartial c fuel mid evs := by
  induction n with
  | zero => rfl
  | succ n ih => rw [← Nat.add_assoc, readPartial_mono _ _ _ _ (by rw [ih]; exact h), ih]

theorem fromXmlHello_mono_add (c : RCfg) (o : UriOracle) (fuel : Nat) (this : Option Hello) (evs : List Ev)
    (h : fromXmlHello c o fuel this evs ≠ .error .fuel) (n : Nat) :
    fromXmlHello c o (fuel + n) this evs = fromXmlHello c o fuel this evs := by
  induction n with
  | zero => rfl
  | succ n ih => rw [← Nat.add_assoc, fromXmlHello_mono _ _ _ _ _ (by rw [ih]; exact h), ih]

/-! ### comments in front of the final `Eof` -/

/-- `n` comments -/
abbrev comments (n : Nat) : List Ev := List.replicate n .comment

/-- insert `n` comments in front of the final `Eof` of an event list (a list that does not end in
`Eof` is left alone) -/
def trailMisc (n : Nat) : List Ev → List Ev
  | [] => []
  | [.eof] => comments n ++ [.eof]
  | e :: rest => e :: trailMisc n rest

@[simp] theorem trailMisc_nil (n : Nat) : trailMisc n [] = [] := rfl
@[simp] theorem trailMisc_eof_nil (n : Nat) : trailMisc n [.eof] = comments n ++ [.eof] := rfl
@[simp] theorem trailMisc_cons_cons (n : Nat) (e e' : Ev) (rest : List Ev) :
    trailMisc n (e :: e' :: rest) = e :: trailMisc n (e' :: rest) := by
  cases e <;> rfl
theorem trailMisc_cons_ne (n : Nat) (e : Ev) (rest : List Ev) (h : e ≠ .eof) :
    trailMisc n (e :: rest) = e :: trailMisc n rest := by
  cases rest with
  | nil => cases e <;> first | rfl | exact absurd rfl h
  | cons e' r => simp

@[simp] theorem trailMisc_start (n : Nat) (t : Tag) (rest : List Ev) : trailMisc n (.start t :: rest) = .start t :: trailMisc n rest :=
  trailMisc_cons_ne _ _ _ (by simp)
@[simp] theorem trailMisc_empty (n : Nat) (t : Tag) (rest : List Ev) : trailMisc n (.empty t :: rest) = .empty t :: trailMisc n rest :=
  trailMisc_cons_ne _ _ _ (by simp)
@[simp] theorem trailMisc_end (n : Nat) (r : String) (rest : List Ev) : trailMisc n (.end r :: rest) = .end r :: trailMisc n rest :=
  trailMisc_cons_ne _ _ _ (by simp)
@[simp] theorem trailMisc_text (n : Nat) (r : String) (rest : List Ev) : trailMisc n (.text r :: rest) = .text r :: trailMisc n rest :=
  trailMisc_cons_ne _ _ _ (by simp)
@[simp] theorem trailMisc_cdata (n : Nat) (rest : List Ev) : trailMisc n (.cdata :: rest) = .cdata :: trailMisc n rest :=
  trailMisc_cons_ne _ _ _ (by simp)
@[simp] theorem trailMisc_comment (n : Nat) (rest : List Ev) : trailMisc n (.comment :: rest) = .comment :: trailMisc n rest :=
  trailMisc_cons_ne _ _ _ (by simp)
@[simp] theorem trailMisc_decl (n : Nat) (rest : List Ev) : trailMisc n (.decl :: rest) = .decl :: trailMisc n rest :=
  trailMisc_cons_ne _ _ _ (by simp)
@[simp] theorem trailMisc_pi (n : Nat) (rest : List Ev) : trailMisc n (.pi :: rest) = .pi :: trailMisc n rest :=
  trailMisc_cons_ne _ _ _ (by simp)
@[simp] theorem trailMisc_doctype (n : Nat) (rest : List Ev) : trailMisc n (.doctype :: rest) = .doctype :: trailMisc n rest :=
  trailMisc_cons_ne _ _ _ (by simp)
@[simp] theorem trailMisc_error (n : Nat) (rest : List Ev) : trailMisc n (.error :: rest) = .error :: trailMisc n rest :=
  trailMisc_cons_ne _ _ _ (by simp)

theorem trailMisc_eof (n : Nat) (rest : List Ev) :
    trailMisc n (.eof :: rest) = comments n ++ [.eof] ∨ trailMisc n (.eof :: rest) = .eof :: trailMisc n rest := by
  cases rest with
  | nil => exact .inl rfl
  | cons e r => exact .inr (by simp)

theorem trailMisc_append_eof (n : Nat) (body : List Ev) :
    trailMisc n (body ++ [.eof]) = body ++ comments n ++ [.eof] := by
  induction body with
  | nil => simp
  | cons e r ih =>
    cases r with
    | nil => simp
    | cons e' r' => simp only [List.cons_append] at ih ⊢; rw [trailMisc_cons_cons, ih]

theorem trailMisc_length (n : Nat) (evs : List Ev) : (trailMisc n evs).length ≤ evs.length + n := by
  induction evs with
  | nil => simp
  | cons e r ih =>
    cases r with
    | nil => cases e <;> simp [trailMisc_cons_ne, comments] <;> omega
    | cons e' r' => simp only [trailMisc_cons_cons, List.length_cons] at ih ⊢; omega

theorem length_le_trailMisc (n : Nat) (evs : List Ev) : evs.length ≤ (trailMisc n evs).length := by
  induction evs with
  | nil => simp
  | cons e r ih =>
    cases r with
    | nil => cases e <;> simp [trailMisc_cons_ne, comments]
    | cons e' r' => simp only [trailMisc_cons_cons, List.length_cons] at ih ⊢; omega

/-- the remaining events of an `ok` result get the insertion -/
def mapTrail {α} (n : Nat) : Except Err (α × List Ev) → Except Err (α × List Ev)
  | .ok (v, r) => .ok (v, trailMisc n r)
  | .error e => .error e

@[simp] theorem mapTrail_ok {α} (n : Nat) (v : α) (r : List Ev) : mapTrail n (.ok (v, r)) = .ok (v, trailMisc n r) := rfl
@[simp] theorem mapTrail_error {α} (n : Nat) (e : Err) : mapTrail (α := α) n (.error e) = .error e := rfl

@[simp] theorem comments_zero : comments 0 = [] := rfl
@[simp] theorem comments_succ (n : Nat) : comments (n + 1) = .comment :: comments n := rfl

/-! #### `read_to_end` -/

theorem skipToEnd_comments (name : String) (n : Nat) (tail : List Ev) (d : Nat) :
    skipToEnd name (comments n ++ .eof :: tail) d = .error .xml := by
  induction n with
  | zero => simp [skipToEnd]
  | succ n ih => simpa [skipToEnd] using ih

theorem skipToEnd_trail (name : String) (n : Nat) (evs : List Ev) (d : Nat) :
    skipToEnd name (trailMisc n evs) d = (match skipToEnd name evs d with
      | .ok r => .ok (trailMisc n r) | .error e => .error e) := by
  induction evs generalizing d with
  | nil => simp [skipToEnd]
  | cons ev rest ih =>
    cases ev with
    | start t => simp only [trailMisc_start, skipToEnd]; split <;> exact ih _
    | «end» raw =>
      simp only [trailMisc_end, skipToEnd]
      split
      · cases d with
        | zero => rfl
        | succ d => exact ih _
      · exact ih _
    | empty t => simpa [skipToEnd] using ih d
    | text s => simpa [skipToEnd] using ih d
    | cdata => simpa [skipToEnd] using ih d
    | comment => simpa [skipToEnd] using ih d
    | decl => simpa [skipToEnd] using ih d
    | pi => simpa [skipToEnd] using ih d
    | doctype => simpa [skipToEnd] using ih d
    | error => simp [skipToEnd]
    | eof =>
      rcases trailMisc_eof n rest with e | e <;> rw [e]
      · simp [skipToEnd_comments, skipToEnd]
      · simp [skipToEnd]

theorem readText_trail (n : Nat) (t : Tag) (rest : List Ev) :
    readText t (trailMisc n rest) = mapTrail n (readText t rest) := by
  simp only [readText, skipToEnd_trail]
  cases skipToEnd t.raw rest 0 with
  | error e => rfl
  | ok r => cases t.span <;> rfl

theorem skipToEndLenient_comments (name : String) (n : Nat) (tail : List Ev) (d : Nat) :
    skipToEndLenient name (comments n ++ .eof :: tail) d = .eof :: tail := by
  induction n with
  | zero => simp [skipToEndLenient]
  | succ n ih => simpa [skipToEndLenient] using ih

/-- phase 1's lenient skip either stops inside the list (and commutes with the insertion) or runs
into the final `Eof`, which it leaves in place -/
theorem skipToEndLenient_trail (name : String) (n : Nat) (evs : List Ev) (d : Nat) :
    skipToEndLenient name (trailMisc n evs) d = trailMisc n (skipToEndLenient name evs d) ∨
    skipToEndLenient name (trailMisc n evs) d = skipToEndLenient name evs d := by
  induction evs generalizing d with
  | nil => simp [skipToEndLenient]
  | cons ev rest ih =>
    cases ev with
    | start t => simp only [trailMisc_start, skipToEndLenient]; split <;> exact ih _
    | «end» raw =>
      simp only [trailMisc_end, skipToEndLenient]
      split
      · cases d with
        | zero => exact .inl rfl
        | succ d => exact ih _
      · exact ih _
    | empty t => simpa [skipToEndLenient] using ih d
    | text s => simpa [skipToEndLenient] using ih d
    | cdata => simpa [skipToEndLenient] using ih d
    | comment => simpa [skipToEndLenient] using ih d
    | decl => simpa [skipToEndLenient] using ih d
    | pi => simpa [skipToEndLenient] using ih d
    | doctype => simpa [skipToEndLenient] using ih d
    | error => simp [skipToEndLenient]
    | eof =>
      cases rest with
      | nil => right; rw [trailMisc_eof_nil, skipToEndLenient_comments]; rfl
      | cons e' r => left; simp [skipToEndLenient]

/-! #### the loops below the root element: `Eof` is an error there, with or without comments in
front of it -/

theorem infoLoop_comments (fuel : Nat) (endRaw : String) (acc : List InfoElem) (n : Nat) (tail : List Ev) :
    infoLoop fuel endRaw acc (comments n ++ .eof :: tail) = .error .fuel ∨
    infoLoop fuel endRaw acc (comments n ++ .eof :: tail) = .error .unexpected := by
  induction n generalizing fuel with
  | zero => cases fuel <;> simp [infoLoop]
  | succ n ih =>
    cases fuel with
    | zero => simp [infoLoop]
    | succ f => simpa [infoLoop] using ih f

theorem infoLoop_trail_eof (n fuel : Nat) (endRaw : String) (acc : List InfoElem) (rest : List Ev)
    (h : infoLoop fuel endRaw acc (trailMisc n (.eof :: rest)) ≠ .error .fuel) :
    infoLoop fuel endRaw acc (trailMisc n (.eof :: rest)) = mapTrail n (infoLoop fuel endRaw acc (.eof :: rest)) := by
  cases fuel with
  | zero => simp [infoLoop] at h
  | succ f =>
    rcases trailMisc_eof n rest with e | e <;> rw [e] at h ⊢
    · rcases infoLoop_comments (f + 1) endRaw acc n [] with h' | h'
      · exact absurd h' h
      · rw [h']; simp [infoLoop]
    · simp [infoLoop]

theorem infoLoop_trail (n fuel : Nat) (endRaw : String) (acc : List InfoElem) (evs : List Ev)
    (h : infoLoop fuel endRaw acc (trailMisc n evs) ≠ .error .fuel) :
    infoLoop fuel endRaw acc (trailMisc n evs) = mapTrail n (infoLoop fuel endRaw acc evs) := by
  fun_induction infoLoop fuel endRaw acc evs <;> (try cases ‹Ev›) <;>
    first
    | exact infoLoop_trail_eof _ _ _ _ _ (by assumption)
    | simp_all [infoLoop, readText_trail]

theorem infoLoop_trail_or (n fuel : Nat) (endRaw : String) (acc : List InfoElem) (evs : List Ev) :
    infoLoop fuel endRaw acc (trailMisc n evs) = .error .fuel ∨
    infoLoop fuel endRaw acc (trailMisc n evs) = mapTrail n (infoLoop fuel endRaw acc evs) := by
  by_cases h : infoLoop fuel endRaw acc (trailMisc n evs) = .error .fuel
  · exact .inl h
  · exact .inr (infoLoop_trail _ _ _ _ _ h)

theorem errorLoop_comments (fuel : Nat) (endRaw : String) (acc : ErrAcc) (n : Nat) (tail : List Ev) :
    errorLoop fuel endRaw acc (comments n ++ .eof :: tail) = .error .fuel ∨
    errorLoop fuel endRaw acc (comments n ++ .eof :: tail) = .error .unexpected := by
  induction n generalizing fuel with
  | zero => cases fuel <;> simp [errorLoop]
  | succ n ih =>
    cases fuel with
    | zero => simp [errorLoop]
    | succ f => simpa [errorLoop] using ih f

theorem errorLoop_trail_eof (n fuel : Nat) (endRaw : String) (acc : ErrAcc) (rest : List Ev)
    (h : errorLoop fuel endRaw acc (trailMisc n (.eof :: rest)) ≠ .error .fuel) :
    errorLoop fuel endRaw acc (trailMisc n (.eof :: rest)) = mapTrail n (errorLoop fuel endRaw acc (.eof :: rest)) := by
  cases fuel with
  | zero => simp [errorLoop] at h
  | succ f =>
    rcases trailMisc_eof n rest with e | e <;> rw [e] at h ⊢
    · rcases errorLoop_comments (f + 1) endRaw acc n [] with h' | h'
      · exact absurd h' h
      · rw [h']; simp [errorLoop]
    · simp [errorLoop]

theorem errorLoop_trail (n fuel : Nat) (endRaw : String) (acc : ErrAcc) (evs : List Ev)
    (h : errorLoop fuel endRaw acc (trailMisc n evs) ≠ .error .fuel) :
    errorLoop fuel endRaw acc (trailMisc n evs) = mapTrail n (errorLoop fuel endRaw acc evs) := by
  fun_induction errorLoop fuel endRaw acc evs <;> (try cases ‹Ev›) <;>
    first
    | exact errorLoop_trail_eof _ _ _ _ _ (by assumption)
    | (try simp only [errorLoop, trailMisc_start, readText_trail, mapTrail_ok, mapTrail_error, *] at h ⊢) <;>
        simp_all [errorLoop] <;> grind [infoLoop_trail_or, mapTrail_ok, mapTrail_error]

theorem readRpcError_trail_or (n fuel : Nat) (t : Tag) (evs : List Ev) :
    readRpcError fuel t (trailMisc n evs) = .error .fuel ∨
    readRpcError fuel t (trailMisc n evs) = mapTrail n (readRpcError fuel t evs) := by
  by_cases h : errorLoop fuel t.raw {} (trailMisc n evs) = .error .fuel
  · exact .inl h
  · exact .inr (errorLoop_trail _ _ _ _ _ h)

theorem emptyLoop_comments (fuel : Nat) (endRaw : String) (th : Bool) (errors : List RpcError) (n : Nat) (tail : List Ev) :
    emptyLoop fuel endRaw th errors (comments n ++ .eof :: tail) = .error .fuel ∨
    emptyLoop fuel endRaw th errors (comments n ++ .eof :: tail) = .error .unexpected := by
  induction n generalizing fuel with
  | zero => cases fuel <;> simp [emptyLoop]
  | succ n ih =>
    cases fuel with
    | zero => simp [emptyLoop]
    | succ f => simpa [emptyLoop] using ih f

theorem emptyLoop_trail_eof (n fuel : Nat) (endRaw : String) (th : Bool) (errors : List RpcError) (rest : List Ev)
    (h : emptyLoop fuel endRaw th errors (trailMisc n (.eof :: rest)) ≠ .error .fuel) :
    emptyLoop fuel endRaw th errors (trailMisc n (.eof :: rest)) = mapTrail n (emptyLoop fuel endRaw th errors (.eof :: rest)) := by
  cases fuel with
  | zero => simp [emptyLoop] at h
  | succ f =>
    rcases trailMisc_eof n rest with e | e <;> rw [e] at h ⊢
    · rcases emptyLoop_comments (f + 1) endRaw th errors n [] with h' | h'
      · exact absurd h' h
      · rw [h']; simp [emptyLoop]
    · simp [emptyLoop]

theorem emptyLoop_trail (n fuel : Nat) (endRaw : String) (th : Bool) (errors : List RpcError) (evs : List Ev)
    (h : emptyLoop fuel endRaw th errors (trailMisc n evs) ≠ .error .fuel) :
    emptyLoop fuel endRaw th errors (trailMisc n evs) = mapTrail n (emptyLoop fuel endRaw th errors evs) := by
  fun_induction emptyLoop fuel endRaw th errors evs <;> (try cases ‹Ev›) <;>
    first
    | exact emptyLoop_trail_eof _ _ _ _ _ _ (by assumption)
    | (try simp only [emptyLoop, trailMisc_start, trailMisc_empty, mapTrail_ok, mapTrail_error, *] at h ⊢) <;>
        simp_all [emptyLoop] <;> grind [readRpcError_trail_or, mapTrail_ok, mapTrail_error]

theorem emptyLoop_trail_or (n fuel : Nat) (endRaw : String) (th : Bool) (errors : List RpcError) (evs : List Ev) :
    emptyLoop fuel endRaw th errors (trailMisc n evs) = .error .fuel ∨
    emptyLoop fuel endRaw th errors (trailMisc n evs) = mapTrail n (emptyLoop fuel endRaw th errors evs) := by
  by_cases h : emptyLoop fuel endRaw th errors (trailMisc n evs) = .error .fuel
  · exact .inl h
  · exact .inr (emptyLoop_trail _ _ _ _ _ _ h)

theorem dataLoop_comments (fuel : Nat) (endRaw : String) (th : Option String) (errors : List RpcError) (n : Nat) (tail : List Ev) :
    dataLoop fuel endRaw th errors (comments n ++ .eof :: tail) = .error .fuel ∨
    dataLoop fuel endRaw th errors (comments n ++ .eof :: tail) = .error .unexpected := by
  induction n generalizing fuel with
  | zero => cases fuel <;> simp [dataLoop]
  | succ n ih =>
    cases fuel with
    | zero => simp [dataLoop]
    | succ f => simpa [dataLoop] using ih f

theorem dataLoop_trail_eof (n fuel : Nat) (endRaw : String) (th : Option String) (errors : List RpcError) (rest : List Ev)
    (h : dataLoop fuel endRaw th errors (trailMisc n (.eof :: rest)) ≠ .error .fuel) :
    dataLoop fuel endRaw th errors (trailMisc n (.eof :: rest)) = mapTrail n (dataLoop fuel endRaw th errors (.eof :: rest)) := by
  cases fuel with
  | zero => simp [dataLoop] at h
  | succ f =>
    rcases trailMisc_eof n rest with e | e <;> rw [e] at h ⊢
    · rcases dataLoop_comments (f + 1) endRaw th errors n [] with h' | h'
      · exact absurd h' h
      · rw [h']; simp [dataLoop]
    · simp [dataLoop]

theorem dataLoop_trail (n fuel : Nat) (endRaw : String) (th : Option String) (errors : List RpcError) (evs : List Ev)
    (h : dataLoop fuel endRaw th errors (trailMisc n evs) ≠ .error .fuel) :
    dataLoop fuel endRaw th errors (trailMisc n evs) = mapTrail n (dataLoop fuel endRaw th errors evs) := by
  fun_induction dataLoop fuel endRaw th errors evs <;> (try cases ‹Ev›) <;>
    first
    | exact dataLoop_trail_eof _ _ _ _ _ _ (by assumption)
    | (try simp only [dataLoop, trailMisc_start, trailMisc_empty, readText_trail, mapTrail_ok, mapTrail_error, *] at h ⊢) <;>
        simp_all [dataLoop] <;> grind [readRpcError_trail_or, mapTrail_ok, mapTrail_error]

theorem dataLoop_trail_or (n fuel : Nat) (endRaw : String) (th : Option String) (errors : List RpcError) (evs : List Ev) :
    dataLoop fuel endRaw th errors (trailMisc n evs) = .error .fuel ∨
    dataLoop fuel endRaw th errors (trailMisc n evs) = mapTrail n (dataLoop fuel endRaw th errors evs) := by
  by_cases h : dataLoop fuel endRaw th errors (trailMisc n evs) = .error .fuel
  · exact .inl h
  · exact .inr (dataLoop_trail _ _ _ _ _ _ h)

theorem bareLoop_comments (fuel : Nat) (endRaw : String) (errors : List RpcError) (n : Nat) (tail : List Ev) :
    bareLoop fuel endRaw errors (comments n ++ .eof :: tail) = .error .fuel ∨
    bareLoop fuel endRaw errors (comments n ++ .eof :: tail) = .error .unexpected := by
  induction n generalizing fuel with
  | zero => cases fuel <;> simp [bareLoop]
  | succ n ih =>
    cases fuel with
    | zero => simp [bareLoop]
    | succ f => simpa [bareLoop] using ih f

theorem bareLoop_trail_eof (n fuel : Nat) (endRaw : String) (errors : List RpcError) (rest : List Ev)
    (h : bareLoop fuel endRaw errors (trailMisc n (.eof :: rest)) ≠ .error .fuel) :
    bareLoop fuel endRaw errors (trailMisc n (.eof :: rest)) = mapTrail n (bareLoop fuel endRaw errors (.eof :: rest)) := by
  cases fuel with
  | zero => simp [bareLoop] at h
  | succ f =>
    rcases trailMisc_eof n rest with e | e <;> rw [e] at h ⊢
    · rcases bareLoop_comments (f + 1) endRaw errors n [] with h' | h'
      · exact absurd h' h
      · rw [h']; simp [bareLoop]
    · simp [bareLoop]

theorem bareLoop_trail (n fuel : Nat) (endRaw : String) (errors : List RpcError) (evs : List Ev)
    (h : bareLoop fuel endRaw errors (trailMisc n evs) ≠ .error .fuel) :
    bareLoop fuel endRaw errors (trailMisc n evs) = mapTrail n (bareLoop fuel endRaw errors evs) := by
  fun_induction bareLoop fuel endRaw errors evs <;> (try cases ‹Ev›) <;>
    first
    | exact bareLoop_trail_eof _ _ _ _ _ (by assumption)
    | (try simp only [bareLoop, trailMisc_start, trailMisc_empty, mapTrail_ok, mapTrail_error, *] at h ⊢) <;>
        simp_all [bareLoop] <;> grind [readRpcError_trail_or, mapTrail_ok, mapTrail_error]

theorem bareLoop_trail_or (n fuel : Nat) (endRaw : String) (errors : List RpcError) (evs : List Ev) :
    bareLoop fuel endRaw errors (trailMisc n evs) = .error .fuel ∨
    bareLoop fuel endRaw errors (trailMisc n evs) = mapTrail n (bareLoop fuel endRaw errors evs) := by
  by_cases h : bareLoop fuel endRaw errors (trailMisc n evs) = .error .fuel
  · exact .inl h
  · exact .inr (bareLoop_trail _ _ _ _ _ h)

theorem loadInner_comments (c : RCfg) (fuel : Nat) (endRaw : String) (st : LoadSt) (n : Nat) (tail : List Ev) :
    loadInner c fuel endRaw st (comments n ++ .eof :: tail) = .error .fuel ∨
    loadInner c fuel endRaw st (comments n ++ .eof :: tail) = .error .unexpected := by
  induction n generalizing fuel with
  | zero => cases fuel <;> simp [loadInner]
  | succ n ih =>
    cases fuel with
    | zero => simp [loadInner]
    | succ f => simpa [loadInner] using ih f

theorem loadInner_trail_eof (c : RCfg) (n fuel : Nat) (endRaw : String) (st : LoadSt) (rest : List Ev)
    (h : loadInner c fuel endRaw st (trailMisc n (.eof :: rest)) ≠ .error .fuel) :
    loadInner c fuel endRaw st (trailMisc n (.eof :: rest)) = mapTrail n (loadInner c fuel endRaw st (.eof :: rest)) := by
  cases fuel with
  | zero => simp [loadInner] at h
  | succ f =>
    rcases trailMisc_eof n rest with e | e <;> rw [e] at h ⊢
    · rcases loadInner_comments c (f + 1) endRaw st n [] with h' | h'
      · exact absurd h' h
      · rw [h']; simp [loadInner]
    · simp [loadInner]

theorem loadInner_trail (c : RCfg) (n fuel : Nat) (endRaw : String) (st : LoadSt) (evs : List Ev)
    (h : loadInner c fuel endRaw st (trailMisc n evs) ≠ .error .fuel) :
    loadInner c fuel endRaw st (trailMisc n evs) = mapTrail n (loadInner c fuel endRaw st evs) := by
  fun_induction loadInner c fuel endRaw st evs <;> (try cases ‹Ev›) <;>
    first
    | exact loadInner_trail_eof _ _ _ _ _ _ (by assumption)
    | (try simp only [loadInner, trailMisc_start, trailMisc_empty, readText_trail, mapTrail_ok, mapTrail_error, *] at h ⊢) <;>
        simp_all [loadInner] <;> grind [readRpcError_trail_or, mapTrail_ok, mapTrail_error]

theorem loadInner_trail_or (c : RCfg) (n fuel : Nat) (endRaw : String) (st : LoadSt) (evs : List Ev) :
    loadInner c fuel endRaw st (trailMisc n evs) = .error .fuel ∨
    loadInner c fuel endRaw st (trailMisc n evs) = mapTrail n (loadInner c fuel endRaw st evs) := by
  by_cases h : loadInner c fuel endRaw st (trailMisc n evs) = .error .fuel
  · exact .inl h
  · exact .inr (loadInner_trail _ _ _ _ _ _ h)

theorem loadOuter_comments (c : RCfg) (fuel : Nat) (endRaw : String) (st : LoadSt) (n : Nat) (tail : List Ev) :
    loadOuter c fuel endRaw st (comments n ++ .eof :: tail) = .error .fuel ∨
    loadOuter c fuel endRaw st (comments n ++ .eof :: tail) = .error .unexpected := by
  induction n generalizing fuel with
  | zero => cases fuel <;> simp [loadOuter]
  | succ n ih =>
    cases fuel with
    | zero => simp [loadOuter]
    | succ f => simpa [loadOuter] using ih f

theorem loadOuter_trail_eof (c : RCfg) (n fuel : Nat) (endRaw : String) (st : LoadSt) (rest : List Ev)
    (h : loadOuter c fuel endRaw st (trailMisc n (.eof :: rest)) ≠ .error .fuel) :
    loadOuter c fuel endRaw st (trailMisc n (.eof :: rest)) = mapTrail n (loadOuter c fuel endRaw st (.eof :: rest)) := by
  cases fuel with
  | zero => simp [loadOuter] at h
  | succ f =>
    rcases trailMisc_eof n rest with e | e <;> rw [e] at h ⊢
    · rcases loadOuter_comments c (f + 1) endRaw st n [] with h' | h'
      · exact absurd h' h
      · rw [h']; simp [loadOuter]
    · simp [loadOuter]

theorem loadOuter_trail (c : RCfg) (n fuel : Nat) (endRaw : String) (st : LoadSt) (evs : List Ev)
    (h : loadOuter c fuel endRaw st (trailMisc n evs) ≠ .error .fuel) :
    loadOuter c fuel endRaw st (trailMisc n evs) = mapTrail n (loadOuter c fuel endRaw st evs) := by
  fun_induction loadOuter c fuel endRaw st evs <;> (try cases ‹Ev›) <;>
    first
    | exact loadOuter_trail_eof _ _ _ _ _ _ (by assumption)
    | (try simp only [loadOuter, trailMisc_start, trailMisc_empty, mapTrail_ok, mapTrail_error, *] at h ⊢) <;>
        simp_all [loadOuter] <;> grind [loadInner_trail_or, mapTrail_ok, mapTrail_error]

theorem loadOuter_trail_or (c : RCfg) (n fuel : Nat) (endRaw : String) (st : LoadSt) (evs : List Ev) :
    loadOuter c fuel endRaw st (trailMisc n evs) = .error .fuel ∨
    loadOuter c fuel endRaw st (trailMisc n evs) = mapTrail n (loadOuter c fuel endRaw st evs) := by
  by_cases h : loadOuter c fuel endRaw st (trailMisc n evs) = .error .fuel
  · exact .inl h
  · exact .inr (loadOuter_trail _ _ _ _ _ _ h)

theorem capsLoop_comments (c : RCfg) (o : UriOracle) (fuel : Nat) (endRaw : String) (acc : List Capability) (n : Nat) (tail : List Ev) :
    capsLoop c o fuel endRaw acc (comments n ++ .eof :: tail) = .error .fuel ∨
    capsLoop c o fuel endRaw acc (comments n ++ .eof :: tail) = .error .unexpected := by
  induction n generalizing fuel with
  | zero => cases fuel <;> simp [capsLoop]
  | succ n ih =>
    cases fuel with
    | zero => simp [capsLoop]
    | succ f =>
      by_cases hc : c.capsComment = true
      · simpa [capsLoop, hc] using ih f
      · simp [capsLoop, hc]

theorem capsLoop_trail_eof (c : RCfg) (o : UriOracle) (n fuel : Nat) (endRaw : String) (acc : List Capability) (rest : List Ev)
    (h : capsLoop c o fuel endRaw acc (trailMisc n (.eof :: rest)) ≠ .error .fuel) :
    capsLoop c o fuel endRaw acc (trailMisc n (.eof :: rest)) = mapTrail n (capsLoop c o fuel endRaw acc (.eof :: rest)) := by
  cases fuel with
  | zero => simp [capsLoop] at h
  | succ f =>
    rcases trailMisc_eof n rest with e | e <;> rw [e] at h ⊢
    · rcases capsLoop_comments c o (f + 1) endRaw acc n [] with h' | h'
      · exact absurd h' h
      · rw [h']; simp [capsLoop]
    · simp [capsLoop]

theorem capsLoop_trail (c : RCfg) (o : UriOracle) (n fuel : Nat) (endRaw : String) (acc : List Capability) (evs : List Ev)
    (h : capsLoop c o fuel endRaw acc (trailMisc n evs) ≠ .error .fuel) :
    capsLoop c o fuel endRaw acc (trailMisc n evs) = mapTrail n (capsLoop c o fuel endRaw acc evs) := by
  fun_induction capsLoop c o fuel endRaw acc evs <;> (try cases ‹Ev›) <;>
    first
    | exact capsLoop_trail_eof _ _ _ _ _ _ _ (by assumption)
    | (try simp only [capsLoop, trailMisc_start, trailMisc_empty, readText_trail, mapTrail_ok, mapTrail_error, *] at h ⊢) <;>
        simp_all [capsLoop] <;> grind [mapTrail_ok, mapTrail_error]

theorem capsLoop_trail_or (c : RCfg) (o : UriOracle) (n fuel : Nat) (endRaw : String) (acc : List Capability) (evs : List Ev) :
    capsLoop c o fuel endRaw acc (trailMisc n evs) = .error .fuel ∨
    capsLoop c o fuel endRaw acc (trailMisc n evs) = mapTrail n (capsLoop c o fuel endRaw acc evs) := by
  by_cases h : capsLoop c o fuel endRaw acc (trailMisc n evs) = .error .fuel
  · exact .inl h
  · exact .inr (capsLoop_trail _ _ _ _ _ _ _ h)

theorem helloLoop_comments (c : RCfg) (o : UriOracle) (fuel : Nat) (endRaw : String) (caps : Option (List Capability)) (sid : Option Nat) (n : Nat) (tail : List Ev) :
    helloLoop c o fuel endRaw caps sid (comments n ++ .eof :: tail) = .error .fuel ∨
    helloLoop c o fuel endRaw caps sid (comments n ++ .eof :: tail) = .error .unexpected := by
  induction n generalizing fuel with
  | zero => cases fuel <;> simp [helloLoop]
  | succ n ih =>
    cases fuel with
    | zero => simp [helloLoop]
    | succ f => simpa [helloLoop] using ih f

theorem helloLoop_trail_eof (c : RCfg) (o : UriOracle) (n fuel : Nat) (endRaw : String) (caps : Option (List Capability)) (sid : Option Nat) (rest : List Ev)
    (h : helloLoop c o fuel endRaw caps sid (trailMisc n (.eof :: rest)) ≠ .error .fuel) :
    helloLoop c o fuel endRaw caps sid (trailMisc n (.eof :: rest)) = mapTrail n (helloLoop c o fuel endRaw caps sid (.eof :: rest)) := by
  cases fuel with
  | zero => simp [helloLoop] at h
  | succ f =>
    rcases trailMisc_eof n rest with e | e <;> rw [e] at h ⊢
    · rcases helloLoop_comments c o (f + 1) endRaw caps sid n [] with h' | h'
      · exact absurd h' h
      · rw [h']; simp [helloLoop]
    · simp [helloLoop]

theorem helloLoop_trail (c : RCfg) (o : UriOracle) (n fuel : Nat) (endRaw : String) (caps : Option (List Capability)) (sid : Option Nat) (evs : List Ev)
    (h : helloLoop c o fuel endRaw caps sid (trailMisc n evs) ≠ .error .fuel) :
    helloLoop c o fuel endRaw caps sid (trailMisc n evs) = mapTrail n (helloLoop c o fuel endRaw caps sid evs) := by
  fun_induction helloLoop c o fuel endRaw caps sid evs <;> (try cases ‹Ev›) <;>
    first
    | exact helloLoop_trail_eof _ _ _ _ _ _ _ _ (by assumption)
    | (try simp only [helloLoop, trailMisc_start, trailMisc_empty, readText_trail, mapTrail_ok, mapTrail_error, *] at h ⊢) <;>
        simp_all [helloLoop] <;> grind [capsLoop_trail_or, mapTrail_ok, mapTrail_error]

theorem helloLoop_trail_or (c : RCfg) (o : UriOracle) (n fuel : Nat) (endRaw : String) (caps : Option (List Capability)) (sid : Option Nat) (evs : List Ev) :
    helloLoop c o fuel endRaw caps sid (trailMisc n evs) = .error .fuel ∨
    helloLoop c o fuel endRaw caps sid (trailMisc n evs) = mapTrail n (helloLoop c o fuel endRaw caps sid evs) := by
  by_cases h : helloLoop c o fuel endRaw caps sid (trailMisc n evs) = .error .fuel
  · exact .inl h
  · exact .inr (helloLoop_trail _ _ _ _ _ _ _ _ h)

theorem readBody_trail_or (c : RCfg) (k : ReplyKind) (n fuel : Nat) (t : Tag) (evs : List Ev) :
    readBody c k fuel t (trailMisc n evs) = .error .fuel ∨
    readBody c k fuel t (trailMisc n evs) = mapTrail n (readBody c k fuel t evs) := by
  cases k <;> simp only [readBody]
  · exact emptyLoop_trail_or _ _ _ _ _ _
  · exact dataLoop_trail_or _ _ _ _ _ _
  · exact bareLoop_trail_or _ _ _ _ _
  · exact loadOuter_trail_or _ _ _ _ _ _

theorem readReplyElem_trail_or (c : RCfg) (k : ReplyKind) (n fuel : Nat) (t : Tag) (evs : List Ev) :
    readReplyElem c k fuel t (trailMisc n evs) = .error .fuel ∨
    readReplyElem c k fuel t (trailMisc n evs) = mapTrail n (readReplyElem c k fuel t evs) := by
  unfold readReplyElem
  cases getAttr "message-id" t.attrs with
  | error e => exact .inr rfl
  | ok oa =>
    cases oa with
    | none => exact .inr rfl
    | some a =>
      simp only []
      cases parseMessageId a with
      | error e => exact .inr rfl
      | ok id =>
        simp only []
        rcases readBody_trail_or c k n fuel t evs with h | h <;> rw [h]
        · exact .inl rfl
        · right
          cases readBody c k fuel t evs with
          | error e => rfl
          | ok p => rfl

/-! #### the document-level loops: comments in front of the final `Eof` are skipped -/

theorem fromXmlReply_comments (c : RCfg) (k : ReplyKind) (fuel : Nat) (this : Option (Nat × Body)) (n : Nat) (tail : List Ev) :
    fromXmlReply c k fuel this (comments n ++ .eof :: tail) = .error .fuel ∨
    fromXmlReply c k fuel this (comments n ++ .eof :: tail) = fromXmlReply c k 1 this [.eof] := by
  induction n generalizing fuel with
  | zero => cases fuel <;> simp [fromXmlReply]
  | succ n ih =>
    cases fuel with
    | zero => simp [fromXmlReply]
    | succ f => simpa [fromXmlReply] using ih f

theorem fromXmlReply_trail_eof (c : RCfg) (k : ReplyKind) (n fuel : Nat) (this : Option (Nat × Body)) (rest : List Ev)
    (h : fromXmlReply c k fuel this (trailMisc n (.eof :: rest)) ≠ .error .fuel) :
    fromXmlReply c k fuel this (trailMisc n (.eof :: rest)) = fromXmlReply c k fuel this (.eof :: rest) := by
  cases fuel with
  | zero => simp [fromXmlReply] at h
  | succ f =>
    rcases trailMisc_eof n rest with e | e <;> rw [e] at h ⊢
    · rcases fromXmlReply_comments c k (f + 1) this n [] with h' | h'
      · exact absurd h' h
      · rw [h']; simp [fromXmlReply]
    · simp [fromXmlReply]

theorem fromXmlReply_trail (c : RCfg) (k : ReplyKind) (n fuel : Nat) (this : Option (Nat × Body)) (evs : List Ev)
    (h : fromXmlReply c k fuel this (trailMisc n evs) ≠ .error .fuel) :
    fromXmlReply c k fuel this (trailMisc n evs) = fromXmlReply c k fuel this evs := by
  fun_induction fromXmlReply c k fuel this evs <;> (try cases ‹Ev›) <;>
    first
    | exact fromXmlReply_trail_eof _ _ _ _ _ _ (by assumption)
    | (try simp only [fromXmlReply, trailMisc_start, *] at h ⊢) <;>
        simp_all [fromXmlReply] <;> grind [readReplyElem_trail_or, mapTrail_ok, mapTrail_error]

theorem readPartial_comments (c : RCfg) (fuel : Nat) (mid : Option Nat) (n : Nat) (tail : List Ev) :
    readPartial c fuel mid (comments n ++ .eof :: tail) = .error .fuel ∨
    readPartial c fuel mid (comments n ++ .eof :: tail) = readPartial c 1 mid [.eof] := by
  induction n generalizing fuel with
  | zero => cases fuel <;> simp [readPartial]
  | succ n ih =>
    cases fuel with
    | zero => simp [readPartial]
    | succ f => simpa [readPartial] using ih f

theorem readPartial_trail_eof (c : RCfg) (n fuel : Nat) (mid : Option Nat) (rest : List Ev)
    (h : readPartial c fuel mid (trailMisc n (.eof :: rest)) ≠ .error .fuel) :
    readPartial c fuel mid (trailMisc n (.eof :: rest)) = readPartial c fuel mid (.eof :: rest) := by
  cases fuel with
  | zero => simp [readPartial] at h
  | succ f =>
    rcases trailMisc_eof n rest with e | e <;> rw [e] at h ⊢
    · rcases readPartial_comments c (f + 1) mid n [] with h' | h'
      · exact absurd h' h
      · rw [h']; simp [readPartial]
    · simp [readPartial]

theorem readPartial_trail (c : RCfg) (n fuel : Nat) (mid : Option Nat) (evs : List Ev)
    (h : readPartial c fuel mid (trailMisc n evs) ≠ .error .fuel) :
    readPartial c fuel mid (trailMisc n evs) = readPartial c fuel mid evs := by
  fun_induction readPartial c fuel mid evs <;> (try cases ‹Ev›) <;>
    first
    | exact readPartial_trail_eof _ _ _ _ _ (by assumption)
    | (try simp only [readPartial, trailMisc_start, *] at h ⊢) <;>
        simp_all [readPartial] <;> grind [skipToEndLenient_trail]

theorem fromXmlHello_comments (c : RCfg) (o : UriOracle) (fuel : Nat) (this : Option Hello) (n : Nat) (tail : List Ev) :
    fromXmlHello c o fuel this (comments n ++ .eof :: tail) = .error .fuel ∨
    fromXmlHello c o fuel this (comments n ++ .eof :: tail) = fromXmlHello c o 1 this [.eof] := by
  induction n generalizing fuel with
  | zero => cases fuel <;> simp [fromXmlHello]
  | succ n ih =>
    cases fuel with
    | zero => simp [fromXmlHello]
    | succ f => simpa [fromXmlHello] using ih f

theorem fromXmlHello_trail_eof (c : RCfg) (o : UriOracle) (n fuel : Nat) (this : Option Hello) (rest : List Ev)
    (h : fromXmlHello c o fuel this (trailMisc n (.eof :: rest)) ≠ .error .fuel) :
    fromXmlHello c o fuel this (trailMisc n (.eof :: rest)) = fromXmlHello c o fuel this (.eof :: rest) := by
  cases fuel with
  | zero => simp [fromXmlHello] at h
  | succ f =>
    rcases trailMisc_eof n rest with e | e <;> rw [e] at h ⊢
    · rcases fromXmlHello_comments c o (f + 1) this n [] with h' | h'
      · exact absurd h' h
      · rw [h']; simp [fromXmlHello]
    · simp [fromXmlHello]

theorem fromXmlHello_trail (c : RCfg) (o : UriOracle) (n fuel : Nat) (this : Option Hello) (evs : List Ev)
    (h : fromXmlHello c o fuel this (trailMisc n evs) ≠ .error .fuel) :
    fromXmlHello c o fuel this (trailMisc n evs) = fromXmlHello c o fuel this evs := by
  fun_induction fromXmlHello c o fuel this evs <;> (try cases ‹Ev›) <;>
    first
    | exact fromXmlHello_trail_eof _ _ _ _ _ _ (by assumption)
    | (try simp only [fromXmlHello, trailMisc_start, *] at h ⊢) <;>
        simp_all [fromXmlHello] <;> grind [helloLoop_trail_or, mapTrail_ok, mapTrail_error]

/-! ### whole messages -/

/-- `n` comments in front of the final `Eof` make no difference to a reply — every event list -/
theorem readMessage_trail (c : RCfg) (k : ReplyKind) (n : Nat) (evs : List Ev) :
    readMessage c k (trailMisc n evs) = readMessage c k evs := by
  obtain ⟨d, hd⟩ : ∃ d, (trailMisc n evs).length + 1 = evs.length + 1 + d :=
    ⟨(trailMisc n evs).length - evs.length, by have := length_le_trailMisc n evs; omega⟩
  have h1 : ∀ mid, readPartial c ((trailMisc n evs).length + 1) mid (trailMisc n evs)
      = readPartial c (evs.length + 1) mid evs := by
    intro mid
    rw [readPartial_trail _ _ _ _ _ (readPartial_total _ _ _ _ (by omega)), hd,
      readPartial_mono_add _ _ _ _ (readPartial_total _ _ _ _ (by omega))]
  have h2 : ∀ th, fromXmlReply c k ((trailMisc n evs).length + 1) th (trailMisc n evs)
      = fromXmlReply c k (evs.length + 1) th evs := by
    intro th
    rw [fromXmlReply_trail _ _ _ _ _ _ (fromXmlReply_total _ _ _ _ _ (by omega)), hd,
      fromXmlReply_mono_add _ _ _ _ _ (fromXmlReply_total _ _ _ _ _ (by omega))]
  unfold readMessage phase2
  rw [h1, h2]

/-- … nor to session establishment -/
theorem establish_trail (c : RCfg) (adv : Bool) (o : UriOracle) (n : Nat) (evs : List Ev) :
    establish c adv o (trailMisc n evs) = establish c adv o evs := by
  obtain ⟨d, hd⟩ : ∃ d, (trailMisc n evs).length + 1 = evs.length + 1 + d :=
    ⟨(trailMisc n evs).length - evs.length, by have := length_le_trailMisc n evs; omega⟩
  unfold establish
  rw [fromXmlHello_trail _ _ _ _ _ _ (fromXmlHello_total _ _ _ _ _ (by omega)), hd,
    fromXmlHello_mono_add _ _ _ _ _ (fromXmlHello_total _ _ _ _ _ (by omega))]

/-! ### comments in front of the root element -/

theorem readMessage_lead (c : RCfg) (k : ReplyKind) (n : Nat) (evs : List Ev) :
    readMessage c k (comments n ++ evs) = readMessage c k evs := by
  induction n with
  | zero => simp
  | succ n ih =>
    have h1 : ∀ mid, readPartial c ((Ev.comment :: (comments n ++ evs)).length + 1) mid (.comment :: (comments n ++ evs))
        = readPartial c ((comments n ++ evs).length + 1) mid (comments n ++ evs) := by
      intro mid; simp [readPartial]
    have h2 : ∀ th, fromXmlReply c k ((Ev.comment :: (comments n ++ evs)).length + 1) th (.comment :: (comments n ++ evs))
        = fromXmlReply c k ((comments n ++ evs).length + 1) th (comments n ++ evs) := by
      intro th; simp [fromXmlReply]
    rw [← ih, comments_succ, List.cons_append]
    unfold readMessage phase2
    rw [h1, h2]

theorem establish_lead (c : RCfg) (adv : Bool) (o : UriOracle) (n : Nat) (evs : List Ev) :
    establish c adv o (comments n ++ evs) = establish c adv o evs := by
  induction n with
  | zero => simp
  | succ n ih =>
    have h : fromXmlHello c o ((Ev.comment :: (comments n ++ evs)).length + 1) none (.comment :: (comments n ++ evs))
        = fromXmlHello c o ((comments n ++ evs).length + 1) none (comments n ++ evs) := by
      simp [fromXmlHello]
    rw [← ih, comments_succ, List.cons_append]
    unfold establish
    rw [h]

/-! ### the grammar documents with `Misc` around the root element -/

theorem replyDocMisc_eq (pre post : Nat) (raw idAttr : String) (extra : List AttrItem) (cs : List Top) :
    replyDocMisc pre post raw idAttr extra cs = comments pre ++ trailMisc post (replyDoc raw idAttr extra cs) := by
  have : replyDoc raw idAttr extra cs
      = (.start (replyTag raw idAttr extra) :: (cs.flatMap Top.render ++ [.end raw])) ++ [.eof] := by
    simp [replyDoc, replyTag]
  rw [this, trailMisc_append_eof]
  simp [replyDocMisc, replyTag, comments]

theorem helloDocMisc_eq (pre post : Nat) (raw : String) (attrs : List AttrItem) (cs : List HChild) :
    helloDocMisc pre post raw attrs cs = comments pre ++ trailMisc post (helloDoc raw attrs cs) := by
  have : helloDoc raw attrs cs
      = (.start (helloTag raw attrs) :: (cs.flatMap HChild.render ++ [.end raw])) ++ [.eof] := by
    simp [helloDoc, helloTag]
  rw [this, trailMisc_append_eof]
  simp [helloDocMisc, helloTag, comments]

end Xml
