import Bgpfu.Model.BuildSpec
import Bgpfu.Lemmas.CapsExact
/-! Helper lemmas for C09 (`Bgpfu.Thm.C09`): fold invariants, the bridge between the code's
`Requirements.check` and the RFC table's `Requirement.check`, and one safety lemma per builder. -/
set_option linter.unusedSimpArgs false
namespace Builders
open Caps Rfc

/-- every labelled requirement of the list holds -/
def allOk (caps : List Capability) (l : List Labelled) : Bool := l.all fun lq => lq.2.check caps

theorem allOk_append (caps) (a b : List Labelled) :
    allOk caps (a ++ b) = (allOk caps a && allOk caps b) := by
  simp [allOk]

theorem allOk_nil (caps) : allOk caps [] = true := rfl

theorem allOk_iff (caps) (r : Request) :
    allOk caps (requiresL r) = true ↔ ∀ q ∈ requires r, q.check caps = true := by
  simp only [allOk, requires, List.all_eq_true, List.mem_map]
  constructor
  · rintro h q ⟨lq, hm, rfl⟩; exact h lq hm
  · intro h lq hm; exact h lq.2 ⟨lq, hm, rfl⟩

theorem allOk_unlabel (caps) (l : List Labelled) :
    allOk caps l = true ↔ ∀ q ∈ unlabel l, q.check caps = true := by
  simp only [allOk, unlabel, List.all_eq_true, List.mem_map]
  constructor
  · rintro h q ⟨lq, hm, rfl⟩; exact h lq hm
  · intro h lq hm; exact h lq.2 ⟨lq, hm, rfl⟩

/-! ### folds -/

theorem foldCalls_inv {σ κ : Type} (step : σ → κ → Except ErrKind σ) (P : σ → Prop)
    (hstep : ∀ s c s', step s c = .ok s' → P s → P s') :
    ∀ (cs : List κ) (s s' : σ), foldCalls step s cs = .ok s' → P s → P s' := by
  intro cs
  induction cs with
  | nil =>
    intro s s' h hp
    simp only [foldCalls, Except.ok.injEq] at h
    subst h; exact hp
  | cons c cs ih =>
    intro s s' h hp
    simp only [foldCalls] at h
    split at h
    · next s1 h1 => exact ih s1 s' h (hstep s c s1 h1 hp)
    · cases h

theorem foldCalls_ok {σ κ : Type} (step : σ → κ → Except ErrKind σ) :
    ∀ (cs : List κ), (∀ c ∈ cs, ∀ s, ∃ s', step s c = .ok s') → ∀ s, ∃ s', foldCalls step s cs = .ok s' := by
  intro cs
  induction cs with
  | nil => intro _ s; exact ⟨s, rfl⟩
  | cons c cs ih =>
    intro h s
    obtain ⟨s1, h1⟩ := h c (by simp) s
    obtain ⟨s2, h2⟩ := ih (fun c' hc' => h c' (by simp [hc'])) s1
    exact ⟨s2, by simp [foldCalls, h1, h2]⟩

/-- a property established by some call of kind `Q` and preserved by every call holds at the end -/
theorem foldCalls_reach {σ κ : Type} (step : σ → κ → Except ErrKind σ) (Q : κ → Bool) (P : σ → Prop)
    (hset : ∀ s c s', step s c = .ok s' → Q c = true → P s')
    (hkeep : ∀ s c s', step s c = .ok s' → P s → P s') :
    ∀ (cs : List κ) (s s' : σ), foldCalls step s cs = .ok s' → cs.any Q = true → P s' := by
  intro cs
  induction cs with
  | nil => intro s s' _ h; simp at h
  | cons c cs ih =>
    intro s s' h hq
    simp only [foldCalls] at h
    split at h
    · next s1 h1 =>
      by_cases hc : Q c = true
      · exact foldCalls_inv step P hkeep cs s1 s' h (hset s c s1 h1 hc)
      · simp only [List.any_cons, hc, Bool.false_or] at hq
        exact ih s1 s' h hq
    · cases h

/-! ### code checks ⇒ RFC requirements -/

theorem tryAsSource_ok {ctx d d'} (h : tryAsSource ctx d = .ok d') :
    d' = d ∧ (sourceReq d).check ctx.caps = true := by
  unfold tryAsSource at h; split at h <;> simp_all

theorem tryAsTarget_ok {ctx d d'} (h : tryAsTarget ctx d = .ok d') :
    d' = d ∧ (targetReq d).check ctx.caps = true := by
  unfold tryAsTarget at h; split at h <;> simp_all

theorem tryAsLockTarget_ok {ctx d d'} (h : tryAsLockTarget ctx d = .ok d') :
    d' = d ∧ (lockTargetReq d).check ctx.caps = true := by
  unfold tryAsLockTarget at h; split at h <;> simp_all

theorem filterOptTryUse_ok {ctx f f'} (h : filterOptTryUse ctx f = .ok f') :
    f' = f ∧ ∀ x, f = some x → (filterReq x).check ctx.caps = true := by
  cases f with
  | none => simp [filterOptTryUse] at h; subst h; simp
  | some x =>
    simp only [filterOptTryUse, filterTryUse] at h
    by_cases hc : (filterReq x).check ctx.caps = true
    · simp [hc] at h; simp [← h, hc]
    · simp [hc] at h

theorem urlTryNew_ok {ctx u s} (h : urlTryNew ctx u = .ok s) :
    u = some s ∧ urlSchemeAdvertised ctx.caps s = true := by
  unfold urlTryNew at h
  split at h
  · cases h
  · split at h <;> simp_all

theorem url_ok (caps : List Capability) (s : Str) :
    urlSchemeAdvertised caps s = (Requirement.urlScheme s).check caps := rfl

theorem getConfigSource_ok (caps) (d : Datastore) (h : (sourceReq d).check caps = true) :
    allOk caps (getConfigSourceReqs (.ds d)) = true := by
  cases d <;> simp_all [allOk, sourceReq, Requirements.check, contains, getConfigSourceReqs, Requirement.check]

theorem source_ok (op) (caps) (d : Datastore) (h : (sourceReq d).check caps = true) :
    allOk caps (sourceReqs op (.ds d)) = true := by
  cases d <;> simp_all [allOk, sourceReq, Requirements.check, contains, sourceReqs, Requirement.check]

theorem editTarget_ok (caps) (d : Datastore) (h : (targetReq d).check caps = true) (hs : d ≠ .startup) :
    allOk caps (editTargetReqs (.ds d)) = true := by
  cases d <;> simp_all [allOk, targetReq, Requirements.check, contains, editTargetReqs, Requirement.check]

theorem copyTarget_ok (caps) (d : Datastore) (h : (targetReq d).check caps = true) :
    allOk caps (copyTargetReqs (.ds d)) = true := by
  cases d <;> simp_all [allOk, targetReq, Requirements.check, contains, copyTargetReqs, Requirement.check]

theorem deleteTarget_ok (caps) (d : Datastore) (h : (targetReq d).check caps = true)
    (hr : d ≠ .running) (hc : d ≠ .candidate) :
    allOk caps (deleteTargetReqs (.ds d)) = true := by
  cases d <;> simp_all [allOk, targetReq, Requirements.check, contains, deleteTargetReqs, Requirement.check]

theorem lockTarget_ok (op) (caps) (d : Datastore) (h : (lockTargetReq d).check caps = true) :
    allOk caps (lockTargetReqs op (.ds d)) = true := by
  cases d <;> simp_all [allOk, lockTargetReq, Requirements.check, contains, lockTargetReqs, Requirement.check]

theorem filter_ok (op) (caps) (f : Option FilterType)
    (h : ∀ x, f = some x → (filterReq x).check caps = true) :
    allOk caps (filterReqs op f) = true := by
  cases f with
  | none => rfl
  | some x =>
    cases x <;> simp_all [allOk, filterReq, Requirements.check, contains, filterReqs, Requirement.check]

end Builders

namespace Builders
open Caps Rfc

theorem build_ok_iff (cfg ctx b r) :
    build cfg ctx b = .ok r ↔
      (requiredCapabilities b).check ctx.caps = true ∧ ∃ o, runBuilder cfg ctx b = .ok o ∧ r = render o := by
  unfold build operationNew
  by_cases hc : (requiredCapabilities b).check ctx.caps = true
  · simp only [hc, if_true, true_and]
    cases hr : runBuilder cfg ctx b with
    | ok o => simp [eq_comm]
    | error e => simp
  · simp [hc]

/-- shape of every `runBuilder` arm -/
theorem run_ok {σ κ : Type} {step : σ → κ → Except ErrKind σ} {init : σ} {cs : List κ}
    {finish : σ → Except ErrKind Built} {o : Built}
    (h : thenFinish (foldCalls step init cs) finish = .ok o) :
    ∃ st, foldCalls step init cs = .ok st ∧ finish st = .ok o := by
  unfold thenFinish at h
  split at h
  · next st hst => exact ⟨st, hst, h⟩
  · cases h

theorem require_ok {α} {v : Option α} {x : α} (h : require v = .ok x) : v = some x := by
  cases v <;> simp_all [require]

/-! #### get -/
theorem get_safe (cfg ctx cs r) (h : build cfg ctx (.get cs) = .ok r)
    (hx : cfg.getFilterCheck = false → r ≠ .get (some .xpath)) :
    allOk ctx.caps (requiresL r) = true := by
  obtain ⟨_, o, ho, rfl⟩ := (build_ok_iff ..).1 h
  simp only [runBuilder] at ho
  obtain ⟨st, hst, hf⟩ := run_ok ho
  have inv : cfg.getFilterCheck = true → ∀ x, st.filter = some x → (filterReq x).check ctx.caps = true := by
    refine foldCalls_inv (Get.step cfg ctx)
      (fun st => cfg.getFilterCheck = true → ∀ x, st.filter = some x → (filterReq x).check ctx.caps = true)
      ?_ cs Get.new st hst (by simp [Get.new])
    intro s c s' hs hp hflag
    cases c with
    | filter f =>
      simp only [Get.step, Get.filter, hflag, if_true] at hs
      split at hs
      · next f' hf' =>
        obtain ⟨rfl, hfo⟩ := filterOptTryUse_ok hf'
        cases hs; exact hfo
      · cases hs
  simp only [Get.finish, Except.ok.injEq] at hf
  subst hf
  simp only [render, requiresL]
  by_cases hflag : cfg.getFilterCheck = true
  · exact filter_ok _ _ _ (inv hflag)
  · have := hx (by simpa using hflag)
    simp only [render, ne_eq, Request.get.injEq] at this
    cases hfl : st.filter with
    | none => rfl
    | some x => cases x <;> simp_all [filterReqs, allOk]
end Builders
namespace Builders
open Caps Rfc

/-! #### get-config -/
theorem getConfig_safe (cfg ctx cs r) (h : build cfg ctx (.getConfig cs) = .ok r) :
    allOk ctx.caps (requiresL r) = true := by
  obtain ⟨_, o, ho, rfl⟩ := (build_ok_iff ..).1 h
  simp only [runBuilder] at ho
  obtain ⟨st, hst, hf⟩ := run_ok ho
  have inv : (∀ d, st.source = some d → (sourceReq d).check ctx.caps = true)
      ∧ (∀ x, st.filter = some x → (filterReq x).check ctx.caps = true) := by
    refine foldCalls_inv (GetConfig.step ctx)
      (fun st => (∀ d, st.source = some d → (sourceReq d).check ctx.caps = true)
        ∧ (∀ x, st.filter = some x → (filterReq x).check ctx.caps = true))
      ?_ cs GetConfig.new st hst (by simp [GetConfig.new])
    intro s c s' hs hp
    cases c with
    | source d =>
      simp only [GetConfig.step, GetConfig.source] at hs
      split at hs
      · next d' hd =>
        obtain ⟨rfl, hc⟩ := tryAsSource_ok hd
        cases hs; exact ⟨by simpa using hc, hp.2⟩
      · cases hs
    | filter f =>
      simp only [GetConfig.step, GetConfig.filter] at hs
      split at hs
      · next f' hf' =>
        obtain ⟨rfl, hfo⟩ := filterOptTryUse_ok hf'
        cases hs; exact ⟨hp.1, hfo⟩
      · cases hs
  simp only [GetConfig.finish] at hf
  split at hf
  · next s hs =>
    cases hf
    simp only [render, requiresL, allOk_append, Bool.and_eq_true]
    exact ⟨getConfigSource_ok _ _ (inv.1 s (require_ok hs)), filter_ok _ _ _ inv.2⟩
  · cases hf
end Builders
namespace Builders
open Caps Rfc

theorem errorOpt_ok (caps) (e : ErrorOpt) (h : (EditConfig.errorOptReq e).check caps = true) :
    allOk caps (errorOptReqs (if e = .stopOnError then none else some e)) = true := by
  cases e <;> simp_all [allOk, EditConfig.errorOptReq, Requirements.check, contains, errorOptReqs, Requirement.check]

theorem testOpt_ok (caps) (t : TestOpt)
    (h : t = .testThenSet ∨ (EditConfig.testOptReq t).check caps = true) :
    allOk caps (testOptReqs (if t = .testThenSet then none else some t)) = true := by
  cases t <;> simp_all [allOk, EditConfig.testOptReq, Requirements.check, contains, testOptReqs, Requirement.check, validateAny]

/-! #### edit-config -/
def EditConfig.Inv (cfg : Cfg) (caps : List Capability) (st : EditConfig.State) : Prop :=
  (∀ d, st.target = some d → (targetReq d).check caps = true ∧ (cfg.editStartupCheck = true → d ≠ .startup))
  ∧ (∀ s, st.source = some (.url s) → urlSchemeAdvertised caps s = true)
  ∧ (EditConfig.errorOptReq st.errorOpt).check caps = true
  ∧ (st.testOpt = .testThenSet ∨ (EditConfig.testOptReq st.testOpt).check caps = true)

theorem EditConfig.step_inv (cfg ctx) (s : EditConfig.State) (c : EditConfig.Call) (s' : EditConfig.State)
    (hs : EditConfig.step cfg ctx s c = .ok s') (hp : EditConfig.Inv cfg ctx.caps s) :
    EditConfig.Inv cfg ctx.caps s' := by
  obtain ⟨h1, h2, h3, h4⟩ := hp
  cases c with
  | target d =>
    simp only [EditConfig.step, EditConfig.target] at hs
    split at hs
    · cases hs
    · next hne =>
      split at hs
      · next d' hd =>
        obtain ⟨rfl, hc⟩ := tryAsTarget_ok hd
        cases hs
        refine ⟨?_, h2, h3, h4⟩
        intro d hd; simp only [Option.some.injEq] at hd; subst hd
        refine ⟨hc, fun hflag hst => hne ⟨hflag, hst⟩⟩
      · cases hs
  | config =>
    simp only [EditConfig.step, EditConfig.config, Except.ok.injEq] at hs
    subst hs; exact ⟨h1, by simp, h3, h4⟩
  | url u =>
    simp only [EditConfig.step, EditConfig.url] at hs
    split at hs
    · next sch hu =>
      obtain ⟨_, hc⟩ := urlTryNew_ok hu
      cases hs
      refine ⟨h1, ?_, h3, h4⟩
      intro s hs; simp at hs; subst hs; exact hc
    · cases hs
  | defaultOperation o =>
    simp only [EditConfig.step, EditConfig.defaultOperation, Except.ok.injEq] at hs
    subst hs; exact ⟨h1, h2, h3, h4⟩
  | errorOption e =>
    simp only [EditConfig.step, EditConfig.errorOption] at hs
    split at hs
    · next hc => cases hs; exact ⟨h1, h2, hc, h4⟩
    · cases hs
  | testOption t =>
    simp only [EditConfig.step, EditConfig.testOption] at hs
    split at hs
    · next hc => cases hs; exact ⟨h1, h2, h3, Or.inr hc⟩
    · cases hs

theorem editConfig_safe (cfg ctx cs r) (h : build cfg ctx (.editConfig cs) = .ok r)
    (hx : cfg.editStartupCheck = false → ∀ a b c d, r ≠ .editConfig (.ds .startup) a b c d) :
    allOk ctx.caps (requiresL r) = true := by
  obtain ⟨_, o, ho, rfl⟩ := (build_ok_iff ..).1 h
  simp only [runBuilder] at ho
  obtain ⟨st, hst, hf⟩ := run_ok ho
  have inv : EditConfig.Inv cfg ctx.caps st :=
    foldCalls_inv (EditConfig.step cfg ctx) (EditConfig.Inv cfg ctx.caps) (EditConfig.step_inv cfg ctx)
      cs EditConfig.new st hst
      (by simp [EditConfig.Inv, EditConfig.new, EditConfig.errorOptReq, Requirements.check])
  obtain ⟨h1, h2, h3, h4⟩ := inv
  simp only [EditConfig.finish] at hf
  split at hf
  · cases hf
  · next t ht =>
    split at hf
    · cases hf
    · next src hsrc =>
      cases hf
      have ht := require_ok ht
      have hsrc := require_ok hsrc
      obtain ⟨htc, hts⟩ := h1 t ht
      have hns : t ≠ .startup := by
        by_cases hflag : cfg.editStartupCheck = true
        · exact hts hflag
        · intro hst; subst hst
          exact hx (by simpa using hflag) _ _ _ _ rfl
      simp only [render, requiresL, allOk_append, Bool.and_eq_true]
      refine ⟨⟨⟨editTarget_ok _ _ htc hns, errorOpt_ok _ _ h3⟩, testOpt_ok _ _ h4⟩, ?_⟩
      cases src with
      | config => rfl
      | url s =>
        have := h2 s hsrc
        simp [contentReqs, allOk, ← url_ok, this]
end Builders
namespace Builders
open Caps Rfc

/-! #### copy-config -/
def CopyConfig.Inv (caps : List Capability) (st : CopyConfig.State) : Prop :=
  (∀ d, st.target = some d → (targetReq d).check caps = true)
  ∧ (∀ d, st.source = some (.datastore d) → (sourceReq d).check caps = true)

theorem CopyConfig.step_inv (ctx) (s : CopyConfig.State) (c : CopyConfig.Call) (s' : CopyConfig.State)
    (hs : CopyConfig.step ctx s c = .ok s') (hp : CopyConfig.Inv ctx.caps s) :
    CopyConfig.Inv ctx.caps s' := by
  obtain ⟨h1, h2⟩ := hp
  cases c with
  | target d =>
    simp only [CopyConfig.step, CopyConfig.target] at hs
    split at hs
    · next d' hd =>
      obtain ⟨rfl, hc⟩ := tryAsTarget_ok hd
      cases hs; exact ⟨by simpa using hc, h2⟩
    · cases hs
  | source d =>
    simp only [CopyConfig.step, CopyConfig.source] at hs
    split at hs
    · next d' hd =>
      obtain ⟨rfl, hc⟩ := tryAsSource_ok hd
      cases hs; exact ⟨h1, by simpa using hc⟩
    · cases hs
  | config =>
    simp only [CopyConfig.step, CopyConfig.config, Except.ok.injEq] at hs
    subst hs; exact ⟨h1, by simp⟩

theorem renderSource_ok (op) (caps) (src : Source)
    (h : ∀ d, src = .datastore d → (sourceReq d).check caps = true) :
    allOk caps (sourceReqs op (renderSource src)) = true := by
  cases src with
  | datastore d => exact source_ok op caps d (h d rfl)
  | config => rfl

theorem copyConfig_safe (cfg ctx cs r) (h : build cfg ctx (.copyConfig cs) = .ok r) :
    allOk ctx.caps (requiresL r) = true := by
  obtain ⟨_, o, ho, rfl⟩ := (build_ok_iff ..).1 h
  simp only [runBuilder] at ho
  obtain ⟨st, hst, hf⟩ := run_ok ho
  have inv : CopyConfig.Inv ctx.caps st :=
    foldCalls_inv (CopyConfig.step ctx) (CopyConfig.Inv ctx.caps) (CopyConfig.step_inv ctx)
      cs CopyConfig.new st hst (by simp [CopyConfig.Inv, CopyConfig.new])
  obtain ⟨h1, h2⟩ := inv
  simp only [CopyConfig.finish] at hf
  split at hf
  · cases hf
  · next t ht =>
    split at hf
    · cases hf
    · next src hsrc =>
      cases hf
      have ht := require_ok ht
      have hsrc := require_ok hsrc
      simp only [render, requiresL, allOk_append, Bool.and_eq_true]
      exact ⟨copyTarget_ok _ _ (h1 t ht), renderSource_ok _ _ _ (fun d hd => h2 d (hd ▸ hsrc))⟩

/-! #### delete-config -/
def DeleteConfig.Inv (cfg : Cfg) (caps : List Capability) (st : DeleteConfig.State) : Prop :=
  (∀ d, st.target = some (.datastore d) →
      (targetReq d).check caps = true ∧ d ≠ .running ∧ (cfg.deleteCandidateCheck = true → d ≠ .candidate))
  ∧ (∀ s, st.target = some (.url s) → urlSchemeAdvertised caps s = true)

theorem DeleteConfig.step_inv (cfg ctx) (s : DeleteConfig.State) (c : DeleteConfig.Call) (s' : DeleteConfig.State)
    (hs : DeleteConfig.step cfg ctx s c = .ok s') (_hp : DeleteConfig.Inv cfg ctx.caps s) :
    DeleteConfig.Inv cfg ctx.caps s' := by
  cases c with
  | target d =>
    simp only [DeleteConfig.step, DeleteConfig.target] at hs
    split at hs
    · cases hs
    · next hnr =>
      split at hs
      · cases hs
      · next hnc =>
        split at hs
        · next d' hd =>
          obtain ⟨rfl, hc⟩ := tryAsTarget_ok hd
          cases hs
          refine ⟨?_, by simp⟩
          intro d hd; simp at hd; subst hd
          exact ⟨hc, hnr, fun hflag hcd => hnc ⟨hflag, hcd⟩⟩
        · cases hs
  | url u =>
    simp only [DeleteConfig.step, DeleteConfig.url] at hs
    split at hs
    · next sch hu =>
      obtain ⟨_, hc⟩ := urlTryNew_ok hu
      cases hs
      refine ⟨by simp, ?_⟩
      intro s hs; simp at hs; subst hs; exact hc
    · cases hs

theorem deleteConfig_safe (cfg ctx cs r) (h : build cfg ctx (.deleteConfig cs) = .ok r)
    (hx : cfg.deleteCandidateCheck = false → r ≠ .deleteConfig (.ds .candidate)) :
    allOk ctx.caps (requiresL r) = true := by
  obtain ⟨_, o, ho, rfl⟩ := (build_ok_iff ..).1 h
  simp only [runBuilder] at ho
  obtain ⟨st, hst, hf⟩ := run_ok ho
  have inv : DeleteConfig.Inv cfg ctx.caps st :=
    foldCalls_inv (DeleteConfig.step cfg ctx) (DeleteConfig.Inv cfg ctx.caps) (DeleteConfig.step_inv cfg ctx)
      cs DeleteConfig.new st hst (by simp [DeleteConfig.Inv, DeleteConfig.new])
  obtain ⟨h1, h2⟩ := inv
  simp only [DeleteConfig.finish] at hf
  split at hf
  · next t ht =>
    cases hf
    have ht := require_ok ht
    cases t with
    | datastore d =>
      obtain ⟨hc, hnr, hnc⟩ := h1 d ht
      have hnc' : d ≠ .candidate := by
        by_cases hflag : cfg.deleteCandidateCheck = true
        · exact hnc hflag
        · intro hcd; subst hcd
          exact hx (by simpa using hflag) rfl
      simp only [render, requiresL]
      exact deleteTarget_ok _ _ hc hnr hnc'
    | url s =>
      have := h2 s ht
      simp [render, requiresL, deleteTargetReqs, allOk, ← url_ok, this]
  · cases hf

/-! #### lock / unlock -/
theorem Lock.fold_inv (ctx cs st) (hst : foldCalls (Lock.step ctx) Lock.new cs = .ok st) :
    ∀ d, st.target = some d → (lockTargetReq d).check ctx.caps = true := by
  refine foldCalls_inv (Lock.step ctx)
    (fun st => ∀ d, st.target = some d → (lockTargetReq d).check ctx.caps = true) ?_ cs Lock.new st hst
    (by simp [Lock.new])
  intro s c s' hs _
  cases c with
  | target d =>
    simp only [Lock.step, Lock.target] at hs
    split at hs
    · next d' hd =>
      obtain ⟨rfl, hc⟩ := tryAsLockTarget_ok hd
      cases hs; simpa using hc
    · cases hs

theorem lock_safe (cfg ctx cs r) (h : build cfg ctx (.lock cs) = .ok r) :
    allOk ctx.caps (requiresL r) = true := by
  obtain ⟨_, o, ho, rfl⟩ := (build_ok_iff ..).1 h
  simp only [runBuilder] at ho
  obtain ⟨st, hst, hf⟩ := run_ok ho
  have inv := Lock.fold_inv ctx cs st hst
  simp only [Lock.finishLock] at hf
  split at hf
  · next t ht => cases hf; exact lockTarget_ok _ _ _ (inv t (require_ok ht))
  · cases hf

theorem unlock_safe (cfg ctx cs r) (h : build cfg ctx (.unlock cs) = .ok r) :
    allOk ctx.caps (requiresL r) = true := by
  obtain ⟨_, o, ho, rfl⟩ := (build_ok_iff ..).1 h
  simp only [runBuilder] at ho
  obtain ⟨st, hst, hf⟩ := run_ok ho
  have inv := Lock.fold_inv ctx cs st hst
  simp only [Lock.finishUnlock] at hf
  split at hf
  · next t ht => cases hf; exact lockTarget_ok _ _ _ (inv t (require_ok ht))
  · cases hf

/-! #### kill-session -/
theorem killSession_safe (cfg ctx cs r) (h : build cfg ctx (.killSession cs) = .ok r) :
    allOk ctx.caps (requiresL r) = true := by
  obtain ⟨_, o, ho, rfl⟩ := (build_ok_iff ..).1 h
  simp only [runBuilder] at ho
  obtain ⟨st, _, hf⟩ := run_ok ho
  simp only [KillSession.finish] at hf
  split at hf
  · cases hf; rfl
  · cases hf
end Builders
namespace Builders
open Caps Rfc

/-! #### commit -/
def Commit.Inv (caps : List Capability) (st : Commit.State) : Prop :=
  (st.confirmed = true → Commit.confirmedReq.check caps = true)
  ∧ (st.confirmTimeout ≠ defaultTimeout → Commit.confirmedReq.check caps = true)
  ∧ (st.persist.isSome = true → Commit.persistReq.check caps = true)
  ∧ (st.persistId.isSome = true → Commit.persistReq.check caps = true)

theorem Commit.tryUse_ok {ctx r} (h : Commit.tryUse ctx r = .ok ()) : r.check ctx.caps = true := by
  unfold Commit.tryUse at h; split at h <;> simp_all

theorem Commit.step_inv (ctx) (s : Commit.State) (c : Commit.Call) (s' : Commit.State)
    (hs : Commit.step ctx s c = .ok s') (hp : Commit.Inv ctx.caps s) : Commit.Inv ctx.caps s' := by
  obtain ⟨h1, h2, h3, h4⟩ := hp
  cases c with
  | confirmed b =>
    simp only [Commit.step, Commit.confirmed] at hs
    split at hs
    · next hu => have := Commit.tryUse_ok hu; cases hs; exact ⟨fun _ => this, h2, h3, h4⟩
    · cases hs
  | confirmTimeout t =>
    simp only [Commit.step, Commit.confirmTimeout] at hs
    split at hs
    · next hu => have := Commit.tryUse_ok hu; cases hs; exact ⟨h1, fun _ => this, h3, h4⟩
    · cases hs
  | persist t =>
    simp only [Commit.step, Commit.persist] at hs
    split at hs
    · next hu => have := Commit.tryUse_ok hu; cases hs; exact ⟨h1, h2, fun _ => this, h4⟩
    · cases hs
  | persistId t =>
    simp only [Commit.step, Commit.persistId] at hs
    split at hs
    · next hu => have := Commit.tryUse_ok hu; cases hs; exact ⟨h1, h2, h3, fun _ => this⟩
    · cases hs

theorem confirmedAny_ok (caps) (h : Commit.confirmedReq.check caps = true) : confirmedAny.check caps = true := by
  simpa [Commit.confirmedReq, Requirements.check, contains, confirmedAny, Requirement.check] using h

theorem persist_ok (caps) (h : Commit.persistReq.check caps = true) :
    (Requirement.cap .confirmedCommit11).check caps = true := by
  simpa [Commit.persistReq, Requirements.check, contains, Requirement.check] using h

theorem commit_safe (cfg ctx cs r) (h : build cfg ctx (.commit cs) = .ok r) :
    allOk ctx.caps (requiresL r) = true := by
  obtain ⟨hop, o, ho, rfl⟩ := (build_ok_iff ..).1 h
  simp only [runBuilder] at ho
  obtain ⟨st, hst, hf⟩ := run_ok ho
  have inv : Commit.Inv ctx.caps st :=
    foldCalls_inv (Commit.step ctx) (Commit.Inv ctx.caps) (Commit.step_inv ctx)
      cs Commit.new st hst (by simp [Commit.Inv, Commit.new])
  obtain ⟨h1, h2, h3, h4⟩ := inv
  have hcand : (Requirement.cap .candidate).check ctx.caps = true := by
    simpa [requiredCapabilities, Requirements.check, contains, Requirement.check] using hop
  simp only [Commit.finish] at hf
  split at hf
  · cases hf
  · split at hf
    · cases hf
    · cases hf
      simp only [render]
      by_cases hc : st.confirmed = true
      · simp only [hc, if_true, requiresL, commitParamReqs, allOk, List.all_cons, List.all_append,
          Bool.and_eq_true, hcand, true_and]
        have hca := confirmedAny_ok _ (h1 hc)
        refine ⟨⟨⟨?_, ?_⟩, ?_⟩, ?_⟩
        · simp [hca]
        · by_cases ht : st.confirmTimeout = defaultTimeout
          · simp [ht]
          · simp [ht, confirmedAny_ok _ (h2 ht)]
        · cases hp : st.persist with
          | none => simp
          | some p => simp [persist_ok _ (h3 (by simp [hp]))]
        · simp
      · have hc' : st.confirmed = false := by simpa using hc
        cases hp : st.persistId with
        | none => simp [hc', hp, requiresL, commitParamReqs, allOk, hcand]
        | some p => simp [hc', hp, requiresL, commitParamReqs, allOk, hcand, persist_ok _ (h4 (by simp [hp]))]

/-! #### cancel-commit, discard-changes, validate, close-session, Junos -/
theorem cancelCommit_safe (cfg ctx cs r) (h : build cfg ctx (.cancelCommit cs) = .ok r) :
    allOk ctx.caps (requiresL r) = true := by
  obtain ⟨hop, o, ho, rfl⟩ := (build_ok_iff ..).1 h
  simp only [runBuilder] at ho
  obtain ⟨st, _, hf⟩ := run_ok ho
  simp only [CancelCommit.finish, Except.ok.injEq] at hf
  subst hf
  simpa [requiredCapabilities, Requirements.check, contains, Requirement.check, render, requiresL, allOk] using hop

theorem discardChanges_safe (cfg ctx r) (h : build cfg ctx .discardChanges = .ok r) :
    allOk ctx.caps (requiresL r) = true := by
  obtain ⟨hop, o, ho, rfl⟩ := (build_ok_iff ..).1 h
  simp only [runBuilder, Except.ok.injEq] at ho
  subst ho
  simpa [requiredCapabilities, Requirements.check, contains, Requirement.check, render, requiresL, allOk] using hop

theorem validate_safe (cfg ctx cs r) (h : build cfg ctx (.validate cs) = .ok r) :
    allOk ctx.caps (requiresL r) = true := by
  obtain ⟨hop, o, ho, rfl⟩ := (build_ok_iff ..).1 h
  simp only [runBuilder] at ho
  obtain ⟨st, hst, hf⟩ := run_ok ho
  have inv : ∀ d, st.source = some (.datastore d) → (sourceReq d).check ctx.caps = true := by
    refine foldCalls_inv (Validate.step ctx)
      (fun st => ∀ d, st.source = some (.datastore d) → (sourceReq d).check ctx.caps = true) ?_
      cs Validate.new st hst (by simp [Validate.new])
    intro s c s' hs _
    cases c with
    | source d =>
      simp only [Validate.step, Validate.source] at hs
      split at hs
      · next d' hd =>
        obtain ⟨rfl, hc⟩ := tryAsSource_ok hd
        cases hs; simpa using hc
      · cases hs
    | config =>
      simp only [Validate.step, Validate.config, Except.ok.injEq] at hs
      subst hs; simp
  have hval : validateAny.check ctx.caps = true := by
    simpa [requiredCapabilities, Requirements.check, contains, validateAny, Requirement.check] using hop
  simp only [Validate.finish] at hf
  split at hf
  · next src hsrc =>
    cases hf
    have hsrc := require_ok hsrc
    have := renderSource_ok "validate" ctx.caps src (fun d hd => inv d (hd ▸ hsrc))
    simp only [render, requiresL, allOk, List.all_cons, hval, Bool.true_and]
    exact this
  · cases hf

theorem closeSession_safe (cfg ctx r) (h : build cfg ctx .closeSession = .ok r) :
    allOk ctx.caps (requiresL r) = true := by
  obtain ⟨_, o, ho, rfl⟩ := (build_ok_iff ..).1 h
  simp only [runBuilder, Except.ok.injEq] at ho
  subst ho; rfl

/-- every Junos operation: the operation-level requirement is the Junos capability and the
    rendered request is a `Request.junos` -/
theorem junos_safe (cfg ctx b r) (h : build cfg ctx b = .ok r)
    (hj : requiredCapabilities b = .one .junos) (hr : ∃ j, r = .junos j) :
    allOk ctx.caps (requiresL r) = true := by
  obtain ⟨hop, _, _, _⟩ := (build_ok_iff ..).1 h
  obtain ⟨j, rfl⟩ := hr
  rw [hj] at hop
  simpa [Requirements.check, contains, Requirement.check, requiresL, allOk] using hop
end Builders

namespace Builders
open Caps Rfc

/-! ### converse direction -/

theorem thenFinish_ok {σ : Type} {r : Except ErrKind σ} {finish : σ → Except ErrKind Built} {st o}
    (h1 : r = .ok st) (h2 : finish st = .ok o) : thenFinish r finish = .ok o := by
  simp [thenFinish, h1, h2]

theorem build_of_run {cfg ctx b o} (hop : (requiredCapabilities b).check ctx.caps = true)
    (hr : runBuilder cfg ctx b = .ok o) : ∃ r, build cfg ctx b = .ok r :=
  ⟨render o, (build_ok_iff ..).2 ⟨hop, o, hr, rfl⟩⟩

theorem any_true_eq {α} (cs : List α) : cs.any (fun _ => true) = !cs.isEmpty := by
  cases cs <;> simp

theorem mem_flatMap_reqs {κ} {f : κ → List Requirement} {cs : List κ} {caps}
    (h : ∀ q ∈ cs.flatMap f, Requirement.check q caps = true) :
    ∀ c ∈ cs, ∀ q ∈ f c, Requirement.check q caps = true := by
  intro c hc q hq
  exact h q (List.mem_flatMap.2 ⟨c, hc, hq⟩)

theorem sourceReq_of (caps) (d : Datastore) (h : allOk caps (getConfigSourceReqs (.ds d)) = true) :
    (sourceReq d).check caps = true := by
  cases d <;> simp_all [allOk, sourceReq, Requirements.check, contains, getConfigSourceReqs, Requirement.check]

theorem sourceReq_of' (op) (caps) (d : Datastore) (h : allOk caps (sourceReqs op (.ds d)) = true) :
    (sourceReq d).check caps = true := by
  cases d <;> simp_all [allOk, sourceReq, Requirements.check, contains, sourceReqs, Requirement.check]

theorem filterReq_of (op) (caps) (x : FilterType) (h : allOk caps (filterReqs op (some x)) = true) :
    (filterReq x).check caps = true := by
  cases x <;> simp_all [allOk, filterReq, Requirements.check, contains, filterReqs, Requirement.check]

theorem filterOpt_succeeds (op) (ctx : Ctx) (f : Option FilterType)
    (h : allOk ctx.caps (filterReqs op f) = true) : filterOptTryUse ctx f = .ok f := by
  cases f with
  | none => rfl
  | some x => simp [filterOptTryUse, filterTryUse, filterReq_of op _ x h]

/-! #### get -/
theorem get_buildable (cfg ctx cs) (hcalls : ∀ q ∈ callsRequire (.get cs), q.check ctx.caps = true) :
    ∃ r, build cfg ctx (.get cs) = .ok r := by
  have hc := mem_flatMap_reqs hcalls
  obtain ⟨st, hst⟩ := foldCalls_ok (Get.step cfg ctx) cs (by
    intro c hcm s
    cases c with
    | filter f =>
      have := (allOk_unlabel _ _).2 (hc _ hcm)
      simp only [Get.step, Get.filter]
      split
      · rw [filterOpt_succeeds "get" ctx f this]; exact ⟨_, rfl⟩
      · exact ⟨_, rfl⟩) Get.new
  exact build_of_run (by simp [requiredCapabilities, Requirements.check])
    (by simp only [runBuilder]; exact thenFinish_ok hst rfl)

/-! #### get-config -/
theorem GetConfig.step_succeeds (ctx) (c : GetConfig.Call)
    (h : ∀ q ∈ GetConfig.callRequires c, q.check ctx.caps = true) (s) :
    ∃ s', GetConfig.step ctx s c = .ok s' := by
  cases c with
  | source d =>
    have := (allOk_unlabel _ _).2 h
    simp [GetConfig.step, GetConfig.source, tryAsSource, sourceReq_of _ d this]
  | filter f =>
    have := (allOk_unlabel _ _).2 h
    simp [GetConfig.step, GetConfig.filter, filterOpt_succeeds "get-config" ctx f this]

theorem getConfig_buildable (cfg ctx cs) (hcalls : ∀ q ∈ callsRequire (.getConfig cs), q.check ctx.caps = true)
    (hcomp : complete (.getConfig cs) = true) :
    ∃ r, build cfg ctx (.getConfig cs) = .ok r := by
  have hc := mem_flatMap_reqs hcalls
  obtain ⟨st, hst⟩ := foldCalls_ok (GetConfig.step ctx) cs
    (fun c hcm s => GetConfig.step_succeeds ctx c (hc c hcm) s) GetConfig.new
  have hsrc : st.source.isSome = true := by
    refine foldCalls_reach (GetConfig.step ctx) GetConfig.isSource (fun st => st.source.isSome = true)
      ?_ ?_ cs GetConfig.new st hst hcomp
    · intro s c s' hs hq
      cases c with
      | source d =>
        simp only [GetConfig.step, GetConfig.source] at hs
        split at hs
        · cases hs; rfl
        · cases hs
      | filter f => simp [GetConfig.isSource] at hq
    · intro s c s' hs hp
      cases c with
      | source d =>
        simp only [GetConfig.step, GetConfig.source] at hs
        split at hs
        · cases hs; rfl
        · cases hs
      | filter f =>
        simp only [GetConfig.step, GetConfig.filter] at hs
        split at hs
        · cases hs; exact hp
        · cases hs
  obtain ⟨d, hd⟩ := Option.isSome_iff_exists.1 hsrc
  exact build_of_run (o := .getConfig d st.filter) (by simp [requiredCapabilities, Requirements.check])
    (by simp only [runBuilder]; exact thenFinish_ok hst (by simp [GetConfig.finish, require, hd]))
end Builders
namespace Builders
open Caps Rfc

theorem targetReq_of_edit (caps) (d : Datastore) (h : allOk caps (editTargetReqs (.ds d)) = true) :
    (targetReq d).check caps = true ∧ d ≠ .startup := by
  cases d <;> simp_all [allOk, targetReq, Requirements.check, contains, editTargetReqs, Requirement.check]

theorem targetReq_of_copy (caps) (d : Datastore) (h : allOk caps (copyTargetReqs (.ds d)) = true) :
    (targetReq d).check caps = true := by
  cases d <;> simp_all [allOk, targetReq, Requirements.check, contains, copyTargetReqs, Requirement.check]

theorem targetReq_of_delete (caps) (d : Datastore) (h : allOk caps (deleteTargetReqs (.ds d)) = true) :
    (targetReq d).check caps = true ∧ d = .startup := by
  cases d <;> simp_all [allOk, targetReq, Requirements.check, contains, deleteTargetReqs, Requirement.check]

theorem lockTargetReq_of (op) (caps) (d : Datastore) (h : allOk caps (lockTargetReqs op (.ds d)) = true) :
    (lockTargetReq d).check caps = true := by
  cases d <;> simp_all [allOk, lockTargetReq, Requirements.check, contains, lockTargetReqs, Requirement.check]

theorem errorOptReq_of (caps) (e : ErrorOpt) (h : allOk caps (errorOptReqs (some e)) = true) :
    (EditConfig.errorOptReq e).check caps = true := by
  cases e <;> simp_all [allOk, EditConfig.errorOptReq, Requirements.check, contains, errorOptReqs, Requirement.check]

theorem testOptReq_of (caps) (t : TestOpt) (h : allOk caps (testOptReqs (some t)) = true) :
    (EditConfig.testOptReq t).check caps = true := by
  cases t <;> simp_all [allOk, EditConfig.testOptReq, Requirements.check, contains, testOptReqs, Requirement.check, validateAny]

/-! #### edit-config -/
theorem EditConfig.step_succeeds (cfg ctx) (c : EditConfig.Call)
    (h : ∀ q ∈ EditConfig.callRequires c, q.check ctx.caps = true) (hv : EditConfig.argValid c = true) (s) :
    ∃ s', EditConfig.step cfg ctx s c = .ok s' := by
  cases c with
  | target d =>
    obtain ⟨h1, h2⟩ := targetReq_of_edit _ d ((allOk_unlabel _ _).2 h)
    simp [EditConfig.step, EditConfig.target, tryAsTarget, h1, h2]
  | config => exact ⟨_, rfl⟩
  | url u =>
    cases u with
    | none => simp [EditConfig.argValid] at hv
    | some sch =>
      have := (allOk_unlabel _ _).2 h
      simp only [contentReqs, allOk, List.all_cons, List.all_nil, Bool.and_true, ← url_ok] at this
      simp [EditConfig.step, EditConfig.url, urlTryNew, this]
  | defaultOperation o => exact ⟨_, rfl⟩
  | errorOption e =>
    simp [EditConfig.step, EditConfig.errorOption, errorOptReq_of _ e ((allOk_unlabel _ _).2 h)]
  | testOption t =>
    simp [EditConfig.step, EditConfig.testOption, testOptReq_of _ t ((allOk_unlabel _ _).2 h)]

theorem EditConfig.reach_target (cfg ctx cs st)
    (hst : foldCalls (EditConfig.step cfg ctx) EditConfig.new cs = .ok st)
    (h : cs.any EditConfig.isTarget = true) : st.target.isSome = true := by
  refine foldCalls_reach (EditConfig.step cfg ctx) EditConfig.isTarget (fun st => st.target.isSome = true)
    ?_ ?_ cs EditConfig.new st hst h
  · intro s c s' hs hq
    cases c <;> simp [EditConfig.isTarget] at hq
    simp only [EditConfig.step, EditConfig.target] at hs
    split at hs
    · cases hs
    · split at hs
      · cases hs; rfl
      · cases hs
  · intro s c s' hs hp
    cases c <;> simp only [EditConfig.step, EditConfig.target, EditConfig.config, EditConfig.url,
        EditConfig.defaultOperation, EditConfig.errorOption, EditConfig.testOption] at hs <;>
      (try split at hs) <;> (try split at hs) <;> (try cases hs) <;> simp_all

theorem EditConfig.reach_source (cfg ctx cs st)
    (hst : foldCalls (EditConfig.step cfg ctx) EditConfig.new cs = .ok st)
    (h : cs.any EditConfig.isContent = true) : st.source.isSome = true := by
  refine foldCalls_reach (EditConfig.step cfg ctx) EditConfig.isContent (fun st => st.source.isSome = true)
    ?_ ?_ cs EditConfig.new st hst h
  · intro s c s' hs hq
    cases c <;> simp [EditConfig.isContent] at hq <;>
      simp only [EditConfig.step, EditConfig.config, EditConfig.url] at hs <;>
      (try split at hs) <;> (try cases hs) <;> simp_all
  · intro s c s' hs hp
    cases c <;> simp only [EditConfig.step, EditConfig.target, EditConfig.config, EditConfig.url,
        EditConfig.defaultOperation, EditConfig.errorOption, EditConfig.testOption] at hs <;>
      (try split at hs) <;> (try split at hs) <;> (try cases hs) <;> simp_all

theorem editConfig_buildable (cfg ctx cs)
    (hcalls : ∀ q ∈ callsRequire (.editConfig cs), q.check ctx.caps = true)
    (hargs : argsValid ctx (.editConfig cs) = true)
    (hcomp : complete (.editConfig cs) = true) :
    ∃ r, build cfg ctx (.editConfig cs) = .ok r := by
  have hc := mem_flatMap_reqs hcalls
  simp only [argsValid, List.all_eq_true] at hargs
  simp only [complete, Bool.and_eq_true] at hcomp
  obtain ⟨st, hst⟩ := foldCalls_ok (EditConfig.step cfg ctx) cs
    (fun c hcm s => EditConfig.step_succeeds cfg ctx c (hc c hcm) (hargs c hcm) s) EditConfig.new
  obtain ⟨t, ht⟩ := Option.isSome_iff_exists.1 (EditConfig.reach_target cfg ctx cs st hst hcomp.1)
  obtain ⟨src, hsrc⟩ := Option.isSome_iff_exists.1 (EditConfig.reach_source cfg ctx cs st hst hcomp.2)
  exact build_of_run (o := .editConfig t src st.defaultOp st.errorOpt st.testOpt)
    (by simp [requiredCapabilities, Requirements.check])
    (by simp only [runBuilder]; exact thenFinish_ok hst (by simp [EditConfig.finish, require, ht, hsrc]))
end Builders
namespace Builders
open Caps Rfc

/-! #### copy-config -/
theorem CopyConfig.step_succeeds (ctx) (c : CopyConfig.Call)
    (h : ∀ q ∈ CopyConfig.callRequires c, q.check ctx.caps = true) (s) :
    ∃ s', CopyConfig.step ctx s c = .ok s' := by
  cases c with
  | target d =>
    simp [CopyConfig.step, CopyConfig.target, tryAsTarget, targetReq_of_copy _ d ((allOk_unlabel _ _).2 h)]
  | source d =>
    simp [CopyConfig.step, CopyConfig.source, tryAsSource, sourceReq_of' _ _ d ((allOk_unlabel _ _).2 h)]
  | config => exact ⟨_, rfl⟩

theorem CopyConfig.reach_target (ctx cs st)
    (hst : foldCalls (CopyConfig.step ctx) CopyConfig.new cs = .ok st)
    (h : cs.any CopyConfig.isTarget = true) : st.target.isSome = true := by
  refine foldCalls_reach (CopyConfig.step ctx) CopyConfig.isTarget (fun st => st.target.isSome = true)
    ?_ ?_ cs CopyConfig.new st hst h
  · intro s c s' hs hq
    cases c <;> simp [CopyConfig.isTarget] at hq
    simp only [CopyConfig.step, CopyConfig.target] at hs
    split at hs
    · cases hs; rfl
    · cases hs
  · intro s c s' hs hp
    cases c <;> simp only [CopyConfig.step, CopyConfig.target, CopyConfig.source, CopyConfig.config] at hs <;>
      (try split at hs) <;> (try cases hs) <;> simp_all

theorem CopyConfig.reach_source (ctx cs st)
    (hst : foldCalls (CopyConfig.step ctx) CopyConfig.new cs = .ok st)
    (h : cs.any CopyConfig.isSource = true) : st.source.isSome = true := by
  refine foldCalls_reach (CopyConfig.step ctx) CopyConfig.isSource (fun st => st.source.isSome = true)
    ?_ ?_ cs CopyConfig.new st hst h
  · intro s c s' hs hq
    cases c <;> simp [CopyConfig.isSource] at hq <;>
      simp only [CopyConfig.step, CopyConfig.source, CopyConfig.config] at hs <;>
      (try split at hs) <;> (try cases hs) <;> simp_all
  · intro s c s' hs hp
    cases c <;> simp only [CopyConfig.step, CopyConfig.target, CopyConfig.source, CopyConfig.config] at hs <;>
      (try split at hs) <;> (try cases hs) <;> simp_all

theorem copyConfig_buildable (cfg ctx cs)
    (hcalls : ∀ q ∈ callsRequire (.copyConfig cs), q.check ctx.caps = true)
    (hcomp : complete (.copyConfig cs) = true) :
    ∃ r, build cfg ctx (.copyConfig cs) = .ok r := by
  have hc := mem_flatMap_reqs hcalls
  simp only [complete, Bool.and_eq_true] at hcomp
  obtain ⟨st, hst⟩ := foldCalls_ok (CopyConfig.step ctx) cs
    (fun c hcm s => CopyConfig.step_succeeds ctx c (hc c hcm) s) CopyConfig.new
  obtain ⟨t, ht⟩ := Option.isSome_iff_exists.1 (CopyConfig.reach_target ctx cs st hst hcomp.1)
  obtain ⟨src, hsrc⟩ := Option.isSome_iff_exists.1 (CopyConfig.reach_source ctx cs st hst hcomp.2)
  exact build_of_run (o := .copyConfig t src)
    (by simp [requiredCapabilities, Requirements.check])
    (by simp only [runBuilder]; exact thenFinish_ok hst (by simp [CopyConfig.finish, require, ht, hsrc]))

/-! #### delete-config -/
theorem DeleteConfig.step_succeeds (cfg ctx) (c : DeleteConfig.Call)
    (h : ∀ q ∈ DeleteConfig.callRequires c, q.check ctx.caps = true) (hv : DeleteConfig.argValid c = true) (s) :
    ∃ s', DeleteConfig.step cfg ctx s c = .ok s' ∧ s'.target.isSome = true := by
  cases c with
  | target d =>
    obtain ⟨h1, rfl⟩ := targetReq_of_delete _ d ((allOk_unlabel _ _).2 h)
    simp [DeleteConfig.step, DeleteConfig.target, tryAsTarget, h1]
  | url u =>
    cases u with
    | none => simp [DeleteConfig.argValid] at hv
    | some sch =>
      have := (allOk_unlabel _ _).2 h
      simp only [deleteTargetReqs, allOk, List.all_cons, List.all_nil, Bool.and_true, ← url_ok] at this
      simp [DeleteConfig.step, DeleteConfig.url, urlTryNew, this]

/-- for builders whose every call sets the one mandatory field -/
theorem foldCalls_last {σ κ : Type} (step : σ → κ → Except ErrKind σ) (P : σ → Prop) :
    ∀ (cs : List κ), cs ≠ [] → (∀ c ∈ cs, ∀ s, ∃ s', step s c = .ok s' ∧ P s') →
      ∀ s, ∃ s', foldCalls step s cs = .ok s' ∧ P s' := by
  intro cs
  induction cs with
  | nil => intro h; exact absurd rfl h
  | cons c cs ih =>
    intro _ h s
    obtain ⟨s1, h1, p1⟩ := h c (by simp) s
    cases cs with
    | nil => exact ⟨s1, by simp [foldCalls, h1], p1⟩
    | cons c2 cs2 =>
      obtain ⟨s2, h2, p2⟩ := ih (by simp) (fun c' hc' => h c' (by simp [hc'])) s1
      exact ⟨s2, by simp only [foldCalls, h1]; exact h2, p2⟩

theorem ne_nil_of_not_isEmpty {α} {cs : List α} (h : (!cs.isEmpty) = true) : cs ≠ [] := by
  cases cs <;> simp_all

theorem deleteConfig_buildable (cfg ctx cs)
    (hcalls : ∀ q ∈ callsRequire (.deleteConfig cs), q.check ctx.caps = true)
    (hargs : argsValid ctx (.deleteConfig cs) = true)
    (hcomp : complete (.deleteConfig cs) = true) :
    ∃ r, build cfg ctx (.deleteConfig cs) = .ok r := by
  have hc := mem_flatMap_reqs hcalls
  simp only [argsValid, List.all_eq_true] at hargs
  obtain ⟨st, hst, hp⟩ := foldCalls_last (DeleteConfig.step cfg ctx) (fun st => st.target.isSome = true) cs
    (ne_nil_of_not_isEmpty hcomp)
    (fun c hcm s => DeleteConfig.step_succeeds cfg ctx c (hc c hcm) (hargs c hcm) s) DeleteConfig.new
  obtain ⟨t, ht⟩ := Option.isSome_iff_exists.1 hp
  exact build_of_run (o := .deleteConfig t)
    (by simp [requiredCapabilities, Requirements.check])
    (by simp only [runBuilder]; exact thenFinish_ok hst (by simp [DeleteConfig.finish, require, ht]))

/-! #### lock / unlock -/
theorem Lock.step_succeeds (op) (ctx) (c : Lock.Call)
    (h : ∀ q ∈ Lock.callRequires op c, q.check ctx.caps = true) (s) :
    ∃ s', Lock.step ctx s c = .ok s' ∧ s'.target.isSome = true := by
  cases c with
  | target d =>
    simp [Lock.step, Lock.target, tryAsLockTarget, lockTargetReq_of _ _ d ((allOk_unlabel _ _).2 h)]

theorem lock_buildable (cfg ctx cs)
    (hcalls : ∀ q ∈ callsRequire (.lock cs), q.check ctx.caps = true)
    (hcomp : complete (.lock cs) = true) :
    ∃ r, build cfg ctx (.lock cs) = .ok r := by
  have hc := mem_flatMap_reqs hcalls
  obtain ⟨st, hst, hp⟩ := foldCalls_last (Lock.step ctx) (fun st => st.target.isSome = true) cs
    (ne_nil_of_not_isEmpty hcomp)
    (fun c hcm s => Lock.step_succeeds "lock" ctx c (hc c hcm) s) Lock.new
  obtain ⟨t, ht⟩ := Option.isSome_iff_exists.1 hp
  exact build_of_run (o := .lock t)
    (by simp [requiredCapabilities, Requirements.check])
    (by simp only [runBuilder]; exact thenFinish_ok hst (by simp [Lock.finishLock, require, ht]))

theorem unlock_buildable (cfg ctx cs)
    (hcalls : ∀ q ∈ callsRequire (.unlock cs), q.check ctx.caps = true)
    (hcomp : complete (.unlock cs) = true) :
    ∃ r, build cfg ctx (.unlock cs) = .ok r := by
  have hc := mem_flatMap_reqs hcalls
  obtain ⟨st, hst, hp⟩ := foldCalls_last (Lock.step ctx) (fun st => st.target.isSome = true) cs
    (ne_nil_of_not_isEmpty hcomp)
    (fun c hcm s => Lock.step_succeeds "unlock" ctx c (hc c hcm) s) Lock.new
  obtain ⟨t, ht⟩ := Option.isSome_iff_exists.1 hp
  exact build_of_run (o := .unlock t)
    (by simp [requiredCapabilities, Requirements.check])
    (by simp only [runBuilder]; exact thenFinish_ok hst (by simp [Lock.finishUnlock, require, ht]))

/-! #### kill-session -/
theorem killSession_buildable (cfg ctx cs)
    (hargs : argsValid ctx (.killSession cs) = true)
    (hcomp : complete (.killSession cs) = true) :
    ∃ r, build cfg ctx (.killSession cs) = .ok r := by
  simp only [argsValid, List.all_eq_true] at hargs
  obtain ⟨st, hst, hp⟩ := foldCalls_last (KillSession.step ctx) (fun st => st.sessionId.isSome = true) cs
    (ne_nil_of_not_isEmpty hcomp)
    (fun c hcm s => by
      have := hargs c hcm
      cases c with
      | sessionId n =>
        simp only [KillSession.argValid, decide_eq_true_eq] at this
        simp [KillSession.step, KillSession.sessionId, this.1, this.2]) KillSession.new
  obtain ⟨t, ht⟩ := Option.isSome_iff_exists.1 hp
  exact build_of_run (o := .killSession t)
    (by simp [requiredCapabilities, Requirements.check])
    (by simp only [runBuilder]; exact thenFinish_ok hst (by simp [KillSession.finish, require, ht]))
end Builders
namespace Builders
open Caps Rfc

/-! #### commit -/
theorem confirmedReq_of (caps) (h : confirmedAny.check caps = true) : Commit.confirmedReq.check caps = true := by
  simpa [Commit.confirmedReq, Requirements.check, contains, confirmedAny, Requirement.check] using h

theorem persistReq_of (caps) (h : (Requirement.cap .confirmedCommit11).check caps = true) :
    Commit.persistReq.check caps = true := by
  simpa [Commit.persistReq, Requirements.check, contains, Requirement.check] using h

theorem Commit.step_succeeds (ctx) (c : Commit.Call)
    (h : ∀ q ∈ Commit.callRequires c, q.check ctx.caps = true) (s) :
    Commit.step ctx s c = .ok (Commit.record s c) := by
  cases c with
  | confirmed b =>
    have := confirmedReq_of _ (h confirmedAny (by simp [Commit.callRequires, unlabel, commitParamReqs]))
    simp [Commit.step, Commit.confirmed, Commit.tryUse, this, Commit.record]
  | confirmTimeout t =>
    have := confirmedReq_of _ (h confirmedAny (by simp [Commit.callRequires, unlabel, commitParamReqs]))
    simp [Commit.step, Commit.confirmTimeout, Commit.tryUse, this, Commit.record]
  | persist t =>
    have := persistReq_of _ (h (.cap .confirmedCommit11) (by simp [Commit.callRequires, unlabel, commitParamReqs]))
    simp [Commit.step, Commit.persist, Commit.tryUse, this, Commit.record]
  | persistId t =>
    have := persistReq_of _ (h (.cap .confirmedCommit11) (by simp [Commit.callRequires, unlabel, commitParamReqs]))
    simp [Commit.step, Commit.persistId, Commit.tryUse, this, Commit.record]

theorem foldCalls_eq_foldl {σ κ : Type} (step : σ → κ → Except ErrKind σ) (record : σ → κ → σ) :
    ∀ (cs : List κ), (∀ c ∈ cs, ∀ s, step s c = .ok (record s c)) →
      ∀ s, foldCalls step s cs = .ok (cs.foldl record s) := by
  intro cs
  induction cs with
  | nil => intro _ s; rfl
  | cons c cs ih =>
    intro h s
    simp only [foldCalls, h c (by simp) s, List.foldl_cons]
    exact ih (fun c' hc' => h c' (by simp [hc'])) _

theorem commit_buildable (cfg ctx cs)
    (hop : ∀ q ∈ opRequires (.commit cs), q.check ctx.caps = true)
    (hcalls : ∀ q ∈ callsRequire (.commit cs), q.check ctx.caps = true)
    (hcomp : complete (.commit cs) = true) :
    ∃ r, build cfg ctx (.commit cs) = .ok r := by
  have hc := mem_flatMap_reqs hcalls
  have hst := foldCalls_eq_foldl (Commit.step ctx) Commit.record cs
    (fun c hcm s => Commit.step_succeeds ctx c (hc c hcm) s) Commit.new
  simp only [complete, Commit.compatible, Bool.and_eq_true, Bool.not_eq_true', Bool.and_eq_false_iff] at hcomp
  have hcand := hop (.cap .candidate) (by simp [opRequires])
  refine build_of_run (o := .commit _ _ _ _)
    (by simpa [requiredCapabilities, Requirements.check, contains, Requirement.check] using hcand)
    (by simp only [runBuilder]; exact thenFinish_ok hst (by
      simp only [Commit.finish]
      split
      · next h => obtain ⟨h1, h2⟩ := h; rcases hcomp.1 with h | h <;> simp_all
      · split
        · next h => obtain ⟨h1, h2⟩ := h; rcases hcomp.2 with h | h <;> simp_all
        · rfl))

/-! #### cancel-commit -/
theorem cancelCommit_buildable (cfg ctx cs)
    (hop : ∀ q ∈ opRequires (.cancelCommit cs), q.check ctx.caps = true) :
    ∃ r, build cfg ctx (.cancelCommit cs) = .ok r := by
  have h11 := hop (.cap .confirmedCommit11) (by simp [opRequires])
  have h11' : (Requirements.one .confirmedCommit11).check ctx.caps = true := by
    simpa [Requirements.check, contains, Requirement.check] using h11
  obtain ⟨st, hst⟩ := foldCalls_ok (CancelCommit.step ctx) cs (by
    intro c _ s
    cases c with
    | persistId t => simp [CancelCommit.step, CancelCommit.persistId, h11']) CancelCommit.new
  exact build_of_run (o := .cancelCommit st.persistId)
    (by simpa [requiredCapabilities] using h11')
    (by simp only [runBuilder]; exact thenFinish_ok hst rfl)

/-! #### validate -/
theorem Validate.step_succeeds (ctx) (c : Validate.Call)
    (h : ∀ q ∈ Validate.callRequires c, q.check ctx.caps = true) (s) :
    ∃ s', Validate.step ctx s c = .ok s' ∧ s'.source.isSome = true := by
  cases c with
  | source d =>
    simp [Validate.step, Validate.source, tryAsSource, sourceReq_of' _ _ d ((allOk_unlabel _ _).2 h)]
  | config => exact ⟨_, rfl, rfl⟩

theorem validate_buildable (cfg ctx cs)
    (hop : ∀ q ∈ opRequires (.validate cs), q.check ctx.caps = true)
    (hcalls : ∀ q ∈ callsRequire (.validate cs), q.check ctx.caps = true)
    (hcomp : complete (.validate cs) = true) :
    ∃ r, build cfg ctx (.validate cs) = .ok r := by
  have hc := mem_flatMap_reqs hcalls
  obtain ⟨st, hst, hp⟩ := foldCalls_last (Validate.step ctx) (fun st => st.source.isSome = true) cs
    (ne_nil_of_not_isEmpty hcomp)
    (fun c hcm s => Validate.step_succeeds ctx c (hc c hcm) s) Validate.new
  obtain ⟨t, ht⟩ := Option.isSome_iff_exists.1 hp
  have hv := hop validateAny (by simp [opRequires])
  exact build_of_run (o := .validate t)
    (by simpa [requiredCapabilities, Requirements.check, contains, validateAny, Requirement.check] using hv)
    (by simp only [runBuilder]; exact thenFinish_ok hst (by simp [Validate.finish, require, ht]))

/-! #### Junos -/
theorem junosReq_of {ctx : Ctx} (h : (Requirement.cap .junos).check ctx.caps = true) :
    (Requirements.one .junos).check ctx.caps = true := by
  simpa [Requirements.check, contains, Requirement.check] using h

theorem openConfiguration_buildable (cfg ctx cs)
    (hop : ∀ q ∈ opRequires (.openConfiguration cs), q.check ctx.caps = true)
    (hcomp : complete (.openConfiguration cs) = true) :
    ∃ r, build cfg ctx (.openConfiguration cs) = .ok r := by
  obtain ⟨st, hst, hp⟩ := foldCalls_last OpenConfiguration.step (fun st => st.target.isSome = true) cs
    (ne_nil_of_not_isEmpty hcomp)
    (fun c _ s => by
      cases c with
      | priv => exact ⟨_, rfl, rfl⟩
      | ephemeral n => cases n <;> exact ⟨_, rfl, rfl⟩) OpenConfiguration.new
  obtain ⟨t, ht⟩ := Option.isSome_iff_exists.1 hp
  exact build_of_run (o := .openConfiguration t)
    (by simpa [requiredCapabilities] using junosReq_of (hop _ (by simp [opRequires])))
    (by simp only [runBuilder]; exact thenFinish_ok hst (by simp [OpenConfiguration.finish, require, ht]))

theorem loadConfiguration_buildable (cfg ctx cs)
    (hop : ∀ q ∈ opRequires (.loadConfiguration cs), q.check ctx.caps = true)
    (hcomp : complete (.loadConfiguration cs) = true) :
    ∃ r, build cfg ctx (.loadConfiguration cs) = .ok r := by
  obtain ⟨st, hst, hp⟩ := foldCalls_last LoadConfiguration.step (fun st => st.source.isSome = true) cs
    (ne_nil_of_not_isEmpty hcomp)
    (fun c _ s => by
      cases c with
      | source src => exact ⟨_, rfl, rfl⟩) LoadConfiguration.new
  obtain ⟨t, ht⟩ := Option.isSome_iff_exists.1 hp
  exact build_of_run (o := .loadConfiguration t)
    (by simpa [requiredCapabilities] using junosReq_of (hop _ (by simp [opRequires])))
    (by simp only [runBuilder]; exact thenFinish_ok hst (by simp [LoadConfiguration.finish, require, ht]))

theorem commitConfiguration_buildable (cfg ctx cs)
    (hop : ∀ q ∈ opRequires (.commitConfiguration cs), q.check ctx.caps = true) :
    ∃ r, build cfg ctx (.commitConfiguration cs) = .ok r := by
  obtain ⟨st, hst⟩ := foldCalls_ok CommitConfiguration.step cs (by
    intro c _ s
    cases c <;> exact ⟨_, rfl⟩) CommitConfiguration.new
  exact build_of_run (o := .commitConfiguration st.check st.atTime st.confirm st.log st.synchronize)
    (by simpa [requiredCapabilities] using junosReq_of (hop _ (by simp [opRequires])))
    (by simp only [runBuilder]; exact thenFinish_ok hst rfl)
end Builders
