import Bgpfu.Model.LogTable
/-! Helper lemmas for C20: non-interference of `logged` for *every* table without unsafe formatter,
and the converse (an unsafe field makes the output depend on the secrets). -/
namespace LogTable

theorem render_safe (f : Formatter) (h : f.safe = true) (x y : List Char) : render f x = render f y := by
  cases f <;> first | rfl | exact absurd h (by decide)

theorem render_unsafe (f : Formatter) (h : f.safe = false) (x : List Char) : render f x = x := by
  cases f <;> first | rfl | exact absurd h (by decide)

theorem fields_indep (fs : List Field) (h : fs.all (fun f => f.fmt.safe) = true) (s₁ s₂ : Secrets) :
    fs.map (renderField s₁) = fs.map (renderField s₂) := by
  induction fs with
  | nil => rfl
  | cons f fs ih =>
    simp only [List.all_cons, Bool.and_eq_true] at h
    rw [List.map_cons, List.map_cons, ih h.2]
    show (f.name, render f.fmt (pick s₁ f.src)) :: _ = (f.name, render f.fmt (pick s₂ f.src)) :: _
    rw [render_safe f.fmt h.1 (pick s₁ f.src) (pick s₂ f.src)]

theorem entry_indep (e : Entry) (h : e.safe = true) (s₁ s₂ : Secrets) :
    renderEntry s₁ e = renderEntry s₂ e := by
  simp only [renderEntry, fields_indep e.fields h s₁ s₂]

/-- **general lemma**: a table without `derivesSecret`/`unknown` field logs the same text for all secrets -/
theorem logged_indep_of_allSafe (t : Table) (h : allSafe t = true) (s₁ s₂ : Secrets) :
    logged t s₁ = logged t s₂ := by
  induction t with
  | nil => rfl
  | cons e t ih =>
    simp only [allSafe, List.all_cons, Bool.and_eq_true] at h
    have := ih h.2
    simp only [logged] at this ⊢
    rw [List.map_cons, List.map_cons, this, entry_indep e h.1 s₁ s₂]

theorem allSafe_filter (t : Table) (p : Entry → Bool) (h : allSafe t = true) : allSafe (t.filter p) = true := by
  simp only [allSafe, List.all_eq_true] at h ⊢
  intro e he
  exact h e (List.mem_filter.mp he).1

/-- the two secrets used to witness a leak -/
def s₀ : Secrets := ⟨[], []⟩
def s₁ : Secrets := ⟨['x'], ['x']⟩

theorem pick_s₀ (c : Src) : pick s₀ c = [] := by cases c <;> rfl
theorem pick_s₁_ne (c : Src) : pick s₁ c ≠ [] := by cases c <;> simp [pick, s₁]

theorem fields_leak (fs : List Field) (h : fs.all (fun f => f.fmt.safe) = false) :
    fs.map (renderField s₀) ≠ fs.map (renderField s₁) := by
  induction fs with
  | nil => simp at h
  | cons f fs ih =>
    simp only [List.map_cons, ne_eq, List.cons.injEq, not_and]
    intro hf
    by_cases hs : f.fmt.safe = true
    · have : fs.all (fun f => f.fmt.safe) = false := by
        simp only [List.all_cons, hs, Bool.true_and] at h; exact h
      exact ih this
    · exfalso
      have hs' : f.fmt.safe = false := by simpa using hs
      simp only [renderField, Prod.mk.injEq, true_and] at hf
      rw [render_unsafe _ hs', render_unsafe _ hs', pick_s₀] at hf
      exact pick_s₁_ne _ hf.symm

/-- **converse**: a single unsafe field anywhere makes the log text depend on the secrets -/
theorem logged_leak_of_not_allSafe (t : Table) (h : allSafe t = false) : logged t s₀ ≠ logged t s₁ := by
  induction t with
  | nil => simp [allSafe] at h
  | cons e t ih =>
    simp only [logged, List.map_cons, ne_eq, List.cons.injEq, not_and]
    intro he
    by_cases hs : e.safe = true
    · have : allSafe t = false := by
        simp only [allSafe, List.all_cons, hs, Bool.true_and] at h; exact h
      exact ih this
    · exfalso
      have hs' : e.fields.all (fun f => f.fmt.safe) = false := by simpa [Entry.safe] using hs
      have := fields_leak e.fields hs'
      apply this
      have := congrArg Line.values he
      simpa [renderEntry] using this

end LogTable
