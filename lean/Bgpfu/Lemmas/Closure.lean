import Bgpfu.Model.RpslSpec
/-!
Correctness of the visited-set closure `Irr.closure` (the fake IRRd's recursive `!i…,1` expansion)
with respect to the declarative reachability relation `RpslSpec.Reach`, for arbitrary (cyclic)
membership graphs; and sufficiency of `closureFuel` (i.e. termination: the fuel never runs out).
-/
namespace Irr
open Rpsl RpslSpec

variable {α : Type}

/-- reachability through set names none of which is in `seen` -/
inductive RA (g : Graph α) (seen : List String) (s : String) : String → Prop where
  | refl : s ∉ seen → RA g seen s s
  | step {n m : String} {ms : List (Mem α)} :
      RA g seen s n → g.lookup n = some ms → Mem.set m ∈ ms → m ∉ seen → RA g seen s m

theorem RA.start_not_seen {g : Graph α} {seen s n} (h : RA g seen s n) : s ∉ seen := by
  induction h with
  | refl h => exact h
  | step _ _ _ _ ih => exact ih

theorem RA.mono {g : Graph α} {seen seen' s n} (hs : ∀ x, x ∈ seen → x ∈ seen')
    (h : RA g seen' s n) : RA g seen s n := by
  induction h with
  | refl h => exact .refl fun hx => h (hs _ hx)
  | step _ hl hm hn ih => exact .step ih hl hm fun hx => hn (hs _ hx)

theorem RA.trans {g : Graph α} {seen a b c} (h1 : RA g seen a b) (h2 : RA g seen b c) :
    RA g seen a c := by
  induction h2 with
  | refl _ => exact h1
  | step _ hl hm hn ih => exact .step ih hl hm hn

theorem RA.of_lookup_none {g : Graph α} {seen s n} (h : RA g seen s n) (hl : g.lookup s = none) :
    n = s := by
  induction h with
  | refl _ => rfl
  | step _ hl' _ _ ih => subst ih; rw [hl] at hl'; cases hl'

/-- the key step of the completeness argument: a path avoiding `seen` either avoids `n` too, or
its part after the last visit of `n` starts at a member of `n` -/
theorem RA.split {g : Graph α} {seen : List String} {n t y : String} {ms : List (Mem α)}
    (hl : g.lookup n = some ms) (h : RA g seen t y) :
    y = n ∨ RA g (n :: seen) t y ∨ ∃ m, Mem.set m ∈ ms ∧ RA g (n :: seen) m y := by
  induction h with
  | refl hs =>
    by_cases e : t = n
    · exact .inl e
    · exact .inr (.inl (.refl (by simp [e, hs])))
  | @step k m ms' _ hl' hm hn ih =>
    by_cases e : m = n
    · exact .inl e
    · have hm' : m ∉ n :: seen := by simp [e, hn]
      rcases ih with h | h | ⟨m0, hm0, h⟩
      · subst h
        rw [hl] at hl'; cases hl'
        exact .inr (.inr ⟨m, hm, .refl hm'⟩)
      · exact .inr (.inl (.step h hl' hm hm'))
      · exact .inr (.inr ⟨m0, hm0, .step h hl' hm hm'⟩)

/-- what one work item contributes to the output -/
def Emits (g : Graph α) (seen : List String) : Mem α → α → Prop
  | .leaf y, x => x = y
  | .set m, x => ∃ n ms, RA g seen m n ∧ g.lookup n = some ms ∧ Mem.leaf x ∈ ms

theorem Emits.mono {g : Graph α} {seen seen' t x} (hs : ∀ x, x ∈ seen → x ∈ seen')
    (h : Emits g seen' t x) : Emits g seen t x := by
  cases t with
  | leaf y => exact h
  | set m =>
    obtain ⟨n, ms, h1, h2, h3⟩ := h
    exact ⟨n, ms, h1.mono hs, h2, h3⟩

/-! ### the weight of unvisited set objects decreases with every expansion -/

theorem weight_mono (g : Graph α) (seen : List String) (n : String) :
    weight g (n :: seen) ≤ weight g seen := by
  induction g with
  | nil => simp [weight]
  | cons e g ih =>
    simp only [weight, List.mem_cons]
    by_cases h1 : e.1 = n <;> by_cases h2 : e.1 ∈ seen <;> simp [h1, h2] <;> omega

theorem weight_expand (g : Graph α) (seen : List String) (n : String) (ms : List (Mem α))
    (hl : g.lookup n = some ms) (hn : n ∉ seen) :
    weight g (n :: seen) + ms.length + 1 ≤ weight g seen := by
  induction g with
  | nil => simp at hl
  | cons e g ih =>
    obtain ⟨k, v⟩ := e
    rw [List.lookup_cons] at hl
    by_cases hk : n = k
    · subst hk
      simp at hl
      subst hl
      have hm := weight_mono g seen n
      simp [weight, hn]
      omega
    · have : (n == k) = false := by simpa using hk
      rw [this] at hl
      have ih' := ih hl
      simp only [weight, List.mem_cons]
      by_cases h2 : k ∈ seen <;> simp [h2, Ne.symm hk] <;> omega

/-! ### the closure computes exactly the reachable leaves -/

theorem closure_spec (g : Graph α) (f : Nat) (todo : List (Mem α)) (seen : List String)
    (hf : weight g seen + todo.length < f) (x : α) :
    x ∈ closure g f todo seen ↔ ∃ t ∈ todo, Emits g seen t x := by
  induction f generalizing todo seen with
  | zero => omega
  | succ f ih =>
    match todo with
    | [] => simp [closure]
    | .leaf y :: rest =>
      have := ih rest seen (by simp at hf; omega)
      simp only [closure, List.mem_cons, this, exists_eq_or_imp, Emits]
    | .set n :: rest =>
      simp only [closure]
      by_cases hs : n ∈ seen
      · rw [if_pos hs, ih rest seen (by simp at hf; omega)]
        constructor
        · rintro ⟨t, ht, h⟩; exact ⟨t, by simp [ht], h⟩
        · rintro ⟨t, ht, h⟩
          rcases List.mem_cons.mp ht with rfl | ht
          · obtain ⟨_, _, h1, _, _⟩ := h
            exact absurd hs h1.start_not_seen
          · exact ⟨t, ht, h⟩
      · rw [if_neg hs]
        cases hl : g.lookup n with
        | none =>
          simp only []
          rw [ih rest seen (by simp at hf; omega)]
          constructor
          · rintro ⟨t, ht, h⟩; exact ⟨t, by simp [ht], h⟩
          · rintro ⟨t, ht, h⟩
            rcases List.mem_cons.mp ht with rfl | ht
            · obtain ⟨k, ms, h1, h2, _⟩ := h
              have := h1.of_lookup_none hl
              subst this
              rw [hl] at h2; cases h2
            · exact ⟨t, ht, h⟩
        | some ms =>
          simp only []
          have hw := weight_expand g seen n ms hl hs
          rw [ih (ms ++ rest) (n :: seen) (by simp at hf ⊢; omega)]
          have sub : ∀ x, x ∈ seen → x ∈ n :: seen := fun x hx => by simp [hx]
          constructor
          · rintro ⟨t, ht, h⟩
            rcases List.mem_append.mp ht with ht | ht
            · refine ⟨.set n, by simp, ?_⟩
              cases t with
              | leaf y =>
                have : x = y := h
                subst this
                exact ⟨n, ms, .refl hs, hl, ht⟩
              | set m =>
                obtain ⟨k, ms', h1, h2, h3⟩ := h
                have hm : m ∉ seen := fun hx => h1.start_not_seen (sub _ hx)
                exact ⟨k, ms', (RA.step (.refl hs) hl ht hm).trans (h1.mono sub), h2, h3⟩
            · exact ⟨t, by simp [ht], h.mono sub⟩
          · rintro ⟨t, ht, h⟩
            have key : ∀ t0 y ms', RA g seen t0 y → g.lookup y = some ms' → Mem.leaf x ∈ ms' →
                (t0 = n ∨ Mem.set t0 ∈ rest) → ∃ t ∈ ms ++ rest, Emits g (n :: seen) t x := by
              intro t0 y ms' h1 h2 h3 h0
              rcases h1.split hl with e | h1' | ⟨m, hm, h1'⟩
              · subst e
                rw [hl] at h2; cases h2
                exact ⟨.leaf x, by simp [h3], rfl⟩
              · rcases h0 with e | h0
                · subst e
                  exact absurd (by simp) h1'.start_not_seen
                · exact ⟨.set t0, by simp [h0], y, ms', h1', h2, h3⟩
              · exact ⟨.set m, by simp [hm], y, ms', h1', h2, h3⟩
            rcases List.mem_cons.mp ht with rfl | ht
            · obtain ⟨y, ms', h1, h2, h3⟩ := h
              exact key n y ms' h1 h2 h3 (.inl rfl)
            · cases t with
              | leaf y => exact ⟨.leaf y, by simp [ht], h⟩
              | set m =>
                obtain ⟨y, ms', h1, h2, h3⟩ := h
                exact key m y ms' h1 h2 h3 (.inr ht)

theorem RA_nil_iff_reach (g : Graph α) (s n : String) : RA g [] s n ↔ Reach g s n := by
  constructor
  · intro h
    induction h with
    | refl _ => exact .refl
    | step _ hl hm _ ih => exact .step ih hl hm
  · intro h
    induction h with
    | refl => exact .refl (by simp)
    | step _ hl hm ih => exact .step ih hl hm (by simp)

/-- **the fake IRRd's recursive expansion is the reflexive-transitive membership closure**, for
every graph (cycles, self references, unknown names included) -/
theorem mem_expand (g : Graph α) (s : String) (x : α) : x ∈ expand g s ↔ LeafOf g s x := by
  unfold expand closureFuel
  rw [closure_spec g _ _ _ (by simp)]
  constructor
  · rintro ⟨t, ht, h⟩
    simp at ht
    subst ht
    obtain ⟨n, ms, h1, h2, h3⟩ := h
    exact ⟨n, ms, (RA_nil_iff_reach g s n).mp h1, h2, h3⟩
  · rintro ⟨n, ms, h1, h2, h3⟩
    exact ⟨.set s, by simp, n, ms, (RA_nil_iff_reach g s n).mpr h1, h2, h3⟩

/-- more fuel than `closureFuel` changes nothing: the recursion has ended before the fuel does -/
theorem closure_fuel_irrelevant (g : Graph α) (s : String) (k : Nat) (x : α) :
    x ∈ closure g (closureFuel g + k) [.set s] [] ↔ x ∈ expand g s := by
  rw [mem_expand, closure_spec g _ _ _ (by unfold closureFuel; simp; omega)]
  constructor
  · rintro ⟨t, ht, h⟩
    simp at ht
    subst ht
    obtain ⟨n, ms, h1, h2, h3⟩ := h
    exact ⟨n, ms, (RA_nil_iff_reach g s n).mp h1, h2, h3⟩
  · rintro ⟨n, ms, h1, h2, h3⟩
    exact ⟨.set s, by simp, n, ms, (RA_nil_iff_reach g s n).mpr h1, h2, h3⟩

end Irr
