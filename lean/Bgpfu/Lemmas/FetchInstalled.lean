import Bgpfu.Spec.InstalledGrammar
import Bgpfu.Lemmas.Fetch
import Bgpfu.Lemmas.FetchTotal
/-! Lemmas for the event-level reader of installed policies (C01 read-back,
`Model/FetchInstalled.lean`): text facts about the rendering (`Spec/InstalledGrammar.lean`), the
event-level loops on rendered documents refine a child-level semantics (`…Abs`), the child-level
semantics agrees with the abstract reader `Policy.readInstalled`, totality. -/
namespace Xml
open Policy (Range Fam Str Installed dedup)

/-! ### text -/

theorem trim_ofList (l : List Char) : trim (String.ofList l) = String.ofList (trimL l) := by
  simp [trim]

theorem ofList_inj {a b : List Char} (h : String.ofList a = String.ofList b) : a = b := by
  have := congrArg String.toList h
  simpa using this

/-- a decimal digit -/
def IsDec (c : Char) : Prop := ∃ k, k < 10 ∧ c = Char.ofNat (48 + k)

theorem decDigit_isDec (n : Nat) : IsDec (decDigit n) := ⟨n % 10, Nat.mod_lt _ (by decide), rfl⟩

theorem isDec_not_ws {c : Char} (h : IsDec c) : isWs c = false := by
  obtain ⟨k, hk, rfl⟩ := h
  have : ∀ k, k < 10 → isWs (Char.ofNat (48 + k)) = false := by decide
  exact this k hk

theorem isDec_ne_hyphen {c : Char} (h : IsDec c) : (c == '-') = false := by
  obtain ⟨k, hk, rfl⟩ := h
  have : ∀ k, k < 10 → (Char.ofNat (48 + k) == '-') = false := by decide
  exact this k hk

theorem decAux_isDec (fuel n : Nat) (acc : List Char) (h : ∀ c ∈ acc, IsDec c) : ∀ c ∈ decAux fuel n acc, IsDec c := by
  induction fuel generalizing n acc with
  | zero => simpa [decAux] using h
  | succ f ih =>
    have h' : ∀ c ∈ decDigit n :: acc, IsDec c := by
      intro c hc
      rcases List.mem_cons.mp hc with rfl | hc
      · exact decDigit_isDec n
      · exact h c hc
    unfold decAux
    split
    · exact h'
    · exact ih _ _ h'

theorem decAux_ne_nil (fuel n : Nat) (acc : List Char) : decAux (fuel + 1) n acc ≠ [] := by
  induction fuel generalizing n acc with
  | zero => unfold decAux; split <;> simp [decAux]
  | succ f ih =>
    unfold decAux
    split
    · simp
    · exact ih _ _

theorem decL_isDec (n : Nat) : ∀ c ∈ decL n, IsDec c := decAux_isDec _ _ _ (by simp)
theorem decL_ne_nil (n : Nat) : decL n ≠ [] := decAux_ne_nil _ _ _

theorem decL_concat (n : Nat) : ∃ m b, decL n = m ++ [b] ∧ IsDec b := by
  refine ⟨(decL n).dropLast, (decL n).getLast (decL_ne_nil n), (List.dropLast_concat_getLast _).symm, ?_⟩
  exact decL_isDec n _ (List.getLast_mem _)

theorem trimStart_cons {a : Char} (l : List Char) (h : isWs a = false) : trimStart (a :: l) = a :: l := by
  simp [trimStart, List.dropWhile, h]

theorem trimEnd_concat {b : Char} (m : List Char) (h : isWs b = false) : trimEnd (m ++ [b]) = m ++ [b] := by
  simp [trimEnd, List.dropWhile, h]

theorem plrL_trim (lo hi : Nat) : trimL (plrL lo hi) = plrL lo hi := by
  obtain ⟨m, b, hm, hb⟩ := decL_concat hi
  have e : plrL lo hi = ('/' :: (decL lo ++ '-' :: '/' :: m)) ++ [b] := by simp [plrL, lenL, hm]
  unfold trimL
  rw [e, List.cons_append, trimStart_cons _ (by decide), ← List.cons_append, trimEnd_concat _ (isDec_not_ws hb)]

theorem splitOnceL_append (c : Char) (a b : List Char) (h : ∀ x ∈ a, (x == c) = false) :
    splitOnceL c (a ++ c :: b) = some (a, b) := by
  induction a with
  | nil => simp [splitOnceL]
  | cons x xs ih =>
    have hx := h x (by simp)
    simp only [List.cons_append, splitOnceL, hx, Bool.false_eq_true, if_false]
    rw [ih (fun y hy => h y (by simp [hy]))]

theorem plrS_trim (lo hi : Nat) : trim (plrS lo hi) = plrS lo hi := by
  simp [plrS, trim_ofList, plrL_trim]

theorem plrS_split (lo hi : Nat) : splitOnceS '-' (plrS lo hi) = some (lenS lo, lenS hi) := by
  have : splitOnceL '-' (plrL lo hi) = some (lenL lo, lenL hi) := by
    unfold plrL
    apply splitOnceL_append
    intro x hx
    simp only [lenL, List.mem_cons] at hx
    rcases hx with rfl | hx
    · decide
    · exact isDec_ne_hyphen (decL_isDec lo x hx)
  simp [splitOnceS, plrS, lenS, this]

/-! #### escaping commutes with trimming -/

theorem escC_ws {c : Char} (h : isWs c = true) : escC c = [c] := by
  unfold escC
  split
  · subst_vars; exact absurd h (by decide)
  · split
    · subst_vars; exact absurd h (by decide)
    · split
      · subst_vars; exact absurd h (by decide)
      · rfl

theorem escC_head {c : Char} (h : isWs c = false) : ∃ a t, escC c = a :: t ∧ isWs a = false := by
  unfold escC
  split
  · exact ⟨_, _, rfl, by decide⟩
  · split
    · exact ⟨_, _, rfl, by decide⟩
    · split
      · exact ⟨_, _, rfl, by decide⟩
      · exact ⟨c, [], rfl, h⟩

theorem escC_last {c : Char} (h : isWs c = false) : ∃ t b, escC c = t ++ [b] ∧ isWs b = false := by
  unfold escC
  split
  · exact ⟨['&', 'a', 'm', 'p'], ';', rfl, by decide⟩
  · split
    · exact ⟨['&', 'l', 't'], ';', rfl, by decide⟩
    · split
      · exact ⟨['&', 'g', 't'], ';', rfl, by decide⟩
      · exact ⟨[], c, rfl, h⟩

theorem dropWhile_escL (l : List Char) : (escL l).dropWhile isWs = escL (l.dropWhile isWs) := by
  induction l with
  | nil => rfl
  | cons c l ih =>
    cases h : isWs c with
    | true =>
      have : escL (c :: l) = c :: escL l := by simp [escL, escC_ws h]
      rw [this, List.dropWhile_cons_of_pos (by simpa using h), List.dropWhile_cons_of_pos (by simpa using h), ih]
    | false =>
      obtain ⟨a, t, e, ha⟩ := escC_head h
      have : escL (c :: l) = a :: (t ++ escL l) := by simp [escL, e]
      rw [List.dropWhile_cons_of_neg (by simpa using h), this, List.dropWhile_cons_of_neg (by simpa using ha)]

/-- `escL` read from the right -/
def escR (l : List Char) : List Char := l.flatMap fun c => (escC c).reverse

theorem escL_reverse (l : List Char) : (escL l).reverse = escR l.reverse := by
  induction l with
  | nil => rfl
  | cons c l ih =>
    have : escL (c :: l) = escC c ++ escL l := by simp [escL]
    rw [this, List.reverse_append, ih]
    simp [escR]

theorem escR_reverse (l : List Char) : (escR l).reverse = escL l.reverse := by
  have := escL_reverse l.reverse
  rw [List.reverse_reverse] at this
  rw [← this, List.reverse_reverse]

theorem dropWhile_escR (l : List Char) : (escR l).dropWhile isWs = escR (l.dropWhile isWs) := by
  induction l with
  | nil => rfl
  | cons c l ih =>
    cases h : isWs c with
    | true =>
      have : escR (c :: l) = c :: escR l := by simp [escR, escC_ws h]
      rw [this, List.dropWhile_cons_of_pos (by simpa using h), List.dropWhile_cons_of_pos (by simpa using h), ih]
    | false =>
      obtain ⟨t, b, e, hb⟩ := escC_last h
      have : escR (c :: l) = b :: (t.reverse ++ escR l) := by simp [escR, e]
      rw [List.dropWhile_cons_of_neg (by simpa using h), this, List.dropWhile_cons_of_neg (by simpa using hb)]

theorem trimL_escL (l : List Char) : trimL (escL l) = escL (trimL l) := by
  unfold trimL trimStart trimEnd
  rw [dropWhile_escL, escL_reverse, dropWhile_escR, escR_reverse]

theorem trim_escS (s : String) : trim (escS s) = escS (trim s) := by
  simp [escS, trim, trimL_escL]

/-! ### leaves -/

set_option linter.unusedSimpArgs false

theorem textEv_inert (name : String) (txt : List Char) : Inert name (textEv txt) := by
  unfold textEv; split <;> simp [Inert]

theorem readText_leafEvs (name : String) (txt : List Char) (tail : List Ev) :
    readText (xtag name txt) (textEv txt ++ .end name :: tail) = .ok (String.ofList txt, tail) :=
  readText_elem (xtag name txt) _ _ tail rfl (textEv_inert name txt)

theorem xtag_is (name : String) (span : List Char) (n : String) : (xtag name span).is XNM n = (name == n) := by
  simp [xtag, xnmTag_is]

theorem xtag_raw (name : String) (span : List Char) : (xtag name span).raw = name := rfl

theorem trimL_PLR : trimL PLR = PLR := by decide
theorem trim_plr_lit : trim "prefix-length-range" = "prefix-length-range" := by decide
theorem ofList_PLR : String.ofList PLR = "prefix-length-range" := by decide

/-! ### route-filter -/

/-- what the reader keeps of a rendered route-filter -/
def rfOf (r : Range) : String × String := (trim (prefixS r.v6 r.addr r.len), plrS r.lo r.hi)

theorem readRouteFilter_render (r : Range) (fuel : Nat) (tail : List Ev) (hf : 3 ≤ fuel) :
    readRouteFilter fuel (xtag "route-filter" (filterInner r)) (filterBody r ++ .end "route-filter" :: tail)
      = .ok (rfOf r, tail) := by
  obtain ⟨f, rfl⟩ : ∃ f, fuel = f + 3 := ⟨fuel - 3, by omega⟩
  simp only [readRouteFilter, xtag_raw, filterBody, leafEvs, List.cons_append, List.append_assoc, List.nil_append]
  simp only [routeFilterLoop, choiceValueLoop, xtag_is, readText_leafEvs, trimL_PLR, ofList_PLR, trim_plr_lit,
    bne_self_eq_false, String.reduceBEq, String.reduceBNe,
    Option.isNone_none, Option.isNone_some, Bool.and_self, Bool.and_true, Bool.and_false, Bool.false_and, Bool.true_and,
    if_true, Bool.false_eq_true, if_false, RfSt.finish, rfOf, prefixS, plrS, trim_ofList, plrL_trim]

theorem filterEvs_length (r : Range) : 8 ≤ (filterEvs r).length := by
  simp [filterEvs, filterBody, leafEvs]; omega

/-! ### `<from>` -/

theorem fromLoop_filters (rs : List Range) (fuel : Nat) (st : FromSt) (tail : List Ev)
    (hf : (rs.flatMap filterEvs).length + 1 ≤ fuel) :
    fromLoop fuel "from" st (rs.flatMap filterEvs ++ .end "from" :: tail)
      = .ok ({ st with filters := st.filters ++ rs.map rfOf }, tail) := by
  induction rs generalizing fuel st with
  | nil =>
    obtain ⟨f, rfl⟩ : ∃ f, fuel = f + 1 := ⟨fuel - 1, by omega⟩
    simp [fromLoop]
  | cons r rs ih =>
    obtain ⟨f, rfl⟩ : ∃ f, fuel = f + 1 := ⟨fuel - 1, by omega⟩
    have h8 := filterEvs_length r
    simp only [List.flatMap_cons, List.length_append] at hf
    have hr := readRouteFilter_render r f (rs.flatMap filterEvs ++ .end "from" :: tail) (by omega)
    simp only [List.flatMap_cons, filterEvs, List.cons_append, List.append_assoc, List.nil_append, fromLoop, xtag_is,
      String.reduceBEq, Bool.false_and, Bool.false_eq_true, if_false, if_true, hr]
    rw [ih f _ (by omega)]
    simp

/-- child-level semantics of `TermFrom::borrowed_read_xml` on a rendered `<from>` -/
def fromAbs (t : TTerm) : Except Err TermFrom :=
  match t.family with
  | none => .error .missing
  | some f => .ok { family := trim (escS f), filters := t.filters.map rfOf }

theorem fromBody_length (t : TTerm) : (t.filters.flatMap filterEvs).length ≤ (fromBody t).length := by
  simp [fromBody]

theorem readTermFrom_render (t : TTerm) (fuel : Nat) (tail : List Ev) (hf : (fromBody t).length + 1 ≤ fuel) :
    readTermFrom fuel (xtag "from" (fromInner t)) (fromBody t ++ .end "from" :: tail) = liftR (fromAbs t) tail := by
  unfold readTermFrom fromAbs
  simp only [xtag_raw]
  cases hfam : t.family with
  | none =>
    have e : fromBody t = t.filters.flatMap filterEvs := by simp [fromBody, familyEvs, hfam]
    rw [e] at hf ⊢
    rw [fromLoop_filters _ _ _ _ hf]
    simp [FromSt.finish]
  | some f =>
    have e : fromBody t = leafEvs "family" (escL f.toList) ++ t.filters.flatMap filterEvs := by
      simp [fromBody, familyEvs, hfam]
    rw [e] at hf ⊢
    simp only [leafEvs, List.length_append, List.length_cons, List.cons_append] at hf
    obtain ⟨g, rfl⟩ : ∃ g, fuel = g + 1 := ⟨fuel - 1, by omega⟩
    simp only [leafEvs, List.cons_append, List.append_assoc, List.nil_append, fromLoop, xtag_is, beq_self_eq_true,
      Option.isNone_none, Bool.and_self, if_true, readText_leafEvs]
    rw [fromLoop_filters _ _ _ _ (by omega)]
    simp [FromSt.finish, escS, trim_ofList]

/-! ### term -/

/-- child-level semantics of `Term::borrowed_read_xml` on a rendered term -/
def termAbs (t : TTerm) : Except Err TermFrom :=
  match t.family with
  | none => .error .missing
  | some f =>
    if !t.accept then .error .missing
    else if escS t.name != trim (escS f) then .error .other
    else .ok { family := trim (escS f), filters := t.filters.map rfOf }

theorem fromEvs_length (t : TTerm) : (fromEvs t).length = if t.hasFrom then (fromBody t).length + 2 else 0 := by
  unfold fromEvs; split <;> simp

theorem readTerm_render (t : TTerm) (fuel : Nat) (tail : List Ev) (hf : (termBody t).length + 1 ≤ fuel) :
    readTerm fuel (termTag t) (termBody t ++ .end "term" :: tail) = liftR (termAbs t) tail := by
  unfold readTerm
  simp only [termBody, leafEvs, List.length_append, List.length_cons, fromEvs_length] at hf
  have hraw : (termTag t).raw = "term" := rfl
  rw [hraw]
  by_cases hfr : t.hasFrom = true
  · -- `<from>` present
    simp only [hfr, if_true] at hf
    have hfrom := fun fl tl h => readTermFrom_render t fl tl h
    cases hacc : t.accept with
    | true =>
      simp only [hacc, if_true, thenEvs, List.length_cons, List.length_nil] at hf
      obtain ⟨f, rfl⟩ : ∃ f, fuel = f + 6 := ⟨fuel - 6, by omega⟩
      simp only [termBody, leafEvs, fromEvs, hfr, hacc, if_true, thenEvs, List.cons_append, List.append_assoc,
        List.nil_append, termLoop, xtag_is, String.reduceBEq, beq_self_eq_true, Option.isNone_none, Option.isNone_some,
        Bool.and_self, Bool.and_true, Bool.false_and, Bool.true_and, Bool.false_eq_true, if_false, readText_leafEvs,
        xtag_raw, Bool.not_false]
      rw [hfrom (f + 4) _ (by omega)]
      unfold fromAbs termAbs
      cases hfam : t.family with
      | none => simp
      | some fm =>
        simp only [liftR_ok, termLoop, xtag_is, String.reduceBEq, beq_self_eq_true, Option.isNone_some,
          Bool.and_false, Bool.false_and, Bool.false_eq_true, if_false, Bool.not_false, Bool.and_self, if_true, xtag_raw,
          acceptLoop, emptyTag, xnmTag_is, hacc, Bool.not_true, TermSt.finish, escS]
        by_cases he : String.ofList (escL t.name.toList) = trim (String.ofList (escL fm.toList)) <;> simp [he]
    | false =>
      simp only [hacc, Bool.false_eq_true, if_false, List.length_nil] at hf
      obtain ⟨f, rfl⟩ : ∃ f, fuel = f + 3 := ⟨fuel - 3, by omega⟩
      simp only [termBody, leafEvs, fromEvs, hfr, hacc, if_true, Bool.false_eq_true, if_false, List.cons_append,
        List.append_assoc, List.nil_append, List.append_nil, termLoop, xtag_is, String.reduceBEq, beq_self_eq_true,
        Option.isNone_none, Option.isNone_some, Bool.and_self, Bool.and_true, Bool.false_and, Bool.true_and,
        readText_leafEvs, xtag_raw]
      rw [hfrom (f + 1) _ (by omega)]
      unfold fromAbs termAbs
      cases hfam : t.family with
      | none => simp
      | some fm =>
        simp [termLoop, TermSt.finish, hacc]
  · -- no `<from>`: no family, no filters
    have hfr' : t.hasFrom = false := by simpa using hfr
    have hfam : t.family = none := by
      cases h : t.family with
      | none => rfl
      | some x => simp [TTerm.hasFrom, h] at hfr'
    simp only [hfr', Bool.false_eq_true, if_false] at hf
    unfold termAbs
    rw [hfam]
    cases hacc : t.accept with
    | true =>
      simp only [hacc, if_true, thenEvs, List.length_cons, List.length_nil] at hf
      obtain ⟨f, rfl⟩ : ∃ f, fuel = f + 5 := ⟨fuel - 5, by omega⟩
      simp [termBody, leafEvs, fromEvs, hfr', hacc, thenEvs, termLoop, xtag_is, readText_leafEvs, xtag_raw,
        acceptLoop, emptyTag, xnmTag_is, TermSt.finish]
    | false =>
      simp only [hacc, Bool.false_eq_true, if_false, List.length_nil] at hf
      obtain ⟨f, rfl⟩ : ∃ f, fuel = f + 2 := ⟨fuel - 2, by omega⟩
      simp [termBody, leafEvs, fromEvs, hfr', hacc, termLoop, xtag_is, readText_leafEvs, xtag_raw, TermSt.finish]

/-! ### policy-statement -/

/-- child-level semantics of the term arm of `Maybe<Installed>::read_xml` over the terms of a policy -/
def termsAbs (o : IOracle) : InstSt → List TTerm → Except Err InstSt
  | st, [] => .ok st
  | st, t :: ts =>
    match termAbs t with
    | .error e => .error e
    | .ok frm =>
      match st.addTerm o frm with
      | .error e => .error e
      | .ok st' => termsAbs o st' ts

/-- child-level semantics of `Maybe<Installed>::read_xml` on a rendered policy -/
def policyAbs (o : IOracle) (p : TPolicy) : Except Err (Option (String × Installed)) :=
  match termsAbs o { name := some p.name } p.terms with
  | .error e => .error e
  | .ok st => ({ st with reject := p.reject } : InstSt).finish

theorem addTerm_fields (o : IOracle) (st st' : InstSt) (frm : TermFrom) (h : st.addTerm o frm = .ok st') :
    st'.reject = st.reject ∧ st'.name = st.name := by
  unfold InstSt.addTerm at h
  split at h
  · split at h
    · simp only [Except.ok.injEq] at h; subst h; exact ⟨rfl, rfl⟩
    · cases h
  · split at h
    · split at h
      · simp only [Except.ok.injEq] at h; subst h; exact ⟨rfl, rfl⟩
      · cases h
    · cases h

theorem termEvs_length (t : TTerm) : (termEvs t).length = (termBody t).length + 2 := by
  simp [termEvs]

theorem instLoop_body (o : IOracle) (ts : List TTerm) (rj : Bool) (fuel : Nat) (st : InstSt) (tail : List Ev)
    (hst : st.reject = false)
    (hf : (ts.flatMap termEvs).length + (if rj then thenEvs "reject" REJECT else []).length + 1 ≤ fuel) :
    instLoop o fuel "policy-statement" st
        (ts.flatMap termEvs ++ ((if rj then thenEvs "reject" REJECT else []) ++ .end "policy-statement" :: tail))
      = match termsAbs o st ts with
        | .error e => .error e
        | .ok st' => .ok ({ st' with reject := rj }, tail) := by
  induction ts generalizing fuel st with
  | nil =>
    cases rj with
    | false =>
      obtain ⟨f, rfl⟩ : ∃ f, fuel = f + 1 := ⟨fuel - 1, by omega⟩
      cases st
      simp_all [instLoop, termsAbs]
    | true =>
      simp only [if_true, thenEvs, List.length_cons, List.length_nil, List.flatMap_nil] at hf
      obtain ⟨f, rfl⟩ : ∃ f, fuel = f + 4 := ⟨fuel - 4, by omega⟩
      simp [instLoop, termsAbs, thenEvs, xtag_is, hst, instThenLoop, emptyTag, xnmTag_is, xtag_raw]
  | cons t ts ih =>
    obtain ⟨f, rfl⟩ : ∃ f, fuel = f + 1 := ⟨fuel - 1, by omega⟩
    simp only [List.flatMap_cons, List.length_append, termEvs_length] at hf
    have hr := readTerm_render t f (ts.flatMap termEvs ++
      ((if rj then thenEvs "reject" REJECT else []) ++ .end "policy-statement" :: tail)) (by omega)
    have hraw : (termTag t).raw = "term" := rfl
    have his1 : (termTag t).is XNM "name" = false := by simp [termTag, xtag_is]
    have his2 : (termTag t).is XNM "term" = true := by simp [termTag, xtag_is]
    simp only [List.flatMap_cons, termEvs, List.cons_append, List.append_assoc, List.nil_append, instLoop, his1, his2,
      Bool.false_and, Bool.false_eq_true, if_false, if_true, hr, termsAbs]
    cases hta : termAbs t with
    | error e => simp
    | ok frm =>
      simp only [liftR_ok]
      cases had : st.addTerm o frm with
      | error e => simp
      | ok st' =>
        simp only []
        exact ih f st' (by rw [(addTerm_fields o st st' frm had).1]; exact hst) (by omega)

theorem policyBody_length (p : TPolicy) :
    (policyBody p).length = (textEv (escL p.name.toList)).length + 2 + (p.terms.flatMap termEvs).length
      + (if p.reject then thenEvs "reject" REJECT else []).length := by
  simp [policyBody, leafEvs]; omega

theorem readInstalledStmt_render (o : IOracle) (hU : ∀ s, o.unescape (escS s) = some s) (p : TPolicy) (fuel : Nat)
    (tail : List Ev) (hf : (policyBody p).length + 1 ≤ fuel) :
    readInstalledStmt o fuel (policyTag p) (policyBody p ++ .end "policy-statement" :: tail)
      = liftR (policyAbs o p) tail := by
  rw [policyBody_length] at hf
  obtain ⟨f, rfl⟩ : ∃ f, fuel = f + 1 := ⟨fuel - 1, by omega⟩
  have hraw : (policyTag p).raw = "policy-statement" := rfl
  have hu : o.unescape (String.ofList (escL p.name.toList)) = some p.name := hU p.name
  unfold readInstalledStmt policyAbs
  simp only [hraw, policyBody, leafEvs, List.cons_append, List.append_assoc, List.nil_append, instLoop, xtag_is,
    beq_self_eq_true, Option.isNone_none, Bool.and_self, if_true, readName, readText_leafEvs, hu]
  rw [instLoop_body o p.terms p.reject f _ tail rfl (by omega)]
  cases termsAbs o { name := some p.name } p.terms with
  | error e => simp
  | ok st => simp only [liftR]; cases (InstSt.finish { st with reject := p.reject }) <;> rfl

/-! ### the three outer loops -/

/-- child-level semantics of `Policies<Installed>::read_xml` on the rendered policies -/
def posAbs (o : IOracle) (map : List (String × Installed)) : List TPolicy → Except Err (List (String × Installed))
  | [] => .ok map
  | p :: ps =>
    match policyAbs o p with
    | .error e => .error e
    | .ok none => posAbs o map ps
    | .ok (some (n, i)) => if map.any (·.1 == n) then .error .other else posAbs o (map ++ [(n, i)]) ps

theorem policyEvs_length (p : TPolicy) : (policyEvs p).length = (policyBody p).length + 2 := by
  simp [policyEvs]

theorem policyOptionsLoop_policies (o : IOracle) (hU : ∀ s, o.unescape (escS s) = some s) (ps : List TPolicy)
    (fuel : Nat) (map : List (String × Installed)) (rest : List Ev) (hf : (ps.flatMap policyEvs).length + 1 ≤ fuel) :
    policyOptionsLoop (readInstalledStmt o) fuel "policy-options" map
        (ps.flatMap policyEvs ++ .end "policy-options" :: rest) = liftR (posAbs o map ps) rest := by
  induction ps generalizing fuel map with
  | nil =>
    obtain ⟨f, rfl⟩ : ∃ f, fuel = f + 1 := ⟨fuel - 1, by omega⟩
    simp [policyOptionsLoop, posAbs]
  | cons p ps ih =>
    obtain ⟨f, rfl⟩ : ∃ f, fuel = f + 1 := ⟨fuel - 1, by omega⟩
    simp only [List.flatMap_cons, List.length_append, policyEvs_length] at hf
    have hr := readInstalledStmt_render o hU p f (ps.flatMap policyEvs ++ .end "policy-options" :: rest) (by omega)
    have his : (policyTag p).is XNM "policy-statement" = true := by simp [policyTag, xtag_is]
    simp only [List.flatMap_cons, policyEvs, List.cons_append, List.append_assoc, List.nil_append, policyOptionsLoop,
      his, if_true, hr, posAbs]
    cases hpa : policyAbs o p with
    | error e => simp
    | ok v =>
      cases v with
      | none => simp only [liftR_ok]; exact ih f map (by omega)
      | some ni =>
        obtain ⟨n, i⟩ := ni
        simp only [liftR_ok]
        split
        · rfl
        · exact ih f _ (by omega)

theorem policiesLoop_renderData (o : IOracle) (hU : ∀ s, o.unescape (escS s) = some s) (c : TCfg) (rest : List Ev)
    (fuel : Nat) (hf : (renderData c).length + 1 ≤ fuel) :
    policiesLoop (readInstalledStmt o) fuel "data" none (renderData c ++ rest) = posAbs o [] c := by
  have hc1 : (confTag c).is XNM "configuration" = true := by simp [confTag, xnmTag_is]
  have hc2 : (confTag c).raw = "configuration" := rfl
  cases c with
  | nil =>
    simp only [renderData, confBody, List.isEmpty_nil, if_true, List.length_cons, List.length_append, List.length_nil] at hf
    obtain ⟨f, rfl⟩ : ∃ f, fuel = f + 3 := ⟨fuel - 3, by omega⟩
    simp [renderData, confBody, policiesLoop, configurationLoop, hc1, hc2, posAbs]
  | cons p ps =>
    have hne : (p :: ps).isEmpty = false := rfl
    simp only [renderData, confBody, hne, Bool.false_eq_true, if_false, List.length_cons, List.length_append,
      List.length_nil] at hf
    obtain ⟨f, rfl⟩ : ∃ f, fuel = f + 4 := ⟨fuel - 4, by omega⟩
    have hpo := policyOptionsLoop_policies o hU (p :: ps) (f + 2) []
      (.end "configuration" :: .end "data" :: rest) (by omega)
    simp only [renderData, confBody, hne, Bool.false_eq_true, if_false, List.cons_append, List.append_assoc,
      List.nil_append, policiesLoop, hc1, hc2, Option.isNone_none, Bool.and_self, if_true, configurationLoop, xtag_is,
      beq_self_eq_true, Bool.not_false, xtag_raw, hpo]
    cases posAbs o [] (p :: ps) with
    | error e => simp
    | ok m => simp [configurationLoop, policiesLoop]

/-- **Refinement**: on every rendered reply document the event-level reader computes its child-level
semantics (with the exact error classes of the real reader). -/
theorem readInstalledDoc_refines (o : IOracle) (hU : ∀ s, o.unescape (escS s) = some s) (c : TCfg) :
    readInstalledDoc o (renderGetConfig c) = posAbs o [] c := by
  have h1 : (rpcTag c).lname = "rpc-reply" := rfl
  have h2 : (dataTag c).lname = "data" := rfl
  have h3 : (dataTag c).raw = "data" := rfl
  simp only [readInstalledDoc, renderGetConfig, readData, h1, h2, h3, String.reduceBEq, Bool.false_eq_true, if_false,
    beq_self_eq_true, if_true, readInstalledEv]
  exact policiesLoop_renderData o hU c _ _ (by simp)

/-! ### agreement with the abstract reader `Policy.readInstalled` -/

theorem readRange_eq (f : Fam) (r : Range) :
    Policy.readRange f r =
      if r.v6 = f.isV6 ∧ r.len ≤ f.bits ∧ r.addr < 2 ^ f.bits ∧ r.lo ≤ f.bits ∧ r.hi ≤ f.bits ∧ max r.len r.lo ≤ r.hi
      then .ok { r with lo := max r.len r.lo, addr := r.addr - r.addr % 2 ^ (f.bits - r.len) } else .error .badRange := by
  unfold Policy.readRange
  by_cases h1 : r.v6 = f.isV6 <;> by_cases h2 : r.len ≤ f.bits <;> by_cases h3 : r.addr < 2 ^ f.bits <;>
    by_cases h4 : r.lo ≤ f.bits <;> by_cases h5 : r.hi ≤ f.bits <;> by_cases h6 : max r.len r.lo ≤ r.hi <;>
    simp [h1, h2, h3, h4, h5, h6, Nat.not_lt.mpr, Nat.not_le.mpr] <;> omega

theorem toRange_eq (o : IOracle) (f : Fam) (r : Range) (hr : RangeOK o r) :
    toRange o f (rfOf r) =
      if r.v6 = f.isV6 ∧ r.len ≤ f.bits ∧ r.addr < 2 ^ f.bits ∧ r.lo ≤ f.bits ∧ r.hi ≤ f.bits ∧ max r.len r.lo ≤ r.hi
      then .ok { r with lo := max r.len r.lo, addr := r.addr - r.addr % 2 ^ (f.bits - r.len) } else .error .other := by
  simp only [toRange, rfOf, hr.pfx, plrS_split, hr.lo, hr.hi, withLengthRange]
  by_cases h1 : r.v6 = f.isV6 <;> by_cases h2 : r.len ≤ f.bits <;> by_cases h3 : r.addr < 2 ^ f.bits <;>
    by_cases h4 : r.lo ≤ f.bits <;> by_cases h5 : r.hi ≤ f.bits <;> by_cases h6 : max r.len r.lo ≤ r.hi <;>
    simp [h1, h2, h3, h4, h5, h6]

theorem toRange_abs (o : IOracle) (f : Fam) (r : Range) (hr : RangeOK o r) :
    (toRange o f (rfOf r)).toOption = (Policy.readRange f r).toOption := by
  rw [toRange_eq o f r hr, readRange_eq]
  split <;> rfl

theorem toRanges_abs (o : IOracle) (f : Fam) (rs : List Range) (hrs : ∀ r ∈ rs, RangeOK o r) :
    (toRanges o f (rs.map rfOf)).toOption = (Policy.readRanges f rs).toOption := by
  induction rs with
  | nil => rfl
  | cons r rs ih =>
    have h := toRange_abs o f r (hrs r (by simp))
    have ih := ih (fun x hx => hrs x (by simp [hx]))
    simp only [List.map_cons, toRanges, Policy.readRanges]
    cases h1 : toRange o f (rfOf r) <;> cases h2 : Policy.readRange f r <;> simp only [h1, h2, Except.toOption] at h ⊢
    · cases h
    · cases h
    · simp only [Option.some.injEq] at h; subst h
      cases h3 : toRanges o f (rs.map rfOf) <;> cases h4 : Policy.readRanges f rs <;>
        simp only [h3, h4, Except.toOption] at ih ⊢
      · cases ih
      · cases ih
      · simp only [Option.some.injEq] at ih; subst ih; rfl

/-- the part of the reader state the abstract reader tracks -/
def vw (st : InstSt) : Option (List Range) × Option (List Range) := (st.v4, st.v6)

theorem escS_inj (o : IOracle) (hU : ∀ s, o.unescape (escS s) = some s) {a b : String} (h : escS a = escS b) : a = b := by
  have := hU a
  rw [h, hU b] at this
  exact (Option.some.inj this).symm

theorem escS_inet : escS "inet" = "inet" := by decide
theorem escS_inet6 : escS "inet6" = "inet6" := by decide

/-- what the agreement proof needs of the oracles and the encoding, relative to a set `S` of strings -/
structure Ctx (o : IOracle) (enc : String → Str) (S : List String) : Prop where
  unescape : ∀ s, o.unescape (escS s) = some s
  inj : ∀ a ∈ S, ∀ b ∈ S, enc a = enc b → a = b
  inet : enc "inet" = Policy.inet
  inet6 : enc "inet6" = Policy.inet6
  m4 : "inet" ∈ S
  m6 : "inet6" ∈ S

/-- … and of a term -/
structure TermOK (o : IOracle) (enc : String → Str) (S : List String) (t : TTerm) : Prop where
  name : t.name ∈ S
  fam : ∀ fm, t.family = some fm → trim fm ∈ S ∧ enc (trim fm) = Policy.trimB (enc fm)
  ranges : ∀ r ∈ t.filters, RangeOK o r

/-- one term: the event-level term arm against the abstract `readTerm` + the `readTerms` guards -/
theorem termStep_abs (o : IOracle) (enc : String → Str) (S : List String) (hX : Ctx o enc S) (t : TTerm)
    (ht : TermOK o enc S t) (st : InstSt) :
    (match termAbs t with
     | .error _ => none
     | .ok frm => ((st.addTerm o frm).toOption.map vw))
      = (match Policy.readTerm (t.toJ enc).1 (t.toJ enc).2 with
         | .error _ => none
         | .ok (.v4, rs) => (match st.v4 with | none => some (some rs, st.v6) | some _ => none)
         | .ok (.v6, rs) => (match st.v6 with | none => some (st.v4, some rs) | some _ => none)) := by
  unfold termAbs Policy.readTerm
  simp only [TTerm.toJ]
  cases hfam : t.family with
  | none => by_cases hacc : t.accept = true <;> simp [hacc]
  | some fm =>
    by_cases hacc : t.accept = true
    case neg => simp [hacc]
    case pos =>
      simp only [hacc, Option.map_some, Bool.not_true, Bool.false_eq_true, if_false, trim_escS]
      -- the family as both sides see it
      obtain ⟨hmS, hmt⟩ := ht.fam fm hfam
      have hg : Policy.trimB (enc fm) = enc (trim fm) := hmt.symm
      rw [hg]
      by_cases hn : t.name = trim fm
      · have e1 : (escS t.name != escS (trim fm)) = false := by simp [hn]
        have e2 : ¬ (enc (trim fm) ≠ enc t.name) := by simp [hn]
        simp only [e1, Bool.false_eq_true, if_false, e2]
        by_cases h4 : trim fm = "inet"
        · have a1 : enc (trim fm) = Policy.inet := by rw [h4, hX.inet]
          have b1 : (escS (trim fm) == "inet") = true := by rw [h4, escS_inet]; rfl
          have b2 : (escS (trim fm) == "inet6") = false := by rw [h4, escS_inet]; decide
          have hr := toRanges_abs o .v4 t.filters ht.ranges
          simp only [a1, if_true, InstSt.addTerm, b1, b2, Bool.true_and, Bool.false_and, Bool.false_eq_true, if_false,
            tryIntoRanges, afiMatches, Bool.not_true]
          cases hv : st.v4 with
          | none =>
            cases h3 : toRanges o .v4 (t.filters.map rfOf) <;> cases h5 : Policy.readRanges .v4 t.filters <;>
              simp only [h3, h5, Except.toOption] at hr ⊢ <;> simp_all [vw, Except.toOption]
          | some x =>
            cases h5 : Policy.readRanges .v4 t.filters <;> simp [Except.toOption]
        · have a1 : ¬ enc (trim fm) = Policy.inet := by
            intro h; rw [← hX.inet] at h; exact h4 (hX.inj _ hmS _ hX.m4 h)
          have b1 : (escS (trim fm) == "inet") = false := by
            rw [← escS_inet]; simpa using fun h => h4 (escS_inj o hX.unescape h)
          by_cases h6 : trim fm = "inet6"
          · have a2 : enc (trim fm) = Policy.inet6 := by rw [h6, hX.inet6]
            have b2 : (escS (trim fm) == "inet6") = true := by rw [h6, escS_inet6]; rfl
            have hr := toRanges_abs o .v6 t.filters ht.ranges
            have ne : ¬ Policy.inet6 = Policy.inet := by decide
            simp only [a1, a2, ne, if_true, if_false, InstSt.addTerm, b1, b2, Bool.true_and, Bool.false_and, Bool.false_eq_true,
              tryIntoRanges, afiMatches, Bool.not_true]
            cases hv : st.v6 with
            | none =>
              cases h3 : toRanges o .v6 (t.filters.map rfOf) <;> cases h5 : Policy.readRanges .v6 t.filters <;>
                simp only [h3, h5, Except.toOption] at hr ⊢ <;> simp_all [vw, Except.toOption]
            | some x =>
              cases h5 : Policy.readRanges .v6 t.filters <;> simp [Except.toOption, ne]
          · have a2 : ¬ enc (trim fm) = Policy.inet6 := by
              intro h; rw [← hX.inet6] at h; exact h6 (hX.inj _ hmS _ hX.m6 h)
            have b2 : (escS (trim fm) == "inet6") = false := by
              rw [← escS_inet6]; simpa using fun h => h6 (escS_inj o hX.unescape h)
            simp [a1, a2, InstSt.addTerm, b1, b2, Except.toOption]
      · have e1 : (escS t.name != escS (trim fm)) = true := by
          simpa using fun h => hn (escS_inj o hX.unescape h)
        have e2 : enc (trim fm) ≠ enc t.name := fun h => hn (hX.inj _ hmS _ ht.name h).symm
        simp [e1, e2]

theorem readTerms_cons (k : Str) (jt : Policy.JTerm) (rest : List (Str × Policy.JTerm)) (a b : Option (List Range)) :
    Policy.readTerms ((k, jt) :: rest) a b =
      (match Policy.readTerm k jt with
       | .error e => .error e
       | .ok (.v4, rs) => (match a with | none => Policy.readTerms rest (some rs) b | some _ => .error .dupFamily)
       | .ok (.v6, rs) => (match b with | none => Policy.readTerms rest a (some rs) | some _ => .error .dupFamily)) := by
  cases h : Policy.readTerm k jt with
  | error e => simp [Policy.readTerms, h]
  | ok v =>
    obtain ⟨f, rs⟩ := v
    cases f <;> simp only [Policy.readTerms, h]
    · cases a <;> rfl
    · cases b <;> rfl

theorem termsAbs_abs (o : IOracle) (enc : String → Str) (S : List String) (hX : Ctx o enc S) (ts : List TTerm)
    (hts : ∀ t ∈ ts, TermOK o enc S t) (st : InstSt) :
    (termsAbs o st ts).toOption.map vw = (Policy.readTerms (ts.map (TTerm.toJ enc)) st.v4 st.v6).toOption := by
  induction ts generalizing st with
  | nil => simp [termsAbs, Policy.readTerms, vw, Except.toOption]
  | cons t ts ih =>
    have hs := termStep_abs o enc S hX t (hts t (by simp)) st
    have ih := fun st => ih (fun x hx => hts x (by simp [hx])) st
    rw [List.map_cons, show TTerm.toJ enc t = ((t.toJ enc).1, (t.toJ enc).2) from rfl, readTerms_cons]
    generalize Policy.readTerm (t.toJ enc).1 (t.toJ enc).2 = R at hs ⊢
    simp only [termsAbs]
    cases hta : termAbs t with
    | error e =>
      simp only [hta] at hs
      cases R with
      | error e' => rfl
      | ok v =>
        obtain ⟨f, rs⟩ := v
        cases f <;> simp only [] at hs ⊢
        · cases hv : st.v4 <;> simp only [hv] at hs ⊢ <;> first | rfl | cases hs
        · cases hv : st.v6 <;> simp only [hv] at hs ⊢ <;> first | rfl | cases hs
    | ok frm =>
      simp only [hta] at hs
      cases had : st.addTerm o frm with
      | error e =>
        simp only [had, Except.toOption, Option.map_none] at hs ⊢
        cases R with
        | error e' => rfl
        | ok v =>
          obtain ⟨f, rs⟩ := v
          cases f <;> simp only [] at hs ⊢
          · cases hv : st.v4 <;> simp only [hv] at hs ⊢ <;> first | rfl | cases hs
          · cases hv : st.v6 <;> simp only [hv] at hs ⊢ <;> first | rfl | cases hs
      | ok st' =>
        simp only [had, Except.toOption, Option.map_some, vw] at hs
        simp only [had]
        have ih' := ih st'
        cases R with
        | error e' => cases hs
        | ok v =>
          obtain ⟨f, rs⟩ := v
          cases f <;> simp only [] at hs ⊢
          · cases hv : st.v4 <;> simp only [hv] at hs ⊢
            · simp only [Option.some.injEq, Prod.mk.injEq] at hs
              rw [← hs.1, ← hs.2]; exact ih'
            · cases hs
          · cases hv : st.v6 <;> simp only [hv] at hs ⊢
            · simp only [Option.some.injEq, Prod.mk.injEq] at hs
              rw [← hs.1, ← hs.2]; exact ih'
            · cases hs
theorem termsAbs_fields (o : IOracle) (ts : List TTerm) (st st' : InstSt) (h : termsAbs o st ts = .ok st') :
    st'.name = st.name ∧ st'.reject = st.reject := by
  induction ts generalizing st with
  | nil => simp only [termsAbs, Except.ok.injEq] at h; subst h; exact ⟨rfl, rfl⟩
  | cons t ts ih =>
    simp only [termsAbs] at h
    cases hta : termAbs t with
    | error e => simp [hta] at h
    | ok frm =>
      simp only [hta] at h
      cases had : st.addTerm o frm with
      | error e => simp [had] at h
      | ok st1 =>
        simp only [had] at h
        obtain ⟨h1, h2⟩ := ih st1 h
        obtain ⟨h3, h4⟩ := addTerm_fields o st st1 frm had
        exact ⟨h1.trans h4, h2.trans h3⟩

def encN (enc : String → Str) (x : String × Installed) : Str × Installed := (enc x.1, x.2)

theorem encNames_eq (enc : String → Str) (l : List (String × Installed)) : encNames enc l = l.map (encN enc) := rfl

theorem policyAbs_abs (o : IOracle) (enc : String → Str) (S : List String) (hX : Ctx o enc S) (p : TPolicy)
    (hts : ∀ t ∈ p.terms, TermOK o enc S t) :
    (policyAbs o p).toOption.map (Option.map (encN enc))
      = (Policy.readPolicy .fixed (p.toJ enc).1 (p.toJ enc).2).toOption := by
  have h := termsAbs_abs o enc S hX p.terms hts { name := some p.name }
  unfold policyAbs Policy.readPolicy
  simp only [TPolicy.toJ]
  cases hta : termsAbs o { name := some p.name } p.terms with
  | error e =>
    simp only [hta, Except.toOption, Option.map_none] at h
    cases hrt : Policy.readTerms (p.terms.map (TTerm.toJ enc)) none none with
    | error e' => rfl
    | ok v => rw [hrt] at h; cases h
  | ok st =>
    simp only [hta, Except.toOption, Option.map_some, vw] at h
    obtain ⟨hn, _⟩ := termsAbs_fields o p.terms _ st hta
    cases hrt : Policy.readTerms (p.terms.map (TTerm.toJ enc)) none none with
    | error e' => rw [hrt] at h; cases h
    | ok v =>
      rw [hrt] at h
      simp only [Option.some.injEq] at h
      subst h
      by_cases hr : p.reject = true <;> simp [InstSt.finish, hn, hr, Except.toOption, encN, Policy.nameOf, Policy.Cfg.fixed]

theorem readAll_cons (c : Policy.Cfg) (n : Str) (jp : Policy.JPolicy) (rest : Policy.JCfg) :
    Policy.readAll c ((n, jp) :: rest) =
      (match Policy.readPolicy c n jp with
       | .error e => .error e
       | .ok r =>
         match Policy.readAll c rest with
         | .error e => .error e
         | .ok rs => (match r with | none => .ok rs | some e => .ok (e :: rs))) := by
  cases h : Policy.readPolicy c n jp with
  | error e => simp [Policy.readAll, h]
  | ok r =>
    simp only [Policy.readAll, h]
    cases Policy.readAll c rest with
    | error e => rfl
    | ok rs => cases r <;> rfl

theorem keys_encNames (enc : String → Str) (l : List (String × Installed)) :
    Policy.keys (encNames enc l) = l.map fun x => enc x.1 := by
  simp [Policy.keys, encNames]

theorem policyAbs_name (o : IOracle) (p : TPolicy) (n : String) (i : Installed)
    (h : policyAbs o p = .ok (some (n, i))) : n = p.name := by
  unfold policyAbs at h
  cases hta : termsAbs o { name := some p.name } p.terms with
  | error e => simp [hta] at h
  | ok st =>
    obtain ⟨hn, _⟩ := termsAbs_fields o p.terms _ st hta
    simp only [hta, InstSt.finish] at h
    split at h
    · simp only [hn] at h
      simp only [Except.ok.injEq, Option.some.injEq, Prod.mk.injEq] at h
      exact h.1.symm
    · cases h

theorem posAbs_abs (o : IOracle) (enc : String → Str) (S : List String) (hX : Ctx o enc S) (c : TCfg)
    (hps : ∀ p ∈ c, p.name ∈ S ∧ ∀ t ∈ p.terms, TermOK o enc S t)
    (map : List (String × Installed)) (hmap : (Policy.keys (encNames enc map)).Nodup) (hmapS : ∀ x ∈ map, x.1 ∈ S) :
    (posAbs o map c).toOption.map (encNames enc) =
      (match Policy.readAll .fixed (c.toJ enc) with
       | .error _ => none
       | .ok l => if (Policy.keys (encNames enc map ++ l)).Nodup then some (encNames enc map ++ l) else none) := by
  induction c generalizing map with
  | nil => simp [posAbs, TCfg.toJ, Policy.readAll, Except.toOption, hmap]
  | cons p ps ih =>
    have hp := policyAbs_abs o enc S hX p (hps p (by simp)).2
    have hpS : p.name ∈ S := (hps p (by simp)).1
    have ih := fun map h1 h2 => ih (fun q hq => hps q (by simp [hq])) map h1 h2
    have hc : TCfg.toJ enc (p :: ps) = ((p.toJ enc).1, (p.toJ enc).2) :: TCfg.toJ enc ps := rfl
    rw [hc, readAll_cons]
    generalize Policy.readPolicy .fixed (p.toJ enc).1 (p.toJ enc).2 = R at hp ⊢
    simp only [posAbs]
    cases hpa : policyAbs o p with
    | error e =>
      simp only [hpa, Except.toOption, Option.map_none] at hp
      cases R with
      | error e' => rfl
      | ok r => cases hp
    | ok v =>
      simp only [hpa, Except.toOption, Option.map_some] at hp
      cases R with
      | error e' => cases hp
      | ok r =>
        simp only [Option.some.injEq] at hp
        subst hp
        cases v with
        | none =>
          simp only [Option.map_none]
          rw [ih map hmap hmapS]
          cases Policy.readAll .fixed (TCfg.toJ enc ps) <;> rfl
        | some ni =>
          obtain ⟨n, i⟩ := ni
          have hnS : n ∈ S := by rw [policyAbs_name o p n i hpa]; exact hpS
          simp only [Option.map_some, encN]
          by_cases hany : map.any (·.1 == n) = true
          · simp only [hany, if_true, Except.toOption, Option.map_none]
            cases Policy.readAll .fixed (TCfg.toJ enc ps) with
            | error e => rfl
            | ok rs =>
              simp only []
              have : ¬ (Policy.keys (encNames enc map ++ (enc n, i) :: rs)).Nodup := by
                intro hnd
                simp only [List.any_eq_true, beq_iff_eq] at hany
                obtain ⟨x, hx, rfl⟩ := hany
                simp only [Policy.keys, List.map_append, List.map_cons] at hnd
                have h1 : enc x.1 ∈ (encNames enc map).map (·.1) := by
                  simp only [encNames, List.map_map, List.mem_map]
                  exact ⟨x, hx, rfl⟩
                exact (List.nodup_append.mp hnd).2.2 _ h1 _ (by simp) rfl
              simp [this]
          · have hany' : map.any (·.1 == n) = false := by
              cases h : map.any (·.1 == n) with
              | false => rfl
              | true => exact absurd h hany
            have hnone : ∀ x ∈ map, ¬ x.1 = n := by
              intro x hx hxe
              exact hany (List.any_eq_true.mpr ⟨x, hx, by simpa using hxe⟩)
            have hnew : (Policy.keys (encNames enc (map ++ [(n, i)]))).Nodup := by
              simp only [keys_encNames, List.map_append, List.map_cons, List.map_nil] at hmap ⊢
              refine List.nodup_append.mpr ⟨hmap, by simp, ?_⟩
              intro a ha b hb
              simp only [List.mem_singleton] at hb
              subst hb
              intro hab
              simp only [List.mem_map] at ha
              obtain ⟨x, hx, rfl⟩ := ha
              exact hnone x hx (hX.inj _ (hmapS x hx) _ hnS hab)
            simp only [hany', Bool.false_eq_true, if_false]
            have hS' : ∀ x ∈ map ++ [(n, i)], x.1 ∈ S := by
              intro x hx
              rcases List.mem_append.mp hx with h | h
              · exact hmapS x h
              · simp only [List.mem_singleton] at h; subst h; exact hnS
            rw [ih _ hnew hS']
            cases Policy.readAll .fixed (TCfg.toJ enc ps) with
            | error e => rfl
            | ok rs =>
              have e1 : encNames enc (map ++ [(n, i)]) ++ rs = encNames enc map ++ (enc n, i) :: rs := by
                simp [encNames]
              simp only [e1]

theorem mem_strings_policy {c : TCfg} {p : TPolicy} (hp : p ∈ c) {x : String} (hx : x ∈ p.strings) : x ∈ c.strings := by
  simp only [TCfg.strings, List.mem_cons, List.mem_flatMap]
  exact Or.inr (Or.inr ⟨p, hp, hx⟩)

theorem termOK_of (o : IOracle) (enc : String → Str) (c : TCfg) (hC : o.Consistent c) (hE : EncOK enc c)
    (p : TPolicy) (hp : p ∈ c) (t : TTerm) (ht : t ∈ p.terms) : TermOK o enc c.strings t := by
  have hts : ∀ x ∈ t.strings, x ∈ c.strings := by
    intro x hx
    apply mem_strings_policy hp
    simp only [TPolicy.strings, List.mem_cons, List.mem_flatMap]
    exact Or.inr ⟨t, ht, hx⟩
  refine ⟨hts _ (by simp [TTerm.strings]), ?_, ?_⟩
  · intro fm hfm
    refine ⟨hts _ (by simp [TTerm.strings, hfm]), hE.trim fm ?_⟩
    simp only [TCfg.families, List.mem_flatMap, List.mem_filterMap]
    exact ⟨p, hp, t, ht, hfm⟩
  · intro r hr
    apply hC.ranges
    simp only [TCfg.ranges, List.mem_flatMap]
    exact ⟨p, hp, t, ht, hr⟩

/-- **agreement with the abstract reader** -/
theorem readInstalledDoc_abs (o : IOracle) (enc : String → Str) (c : TCfg) (hC : o.Consistent c) (hE : EncOK enc c) :
    (readInstalledDoc o (renderGetConfig c)).toOption.map (encNames enc)
      = (Policy.readInstalled .fixed (c.toJ enc)).toOption := by
  have hX : Ctx o enc c.strings :=
    ⟨hC.unescape, hE.inj, hE.inet, hE.inet6, by simp [TCfg.strings], by simp [TCfg.strings]⟩
  have hps : ∀ p ∈ c, p.name ∈ c.strings ∧ ∀ t ∈ p.terms, TermOK o enc c.strings t := by
    intro p hp
    exact ⟨mem_strings_policy hp (by simp [TPolicy.strings]), fun t ht => termOK_of o enc c hC hE p hp t ht⟩
  rw [readInstalledDoc_refines o hC.unescape,
    posAbs_abs o enc c.strings hX c hps [] (by simp [encNames, Policy.keys]) (by simp)]
  unfold Policy.readInstalled
  cases Policy.readAll .fixed (TCfg.toJ enc c) with
  | error e => rfl
  | ok l =>
    simp only [encNames, List.map_nil, List.nil_append]
    split <;> rfl

end Xml

namespace Xml
open Policy (Range Fam Str Installed dedup)
set_option linter.unusedSimpArgs false

/-! ### totality: `Err.fuel` is never the answer -/

/-- `match loop … with | .error e => .error e | .ok (st, r) => match st.finish with …`: good if the loop is
and `finish` never answers `fuel` -/
macro "wrap_good " hb:term ", " hfin:term : tactic => `(tactic| (
  have hb := $hb
  split
  · rename_i e he
    exact ⟨by simp, fun hf h => by simp only [Except.error.injEq] at h; subst h; exact hb.2 hf he⟩
  · rename_i st r hr
    split
    · rename_i e he; have := $hfin _ _ he; simp [Good, this]
    · exact ⟨fun v rest h => by simp only [Except.ok.injEq, Prod.mk.injEq] at h; rw [← h.2]; exact hb.1 _ _ hr, by simp⟩))

theorem choiceValueLoop_good (fuel : Nat) (evs : List Ev) : Good evs fuel (choiceValueLoop fuel evs) := by
  fun_induction choiceValueLoop fuel evs <;> simp_all [Good] <;> grind [→ readText_shorter, → readText_err]

theorem choiceValueLoop_shorter (fuel : Nat) (evs rest : List Ev) (v : String)
    (h : choiceValueLoop fuel evs = .ok (v, rest)) : rest.length < evs.length :=
  (choiceValueLoop_good fuel evs).1 v rest h

theorem choiceValueLoop_err (fuel : Nat) (evs : List Ev) (h : choiceValueLoop fuel evs = .error .fuel) :
    fuel ≤ evs.length := by
  have := (choiceValueLoop_good fuel evs).2
  grind

theorem routeFilterLoop_good (fuel : Nat) (endRaw : String) (st : RfSt) (evs : List Ev) :
    Good evs fuel (routeFilterLoop fuel endRaw st evs) := by
  fun_induction routeFilterLoop fuel endRaw st evs <;> simp_all [Good] <;>
    grind [→ readText_shorter, → readText_err, → choiceValueLoop_shorter, → choiceValueLoop_err]

theorem rfFinish_err (st : RfSt) (e : Err) (h : st.finish = .error e) : e ≠ .fuel := by
  unfold RfSt.finish at h
  split at h
  · cases h; simp
  · split at h
    · cases h; simp
    · cases h

theorem readRouteFilter_good (fuel : Nat) (t : Tag) (evs : List Ev) : Good evs fuel (readRouteFilter fuel t evs) := by
  unfold readRouteFilter
  wrap_good routeFilterLoop_good fuel t.raw {} evs, rfFinish_err

theorem readRouteFilter_shorter (fuel : Nat) (t : Tag) (evs rest : List Ev) (v : String × String)
    (h : readRouteFilter fuel t evs = .ok (v, rest)) : rest.length < evs.length :=
  (readRouteFilter_good fuel t evs).1 v rest h

theorem readRouteFilter_err (fuel : Nat) (t : Tag) (evs : List Ev) (h : readRouteFilter fuel t evs = .error .fuel) :
    fuel ≤ evs.length := by
  have := (readRouteFilter_good fuel t evs).2
  grind

theorem fromLoop_good (fuel : Nat) (endRaw : String) (st : FromSt) (evs : List Ev) :
    Good evs fuel (fromLoop fuel endRaw st evs) := by
  fun_induction fromLoop fuel endRaw st evs <;> simp_all [Good] <;>
    grind [→ readText_shorter, → readText_err, → readRouteFilter_shorter, → readRouteFilter_err]

theorem fromFinish_err (st : FromSt) (e : Err) (h : st.finish = .error e) : e ≠ .fuel := by
  unfold FromSt.finish at h
  split at h
  · cases h; simp
  · cases h

theorem readTermFrom_good (fuel : Nat) (t : Tag) (evs : List Ev) : Good evs fuel (readTermFrom fuel t evs) := by
  unfold readTermFrom
  wrap_good fromLoop_good fuel t.raw {} evs, fromFinish_err

theorem readTermFrom_shorter (fuel : Nat) (t : Tag) (evs rest : List Ev) (v : TermFrom)
    (h : readTermFrom fuel t evs = .ok (v, rest)) : rest.length < evs.length :=
  (readTermFrom_good fuel t evs).1 v rest h

theorem readTermFrom_err (fuel : Nat) (t : Tag) (evs : List Ev) (h : readTermFrom fuel t evs = .error .fuel) :
    fuel ≤ evs.length := by
  have := (readTermFrom_good fuel t evs).2
  grind

theorem acceptLoop_good (fuel : Nat) (endRaw : String) (a : Bool) (evs : List Ev) :
    Good evs fuel (acceptLoop fuel endRaw a evs) := by
  fun_induction acceptLoop fuel endRaw a evs <;> simp_all [Good] <;> grind

theorem acceptLoop_shorter (fuel : Nat) (endRaw : String) (a v : Bool) (evs rest : List Ev)
    (h : acceptLoop fuel endRaw a evs = .ok (v, rest)) : rest.length < evs.length :=
  (acceptLoop_good fuel endRaw a evs).1 v rest h

theorem acceptLoop_err (fuel : Nat) (endRaw : String) (a : Bool) (evs : List Ev)
    (h : acceptLoop fuel endRaw a evs = .error .fuel) : fuel ≤ evs.length := by
  have := (acceptLoop_good fuel endRaw a evs).2
  grind

theorem termLoop_good (fuel : Nat) (endRaw : String) (st : TermSt) (evs : List Ev) :
    Good evs fuel (termLoop fuel endRaw st evs) := by
  fun_induction termLoop fuel endRaw st evs <;> simp_all [Good] <;>
    grind [→ readText_shorter, → readText_err, → readTermFrom_shorter, → readTermFrom_err, → acceptLoop_shorter,
      → acceptLoop_err]

theorem termFinish_err (st : TermSt) (e : Err) (h : st.finish = .error e) : e ≠ .fuel := by
  unfold TermSt.finish at h
  split at h
  · split at h
    · cases h; simp
    · split at h
      · cases h; simp
      · split at h <;> cases h; simp
  · cases h; simp

theorem readTerm_good (fuel : Nat) (t : Tag) (evs : List Ev) : Good evs fuel (readTerm fuel t evs) := by
  unfold readTerm
  wrap_good termLoop_good fuel t.raw {} evs, termFinish_err

theorem readTerm_shorter (fuel : Nat) (t : Tag) (evs rest : List Ev) (v : TermFrom)
    (h : readTerm fuel t evs = .ok (v, rest)) : rest.length < evs.length :=
  (readTerm_good fuel t evs).1 v rest h

theorem readTerm_err (fuel : Nat) (t : Tag) (evs : List Ev) (h : readTerm fuel t evs = .error .fuel) :
    fuel ≤ evs.length := by
  have := (readTerm_good fuel t evs).2
  grind

theorem instThenLoop_good (fuel : Nat) (endRaw : String) (rj : Bool) (evs : List Ev) :
    Good evs fuel (instThenLoop fuel endRaw rj evs) := by
  fun_induction instThenLoop fuel endRaw rj evs <;> simp_all [Good] <;> grind

theorem instThenLoop_shorter (fuel : Nat) (endRaw : String) (a v : Bool) (evs rest : List Ev)
    (h : instThenLoop fuel endRaw a evs = .ok (v, rest)) : rest.length < evs.length :=
  (instThenLoop_good fuel endRaw a evs).1 v rest h

theorem instThenLoop_err (fuel : Nat) (endRaw : String) (a : Bool) (evs : List Ev)
    (h : instThenLoop fuel endRaw a evs = .error .fuel) : fuel ≤ evs.length := by
  have := (instThenLoop_good fuel endRaw a evs).2
  grind

theorem toRange_err (o : IOracle) (f : Fam) (rf : String × String) (e : Err) (h : toRange o f rf = .error e) : e ≠ .fuel := by
  unfold toRange at h
  repeat' split at h
  all_goals first | (cases h; simp) | cases h

theorem toRanges_err (o : IOracle) (f : Fam) (l : List (String × String)) (e : Err) (h : toRanges o f l = .error e) :
    e ≠ .fuel := by
  induction l with
  | nil => cases h
  | cons rf rest ih =>
    simp only [toRanges] at h
    split at h
    · rename_i e' he; simp only [Except.error.injEq] at h; subst h; exact toRange_err o f rf _ he
    · split at h
      · rename_i e' he; simp only [Except.error.injEq] at h; subst h; exact ih he
      · cases h

theorem tryIntoRanges_err (o : IOracle) (f : Fam) (frm : TermFrom) (e : Err) (h : tryIntoRanges o f frm = .error e) :
    e ≠ .fuel := by
  unfold tryIntoRanges at h
  split at h
  · cases h; simp
  · split at h
    · rename_i e' he; simp only [Except.error.injEq] at h; subst h; exact toRanges_err o f _ _ he
    · cases h

theorem addTerm_err (o : IOracle) (st : InstSt) (frm : TermFrom) (e : Err) (h : st.addTerm o frm = .error e) : e ≠ .fuel := by
  unfold InstSt.addTerm at h
  split at h
  · split at h
    · cases h
    · rename_i e' he; simp only [Except.error.injEq] at h; subst h; exact tryIntoRanges_err o _ _ _ he
  · split at h
    · split at h
      · cases h
      · rename_i e' he; simp only [Except.error.injEq] at h; subst h; exact tryIntoRanges_err o _ _ _ he
    · cases h; simp

theorem instLoop_good (o : IOracle) (fuel : Nat) (endRaw : String) (st : InstSt) (evs : List Ev) :
    Good evs fuel (instLoop o fuel endRaw st evs) := by
  fun_induction instLoop o fuel endRaw st evs <;> simp_all [Good] <;>
    grind [→ readName_shorter, → readName_err, → readTerm_shorter, → readTerm_err, → instThenLoop_shorter,
      → instThenLoop_err, → addTerm_err]

theorem instFinish_err (st : InstSt) (e : Err) (h : st.finish = .error e) : e ≠ .fuel := by
  unfold InstSt.finish at h
  split at h
  · split at h
    · cases h
    · cases h; simp
  · cases h

theorem readInstalledStmt_good (o : IOracle) : GoodReader (readInstalledStmt o) := by
  intro fuel t evs
  unfold readInstalledStmt
  wrap_good instLoop_good o fuel t.raw {} evs, instFinish_err

theorem readData_total {α} (k : Tag → List Ev → Except Err α) (hk : ∀ t rest, k t rest ≠ .error .fuel) (evs : List Ev) :
    readData k evs ≠ .error .fuel := by
  fun_induction readData k evs <;> simp_all

/-! ### the `unescape` hypothesis is satisfiable: a left inverse of the escaping -/

def unescAux : Nat → List Char → List Char
  | 0, _ => []
  | _ + 1, [] => []
  | n + 1, c :: r =>
    if c = '&' then
      (match r with
       | 'a' :: 'm' :: 'p' :: ';' :: r' => '&' :: unescAux n r'
       | 'l' :: 't' :: ';' :: r' => '<' :: unescAux n r'
       | 'g' :: 't' :: ';' :: r' => '>' :: unescAux n r'
       | _ => c :: unescAux n r)
    else c :: unescAux n r

def unescS (s : String) : String := String.ofList (unescAux s.toList.length s.toList)

theorem escC_length_pos (c : Char) : 1 ≤ (escC c).length := by
  unfold escC; repeat' split
  all_goals simp

theorem unescAux_escL (l : List Char) (n : Nat) (h : (escL l).length ≤ n) : unescAux n (escL l) = l := by
  induction l generalizing n with
  | nil => cases n <;> simp [escL, unescAux]
  | cons c l ih =>
    have e : escL (c :: l) = escC c ++ escL l := by simp [escL]
    rw [e] at h ⊢
    have hl : (escL l).length + 1 ≤ n := by
      have := escC_length_pos c
      simp only [List.length_append] at h
      omega
    obtain ⟨m, rfl⟩ : ∃ m, n = m + 1 := ⟨n - 1, by omega⟩
    have ihm := ih m (by omega)
    unfold escC
    split
    · subst_vars
      simp only [List.cons_append, List.nil_append, unescAux, if_true, ihm]
    · split
      · subst_vars
        simp only [List.cons_append, List.nil_append, unescAux, if_true, ihm]
      · split
        · subst_vars
          simp only [List.cons_append, List.nil_append, unescAux, if_true, ihm]
        · rename_i h1 h2 h3
          simp only [List.cons_append, List.nil_append, unescAux, h1, if_false, ihm]

theorem unescS_escS (s : String) : unescS (escS s) = s := by
  simp [unescS, escS, unescAux_escL]

end Xml
