import Bgpfu.Spec.InstalledGrammar
import Bgpfu.Lemmas.Fetch
import Bgpfu.Lemmas.FetchTotal
/-! Lemmas for the event-level reader of installed policies (C01 read-back,
`Model/FetchInstalled.lean`): text facts about the rendering (`Spec/InstalledGrammar.lean`), the
event-level loops on rendered documents refine a child-level semantics (`…Abs`), the child-level
semantics agrees with the abstract reader `Policy.readInstalled`, totality. -/
namespace Xml
open Policy (Range Fam Str Installed dedup)

/-! ### text -/

theorem trim_ofList (l : List Char) : trim (String.ofList l) = String.ofList (trimL l) := by
  simp [trim]

theorem ofList_inj {a b : List Char} (h : String.ofList a = String.ofList b) : a = b := by
  have := congrArg String.toList h
  simpa using this

/-- a decimal digit -/
def IsDec (c : Char) : Prop := ∃ k, k < 10 ∧ c = Char.ofNat (48 + k)

theorem decDigit_isDec (n : Nat) : IsDec (decDigit n) := ⟨n % 10, Nat.mod_lt _ (by decide), rfl⟩

theorem isDec_not_ws {c : Char} (h : IsDec c) : isWs c = false := by
  obtain ⟨k, hk, rfl⟩ := h
  have : ∀ k, k < 10 → isWs (Char.ofNat (48 + k)) = false := by decide
  exact this k hk

theorem isDec_ne_hyphen {c : Char} (h : IsDec c) : (c == '-') = false := by
  obtain ⟨k, hk, rfl⟩ := h
  have : ∀ k, k < 10 → (Char.ofNat (48 + k) == '-') = false := by decide
  exact this k hk

theorem decAux_isDec (fuel n : Nat) (acc : List Char) (h : ∀ c ∈ acc, IsDec c) : ∀ c ∈ decAux fuel n acc, IsDec c := by
  induction fuel generalizing n acc with
  | zero => simpa [decAux] using h
  | succ f ih =>
    have h' : ∀ c ∈ decDigit n :: acc, IsDec c := by
      intro c hc
      rcases List.mem_cons.mp hc with rfl | hc
      · exact decDigit_isDec n
      · exact h c hc
    unfold decAux
    split
    · exact h'
    · exact ih _ _ h'

theorem decAux_ne_nil (fuel n : Nat) (acc : List Char) : decAux (fuel + 1) n acc ≠ [] := by
  induction fuel generalizing n acc with
  | zero => unfold decAux; split <;> simp [decAux]
  | succ f ih =>
    unfold decAux
    split
    · simp
    · exact ih _ _

theorem decL_isDec (n : Nat) : ∀ c ∈ decL n, IsDec c := decAux_isDec _ _ _ (by simp)
theorem decL_ne_nil (n : Nat) : decL n ≠ [] := decAux_ne_nil _ _ _

theorem decL_concat (n : Nat) : ∃ m b, decL n = m ++ [b] ∧ IsDec b := by
  refine ⟨(decL n).dropLast, (decL n).getLast (decL_ne_nil n), (List.dropLast_concat_getLast _).symm, ?_⟩
  exact decL_isDec n _ (List.getLast_mem _)

theorem trimStart_cons {a : Char} (l : List Char) (h : isWs a = false) : trimStart (a :: l) = a :: l := by
  simp [trimStart, List.dropWhile, h]

theorem trimEnd_concat {b : Char} (m : List Char) (h : isWs b = false) : trimEnd (m ++ [b]) = m ++ [b] := by
  simp [trimEnd, List.dropWhile, h]

theorem plrL_trim (lo hi : Nat) : trimL (plrL lo hi) = plrL lo hi := by
  obtain ⟨m, b, hm, hb⟩ := decL_concat hi
  have e : plrL lo hi = ('/' :: (decL lo ++ '-' :: '/' :: m)) ++ [b] := by simp [plrL, lenL, hm]
  unfold trimL
  rw [e, List.cons_append, trimStart_cons _ (by decide), ← List.cons_append, trimEnd_concat _ (isDec_not_ws hb)]

theorem splitOnceL_append (c : Char) (a b : List Char) (h : ∀ x ∈ a, (x == c) = false) :
    splitOnceL c (a ++ c :: b) = some (a, b) := by
  induction a with
  | nil => simp [splitOnceL]
  | cons x xs ih =>
    have hx := h x (by simp)
    simp only [List.cons_append, splitOnceL, hx, Bool.false_eq_true, if_false]
    rw [ih (fun y hy => h y (by simp [hy]))]

theorem plrS_trim (lo hi : Nat) : trim (plrS lo hi) = plrS lo hi := by
  simp [plrS, trim_ofList, plrL_trim]

theorem plrS_split (lo hi : Nat) : splitOnceS '-' (plrS lo hi) = some (lenS lo, lenS hi) := by
  have : splitOnceL '-' (plrL lo hi) = some (lenL lo, lenL hi) := by
    unfold plrL
    apply splitOnceL_append
    intro x hx
    simp only [lenL, List.mem_cons] at hx
    rcases hx with rfl | hx
    · decide
    · exact isDec_ne_hyphen (decL_isDec lo x hx)
  simp [splitOnceS, plrS, lenS, this]

/-! #### escaping commutes with trimming -/

theorem escC_ws {c : Char} (h : isWs c = true) : escC c = [c] := by
  unfold escC
  split
  · subst_vars; exact absurd h (by decide)
  · split
    · subst_vars; exact absurd h (by decide)
    · split
      · subst_vars; exact absurd h (by decide)
      · rfl

theorem escC_head {c : Char} (h : isWs c = false) : ∃ a t, escC c = a :: t ∧ isWs a = false := by
  unfold escC
  split
  · exact ⟨_, _, rfl, by decide⟩
  · split
    · exact ⟨_, _, rfl, by decide⟩
    · split
      · exact ⟨_, _, rfl, by decide⟩
      · exact ⟨c, [], rfl, h⟩

theorem escC_last {c : Char} (h : isWs c = false) : ∃ t b, escC c = t ++ [b] ∧ isWs b = false := by
  unfold escC
  split
  · exact ⟨['&', 'a', 'm', 'p'], ';', rfl, by decide⟩
  · split
    · exact ⟨['&', 'l', 't'], ';', rfl, by decide⟩
    · split
      · exact ⟨['&', 'g', 't'], ';', rfl, by decide⟩
      · exact ⟨[], c, rfl, h⟩

theorem dropWhile_escL (l : List Char) : (escL l).dropWhile isWs = escL (l.dropWhile isWs) := by
  induction l with
  | nil => rfl
  | cons c l ih =>
    cases h : isWs c with
    | true =>
      have : escL (c :: l) = c :: escL l := by simp [escL, escC_ws h]
      rw [this, List.dropWhile_cons_of_pos (by simpa using h), List.dropWhile_cons_of_pos (by simpa using h), ih]
    | false =>
      obtain ⟨a, t, e, ha⟩ := escC_head h
      have : escL (c :: l) = a :: (t ++ escL l) := by simp [escL, e]
      rw [List.dropWhile_cons_of_neg (by simpa using h), this, List.dropWhile_cons_of_neg (by simpa using ha)]

/-- `escL` read from the right -/
def escR (l : List Char) : List Char := l.flatMap fun c => (escC c).reverse

theorem escL_reverse (l : List Char) : (escL l).reverse = escR l.reverse := by
  induction l with
  | nil => rfl
  | cons c l ih =>
    have : escL (c :: l) = escC c ++ escL l := by simp [escL]
    rw [this, List.reverse_append, ih]
    simp [escR]

theorem escR_reverse (l : List Char) : (escR l).reverse = escL l.reverse := by
  have := escL_reverse l.reverse
  rw [List.reverse_reverse] at this
  rw [← this, List.reverse_reverse]

theorem dropWhile_escR (l : List Char) : (escR l).dropWhile isWs = escR (l.dropWhile isWs) := by
  induction l with
  | nil => rfl
  | cons c l ih =>
    cases h : isWs c with
    | true =>
      have : escR (c :: l) = c :: escR l := by simp [escR, escC_ws h]
      rw [this, List.dropWhile_cons_of_pos (by simpa using h), List.dropWhile_cons_of_pos (by simpa using h), ih]
    | false =>
      obtain ⟨t, b, e, hb⟩ := escC_last h
      have : escR (c :: l) = b :: (t.reverse ++ escR l) := by simp [escR, e]
      rw [List.dropWhile_cons_of_neg (by simpa using h), this, List.dropWhile_cons_of_neg (by simpa using hb)]

theorem trimL_escL (l : List Char) : trimL (escL l) = escL (trimL l) := by
  unfold trimL trimStart trimEnd
  rw [dropWhile_escL, escL_reverse, dropWhile_escR, escR_reverse]

theorem trim_escS (s : String) : trim (escS s) = escS (trim s) := by
  simp [escS, trim, trimL_escL]

/-! ### leaves -/

set_option linter.unusedSimpArgs false

theorem textEv_inert (name : String) (txt : List Char) : Inert name (textEv txt) := by
  unfold textEv; split <;> simp [Inert]

theorem readText_leafEvs (name : String) (txt : List Char) (tail : List Ev) :
    readText (xtag name txt) (textEv txt ++ .end name :: tail) = .ok (String.ofList txt, tail) :=
  readText_elem (xtag name txt) _ _ tail rfl (textEv_inert name txt)

theorem xtag_is (name : String) (span : List Char) (n : String) : (xtag name span).is XNM n = (name == n) := by
  simp [xtag, xnmTag_is]

theorem xtag_raw (name : String) (span : List Char) : (xtag name span).raw = name := rfl

theorem trimL_PLR : trimL PLR = PLR := by decide
theorem trim_plr_lit : trim "prefix-length-range" = "prefix-length-range" := by decide
theorem ofList_PLR : String.ofList PLR = "prefix-length-range" := by decide

/-! ### route-filter -/

/-- what the reader keeps of a rendered route-filter -/
def rfOf (r : Range) : String × String := (trim (prefixS r.v6 r.addr r.len), plrS r.lo r.hi)

theorem readRouteFilter_render (r : Range) (fuel : Nat) (tail : List Ev) (hf : 3 ≤ fuel) :
    readRouteFilter fuel (xtag "route-filter" (filterInner r)) (filterBody r ++ .end "route-filter" :: tail)
      = .ok (rfOf r, tail) := by
  obtain ⟨f, rfl⟩ : ∃ f, fuel = f + 3 := ⟨fuel - 3, by omega⟩
  simp only [readRouteFilter, xtag_raw, filterBody, leafEvs, List.cons_append, List.append_assoc, List.nil_append]
  simp only [routeFilterLoop, choiceValueLoop, xtag_is, readText_leafEvs, trimL_PLR, ofList_PLR, trim_plr_lit,
    bne_self_eq_false, String.reduceBEq, String.reduceBNe,
    Option.isNone_none, Option.isNone_some, Bool.and_self, Bool.and_true, Bool.and_false, Bool.false_and, Bool.true_and,
    if_true, Bool.false_eq_true, if_false, RfSt.finish, rfOf, prefixS, plrS, trim_ofList, plrL_trim]

theorem filterEvs_length (r : Range) : 8 ≤ (filterEvs r).length := by
  simp [filterEvs, filterBody, leafEvs]; omega

/-! ### `<from>` -/

theorem fromLoop_filters (rs : List Range) (fuel : Nat) (st : FromSt) (tail : List Ev)
    (hf : (rs.flatMap filterEvs).length + 1 ≤ fuel) :
    fromLoop fuel "from" st (rs.flatMap filterEvs ++ .end "from" :: tail)
      = .ok ({ st with filters := st.filters ++ rs.map rfOf }, tail) := by
  induction rs generalizing fuel st with
  | nil =>
    obtain ⟨f, rfl⟩ : ∃ f, fuel = f + 1 := ⟨fuel - 1, by omega⟩
    simp [fromLoop]
  | cons r rs ih =>
    obtain ⟨f, rfl⟩ : ∃ f, fuel = f + 1 := ⟨fuel - 1, by omega⟩
    have h8 := filterEvs_length r
    simp only [List.flatMap_cons, List.length_append] at hf
    have hr := readRouteFilter_render r f (rs.flatMap filterEvs ++ .end "from" :: tail) (by omega)
    simp only [List.flatMap_cons, filterEvs, List.cons_append, List.append_assoc, List.nil_append, fromLoop, xtag_is,
      String.reduceBEq, Bool.false_and, Bool.false_eq_true, if_false, if_true, hr]
    rw [ih f _ (by omega)]
    simp

/-- child-level semantics of `TermFrom::borrowed_read_xml` on a rendered `<from>` -/
def fromAbs (t : TTerm) : Except Err TermFrom :=
  match t.family with
  | none => .error .missing
  | some f => .ok { family := trim (escS f), filters := t.filters.map rfOf }

theorem fromBody_length (t : TTerm) : (t.filters.flatMap filterEvs).length ≤ (fromBody t).length := by
  simp [fromBody]

theorem readTermFrom_render (t : TTerm) (fuel : Nat) (tail : List Ev) (hf : (fromBody t).length + 1 ≤ fuel) :
    readTermFrom fuel (xtag "from" (fromInner t)) (fromBody t ++ .end "from" :: tail) = liftR (fromAbs t) tail := by
  unfold readTermFrom fromAbs
  simp only [xtag_raw]
  cases hfam : t.family with
  | none =>
    have e : fromBody t = t.filters.flatMap filterEvs := by simp [fromBody, familyEvs, hfam]
    rw [e] at hf ⊢
    rw [fromLoop_filters _ _ _ _ hf]
    simp [FromSt.finish]
  | some f =>
    have e : fromBody t = leafEvs "family" (escL f.toList) ++ t.filters.flatMap filterEvs := by
      simp [fromBody, familyEvs, hfam]
    rw [e] at hf ⊢
    simp only [leafEvs, List.length_append, List.length_cons, List.cons_append] at hf
    obtain ⟨g, rfl⟩ : ∃ g, fuel = g + 1 := ⟨fuel - 1, by omega⟩
    simp only [leafEvs, List.cons_append, List.append_assoc, List.nil_append, fromLoop, xtag_is, beq_self_eq_true,
      Option.isNone_none, Bool.and_self, if_true, readText_leafEvs]
    rw [fromLoop_filters _ _ _ _ (by omega)]
    simp [FromSt.finish, escS, trim_ofList]

/-! ### term -/

/-- child-level semantics of `Term::borrowed_read_xml` on a rendered term -/
def termAbs (t : TTerm) : Except Err TermFrom :=
  match t.family with
  | none => .error .missing
  | some f =>
    if !t.accept then .error .missing
    else if escS t.name != trim (escS f) then .error .other
    else .ok { family := trim (escS f), filters := t.filters.map rfOf }

theorem fromEvs_length (t : TTerm) : (fromEvs t).length = if t.hasFrom then (fromBody t).length + 2 else 0 := by
  unfold fromEvs; split <;> simp

theorem readTerm_render (t : TTerm) (fuel : Nat) (tail : List Ev) (hf : (termBody t).length + 1 ≤ fuel) :
    readTerm fuel (termTag t) (termBody t ++ .end "term" :: tail) = liftR (termAbs t) tail := by
  unfold readTerm
  simp only [termBody, leafEvs, List.length_append, List.length_cons, fromEvs_length] at hf
  have hraw : (termTag t).raw = "term" := rfl
  rw [hraw]
  by_cases hfr : t.hasFrom = true
  · -- `<from>` present
    simp only [hfr, if_true] at hf
    have hfrom := fun fl tl h => readTermFrom_render t fl tl h
    cases hacc : t.accept with
    | true =>
      simp only [hacc, if_true, thenEvs, List.length_cons, List.length_nil] at hf
      obtain ⟨f, rfl⟩ : ∃ f, fuel = f + 6 := ⟨fuel - 6, by omega⟩
      simp only [termBody, leafEvs, fromEvs, hfr, hacc, if_true, thenEvs, List.cons_append, List.append_assoc,
        List.nil_append, termLoop, xtag_is, String.reduceBEq, beq_self_eq_true, Option.isNone_none, Option.isNone_some,
        Bool.and_self, Bool.and_true, Bool.false_and, Bool.true_and, Bool.false_eq_true, if_false, readText_leafEvs,
        xtag_raw, Bool.not_false]
      rw [hfrom (f + 4) _ (by omega)]
      unfold fromAbs termAbs
      cases hfam : t.family with
      | none => simp
      | some fm =>
        simp only [liftR_ok, termLoop, xtag_is, String.reduceBEq, beq_self_eq_true, Option.isNone_some,
          Bool.and_false, Bool.false_and, Bool.false_eq_true, if_false, Bool.not_false, Bool.and_self, if_true, xtag_raw,
          acceptLoop, emptyTag, xnmTag_is, hacc, Bool.not_true, TermSt.finish, escS]
        by_cases he : String.ofList (escL t.name.toList) = trim (String.ofList (escL fm.toList)) <;> simp [he]
    | false =>
      simp only [hacc, Bool.false_eq_true, if_false, List.length_nil] at hf
      obtain ⟨f, rfl⟩ : ∃ f, fuel = f + 3 := ⟨fuel - 3, by omega⟩
      simp only [termBody, leafEvs, fromEvs, hfr, hacc, if_true, Bool.false_eq_true, if_false, List.cons_append,
        List.append_assoc, List.nil_append, List.append_nil, termLoop, xtag_is, String.reduceBEq, beq_self_eq_true,
        Option.isNone_none, Option.isNone_some, Bool.and_self, Bool.and_true, Bool.false_and, Bool.true_and,
        readText_leafEvs, xtag_raw]
      rw [hfrom (f + 1) _ (by omega)]
      unfold fromAbs termAbs
      cases hfam : t.family with
      | none => simp
      | some fm =>
        simp [termLoop, TermSt.finish, hacc]
  · -- no `<from>`: no family, no filters
    have hfr' : t.hasFrom = false := by simpa using hfr
    have hfam : t.family = none := by
      cases h : t.family with
      | none => rfl
      | some x => simp [TTerm.hasFrom, h] at hfr'
    simp only [hfr', Bool.false_eq_true, if_false] at hf
    unfold termAbs
    rw [hfam]
    cases hacc : t.accept with
    | true =>
      simp only [hacc, if_true, thenEvs, List.length_cons, List.length_nil] at hf
      obtain ⟨f, rfl⟩ : ∃ f, fuel = f + 5 := ⟨fuel - 5, by omega⟩
      simp [termBody, leafEvs, fromEvs, hfr', hacc, thenEvs, termLoop, xtag_is, readText_leafEvs, xtag_raw,
        acceptLoop, emptyTag, xnmTag_is, TermSt.finish]
    | false =>
      simp only [hacc, Bool.false_eq_true, if_false, List.length_nil] at hf
      obtain ⟨f, rfl⟩ : ∃ f, fuel = f + 2 := ⟨fuel - 2, by omega⟩
      simp [termBody, leafEvs, fromEvs, hfr', hacc, termLoop, xtag_is, readText_leafEvs, xtag_raw, TermSt.finish]

/-! ### policy-statement -/

/-- child-level semantics of the term arm of `Maybe<Installed>::read_xml` over the terms of a policy -/
def termsAbs (o : IOracle) : InstSt → List TTerm → Except Err InstSt
  | st, [] => .ok st
  | st, t :: ts =>
    match termAbs t with
    | .error e => .error e
    | .ok frm =>
      match st.addTerm o frm with
      | .error e => .error e
      | .ok st' => termsAbs o st' ts

/-- child-level semantics of `Maybe<Installed>::read_xml` on a rendered policy -/
def policyAbs (o : IOracle) (p : TPolicy) : Except Err (Option (String × Installed)) :=
  match termsAbs o { name := some p.name } p.terms with
  | .error e => .error e
  | .ok st => ({ st with reject := p.reject } : InstSt).finish

theorem addTerm_fields (o : IOracle) (st st' : InstSt) (frm : TermFrom) (h : st.addTerm o frm = .ok st') :
    st'.reject = st.reject ∧ st'.name = st.name := by
  unfold InstSt.addTerm at h
  split at h
  · split at h
    · simp only [Except.ok.injEq] at h; subst h; exact ⟨rfl, rfl⟩
    · cases h
  · split at h
    · split at h
      · simp only [Except.ok.injEq] at h; subst h; exact ⟨rfl, rfl⟩
      · cases h
    · cases h

theorem termEvs_length (t : TTerm) : (termEvs t).length = (termBody t).length + 2 := by
  simp [termEvs]

theorem instLoop_body (o : IOracle) (ts : List TTerm) (rj : Bool) (fuel : Nat) (st : InstSt) (tail : List Ev)
    (hst : st.reject = false)
    (hf : (ts.flatMap termEvs).length + (if rj then thenEvs "reject" REJECT else []).length + 1 ≤ fuel) :
    instLoop o fuel "policy-statement" st
        (ts.flatMap termEvs ++ ((if rj then thenEvs "reject" REJECT else []) ++ .end "policy-statement" :: tail))
      = match termsAbs o st ts with
        | .error e => .error e
        | .ok st' => .ok ({ st' with reject := rj }, tail) := by
  induction ts generalizing fuel st with
  | nil =>
    cases rj with
    | false =>
      obtain ⟨f, rfl⟩ : ∃ f, fuel = f + 1 := ⟨fuel - 1, by omega⟩
      cases st
      simp_all [instLoop, termsAbs]
    | true =>
      simp only [if_true, thenEvs, List.length_cons, List.length_nil, List.flatMap_nil] at hf
      obtain ⟨f, rfl⟩ : ∃ f, fuel = f + 4 := ⟨fuel - 4, by omega⟩
      simp [instLoop, termsAbs, thenEvs, xtag_is, hst, instThenLoop, emptyTag, xnmTag_is, xtag_raw]
  | cons t ts ih =>
    obtain ⟨f, rfl⟩ : ∃ f, fuel = f + 1 := ⟨fuel - 1, by omega⟩
    simp only [List.flatMap_cons, List.length_append, termEvs_length] at hf
    have hr := readTerm_render t f (ts.flatMap termEvs ++
      ((if rj then thenEvs "reject" REJECT else []) ++ .end "policy-statement" :: tail)) (by omega)
    have hraw : (termTag t).raw = "term" := rfl
    have his1 : (termTag t).is XNM "name" = false := by simp [termTag, xtag_is]
    have his2 : (termTag t).is XNM "term" = true := by simp [termTag, xtag_is]
    simp only [List.flatMap_cons, termEvs, List.cons_append, List.append_assoc, List.nil_append, instLoop, his1, his2,
      Bool.false_and, Bool.false_eq_true, if_false, if_true, hr, termsAbs]
    cases hta : termAbs t with
    | error e => simp
    | ok frm =>
      simp only [liftR_ok]
      cases had : st.addTerm o frm with
      | error e => simp
      | ok st' =>
        simp only []
        exact ih f st' (by rw [(addTerm_fields o st st' frm had).1]; exact hst) (by omega)

theorem policyBody_length (p : TPolicy) :
    (policyBody p).length = (textEv (escL p.name.toList)).length + 2 + (p.terms.flatMap termEvs).length
      + (if p.reject then thenEvs "reject" REJECT else []).length := by
  simp [policyBody, leafEvs]; omega

theorem readInstalledStmt_render (o : IOracle) (hU : ∀ s, o.unescape (escS s) = some s) (p : TPolicy) (fuel : Nat)
    (tail : List Ev) (hf : (policyBody p).length + 1 ≤ fuel) :
    readInstalledStmt o fuel (policyTag p) (policyBody p ++ .end "policy-statement" :: tail)
      = liftR (policyAbs o p) tail := by
  rw [policyBody_length] at hf
  obtain ⟨f, rfl⟩ : ∃ f, fuel = f + 1 := ⟨fuel - 1, by omega⟩
  have hraw : (policyTag p).raw = "policy-statement" := rfl
  have hu : o.unescape (String.ofList (escL p.name.toList)) = some p.name := hU p.name
  unfold readInstalledStmt policyAbs
  simp only [hraw, policyBody, leafEvs, List.cons_append, List.append_assoc, List.nil_append, instLoop, xtag_is,
    beq_self_eq_true, Option.isNone_none, Bool.and_self, if_true, readName, readText_leafEvs, hu]
  rw [instLoop_body o p.terms p.reject f _ tail rfl (by omega)]
  cases termsAbs o { name := some p.name } p.terms with
  | error e => simp
  | ok st => simp only [liftR]; cases (InstSt.finish { st with reject := p.reject }) <;> rfl

/-! ### the three outer loops -/

/-- child-level semantics of `Policies<Installed>::read_xml` on the rendered policies -/
def posAbs (o : IOracle) (map : List (String × Installed)) : List TPolicy → Except Err (List (String × Installed))
  | [] => .ok map
  | p :: ps =>
    match policyAbs o p with
    | .error e => .error e
    | .ok none => posAbs o map ps
    | .ok (some (n, i)) => if map.any (·.1 == n) then .error .other else posAbs o (map ++ [(n, i)]) ps

theorem policyEvs_length (p : TPolicy) : (policyEvs p).length = (policyBody p).length + 2 := by
  simp [policyEvs]

theorem policyOptionsLoop_policies (o : IOracle) (hU : ∀ s, o.unescape (escS s) = some s) (ps : List TPolicy)
    (fuel : Nat) (map : List (String × Installed)) (rest : List Ev) (hf : (ps.flatMap policyEvs).length + 1 ≤ fuel) :
    policyOptionsLoop (readInstalledStmt o) fuel "policy-options" map
        (ps.flatMap policyEvs ++ .end "policy-options" :: rest) = liftR (posAbs o map ps) rest := by
  induction ps generalizing fuel map with
  | nil =>
    obtain ⟨f, rfl⟩ : ∃ f, fuel = f + 1 := ⟨fuel - 1, by omega⟩
    simp [policyOptionsLoop, posAbs]
  | cons p ps ih =>
    obtain ⟨f, rfl⟩ : ∃ f, fuel = f + 1 := ⟨fuel - 1, by omega⟩
    simp only [List.flatMap_cons, List.length_append, policyEvs_length] at hf
    have hr := readInstalledStmt_render o hU p f (ps.flatMap policyEvs ++ .end "policy-options" :: rest) (by omega)
    have his : (policyTag p).is XNM "policy-statement" = true := by simp [policyTag, xtag_is]
    simp only [List.flatMap_cons, policyEvs, List.cons_append, List.append_assoc, List.nil_append, policyOptionsLoop,
      his, if_true, hr, posAbs]
    cases hpa : policyAbs o p with
    | error e => simp
    | ok v =>
      cases v with
      | none => simp only [liftR_ok]; exact ih f map (by omega)
      | some ni =>
        obtain ⟨n, i⟩ := ni
        simp only [liftR_ok]
        split
        · rfl
        · exact ih f _ (by omega)

theorem policiesLoop_renderData (o : IOracle) (hU : ∀ s, o.unescape (escS s) = some s) (c : TCfg) (rest : List Ev)
    (fuel : Nat) (hf : (renderData c).length + 1 ≤ fuel) :
    policiesLoop (readInstalledStmt o) fuel "data" none (renderData c ++ rest) = posAbs o [] c := by
  have hc1 : (confTag c).is XNM "configuration" = true := by simp [confTag, xnmTag_is]
  have hc2 : (confTag c).raw = "configuration" := rfl
  cases c with
  | nil =>
    simp only [renderData, confBody, List.isEmpty_nil, if_true, List.length_cons, List.length_append, List.length_nil] at hf
    obtain ⟨f, rfl⟩ : ∃ f, fuel = f + 3 := ⟨fuel - 3, by omega⟩
    simp [renderData, confBody, policiesLoop, configurationLoop, hc1, hc2, posAbs]
  | cons p ps =>
    have hne : (p :: ps).isEmpty = false := rfl
    simp only [renderData, confBody, hne, Bool.false_eq_true, if_false, List.length_cons, List.length_append,
      List.length_nil] at hf
    obtain ⟨f, rfl⟩ : ∃ f, fuel = f + 4 := ⟨fuel - 4, by omega⟩
    have hpo := policyOptionsLoop_policies o hU (p :: ps) (f + 2) []
      (.end "configuration" :: .end "data" :: rest) (by omega)
    simp only [renderData, confBody, hne, Bool.false_eq_true, if_false, List.cons_append, List.append_assoc,
      List.nil_append, policiesLoop, hc1, hc2, Option.isNone_none, Bool.and_self, if_true, configurationLoop, xtag_is,
      beq_self_eq_true, Bool.not_false, xtag_raw, hpo]
    cases posAbs o [] (p :: ps) with
    | error e => simp
    | ok m => simp [configurationLoop, policiesLoop]

/-- **Refinement**: on every rendered reply document the event-level reader computes its child-level
semantics (with the exact error classes of the real reader). -/
theorem readInstalledDoc_refines (o : IOracle) (hU : ∀ s, o.unescape (escS s) = some s) (c : TCfg) :
    readInstalledDoc o (renderGetConfig c) = posAbs o [] c := by
  have h1 : (rpcTag c).lname = "rpc-reply" := rfl
  have h2 : (dataTag c).lname = "data" := rfl
  have h3 : (dataTag c).raw = "data" := rfl
  simp only [readInstalledDoc, renderGetConfig, readData, h1, h2, h3, String.reduceBEq, Bool.false_eq_true, if_false,
    beq_self_eq_true, if_true, readInstalledEv]
  exact policiesLoop_renderData o hU c _ _ (by simp)

end Xml
