import Bgpfu.Model.Writers
import Bgpfu.Lemmas.Framing
/-! Helper lemmas for the writer model (C10). Core Lean only. -/
namespace Writers
open Framing (marker find OccAt)

/-! ### `escape` -/

theorem escape_append (a b : List Nat) : escape (a ++ b) = escape a ++ escape b := by
  simp [escape]

theorem escape_cons (c : Nat) (s : List Nat) : escape (c :: s) = escByte c ++ escape s := by
  simp [escape]

theorem escText_cons (ws : Bool) (c : Nat) (s : List Nat) :
    escText ws (c :: s) = escTextByte ws c ++ escText ws s := by simp [escText]

theorem escAttr_cons (ws : Bool) (c : Nat) (s : List Nat) :
    escAttr ws (c :: s) = escAttrByte ws c ++ escAttr ws s := by simp [escAttr]

theorem escText_false (s : List Nat) : escText false s = escape s := by
  have : escTextByte false = escByte := by funext b; simp [escTextByte]
  simp [escText, escape, this]

theorem escAttr_false (s : List Nat) : escAttr false s = escape s := by
  have : escAttrByte false = escByte := by funext b; simp [escAttrByte]
  simp [escAttr, escape, this]

/-- the bytes `escByte` can produce: never `<` `>` `"` `'` -/
theorem escByte_mem (b x : Nat) (h : x ∈ escByte b) : x ≠ 60 ∧ x ≠ 62 ∧ x ≠ 34 ∧ x ≠ 39 := by
  unfold escByte at h
  split at h
  · simp at h; omega
  split at h
  · simp at h; omega
  split at h
  · simp at h; omega
  split at h
  · simp at h; omega
  split at h
  · simp at h; omega
  · simp at h; omega

theorem escTextByte_mem (ws : Bool) (b x : Nat) (h : x ∈ escTextByte ws b) :
    x ≠ 60 ∧ x ≠ 62 ∧ x ≠ 34 ∧ x ≠ 39 := by
  unfold escTextByte at h
  split at h
  · simp at h; omega
  · exact escByte_mem b x h

theorem escAttrByte_mem (ws : Bool) (b x : Nat) (h : x ∈ escAttrByte ws b) :
    x ≠ 60 ∧ x ≠ 62 ∧ x ≠ 34 ∧ x ≠ 39 := by
  unfold escAttrByte at h
  split at h
  · simp at h; omega
  split at h
  · simp at h; omega
  split at h
  · simp at h; omega
  · exact escByte_mem b x h

theorem escText_mem (ws : Bool) (s : List Nat) (x : Nat) (h : x ∈ escText ws s) :
    x ≠ 60 ∧ x ≠ 62 ∧ x ≠ 34 ∧ x ≠ 39 := by
  simp only [escText, List.mem_flatMap] at h
  obtain ⟨b, _, hb⟩ := h
  exact escTextByte_mem ws b x hb

theorem escAttr_mem (ws : Bool) (s : List Nat) (x : Nat) (h : x ∈ escAttr ws s) :
    x ≠ 60 ∧ x ≠ 62 ∧ x ≠ 34 ∧ x ≠ 39 := by
  simp only [escAttr, List.mem_flatMap] at h
  obtain ⟨b, _, hb⟩ := h
  exact escAttrByte_mem ws b x hb

/-! ### `unesc` inverts the escapers -/

theorem unesc_escByte (attr : Bool) (c : Nat) (t : List Nat)
    (hc : attr = true → c ≠ 9 ∧ c ≠ 10 ∧ c ≠ 13) :
    unesc attr none (escByte c ++ t) = (unesc attr none t).map (c :: ·) := by
  unfold escByte
  split
  · subst_vars; simp [unesc, decodeRef]
  split
  · subst_vars; simp [unesc, decodeRef]
  split
  · subst_vars; simp [unesc, decodeRef]
  split
  · subst_vars; simp [unesc, decodeRef]
  split
  · subst_vars; simp [unesc, decodeRef]
  · rename_i h1 h2 h3 h4 h5
    cases attr with
    | false => simp [unesc, h1, h3]
    | true =>
      have := hc rfl
      simp [unesc, h1, h3, this]

theorem unesc_ref9 (attr : Bool) (t : List Nat) :
    unesc attr none (b!"&#9;" ++ t) = (unesc attr none t).map (9 :: ·) := by
  simp [unesc, decodeRef, decVal, isXmlChar, utf8]
theorem unesc_ref10 (attr : Bool) (t : List Nat) :
    unesc attr none (b!"&#10;" ++ t) = (unesc attr none t).map (10 :: ·) := by
  simp [unesc, decodeRef, decVal, isXmlChar, utf8]
theorem unesc_ref13 (attr : Bool) (t : List Nat) :
    unesc attr none (b!"&#13;" ++ t) = (unesc attr none t).map (13 :: ·) := by
  simp [unesc, decodeRef, decVal, isXmlChar, utf8]

theorem unesc_escape (s : List Nat) : unesc false none (escape s) = some s := by
  induction s with
  | nil => simp [escape, unesc]
  | cons c s ih => rw [escape_cons, unesc_escByte false c _ (by simp), ih]; rfl

/-- `eol` leaves CR-free input alone -/
theorem eol_id (l : List Nat) (h : 13 ∉ l) : eol l = l := by
  induction l with
  | nil => rfl
  | cons c r ih =>
    have hc : c ≠ 13 := by intro e; exact h (by simp [e])
    have hr : 13 ∉ r := by intro e; exact h (by simp [e])
    rw [eol.eq_4, ih hr]
    · intro _ e _; exact hc e
    · intro e; exact hc e

/-! ### occurrences of the marker: barriers -/

/-- marker-free -/
def MF (s : List Nat) : Prop := ∀ j, ¬ OccAt marker s j

theorem mf_iff_find (s : List Nat) : MF s ↔ find marker s = none :=
  (Framing.find_none_iff marker s Framing.marker_ne_nil).symm

instance (s : List Nat) : Decidable (MF s) := decidable_of_iff _ (mf_iff_find s).symm

theorem occAt_get (s : List Nat) (j : Nat) (h : OccAt marker s j) (k : Nat) (hk : k < 6) :
    s[j + k]? = marker[k]? := by
  unfold OccAt at h
  rw [List.isPrefixOf_iff_prefix] at h
  obtain ⟨t, ht⟩ := h
  have : (s.drop j)[k]? = marker[k]? := by
    rw [← ht, List.getElem?_append_left (by simpa [Framing.marker_length] using hk)]
  simpa [List.getElem?_drop] using this

theorem marker_get (k : Nat) (hk : k < 6) (x : Nat) (h : marker[k]? = some x) : x = 93 ∨ x = 62 := by
  have : k = 0 ∨ k = 1 ∨ k = 2 ∨ k = 3 ∨ k = 4 ∨ k = 5 := by omega
  rcases this with e | e | e | e | e | e <;> subst e <;> simp [marker] at h <;> subst h <;> simp

theorem marker_get_gt (k : Nat) (hk : k < 6) (h : marker[k]? = some 62) :
    1 ≤ k ∧ marker[k - 1]? = some 93 := by
  have : k = 0 ∨ k = 1 ∨ k = 2 ∨ k = 3 ∨ k = 4 ∨ k = 5 := by omega
  rcases this with e | e | e | e | e | e <;> subst e <;> simp [marker] at h ⊢

theorem occAt_cons (x : Nat) (t : List Nat) (j : Nat) : OccAt marker (x :: t) (j + 1) ↔ OccAt marker t j := by
  simp [OccAt]

theorem occAt_drop_left (u v : List Nat) (j : Nat) (hj : u.length ≤ j) (h : OccAt marker (u ++ v) j) :
    OccAt marker v (j - u.length) := by
  have := (Framing.occAt_drop marker (u ++ v) u.length (j - u.length)).mpr (by
    have e : u.length + (j - u.length) = j := by omega
    rw [e]; exact h)
  simpa using this

theorem occAt_append_right (u v : List Nat) (j : Nat) (h : OccAt marker v j) :
    OccAt marker (u ++ v) (u.length + j) := by
  have := (Framing.occAt_drop marker (u ++ v) u.length j).mp (by simpa using h)
  exact this

/-- a byte outside the marker's alphabet splits every occurrence question in two -/
theorem occ_split_barrier (u v : List Nat) (x : Nat) (hx : x ≠ 93 ∧ x ≠ 62) (j : Nat)
    (h : OccAt marker (u ++ x :: v) j) :
    OccAt marker u j ∨ (u.length < j ∧ OccAt marker v (j - u.length - 1)) := by
  by_cases h1 : j + 6 ≤ u.length
  · left; exact Framing.occAt_of_append marker u _ j (by simpa [Framing.marker_length] using h1) h
  by_cases h2 : u.length < j
  · right
    refine ⟨h2, ?_⟩
    have := occAt_drop_left u (x :: v) j (by omega) h
    have e : j - u.length = (j - u.length - 1) + 1 := by omega
    rw [e, occAt_cons] at this
    exact this
  · exfalso
    have hk : u.length - j < 6 := by omega
    have := occAt_get _ j h (u.length - j) hk
    have e : j + (u.length - j) = u.length := by omega
    rw [e, List.getElem?_append_right (by omega)] at this
    simp only [Nat.sub_self, List.getElem?_cons_zero] at this
    have := marker_get _ hk x this.symm
    omega

/-- a `>` that does not follow a `]` cannot be part of an occurrence -/
theorem occ_split_gt (u v : List Nat) (y : Nat) (hy : y ≠ 93) (j : Nat)
    (h : OccAt marker (u ++ y :: 62 :: v) j) :
    OccAt marker (u ++ [y]) j ∨ (u.length + 2 ≤ j ∧ OccAt marker v (j - (u.length + 2))) := by
  have hs : u ++ y :: 62 :: v = (u ++ [y]) ++ 62 :: v := by simp
  by_cases h1 : j + 6 ≤ u.length + 1
  · left
    rw [hs] at h
    exact Framing.occAt_of_append marker (u ++ [y]) _ j (by simpa [Framing.marker_length] using h1) h
  by_cases h2 : u.length + 2 ≤ j
  · right
    refine ⟨h2, ?_⟩
    have hs2 : u ++ y :: 62 :: v = (u ++ [y, 62]) ++ v := by simp
    rw [hs2] at h
    have := occAt_drop_left (u ++ [y, 62]) v j (by simpa using h2) h
    simpa using this
  · exfalso
    have hk : u.length + 1 - j < 6 := by omega
    have hg := occAt_get _ j h (u.length + 1 - j) hk
    have e : j + (u.length + 1 - j) = u.length + 1 := by omega
    rw [e, List.getElem?_append_right (by omega)] at hg
    have e1 : u.length + 1 - u.length = 1 := by omega
    rw [e1] at hg
    simp only [List.getElem?_cons_succ, List.getElem?_cons_zero] at hg
    obtain ⟨hk1, hm⟩ := marker_get_gt _ hk hg.symm
    have hg' := occAt_get _ j h (u.length + 1 - j - 1) (by omega)
    have e' : j + (u.length + 1 - j - 1) = u.length := by omega
    rw [e', List.getElem?_append_right (by omega), hm] at hg'
    simp at hg'
    exact hy hg'

theorem mf_nil : MF [] := by
  intro j h
  have := Framing.occAt_bound' [] j h
  simp at this

theorem mf_of_append_left (a b : List Nat) (h : MF (a ++ b)) : MF a :=
  fun j hj => h j (Framing.occAt_append marker a b j hj)

theorem mf_of_append_right (a b : List Nat) (h : MF (a ++ b)) : MF b :=
  fun j hj => h (a.length + j) (occAt_append_right a b j hj)

/-- no `>` at all, no marker -/
theorem mf_of_no_gt (s : List Nat) (h : 62 ∉ s) : MF s := by
  intro j hj
  have hb := Framing.occAt_bound' s j hj
  have := occAt_get s j hj 2 (by omega)
  simp only [marker, List.getElem?_cons_succ, List.getElem?_cons_zero] at this
  have hlt : j + 2 < s.length := by omega
  rw [List.getElem?_eq_getElem hlt] at this
  have e : s[j + 2] = 62 := by simpa using this
  exact h (e ▸ List.getElem_mem hlt)

/-! ### names -/

def nameStart (b : Nat) : Bool := (97 ≤ b && b ≤ 122) || (65 ≤ b && b ≤ 90) || b == 95 || b == 58
def nameByte (b : Nat) : Bool := nameStart b || (48 ≤ b && b ≤ 57) || b == 45 || b == 46

/-- an (ASCII) XML `Name` -/
def nameOk : List Nat → Bool
  | [] => false
  | c :: r => nameStart c && r.all nameByte

/-- attribute names are `Name`s and pairwise distinct -/
def attrNamesOk (as : List Attr) : Bool := (as.all fun a => nameOk a.name) && decide (as.map (·.name)).Nodup

mutual
/-- every element / attribute name in the tree is a `Name` -/
def namesOk : XNode → Bool
  | .empty n as => nameOk n && attrNamesOk as
  | .text n as _ => nameOk n && attrNamesOk as
  | .raw n as _ => nameOk n && attrNamesOk as
  | .elem n as ks => nameOk n && attrNamesOk as && namesOkL ks
def namesOkL : List XNode → Bool
  | [] => true
  | k :: ks => namesOk k && namesOkL ks
end

theorem nameByte_ne (b : Nat) (h : nameByte b = true) :
    b ≠ 62 ∧ b ≠ 93 ∧ b ≠ 60 ∧ b ≠ 34 ∧ b ≠ 32 ∧ b ≠ 61 ∧ b ≠ 47 ∧ b ≠ 38 := by
  simp [nameByte, nameStart] at h
  omega

theorem nameOk_bytes (n : List Nat) (h : nameOk n = true) : n ≠ [] ∧ ∀ b ∈ n, nameByte b = true := by
  cases n with
  | nil => simp [nameOk] at h
  | cons c r =>
    simp only [nameOk, Bool.and_eq_true, List.all_eq_true] at h
    refine ⟨by simp, ?_⟩
    intro b hb
    rcases List.mem_cons.mp hb with e | e
    · subst e; simp [nameByte, h.1]
    · exact h.2 b e

/-! ### tags are sealed: `<` … `y>` with `y ≠ ]` -/

def EndsGt (s : List Nat) : Prop := ∃ u y, s = u ++ [y, 62] ∧ y ≠ 93
def StartsLt (s : List Nat) : Prop := ∃ t, s = 60 :: t

structure Good (s : List Nat) : Prop where
  mf : MF s
  ends : EndsGt s
  starts : StartsLt s

/-- two sealed pieces with marker-free bytes between them are sealed -/
theorem good_sandwich (a r b : List Nat) (ha : Good a) (hr : MF r) (hb : Good b) : Good (a ++ r ++ b) := by
  obtain ⟨u, y, rfl, hy⟩ := ha.ends
  obtain ⟨t, rfl⟩ := hb.starts
  refine ⟨?_, ?_, ?_⟩
  · intro j hj
    have e : u ++ [y, 62] ++ r ++ 60 :: t = u ++ y :: 62 :: (r ++ 60 :: t) := by simp
    rw [e] at hj
    rcases occ_split_gt u _ y hy j hj with h1 | ⟨_, h2⟩
    · have e2 : u ++ [y, 62] = (u ++ [y]) ++ [62] := by simp
      exact ha.mf j (e2 ▸ Framing.occAt_append marker (u ++ [y]) [62] j h1)
    · rcases occ_split_barrier r t 60 (by omega) _ h2 with h3 | ⟨_, h4⟩
      · exact hr _ h3
      · exact hb.mf _ ((occAt_cons 60 t _).mpr h4)
  · obtain ⟨u', y', e, hy'⟩ := hb.ends
    exact ⟨u ++ [y, 62] ++ r ++ u', y', by rw [e]; simp, hy'⟩
  · obtain ⟨t', e⟩ := ha.starts
    exact ⟨t' ++ r ++ 60 :: t, by rw [e]; simp⟩

theorem good_append (a b : List Nat) (ha : Good a) (hb : Good b) : Good (a ++ b) := by
  simpa using good_sandwich a [] b ha mf_nil hb

theorem good_tag (body : List Nat) (y : Nat) (hb : 62 ∉ body) (hy : y ≠ 93) (hy2 : y ≠ 62) :
    Good (60 :: body ++ [y, 62]) := by
  refine ⟨?_, ⟨60 :: body, y, by simp, hy⟩, ⟨_, rfl⟩⟩
  intro j hj
  have e : 60 :: body ++ [y, 62] = (60 :: body) ++ y :: 62 :: [] := by simp
  rw [e] at hj
  rcases occ_split_gt (60 :: body) [] y hy j hj with h1 | ⟨_, h2⟩
  · refine mf_of_no_gt _ ?_ j h1
    simp only [List.cons_append, List.mem_cons, List.mem_append, List.not_mem_nil, or_false, not_or]
    exact ⟨by omega, hb, by omega⟩
  · exact mf_nil _ h2

def LastOk (s : List Nat) : Prop := ∃ u y, s = u ++ [y] ∧ y ≠ 93

theorem lastOk_append (a b : List Nat) (h : LastOk b) : LastOk (a ++ b) := by
  obtain ⟨u, y, rfl, hy⟩ := h
  exact ⟨a ++ u, y, by simp, hy⟩

theorem lastOk_name (n : List Nat) (h : nameOk n = true) : LastOk n := by
  obtain ⟨hne, hb⟩ := nameOk_bytes n h
  rcases List.eq_nil_or_concat n with e | ⟨u, y, e⟩
  · exact absurd e hne
  · refine ⟨u, y, by simpa using e, ?_⟩
    exact (nameByte_ne y (hb y (by simp [e]))).2.1

theorem attrBytes_no_gt (ws : Bool) (a : Attr) (h : nameOk a.name = true) : 62 ∉ attrBytes ws a := by
  obtain ⟨_, hb⟩ := nameOk_bytes _ h
  intro hm
  simp [attrBytes] at hm
  rcases hm with hm | hm
  · exact (nameByte_ne 62 (hb 62 hm)).1 rfl
  · exact (escAttr_mem ws _ 62 hm).2.1 rfl

theorem attrsBytes_no_gt (ws : Bool) (as : List Attr) (h : attrNamesOk as = true) : 62 ∉ attrsBytes ws as := by
  simp only [attrsBytes, List.mem_flatMap, not_exists, not_and]
  intro a ha
  exact attrBytes_no_gt ws a (by simp only [attrNamesOk, Bool.and_eq_true, List.all_eq_true] at h; exact h.1 a ha)

theorem attrsBytes_lastOk (ws : Bool) (as : List Attr) (hne : as ≠ []) : LastOk (attrsBytes ws as) := by
  induction as with
  | nil => exact absurd rfl hne
  | cons a as ih =>
    cases as with
    | nil => exact ⟨32 :: a.name ++ 61 :: 34 :: escAttr ws a.value, 34, by simp [attrsBytes, attrBytes], by omega⟩
    | cons a' as' =>
      have := ih (by simp)
      simp only [attrsBytes, List.flatMap_cons] at this ⊢
      exact lastOk_append _ _ this

/-- `name attrs` (the inside of a start tag): no `>`, does not end in `]` -/
theorem inner_ok (ws : Bool) (n : List Nat) (as : List Attr) (hn : nameOk n = true) (ha : attrNamesOk as = true) :
    62 ∉ n ++ attrsBytes ws as ∧ LastOk (n ++ attrsBytes ws as) := by
  constructor
  · simp only [List.mem_append, not_or]
    refine ⟨?_, attrsBytes_no_gt ws as ha⟩
    intro hm; exact (nameByte_ne 62 ((nameOk_bytes n hn).2 62 hm)).1 rfl
  · cases as with
    | nil => simpa [attrsBytes] using lastOk_name n hn
    | cons a as' => exact lastOk_append _ _ (attrsBytes_lastOk ws _ (by simp))

theorem good_openTag (ws : Bool) (n : List Nat) (as : List Attr) (hn : nameOk n = true) (ha : attrNamesOk as = true) :
    Good (openTag ws n as) := by
  obtain ⟨h1, u, y, e, hy⟩ := inner_ok ws n as hn ha
  have h62 : 62 ∉ u ∧ y ≠ 62 := by
    rw [e] at h1; simp only [List.mem_append, List.mem_singleton, not_or] at h1; exact ⟨h1.1, fun h => h1.2 h.symm⟩
  have : openTag ws n as = 60 :: u ++ [y, 62] := by
    simp only [openTag, List.cons_append, List.append_assoc]
    rw [← List.append_assoc n, e]; simp
  rw [this]; exact good_tag u y h62.1 hy h62.2

theorem good_emptyTag (ws : Bool) (n : List Nat) (as : List Attr) (hn : nameOk n = true) (ha : attrNamesOk as = true) :
    Good (emptyTag ws n as) := by
  obtain ⟨h1, _⟩ := inner_ok ws n as hn ha
  have : emptyTag ws n as = 60 :: (n ++ attrsBytes ws as) ++ [47, 62] := by simp [emptyTag]
  rw [this]; exact good_tag _ 47 h1 (by omega) (by omega)

theorem good_closeTag (n : List Nat) (hn : nameOk n = true) : Good (closeTag n) := by
  obtain ⟨u, y, e, hy⟩ := lastOk_name n hn
  obtain ⟨_, hb⟩ := nameOk_bytes n hn
  have h62 : 62 ∉ 47 :: u ∧ y ≠ 62 := by
    constructor
    · simp only [List.mem_cons, not_or]
      refine ⟨by omega, fun hm => (nameByte_ne 62 (hb 62 (by simp [e, hm]))).1 rfl⟩
    · intro h; exact (nameByte_ne 62 (hb 62 (by simp [e, h]))).1 rfl
  have : closeTag n = 60 :: (47 :: u) ++ [y, 62] := by simp [closeTag, e]
  rw [this]; exact good_tag _ y h62.1 hy h62.2

def GoodL (s : List Nat) : Prop := s = [] ∨ Good s

theorem goodL_mf (s : List Nat) (h : GoodL s) : MF s := by
  rcases h with rfl | h
  · exact mf_nil
  · exact h.mf

mutual
/-- the rendering of a tree whose raw leaves are marker-free is sealed and marker-free -/
theorem good_render (ws : Bool) : (m : XNode) → namesOk m = true → (∀ r ∈ rawLeaves m, MF r) → Good (render ws m)
  | .empty n as, hn, _ => by
    simp only [namesOk, Bool.and_eq_true] at hn
    simpa [render] using good_emptyTag ws n as hn.1 hn.2
  | .text n as v, hn, _ => by
    simp only [namesOk, Bool.and_eq_true] at hn
    simp only [render]
    exact good_sandwich _ _ _ (good_openTag ws n as hn.1 hn.2)
      (mf_of_no_gt _ (fun hm => (escText_mem ws v 62 hm).2.1 rfl)) (good_closeTag n hn.1)
  | .raw n as r, hn, hr => by
    simp only [namesOk, Bool.and_eq_true] at hn
    simp only [render]
    exact good_sandwich _ _ _ (good_openTag ws n as hn.1 hn.2) (hr r (by simp [rawLeaves])) (good_closeTag n hn.1)
  | .elem n as ks, hn, hr => by
    simp only [namesOk, Bool.and_eq_true] at hn
    simp only [render]
    exact good_sandwich _ _ _ (good_openTag ws n as hn.1.1 hn.1.2)
      (goodL_mf _ (good_renderL ws ks hn.2 (by simpa [rawLeaves] using hr))) (good_closeTag n hn.1.1)
theorem good_renderL (ws : Bool) : (ks : List XNode) → namesOkL ks = true → (∀ r ∈ rawLeavesL ks, MF r) → GoodL (renderL ws ks)
  | [], _, _ => Or.inl (by simp [renderL])
  | k :: ks, hn, hr => by
    simp only [namesOkL, Bool.and_eq_true] at hn
    simp only [renderL]
    have hk := good_render ws k hn.1 (fun r hm => hr r (by simp [rawLeavesL, hm]))
    rcases good_renderL ws ks hn.2 (fun r hm => hr r (by simp [rawLeavesL, hm])) with e | h
    · rw [e]; exact Or.inr (by simpa using hk)
    · exact Or.inr (good_append _ _ hk h)
end

/-- **exactly once, at the end**: a sealed, marker-free body followed by the marker -/
theorem occ_wire_iff (R : List Nat) (hmf : MF R) (he : EndsGt R) (j : Nat) :
    OccAt marker (R ++ marker) j ↔ j = R.length := by
  constructor
  · intro h
    obtain ⟨u, y, rfl, hy⟩ := he
    have e : u ++ [y, 62] ++ marker = u ++ y :: 62 :: marker := by simp
    rw [e] at h
    rcases occ_split_gt u marker y hy j h with h1 | ⟨h2, h3⟩
    · exfalso
      have e2 : u ++ [y, 62] = (u ++ [y]) ++ [62] := by simp
      exact hmf j (e2 ▸ Framing.occAt_append marker (u ++ [y]) [62] j h1)
    · have := Framing.occAt_bound' marker _ h3
      simp [Framing.marker_length] at this ⊢
      omega
  · rintro rfl
    have := occAt_append_right R marker 0 (by simp [OccAt])
    simpa using this

theorem find_wire (R : List Nat) (hmf : MF R) (he : EndsGt R) : find marker (R ++ marker) = some R.length := by
  rw [Framing.find_some_iff _ _ _ Framing.marker_ne_nil]
  refine ⟨(occ_wire_iff R hmf he _).mpr rfl, ?_⟩
  intro j hj h
  have := (occ_wire_iff R hmf he j).mp h
  omega

/-- the rendering of any tree with proper names ends in `y>`, `y ≠ ]` (whatever its raw leaves are) -/
theorem endsGt_render (ws : Bool) (m : XNode) (hn : namesOk m = true) : EndsGt (render ws m) := by
  have cl : ∀ (n : List Nat) (pre : List Nat), nameOk n = true → EndsGt (pre ++ closeTag n) := by
    intro n pre h
    obtain ⟨u, y, e, hy⟩ := (good_closeTag n h).ends
    exact ⟨pre ++ u, y, by rw [e]; simp, hy⟩
  cases m with
  | empty n as =>
    simp only [namesOk, Bool.and_eq_true] at hn
    simpa [render] using (good_emptyTag ws n as hn.1 hn.2).ends
  | text n as v =>
    simp only [namesOk, Bool.and_eq_true] at hn
    simpa [render] using cl n (openTag ws n as ++ escText ws v) hn.1
  | raw n as r =>
    simp only [namesOk, Bool.and_eq_true] at hn
    simpa [render] using cl n (openTag ws n as ++ r) hn.1
  | elem n as ks =>
    simp only [namesOk, Bool.and_eq_true] at hn
    simpa [render] using cl n (openTag ws n as ++ renderL ws ks) hn.1.1

/-! ### well-formedness of the produced XML subset -/

/-- a reference `&name;` that the parser model can decode (predefined entity or character reference) -/
def IsRef (r : List Nat) : Prop := ∃ nm, r = 38 :: nm ++ [59] ∧ 59 ∉ nm ∧ (decodeRef nm).isSome = true

/-- attribute value literal (between double quotes): no `<`, no `"`, `&` only as a reference -/
inductive AttValWF : List Nat → Prop
  | nil : AttValWF []
  | char (c : Nat) (s : List Nat) : c ≠ 60 → c ≠ 38 → c ≠ 34 → AttValWF s → AttValWF (c :: s)
  | ref (r s : List Nat) : IsRef r → AttValWF s → AttValWF (r ++ s)

/-- the attribute part of a tag: ` name="value"` repeated; first index = the names, in order -/
inductive AttrsWF : List (List Nat) → List Nat → Prop
  | nil : AttrsWF [] []
  | cons (n v : List Nat) (names : List (List Nat)) (rest : List Nat) :
      nameOk n = true → AttValWF v → AttrsWF names rest →
      AttrsWF (n :: names) (32 :: n ++ 61 :: 34 :: v ++ 34 :: rest)

/-- XML `content` (the subset the writers produce): character data without `<` `&` `>`,
references, empty-element tags, elements; `F` = what the caller guarantees about the fragments
it supplies (a fragment is content). -/
inductive WFC (F : List Nat → Prop) : List Nat → Prop
  | nil : WFC F []
  | char (c : Nat) (s : List Nat) : c ≠ 60 → c ≠ 38 → c ≠ 62 → WFC F s → WFC F (c :: s)
  | ref (r s : List Nat) : IsRef r → WFC F s → WFC F (r ++ s)
  | empty (n : List Nat) (names : List (List Nat)) (ab s : List Nat) :
      nameOk n = true → AttrsWF names ab → names.Nodup → WFC F s →
      WFC F (60 :: n ++ ab ++ [47, 62] ++ s)
  | elem (n : List Nat) (names : List (List Nat)) (ab c s : List Nat) :
      nameOk n = true → AttrsWF names ab → names.Nodup → WFC F c → WFC F s →
      WFC F (60 :: n ++ ab ++ [62] ++ c ++ closeTag n ++ s)
  | frag (r s : List Nat) : F r → WFC F s → WFC F (r ++ s)

/-- a document: exactly one element (no prolog, nothing after it) -/
def WFDoc (F : List Nat → Prop) (d : List Nat) : Prop :=
  (∃ n names ab, nameOk n = true ∧ AttrsWF names ab ∧ names.Nodup ∧ d = 60 :: n ++ ab ++ [47, 62]) ∨
  (∃ n names ab c, nameOk n = true ∧ AttrsWF names ab ∧ names.Nodup ∧ WFC F c ∧
      d = 60 :: n ++ ab ++ [62] ++ c ++ closeTag n)

theorem wfc_of_doc (F : List Nat → Prop) (e s : List Nat) (he : WFDoc F e) (hs : WFC F s) : WFC F (e ++ s) := by
  rcases he with ⟨n, names, ab, h1, h2, h3, rfl⟩ | ⟨n, names, ab, c, h1, h2, h3, h4, rfl⟩
  · exact WFC.empty n names ab s h1 h2 h3 hs
  · exact WFC.elem n names ab c s h1 h2 h3 h4 hs

theorem wfc_append (F : List Nat → Prop) (a b : List Nat) (ha : WFC F a) (hb : WFC F b) : WFC F (a ++ b) := by
  induction ha with
  | nil => simpa using hb
  | char c s h1 h2 h3 _ ih => exact WFC.char c _ h1 h2 h3 ih
  | ref r s h _ ih => rw [List.append_assoc]; exact WFC.ref r _ h ih
  | empty n names ab s h1 h2 h3 _ ih => rw [List.append_assoc]; exact WFC.empty n names ab _ h1 h2 h3 ih
  | elem n names ab c s h1 h2 h3 h4 _ _ ih => rw [List.append_assoc]; exact WFC.elem n names ab c _ h1 h2 h3 h4 ih
  | frag r s h _ ih => rw [List.append_assoc]; exact WFC.frag r _ h ih

/-- fragments that are themselves content of the subset can be flattened away -/
theorem wfc_flatten (G : List Nat → Prop) (s : List Nat) (h : WFC (WFC G) s) : WFC G s := by
  induction h with
  | nil => exact WFC.nil
  | char c s h1 h2 h3 _ ih => exact WFC.char c _ h1 h2 h3 ih
  | ref r s h _ ih => exact WFC.ref r _ h ih
  | empty n names ab s h1 h2 h3 _ ih => exact WFC.empty n names ab _ h1 h2 h3 ih
  | elem n names ab c s h1 h2 h3 _ _ ihc ih => exact WFC.elem n names ab c _ h1 h2 h3 ihc ih
  | frag r s h _ ih => exact wfc_append G r s h ih

theorem isRef_lt : IsRef b!"&lt;" := ⟨b!"lt", rfl, by decide, by decide⟩
theorem isRef_gt : IsRef b!"&gt;" := ⟨b!"gt", rfl, by decide, by decide⟩
theorem isRef_amp : IsRef b!"&amp;" := ⟨b!"amp", rfl, by decide, by decide⟩
theorem isRef_apos : IsRef b!"&apos;" := ⟨b!"apos", rfl, by decide, by decide⟩
theorem isRef_quot : IsRef b!"&quot;" := ⟨b!"quot", rfl, by decide, by decide⟩
theorem isRef_9 : IsRef b!"&#9;" := ⟨b!"#9", rfl, by decide, by decide⟩
theorem isRef_10 : IsRef b!"&#10;" := ⟨b!"#10", rfl, by decide, by decide⟩
theorem isRef_13 : IsRef b!"&#13;" := ⟨b!"#13", rfl, by decide, by decide⟩

theorem wfc_escByte (F : List Nat → Prop) (c : Nat) (s : List Nat) (hs : WFC F s) : WFC F (escByte c ++ s) := by
  unfold escByte
  split; · exact WFC.ref _ _ isRef_lt hs
  split; · exact WFC.ref _ _ isRef_gt hs
  split; · exact WFC.ref _ _ isRef_amp hs
  split; · exact WFC.ref _ _ isRef_apos hs
  split; · exact WFC.ref _ _ isRef_quot hs
  rename_i h1 h2 h3 _ _
  exact WFC.char c s h1 h3 h2 hs

theorem wfc_escText (F : List Nat → Prop) (ws : Bool) (v : List Nat) : WFC F (escText ws v) := by
  induction v with
  | nil => exact WFC.nil
  | cons c v ih =>
    rw [escText_cons]
    unfold escTextByte
    split
    · exact WFC.ref _ _ isRef_13 ih
    · exact wfc_escByte F c _ ih

theorem attVal_escByte (c : Nat) (s : List Nat) (hs : AttValWF s) : AttValWF (escByte c ++ s) := by
  unfold escByte
  split; · exact AttValWF.ref _ _ isRef_lt hs
  split; · exact AttValWF.ref _ _ isRef_gt hs
  split; · exact AttValWF.ref _ _ isRef_amp hs
  split; · exact AttValWF.ref _ _ isRef_apos hs
  split; · exact AttValWF.ref _ _ isRef_quot hs
  rename_i h1 _ h3 _ h5
  exact AttValWF.char c s h1 h3 h5 hs

theorem attVal_escAttr (ws : Bool) (v : List Nat) : AttValWF (escAttr ws v) := by
  induction v with
  | nil => exact AttValWF.nil
  | cons c v ih =>
    rw [escAttr_cons]
    unfold escAttrByte
    split; · exact AttValWF.ref _ _ isRef_9 ih
    split; · exact AttValWF.ref _ _ isRef_10 ih
    split; · exact AttValWF.ref _ _ isRef_13 ih
    exact attVal_escByte c _ ih

theorem attrsWF_render (ws : Bool) (as : List Attr) (h : (as.all fun a => nameOk a.name) = true) :
    AttrsWF (as.map (·.name)) (attrsBytes ws as) := by
  induction as with
  | nil => exact AttrsWF.nil
  | cons a as ih =>
    simp only [List.all_cons, Bool.and_eq_true] at h
    have := AttrsWF.cons a.name (escAttr ws a.value) _ _ h.1 (attVal_escAttr ws a.value) (ih h.2)
    simpa [attrsBytes, attrBytes] using this

theorem attrs_ok (ws : Bool) (as : List Attr) (h : attrNamesOk as = true) :
    AttrsWF (as.map (·.name)) (attrsBytes ws as) ∧ (as.map (·.name)).Nodup := by
  simp only [attrNamesOk, Bool.and_eq_true, decide_eq_true_eq] at h
  exact ⟨attrsWF_render ws as h.1, h.2⟩

mutual
/-- **well-formed fragments give a well-formed document** -/
theorem wf_render (F : List Nat → Prop) (ws : Bool) :
    (m : XNode) → namesOk m = true → (∀ r ∈ rawLeaves m, F r) → WFDoc F (render ws m)
  | .empty n as, hn, _ => by
    simp only [namesOk, Bool.and_eq_true] at hn
    obtain ⟨h1, h2⟩ := attrs_ok ws as hn.2
    exact Or.inl ⟨n, _, _, hn.1, h1, h2, by simp [render, emptyTag]⟩
  | .text n as v, hn, _ => by
    simp only [namesOk, Bool.and_eq_true] at hn
    obtain ⟨h1, h2⟩ := attrs_ok ws as hn.2
    exact Or.inr ⟨n, _, _, _, hn.1, h1, h2, wfc_escText F ws v, by simp [render, openTag]⟩
  | .raw n as r, hn, hr => by
    simp only [namesOk, Bool.and_eq_true] at hn
    obtain ⟨h1, h2⟩ := attrs_ok ws as hn.2
    have : WFC F r := by simpa using WFC.frag r [] (hr r (by simp [rawLeaves])) WFC.nil
    exact Or.inr ⟨n, _, _, _, hn.1, h1, h2, this, by simp [render, openTag]⟩
  | .elem n as ks, hn, hr => by
    simp only [namesOk, Bool.and_eq_true] at hn
    obtain ⟨h1, h2⟩ := attrs_ok ws as hn.1.2
    exact Or.inr ⟨n, _, _, _, hn.1.1, h1, h2, wf_renderL F ws ks hn.2 (by simpa [rawLeaves] using hr),
      by simp [render, openTag]⟩
theorem wf_renderL (F : List Nat → Prop) (ws : Bool) :
    (ks : List XNode) → namesOkL ks = true → (∀ r ∈ rawLeavesL ks, F r) → WFC F (renderL ws ks)
  | [], _, _ => by simpa [renderL] using WFC.nil
  | k :: ks, hn, hr => by
    simp only [namesOkL, Bool.and_eq_true] at hn
    simp only [renderL]
    exact wfc_of_doc F _ _ (wf_render F ws k hn.1 (fun r hm => hr r (by simp [rawLeavesL, hm])))
      (wf_renderL F ws ks hn.2 (fun r hm => hr r (by simp [rawLeavesL, hm])))
end

/-! ### what the parser reads back from an escaped leaf -/

theorem escByte_no13 (c : Nat) (hc : c ≠ 13) : 13 ∉ escByte c := by
  unfold escByte
  split; · decide
  split; · decide
  split; · decide
  split; · decide
  split; · decide
  simpa using fun h => hc h.symm

theorem escText_no13 (ws : Bool) (v : List Nat) (h : ws = true ∨ 13 ∉ v) : 13 ∉ escText ws v := by
  simp only [escText, List.mem_flatMap, not_exists, not_and]
  intro c hc
  unfold escTextByte
  split
  · decide
  · rename_i hn
    apply escByte_no13
    rcases h with h | h
    · subst h; intro e; subst e; simp at hn
    · intro e; subst e; exact h hc

theorem escAttr_no13 (ws : Bool) (v : List Nat) (h : ws = true ∨ 13 ∉ v) : 13 ∉ escAttr ws v := by
  simp only [escAttr, List.mem_flatMap, not_exists, not_and]
  intro c hc
  unfold escAttrByte
  split; · decide
  split; · decide
  split
  · decide
  · rename_i _ _ hn
    apply escByte_no13
    rcases h with h | h
    · subst h; intro e; subst e; simp at hn
    · intro e; subst e; exact h hc

theorem unesc_escText (ws : Bool) (v : List Nat) : unesc false none (escText ws v) = some v := by
  induction v with
  | nil => simp [escText, unesc]
  | cons c v ih =>
    rw [escText_cons]
    unfold escTextByte
    split
    · rename_i h
      simp only [Bool.and_eq_true, beq_iff_eq] at h
      rw [unesc_ref13, ih, h.2]; rfl
    · rw [unesc_escByte false c _ (by simp), ih]; rfl

theorem unesc_escAttr (ws : Bool) (v : List Nat) (h : ws = true ∨ (9 ∉ v ∧ 10 ∉ v ∧ 13 ∉ v)) :
    unesc true none (escAttr ws v) = some v := by
  induction v with
  | nil => simp [escAttr, unesc]
  | cons c v ih =>
    have ih' := ih (by
      rcases h with h | h
      · exact Or.inl h
      · right; simp only [List.mem_cons, not_or] at h; exact ⟨h.1.2, h.2.1.2, h.2.2.2⟩)
    rw [escAttr_cons]
    unfold escAttrByte
    split
    · rename_i h1; simp only [Bool.and_eq_true, beq_iff_eq] at h1
      rw [unesc_ref9, ih', h1.2]; rfl
    split
    · rename_i _ h1; simp only [Bool.and_eq_true, beq_iff_eq] at h1
      rw [unesc_ref10, ih', h1.2]; rfl
    split
    · rename_i _ _ h1; simp only [Bool.and_eq_true, beq_iff_eq] at h1
      rw [unesc_ref13, ih', h1.2]; rfl
    · rename_i h1 h2 h3
      rw [unesc_escByte true c _ (by
        intro _
        rcases h with h | h
        · subst h; simp at h1 h2 h3; exact ⟨h1, h2, h3⟩
        · simp only [List.mem_cons, not_or] at h
          exact ⟨fun e => h.1.1 e.symm, fun e => h.2.1.1 e.symm, fun e => h.2.2.1 e.symm⟩), ih']
      rfl

theorem takeWhile_span (p : Nat → Bool) (e t : List Nat) (x : Nat) (he : ∀ b ∈ e, p b = true) (hx : p x = false) :
    (e ++ x :: t).takeWhile p = e := by
  induction e with
  | nil => simp [List.takeWhile, hx]
  | cons c e ih =>
    have hc : p c = true := he c (by simp)
    simp only [List.cons_append, List.takeWhile_cons, hc, ↓reduceIte]
    rw [ih (fun b hb => he b (by simp [hb]))]

/-! ### subtrees -/

/-- `Sub t m`: `t` occurs in `m` as a node -/
inductive Sub : XNode → XNode → Prop
  | refl (m : XNode) : Sub m m
  | kid (t k : XNode) (n : List Nat) (as : List Attr) (ks : List XNode) : k ∈ ks → Sub t k → Sub t (.elem n as ks)

theorem renderL_mem (ws : Bool) (k : XNode) (ks : List XNode) (h : k ∈ ks) :
    ∃ pre post, renderL ws ks = pre ++ render ws k ++ post := by
  induction ks with
  | nil => simp at h
  | cons k' ks ih =>
    rcases List.mem_cons.mp h with e | e
    · subst e; exact ⟨[], renderL ws ks, by simp [renderL]⟩
    · obtain ⟨pre, post, e'⟩ := ih e
      exact ⟨render ws k' ++ pre, post, by simp [renderL, e']⟩

theorem sub_render (ws : Bool) (t m : XNode) (h : Sub t m) : ∃ pre post, render ws m = pre ++ render ws t ++ post := by
  induction h with
  | refl => exact ⟨[], [], by simp⟩
  | kid k n as ks hk _ ih =>
    obtain ⟨p1, q1, e1⟩ := ih
    obtain ⟨p2, q2, e2⟩ := renderL_mem ws k ks hk
    exact ⟨openTag ws n as ++ p2 ++ p1, q1 ++ q2 ++ closeTag n, by simp [render, e2, e1]⟩

theorem attrsBytes_mem (ws : Bool) (a : Attr) (as : List Attr) (h : a ∈ as) :
    ∃ pre post, attrsBytes ws as = pre ++ attrBytes ws a ++ post := by
  induction as with
  | nil => simp at h
  | cons a' as ih =>
    rcases List.mem_cons.mp h with e | e
    · subst e; exact ⟨[], attrsBytes ws as, by simp [attrsBytes]⟩
    · obtain ⟨pre, post, e'⟩ := ih e
      exact ⟨attrBytes ws a' ++ pre, post, by simp only [attrsBytes, List.flatMap_cons] at e' ⊢; rw [e']; simp⟩

/-- the start (or empty-element) tag of a node carries each of its attributes as ` name="escaped"` -/
theorem render_attr (ws : Bool) (t : XNode) (a : Attr) (h : a ∈ t.attrs) :
    ∃ pre post, render ws t = pre ++ attrBytes ws a ++ post := by
  cases t with
  | empty n as =>
    obtain ⟨p, q, e⟩ := attrsBytes_mem ws a as h
    exact ⟨60 :: n ++ p, q ++ [47, 62], by simp [render, emptyTag, e]⟩
  | text n as v =>
    obtain ⟨p, q, e⟩ := attrsBytes_mem ws a as h
    exact ⟨60 :: n ++ p, q ++ [62] ++ escText ws v ++ closeTag n, by simp [render, openTag, e]⟩
  | raw n as r =>
    obtain ⟨p, q, e⟩ := attrsBytes_mem ws a as h
    exact ⟨60 :: n ++ p, q ++ [62] ++ r ++ closeTag n, by simp [render, openTag, e]⟩
  | elem n as ks =>
    obtain ⟨p, q, e⟩ := attrsBytes_mem ws a as h
    exact ⟨60 :: n ++ p, q ++ [62] ++ renderL ws ks ++ closeTag n, by simp [render, openTag, e]⟩

/-! ### operations -/

theorem rawLeavesL_append (a b : List XNode) : rawLeavesL (a ++ b) = rawLeavesL a ++ rawLeavesL b := by
  induction a with
  | nil => simp [rawLeavesL]
  | cons k a ih => simp [rawLeavesL, ih]

theorem namesOkL_append (a b : List XNode) : namesOkL (a ++ b) = (namesOkL a && namesOkL b) := by
  induction a with
  | nil => simp [namesOkL]
  | cons k a ih => simp [namesOkL, ih, Bool.and_assoc]

/-- caller-supplied element trees inside an operation (`D: WriteXml` other than `Opaque`) -/
def Op.trees : Op → List XNode
  | .editConfig _ _ _ _ (.configTree t) => [t]
  | .loadConfiguration (.cfgXmlTree t _) => [t]
  | _ => []

/-- **which parameters are written raw** (everything else is an escaped text / attribute leaf) -/
def rawParams (c : Cfg) : Op → List (List Nat)
  | .get (some (.subtree f)) => [f]
  | .getConfig _ (some (.subtree f)) => [f]
  | .editConfig _ _ _ _ (.config r) => [r]
  | .editConfig _ _ _ _ (.configTree t) => rawLeaves t
  | .copyConfig _ (.config r) => [r]
  | .validate (.config r) => [r]
  | .loadConfiguration (.cfgXmlRaw r _) => [r]
  | .loadConfiguration (.cfgXmlTree t _) => rawLeaves t
  | .loadConfiguration (.cfgText p _) => if c.payloadEsc then [] else [p]
  | .loadConfiguration (.cfgJson p _) => if c.payloadEsc then [] else [p]
  | _ => []

theorem ds_namesOk (d : Datastore) : namesOk d.node = true := by cases d <;> decide
theorem ds_rawLeaves (d : Datastore) : rawLeaves d.node = [] := by cases d <;> rfl
theorem dataTag_ok (f : Fmt) (a : Act) : nameOk (dataTag f a) = true := by cases f <;> cases a <;> decide

set_option maxRecDepth 4000 in
theorem build_namesOk (c : Cfg) (op : Op) (h : ∀ t ∈ op.trees, namesOk t = true) : namesOk (build c op) = true := by
  cases op with
  | get f => rcases f with _ | (f | s) <;> simp (config := {decide := true}) [build, optNode, Filter.node, namesOk, namesOkL, attrNamesOk]
  | getConfig d f =>
    rcases f with _ | (f | s) <;>
      simp (config := {decide := true}) [build, optNode, Filter.node, ds_namesOk, namesOk, namesOkL, attrNamesOk]
  | editConfig t d e o s =>
    cases s <;>
      simp (config := {decide := true}) [build, EditSrc.node, urlNode, ds_namesOk, namesOk, namesOkL, attrNamesOk,
        namesOkL_append, apply_ite namesOkL]
    rename_i t'
    exact h t' (by simp [Op.trees])
  | copyConfig t s =>
    cases s <;> simp (config := {decide := true}) [build, Source.node, urlNode, ds_namesOk, namesOk, namesOkL, attrNamesOk]
  | deleteConfig t =>
    cases t <;> simp (config := {decide := true}) [build, urlNode, ds_namesOk, namesOk, namesOkL, attrNamesOk]
  | lock t => simp (config := {decide := true}) [build, ds_namesOk, namesOk, namesOkL, attrNamesOk]
  | unlock t => simp (config := {decide := true}) [build, ds_namesOk, namesOk, namesOkL, attrNamesOk]
  | killSession id => simp (config := {decide := true}) [build, namesOk, namesOkL, attrNamesOk]
  | commit cf to p q =>
    cases cf <;> cases p <;> cases q <;>
      simp (config := {decide := true}) [build, optNode, namesOk, namesOkL, attrNamesOk, namesOkL_append, apply_ite namesOkL]
  | cancelCommit p => cases p <;> simp (config := {decide := true}) [build, namesOk, namesOkL, attrNamesOk]
  | discardChanges => simp (config := {decide := true}) [build, namesOk, attrNamesOk]
  | validate s =>
    cases s <;> simp (config := {decide := true}) [build, Source.node, urlNode, ds_namesOk, namesOk, namesOkL, attrNamesOk]
  | closeSession => simp (config := {decide := true}) [build, namesOk, attrNamesOk]
  | closeConfiguration => simp (config := {decide := true}) [build, namesOk, attrNamesOk]
  | lockConfiguration => simp (config := {decide := true}) [build, namesOk, attrNamesOk]
  | unlockConfiguration => simp (config := {decide := true}) [build, namesOk, attrNamesOk]
  | openConfiguration t => cases t <;> simp (config := {decide := true}) [build, namesOk, namesOkL, attrNamesOk]
  | commitConfiguration ck at_ cf lg sy =>
    cases ck <;> cases at_ <;> cases cf <;> cases lg <;> rcases sy with _ | (_ | _) <;>
      simp (config := {decide := true}) [build, optNode, namesOk, namesOkL, attrNamesOk, namesOkL_append, apply_ite namesOkL]
  | loadConfiguration s =>
    cases s <;>
      simp (config := {decide := true}) [build, LoadSrc.node, payloadNode, Fmt.attr, Act.attr, dataTag_ok, namesOk, namesOkL,
        attrNamesOk, apply_ite namesOk]
    rename_i t' a
    exact h t' (by simp [Op.trees])

theorem build_rawLeaves (c : Cfg) (op : Op) : rawLeaves (build c op) = rawParams c op := by
  cases op with
  | get f => rcases f with _ | (f | s) <;> simp [build, optNode, Filter.node, rawLeaves, rawLeavesL, rawParams]
  | getConfig d f =>
    rcases f with _ | (f | s) <;> simp [build, optNode, Filter.node, ds_rawLeaves, rawLeaves, rawLeavesL, rawParams]
  | editConfig t d e o s =>
    cases s <;>
      simp [build, EditSrc.node, urlNode, ds_rawLeaves, rawLeaves, rawLeavesL, rawParams, rawLeavesL_append, apply_ite rawLeavesL]
  | copyConfig t s => cases s <;> simp [build, Source.node, urlNode, ds_rawLeaves, rawLeaves, rawLeavesL, rawParams]
  | deleteConfig t => cases t <;> simp [build, urlNode, ds_rawLeaves, rawLeaves, rawLeavesL, rawParams]
  | lock t => simp [build, ds_rawLeaves, rawLeaves, rawLeavesL, rawParams]
  | unlock t => simp [build, ds_rawLeaves, rawLeaves, rawLeavesL, rawParams]
  | killSession id => simp [build, rawLeaves, rawLeavesL, rawParams]
  | commit cf to p q =>
    cases cf <;> cases p <;> cases q <;>
      simp [build, optNode, rawLeaves, rawLeavesL, rawParams, rawLeavesL_append, apply_ite rawLeavesL]
  | cancelCommit p => cases p <;> simp [build, rawLeaves, rawLeavesL, rawParams]
  | discardChanges => rfl
  | validate s => cases s <;> simp [build, Source.node, urlNode, ds_rawLeaves, rawLeaves, rawLeavesL, rawParams]
  | closeSession => rfl
  | closeConfiguration => rfl
  | lockConfiguration => rfl
  | unlockConfiguration => rfl
  | openConfiguration t => cases t <;> simp [build, rawLeaves, rawLeavesL, rawParams]
  | commitConfiguration ck at_ cf lg sy =>
    cases ck <;> cases at_ <;> cases cf <;> cases lg <;> rcases sy with _ | (_ | _) <;>
      simp [build, optNode, rawLeaves, rawLeavesL, rawParams, rawLeavesL_append, apply_ite rawLeavesL]
  | loadConfiguration s =>
    cases s <;> simp [build, LoadSrc.node, payloadNode, rawLeaves, rawLeavesL, rawParams, apply_ite rawLeaves]

theorem request_namesOk (c : Cfg) (id : Nat) (op : Op) (h : ∀ t ∈ op.trees, namesOk t = true) :
    namesOk (request c id op) = true := by
  simp (config := {decide := true}) [request, namesOk, namesOkL, attrNamesOk, build_namesOk c op h]

theorem request_rawLeaves (c : Cfg) (id : Nat) (op : Op) : rawLeaves (request c id op) = rawParams c op := by
  simp [request, rawLeaves, rawLeavesL, build_rawLeaves]

/-! ### client hello and the agent's payload -/

theorem hello_namesOk (caps : List (List Nat)) : namesOk (hello caps) = true := by
  have : namesOkL (caps.map (XNode.text b!"capability" [])) = true := by
    induction caps with
    | nil => rfl
    | cons c cs ih => simp (config := {decide := true}) [namesOkL, namesOk, attrNamesOk, ih]
  simp (config := {decide := true}) [hello, namesOk, namesOkL, attrNamesOk, this]

theorem hello_rawLeaves (caps : List (List Nat)) : rawLeaves (hello caps) = [] := by
  have : rawLeavesL (caps.map (XNode.text b!"capability" [])) = [] := by
    induction caps with
    | nil => rfl
    | cons c cs ih => simp [rawLeavesL, rawLeaves, ih]
  simp [hello, rawLeaves, rawLeavesL, this]

theorem routeFilter_namesOk (r : Range) (d : Bool) : namesOk (routeFilter r d) = true := by
  cases d <;> simp (config := {decide := true}) [namesOkL, namesOk, attrNamesOk, routeFilter]

theorem routeFilter_rawLeaves (r : Range) (d : Bool) : rawLeaves (routeFilter r d) = [] := by
  simp [rawLeavesL, rawLeaves, routeFilter]

theorem routeFilters_namesOk (l : List Range) (d : Bool) : namesOkL (l.map (routeFilter · d)) = true := by
  induction l with
  | nil => rfl
  | cons r l ih => simp only [List.map_cons, namesOkL, routeFilter_namesOk, ih, Bool.and_self]

theorem routeFilters_rawLeaves (l : List Range) (d : Bool) : rawLeavesL (l.map (routeFilter · d)) = [] := by
  induction l with
  | nil => rfl
  | cons r l ih => simp only [List.map_cons, rawLeavesL, routeFilter_rawLeaves, ih, List.append_nil]

theorem diff_namesOk (d : Diff) : namesOk d.node = true := by
  have hdel : ∀ b : Bool, attrNamesOk (if b = true then [⟨b!"delete", b!"delete"⟩] else []) = true := by
    intro b; cases b <;> decide
  have hnil : attrNamesOk [] = true := by decide
  rcases d with ⟨fam, old, new⟩
  cases old <;>
    simp (config := {decide := true}) [Diff.node, namesOk, namesOkL, hnil, hdel, namesOkL_append, apply_ite namesOkL,
      routeFilters_namesOk]

theorem diff_rawLeaves (d : Diff) : rawLeaves d.node = [] := by
  rcases d with ⟨fam, old, new⟩
  cases old <;>
    simp [Diff.node, rawLeaves, rawLeavesL, rawLeavesL_append, apply_ite rawLeavesL, routeFilters_rawLeaves]

theorem diff_nodes_namesOk (d : Diff) : namesOkL d.nodes = true := by
  unfold Diff.nodes; split <;> simp [namesOkL, diff_namesOk]

theorem diff_nodes_rawLeaves (d : Diff) : rawLeavesL d.nodes = [] := by
  unfold Diff.nodes; split <;> simp [rawLeavesL, diff_rawLeaves]

theorem updateTree_namesOk (u : Update) : namesOk (updateTree u) = true := by
  cases u <;> simp (config := {decide := true}) [updateTree, namesOk, namesOkL, attrNamesOk, namesOkL_append,
    diff_nodes_namesOk]

theorem updateTree_rawLeaves (u : Update) : rawLeaves (updateTree u) = [] := by
  cases u <;> simp [updateTree, rawLeaves, rawLeavesL, rawLeavesL_append, diff_nodes_rawLeaves]

/-! ### the language of `escape` -/

/-- plain bytes (none of `< > & " '`) and the five predefined references -/
inductive Escaped : List Nat → Prop
  | nil : Escaped []
  | char (c : Nat) (s : List Nat) : c ≠ 60 → c ≠ 62 → c ≠ 38 → c ≠ 39 → c ≠ 34 → Escaped s → Escaped (c :: s)
  | ref (r s : List Nat) : r ∈ [b!"&lt;", b!"&gt;", b!"&amp;", b!"&apos;", b!"&quot;"] → Escaped s → Escaped (r ++ s)

theorem escaped_escape (s : List Nat) : Escaped (escape s) := by
  induction s with
  | nil => exact Escaped.nil
  | cons c s ih =>
    rw [escape_cons]
    unfold escByte
    split; · exact Escaped.ref _ _ (by simp) ih
    split; · exact Escaped.ref _ _ (by simp) ih
    split; · exact Escaped.ref _ _ (by simp) ih
    split; · exact Escaped.ref _ _ (by simp) ih
    split; · exact Escaped.ref _ _ (by simp) ih
    rename_i h1 h2 h3 h4 h5
    exact Escaped.char c _ h1 h2 h3 h4 h5 ih

end Writers
