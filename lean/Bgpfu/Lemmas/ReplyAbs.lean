import Bgpfu.Spec.ReplyGrammar
/-! Properties of the child-level reply semantics (`emptyAbs`, `dataAbs`, `bareAbs`, `loadAbs`). -/
namespace Xml

/-! #### EmptyReply -/

theorem emptyAbs_ok (th : Bool) (errors : List RpcError) (cs : List Top)
    (h : emptyAbs th errors cs = .ok .ok) :
    (∀ c ∈ cs, c.errValue? = none) ∧ (th = true ∨ (errors = [] ∧ Top.ok ∈ cs)) := by
  induction cs generalizing th errors with
  | nil =>
    simp only [emptyAbs] at h
    cases th with
    | true => simp
    | false => simp at h; split at h <;> simp_all
  | cons c cs ih =>
    cases c with
    | ok =>
      simp only [emptyAbs] at h
      split at h
      · rename_i hg
        have := ih _ _ h
        simp only [Bool.and_eq_true, Bool.not_eq_true', List.isEmpty_iff] at hg
        refine ⟨?_, Or.inr ⟨hg.2, by simp⟩⟩
        intro c hc
        rcases List.mem_cons.mp hc with rfl | hc
        · rfl
        · exact this.1 c hc
      · cases h
    | err e =>
      simp only [emptyAbs] at h
      split at h
      · rename_i hg
        have := ih _ _ h
        simp only [Bool.not_eq_true'] at hg
        rcases this.2 with h1 | ⟨h1, _⟩
        · rw [hg] at h1; cases h1
        · simp at h1
      · cases h
    | comment =>
      simp only [emptyAbs] at h
      have := ih _ _ h
      refine ⟨?_, ?_⟩
      · intro c hc
        rcases List.mem_cons.mp hc with rfl | hc
        · rfl
        · exact this.1 c hc
      · rcases this.2 with h1 | ⟨h1, h2⟩
        · exact Or.inl h1
        · exact Or.inr ⟨h1, by simp [h2]⟩
    | data s i => simp [emptyAbs] at h
    | results r i => simp [emptyAbs] at h

theorem emptyAbs_true_not_errs (errors : List RpcError) (cs : List Top) (es : List RpcError) :
    emptyAbs true errors cs ≠ .ok (.errs es) := by
  induction cs generalizing errors with
  | nil => simp [emptyAbs]
  | cons c cs ih =>
    cases c <;> simp [emptyAbs]
    exact ih _

theorem emptyAbs_errs (th : Bool) (errors : List RpcError) (cs : List Top) (es : List RpcError)
    (h : emptyAbs th errors cs = .ok (.errs es)) :
    es = errors ++ cs.filterMap Top.errValue? ∧ Top.ok ∉ cs ∧ es ≠ [] := by
  induction cs generalizing th errors with
  | nil =>
    simp only [emptyAbs] at h
    cases th with
    | true => simp at h
    | false =>
      simp only [Bool.false_eq_true, if_false] at h
      split at h
      · rename_i hg
        simp only [Except.ok.injEq, Body.errs.injEq] at h
        subst h
        simp only [Bool.not_eq_true', List.isEmpty_eq_false_iff] at hg
        simp [hg]
      · cases h
  | cons c cs ih =>
    cases c with
    | ok =>
      simp only [emptyAbs] at h
      split at h
      · exact absurd h (emptyAbs_true_not_errs _ _ _)
      · cases h
    | err e =>
      simp only [emptyAbs] at h
      split at h
      · have := ih _ _ h
        refine ⟨?_, ?_, this.2.2⟩
        · simp [this.1, Top.errValue?]
        · simp [this.2.1]
      · cases h
    | comment =>
      simp only [emptyAbs] at h
      have := ih _ _ h
      refine ⟨?_, ?_, this.2.2⟩
      · rw [this.1]; rfl
      · simp [this.2.1]
    | data s i => simp [emptyAbs] at h
    | results r i => simp [emptyAbs] at h

/-! #### DataReply -/

def Top.isData : Top → Bool
  | .data .. => true
  | _ => false

theorem dataAbs_not_ok (th : Option String) (errors : List RpcError) (cs : List Top) :
    dataAbs th errors cs ≠ .ok .ok := by
  induction cs generalizing th errors with
  | nil => simp only [dataAbs]; cases th <;> simp; split <;> simp
  | cons c cs ih =>
    cases c <;> simp only [dataAbs] <;> try simp
    · split
      · exact ih _ _
      · simp
    · split
      · exact ih _ _
      · simp
    · exact ih _ _

theorem dataAbs_data (th : Option String) (errors : List RpcError) (cs : List Top) (s : String)
    (h : dataAbs th errors cs = .ok (.data s)) :
    (∀ c ∈ cs, c.errValue? = none) ∧
      (th = some s ∨ (th = none ∧ errors = [] ∧ ∃ i, Top.data s i ∈ cs)) := by
  induction cs generalizing th errors with
  | nil =>
    simp only [dataAbs] at h
    cases th with
    | some v => simp at h; simp [h]
    | none => simp at h; split at h <;> simp_all
  | cons c cs ih =>
    cases c with
    | data s' i =>
      simp only [dataAbs] at h
      split at h
      · rename_i hg
        have := ih _ _ h
        simp only [Bool.and_eq_true, Option.isNone_iff_eq_none, List.isEmpty_iff] at hg
        refine ⟨?_, ?_⟩
        · intro c hc
          rcases List.mem_cons.mp hc with rfl | hc
          · rfl
          · exact this.1 c hc
        · rcases this.2 with h1 | ⟨h1, _⟩
          · simp only [Option.some.injEq] at h1; subst h1
            exact Or.inr ⟨hg.1, hg.2, i, by simp⟩
          · cases h1
      · cases h
    | err e =>
      simp only [dataAbs] at h
      split at h
      · rename_i hg
        have := ih _ _ h
        simp only [Option.isNone_iff_eq_none] at hg
        rcases this.2 with h1 | ⟨_, h1, _⟩
        · rw [hg] at h1; cases h1
        · simp at h1
      · cases h
    | comment =>
      simp only [dataAbs] at h
      have := ih _ _ h
      refine ⟨?_, ?_⟩
      · intro c hc
        rcases List.mem_cons.mp hc with rfl | hc
        · rfl
        · exact this.1 c hc
      · rcases this.2 with h1 | ⟨h1, h2, i, h3⟩
        · exact Or.inl h1
        · exact Or.inr ⟨h1, h2, i, by simp [h3]⟩
    | ok => simp [dataAbs] at h
    | results r i => simp [dataAbs] at h

theorem dataAbs_some_not_errs (v : String) (errors : List RpcError) (cs : List Top) (es : List RpcError) :
    dataAbs (some v) errors cs ≠ .ok (.errs es) := by
  induction cs generalizing errors with
  | nil => simp [dataAbs]
  | cons c cs ih =>
    cases c <;> simp [dataAbs]
    exact ih _

theorem dataAbs_errs (th : Option String) (errors : List RpcError) (cs : List Top) (es : List RpcError)
    (h : dataAbs th errors cs = .ok (.errs es)) :
    es = errors ++ cs.filterMap Top.errValue? ∧ (∀ c ∈ cs, c.isData = false) ∧ es ≠ [] := by
  induction cs generalizing th errors with
  | nil =>
    simp only [dataAbs] at h
    cases th with
    | some v => simp at h
    | none =>
      simp only at h
      split at h
      · rename_i hg
        simp only [Except.ok.injEq, Body.errs.injEq] at h
        subst h
        simp only [Bool.not_eq_true', List.isEmpty_eq_false_iff] at hg
        simp [hg]
      · cases h
  | cons c cs ih =>
    cases c with
    | data s' i =>
      simp only [dataAbs] at h
      split at h
      · exact absurd h (dataAbs_some_not_errs _ _ _ _)
      · cases h
    | err e =>
      simp only [dataAbs] at h
      split at h
      · have := ih _ _ h
        refine ⟨?_, ?_, this.2.2⟩
        · simp [this.1, Top.errValue?]
        · intro c hc
          rcases List.mem_cons.mp hc with rfl | hc
          · rfl
          · exact this.2.1 c hc
      · cases h
    | comment =>
      simp only [dataAbs] at h
      have := ih _ _ h
      refine ⟨?_, ?_, this.2.2⟩
      · rw [this.1]; rfl
      · intro c hc
        rcases List.mem_cons.mp hc with rfl | hc
        · rfl
        · exact this.2.1 c hc
    | ok => simp [dataAbs] at h
    | results r i => simp [dataAbs] at h

/-! #### BareReply -/

theorem bareAbs_ok (errors : List RpcError) (cs : List Top) (h : bareAbs errors cs = .ok .ok) :
    errors = [] ∧ ∀ c ∈ cs, c.errValue? = none := by
  induction cs generalizing errors with
  | nil =>
    simp only [bareAbs] at h
    split at h
    · simp_all
    · cases h
  | cons c cs ih =>
    cases c with
    | err e =>
      simp only [bareAbs] at h
      have := (ih _ h).1
      simp at this
    | comment =>
      simp only [bareAbs] at h
      have := ih _ h
      refine ⟨this.1, ?_⟩
      intro c hc
      rcases List.mem_cons.mp hc with rfl | hc
      · rfl
      · exact this.2 c hc
    | ok => simp [bareAbs] at h
    | data s i => simp [bareAbs] at h
    | results r i => simp [bareAbs] at h

theorem bareAbs_errs (errors : List RpcError) (cs : List Top) (es : List RpcError)
    (h : bareAbs errors cs = .ok (.errs es)) :
    es = errors ++ cs.filterMap Top.errValue? ∧ es ≠ [] := by
  induction cs generalizing errors with
  | nil =>
    simp only [bareAbs] at h
    split at h
    · cases h
    · rename_i hg
      simp only [Except.ok.injEq, Body.errs.injEq] at h
      subst h
      simp only [List.isEmpty_iff] at hg
      simp [hg]
  | cons c cs ih =>
    cases c with
    | err e =>
      simp only [bareAbs] at h
      have := ih _ h
      exact ⟨by simp [this.1, Top.errValue?], this.2⟩
    | comment =>
      simp only [bareAbs] at h
      have := ih _ h
      exact ⟨by rw [this.1]; rfl, this.2⟩
    | ok => simp [bareAbs] at h
    | data s i => simp [bareAbs] at h
    | results r i => simp [bareAbs] at h

/-! #### load-configuration reply -/

theorem hasErrorSeverity_append (a b : List RpcError) :
    hasErrorSeverity (a ++ b) = (hasErrorSeverity a || hasErrorSeverity b) := by
  simp [hasErrorSeverity, List.any_append]

/-- once `<ok/>` has been accepted, nothing but comments may follow inside the results element -/
theorem loadInnerAbs_this (c : RCfg) (st st' : LoadSt) (cs : List Inner) (hth : st.this = true)
    (h : loadInnerAbs c st cs = .ok st') : st' = st ∧ ∀ x ∈ cs, x.errValue? = none ∧ x ≠ .ok := by
  induction cs generalizing st with
  | nil => simp only [loadInnerAbs, Except.ok.injEq] at h; simp [h]
  | cons x cs ih =>
    cases x with
    | ok => simp [loadInnerAbs, hth] at h
    | err e => simp [loadInnerAbs, hth] at h
    | count s i => simp [loadInnerAbs, hth] at h
    | comment =>
      simp only [loadInnerAbs] at h
      have := ih st hth h
      refine ⟨this.1, ?_⟩
      intro x hx
      rcases List.mem_cons.mp hx with rfl | hx
      · simp [Inner.errValue?]
      · exact this.2 x hx

theorem loadInnerAbs_errors (c : RCfg) (st st' : LoadSt) (cs : List Inner)
    (h : loadInnerAbs c st cs = .ok st') :
    st'.errors = st.errors ++ cs.filterMap Inner.errValue? := by
  induction cs generalizing st with
  | nil => simp only [loadInnerAbs, Except.ok.injEq] at h; simp [← h]
  | cons x cs ih =>
    cases x with
    | ok =>
      have e : List.filterMap Inner.errValue? (Inner.ok :: cs) = List.filterMap Inner.errValue? cs := rfl
      simp only [loadInnerAbs] at h
      split at h
      · rw [e]; exact @ih { st with this := true } h
      · cases h
    | err e =>
      have e' : List.filterMap Inner.errValue? (Inner.err e :: cs) = e.value :: List.filterMap Inner.errValue? cs := rfl
      simp only [loadInnerAbs] at h
      split at h
      · rw [e']; have := ih _ h; simpa using this
      · cases h
    | count s i =>
      have e : List.filterMap Inner.errValue? (Inner.count s i :: cs) = List.filterMap Inner.errValue? cs := rfl
      simp only [loadInnerAbs] at h
      split at h
      · split at h
        · rename_i n _
          rw [e]; exact @ih { st with count := some n } h
        · cases h
      · cases h
    | comment =>
      have e : List.filterMap Inner.errValue? (Inner.comment :: cs) = List.filterMap Inner.errValue? cs := rfl
      simp only [loadInnerAbs] at h
      rw [e]; exact ih _ h

/-- **the repaired guard**: if the inner loop turns `this` on, no error-severity rpc-error is among
the collected errors and an `<ok/>` child is present -/
theorem loadInnerAbs_ok (st st' : LoadSt) (cs : List Inner) (hth : st.this = false)
    (h : loadInnerAbs .fixed st cs = .ok st') (h' : st'.this = true) :
    hasErrorSeverity st'.errors = false ∧ Inner.ok ∈ cs := by
  induction cs generalizing st with
  | nil => simp only [loadInnerAbs, Except.ok.injEq] at h; rw [← h, hth] at h'; cases h'
  | cons x cs ih =>
    cases x with
    | ok =>
      simp only [loadInnerAbs] at h
      split at h
      · rename_i hg
        have h2 := loadInnerAbs_this .fixed _ st' cs rfl h
        simp only [RCfg.fixed, Bool.not_true, Bool.false_or, Bool.and_eq_true, Bool.not_eq_true'] at hg
        rw [h2.1]
        exact ⟨hg.2, by simp⟩
      · cases h
    | err e =>
      simp only [loadInnerAbs] at h
      split at h
      · have := @ih { st with errors := st.errors ++ [e.value] } hth h
        exact ⟨this.1, by simp [this.2]⟩
      · cases h
    | count s i =>
      simp only [loadInnerAbs] at h
      split at h
      · split at h
        · rename_i n _
          have := @ih { st with count := some n } hth h
          exact ⟨this.1, by simp [this.2]⟩
        · cases h
      · cases h
    | comment =>
      simp only [loadInnerAbs] at h
      have := ih _ hth h
      exact ⟨this.1, by simp [this.2]⟩

theorem loadInnerAbs_this_mono (c : RCfg) (st st' : LoadSt) (cs : List Inner)
    (h : loadInnerAbs c st cs = .ok st') (hth : st'.this = false) : st.this = false := by
  cases h0 : st.this with
  | false => rfl
  | true =>
    have := (loadInnerAbs_this c st st' cs h0 h).1
    rw [this, h0] at hth; cases hth

/-- all rpc-errors the load reader can descend into: those inside results elements -/
def innerErrs (cs : List Top) : List RpcError :=
  cs.flatMap fun | .results _ ics => ics.filterMap Inner.errValue? | _ => []

def hasOkResults (cs : List Top) : Prop := ∃ r ics, Top.results r ics ∈ cs ∧ Inner.ok ∈ ics

theorem loadAbs_this (c : RCfg) (st : LoadSt) (cs : List Top) (b : Body) (hth : st.this = true)
    (h : loadAbs c st cs = .ok b) : b = .ok ∧ innerErrs cs = [] ∧ ∀ x ∈ cs, x.errValue? = none := by
  induction cs with
  | nil => simp [loadAbs, hth] at h; simp [h, innerErrs]
  | cons x cs ih =>
    cases x with
    | comment =>
      simp only [loadAbs] at h
      have := ih h
      refine ⟨this.1, by simpa [innerErrs] using this.2.1, ?_⟩
      intro x hx
      rcases List.mem_cons.mp hx with rfl | hx
      · rfl
      · exact this.2.2 x hx
    | results r ics => simp [loadAbs, hth] at h
    | ok => simp [loadAbs] at h
    | err e => simp [loadAbs] at h
    | data s i => simp [loadAbs] at h

theorem loadAbs_ok (st : LoadSt) (cs : List Top) (hth : st.this = false)
    (h : loadAbs .fixed st cs = .ok .ok) :
    hasErrorSeverity (st.errors ++ innerErrs cs) = false ∧ hasOkResults cs ∧ ∀ x ∈ cs, x.errValue? = none := by
  induction cs generalizing st with
  | nil => simp [loadAbs, hth] at h; split at h <;> (try split at h) <;> simp_all
  | cons x cs ih =>
    cases x with
    | comment =>
      simp only [loadAbs] at h
      have := ih st hth h
      refine ⟨by simpa [innerErrs] using this.1, ?_, ?_⟩
      · obtain ⟨r, ics, h1, h2⟩ := this.2.1
        exact ⟨r, ics, by simp [h1], h2⟩
      · intro x hx
        rcases List.mem_cons.mp hx with rfl | hx
        · rfl
        · exact this.2.2 x hx
    | results r ics =>
      simp only [loadAbs, hth, Bool.not_false, if_true] at h
      cases hres : loadInnerAbs .fixed st ics with
      | error e => simp [hres] at h
      | ok st' =>
        simp only [hres] at h
        have herr := loadInnerAbs_errors .fixed st st' ics hres
        cases hth' : st'.this with
        | true =>
          have h1 := loadInnerAbs_ok st st' ics hth hres hth'
          have h2 := loadAbs_this .fixed st' cs .ok hth' h
          refine ⟨?_, ⟨r, ics, by simp, h1.2⟩, ?_⟩
          · have : innerErrs (Top.results r ics :: cs) = ics.filterMap Inner.errValue? ++ innerErrs cs := by
              simp [innerErrs]
            rw [this, h2.2.1, List.append_nil, ← herr]; exact h1.1
          · intro x hx
            rcases List.mem_cons.mp hx with rfl | hx
            · rfl
            · exact h2.2.2 x hx
        | false =>
          have := ih st' hth' h
          refine ⟨?_, ?_, ?_⟩
          · have e1 : innerErrs (Top.results r ics :: cs) = ics.filterMap Inner.errValue? ++ innerErrs cs := by
              simp [innerErrs]
            rw [e1, ← List.append_assoc, ← herr]; exact this.1
          · obtain ⟨r', ics', h1, h2⟩ := this.2.1
            exact ⟨r', ics', by simp [h1], h2⟩
          · intro x hx
            rcases List.mem_cons.mp hx with rfl | hx
            · rfl
            · exact this.2.2 x hx
    | ok => simp [loadAbs] at h
    | err e => simp [loadAbs] at h
    | data s i => simp [loadAbs] at h

theorem loadAbs_errs (c : RCfg) (st : LoadSt) (cs : List Top) (es : List RpcError)
    (h : loadAbs c st cs = .ok (.errs es)) :
    es = st.errors ++ innerErrs cs ∧ ∀ x ∈ cs, x.errValue? = none := by
  induction cs generalizing st with
  | nil =>
    simp only [loadAbs] at h
    split at h
    · cases h
    · split at h
      · split at h
        · simp only [Except.ok.injEq, Body.errs.injEq] at h; simp [← h, innerErrs]
        · cases h
      · cases h
  | cons x cs ih =>
    cases x with
    | comment =>
      simp only [loadAbs] at h
      have := ih st h
      refine ⟨by simpa [innerErrs] using this.1, ?_⟩
      intro x hx
      rcases List.mem_cons.mp hx with rfl | hx
      · rfl
      · exact this.2 x hx
    | results r ics =>
      simp only [loadAbs] at h
      split at h
      · cases hres : loadInnerAbs c st ics with
        | error e => simp [hres] at h
        | ok st' =>
          simp only [hres] at h
          have herr := loadInnerAbs_errors c st st' ics hres
          have := ih st' h
          refine ⟨?_, ?_⟩
          · have e1 : innerErrs (Top.results r ics :: cs) = ics.filterMap Inner.errValue? ++ innerErrs cs := by
              simp [innerErrs]
            rw [e1, ← List.append_assoc, ← herr]; exact this.1
          · intro x hx
            rcases List.mem_cons.mp hx with rfl | hx
            · rfl
            · exact this.2 x hx
      · cases h
    | ok => simp [loadAbs] at h
    | err e => simp [loadAbs] at h
    | data s i => simp [loadAbs] at h

/-! #### a `<load-configuration-results>` child is only accepted by the load reader -/

def Top.isResults : Top → Bool
  | .results .. => true
  | _ => false

theorem emptyAbs_no_results (th : Bool) (errors : List RpcError) (cs : List Top) (b : Body)
    (h : emptyAbs th errors cs = .ok b) : ∀ c ∈ cs, c.isResults = false := by
  induction cs generalizing th errors with
  | nil => simp
  | cons c cs ih =>
    intro x hx
    cases c with
    | ok =>
      simp only [emptyAbs] at h
      split at h
      · rcases List.mem_cons.mp hx with rfl | hx
        · rfl
        · exact ih _ _ h x hx
      · cases h
    | err e =>
      simp only [emptyAbs] at h
      split at h
      · rcases List.mem_cons.mp hx with rfl | hx
        · rfl
        · exact ih _ _ h x hx
      · cases h
    | comment =>
      simp only [emptyAbs] at h
      rcases List.mem_cons.mp hx with rfl | hx
      · rfl
      · exact ih _ _ h x hx
    | data s i => simp [emptyAbs] at h
    | results r i => simp [emptyAbs] at h

theorem dataAbs_no_results (th : Option String) (errors : List RpcError) (cs : List Top) (b : Body)
    (h : dataAbs th errors cs = .ok b) : ∀ c ∈ cs, c.isResults = false := by
  induction cs generalizing th errors with
  | nil => simp
  | cons c cs ih =>
    intro x hx
    cases c with
    | data s i =>
      simp only [dataAbs] at h
      split at h
      · rcases List.mem_cons.mp hx with rfl | hx
        · rfl
        · exact ih _ _ h x hx
      · cases h
    | err e =>
      simp only [dataAbs] at h
      split at h
      · rcases List.mem_cons.mp hx with rfl | hx
        · rfl
        · exact ih _ _ h x hx
      · cases h
    | comment =>
      simp only [dataAbs] at h
      rcases List.mem_cons.mp hx with rfl | hx
      · rfl
      · exact ih _ _ h x hx
    | ok => simp [dataAbs] at h
    | results r i => simp [dataAbs] at h

theorem bareAbs_no_results (errors : List RpcError) (cs : List Top) (b : Body)
    (h : bareAbs errors cs = .ok b) : ∀ c ∈ cs, c.isResults = false := by
  induction cs generalizing errors with
  | nil => simp
  | cons c cs ih =>
    intro x hx
    cases c with
    | err e =>
      simp only [bareAbs] at h
      rcases List.mem_cons.mp hx with rfl | hx
      · rfl
      · exact ih _ h x hx
    | comment =>
      simp only [bareAbs] at h
      rcases List.mem_cons.mp hx with rfl | hx
      · rfl
      · exact ih _ h x hx
    | ok => simp [bareAbs] at h
    | data s i => simp [bareAbs] at h
    | results r i => simp [bareAbs] at h

end Xml
