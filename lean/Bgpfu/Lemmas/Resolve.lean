import Bgpfu.Lemmas.Irr
/-!
What the four resolvers compute against a server that injects no faults, in terms of the
declarative specification (`RpslSpec`): used by C11.
-/
namespace Irr
open Rpsl RpslSpec

theorem items_dataOr (db : Db) (items : List Item) : (dataOr db items).items = items := by
  unfold dataOr emptyResp
  cases items with
  | nil => by_cases h : db.emptyIsD <;> simp [h, Response.items]
  | cons i is => simp [Response.items]

theorem mem_routesOf (db : Db) (a : Nat) (q : Pfx) : q ∈ routesOf db a ↔ Routes db a q := by
  simp only [routesOf, Routes, List.mem_flatMap, List.mem_filter, beq_iff_eq]
  constructor
  · rintro ⟨e, ⟨h1, h2⟩, h3⟩; exact ⟨e, h1, h2, h3⟩
  · rintro ⟨e, h1, h2, h3⟩; exact ⟨e, ⟨h1, h2⟩, h3⟩

theorem memberRange_none (p : Pfx) : memberRange .none p = some (Range.ofPfx p) := by
  simp [memberRange, applyRange]

/-- a plain member parses the same way with and without the repair -/
theorem parseMember_plain (ranged : Bool) (p : Pfx) :
    parseMember ranged (.member p .none) = some (Range.ofPfx p) := by
  simp [parseMember]

theorem parseMember_ranged (p : Pfx) (op : RangeOp) :
    parseMember true (.member p op) = memberRange op p := by
  cases op <;> simp [parseMember, memberRange_none]

theorem filterMap_plain (ranged : Bool) (ps : List Pfx) :
    (ps.map (Item.member · .none)).filterMap (parseMember ranged) = ps.map Range.ofPfx := by
  induction ps with
  | nil => rfl
  | cons p ps ih => simp [parseMember_plain, ih]

theorem filterMap_plain' (ranged : Bool) (ps : List Pfx) :
    ps.filterMap (parseMember ranged ∘ fun x => Item.member x .none) = ps.map Range.ofPfx := by
  induction ps with
  | nil => rfl
  | cons p ps ih => simp [parseMember_plain, ih]

/-- ranges contributed by the `!g` and `!6` answers for one AS -/
def routeRanges (db : Db) (a : Nat) : List Range :=
  ((routesOf db a).filter (·.fam == .v4)).map Range.ofPfx ++
    ((routesOf db a).filter (·.fam == .v6)).map Range.ofPfx

theorem collect_routes (db : Db) (as : List Nat) :
    collect false ((as.flatMap fun a => [Query.routes4 a, Query.routes6 a]).map (serve db)) =
      as.flatMap (routeRanges db) := by
  induction as with
  | nil => rfl
  | cons a as ih =>
    simp only [List.flatMap_cons, List.map_append, collect, List.flatMap_append] at ih ⊢
    rw [ih]
    simp [serve, items_dataOr, filterMap_plain', routeRanges]

theorem mem_routeRanges (db : Db) (a : Nat) (q : Pfx) :
    (routeRanges db a).any (·.mem q) = true ↔ Routes db a q := by
  rw [← mem_routesOf]
  unfold routeRanges
  rw [List.any_append, Bool.or_eq_true]
  have h4 := PSet.ofPfxRanges ((routesOf db a).filter (·.fam == .v4)) q
  have h6 := PSet.ofPfxRanges ((routesOf db a).filter (·.fam == .v6)) q
  unfold PSet.ofRanges at h4 h6
  rw [h4, h6]
  simp only [List.mem_filter, beq_iff_eq]
  constructor
  · rintro (⟨h, _⟩ | ⟨h, _⟩) <;> exact h
  · intro h
    cases hf : q.fam with
    | v4 => exact .inl ⟨h, rfl⟩
    | v6 => exact .inr ⟨h, rfl⟩

theorem ofRanges_flatMap {β : Type} (l : List β) (f : β → List Range) (q : Pfx) :
    PSet.ofRanges (l.flatMap f) q = true ↔ ∃ x ∈ l, (f x).any (·.mem q) = true := by
  simp only [PSet.ofRanges, List.any_eq_true, List.mem_flatMap]
  constructor
  · rintro ⟨r, ⟨x, hx, hr⟩, hm⟩; exact ⟨x, hx, r, hr, hm⟩
  · rintro ⟨x, hx, r, hr, hm⟩; exact ⟨r, ⟨x, hx, hr⟩, hm⟩

/-- the state a clean evaluator is in after `beginEval` -/
theorem clean_conn {st : Ev} (h : Clean st) : ∃ c, st.conn = some c ∧ c.unread = [] := h

theorem fst_finish {α : Type} (p : Pipe) (o : Outcome α) :
    (match p.drop with | (c, ev) => (o, c, ev)).1 = o := by
  rcases p.drop with ⟨c, ev⟩; rfl

/-! ### aut-num -/

theorem resolveAutNum_ok (db : Db) (a : Nat) (st : Ev) (hst : Clean st) :
    (resolveAutNum { db := db, faults := [] } a st).1 = .ok (PSet.ofRanges (routeRanges db a)) := by
  obtain ⟨c, hc, hu⟩ := hst
  have hp := (PInv.new c hu).pushAll { db := db, faults := [] } [.routes4 a, .routes6 a]
  obtain ⟨p', h1, _⟩ := responses_spec _ hp
  rw [pushAll_unread, answers_faultfree] at h1
  simp only [resolveAutNum, withConn, hc, h1]
  rcases p'.drop with ⟨c', ev⟩
  simp only [Pipe.new, hu, List.nil_append, List.map_map]
  have := collect_routes db [a]
  simp only [List.flatMap_cons, List.flatMap_nil, List.append_nil] at this
  have e : (List.map ((fun x => x.snd) ∘ fun q => (q, serve db q)) [Query.routes4 a, Query.routes6 a])
      = [Query.routes4 a, Query.routes6 a].map (serve db) := by simp
  rw [e, this]

/-! ### as-set -/

theorem flatMap_followUps (items : List Item) :
    items.flatMap followUps =
      (items.filterMap parseAutNum).flatMap fun a => [Query.routes4 a, Query.routes6 a] := by
  induction items with
  | nil => rfl
  | cons it items ih =>
    cases h : parseAutNum it <;> simp [followUps, h, ih]

/-- the as-set resolver's result as a function of the server's answer to `!i<set>,1` -/
def asSetOutcome (db : Db) : Response → Outcome PSet
  | .err e => .err e.kind
  | r => .ok (PSet.ofRanges ((r.items.filterMap parseAutNum).flatMap (routeRanges db)))

theorem resolveAsSet_eq (db : Db) (n : String) (st : Ev) (hst : Clean st) :
    (resolveAsSet { db := db, faults := [] } n st).1 = asSetOutcome db (serve db (.asSetMembers n)) := by
  obtain ⟨c, hc, hu⟩ := hst
  obtain ⟨p1, h1, h2, h3, _⟩ := pop_first { db := db, faults := [] } (.asSetMembers n) c hu
  rw [respond_faultfree] at h1
  simp only [resolveAsSet, withConn, hc, h1]
  have tail : ∀ r : Response,
      collect false (responses (pushAll { db := db, faults := [] } (r.items.flatMap followUps) p1)).1 =
        (r.items.filterMap parseAutNum).flatMap (routeRanges db) := by
    intro r
    have hp := h2.pushAll { db := db, faults := [] } (r.items.flatMap followUps)
    obtain ⟨p', h4, _⟩ := responses_spec _ hp
    rw [pushAll_unread, answers_faultfree, h3] at h4
    rw [h4]
    simp only [List.nil_append, List.map_map]
    have e : ∀ qs : List Query, List.map ((fun x => x.snd) ∘ fun q => (q, serve db q)) qs = qs.map (serve db) := by
      intro qs; simp
    rw [e, flatMap_followUps, collect_routes]
  cases hr : serve db (.asSetMembers n) with
  | err e =>
    simp only [asSetOutcome]
  | empty =>
    simp only [asSetOutcome, tail]
  | data items =>
    simp only [asSetOutcome, tail]

/-- **the as-set resolver returns the routes of the membership closure** -/
theorem resolveAsSet_sound (db : Db) (n : String) (st : Ev) (hst : Clean st) (S : PSet)
    (h : (resolveAsSet { db := db, faults := [] } n st).1 = .ok S) (q : Pfx) :
    S q = true ↔ ∃ a, LeafOf db.asSets n a ∧ Routes db a q := by
  rw [resolveAsSet_eq db n st hst] at h
  simp only [serve] at h
  cases hl : db.asSets.lookup n with
  | none => simp [hl, asSetOutcome] at h
  | some ms =>
    simp only [hl] at h
    have key : ∀ r : Response, r = dataOr db ((expand db.asSets n).map .asn) → asSetOutcome db r = .ok S →
        (S q = true ↔ ∃ a, LeafOf db.asSets n a ∧ Routes db a q) := by
      intro r hr ho
      have hi : r.items.filterMap parseAutNum = expand db.asSets n := by
        rw [hr, items_dataOr]
        induction expand db.asSets n with
        | nil => rfl
        | cons a as ih => simp [parseAutNum, ih]
      cases r with
      | err e => simp [asSetOutcome] at ho
      | empty =>
        simp only [asSetOutcome, Outcome.ok.injEq] at ho
        rw [← ho, hi, ofRanges_flatMap]
        simp only [mem_expand, mem_routeRanges]
      | data items =>
        simp only [asSetOutcome, Outcome.ok.injEq] at ho
        rw [← ho, hi, ofRanges_flatMap]
        simp only [mem_expand, mem_routeRanges]
    exact key _ rfl h

/-! ### route-set -/

theorem responses_single (db : Db) (q : Query) (c : Conn) (hu : c.unread = []) :
    (responses (push { db := db, faults := [] } q (Pipe.new c))).1 = [serve db q] := by
  have hp := (PInv.new c hu).push { db := db, faults := [] } q
  obtain ⟨p', h1, _⟩ := responses_spec _ hp
  rw [h1]
  simp [Irr.push, Pipe.new, hu, respond_faultfree]

theorem resolveRouteSet_eq (cfg : Cfg) (db : Db) (n : String) (st : Ev) (hst : Clean st) :
    (resolveRouteSet cfg { db := db, faults := [] } n st).1 =
      .ok (PSet.ofRanges ((serve db (.routeSetMembers n)).items.filterMap (parseMember cfg.rsRange))) := by
  obtain ⟨c, hc, hu⟩ := hst
  simp only [resolveRouteSet, withConn, hc]
  simp [responses_single db _ c hu, collect]

theorem lookup_mem {β : Type} (l : List (String × β)) (k : String) (v : β) (h : l.lookup k = some v) :
    (k, v) ∈ l := by
  induction l with
  | nil => simp at h
  | cons e l ih =>
    obtain ⟨k', v'⟩ := e
    rw [List.lookup_cons] at h
    by_cases hk : k = k'
    · subst hk; simp at h; subst h; simp
    · have : (k == k') = false := by simpa using hk
      rw [this] at h
      exact List.mem_cons_of_mem _ (ih h)

theorem reach_of_lookup_none {α : Type} {g : Graph α} {s n : String} (h : Reach g s n)
    (hl : g.lookup s = none) : n = s := by
  induction h with
  | refl => rfl
  | step _ hl' _ ih => subst ih; rw [hl] at hl'; cases hl'

theorem any_filterMap_single (f : Item → Option Range) (it : Item) (q : Pfx) :
    ([it].filterMap f).any (·.mem q) = true ↔ ∃ r, f it = some r ∧ r.mem q = true := by
  cases h : f it <;> simp [h]

/-- what one expanded route-set leaf contributes -/
theorem leaf_ranges (cfg : Cfg) (db : Db) (l : RsLeaf) (q : Pfx) (hq : q.Valid)
    (hl : ∀ p op, l = .pfx p op → (cfg.rsRange = true ∧ OpWithin p.fam.maxLen op) ∨ op = .none) :
    ((rsLeafItems db l).filterMap (parseMember cfg.rsRange)).any (·.mem q) = true ↔ leafSet db l q := by
  cases l with
  | asn a =>
    simp only [rsLeafItems, leafSet, filterMap_plain]
    have := PSet.ofPfxRanges (routesOf db a) q
    unfold PSet.ofRanges at this
    rw [this, mem_routesOf]
  | pfx p op =>
    simp only [rsLeafItems, leafSet]
    have hp : parseMember cfg.rsRange (.member p op) = memberRange op p ∧ OpWithin p.fam.maxLen op := by
      rcases hl p op rfl with ⟨h1, h2⟩ | h
      · rw [h1, parseMember_ranged]; exact ⟨rfl, h2⟩
      · subst h; rw [parseMember_plain, memberRange_none]; exact ⟨rfl, trivial⟩
    rw [← member_mem op p q hq hp.2, ← hp.1]
    exact any_filterMap_single _ _ q
  | junk k =>
    -- a word that is no prefix range is not parsed into a range and denotes nothing
    simp [rsLeafItems, leafSet, parseMember]

theorem filterMap_flatMap {β γ δ : Type} (l : List β) (f : β → List γ) (g : γ → Option δ) :
    (l.flatMap f).filterMap g = l.flatMap fun x => (f x).filterMap g := by
  induction l with
  | nil => rfl
  | cons x l ih => simp [ih]

/-- **the route-set resolver returns the union of the recursively expanded members** (under the
repair, or when no member carries a range operator) -/
theorem resolveRouteSet_sound (cfg : Cfg) (db : Db) (n : String) (st : Ev) (hst : Clean st) (S : PSet)
    (hcfg : (cfg.rsRange = true ∧ DbOpsOk db) ∨ RsPlain db)
    (h : (resolveRouteSet cfg { db := db, faults := [] } n st).1 = .ok S) (q : Pfx) (hq : q.Valid) :
    S q = true ↔ ∃ l, LeafOf db.routeSets n l ∧ leafSet db l q := by
  rw [resolveRouteSet_eq cfg db n st hst] at h
  simp only [Outcome.ok.injEq] at h
  subst h
  simp only [serve]
  cases hl : db.routeSets.lookup n with
  | none =>
    simp only [Response.items, List.filterMap_nil, PSet.ofRanges, List.any_nil]
    constructor
    · intro h; cases h
    · rintro ⟨l, ⟨n', ms, h1, h2, _⟩, _⟩
      have := reach_of_lookup_none h1 hl
      subst this
      rw [hl] at h2; cases h2
  | some ms0 =>
    simp only [items_dataOr, filterMap_flatMap, ofRanges_flatMap, mem_expand]
    constructor
    · rintro ⟨l, hl1, hl2⟩
      refine ⟨l, hl1, (leaf_ranges cfg db l q hq ?_).mp hl2⟩
      intro p op e
      obtain ⟨n', ms, _, h2, h3⟩ := hl1
      have hm := lookup_mem _ _ _ h2
      rcases hcfg with ⟨h4, h5⟩ | h4
      · exact .inl ⟨h4, h5.1 _ hm _ h3 p op (by rw [e])⟩
      · exact .inr (h4 _ hm _ h3 p op (by rw [e]))
    · rintro ⟨l, hl1, hl2⟩
      refine ⟨l, hl1, (leaf_ranges cfg db l q hq ?_).mpr hl2⟩
      intro p op e
      obtain ⟨n', ms, _, h2, h3⟩ := hl1
      have hm := lookup_mem _ _ _ h2
      rcases hcfg with ⟨h4, h5⟩ | h4
      · exact .inl ⟨h4, h5.1 _ hm _ h3 p op (by rw [e])⟩
      · exact .inr (h4 _ hm _ h3 p op (by rw [e]))

/-! ### filter-set -/

theorem firstMpFilter_objs (objs : List FsObj) :
    firstMpFilter (objs.map .obj) = (objs.filterMap (·.mpFilter)).head? := by
  induction objs with
  | nil => rfl
  | cons o objs ih =>
    cases h : o.mpFilter <;> simp [firstMpFilter, h, ih]

theorem resolveFilterSet_eq (db : Db) (n : String) (st : Ev) (hst : Clean st) :
    (resolveFilterSet { db := db, faults := [] } n st).1 =
      .ok ((firstMpFilter (serve db (.filterSet n)).items).getD (.not .any)) := by
  obtain ⟨c, hc, hu⟩ := hst
  simp only [resolveFilterSet, withConn, hc]
  simp [responses_single db _ c hu]

/-- the filter-set resolver returns the stored filter, or `NOT ANY` when there is none -/
theorem resolveFilterSet_sound (db : Db) (n : String) (st : Ev) (hst : Clean st) (e : Expr)
    (h : (resolveFilterSet { db := db, faults := [] } n st).1 = .ok e) :
    FilterOf db n e ∨ ((∀ e', ¬ FilterOf db n e') ∧ e = .not .any) := by
  rw [resolveFilterSet_eq db n st hst] at h
  simp only [Outcome.ok.injEq] at h
  subst h
  simp only [serve]
  cases hl : db.filterSets.lookup n with
  | none =>
    right
    refine ⟨?_, by simp [Response.items, firstMpFilter]⟩
    rintro e' ⟨objs, h1, _⟩
    rw [hl] at h1; cases h1
  | some objs =>
    simp only [items_dataOr, firstMpFilter_objs]
    cases hh : (objs.filterMap (·.mpFilter)).head? with
    | none =>
      right
      refine ⟨?_, rfl⟩
      rintro e' ⟨objs', h1, h2⟩
      rw [hl] at h1; cases h1
      rw [hh] at h2; cases h2
    | some e =>
      left
      exact ⟨objs, hl, hh⟩

theorem FilterOf.unique {db : Db} {n : String} {e e' : Expr} (h : FilterOf db n e) (h' : FilterOf db n e') :
    e = e' := by
  obtain ⟨o, h1, h2⟩ := h
  obtain ⟨o', h1', h2'⟩ := h'
  rw [h1] at h1'; cases h1'
  rw [h2] at h2'; cases h2'
  rfl

theorem FilterOf.opsOk {db : Db} {n : String} {e : Expr} (h : FilterOf db n e) (hdb : DbOpsOk db) :
    OpsOk e := by
  obtain ⟨objs, h1, h2⟩ := h
  have hm := lookup_mem _ _ _ h1
  have : e ∈ objs.filterMap (·.mpFilter) := List.mem_of_head? h2
  obtain ⟨o, ho, he⟩ := List.mem_filterMap.mp this
  exact hdb.2 _ hm o ho e he

end Irr
