import Bgpfu.Model.Daemon
/-! Helper lemmas for C19 (daemon loop): decomposition of timelines, the `backoff` invariant,
arithmetic of the back-off sequence. -/
set_option linter.unusedSimpArgs false
namespace Daemon

/-! ### `accepts` as propositions -/

theorem accepts_tick (s : State) (t : Nat) :
    (accepts s (.tick t) = true) = (s.phase = .waiting ∧ t = s.deadline ∧ s.now ≤ t) := by
  simp [accepts, and_assoc]

theorem accepts_runDone (s : State) (t : Nat) (ok : Bool) :
    (accepts s (.runDone t ok) = true) = (s.phase = .running ∧ s.now ≤ t) := by
  simp [accepts]

theorem accepts_hup (s : State) (t : Nat) :
    (accepts s (.hup t) = true) = (s.phase = .waiting ∧ s.now ≤ t ∧ t ≤ s.deadline) := by
  simp [accepts, and_assoc]

theorem accepts_int (s : State) (t : Nat) :
    (accepts s (.int t) = true) = (s.phase = .waiting ∧ s.now ≤ t ∧ t ≤ s.deadline) := by
  simp [accepts, and_assoc]

theorem accepts_term (s : State) (t : Nat) :
    (accepts s (.term t) = true) = (s.phase = .waiting ∧ s.now ≤ t ∧ t ≤ s.deadline) := by
  simp [accepts, and_assoc]

/-- turn `accepts (next … s e) e' = true` into its arithmetic content -/
macro "accepts_prop" "at" h:ident : tactic =>
  `(tactic| (simp only [accepts_tick, accepts_runDone, accepts_hup, accepts_int, accepts_term] at $h:ident
             try simp only [next] at $h:ident))

/-! ### timelines -/

theorem trace_append (c : Cfg) (p : Nat) (s : State) (xs ys : List Ev) :
    trace c p s (xs ++ ys) = trace c p s xs ++ trace c p (run c p s xs) ys := by
  induction xs generalizing s with
  | nil => simp [trace, run]
  | cons e es ih =>
    simp only [List.cons_append, trace, run, step]
    split <;> simp [ih]

theorem run_append (c : Cfg) (p : Nat) (s : State) (xs ys : List Ev) :
    run c p s (xs ++ ys) = run c p (run c p s xs) ys := by
  induction xs generalizing s with
  | nil => simp [run]
  | cons e es ih => simp [run, ih]

/-- A timeline that splits as `pre ++ rest` comes from an event list that splits accordingly. -/
theorem trace_split (c : Cfg) (p : Nat) (s : State) (evs : List Ev) (pre rest : List Ev)
    (h : trace c p s evs = pre ++ rest) :
    ∃ evs₁ evs₂, evs = evs₁ ++ evs₂ ∧ trace c p s evs₁ = pre ∧ trace c p (run c p s evs₁) evs₂ = rest := by
  induction evs generalizing s pre with
  | nil =>
    simp only [trace] at h
    have h' := h.symm
    simp only [List.append_eq_nil_iff] at h'
    exact ⟨[], [], rfl, by simp [trace, h'.1], by simp [trace, h'.2]⟩
  | cons e es ih =>
    cases pre with
    | nil => exact ⟨[], e :: es, rfl, by simp [trace], by simpa [run] using h⟩
    | cons a pre' =>
      simp only [trace] at h
      by_cases hacc : accepts s e = true
      · simp only [hacc, if_true, List.cons_append, List.cons.injEq] at h
        obtain ⟨rfl, h⟩ := h
        obtain ⟨evs₁, evs₂, h1, h2, h3⟩ := ih (next c p s e) pre' h
        refine ⟨e :: evs₁, evs₂, by simp [h1], ?_, ?_⟩
        · simp [trace, hacc, h2]
        · simpa [run, step, hacc] using h3
      · simp only [hacc] at h
        obtain ⟨evs₁, evs₂, h1, h2, h3⟩ := ih s (a :: pre') h
        refine ⟨e :: evs₁, evs₂, by simp [h1], ?_, ?_⟩
        · simp [trace, hacc, h2]
        · simpa [run, step, hacc] using h3

/-- The first event of a timeline was accepted in the initial state, and the rest is a timeline of
the successor state. -/
theorem trace_head (c : Cfg) (p : Nat) (s : State) (evs : List Ev) (e : Ev) (rest : List Ev)
    (h : trace c p s evs = e :: rest) :
    accepts s e = true ∧ ∃ evs', trace c p (next c p s e) evs' = rest := by
  induction evs with
  | nil => simp [trace] at h
  | cons a es ih =>
    simp only [trace] at h
    by_cases hacc : accepts s a = true
    · simp only [hacc, if_true, List.cons.injEq] at h
      obtain ⟨rfl, h2⟩ := h
      exact ⟨hacc, es, h2⟩
    · simp only [hacc] at h
      exact ih h

/-- only accepted events appear, so a timeline replays to itself -/
theorem trace_trace (c : Cfg) (p : Nat) (s : State) (evs : List Ev) :
    trace c p s (trace c p s evs) = trace c p s evs := by
  induction evs generalizing s with
  | nil => simp [trace]
  | cons e es ih =>
    by_cases hacc : accepts s e = true
    · simp [trace, hacc, ih]
    · simp [trace, hacc, ih]

/-- replaying only the observed events gives the same state -/
theorem run_trace (c : Cfg) (p : Nat) (s : State) (evs : List Ev) :
    run c p s (trace c p s evs) = run c p s evs := by
  induction evs generalizing s with
  | nil => simp [trace]
  | cons e es ih =>
    by_cases hacc : accepts s e = true
    · simp [trace, run, step, hacc, ih]
    · simp [trace, run, step, hacc, ih]

/-- An event in a timeline was accepted in the state reached by the timeline before it. -/
theorem trace_at (c : Cfg) (p : Nat) (s : State) (evs pre : List Ev) (a : Ev) (post : List Ev)
    (h : trace c p s evs = pre ++ a :: post) :
    ∃ evs₁ evs', trace c p s evs₁ = pre ∧ accepts (run c p s evs₁) a = true ∧
      trace c p (next c p (run c p s evs₁) a) evs' = post := by
  obtain ⟨evs₁, evs₂, -, h2, h3⟩ := trace_split c p s evs pre _ h
  obtain ⟨ha, evs', h4⟩ := trace_head _ _ _ _ _ _ h3
  exact ⟨evs₁, evs', h2, ha, h4⟩

/-- Two adjacent events of a timeline: the second was accepted in the successor state of the first. -/
theorem trace_pair (c : Cfg) (p : Nat) (s : State) (evs pre : List Ev) (a b : Ev) (post : List Ev)
    (h : trace c p s evs = pre ++ a :: b :: post) :
    ∃ evs₁, trace c p s evs₁ = pre ∧ accepts (run c p s evs₁) a = true ∧
      accepts (next c p (run c p s evs₁) a) b = true := by
  obtain ⟨evs₁, evs', h2, ha, h4⟩ := trace_at c p s evs pre a _ h
  obtain ⟨hb, -⟩ := trace_head _ _ _ _ _ _ h4
  exact ⟨evs₁, h2, ha, hb⟩

/-! ### streaks -/

theorem streakFrom_zero (xs : List Ev) (h : ∀ t, Ev.runDone t false ∉ xs) : streakFrom 0 xs = 0 := by
  induction xs with
  | nil => simp [streakFrom]
  | cons e es ih =>
    have hes : ∀ t, Ev.runDone t false ∉ es := fun t ht => h t (List.mem_cons_of_mem _ ht)
    cases e with
    | runDone t ok =>
      cases ok with
      | true => simp only [streakFrom]; exact ih hes
      | false => exact absurd (List.mem_cons_self) (h t)
    | _ => simp only [streakFrom]; exact ih hes


theorem streakFrom_append (k : Nat) (xs ys : List Ev) :
    streakFrom k (xs ++ ys) = streakFrom (streakFrom k xs) ys := by
  induction xs generalizing k with
  | nil => simp [streakFrom]
  | cons e es ih =>
    cases e with
    | runDone t ok => cases ok <;> simp [streakFrom, ih]
    | _ => simp [streakFrom, ih]

/-- a timeline segment without a successful run does not shorten the streak -/
theorem streakFrom_ge (k : Nat) (xs : List Ev) (h : ∀ t, Ev.runDone t true ∉ xs) :
    k ≤ streakFrom k xs := by
  induction xs generalizing k with
  | nil => simp [streakFrom]
  | cons e es ih =>
    have hes : ∀ t, Ev.runDone t true ∉ es := fun t ht => h t (List.mem_cons_of_mem _ ht)
    cases e with
    | runDone t ok =>
      cases ok with
      | true => exact absurd (List.mem_cons_self) (h t)
      | false => simp only [streakFrom]; have := ih (k + 1) hes; omega
    | _ => simp only [streakFrom]; exact ih k hes

/-! ### the `backoff` variable along a timeline -/

/-- **Invariant**: `backoff` is the back-off sequence at the current streak of failures. -/
theorem backoff_run (c : Cfg) (p : Nat) (s : State) (k : Nat) (evs : List Ev)
    (h : s.backoff = backoffAt c p k) :
    (run c p s evs).backoff = backoffAt c p (streakFrom k (trace c p s evs)) := by
  induction evs generalizing s k with
  | nil => simpa [run, trace, streakFrom] using h
  | cons e es ih =>
    by_cases hacc : accepts s e = true
    · simp only [run, step, trace, hacc, if_true]
      cases e with
      | runDone t ok =>
        cases ok with
        | true => simp only [streakFrom]; exact ih _ 0 (by simp [next, backoffAt])
        | false => simp only [streakFrom]; exact ih _ (k + 1) (by simp [next, backoffAt, h])
      | tick t => simp only [streakFrom]; exact ih _ k (by simpa [next] using h)
      | hup t => simp only [streakFrom]; exact ih _ k (by simpa [next] using h)
      | int t => simp only [streakFrom]; exact ih _ k (by simpa [next] using h)
      | term t => simp only [streakFrom]; exact ih _ k (by simpa [next] using h)
    · simp only [run, step, trace, hacc]
      exact ih s k h

theorem backoff_init (c : Cfg) (p : Nat) (evs : List Ev) :
    (run c p init evs).backoff = backoffAt c p (streak (trace c p init evs)) :=
  backoff_run c p init 0 evs (by simp [init, backoffAt])

/-! ### arithmetic of the back-off sequence -/

theorem cap_fixed (p : Nat) : cap .fixed p = max p minBackoff := rfl

theorem cap_pinned (p : Nat) : cap .pinned p = p := rfl

theorem cap_le (c : Cfg) (p : Nat) : cap c p ≤ max minBackoff p := by
  unfold cap; split <;> omega

theorem cap_ge (c : Cfg) (p : Nat) : min minBackoff p ≤ cap c p := by
  unfold cap; split <;> omega

theorem backoffAt_le (c : Cfg) (p n : Nat) : backoffAt c p n ≤ max minBackoff p := by
  induction n with
  | zero => simp only [backoffAt]; omega
  | succ n _ =>
    simp only [backoffAt, backoffNext]
    have := cap_le c p
    omega

theorem backoffAt_ge (c : Cfg) (p n : Nat) : min minBackoff p ≤ backoffAt c p n := by
  induction n with
  | zero => simp only [backoffAt]; omega
  | succ n ih =>
    simp only [backoffAt, backoffNext]
    have := cap_ge c p
    omega

/-- the repaired rule never goes below one minute -/
theorem backoffAt_fixed_ge_min (p n : Nat) : minBackoff ≤ backoffAt .fixed p n := by
  induction n with
  | zero => simp [backoffAt]
  | succ n ih =>
    simp only [backoffAt, backoffNext, cap_fixed]
    omega

theorem backoffAt_fixed_le_cap (p n : Nat) : backoffAt .fixed p n ≤ max p minBackoff := by
  induction n with
  | zero => simp only [backoffAt]; omega
  | succ n _ =>
    simp only [backoffAt, backoffNext, cap_fixed]
    omega

theorem backoffAt_fixed_step (p n : Nat) : backoffAt .fixed p n ≤ backoffAt .fixed p (n + 1) := by
  have h1 := backoffAt_fixed_le_cap p n
  simp only [backoffAt, backoffNext, cap_fixed]
  omega

theorem backoffAt_fixed_mono (p : Nat) {m n : Nat} (h : m ≤ n) :
    backoffAt .fixed p m ≤ backoffAt .fixed p n := by
  induction n with
  | zero => have : m = 0 := by omega
            subst this; exact Nat.le_refl _
  | succ n ih =>
    by_cases hm : m = n + 1
    · subst hm; exact Nat.le_refl _
    · exact Nat.le_trans (ih (by omega)) (backoffAt_fixed_step p n)

/-- closed form of the repaired rule: doubling from one minute, capped at `max period 60 s` -/
theorem backoffAt_fixed_closed (p n : Nat) :
    backoffAt .fixed p n = min (max p minBackoff) (minBackoff * 2 ^ n) := by
  induction n with
  | zero => simp only [backoffAt, Nat.pow_zero]; omega
  | succ n ih =>
    have e : minBackoff * 2 ^ (n + 1) = 2 * (minBackoff * 2 ^ n) := by
      rw [Nat.pow_succ, ← Nat.mul_assoc, Nat.mul_comm]
    simp only [backoffAt, backoffNext, cap_fixed, ih]
    rw [e]
    generalize minBackoff * 2 ^ n = y
    omega

/-- below the cap the repaired rule grows strictly -/
theorem backoffAt_fixed_strict (p n : Nat) (h : backoffAt .fixed p n < max p minBackoff) :
    backoffAt .fixed p n < backoffAt .fixed p (n + 1) := by
  have h1 := backoffAt_fixed_ge_min p n
  simp only [backoffAt, backoffNext, cap_fixed]
  simp only [minBackoff] at *
  omega

end Daemon
