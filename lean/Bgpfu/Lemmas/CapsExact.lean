import Bgpfu.Model.Caps
/-! Specification of the text-splitting helpers of the capability parser (`str::split`,
`str::split_once`) and of the `:url:1.0` scheme list; a case-analysis principle for `if` chains.
Used by the exactness theorems of C09 (`Caps.classify`) and C12 (`Xml.classifyCapability`).
Core Lean only. -/
namespace Caps

/-- an `if` that evaluates to `x` took one of its two branches -/
theorem ite_cases {α : Type} {c : Prop} [Decidable c] {a b x : α} (h : (if c then a else b) = x) :
    (c ∧ a = x) ∨ (¬ c ∧ b = x) := by
  by_cases hc : c
  · exact .inl ⟨hc, by rw [if_pos hc] at h; exact h⟩
  · exact .inr ⟨hc, by rw [if_neg hc] at h; exact h⟩

/-- the pieces written one after the other with the separator `c` between them — what
`str::split(c)` takes apart -/
def joinSep (c : Char) : List Str → Str
  | [] => []
  | [p] => p
  | p :: q :: ps => p ++ c :: joinSep c (q :: ps)

theorem splitOn_ne_nil (c : Char) (l : Str) : splitOn c l ≠ [] := by
  cases l with
  | nil => simp [splitOn]
  | cons x xs =>
    simp only [splitOn]
    split
    · simp
    · split <;> simp

theorem splitOn_cons_of_ne {c x : Char} (h : x ≠ c) (xs : Str) :
    ∃ p ps, splitOn c xs = p :: ps ∧ splitOn c (x :: xs) = (x :: p) :: ps := by
  cases hs : splitOn c xs with
  | nil => exact absurd hs (splitOn_ne_nil c xs)
  | cons p ps => exact ⟨p, ps, rfl, by simp [splitOn, h, hs]⟩

/-- no piece contains the separator -/
theorem splitOn_free (c : Char) (l : Str) : ∀ p ∈ splitOn c l, c ∉ p := by
  induction l with
  | nil => simp [splitOn]
  | cons x xs ih =>
    by_cases hx : x = c
    · subst hx
      simp only [splitOn, if_true, List.mem_cons]
      rintro p (rfl | hp)
      · simp
      · exact ih p hp
    · obtain ⟨p, ps, h1, h2⟩ := splitOn_cons_of_ne hx xs
      rw [h2]
      rw [h1] at ih
      intro q hq
      simp only [List.mem_cons] at hq
      rcases hq with rfl | hq
      · have := ih p (by simp)
        simp only [List.mem_cons, not_or]
        exact ⟨fun h => hx h.symm, this⟩
      · exact ih q (by simp [hq])

/-- … and joining the pieces with the separator gives the text back -/
theorem joinSep_splitOn (c : Char) (l : Str) : joinSep c (splitOn c l) = l := by
  induction l with
  | nil => simp [splitOn, joinSep]
  | cons x xs ih =>
    by_cases hx : x = c
    · subst hx
      simp only [splitOn, if_true]
      cases hs : splitOn x xs with
      | nil => exact absurd hs (splitOn_ne_nil x xs)
      | cons p ps => rw [hs] at ih; simp [joinSep, ih]
    · obtain ⟨p, ps, h1, h2⟩ := splitOn_cons_of_ne hx xs
      rw [h2]
      rw [h1] at ih
      cases ps with
      | nil => simp only [joinSep] at ih ⊢; rw [ih]
      | cons q qs => simp only [joinSep, List.cons_append] at ih ⊢; rw [ih]

/-- `str::split` is the only way of cutting a text into separator-free pieces -/
theorem splitOn_joinSep (c : Char) (ps : List Str) (hne : ps ≠ []) (hfree : ∀ p ∈ ps, c ∉ p) :
    splitOn c (joinSep c ps) = ps := by
  induction ps with
  | nil => exact absurd rfl hne
  | cons p ps ih =>
    have hp : c ∉ p := hfree p (by simp)
    have hps : ∀ q ∈ ps, c ∉ q := fun q hq => hfree q (by simp [hq])
    cases ps with
    | nil =>
      simp only [joinSep]
      clear ih hfree hne hps
      induction p with
      | nil => simp [splitOn]
      | cons x xs ihx =>
        simp only [List.mem_cons, not_or] at hp
        have hx : x ≠ c := fun h => hp.1 h.symm
        simp [splitOn, hx, ihx hp.2]
    | cons q qs =>
      have ih' := ih (by simp) hps
      simp only [joinSep] at ih' ⊢
      clear ih hfree hne hps
      induction p with
      | nil => simp [splitOn, ih']
      | cons x xs ihx =>
        simp only [List.mem_cons, not_or] at hp
        have hx : x ≠ c := fun h => hp.1 h.symm
        simp only [List.cons_append, splitOn, hx, if_false]
        rw [ihx hp.2]

theorem splitOn_eq_iff (c : Char) (l : Str) (ps : List Str) :
    splitOn c l = ps ↔ ps ≠ [] ∧ (∀ p ∈ ps, c ∉ p) ∧ joinSep c ps = l := by
  constructor
  · rintro rfl
    exact ⟨splitOn_ne_nil c l, splitOn_free c l, joinSep_splitOn c l⟩
  · rintro ⟨h1, h2, rfl⟩
    exact splitOn_joinSep c ps h1 h2

/-- `str::split_once(c)`: the cut at the first `c` -/
theorem splitOnce_eq_some_iff (c : Char) (l a b : Str) :
    splitOnce c l = some (a, b) ↔ c ∉ a ∧ l = a ++ c :: b := by
  induction l generalizing a with
  | nil => simp [splitOnce]
  | cons x xs ih =>
    by_cases hx : x = c
    · subst hx
      simp only [splitOnce, if_true, Option.some.injEq, Prod.mk.injEq]
      constructor
      · rintro ⟨rfl, rfl⟩; simp
      · rintro ⟨h1, h2⟩
        cases a with
        | nil => simp at h2; exact ⟨rfl, h2⟩
        | cons y ys => simp at h2 h1; exact absurd h2.1 (fun h => h1.1 h)
    · simp only [splitOnce, hx, if_false, Option.map_eq_some_iff, Prod.mk.injEq, Prod.exists]
      constructor
      · rintro ⟨a', b', h, rfl, rfl⟩
        obtain ⟨h1, h2⟩ := (ih a').1 h
        have hcx : ¬ c = x := fun h => hx h.symm
        exact ⟨by simp [h1, hcx], by simp [h2]⟩
      · rintro ⟨h1, h2⟩
        cases a with
        | nil => simp at h2; exact absurd h2.1 hx
        | cons y ys =>
          simp only [List.cons_append, List.cons.injEq] at h2
          simp only [List.mem_cons, not_or] at h1
          exact ⟨ys, b, (ih ys).2 ⟨h1.2, h2.2⟩, by simp [h2.1], rfl⟩

theorem splitOnce_eq_none_iff (c : Char) (l : Str) : splitOnce c l = none ↔ c ∉ l := by
  induction l with
  | nil => simp [splitOnce]
  | cons x xs ih =>
    by_cases hx : x = c
    · simp [splitOnce, hx]
    · have hcx : ¬ c = x := fun h => hx h.symm
      simp [splitOnce, hx, ih, hcx]

end Caps

namespace Caps

/-- the five components are exactly these: in particular **no** query and **no** fragment — a
present but empty one (`some []`, as in `…base:1.0#` or `…base:1.0?`) does not qualify -/
def UriParts.Is (p : UriParts) (scheme : String) (authority : Option String) (path : String) : Prop :=
  p.scheme = scheme.toList ∧ p.authority = authority.map String.toList ∧ p.path = path.toList ∧
    p.query = none ∧ p.fragment = none

instance (p : UriParts) (s : String) (a : Option String) (pa : String) : Decidable (p.Is s a pa) := by
  unfold UriParts.Is; infer_instance

set_option hygiene false in
/-- proves `classify raw p = <exact capability> ↔ p.Is …` by walking down the `if` chain -/
macro "caps_exact" : tactic => `(tactic| (
  constructor
  · intro h
    unfold classify at h
    dsimp only at h
    unfold UriParts.Is
    repeat' (replace h := ite_cases h; rcases h with ⟨hc, h⟩ | ⟨_, h⟩)
    all_goals first | (cases h; done) | (split at h <;> cases h; done) | skip
    all_goals (
      simp only [Bool.and_eq_true, beq_iff_eq] at hc
      refine ⟨?_, ?_, ?_, ?_, ?_⟩ <;> first | (simp only [hc]; done) | (simp only [hc]; decide))
  · rintro ⟨h1, h2, h3, h4, h5⟩
    simp [classify, h1, h2, h3, h4, h5, urnCap]))

/-! ### the scheme list of `:url:1.0` -/

/-- **the schemes are exactly the comma-separated values of the parameters named `scheme`**: `x` is
a scheme of the query iff one of its `&`-separated parameters is `scheme=` followed by a value one
of whose `,`-separated pieces is `x`. (`splitOn c` is *the* decomposition into `c`-free pieces
separated by `c`: `splitOn_eq_iff`.) -/
theorem mem_urlSchemes_iff (q x : Str) :
    x ∈ urlSchemes q ↔
      ∃ param ∈ splitOn '&' q, ∃ value, param = "scheme=".toList ++ value ∧ x ∈ splitOn ',' value := by
  unfold urlSchemes
  simp only [List.mem_flatMap]
  constructor
  · rintro ⟨param, hp, hx⟩
    refine ⟨param, hp, ?_⟩
    split at hx
    · next k v hs =>
      split at hx
      · next hk =>
        subst hk
        obtain ⟨_, h2⟩ := (splitOnce_eq_some_iff _ _ _ _).1 hs
        exact ⟨v, by rw [h2]; rfl, hx⟩
      · cases hx
    · cases hx
  · rintro ⟨param, hp, value, rfl, hx⟩
    refine ⟨_, hp, ?_⟩
    have : splitOnce '=' ("scheme=".toList ++ value) = some ("scheme".toList, value) :=
      (splitOnce_eq_some_iff _ _ _ _).2 ⟨by decide, rfl⟩
    rw [this]
    simpa using hx

/-- the same, declaratively: for a query written as `&`-free parameters joined by `&` -/
theorem mem_urlSchemes_joinSep_iff (params : List Str) (hne : params ≠ []) (hfree : ∀ p ∈ params, '&' ∉ p) (x : Str) :
    x ∈ urlSchemes (joinSep '&' params) ↔
      ∃ value, ("scheme=".toList ++ value) ∈ params ∧ x ∈ splitOn ',' value := by
  rw [mem_urlSchemes_iff, splitOn_joinSep '&' params hne hfree]
  constructor
  · rintro ⟨_, hp, value, rfl, hx⟩; exact ⟨value, hp, hx⟩
  · rintro ⟨value, hp, hx⟩; exact ⟨_, hp, value, rfl, hx⟩

/-- a parameter whose name is not exactly `scheme` (`fallback-scheme=…`, `xscheme=…`, `scheme` without
`=`, `Scheme=…`) contributes nothing: if no parameter starts with `scheme=`, there are no schemes -/
theorem urlSchemes_eq_nil (q : Str) (h : ∀ param ∈ splitOn '&' q, ¬ "scheme=".toList <+: param) :
    urlSchemes q = [] := by
  apply List.eq_nil_iff_forall_not_mem.2
  intro x hx
  obtain ⟨param, hp, value, rfl, _⟩ := (mem_urlSchemes_iff q x).1 hx
  exact h _ hp (List.prefix_append _ _)

/-- … and other parameters never change what the `scheme` parameters contribute -/
theorem urlSchemes_append_other (params other : List Str) (hne : params ≠ [])
    (hfree : ∀ p ∈ params ++ other, '&' ∉ p) (hother : ∀ p ∈ other, ¬ "scheme=".toList <+: p) (x : Str) :
    x ∈ urlSchemes (joinSep '&' (params ++ other)) ↔ x ∈ urlSchemes (joinSep '&' params) := by
  rw [mem_urlSchemes_joinSep_iff _ (by simp [hne]) hfree,
    mem_urlSchemes_joinSep_iff _ hne (fun p hp => hfree p (by simp [hp]))]
  constructor
  · rintro ⟨value, hp, hx⟩
    rcases List.mem_append.1 hp with hp | hp
    · exact ⟨value, hp, hx⟩
    · exact absurd (List.prefix_append _ _) (hother _ hp)
  · rintro ⟨value, hp, hx⟩; exact ⟨value, List.mem_append_left _ hp, hx⟩

end Caps
