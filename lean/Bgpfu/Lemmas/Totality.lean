import Bgpfu.Model.Hello
/-! Totality / bounded consumption of every reader loop (C14): a loop that returns `ok (v, rest)`
has consumed at least one event, and no loop runs out of fuel when `fuel > evs.length`. -/
namespace Xml

theorem skipToEnd_shorter (name : String) (evs rest : List Ev) (d : Nat)
    (h : skipToEnd name evs d = .ok rest) : rest.length < evs.length := by
  fun_induction skipToEnd name evs d <;> grind

theorem skipToEnd_not_fuel (name : String) (evs : List Ev) (d : Nat) :
    skipToEnd name evs d ≠ .error .fuel := by
  fun_induction skipToEnd name evs d <;> grind

theorem readText_shorter (t : Tag) (evs rest : List Ev) (s : String)
    (h : readText t evs = .ok (s, rest)) : rest.length < evs.length := by
  unfold readText at h
  split at h
  · cases h
  · rename_i r hr
    split at h
    · simp only [Except.ok.injEq, Prod.mk.injEq] at h
      rw [← h.2]; exact skipToEnd_shorter _ _ _ _ hr
    · cases h

theorem readText_not_fuel (t : Tag) (evs : List Ev) : readText t evs ≠ .error .fuel := by
  unfold readText
  split
  · rename_i e he; intro h; simp only [Except.error.injEq] at h; subst h; exact skipToEnd_not_fuel _ _ _ he
  · split <;> simp

theorem readText_err (t : Tag) (evs : List Ev) (e : Err) (h : readText t evs = .error e) : e ≠ .fuel := by
  intro he; subst he; exact readText_not_fuel t evs h

/-- the result of a loop on `evs` with `fuel`: consumed something; never out of fuel if fuel suffices -/
def Good {α} (evs : List Ev) (fuel : Nat) (r : Except Err (α × List Ev)) : Prop :=
  (∀ v rest, r = .ok (v, rest) → rest.length < evs.length) ∧ (evs.length < fuel → r ≠ .error .fuel)

theorem infoLoop_good (fuel : Nat) (endRaw : String) (acc : List InfoElem) (evs : List Ev) :
    Good evs fuel (infoLoop fuel endRaw acc evs) := by
  fun_induction infoLoop fuel endRaw acc evs <;> simp_all [Good] <;>
    grind [→ readText_shorter, → readText_err]

theorem infoLoop_shorter (fuel : Nat) (endRaw : String) (acc : List InfoElem) (evs rest : List Ev) (v : List InfoElem)
    (h : infoLoop fuel endRaw acc evs = .ok (v, rest)) : rest.length < evs.length :=
  (infoLoop_good fuel endRaw acc evs).1 v rest h

theorem infoLoop_err (fuel : Nat) (endRaw : String) (acc : List InfoElem) (evs : List Ev)
    (h : infoLoop fuel endRaw acc evs = .error .fuel) : fuel ≤ evs.length := by
  have := (infoLoop_good fuel endRaw acc evs).2
  grind

theorem finish_err (acc : ErrAcc) (e : Err) (h : acc.finish = .error e) : e ≠ .fuel := by
  unfold ErrAcc.finish at h
  split at h
  · cases h
  · cases h; simp

theorem errorLoop_good (fuel : Nat) (endRaw : String) (acc : ErrAcc) (evs : List Ev) :
    Good evs fuel (errorLoop fuel endRaw acc evs) := by
  fun_induction errorLoop fuel endRaw acc evs <;> simp_all [Good] <;>
    grind [→ readText_shorter, → readText_err, → infoLoop_shorter, → infoLoop_err, → finish_err]

theorem readRpcError_shorter (fuel : Nat) (t : Tag) (evs rest : List Ev) (v : RpcError)
    (h : readRpcError fuel t evs = .ok (v, rest)) : rest.length < evs.length :=
  (errorLoop_good fuel t.raw {} evs).1 v rest h

theorem readRpcError_err (fuel : Nat) (t : Tag) (evs : List Ev)
    (h : readRpcError fuel t evs = .error .fuel) : fuel ≤ evs.length := by
  have := (errorLoop_good fuel t.raw {} evs).2
  unfold readRpcError at h
  grind

theorem emptyLoop_good (fuel : Nat) (endRaw : String) (th : Bool) (errors : List RpcError) (evs : List Ev) :
    Good evs fuel (emptyLoop fuel endRaw th errors evs) := by
  fun_induction emptyLoop fuel endRaw th errors evs <;> simp_all [Good] <;>
    grind [→ readRpcError_shorter, → readRpcError_err]

theorem dataLoop_good (fuel : Nat) (endRaw : String) (th : Option String) (errors : List RpcError) (evs : List Ev) :
    Good evs fuel (dataLoop fuel endRaw th errors evs) := by
  fun_induction dataLoop fuel endRaw th errors evs <;> simp_all [Good] <;>
    grind [→ readRpcError_shorter, → readRpcError_err, → readText_shorter, → readText_err]

theorem bareLoop_good (fuel : Nat) (endRaw : String) (errors : List RpcError) (evs : List Ev) :
    Good evs fuel (bareLoop fuel endRaw errors evs) := by
  fun_induction bareLoop fuel endRaw errors evs <;> simp_all [Good] <;>
    grind [→ readRpcError_shorter, → readRpcError_err]

theorem loadInner_good (c : RCfg) (fuel : Nat) (endRaw : String) (st : LoadSt) (evs : List Ev) :
    Good evs fuel (loadInner c fuel endRaw st evs) := by
  fun_induction loadInner c fuel endRaw st evs <;> simp_all [Good] <;>
    grind [→ readRpcError_shorter, → readRpcError_err, → readText_shorter, → readText_err]

theorem loadInner_shorter (c : RCfg) (fuel : Nat) (endRaw : String) (st st' : LoadSt) (evs rest : List Ev)
    (h : loadInner c fuel endRaw st evs = .ok (st', rest)) : rest.length < evs.length :=
  (loadInner_good c fuel endRaw st evs).1 st' rest h

theorem loadInner_err (c : RCfg) (fuel : Nat) (endRaw : String) (st : LoadSt) (evs : List Ev)
    (h : loadInner c fuel endRaw st evs = .error .fuel) : fuel ≤ evs.length := by
  have := (loadInner_good c fuel endRaw st evs).2
  grind

theorem loadOuter_good (c : RCfg) (fuel : Nat) (endRaw : String) (st : LoadSt) (evs : List Ev) :
    Good evs fuel (loadOuter c fuel endRaw st evs) := by
  fun_induction loadOuter c fuel endRaw st evs <;> simp_all [Good] <;>
    grind [→ loadInner_shorter, → loadInner_err]

theorem readBody_good (c : RCfg) (k : ReplyKind) (fuel : Nat) (t : Tag) (evs : List Ev) :
    Good evs fuel (readBody c k fuel t evs) := by
  cases k <;> simp only [readBody]
  · exact emptyLoop_good _ _ _ _ _
  · exact dataLoop_good _ _ _ _ _
  · exact bareLoop_good _ _ _ _
  · exact loadOuter_good _ _ _ _ _

theorem parseCapability_err (o : UriOracle) (s : String) (e : Err) (h : parseCapability o s = .error e) :
    e ≠ .fuel := by
  unfold parseCapability at h
  split at h
  · cases h; simp
  · split at h
    · cases h; simp
    · cases h

theorem capsLoop_good (c : RCfg) (o : UriOracle) (fuel : Nat) (endRaw : String) (acc : List Capability) (evs : List Ev) :
    Good evs fuel (capsLoop c o fuel endRaw acc evs) := by
  fun_induction capsLoop c o fuel endRaw acc evs <;> simp_all [Good] <;>
    grind [→ readText_shorter, → readText_err, → parseCapability_err]

theorem capsLoop_shorter (c : RCfg) (o : UriOracle) (fuel : Nat) (endRaw : String) (acc v : List Capability) (evs rest : List Ev)
    (h : capsLoop c o fuel endRaw acc evs = .ok (v, rest)) : rest.length < evs.length :=
  (capsLoop_good c o fuel endRaw acc evs).1 v rest h

theorem capsLoop_err (c : RCfg) (o : UriOracle) (fuel : Nat) (endRaw : String) (acc : List Capability) (evs : List Ev)
    (h : capsLoop c o fuel endRaw acc evs = .error .fuel) : fuel ≤ evs.length := by
  have := (capsLoop_good c o fuel endRaw acc evs).2
  grind

theorem helloLoop_good (c : RCfg) (o : UriOracle) (fuel : Nat) (endRaw : String) (caps : Option (List Capability))
    (sid : Option Nat) (evs : List Ev) : Good evs fuel (helloLoop c o fuel endRaw caps sid evs) := by
  fun_induction helloLoop c o fuel endRaw caps sid evs <;> simp_all [Good] <;>
    grind [→ readText_shorter, → readText_err, → capsLoop_shorter, → capsLoop_err]

theorem helloLoop_shorter (c : RCfg) (o : UriOracle) (fuel : Nat) (endRaw : String) (caps : Option (List Capability))
    (sid : Option Nat) (evs rest : List Ev) (v : Hello)
    (h : helloLoop c o fuel endRaw caps sid evs = .ok (v, rest)) : rest.length < evs.length :=
  (helloLoop_good c o fuel endRaw caps sid evs).1 v rest h

theorem helloLoop_err (c : RCfg) (o : UriOracle) (fuel : Nat) (endRaw : String) (caps : Option (List Capability))
    (sid : Option Nat) (evs : List Ev)
    (h : helloLoop c o fuel endRaw caps sid evs = .error .fuel) : fuel ≤ evs.length := by
  have := (helloLoop_good c o fuel endRaw caps sid evs).2
  grind

theorem fromXmlHello_total (c : RCfg) (o : UriOracle) (fuel : Nat) (this : Option Hello) (evs : List Ev)
    (hf : evs.length < fuel) : fromXmlHello c o fuel this evs ≠ .error .fuel := by
  fun_induction fromXmlHello c o fuel this evs <;> simp_all <;>
    grind [→ helloLoop_shorter, → helloLoop_err]

theorem getAttr_err (name : String) (l : List AttrItem) (e : Err) (h : getAttr name l = .error e) : e ≠ .fuel := by
  fun_induction getAttr name l <;> grind

theorem parseMessageId_err (a : Attr) (e : Err) (h : parseMessageId a = .error e) : e ≠ .fuel := by
  unfold parseMessageId at h
  split at h
  · cases h; simp
  · split at h
    · cases h
    · cases h; simp

theorem readReplyElem_good (c : RCfg) (k : ReplyKind) (fuel : Nat) (t : Tag) (evs : List Ev) :
    Good evs fuel (readReplyElem c k fuel t evs) := by
  have hb := readBody_good c k fuel t evs
  unfold readReplyElem
  split
  · rename_i e he; have := getAttr_err _ _ _ he; simp [Good, this]
  · simp [Good]
  · split
    · rename_i e he; have := parseMessageId_err _ _ he; simp [Good, this]
    · split
      · rename_i e he
        constructor
        · simp
        · intro hf h; simp only [Except.error.injEq] at h; subst h; exact hb.2 hf he
      · rename_i b r hr
        constructor
        · intro v rest h; simp only [Except.ok.injEq, Prod.mk.injEq] at h; rw [← h.2]; exact hb.1 _ _ hr
        · simp

theorem readReplyElem_shorter (c : RCfg) (k : ReplyKind) (fuel : Nat) (t : Tag) (evs rest : List Ev) (v : Nat × Body)
    (h : readReplyElem c k fuel t evs = .ok (v, rest)) : rest.length < evs.length :=
  (readReplyElem_good c k fuel t evs).1 v rest h

theorem readReplyElem_err (c : RCfg) (k : ReplyKind) (fuel : Nat) (t : Tag) (evs : List Ev)
    (h : readReplyElem c k fuel t evs = .error .fuel) : fuel ≤ evs.length := by
  have := (readReplyElem_good c k fuel t evs).2
  grind

theorem fromXmlReply_total (c : RCfg) (k : ReplyKind) (fuel : Nat) (this : Option (Nat × Body)) (evs : List Ev)
    (hf : evs.length < fuel) : fromXmlReply c k fuel this evs ≠ .error .fuel := by
  fun_induction fromXmlReply c k fuel this evs <;> simp_all <;>
    grind [→ readReplyElem_shorter, → readReplyElem_err]

theorem readPartial_total (c : RCfg) (fuel : Nat) (mid : Option Nat) (evs : List Ev)
    (hf : evs.length < fuel) : readPartial c fuel mid evs ≠ .error .fuel := by
  fun_induction readPartial c fuel mid evs <;> simp_all <;>
    grind [→ getAttr_err, → parseMessageId_err, skipToEndLenient_length]

end Xml
