import Bgpfu.Lemmas.Builders
/-! Request-level converse of C09: for every wire request the builder API can express (`callsFor`),
if the RFC table permits it under the advertised capabilities, the canonical call sequence builds
exactly that request. Proved by evaluating the builders on the explicit call lists. -/
set_option linter.unusedSimpArgs false
namespace Builders
open Caps Rfc

theorem run_eq {cfg ctx b o} (hop : (requiredCapabilities b).check ctx.caps = true)
    (hr : runBuilder cfg ctx b = .ok o) : build cfg ctx b = .ok (render o) := by
  simp [build, operationNew, hop, hr]

set_option maxRecDepth 4000 in
theorem request_buildable_get (caps sid) (f : Option FilterType)
    (hp : allOk caps (requiresL (.get f)) = true) :
    build .fixed ⟨caps, sid⟩ (.get [.filter f]) = .ok (.get f) := by
  cases f with
  | none => simp [build, operationNew, requiredCapabilities, Requirements.check, runBuilder, thenFinish, foldCalls,
      Get.step, Get.filter, Cfg.fixed, filterOptTryUse, Get.new, Get.finish, render]
  | some x =>
    cases x <;>
    simp_all [build, operationNew, requiredCapabilities, Requirements.check, runBuilder, thenFinish, foldCalls,
      Get.step, Get.filter, Cfg.fixed, filterOptTryUse, filterTryUse, filterReq, Get.new, Get.finish, render,
      requiresL, filterReqs, allOk, Requirement.check, contains]

theorem request_buildable_edit (caps sid) (d : Datastore) (dop eo to) (c : Content) (b)
    (hb : callsFor (.editConfig (.ds d) dop eo to c) = some b)
    (hp : allOk caps (requiresL (.editConfig (.ds d) dop eo to c)) = true) :
    build .fixed ⟨caps, sid⟩ b = .ok (.editConfig (.ds d) dop eo to c) := by
  simp only [callsFor] at hb
  split at hb
  · cases hb
  · next hne =>
    cases hb
    rcases d with _|_|_ <;> rcases c with _|s <;> rcases dop with _|(_|_|_) <;> rcases eo with _|(_|_|_) <;>
      rcases to with _|(_|_|_) <;>
    simp_all [build, operationNew, requiredCapabilities, Requirements.check, runBuilder, thenFinish, foldCalls,
      EditConfig.step, EditConfig.target, EditConfig.config, EditConfig.url, EditConfig.defaultOperation,
      EditConfig.errorOption, EditConfig.testOption, EditConfig.errorOptReq, EditConfig.testOptReq,
      Cfg.fixed, tryAsTarget, targetReq, urlTryNew, url_ok, EditConfig.new, EditConfig.finish, require, render,
      requiresL, editTargetReqs, errorOptReqs, testOptReqs, contentReqs, allOk, Requirement.check, contains,
      optList, validateAny]
end Builders
namespace Builders
open Caps Rfc

/-- everything needed to evaluate a build on explicit call lists -/
macro "build_simp" : tactic => `(tactic|
  simp_all [build, operationNew, requiredCapabilities, Requirements.check, runBuilder, thenFinish, foldCalls,
    Cfg.fixed, tryAsTarget, tryAsSource, tryAsLockTarget, targetReq, sourceReq, lockTargetReq, urlTryNew, url_ok,
    filterOptTryUse, filterTryUse, filterReq, require, render, renderSource, optList, defaultTimeout,
    GetConfig.step, GetConfig.source, GetConfig.filter, GetConfig.new, GetConfig.finish,
    CopyConfig.step, CopyConfig.target, CopyConfig.source, CopyConfig.config, CopyConfig.new, CopyConfig.finish,
    DeleteConfig.step, DeleteConfig.target, DeleteConfig.url, DeleteConfig.new, DeleteConfig.finish,
    Lock.step, Lock.target, Lock.new, Lock.finishLock, Lock.finishUnlock,
    KillSession.step, KillSession.sessionId, KillSession.new, KillSession.finish,
    Commit.step, Commit.confirmed, Commit.confirmTimeout, Commit.persist, Commit.persistId, Commit.tryUse,
    Commit.confirmedReq, Commit.persistReq, Commit.new, Commit.finish,
    CancelCommit.step, CancelCommit.persistId, CancelCommit.new, CancelCommit.finish,
    Validate.step, Validate.source, Validate.config, Validate.new, Validate.finish,
    OpenConfiguration.step, OpenConfiguration.priv, OpenConfiguration.ephemeral, OpenConfiguration.new,
    OpenConfiguration.finish,
    LoadConfiguration.step, LoadConfiguration.source, LoadConfiguration.new, LoadConfiguration.finish,
    CommitConfiguration.step, CommitConfiguration.new, CommitConfiguration.finish,
    requiresL, getConfigSourceReqs, sourceReqs, copyTargetReqs, deleteTargetReqs, lockTargetReqs, filterReqs,
    commitParamReqs, validateAny, confirmedAny, allOk, Requirement.check, contains])

theorem request_buildable_getConfig (caps sid) (d : Datastore) (f : Option FilterType)
    (hp : allOk caps (requiresL (.getConfig (.ds d) f)) = true) :
    build .fixed ⟨caps, sid⟩ (.getConfig [.source d, .filter f]) = .ok (.getConfig (.ds d) f) := by
  rcases d with _|_|_ <;> rcases f with _|(_|_) <;> build_simp

theorem request_buildable_copy (caps sid) (t : Datastore) (s : Endpoint) (b)
    (hb : callsFor (.copyConfig (.ds t) s) = some b)
    (hp : allOk caps (requiresL (.copyConfig (.ds t) s)) = true) :
    build .fixed ⟨caps, sid⟩ b = .ok (.copyConfig (.ds t) s) := by
  rcases s with (_|_|_)|_|_ <;> simp only [callsFor, Option.some.injEq] at hb <;> try (cases hb)
  all_goals (rcases t with _|_|_ <;> build_simp)

theorem request_buildable_delete (caps sid) (t : Endpoint) (b)
    (hb : callsFor (.deleteConfig t) = some b)
    (hp : allOk caps (requiresL (.deleteConfig t)) = true) :
    build .fixed ⟨caps, sid⟩ b = .ok (.deleteConfig t) := by
  rcases t with (_|_|_)|_|_ <;> simp only [callsFor, Option.some.injEq] at hb <;> try (cases hb)
  all_goals build_simp

theorem request_buildable_lock (caps sid) (t : Endpoint) (b)
    (hb : callsFor (.lock t) = some b) (hp : allOk caps (requiresL (.lock t)) = true) :
    build .fixed ⟨caps, sid⟩ b = .ok (.lock t) := by
  rcases t with (_|_|_)|_|_ <;> simp only [callsFor, Option.some.injEq] at hb <;> try (cases hb)
  all_goals build_simp

theorem request_buildable_unlock (caps sid) (t : Endpoint) (b)
    (hb : callsFor (.unlock t) = some b) (hp : allOk caps (requiresL (.unlock t)) = true) :
    build .fixed ⟨caps, sid⟩ b = .ok (.unlock t) := by
  rcases t with (_|_|_)|_|_ <;> simp only [callsFor, Option.some.injEq] at hb <;> try (cases hb)
  all_goals build_simp

theorem request_buildable_validate (caps sid) (s : Endpoint) (b)
    (hb : callsFor (.validate s) = some b) (hp : allOk caps (requiresL (.validate s)) = true) :
    build .fixed ⟨caps, sid⟩ b = .ok (.validate s) := by
  rcases s with (_|_|_)|_|_ <;> simp only [callsFor, Option.some.injEq] at hb <;> try (cases hb)
  all_goals build_simp

theorem request_buildable_commit (caps sid) (c : Bool) (t : Option Nat) (p pid : Option Str) (b)
    (hb : callsFor (.commit c t p pid) = some b) (hp : allOk caps (requiresL (.commit c t p pid)) = true) :
    build .fixed ⟨caps, sid⟩ b = .ok (.commit c t p pid) := by
  rcases c with _|_ <;> rcases t with _|t <;> rcases p with _|p <;> rcases pid with _|pid <;>
    simp only [callsFor] at hb <;> (try (cases hb)) <;> (try (split at hb <;> cases hb)) <;> build_simp
end Builders
namespace Builders
open Caps Rfc

theorem request_buildable_junos (caps sid) (j : JunosRequest) (b)
    (hb : callsFor (.junos j) = some b) (hp : allOk caps (requiresL (.junos j)) = true) :
    build .fixed ⟨caps, sid⟩ b = .ok (.junos j) := by
  cases j with
  | closeConfiguration => simp only [callsFor, Option.some.injEq] at hb; cases hb; build_simp
  | lockConfiguration => simp only [callsFor, Option.some.injEq] at hb; cases hb; build_simp
  | unlockConfiguration => simp only [callsFor, Option.some.injEq] at hb; cases hb; build_simp
  | openConfiguration t =>
    rcases t with _|_|n <;> simp only [callsFor, Option.some.injEq] at hb <;> cases hb <;> build_simp
  | loadConfiguration s =>
    rcases s with _|⟨f, a⟩|_ <;> simp only [callsFor, Option.some.injEq] at hb <;> (try (cases hb)) <;> build_simp
  | commitConfiguration ck atT cf tm log sy =>
    simp only [callsFor] at hb
    split at hb
    · cases hb
    · next hne =>
      cases hb
      have h60 : ∀ m : Nat, (m * 60 + 59) / 60 = m := by intro m; omega
      have h600 : ∀ m : Nat, m ≠ 10 → m * 60 ≠ 600 := by intro m hm; omega
      rcases atT with _|(_|_|_) <;> rcases cf with _|_ <;> rcases tm with _|m <;> rcases log with _|l <;>
        rcases sy with _|s <;> build_simp
end Builders
namespace Builders
open Caps Rfc

theorem request_buildable (caps : List Capability) (sid : Nat) (r : Request) (b : Build)
    (hb : callsFor r = some b)
    (hk : ∀ n, r = .killSession n → n ≠ 0 ∧ n ≠ sid)
    (hp : allOk caps (requiresL r) = true) :
    build .fixed ⟨caps, sid⟩ b = .ok r := by
  cases r with
  | get f => simp only [callsFor, Option.some.injEq] at hb; cases hb; exact request_buildable_get caps sid f hp
  | getConfig s f =>
    rcases s with d|_|_ <;> simp only [callsFor, Option.some.injEq] at hb <;> try (cases hb)
    exact request_buildable_getConfig caps sid d f hp
  | editConfig t dop eo to c =>
    rcases t with d|_|_ <;> try (simp only [callsFor] at hb; cases hb)
    exact request_buildable_edit caps sid d dop eo to c b hb hp
  | copyConfig t s =>
    rcases t with d|_|_ <;> try (simp only [callsFor] at hb; cases hb)
    exact request_buildable_copy caps sid d s b hb hp
  | deleteConfig t => exact request_buildable_delete caps sid t b hb hp
  | lock t => exact request_buildable_lock caps sid t b hb hp
  | unlock t => exact request_buildable_unlock caps sid t b hb hp
  | killSession n =>
    simp only [callsFor, Option.some.injEq] at hb; cases hb
    obtain ⟨h0, hs⟩ := hk n rfl
    build_simp
  | commit c t p pid => exact request_buildable_commit caps sid c t p pid b hb hp
  | cancelCommit pid =>
    simp only [callsFor, Option.some.injEq] at hb; cases hb
    rcases pid with _|p <;> build_simp
  | discardChanges => simp only [callsFor, Option.some.injEq] at hb; cases hb; build_simp
  | validate s => exact request_buildable_validate caps sid s b hb hp
  | closeSession => simp only [callsFor, Option.some.injEq] at hb; cases hb; build_simp
  | junos j => exact request_buildable_junos caps sid j b hb hp
end Builders
