import Bgpfu.Spec.ReplyGrammar
/-! Lemmas relating the event-level reader loops to the reply grammar (C08). -/
namespace Xml

theorem skipToEnd_inert (name : String) (inner tail : List Ev) (d : Nat) (h : Inert name inner) :
    skipToEnd name (inner ++ tail) d = skipToEnd name tail d := by
  induction inner with
  | nil => rfl
  | cons ev rest ih =>
    cases ev with
    | error => exact absurd h (by simp [Inert])
    | eof => exact absurd h (by simp [Inert])
    | start t =>
      simp only [Inert] at h
      simp only [List.cons_append, skipToEnd]
      have : (t.raw == name) = false := by simpa using h.1
      simp only [this]; exact ih h.2
    | «end» raw =>
      simp only [Inert] at h
      simp only [List.cons_append, skipToEnd]
      have : (raw == name) = false := by simpa using h.1
      simp only [this]; exact ih h.2
    | empty t => simp only [Inert] at h; simpa [skipToEnd] using ih h
    | text s => simp only [Inert] at h; simpa [skipToEnd] using ih h
    | cdata => simp only [Inert] at h; simpa [skipToEnd] using ih h
    | comment => simp only [Inert] at h; simpa [skipToEnd] using ih h
    | decl => simp only [Inert] at h; simpa [skipToEnd] using ih h
    | pi => simp only [Inert] at h; simpa [skipToEnd] using ih h
    | doctype => simp only [Inert] at h; simpa [skipToEnd] using ih h

theorem readText_leaf (name span : String) (inner rest : List Ev) (h : Inert name inner) :
    readText (baseTag name (some span)) (inner ++ .end name :: rest) = .ok (span, rest) := by
  simp [readText, baseTag, skipToEnd_inert _ _ _ _ h, skipToEnd]

theorem leaf_length (name span : String) (inner : List Ev) : (leaf name span inner).length = inner.length + 2 := by
  simp [leaf]

end Xml

namespace Xml

theorem leaf_append (name span : String) (inner tail : List Ev) :
    leaf name span inner ++ tail = .start (baseTag name (some span)) :: (inner ++ .end name :: tail) := by
  simp [leaf]

theorem baseTag_is (name : String) (sp : Option String) (n : String) :
    (baseTag name sp).is BASE n = (name == n) := by
  simp [Tag.is, baseTag]

theorem errorLoop_step_type (fuel : Nat) (raw : String) (acc : ErrAcc) (s : String) (inner tail : List Ev)
    (v : ErrType) (hacc : acc.ty = none) (hp : parseErrType (trim s) = some v) (hi : Inert "error-type" inner) :
    errorLoop (fuel + 1) raw acc (leaf "error-type" s inner ++ tail)
      = errorLoop fuel raw { acc with ty := some v } tail := by
  rw [leaf_append, errorLoop]
  simp only [baseTag_is, hacc, readText_leaf _ _ _ _ hi, hp]
  simp

theorem errorLoop_step_tag (fuel : Nat) (raw : String) (acc : ErrAcc) (s : String) (inner tail : List Ev)
    (v : String) (hacc : acc.tag = none) (hp : parseErrTag (trim s) = some v) (hi : Inert "error-tag" inner) :
    errorLoop (fuel + 1) raw acc (leaf "error-tag" s inner ++ tail)
      = errorLoop fuel raw { acc with tag := some v } tail := by
  rw [leaf_append, errorLoop]
  simp only [baseTag_is, hacc, readText_leaf _ _ _ _ hi, hp]
  simp

theorem errorLoop_step_sev (fuel : Nat) (raw : String) (acc : ErrAcc) (s : String) (inner tail : List Ev)
    (v : Severity) (hacc : acc.severity = none) (hp : parseSeverity (trim s) = some v) (hi : Inert "error-severity" inner) :
    errorLoop (fuel + 1) raw acc (leaf "error-severity" s inner ++ tail)
      = errorLoop fuel raw { acc with severity := some v } tail := by
  rw [leaf_append, errorLoop]
  simp only [baseTag_is, hacc, readText_leaf _ _ _ _ hi, hp]
  simp

theorem errorLoop_step_app (fuel : Nat) (raw : String) (acc : ErrAcc) (s : String) (inner tail : List Ev)
    (hacc : acc.appTag = none) (hi : Inert "error-app-tag" inner) :
    errorLoop (fuel + 1) raw acc (leaf "error-app-tag" s inner ++ tail)
      = errorLoop fuel raw { acc with appTag := some (trim s) } tail := by
  rw [leaf_append, errorLoop]
  simp only [baseTag_is, hacc, readText_leaf _ _ _ _ hi]
  simp

theorem errorLoop_step_msg (fuel : Nat) (raw : String) (acc : ErrAcc) (s : String) (inner tail : List Ev)
    (hacc : acc.message = none) (hi : Inert "error-message" inner) :
    errorLoop (fuel + 1) raw acc (leaf "error-message" s inner ++ tail)
      = errorLoop fuel raw { acc with message := some (trim s) } tail := by
  rw [leaf_append, errorLoop]
  simp only [baseTag_is, hacc, readText_leaf _ _ _ _ hi]
  simp

theorem errorLoop_end (fuel : Nat) (raw : String) (acc : ErrAcc) (tail : List Ev) :
    errorLoop (fuel + 1) raw acc (.end raw :: tail)
      = (match acc.finish with | .ok e => .ok (e, tail) | .error e => .error e) := by
  rw [errorLoop]; simp only [beq_self_eq_true, if_true]
  cases acc.finish <;> rfl

/-- reading a rendered `rpc-error` yields its value and leaves exactly the following events -/
theorem readRpcError_render (e : ErrSpec) (h : e.WF) (fuel : Nat) (hf : 6 ≤ fuel) (rest : List Ev) (t : Tag)
    (ht : t.raw = e.raw) :
    readRpcError fuel t (e.fields ++ .end e.raw :: rest) = .ok (e.value, rest) := by
  obtain ⟨f, rfl⟩ : ∃ f, fuel = f + 6 := ⟨fuel - 6, by omega⟩
  unfold readRpcError ErrSpec.fields
  rw [ht]
  simp only [List.append_assoc]
  rw [errorLoop_step_type _ _ _ _ _ _ e.ty rfl h.ty h.tyI]
  rw [errorLoop_step_tag _ _ _ _ _ _ e.tag rfl h.tag h.tagI]
  rw [errorLoop_step_sev _ _ _ _ _ _ e.sev rfl h.sev h.sevI]
  cases ha : e.appTag with
  | none =>
    cases hm : e.message with
    | none =>
      simp only [optLeaf, List.nil_append]
      rw [errorLoop_end]
      simp [ErrAcc.finish, ErrSpec.value, ha, hm]
    | some p =>
      obtain ⟨ms, mi⟩ := p
      simp only [optLeaf, List.nil_append]
      rw [errorLoop_step_msg _ _ _ _ _ _ rfl (h.msgI _ hm)]
      rw [errorLoop_end]
      simp [ErrAcc.finish, ErrSpec.value, ha, hm]
  | some q =>
    obtain ⟨as, ai⟩ := q
    cases hm : e.message with
    | none =>
      simp only [optLeaf, List.nil_append]
      rw [errorLoop_step_app _ _ _ _ _ _ rfl (h.appI _ ha)]
      rw [errorLoop_end]
      simp [ErrAcc.finish, ErrSpec.value, ha, hm]
    | some p =>
      obtain ⟨ms, mi⟩ := p
      simp only [optLeaf]
      rw [errorLoop_step_app _ _ _ _ _ _ rfl (h.appI _ ha)]
      rw [errorLoop_step_msg _ _ _ _ _ _ rfl (h.msgI _ hm)]
      rw [errorLoop_end]
      simp [ErrAcc.finish, ErrSpec.value, ha, hm]

theorem ErrSpec.render_eq (e : ErrSpec) (tail : List Ev) :
    e.render ++ tail = .start { ns := .bound BASE, lname := "rpc-error", raw := e.raw, attrs := [], span := none } ::
      (e.fields ++ .end e.raw :: tail) := by
  simp [ErrSpec.render]

end Xml

namespace Xml

theorem ErrSpec.render_length (e : ErrSpec) : 8 ≤ e.render.length := by
  simp [ErrSpec.render, ErrSpec.fields, leaf]; omega

def liftRest (r : Except Err Body) (rest : List Ev) : Except Err (Body × List Ev) :=
  match r with
  | .ok b => .ok (b, rest)
  | .error e => .error e

def rpcErrorTag (raw : String) : Tag :=
  { ns := .bound BASE, lname := "rpc-error", raw := raw, attrs := [], span := none }

theorem rpcErrorTag_is : (rpcErrorTag raw).is BASE "rpc-error" = true := by simp [Tag.is, rpcErrorTag]

/-- **EmptyReply loop refines its child-level semantics.** -/
theorem emptyLoop_refines (cs : List Top) (hwf : ∀ c ∈ cs, c.WF) (fuel : Nat) (raw : String)
    (th : Bool) (errors : List RpcError) (rest : List Ev)
    (hf : (cs.flatMap Top.render).length + 1 ≤ fuel) :
    emptyLoop fuel raw th errors (cs.flatMap Top.render ++ .end raw :: rest)
      = liftRest (emptyAbs th errors cs) rest := by
  induction cs generalizing fuel th errors with
  | nil =>
    obtain ⟨f, rfl⟩ : ∃ f, fuel = f + 1 := ⟨fuel - 1, by omega⟩
    simp only [List.flatMap_nil, List.nil_append, emptyLoop, beq_self_eq_true, if_true, emptyAbs]
    cases th <;> simp [liftRest] <;> split <;> simp_all
  | cons c cs ih =>
    obtain ⟨f, rfl⟩ : ∃ f, fuel = f + 1 := ⟨fuel - 1, by omega⟩
    have hwf' : ∀ c ∈ cs, c.WF := fun x hx => hwf x (by simp [hx])
    simp only [List.flatMap_cons, List.append_assoc, List.length_append] at hf ⊢
    cases c with
    | ok =>
      simp only [Top.render, List.cons_append, List.nil_append, emptyLoop, emptyAbs]
      have hok : okTag.is BASE "ok" = true := by simp [Tag.is, okTag, baseTag]
      simp only [hok, Bool.true_and]
      by_cases h : (!th && errors.isEmpty) = true
      · simp only [h, if_true]
        exact ih hwf' f true errors (by simp only [Top.render, List.length_cons, List.length_nil] at hf; omega)
      · simp only [h]; simp [liftRest]
    | comment =>
      simp only [Top.render, List.cons_append, List.nil_append, emptyLoop, emptyAbs]
      exact ih hwf' f th errors (by simp only [Top.render, List.length_cons, List.length_nil] at hf; omega)
    | data s inner =>
      simp only [Top.render, leaf_append, emptyLoop, emptyAbs, baseTag_is]
      simp [liftRest]
    | results r ics =>
      simp only [Top.render, List.cons_append, emptyLoop, emptyAbs]
      simp [Tag.is, liftRest]
    | err e =>
      have hwe : e.WF := hwf (.err e) (by simp)
      have hl := e.render_length
      simp only [Top.render] at hf ⊢
      rw [e.render_eq, emptyLoop, emptyAbs]
      change (if (rpcErrorTag e.raw).is BASE "rpc-error" && !th then _ else _) = _
      simp only [rpcErrorTag_is, Bool.true_and]
      cases th with
      | true => simp [liftRest]
      | false =>
        simp only [Bool.not_false, if_true]
        have hr := readRpcError_render e hwe f (by omega)
          (List.flatMap Top.render cs ++ Ev.end raw :: rest) (rpcErrorTag e.raw) rfl
        simp only [rpcErrorTag] at hr
        rw [hr]
        exact ih hwf' f false (errors ++ [e.value]) (by omega)

/-- **DataReply loop refines its child-level semantics.** -/
theorem dataLoop_refines (cs : List Top) (hwf : ∀ c ∈ cs, c.WF) (fuel : Nat) (raw : String)
    (th : Option String) (errors : List RpcError) (rest : List Ev)
    (hf : (cs.flatMap Top.render).length + 1 ≤ fuel) :
    dataLoop fuel raw th errors (cs.flatMap Top.render ++ .end raw :: rest)
      = liftRest (dataAbs th errors cs) rest := by
  induction cs generalizing fuel th errors with
  | nil =>
    obtain ⟨f, rfl⟩ : ∃ f, fuel = f + 1 := ⟨fuel - 1, by omega⟩
    simp only [List.flatMap_nil, List.nil_append, dataLoop, beq_self_eq_true, if_true, dataAbs]
    cases th <;> simp [liftRest] <;> split <;> simp_all
  | cons c cs ih =>
    obtain ⟨f, rfl⟩ : ∃ f, fuel = f + 1 := ⟨fuel - 1, by omega⟩
    have hwf' : ∀ c ∈ cs, c.WF := fun x hx => hwf x (by simp [hx])
    simp only [List.flatMap_cons, List.append_assoc, List.length_append] at hf ⊢
    cases c with
    | ok =>
      simp only [Top.render, List.cons_append, List.nil_append, dataLoop, dataAbs]
      simp [liftRest]
    | comment =>
      simp only [Top.render, List.cons_append, List.nil_append, dataLoop, dataAbs]
      exact ih hwf' f th errors (by simp only [Top.render, List.length_cons, List.length_nil] at hf; omega)
    | data s inner =>
      have hi : Inert "data" inner := hwf (.data s inner) (by simp)
      simp only [Top.render, leaf_append, dataLoop, dataAbs, baseTag_is]
      by_cases h : (th.isNone && errors.isEmpty) = true
      · simp only [beq_self_eq_true, Bool.true_and, h, if_true, readText_leaf _ _ _ _ hi]
        exact ih hwf' f (some s) errors (by simp only [Top.render, leaf_length] at hf; omega)
      · simp only [beq_self_eq_true, Bool.true_and, h]
        have : ("data" == "rpc-error") = false := by decide
        simp [this, liftRest]
    | results r ics =>
      simp only [Top.render, List.cons_append, dataLoop, dataAbs]
      simp [Tag.is, liftRest]
    | err e =>
      have hwe : e.WF := hwf (.err e) (by simp)
      have hl := e.render_length
      simp only [Top.render] at hf ⊢
      rw [e.render_eq, dataLoop, dataAbs]
      change (if (rpcErrorTag e.raw).is BASE "data" && th.isNone && errors.isEmpty then _
        else if (rpcErrorTag e.raw).is BASE "rpc-error" && th.isNone then _ else _) = _
      have hnd : (rpcErrorTag e.raw).is BASE "data" = false := by simp [Tag.is, rpcErrorTag]
      simp only [rpcErrorTag_is, hnd, Bool.false_and, Bool.true_and]
      cases th with
      | some v => simp [liftRest]
      | none =>
        simp only [Option.isNone_none, if_true]
        have hr := readRpcError_render e hwe f (by omega)
          (List.flatMap Top.render cs ++ Ev.end raw :: rest) (rpcErrorTag e.raw) rfl
        simp only [rpcErrorTag] at hr
        simp only [Bool.false_eq_true, if_false]
        rw [hr]
        exact ih hwf' f none (errors ++ [e.value]) (by omega)

/-- **BareReply loop refines its child-level semantics.** -/
theorem bareLoop_refines (cs : List Top) (hwf : ∀ c ∈ cs, c.WF) (fuel : Nat) (raw : String)
    (errors : List RpcError) (rest : List Ev)
    (hf : (cs.flatMap Top.render).length + 1 ≤ fuel) :
    bareLoop fuel raw errors (cs.flatMap Top.render ++ .end raw :: rest)
      = liftRest (bareAbs errors cs) rest := by
  induction cs generalizing fuel errors with
  | nil =>
    obtain ⟨f, rfl⟩ : ∃ f, fuel = f + 1 := ⟨fuel - 1, by omega⟩
    simp only [List.flatMap_nil, List.nil_append, bareLoop, beq_self_eq_true, if_true, bareAbs]
    split <;> simp [liftRest]
  | cons c cs ih =>
    obtain ⟨f, rfl⟩ : ∃ f, fuel = f + 1 := ⟨fuel - 1, by omega⟩
    have hwf' : ∀ c ∈ cs, c.WF := fun x hx => hwf x (by simp [hx])
    simp only [List.flatMap_cons, List.append_assoc, List.length_append] at hf ⊢
    cases c with
    | ok =>
      simp only [Top.render, List.cons_append, List.nil_append, bareLoop, bareAbs]
      simp [liftRest]
    | comment =>
      simp only [Top.render, List.cons_append, List.nil_append, bareLoop, bareAbs]
      exact ih hwf' f errors (by simp only [Top.render, List.length_cons, List.length_nil] at hf; omega)
    | data s inner =>
      simp only [Top.render, leaf_append, bareLoop, bareAbs, baseTag_is]
      have : ("data" == "rpc-error") = false := by decide
      simp [this, liftRest]
    | results r ics =>
      simp only [Top.render, List.cons_append, bareLoop, bareAbs]
      simp [Tag.is, liftRest]
    | err e =>
      have hwe : e.WF := hwf (.err e) (by simp)
      have hl := e.render_length
      simp only [Top.render] at hf ⊢
      rw [e.render_eq, bareLoop, bareAbs]
      change (if (rpcErrorTag e.raw).is BASE "rpc-error" then _ else _) = _
      simp only [rpcErrorTag_is, if_true]
      have hr := readRpcError_render e hwe f (by omega)
        (List.flatMap Top.render cs ++ Ev.end raw :: rest) (rpcErrorTag e.raw) rfl
      simp only [rpcErrorTag] at hr
      rw [hr]
      exact ih hwf' f (errors ++ [e.value]) (by omega)

def liftSt (r : Except Err LoadSt) (rest : List Ev) : Except Err (LoadSt × List Ev) :=
  match r with
  | .ok b => .ok (b, rest)
  | .error e => .error e

/-- **load-configuration-results inner loop refines its child-level semantics.** -/
theorem loadInner_refines (c : RCfg) (cs : List Inner) (hwf : ∀ x ∈ cs, x.WF) (fuel : Nat) (raw : String)
    (st : LoadSt) (rest : List Ev)
    (hf : (cs.flatMap Inner.render).length + 1 ≤ fuel) :
    loadInner c fuel raw st (cs.flatMap Inner.render ++ .end raw :: rest)
      = liftSt (loadInnerAbs c st cs) rest := by
  induction cs generalizing fuel st with
  | nil =>
    obtain ⟨f, rfl⟩ : ∃ f, fuel = f + 1 := ⟨fuel - 1, by omega⟩
    simp [loadInner, loadInnerAbs, liftSt]
  | cons x cs ih =>
    obtain ⟨f, rfl⟩ : ∃ f, fuel = f + 1 := ⟨fuel - 1, by omega⟩
    have hwf' : ∀ x ∈ cs, x.WF := fun y hy => hwf y (by simp [hy])
    simp only [List.flatMap_cons, List.append_assoc, List.length_append] at hf ⊢
    cases x with
    | ok =>
      simp only [Inner.render, List.cons_append, List.nil_append, loadInner, loadInnerAbs]
      have hok : okTag.is BASE "ok" = true := by simp [Tag.is, okTag, baseTag]
      simp only [hok, Bool.true_and]
      by_cases h : (!st.this && (!c.loadOkGuard || !hasErrorSeverity st.errors)) = true
      · simp only [h, if_true]
        exact ih hwf' f _ (by simp only [Inner.render, List.length_cons, List.length_nil] at hf; omega)
      · simp only [h]; simp [liftSt]
    | comment =>
      simp only [Inner.render, List.cons_append, List.nil_append, loadInner, loadInnerAbs]
      exact ih hwf' f st (by simp only [Inner.render, List.length_cons, List.length_nil] at hf; omega)
    | count s inner =>
      have hi : Inert "load-error-count" inner := hwf (.count s inner) (by simp)
      simp only [Inner.render, leaf_append, loadInner, loadInnerAbs, baseTag_is]
      have h1 : ("load-error-count" == "rpc-error") = false := by decide
      simp only [h1, Bool.false_and, Bool.false_eq_true, if_false, beq_self_eq_true, Bool.true_and]
      cases hth : st.this with
      | true => simp [liftSt]
      | false =>
        simp only [Bool.not_false, if_true, readText_leaf _ _ _ _ hi]
        cases hp : parseUsize (c.tok s) with
        | none => simp [liftSt]
        | some n =>
          simp only []
          exact ih hwf' f _ (by simp only [Inner.render, leaf_length] at hf; omega)
    | err e =>
      have hwe : e.WF := hwf (.err e) (by simp)
      have hl := e.render_length
      simp only [Inner.render] at hf ⊢
      rw [e.render_eq, loadInner, loadInnerAbs]
      change (if (rpcErrorTag e.raw).is BASE "rpc-error" && !st.this then _ else _) = _
      simp only [rpcErrorTag_is, Bool.true_and]
      cases hth : st.this with
      | true => simp [Tag.is, liftSt]
      | false =>
        simp only [Bool.not_false, if_true]
        have hr := readRpcError_render e hwe f (by omega)
          (List.flatMap Inner.render cs ++ Ev.end raw :: rest) (rpcErrorTag e.raw) rfl
        simp only [rpcErrorTag] at hr
        rw [hr]
        exact ih hwf' f _ (by omega)

def resultsTag (raw : String) : Tag :=
  { ns := .bound BASE, lname := "load-configuration-results", raw := raw, attrs := [], span := none }

/-- **load-configuration reply outer loop refines its child-level semantics.** -/
theorem loadOuter_refines (c : RCfg) (cs : List Top) (hwf : ∀ x ∈ cs, x.WF) (fuel : Nat) (raw : String)
    (st : LoadSt) (rest : List Ev)
    (hf : (cs.flatMap Top.render).length + 1 ≤ fuel) :
    loadOuter c fuel raw st (cs.flatMap Top.render ++ .end raw :: rest)
      = liftRest (loadAbs c st cs) rest := by
  induction cs generalizing fuel st with
  | nil =>
    obtain ⟨f, rfl⟩ : ∃ f, fuel = f + 1 := ⟨fuel - 1, by omega⟩
    simp only [List.flatMap_nil, List.nil_append, loadOuter, beq_self_eq_true, if_true, loadAbs]
    cases st.this <;> simp [liftRest]
    cases st.count <;> simp
    split <;> simp
  | cons x cs ih =>
    obtain ⟨f, rfl⟩ : ∃ f, fuel = f + 1 := ⟨fuel - 1, by omega⟩
    have hwf' : ∀ x ∈ cs, x.WF := fun y hy => hwf y (by simp [hy])
    simp only [List.flatMap_cons, List.append_assoc, List.length_append] at hf ⊢
    cases x with
    | ok =>
      simp only [Top.render, List.cons_append, List.nil_append, loadOuter, loadAbs]
      simp [liftRest]
    | comment =>
      simp only [Top.render, List.cons_append, List.nil_append, loadOuter, loadAbs]
      exact ih hwf' f st (by simp only [Top.render, List.length_cons, List.length_nil] at hf; omega)
    | data s inner =>
      simp only [Top.render, leaf_append, loadOuter, loadAbs, baseTag_is]
      have : ("data" == "load-configuration-results") = false := by decide
      simp [this, liftRest]
    | err e =>
      simp only [Top.render]
      rw [e.render_eq, loadOuter, loadAbs]
      simp [Tag.is, liftRest]
    | results r ics =>
      have hwi : ∀ y ∈ ics, y.WF := hwf (.results r ics) (by simp)
      simp only [Top.render, List.cons_append, List.append_assoc, List.length_cons, List.length_append,
        List.length_nil] at hf ⊢
      rw [loadOuter, loadAbs]
      change (if (resultsTag r).is BASE "load-configuration-results" && !st.this then _ else _) = _
      have hrt : (resultsTag r).is BASE "load-configuration-results" = true := by simp [Tag.is, resultsTag]
      simp only [hrt, Bool.true_and]
      cases hth : st.this with
      | true => simp [liftRest]
      | false =>
        simp only [Bool.not_false, if_true]
        have hi := loadInner_refines c ics hwi f r st
          (List.flatMap Top.render cs ++ Ev.end raw :: rest) (by omega)
        simp only [List.nil_append]
        rw [hi]
        cases hres : loadInnerAbs c st ics with
        | error e => simp [liftSt, liftRest]
        | ok st' =>
          simp only [liftSt]
          exact ih hwf' f st' (by omega)

theorem skipToEndLenient_inert (name : String) (inner tail : List Ev) (d : Nat) (h : Inert name inner) :
    skipToEndLenient name (inner ++ tail) d = skipToEndLenient name tail d := by
  induction inner with
  | nil => rfl
  | cons ev rest ih =>
    cases ev with
    | error => exact absurd h (by simp [Inert])
    | eof => exact absurd h (by simp [Inert])
    | start t =>
      simp only [Inert] at h
      simp only [List.cons_append, skipToEndLenient]
      have : (t.raw == name) = false := by simpa using h.1
      simp only [this]; exact ih h.2
    | «end» raw =>
      simp only [Inert] at h
      simp only [List.cons_append, skipToEndLenient]
      have : (raw == name) = false := by simpa using h.1
      simp only [this]; exact ih h.2
    | empty t => simp only [Inert] at h; simpa [skipToEndLenient] using ih h
    | text s => simp only [Inert] at h; simpa [skipToEndLenient] using ih h
    | cdata => simp only [Inert] at h; simpa [skipToEndLenient] using ih h
    | comment => simp only [Inert] at h; simpa [skipToEndLenient] using ih h
    | decl => simp only [Inert] at h; simpa [skipToEndLenient] using ih h
    | pi => simp only [Inert] at h; simpa [skipToEndLenient] using ih h
    | doctype => simp only [Inert] at h; simpa [skipToEndLenient] using ih h

def replyTag (raw idAttr : String) (extra : List AttrItem) : Tag :=
  { ns := .bound BASE, lname := "rpc-reply", raw := raw,
    attrs := .ok { key := "message-id", ns := .unbound, lname := "message-id", value := some idAttr } :: extra,
    span := none }

theorem replyDoc_eq (raw idAttr : String) (extra : List AttrItem) (cs : List Top) :
    replyDoc raw idAttr extra cs
      = .start (replyTag raw idAttr extra) :: (cs.flatMap Top.render ++ .end raw :: [.eof]) := by
  simp [replyDoc, replyTag]

theorem replyTag_id (raw idAttr : String) (extra : List AttrItem) (id : Nat) (hid : parseUsize idAttr = some id) :
    (match getAttr "message-id" (replyTag raw idAttr extra).attrs with
     | .error e => (.error e : Except Err Nat)
     | .ok none => .error .missing
     | .ok (some a) => parseMessageId a) = .ok id := by
  simp [getAttr, replyTag, parseMessageId, hid]

/-- parse phase 1 on a grammar document yields its message-id -/
theorem readPartial_doc (c : RCfg) (raw idAttr : String) (extra : List AttrItem) (cs : List Top) (id : Nat)
    (hid : parseUsize idAttr = some id) (hin : Inert raw (cs.flatMap Top.render)) :
    readPartial c ((replyDoc raw idAttr extra cs).length + 1) none (replyDoc raw idAttr extra cs) = .ok id := by
  rw [replyDoc_eq]
  simp only [List.length_cons, List.length_append, List.length_nil]
  rw [readPartial]
  have hrt : (replyTag raw idAttr extra).is BASE "rpc-reply" = true := by simp [Tag.is, replyTag]
  simp only [hrt, if_true]
  have : getAttr "message-id" (replyTag raw idAttr extra).attrs
      = .ok (some { key := "message-id", ns := .unbound, lname := "message-id", value := some idAttr }) := by
    simp [getAttr, replyTag]
  simp only [this, parseMessageId, hid]
  have hraw : (replyTag raw idAttr extra).raw = raw := rfl
  rw [hraw, skipToEndLenient_inert _ _ _ _ hin]
  simp [skipToEndLenient, readPartial]

/-- **Refinement theorem for whole reply messages**: on every document of the reply grammar, both
parse phases, the message-id cross-check and `into_result` compute exactly the child-level
semantics `replyAbs`. -/
theorem readMessage_doc (c : RCfg) (k : ReplyKind) (raw idAttr : String) (extra : List AttrItem)
    (cs : List Top) (id : Nat) (hid : parseUsize idAttr = some id) (hwf : ∀ x ∈ cs, x.WF)
    (hin : Inert raw (cs.flatMap Top.render)) :
    readMessage c k (replyDoc raw idAttr extra cs) = outcomeOf (replyAbs c k cs) := by
  unfold readMessage
  rw [readPartial_doc c raw idAttr extra cs id hid hin]
  simp only [phase2]
  rw [replyDoc_eq]
  simp only [List.length_cons, List.length_append, List.length_nil]
  rw [fromXmlReply]
  have hrt : (replyTag raw idAttr extra).is BASE "rpc-reply" = true := by simp [Tag.is, replyTag]
  simp only [hrt, if_true, readReplyElem]
  have : getAttr "message-id" (replyTag raw idAttr extra).attrs
      = .ok (some { key := "message-id", ns := .unbound, lname := "message-id", value := some idAttr }) := by
    simp [getAttr, replyTag]
  simp only [this, parseMessageId, hid]
  have hraw : (replyTag raw idAttr extra).raw = raw := rfl
  have hlen : (cs.flatMap Top.render).length + 1 ≤ (cs.flatMap Top.render).length + (0 + 1 + 1) + 1 := by omega
  cases k with
  | empty =>
    simp only [readBody, hraw, emptyLoop_refines cs hwf _ raw false [] [.eof] hlen, replyAbs]
    cases emptyAbs false [] cs with
    | error e => simp [liftRest, outcomeOf]
    | ok b => simp [liftRest, outcomeOf, fromXmlReply]
  | data =>
    simp only [readBody, hraw, dataLoop_refines cs hwf _ raw none [] [.eof] hlen, replyAbs]
    cases dataAbs none [] cs with
    | error e => simp [liftRest, outcomeOf]
    | ok b => simp [liftRest, outcomeOf, fromXmlReply]
  | bare =>
    simp only [readBody, hraw, bareLoop_refines cs hwf _ raw [] [.eof] hlen, replyAbs]
    cases bareAbs [] cs with
    | error e => simp [liftRest, outcomeOf]
    | ok b => simp [liftRest, outcomeOf, fromXmlReply]
  | load =>
    simp only [readBody, hraw, loadOuter_refines c cs hwf _ raw {} [.eof] hlen, replyAbs]
    cases loadAbs c {} cs with
    | error e => simp [liftRest, outcomeOf]
    | ok b => simp [liftRest, outcomeOf, fromXmlReply]

end Xml
