import Bgpfu.Spec.InstalledGrammar
import Bgpfu.Drive.Xml
import Bgpfu.Drive.Policy
import Bgpfu.Drive.Fetch
/-!
Driver ops of family `instev` (C01, read-back at event level).

  instev render <cfg>
      model op: `renderGetConfig` of the configuration → its event list in the `Drive/Xml.lean`
      encoding (compared verbatim with the tokenisation of the reply the harness rendered)
  instev readev <unescape-oracle> <prefix-oracle> <len-oracle> <events>
      model op: `agent::verif::read_installed` on the event list of a whole reply document →
      canonical result, same form as `plan read`: `err` | `ok:<name>:<v4 ranges>/<v6 ranges>;…`
  instev hyp <cfg> <unescape-oracle> <prefix-oracle> <len-oracle>
      spec op: the hypotheses of the C01 event-level theorems (`IOracle.Consistent`, `EncOK` for UTF-8)
      evaluated for the real libraries' answers on this configuration → `ok` | `violation <class>`

cfg       as for family `plan` (`Drive/Policy.lean`); texts must be UTF-8
oracles   `.` | entry;entry;…    a missing key is `bad-op`, never a default
  unescape  entry = `<hex raw>:<hex unescaped>` | `<hex raw>:!`       key: span of a `<name>` start tag
  prefix    entry = `<4|6><hex text>:<addr hex>/<len>` | `…:!`         key: family, trimmed `<address>` text
  len       entry = `<4|6><hex text>:<n>` | `…:!`                      key: family, one side of the trimmed
                                                                        `<choice-value>` text split at the first `-`
-/
namespace Xml.InstDrive
open Proto Xml
open Policy (Fam Range Str Installed)

/-! ### events → text -/

def showNs : Ns → String
  | .bound u => "b" ++ hexStr u
  | .unbound => "u"
  | .unknown => "k"

def showOptS : Option String → String
  | none => "n"
  | some s => "s" ++ hexStr s

def showAttr : AttrItem → String
  | .bad => "!"
  | .ok a => s!"{hexStr a.key}/{showNs a.ns}/{hexStr a.lname}/{showOptS a.value}"

def showAttrs (l : List AttrItem) : String := if l.isEmpty then "." else ";".intercalate (l.map showAttr)

def showTag (k : String) (t : Tag) : String :=
  s!"{k}|{showNs t.ns}|{hexStr t.lname}|{hexStr t.raw}|{showOptS t.span}|{showAttrs t.attrs}"

def showEv : Ev → String
  | .start t => showTag "S" t
  | .empty t => showTag "M" t
  | .end raw => "E|" ++ hexStr raw
  | .text s => "T|" ++ hexStr s
  | .cdata => "C"
  | .comment => "K"
  | .decl => "D"
  | .pi => "P"
  | .doctype => "Y"
  | .eof => "Z"
  | .error => "X"

def showEvs (l : List Ev) : String := if l.isEmpty then "." else ",".intercalate (l.map showEv)

/-! ### configurations -/

def toTTerm (kt : Str × Policy.JTerm) : Option TTerm := do
  let n ← strOf? kt.1
  let fam ← match kt.2.family with
    | none => some none
    | some f => (strOf? f).map some
  pure { name := n, family := fam, filters := kt.2.filters, accept := kt.2.accept }

def toTPolicy (np : Str × Policy.JPolicy) : Option TPolicy := do
  let n ← strOf? np.1
  let ts ← mapM? toTTerm np.2.terms
  pure { name := n, comment := np.2.comment, terms := ts, reject := np.2.thenReject }

def parseTCfg (s : String) : Option TCfg := do
  let cfg ← Policy.parseCfg s
  mapM? toTPolicy cfg

/-! ### oracles -/

abbrev FTable (α : Type) := List ((Fam × String) × Option α)

def parseFamKey (s : String) : Option (Fam × String) :=
  if s.startsWith "4" then (unhexStr (s.drop 1).toString).map (Fam.v4, ·)
  else if s.startsWith "6" then (unhexStr (s.drop 1).toString).map (Fam.v6, ·)
  else none

def parsePrefixVal (s : String) : Option (Nat × Nat) :=
  match s.splitOn "/" with
  | [a, l] => do
    let a ← Policy.parseHexNat a
    let l ← l.toNat?
    pure (a, l)
  | _ => none

def parseFEntry {α} (val : String → Option α) (s : String) : Option ((Fam × String) × Option α) :=
  match s.splitOn ":" with
  | [k, "!"] => (parseFamKey k).map (·, none)
  | [k, v] => do
    let k ← parseFamKey k
    let v ← val v
    pure (k, some v)
  | _ => none

def parseFTable {α} (val : String → Option α) (s : String) : Option (FTable α) :=
  if s == "." then some [] else mapM? (parseFEntry val) (s.splitOn ";")

def FTable.lookup {α} (t : FTable α) (f : Fam) (k : String) : Option (Option α) :=
  (t.find? fun e => e.1.1 == f && e.1.2 == k).map (·.2)
def FTable.fn {α} (t : FTable α) (f : Fam) (k : String) : Option α := (t.lookup f k).join
def FTable.has {α} (t : FTable α) (f : Fam) (k : String) : Bool := (t.lookup f k).isSome

def mkOracle (uo : FetchDrive.Table) (po : FTable (Nat × Nat)) (lo : FTable Nat) : IOracle :=
  { unescape := uo.fn, parsePrefix := po.fn, parseLen := lo.fn }

/-- the address texts the reader can hand to `Prefix::from_str` on these events -/
def prefixQueries (evs : List Ev) : List String :=
  evs.filterMap fun
    | .start t => if t.lname == "address" then t.span.map trim else none
    | _ => none

/-- the texts the reader can hand to `PrefixLength::from_str` on these events -/
def lenQueries (evs : List Ev) : List String :=
  evs.flatMap fun
    | .start t =>
      if t.lname == "choice-value" then
        match t.span with
        | some s => (match splitOnceS '-' (trim s) with | some (l, u) => [l, u] | none => [])
        | none => []
      else []
    | _ => []

def bothFams (has : Fam → String → Bool) (qs : List String) : Bool :=
  qs.all fun q => has .v4 q && has .v6 q

def showResult : Except Err (List (String × Installed)) → String
  | .error _ => "err"
  | .ok l => "ok:" ++ Policy.showInstalled (l.map fun x => (bytesOf x.1, x.2))

def showResultDbg : Except Err (List (String × Installed)) → String
  | .error e => s!"err:{repr e}"
  | r => showResult r

/-! ### the hypotheses of the theorems on a concrete configuration -/

def hypQueriesOk (c : TCfg) (uo : FetchDrive.Table) (po : FTable (Nat × Nat)) (lo : FTable Nat) : Bool :=
  c.all (fun p => uo.has (escS p.name))
  && bothFams po.has (c.ranges.map fun r => trim (prefixS r.v6 r.addr r.len))
  && bothFams lo.has (c.ranges.flatMap fun r => [lenS r.lo, lenS r.hi])

def hyp (c : TCfg) (o : IOracle) : String :=
  if !(c.all fun p => o.unescape (escS p.name) == some p.name) then "violation oracle-unescape"
  else match c.ranges.find? (fun r => !decide (RangeOK o r)) with
    | some r =>
      if decide (∀ f : Fam, o.parsePrefix f (trim (prefixS r.v6 r.addr r.len))
          = if r.v6 = f.isV6 ∧ r.len ≤ f.bits ∧ r.addr < 2 ^ f.bits
            then some (r.addr - r.addr % 2 ^ (f.bits - r.len), r.len) else none)
      then "violation oracle-len" else "violation oracle-prefix"
    | none => if decide (EncOK bytesOf c) then "ok" else "violation encoding"

def drive : List String → Option String
  | ["render", cfg] => do
    let c ← parseTCfg cfg
    pure (showEvs (renderGetConfig c))
  | ["readev", uo, po, lo, evs] => go uo po lo evs false
  | ["readev-dbg", uo, po, lo, evs] => go uo po lo evs true
  | ["hyp", cfg, uo, po, lo] => do
    let c ← parseTCfg cfg
    let uo ← FetchDrive.parseTable uo
    let po ← parseFTable parsePrefixVal po
    let lo ← parseFTable String.toNat? lo
    if hypQueriesOk c uo po lo then pure (hyp c (mkOracle uo po lo)) else none
  | _ => none
where
  go (uo po lo evs : String) (dbg : Bool) : Option String := do
    let uo ← FetchDrive.parseTable uo
    let po ← parseFTable parsePrefixVal po
    let lo ← parseFTable String.toNat? lo
    let evs ← parseEvs evs
    if (FetchDrive.unescapeQueries evs).all uo.has && bothFams po.has (prefixQueries evs)
        && bothFams lo.has (lenQueries evs) then
      let r := readInstalledDoc (mkOracle uo po lo) evs
      pure (if dbg then showResultDbg r else showResult r)
    else none

end Xml.InstDrive
