import Bgpfu.Model.Daemon
import Bgpfu.Drive.Proto
namespace Daemon
open Proto

def parseCfg (s : String) : Option Cfg :=
  if s == "fixed" then some .fixed else if s == "pinned" then some .pinned else none

/-- `1000f` / `250t`: duration in ms, outcome -/
def parseRun (s : String) : Option (Nat × Bool) :=
  match s.toList.reverse with
  | 'f' :: ds => (String.ofList ds.reverse).toNat?.map (·, false)
  | 't' :: ds => (String.ofList ds.reverse).toNat?.map (·, true)
  | _ => none

/-- `H61001` / `I70003` / `T5`: kind, time in ms -/
def parseSig (s : String) : Option (Nat × Sig) :=
  match s.toList with
  | 'H' :: ds => (String.ofList ds).toNat?.map (·, .hup)
  | 'I' :: ds => (String.ofList ds).toNat?.map (·, .int)
  | 'T' :: ds => (String.ofList ds).toNat?.map (·, .term)
  | _ => none

def sortedBy (l : List (Nat × Sig)) : Bool :=
  match l with
  | a :: b :: rest => a.1 ≤ b.1 && sortedBy (b :: rest)
  | _ => true

def showNats (l : List Nat) : String :=
  if l.isEmpty then "." else ",".intercalate (l.map toString)

def showExit : Option Nat → String
  | none => "-"
  | some t => toString t

def fuelFor (p horizon : Nat) (sigs : List (Nat × Sig)) : Nat :=
  2 * (horizon / min p minBackoff + 2) + 3 * sigs.length + 8

/-! ### the C19 predicate on an observed timeline

Inputs: the script the harness played (period, horizon, run durations/outcomes, signals) and what
the implementation was seen to do (start times of the runs, time at which the loop returned).
The predicate is the property text, not the model: it does not call `step`/`next`/`backoffNext`.
The first violated clause decides the class. -/

/-- (start, end, outcome) of the observed runs; runs beyond the script fail at once -/
def mkRuns : List Nat → List (Nat × Bool) → List (Nat × Nat × Bool)
  | [], _ => []
  | s :: ss, [] => (s, s, false) :: mkRuns ss []
  | s :: ss, (d, ok) :: rs => (s, s + d, ok) :: mkRuns ss rs

/-- earliest SIGHUP raised strictly after `t` (and before the exit signal, if any) -/
def firstHupAfter (sigs : List (Nat × Sig)) (q : Option Nat) (t : Nat) : Option Nat :=
  match sigs with
  | [] => none
  | (u, k) :: rest =>
    if k == .hup && t < u && (match q with | some q => u < q | none => true) then some u
    else firstHupAfter rest q t

/-- earliest SIGINT / SIGTERM raised up to the horizon -/
def firstExitSig (sigs : List (Nat × Sig)) (horizon : Nat) : Option Nat :=
  match sigs with
  | [] => none
  | (u, k) :: rest => if k != .hup && u ≤ horizon then some u else firstExitSig rest horizon

/-- the waits between consecutive runs.
`k` = consecutive failures before the current run, `prev` = the last retry delay of this streak
that ran to completion (was not cut short by a SIGHUP) -/
def checkWaits (p : Nat) (sigs : List (Nat × Sig)) (q : Option Nat) :
    (k : Nat) → (prev : Option Nat) → List (Nat × Nat × Bool) → Option String
  | _, _, [] => none
  | _, _, [_] => none
  | k, prev, (s, e, ok) :: (s', e', ok') :: rest =>
    let k' := if ok then 0 else k + 1
    if s' < e then some "overlapping-runs" else
    let d := s' - e
    let hupAt := (firstHupAfter sigs q s).map (max · e)
    match (match hupAt with | some u => if u ≤ s' then some u else none | none => none) with
    | some u =>
      -- a SIGHUP was pending before the next run started: the run must start at that instant
      if u < s' then some "hup-not-immediate"
      else checkWaits p sigs q k' (if ok then none else prev) ((s', e', ok') :: rest)
    | none =>
      -- the wait ran to completion
      if d = 0 then some "no-delay"
      else if ok then
        (if d ≠ p then some "success-not-restored"
         else checkWaits p sigs q 0 none ((s', e', ok') :: rest))
      else if k = 0 ∧ d ≠ minBackoff then some "first-retry-not-minute"
      else if d < max minBackoff (prev.getD minBackoff) then some "delay-shrinks"
      else if prev == some d ∧ d < max minBackoff p then some "delay-stalls"
      else if max minBackoff p < d then some "delay-exceeds-max"
      else checkWaits p sigs q k' (some d) ((s', e', ok') :: rest)

def lastRun : List (Nat × Nat × Bool) → Option (Nat × Nat × Bool)
  | [] => none
  | [r] => some r
  | _ :: rest => lastRun rest

def specVerdict (p horizon : Nat) (runs : List (Nat × Bool)) (sigs : List (Nat × Sig))
    (starts : List Nat) (exit : Option Nat) : String :=
  let rs := mkRuns starts runs
  match rs with
  | [] => "violation no-first-run"
  | (s₀, _, _) :: _ =>
    if s₀ ≠ 0 then "violation first-run-delayed" else
    -- exit signals
    let q := firstExitSig sigs horizon
    -- the instant at which the loop can observe the exit signal: at once while waiting, at the end
    -- of the run while a run is awaited
    let q' := q.map fun q => ((rs.find? fun (s, e, _) => s < q && q ≤ e).map fun (_, e, _) => e).getD q
    let exitBad : Option String :=
      match q, q' with
      | some q, some q' =>
        if starts.any (q < ·) then some "run-after-exit-signal"
        else if q' ≤ horizon then
          (match exit with
           | none => some "no-exit-on-signal"
           | some x => if x = q' then none else some "exit-at-wrong-time")
        else (if exit.isSome then some "spurious-exit" else none)
      | _, _ => if exit.isSome then some "spurious-exit" else none
    match exitBad with
    | some c => s!"violation {c}"
    | none =>
    match checkWaits p sigs q 0 none rs with
    | some c => s!"violation {c}"
    | none =>
    -- after the last observed run: the loop must not stall, and must honour a pending SIGHUP
    match lastRun rs with
    | none => "ok"
    | some (s, e, ok) =>
      let limit := match q' with | some q' => min q' (horizon + 1) | none => horizon + 1
      match (firstHupAfter sigs q s).map (max · e) with
      | some u => if u < limit then "violation hup-not-immediate" else "ok"
      | none =>
        let due := e + (if ok then p else max minBackoff p)
        if due < limit then "violation stalled" else "ok"

/-- ops:
  `const`                                             → `minBackoff=<ms>`
  `run <cfg> <period ms> <horizon ms> <runs> <sigs>`  → `starts=<list> exit=<ms|->`   (the model)
  `timeline <cfg> <period ms> <horizon ms> <runs> <sigs>` → the events, for debugging
  `spec <period ms> <horizon ms> <runs> <sigs> <observed starts> <observed exit>` → `ok` | `violation <class>`
-/
def drive : List String → Option String
  | ["const"] => pure s!"minBackoff={minBackoff}"
  | ["run", c, p, hz, runs, sigs] => do
    let c ← parseCfg c
    let p ← p.toNat?
    let hz ← hz.toNat?
    let runs ← mapM? parseRun (splitList runs)
    let sigs ← mapM? parseSig (splitList sigs)
    if p = 0 ∨ !sortedBy sigs then none
    let tl := schedule c p hz (fuelFor p hz sigs) init runs sigs
    pure s!"starts={showNats (starts tl)} exit={showExit (exitAt tl)}"
  | ["timeline", c, p, hz, runs, sigs] => do
    let c ← parseCfg c
    let p ← p.toNat?
    let hz ← hz.toNat?
    let runs ← mapM? parseRun (splitList runs)
    let sigs ← mapM? parseSig (splitList sigs)
    if p = 0 ∨ !sortedBy sigs then none
    let tl := schedule c p hz (fuelFor p hz sigs) init runs sigs
    let sh : Ev → String
      | .tick t => s!"S{t}" | .runDone t ok => (if ok then s!"K{t}" else s!"F{t}")
      | .hup t => s!"H{t}" | .int t => s!"I{t}" | .term t => s!"T{t}"
    pure (if tl.isEmpty then "." else ",".intercalate (tl.map sh))
  | ["spec", p, hz, runs, sigs, starts, exit] => do
    let p ← p.toNat?
    let hz ← hz.toNat?
    let runs ← mapM? parseRun (splitList runs)
    let sigs ← mapM? parseSig (splitList sigs)
    let starts ← mapM? String.toNat? (splitList starts)
    let exit ← if exit == "-" then some none else exit.toNat?.map some
    if p = 0 ∨ !sortedBy sigs then none
    pure (specVerdict p hz runs sigs starts exit)
  | _ => none

end Daemon
