import Bgpfu.Model.BuildSpec
import Bgpfu.Drive.Proto
/-! Line-protocol driver for C09 (family `build`).

  `build caps <cfg> <uris>`                            → `caps=<caps>` | `nosession`
  `build op <cfg> <sid> <caps> <op> <calls>`           → `ok <request>` | `err <kind>`
  `build spec <sid> <caps> <op> <calls> <outcome>`     → `ok` | `violation <class>`

`<uris>`   comma list of `<ann>` or `<ann>><unescaped query>` (hex; `!` = quick-xml rejects the
           references), where `<ann>` describes the raw span of the `<capability>` element:
           `<text>/<scheme>/<authority>/<path>/<query>/<fragment>` (all hex, `~` = absent component)
           or `<text>/!` (not a URI according to iri-string)
`<caps>`   comma list of `b10 b11 wr cand cc10 cc11 roe v10 v11 st xp junos unk url:<hex>+<hex>…`
           (`url:.` = no schemes)
`<cfg>`    `pinned` | `fixed` | `pinned+<fix>+…` with fixes `get`, `edit-startup`, `delete-candidate`,
           `cap-unescape`
`<outcome>` `sent:<request>` | `err:<kind>`
Requests are `name;key=value;…` (see `showRequest`). -/
namespace Builders
open Caps Rfc Proto

def strOfHex (s : String) : Option Str := (unhexStr s).map String.toList
def hexOfStr (s : Str) : String := hexStr (String.ofList s)

def optHex (s : String) : Option (Option Str) :=
  if s == "~" then some none else (strOfHex s).map some
def showOptHex : Option Str → String
  | none => "~"
  | some s => hexOfStr s

/-! ### capabilities -/

def parseUriItem (s : String) : Option (Str × Option UriParts) :=
  match s.splitOn "/" with
  | [raw, "!"] => do
    let raw ← strOfHex raw
    pure (raw, none)
  | [raw, sch, auth, path, q, frag] => do
    let raw ← strOfHex raw
    let sch ← strOfHex sch
    let auth ← optHex auth
    let path ← strOfHex path
    let q ← optHex q
    let frag ← optHex frag
    pure (raw, some { scheme := sch, authority := auth, path := path, query := q, fragment := frag })
  | _ => none

def parseCapText (s : String) : Option CapText :=
  match s.splitOn ">" with
  | [a] => (parseUriItem a).map fun x => { text := x.1, parts := x.2, queryUnescaped := .same }
  | [a, "!"] => (parseUriItem a).map fun x => { text := x.1, parts := x.2, queryUnescaped := .error }
  | [a, q] => do
    let x ← parseUriItem a
    let q ← strOfHex q
    pure { text := x.1, parts := x.2, queryUnescaped := .text q }
  | _ => none

def showCap : Capability → String
  | .base10 => "b10" | .base11 => "b11"
  | .writableRunning => "wr" | .candidate => "cand"
  | .confirmedCommit10 => "cc10" | .confirmedCommit11 => "cc11"
  | .rollbackOnError => "roe"
  | .validate10 => "v10" | .validate11 => "v11"
  | .startup => "st"
  | .url schemes => "url:" ++ (if schemes.isEmpty then "." else "+".intercalate (schemes.map hexOfStr))
  | .xpath => "xp"
  | .unknown _ => "unk"
  | .junos => "junos"

def parseCap (s : String) : Option Capability :=
  if s == "b10" then some .base10 else if s == "b11" then some .base11
  else if s == "wr" then some .writableRunning else if s == "cand" then some .candidate
  else if s == "cc10" then some .confirmedCommit10 else if s == "cc11" then some .confirmedCommit11
  else if s == "roe" then some .rollbackOnError
  else if s == "v10" then some .validate10 else if s == "v11" then some .validate11
  else if s == "st" then some .startup else if s == "xp" then some .xpath
  else if s == "junos" then some .junos else if s == "unk" then some (.unknown [])
  else if s.startsWith "url:" then
    let rest := (s.drop 4).toString
    if rest == "." then some (.url [])
    else (mapM? strOfHex (rest.splitOn "+")).map .url
  else none

/-- canonical form of a capability *set*: tokens sorted, duplicates removed -/
def showCaps (cs : List Capability) : String :=
  let toks := ((cs.map showCap).toArray.qsort (· < ·)).toList.eraseDups
  if toks.isEmpty then "." else ",".intercalate toks

def parseCaps (s : String) : Option (List Capability) := mapM? parseCap (splitList s)

/-! ### configuration -/

def applyFix (c : Cfg) (s : String) : Option Cfg :=
  if s == "get" then some { c with getFilterCheck := true }
  else if s == "edit-startup" then some { c with editStartupCheck := true }
  else if s == "delete-candidate" then some { c with deleteCandidateCheck := true }
  else if s == "cap-unescape" then some { c with capUnescape := true }
  else none

def parseCfg (s : String) : Option Cfg :=
  match s.splitOn "+" with
  | "fixed" :: [] => some .fixed
  | "pinned" :: fixes => fixes.foldlM applyFix .pinned
  | _ => none

/-! ### enumerations -/

def showDs : Datastore → String
  | .running => "running" | .candidate => "candidate" | .startup => "startup"
def parseDs (s : String) : Option Datastore :=
  if s == "running" then some .running else if s == "candidate" then some .candidate
  else if s == "startup" then some .startup else none

def showFilter : Option FilterType → String
  | none => "-" | some .subtree => "subtree" | some .xpath => "xpath"
def parseFilter (s : String) : Option (Option FilterType) :=
  if s == "-" ∨ s == "none" then some none else if s == "subtree" then some (some .subtree)
  else if s == "xpath" then some (some .xpath) else none

def showDefOp : DefaultOp → String
  | .merge => "merge" | .replace => "replace" | .none => "none"
def parseDefOp (s : String) : Option DefaultOp :=
  if s == "merge" then some .merge else if s == "replace" then some .replace
  else if s == "none" then some .none else none

def showErrOpt : ErrorOpt → String
  | .stopOnError => "stop-on-error" | .continueOnError => "continue-on-error"
  | .rollbackOnError => "rollback-on-error"
def parseErrOpt (s : String) : Option ErrorOpt :=
  if s == "stop-on-error" then some .stopOnError else if s == "continue-on-error" then some .continueOnError
  else if s == "rollback-on-error" then some .rollbackOnError else none

def showTestOpt : TestOpt → String
  | .testThenSet => "test-then-set" | .set => "set" | .testOnly => "test-only"
def parseTestOpt (s : String) : Option TestOpt :=
  if s == "test-then-set" then some .testThenSet else if s == "set" then some .set
  else if s == "test-only" then some .testOnly else none

def showFormat : LoadFormat → String
  | .text => "text" | .xml => "xml" | .json => "json"
def parseFormat (s : String) : Option LoadFormat :=
  if s == "text" then some .text else if s == "xml" then some .xml else if s == "json" then some .json else none

def showAction : LoadAction → String
  | .merge => "merge" | .override => "override" | .update => "update" | .replace => "replace" | .set => "set"
def parseAction (s : String) : Option LoadAction :=
  if s == "merge" then some .merge else if s == "override" then some .override
  else if s == "update" then some .update else if s == "replace" then some .replace
  else if s == "set" then some .set else none

def parseBool (s : String) : Option Bool :=
  if s == "1" then some true else if s == "0" then some false else none
def showBool (b : Bool) : String := if b then "1" else "0"

def optOf {α} (f : String → Option α) (s : String) : Option (Option α) :=
  if s == "-" then some none else (f s).map some
def showOpt {α} (f : α → String) : Option α → String
  | none => "-" | some x => f x

/-! ### requests -/

def showEp : Endpoint → String
  | .ds d => showDs d
  | .config => "config"
  | .url s => "url:" ++ hexOfStr s
def parseEp (s : String) : Option Endpoint :=
  if s == "config" then some .config
  else if s.startsWith "url:" then (strOfHex (s.drop 4).toString).map .url
  else (parseDs s).map .ds

def showContent : Content → String
  | .config => "config"
  | .url s => "url:" ++ hexOfStr s
def parseContent (s : String) : Option Content :=
  if s == "config" then some .config
  else if s.startsWith "url:" then (strOfHex (s.drop 4).toString).map .url
  else none

def showAtTime : AtTime → String
  | .reboot => "reboot" | .time => "time" | .dateTime => "datetime"
def parseAtTime (s : String) : Option AtTime :=
  if s == "reboot" then some .reboot else if s == "time" then some .time
  else if s == "datetime" then some .dateTime else none

def showSync : Option Bool → String
  | none => "-" | some false => "synchronize" | some true => "force-synchronize"
def parseSync (s : String) : Option (Option Bool) :=
  if s == "-" then some none else if s == "synchronize" then some (some false)
  else if s == "force-synchronize" then some (some true) else none

def showRequest : Request → String
  | .get f => s!"get;filter={showFilter f}"
  | .getConfig s f => s!"get-config;source={showEp s};filter={showFilter f}"
  | .editConfig t d e to c =>
    s!"edit-config;target={showEp t};default-operation={showOpt showDefOp d};error-option={showOpt showErrOpt e};test-option={showOpt showTestOpt to};content={showContent c}"
  | .copyConfig t s => s!"copy-config;target={showEp t};source={showEp s}"
  | .deleteConfig t => s!"delete-config;target={showEp t}"
  | .lock t => s!"lock;target={showEp t}"
  | .unlock t => s!"unlock;target={showEp t}"
  | .killSession n => s!"kill-session;session-id={n}"
  | .commit c t p pid =>
    s!"commit;confirmed={showBool c};confirm-timeout={showOpt toString t};persist={showOptHex p};persist-id={showOptHex pid}"
  | .cancelCommit pid => s!"cancel-commit;persist-id={showOptHex pid}"
  | .discardChanges => "discard-changes"
  | .validate s => s!"validate;source={showEp s}"
  | .closeSession => "close-session"
  | .junos .closeConfiguration => "close-configuration"
  | .junos .lockConfiguration => "lock-configuration"
  | .junos .unlockConfiguration => "unlock-configuration"
  | .junos (.openConfiguration .priv) => "open-configuration;target=private"
  | .junos (.openConfiguration .ephemeral) => "open-configuration;target=ephemeral"
  | .junos (.openConfiguration (.ephemeralInstance n)) => s!"open-configuration;target=instance:{hexOfStr n}"
  | .junos (.loadConfiguration .rescue) => "load-configuration;source=rescue"
  | .junos (.loadConfiguration (.config f a)) => s!"load-configuration;source=config:{showFormat f}:{showAction a}"
  | .junos (.loadConfiguration .other) => "load-configuration;source=other"
  | .junos (.commitConfiguration ck atT cf tm log sy) =>
    s!"commit-configuration;check={showBool ck};at-time={showOpt showAtTime atT};confirmed={showBool cf};confirm-timeout={showOpt toString tm};log={showOptHex log};sync={showSync sy}"

/-- value of `key=` in a `;`-separated field list (exact position and key required) -/
def field (key : String) (s : String) : Option String :=
  if s.startsWith (key ++ "=") then some (s.drop (key.length + 1)).toString else none

def parseRequest (s : String) : Option Request :=
  match s.splitOn ";" with
  | ["get", f] => do
    let f ← (field "filter" f).bind parseFilter
    pure (.get f)
  | ["get-config", src, f] => do
    let src ← (field "source" src).bind parseEp
    let f ← (field "filter" f).bind parseFilter
    pure (.getConfig src f)
  | ["edit-config", t, d, e, to, c] => do
    let t ← (field "target" t).bind parseEp
    let d ← (field "default-operation" d).bind (optOf parseDefOp)
    let e ← (field "error-option" e).bind (optOf parseErrOpt)
    let to ← (field "test-option" to).bind (optOf parseTestOpt)
    let c ← (field "content" c).bind parseContent
    pure (.editConfig t d e to c)
  | ["copy-config", t, src] => do
    let t ← (field "target" t).bind parseEp
    let src ← (field "source" src).bind parseEp
    pure (.copyConfig t src)
  | ["delete-config", t] => do
    let t ← (field "target" t).bind parseEp
    pure (.deleteConfig t)
  | ["lock", t] => do
    let t ← (field "target" t).bind parseEp
    pure (.lock t)
  | ["unlock", t] => do
    let t ← (field "target" t).bind parseEp
    pure (.unlock t)
  | ["kill-session", n] => do
    let n ← (field "session-id" n).bind String.toNat?
    pure (.killSession n)
  | ["commit", c, t, p, pid] => do
    let c ← (field "confirmed" c).bind parseBool
    let t ← (field "confirm-timeout" t).bind (optOf String.toNat?)
    let p ← (field "persist" p).bind optHex
    let pid ← (field "persist-id" pid).bind optHex
    pure (.commit c t p pid)
  | ["cancel-commit", pid] => do
    let pid ← (field "persist-id" pid).bind optHex
    pure (.cancelCommit pid)
  | ["discard-changes"] => some .discardChanges
  | ["validate", src] => do
    let src ← (field "source" src).bind parseEp
    pure (.validate src)
  | ["close-session"] => some .closeSession
  | ["close-configuration"] => some (.junos .closeConfiguration)
  | ["lock-configuration"] => some (.junos .lockConfiguration)
  | ["unlock-configuration"] => some (.junos .unlockConfiguration)
  | ["open-configuration", t] => do
    let t ← field "target" t
    if t == "private" then pure (.junos (.openConfiguration .priv))
    else if t == "ephemeral" then pure (.junos (.openConfiguration .ephemeral))
    else if t.startsWith "instance:" then do
      let n ← strOfHex (t.drop 9).toString
      pure (.junos (.openConfiguration (.ephemeralInstance n)))
    else none
  | ["load-configuration", src] => do
    let src ← field "source" src
    if src == "rescue" then pure (.junos (.loadConfiguration .rescue))
    else if src == "other" then pure (.junos (.loadConfiguration .other))
    else match src.splitOn ":" with
      | ["config", f, a] => do
        let f ← parseFormat f
        let a ← parseAction a
        pure (.junos (.loadConfiguration (.config f a)))
      | _ => none
  | ["commit-configuration", ck, atT, cf, tm, log, sy] => do
    let ck ← (field "check" ck).bind parseBool
    let atT ← (field "at-time" atT).bind (optOf parseAtTime)
    let cf ← (field "confirmed" cf).bind parseBool
    let tm ← (field "confirm-timeout" tm).bind (optOf String.toNat?)
    let log ← (field "log" log).bind optHex
    let sy ← (field "sync" sy).bind parseSync
    pure (.junos (.commitConfiguration ck atT cf tm log sy))
  | _ => none

/-! ### builds -/

def arg (key : String) (s : String) : Option String :=
  if s.startsWith (key ++ ":") then some (s.drop (key.length + 1)).toString else none

def parseUrlArg (s : String) : Option UrlArg :=
  if s == "!" then some none else (strOfHex s).map some

def firstSome {α} : List (Option α) → Option α
  | [] => none
  | some x :: _ => some x
  | none :: rest => firstSome rest

def parseGetCall (s : String) : Option Get.Call :=
  ((arg "filter" s).bind parseFilter).map .filter

def parseGetConfigCall (s : String) : Option GetConfig.Call :=
  firstSome [((arg "source" s).bind parseDs).map .source, ((arg "filter" s).bind parseFilter).map .filter]

def parseEditCall (s : String) : Option EditConfig.Call :=
  if s == "config" then some .config else
  firstSome [((arg "target" s).bind parseDs).map .target,
    ((arg "url" s).bind parseUrlArg).map .url,
    ((arg "defop" s).bind parseDefOp).map .defaultOperation,
    ((arg "erropt" s).bind parseErrOpt).map .errorOption,
    ((arg "testopt" s).bind parseTestOpt).map .testOption]

def parseCopyCall (s : String) : Option CopyConfig.Call :=
  if s == "config" then some .config else
  firstSome [((arg "target" s).bind parseDs).map .target, ((arg "source" s).bind parseDs).map .source]

def parseDeleteCall (s : String) : Option DeleteConfig.Call :=
  firstSome [((arg "target" s).bind parseDs).map .target, ((arg "url" s).bind parseUrlArg).map .url]

def parseLockCall (s : String) : Option Lock.Call :=
  ((arg "target" s).bind parseDs).map .target

def parseKillCall (s : String) : Option KillSession.Call :=
  ((arg "sid" s).bind String.toNat?).map .sessionId

def parseCommitCall (s : String) : Option Commit.Call :=
  firstSome [((arg "confirmed" s).bind parseBool).map .confirmed,
    ((arg "timeout" s).bind String.toNat?).map .confirmTimeout,
    ((arg "persist-id" s).bind optHex).map .persistId,
    ((arg "persist" s).bind optHex).map .persist]

def parseCancelCall (s : String) : Option CancelCommit.Call :=
  ((arg "persist-id" s).bind optHex).map .persistId

def parseValidateCall (s : String) : Option Validate.Call :=
  if s == "config" then some .config else ((arg "source" s).bind parseDs).map .source

def parseOpenCall (s : String) : Option OpenConfiguration.Call :=
  if s == "private" then some .priv else ((arg "ephemeral" s).bind optHex).map .ephemeral

def parseLoadCall (s : String) : Option LoadConfiguration.Call :=
  match s.splitOn ":" with
  | ["source", "rescue"] => some (.source .rescue)
  | ["source", f, a] => do
    let f ← parseFormat f
    let a ← parseAction a
    pure (.source (.config f a))
  | _ => none

def parseCommitCfgCall (s : String) : Option CommitConfiguration.Call :=
  if s == "now" then some .now else if s == "at-reboot" then some .atReboot
  else if s == "today-at" then some .todayAt else if s == "at" then some .atDateTime
  else firstSome [((arg "check" s).bind parseBool).map .check,
    ((arg "confirmed-timeout" s).bind String.toNat?).map .confirmedWithTimeout,
    ((arg "confirmed" s).bind parseBool).map .confirmed,
    ((arg "log" s).bind strOfHex).map .withLogMessage,
    ((arg "sync" s).bind parseBool).map .synchronize]

def noCalls (cs : String) (b : Build) : Option Build := if cs == "." then some b else none

def parseBuild (op cs : String) : Option Build :=
  let l := splitList cs
  if op == "get" then (mapM? parseGetCall l).map .get
  else if op == "get-config" then (mapM? parseGetConfigCall l).map .getConfig
  else if op == "edit-config" then (mapM? parseEditCall l).map .editConfig
  else if op == "copy-config" then (mapM? parseCopyCall l).map .copyConfig
  else if op == "delete-config" then (mapM? parseDeleteCall l).map .deleteConfig
  else if op == "lock" then (mapM? parseLockCall l).map .lock
  else if op == "unlock" then (mapM? parseLockCall l).map .unlock
  else if op == "kill-session" then (mapM? parseKillCall l).map .killSession
  else if op == "commit" then (mapM? parseCommitCall l).map .commit
  else if op == "cancel-commit" then (mapM? parseCancelCall l).map .cancelCommit
  else if op == "discard-changes" then noCalls cs .discardChanges
  else if op == "validate" then (mapM? parseValidateCall l).map .validate
  else if op == "close-session" then noCalls cs .closeSession
  else if op == "close-configuration" then noCalls cs .closeConfiguration
  else if op == "lock-configuration" then noCalls cs .lockConfiguration
  else if op == "unlock-configuration" then noCalls cs .unlockConfiguration
  else if op == "open-configuration" then (mapM? parseOpenCall l).map .openConfiguration
  else if op == "load-configuration" then (mapM? parseLoadCall l).map .loadConfiguration
  else if op == "commit-configuration" then (mapM? parseCommitCfgCall l).map .commitConfiguration
  else none

def showErr : ErrKind → String
  | .unsupportedOperation => "unsupported-operation"
  | .unsupportedOperationParameter => "unsupported-operation-parameter"
  | .unsupportedOperParameterValue => "unsupported-oper-parameter-value"
  | .unsupportedSource => "unsupported-source"
  | .unsupportedTarget => "unsupported-target"
  | .unsupportedLockTarget => "unsupported-lock-target"
  | .unsupportedUrlScheme => "unsupported-url-scheme"
  | .unsupportedFilterType => "unsupported-filter-type"
  | .missingOperationParameter => "missing-operation-parameter"
  | .incompatibleOperationParameters => "incompatible-operation-parameters"
  | .urlParse => "url-parse"
  | .deleteRunningConfig => "delete-running-config"
  | .invalidSessionId => "invalid-session-id"
  | .killCurrentSession => "kill-current-session"

def allErrs : List ErrKind :=
  [.unsupportedOperation, .unsupportedOperationParameter, .unsupportedOperParameterValue,
   .unsupportedSource, .unsupportedTarget, .unsupportedLockTarget, .unsupportedUrlScheme,
   .unsupportedFilterType, .missingOperationParameter, .incompatibleOperationParameters,
   .urlParse, .deleteRunningConfig, .invalidSessionId, .killCurrentSession]

def parseErr (s : String) : Option ErrKind := allErrs.find? fun e => showErr e == s

/-! ### the specification predicate (RFC table on the observed behaviour) -/

/-- `sent r`: every entry of the RFC table for `r` must hold.
    `refused`: a local refusal must be attributable to something — a requirement of the RFC
    table that does not hold for the operation or one of the calls, an invalid argument, or an
    incomplete / incompatible call sequence (contrapositive of `permitted_implies_buildable`). -/
def specVerdict (ctx : Ctx) (b : Build) : Except ErrKind Request → String
  | .ok r =>
    match firstViolation ctx.caps r with
    | some cls => s!"violation {cls}"
    | none => "ok"
  | .error e =>
    let permitted := (opRequires b).all (·.check ctx.caps) && (callsRequire b).all (·.check ctx.caps)
    if permitted && argsValid ctx b && complete b then "violation refused-permitted-request"
    else if permitted && e.isCapabilityError then "violation refused-permitted-request"
    else "ok"

def parseOutcome (s : String) : Option (Except ErrKind Request) :=
  if s.startsWith "sent:" then (parseRequest (s.drop 5).toString).map .ok
  else if s.startsWith "err:" then (parseErr (s.drop 4).toString).map .error
  else none

def drive : List String → Option String
  | ["caps", cfg, uris] => do
    let cfg ← parseCfg cfg
    let items ← mapM? parseCapText (splitList uris)
    match parseCapabilities cfg.capUnescape items with
    | some cs => pure s!"caps={showCaps cs}"
    | none => pure "nosession"
  | ["op", cfg, sid, caps, op, calls] => do
    let cfg ← parseCfg cfg
    let sid ← sid.toNat?
    let caps ← parseCaps caps
    let b ← parseBuild op calls
    match build cfg { caps := caps, sessionId := sid } b with
    | .ok r => pure s!"ok {showRequest r}"
    | .error e => pure s!"err {showErr e}"
  | ["spec", sid, caps, op, calls, outcome] => do
    let sid ← sid.toNat?
    let caps ← parseCaps caps
    let b ← parseBuild op calls
    let o ← parseOutcome outcome
    pure (specVerdict { caps := caps, sessionId := sid } b o)
  | _ => none

end Builders
