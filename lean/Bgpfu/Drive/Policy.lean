import Bgpfu.Model.Junos
import Bgpfu.Drive.Proto
/-!
Driver ops of family `plan` (C01, C02, C03).

Encodings (no spaces; text = hex of UTF-8 bytes, `-` = empty text, `!` = absent):
  range    `4.<addr hex>.<len>.<lo>.<hi>` | `6.…`            list: `.` | r,r,…
  cfg      `.` | policy;policy;…     policy = name:comment:(r|n):terms
           terms = `.` | term+term+…   term = name/family/(a|n)/ranges
  running  `.` | stmt;stmt;…         stmt = name:ann:(a|i):(r|n):eval
           ann = n | m | p<expr>     eval = `!` | v4ranges/v6ranges   (IRR result for that expression)
  payloads `err` | `.` | payload|payload|…    payload = entry,entry,…  (elements in document order)
           entry = tag/tag/…?attrs?text      attrs = `!` | key=valhex&…     text = `!` | hex
           (the text of an `address` element is the hex of the canonical `4.<addr hex>.<len>`)
  variant  pinned | fixed | three letters p/f for (D9 empty family, D10 malformed, D15 raw names)
-/
namespace Policy
open Proto

/-! ### parsing -/

def parseHexNat (s : String) : Option Nat :=
  if s.isEmpty then none
  else s.toList.foldlM (fun acc c => (hexDigit c).map (acc * 16 + ·)) 0

def parseStr (s : String) : Option Str := unhex s

def parseOptStr (s : String) : Option (Option Str) :=
  if s == "!" then some none else (unhex s).map some

def parseRangeParts : List String → Option Range
  | [f, a, l, lo, hi] => do
    let v6 ← if f == "4" then some false else if f == "6" then some true else none
    let a ← parseHexNat a
    let l ← l.toNat?
    let lo ← lo.toNat?
    let hi ← hi.toNat?
    pure ⟨v6, a, l, lo, hi⟩
  | _ => none

def parseRange (s : String) : Option Range := parseRangeParts (s.splitOn ".")

def parseRanges (s : String) : Option (List Range) := mapM? parseRange (splitList s)

def parseFlag (t f : String) (s : String) : Option Bool :=
  if s == t then some true else if s == f then some false else none

def parseTerm (s : String) : Option (Str × JTerm) :=
  match s.splitOn "/" with
  | [n, fam, a, fs] => do
    let n ← parseStr n
    let fam ← parseOptStr fam
    let a ← parseFlag "a" "n" a
    let fs ← parseRanges fs
    pure (n, ⟨fam, fs, a⟩)
  | _ => none

def parseListSep (sep : String) {α} (f : String → Option α) (s : String) : Option (List α) :=
  if s == "." then some [] else mapM? f (s.splitOn sep)

def parsePolicy (s : String) : Option (Str × JPolicy) :=
  match s.splitOn ":" with
  | [n, c, r, ts] => do
    let n ← parseStr n
    let c ← parseOptStr c
    let r ← parseFlag "r" "n" r
    let ts ← parseListSep "+" parseTerm ts
    pure (n, ⟨c, ts, r⟩)
  | _ => none

def parseCfg (s : String) : Option JCfg := parseListSep ";" parsePolicy s

def parseVariant (s : String) : Option Cfg :=
  if s == "pinned" then some .pinned
  else if s == "fixed" then some .fixed
  else match s.toList with
    | [a, b, c] => do
      let a ← parseFlag "f" "p" (String.singleton a)
      let b ← parseFlag "f" "p" (String.singleton b)
      let c ← parseFlag "f" "p" (String.singleton c)
      pure ⟨a, b, c⟩
    | _ => none

abbrev EvalRes := Option (List Range × List Range)

def parseEval (s : String) : Option EvalRes :=
  if s == "!" then some none
  else match s.splitOn "/" with
    | [a, b] => do
      let a ← parseRanges a
      let b ← parseRanges b
      pure (some (a, b))
    | _ => none

def parseAnn (s : String) : Option Ann :=
  if s == "n" then some .none
  else if s == "m" then some .malformed
  else if s.startsWith "p" then (parseStr (s.drop 1).toString).map .parsed
  else none

def parseStmt (s : String) : Option (RStmt × EvalRes) :=
  match s.splitOn ":" with
  | [n, ann, a, r, e] => do
    let n ← parseStr n
    let ann ← parseAnn ann
    let a ← parseFlag "a" "i" a
    let r ← parseFlag "r" "n" r
    let e ← parseEval e
    pure (⟨n, ann, a, r⟩, e)
  | _ => none

def parseRunning (s : String) : Option (List (RStmt × EvalRes)) := parseListSep ";" parseStmt s

/-- the IRR oracle described by the running line: expression ↦ evaluation result -/
def oracleOf (rs : List (RStmt × EvalRes)) (e : Str) : EvalRes :=
  match rs.find? (fun se => se.1.ann == .parsed e) with
  | some se => se.2
  | none => none

/-! ### payload entries → patch tree -/

structure Entry where
  path : List String
  attrs : List (String × Str)
  text : Option Str

def parseAttr (s : String) : Option (String × Str) :=
  match s.splitOn "=" with
  | [k, v] => (unhex v).map (k, ·)
  | _ => none

def parseEntry (s : String) : Option Entry :=
  match s.splitOn "?" with
  | [p, a, t] => do
    let a ← if a == "!" then some [] else mapM? parseAttr (a.splitOn "&")
    let t ← parseOptStr t
    pure ⟨p.splitOn "/", a, t⟩
  | _ => none

def parsePayload (s : String) : Option (List Entry) := mapM? parseEntry (s.splitOn ",")

def parsePayloads (s : String) : Option (Option (List (List Entry))) :=
  if s == "err" then some none
  else (parseListSep "|" parsePayload s).map some

/-- split the entries below `base` into children (head element, its descendants) -/
def groups (base : List String) : Nat → List Entry → Option (List (Entry × List Entry))
  | _, [] => some []
  | 0, _ => none
  | fuel + 1, e :: rest =>
    if e.path.length == base.length + 1 && base.isPrefixOf e.path then
      let desc := rest.takeWhile (fun x => e.path.isPrefixOf x.path && decide (x.path.length > e.path.length))
      let others := rest.dropWhile (fun x => e.path.isPrefixOf x.path && decide (x.path.length > e.path.length))
      (groups base fuel others).map ((e, desc) :: ·)
    else none

def lastTag (e : Entry) : String := e.path.getLast?.getD ""

def attr? (e : Entry) (k : String) : Option Str := (e.attrs.find? (·.1 == k)).map (·.2)

/-- `delete="delete"` or no attribute at all (`extra` = other attribute names that are allowed) -/
def delFlag (e : Entry) (extra : List String) : Option Bool :=
  if e.attrs.all (fun kv => kv.1 == "delete" || extra.contains kv.1) then
    match attr? e "delete" with
    | none => some false
    | some v => if v == bytesOf "delete" then some true else none
  else none

def plain (e : Entry) : Bool := e.attrs.isEmpty

def digitsNat (bs : List Nat) : Option Nat :=
  if bs.isEmpty then none
  else bs.foldlM (fun acc b => if 48 ≤ b ∧ b ≤ 57 then some (acc * 10 + (b - 48)) else none) 0

def splitAt (sep : Nat) (bs : List Nat) : List (List Nat) :=
  let r := bs.foldr (fun b (acc : List Nat × List (List Nat)) =>
    if b == sep then ([], acc.1 :: acc.2) else (b :: acc.1, acc.2)) ([], [])
  r.1 :: r.2

/-- canonical address text `4.<hex>.<len>` (written by the harness for `address` elements) -/
def parseAddr (bs : Str) : Option (Bool × Nat × Nat) :=
  match strOf? bs with
  | none => none
  | some s =>
    match s.splitOn "." with
    | [f, a, l] => do
      let v6 ← if f == "4" then some false else if f == "6" then some true else none
      let a ← parseHexNat a
      let l ← l.toNat?
      pure (v6, a, l)
    | _ => none

/-- text of `prefix-length-range`: slash lo dash slash hi -/
def parseLenRange (bs : Str) : Option (Nat × Nat) :=
  match splitAt 45 bs with
  | [47 :: lo, 47 :: hi] => do
    let lo ← digitsNat lo
    let hi ← digitsNat hi
    pure (lo, hi)
  | _ => none

def parseRouteFilter (e : Entry) (desc : List Entry) : Option PFilter := do
  let del ← delFlag e []
  match ← groups e.path (desc.length + 1) desc with
  | [(a, []), (l, [])] =>
    if lastTag a == "address" && lastTag l == "prefix-length-range" && plain a && plain l then do
      let (v6, addr, len) ← parseAddr (← a.text)
      let (lo, hi) ← parseLenRange (← l.text)
      pure ⟨del, ⟨v6, addr, len, lo, hi⟩⟩
    else none
  | _ => none

def parseFrom (e : Entry) (desc : List Entry) : Option PFrom := do
  if !plain e || e.text.isSome then none
  let gs ← groups e.path (desc.length + 1) desc
  -- `<family>` (at most one, first) then route-filters
  match gs with
  | (f, []) :: rest =>
    if lastTag f == "family" then do
      if !plain f then none
      let fam ← f.text
      let fs ← mapM? (fun (g : Entry × List Entry) =>
        if lastTag g.1 == "route-filter" then parseRouteFilter g.1 g.2 else none) rest
      pure ⟨some fam, fs⟩
    else do
      let fs ← mapM? (fun (g : Entry × List Entry) =>
        if lastTag g.1 == "route-filter" then parseRouteFilter g.1 g.2 else none) gs
      pure ⟨none, fs⟩
  | _ => do
    let fs ← mapM? (fun (g : Entry × List Entry) =>
      if lastTag g.1 == "route-filter" then parseRouteFilter g.1 g.2 else none) gs
    pure ⟨none, fs⟩

def isThen (what : String) (e : Entry) (desc : List Entry) : Bool :=
  lastTag e == "then" && plain e && e.text.isNone &&
  match desc with
  | [x] => x.path == e.path ++ [what] && plain x && x.text.isNone
  | _ => false

def parsePTerm (e : Entry) (desc : List Entry) : Option PTerm := do
  let del ← delFlag e []
  if e.text.isSome then none
  match ← groups e.path (desc.length + 1) desc with
  | (n, []) :: rest =>
    if lastTag n == "name" && plain n then do
      let name ← n.text
      match rest with
      | [] => pure ⟨del, name, none, false⟩
      | [(x, dx)] =>
        if lastTag x == "from" then do pure ⟨del, name, some (← parseFrom x dx), false⟩
        else if isThen "accept" x dx then pure ⟨del, name, none, true⟩
        else none
      | [(x, dx), (y, dy)] =>
        if lastTag x == "from" && isThen "accept" y dy then do
          pure ⟨del, name, some (← parseFrom x dx), true⟩
        else none
      | _ => none
    else none
  | _ => none

def splitLast {α} (l : List α) : Option (List α × α) :=
  match l.reverse with
  | [] => none
  | x :: r => some (r.reverse, x)

/-- one payload → patch tree; `none` = something the reference model does not know -/
def parsePatch (es : List Entry) : Option PStmt := do
  match ← groups [] (es.length + 1) es with
  | [(c, d1)] =>
    if !(c.path == ["configuration"] && plain c && c.text.isNone) then none
    match ← groups c.path (d1.length + 1) d1 with
    | [(po, d2)] =>
      if !(lastTag po == "policy-options" && plain po && po.text.isNone) then none
      match ← groups po.path (d2.length + 1) d2 with
      | [(ps, d3)] =>
        if !(lastTag ps == "policy-statement" && ps.text.isNone) then none
        let del ← delFlag ps ["junos:comment"]
        let comment := attr? ps "junos:comment"
        match ← groups ps.path (d3.length + 1) d3 with
        | (n, []) :: rest =>
          if !(lastTag n == "name" && plain n) then none
          let name ← n.text
          let (termGs, reject) :=
            match splitLast rest with
            | some (init, (x, dx)) => if isThen "reject" x dx then (init, true) else (rest, false)
            | none => (rest, false)
          let terms ← mapM? (fun (g : Entry × List Entry) =>
            if lastTag g.1 == "term" then parsePTerm g.1 g.2 else none) termGs
          pure ⟨del, comment, name, terms, reject⟩
        | _ => none
      | _ => none
    | _ => none
  | _ => none

/-! ### canonical output -/

def natHex (n : Nat) : String := String.ofList (Nat.toDigits 16 n)

def showRange (r : Range) : String :=
  s!"{if r.v6 then "6" else "4"}.{natHex r.addr}.{r.len}.{r.lo}.{r.hi}"

def rangeLe (a b : Range) : Bool :=
  let ka := (a.v6.toNat, a.addr, a.len, a.lo, a.hi)
  let kb := (b.v6.toNat, b.addr, b.len, b.lo, b.hi)
  if ka.1 != kb.1 then ka.1 < kb.1
  else if ka.2.1 != kb.2.1 then ka.2.1 < kb.2.1
  else if ka.2.2.1 != kb.2.2.1 then ka.2.2.1 < kb.2.2.1
  else if ka.2.2.2.1 != kb.2.2.2.1 then ka.2.2.2.1 < kb.2.2.2.1
  else ka.2.2.2.2 ≤ kb.2.2.2.2

def insertBy {α} (le : α → α → Bool) (x : α) : List α → List α
  | [] => [x]
  | y :: ys => if le x y then x :: y :: ys else y :: insertBy le x ys

def sortBy {α} (le : α → α → Bool) (l : List α) : List α := l.foldr (insertBy le) []

def showList (l : List String) (sep : String) : String :=
  if l.isEmpty then "." else sep.intercalate l

def showRanges (rs : List Range) : String := showList (rs.map showRange) ","
def showRangeSet (rs : List Range) : String := showRanges (sortBy rangeLe (dedup rs))

def showOptStr : Option Str → String
  | none => "!"
  | some s => hex s

def showTerm (kt : Str × JTerm) : String :=
  s!"{hex kt.1}/{showOptStr kt.2.family}/{if kt.2.accept then "a" else "n"}/{showRanges kt.2.filters}"

def showPolicy (np : Str × JPolicy) : String :=
  s!"{hex np.1}:{showOptStr np.2.comment}:{if np.2.thenReject then "r" else "n"}:{showList (np.2.terms.map showTerm) "+"}"

def showCfg (c : JCfg) : String := showList (c.map showPolicy) ";"

def showErr : Err → String
  | .stmtNotFound => "stmt-not-found"
  | .termNotFound => "term-not-found"
  | .filterNotFound => "filter-not-found"
  | .badDelete => "bad-delete"
  | .dupPolicy => "dup-policy"
  | .noThen => "no-then"
  | .noFrom => "no-from"
  | .nameMismatch => "name-mismatch"
  | .unknownFamily => "unknown-family"
  | .dupFamily => "dup-family"
  | .badRange => "bad-range"

def strLe (a b : Str) : Bool := hex a ≤ hex b

def showInstalled (l : List (Str × Installed)) : String :=
  showList ((sortBy (fun a b => strLe a.1 b.1) l).map fun ni =>
    s!"{hex ni.1}:{showRangeSet ni.2.v4}/{showRangeSet ni.2.v6}") ";"

/-- canonical form of a patch: route-filters sorted (deletes first) -/
def canonPatch (p : PStmt) : PStmt :=
  { p with terms := p.terms.map fun t =>
      { t with frm := t.frm.map fun f =>
          { f with filters := sortBy (fun a b =>
              if a.del != b.del then a.del else rangeLe a.r b.r) f.filters } } }

def showPFilter (f : PFilter) : String := (if f.del then "d" else "a") ++ showRange f.r

def showPTerm (t : PTerm) : String :=
  let f := match t.frm with
    | none => "!"
    | some f => s!"{showOptStr f.family}~{showList (f.filters.map showPFilter) ","}"
  s!"{if t.del then "D" else "U"}/{hex t.name}/{f}/{if t.accept then "a" else "n"}"

def showPStmt (p : PStmt) : String :=
  s!"{if p.del then "D" else "U"}:{showOptStr p.comment}:{hex p.name}:{if p.reject then "r" else "n"}:{showList (p.terms.map showPTerm) "+"}"

def canonPatches (ps : List PStmt) : List PStmt :=
  sortBy (fun a b => strLe a.name b.name) (ps.map canonPatch)

/-! ### specification predicates on the implementation's observed behaviour -/

/-- the marked statements with their (true) names and what the IRR said -/
structure Target where
  name : Str
  malformed : Bool
  eval : EvalRes

def targets (rs : List (RStmt × EvalRes)) : List Target :=
  rs.filterMap fun se =>
    if se.1.marked then
      some ⟨se.1.name, se.1.ann == .malformed, if se.1.ann == .malformed then none else se.2⟩
    else none

def findTarget (ts : List Target) (n : Str) : Option Target := ts.find? (·.name == n)

/-- the marked statement a payload name refers to; tolerant of a name that was sent still escaped
(that defect is reported by the C01 predicate as `name-mangled`, not by C02/C03) -/
def findTargetEsc (ts : List Target) (n : Str) : Option Target :=
  match findTarget ts n with
  | some t => some t
  | none => ts.find? (fun t => xmlEsc t.name == n)

/-- statement names are unique in a Junos configuration; duplicates only exercise the readers -/
def inDomain (rs : List (RStmt × EvalRes)) : Bool := decide (rs.map (·.1.name)).Nodup

def hasMeta (rs : List (RStmt × EvalRes)) (cfg : JCfg) : Bool :=
  (rs.map (·.1.name) ++ keys cfg).any (fun n => xmlEsc n != n)

def viol (mangled : Bool) (cls : String) : String :=
  if mangled then "violation name-mangled" else s!"violation {cls}"

def applyImpl (cfg : JCfg) (ps : List PStmt) : Except Err JCfg := applyAll cfg ps

def rotate {α} : List α → List α
  | [] => []
  | x :: xs => xs ++ [x]

def hasEmptyTerm (cfg : JCfg) : Bool :=
  cfg.any fun np => np.2.terms.any fun kt => !kt.2.accept

/-- the faithful view of a configuration: what a correct reader returns -/
def viewOf (cfg : JCfg) : List (Str × Installed) :=
  cfg.map fun np => (np.1, ⟨filtersOf .v4 np.2, filtersOf .v6 np.2⟩)

def parseInstalledEntry (s : String) : Option (Str × Installed) :=
  match s.splitOn ":" with
  | [n, rs] =>
    match rs.splitOn "/" with
    | [a, b] => do
      let n ← parseStr n
      let a ← parseRanges a
      let b ← parseRanges b
      pure (n, ⟨a, b⟩)
    | _ => none
  | _ => none

def parseReadback (s : String) : Option (Option (List (Str × Installed))) :=
  if s == "err" then some none
  else if s.startsWith "ok:" then (parseListSep ";" parseInstalledEntry (s.drop 3).toString).map some
  else none

/-- C01 on what the implementation did -/
def spec1 (cfg : JCfg) (rs : List (RStmt × EvalRes)) (pl : Option (List (List Entry)))
    (readback : Option (List (Str × Installed))) (pl2 : Option (List (List Entry))) : String :=
  let mangled := hasMeta rs cfg
  if !inDomain rs then "ok" else
  match candidates .fixed (rs.map (·.1)) with
  | .error _ => "ok"
  | .ok _ =>
  match pl with
  | none => viol mangled "run-failed"
  | some pl =>
  match mapM? parsePatch pl with
  | none => viol mangled "unknown-element"
  | some ps =>
  match applyImpl cfg ps with
  | .error e => viol mangled s!"patch-rejected:{showErr e}"
  | .ok cfg' =>
    let ts := targets rs
    let notConv := ts.any fun t =>
      match t.eval with
      | none => false
      | some (a, b) =>
        match alGet t.name cfg' with
        | none => true
        | some p => !convergedTo p a b
    if notConv then viol mangled "not-converged"
    else if (keys cfg').any (fun n => (findTarget ts n).isNone) then viol mangled "unmanaged-left"
    else
    match readback with
    | none => if hasEmptyTerm cfg' then viol mangled "empty-term-unreadable" else viol mangled "unreadable-state"
    | some inst =>
      if showInstalled inst != showInstalled (viewOf cfg') then viol mangled "readback-unfaithful"
      else
        let orderDep := [ps.reverse, rotate ps].any fun qs =>
          match applyImpl cfg qs with
          | .error _ => true
          | .ok c2 => !semEqCfg c2 cfg'
        if orderDep then viol mangled "order-dependent"
        else
        match pl2 with
        | none => viol mangled "not-idempotent"
        | some pl2 =>
          match mapM? parsePatch pl2 with
          | none => viol mangled "unknown-element"
          | some ps2 =>
            match applyImpl cfg' ps2 with
            | .error _ => viol mangled "not-idempotent"
            | .ok c3 =>
              if semEqCfg c3 cfg' then "ok"
              else if hasEmptyTerm c3 && !hasEmptyTerm cfg' then viol mangled "empty-term-on-rerun"
              else viol mangled "not-idempotent"

def prefixes {α} : List α → List (List α)
  | [] => [[]]
  | x :: xs => [] :: (prefixes xs).map (x :: ·)

def unsafeClass (p : JPolicy) (a b : List Range) : Option String :=
  if p.terms.any (fun kt => kt.2.accept && kt.2.filters.isEmpty) then some "accept-without-filters"
  else if p.terms.any (fun kt => kt.2.accept && !(kt.2.family == some inet || kt.2.family == some inet6)) then
    some "accept-without-family"
  else if !((acceptSet .v4 p).all (fun r => decide (r ∈ a)) && (acceptSet .v6 p).all (fun r => decide (r ∈ b))) then
    some "accepts-outside-evaluated"
  else if !p.thenReject then some "no-trailing-reject"
  else none

def rootPath : List String := ["configuration", "policy-options", "policy-statement"]

/-- C02 on what the implementation did: after every prefix of the emitted order and of two
permutations, and after each update on its own -/
def spec2 (cfg : JCfg) (rs : List (RStmt × EvalRes)) (pl : Option (List (List Entry))) : String :=
  if !inDomain rs then "ok" else
  match pl with
  | none => "ok"
  | some pl =>
  if pl.any (fun es => es.any fun e => !(rootPath.isPrefixOf e.path || e.path.isPrefixOf rootPath)) then
    "violation outside-policy-statement"
  else
  match mapM? parsePatch pl with
  | none => "violation unknown-element"
  | some ps =>
    let ts := targets rs
    let seqs := ((prefixes ps) ++ (prefixes ps.reverse) ++ (prefixes (rotate ps)) ++ ps.map ([·]))
    let bad := seqs.findSome? fun qs =>
      match applyImpl cfg qs with
      | .error _ => none
      | .ok c' =>
        qs.findSome? fun q =>
          match alGet q.name c' with
          | none => none
          | some p =>
            let (a, b) := match findTargetEsc ts q.name with
              | some t => (t.eval.getD ([], []))
              | none => ([], [])
            unsafeClass p a b
    match bad with
    | some cls => viol (hasMeta rs cfg) cls
    | none => "ok"

/-- C03 on what the implementation did -/
def spec3 (cfg : JCfg) (rs : List (RStmt × EvalRes)) (pl : Option (List (List Entry))) : String :=
  if !inDomain rs then "ok" else
  match pl with
  | none => "ok"
  | some pl =>
  match mapM? parsePatch pl with
  | none => "violation unknown-element"
  | some ps =>
    let ts := targets rs
    let bad := ps.findSome? fun p =>
      match findTargetEsc ts p.name with
      | none => none
      | some t =>
        if t.malformed then some (if p.del then "malformed-annotation-deleted" else "malformed-annotation-updated")
        else if t.eval.isNone then some (if p.del then "failed-eval-deleted" else "failed-eval-updated")
        else if p.del then some "managed-deleted" else none
    match bad with
    | some cls => s!"violation {cls}"
    | none =>
      match applyImpl cfg ps with
      | .error _ => "ok"
      | .ok cfg' =>
        if ts.any (fun t => t.eval.isNone && alGet t.name cfg' != alGet t.name cfg) then
          "violation failed-policy-changed"
        else "ok"

/-! ### ops -/

def showCands (l : List (Str × Option Str)) : String :=
  showList ((sortBy (fun a b => strLe a.1 b.1) l).map fun ne => s!"{hex ne.1}:{showOptStr ne.2}") ","

def drive : List String → Option String
  | ["cands", v, running] => do
    let c ← parseVariant v
    let rs ← parseRunning running
    pure (match candidates c (rs.map (·.1)) with
      | .error _ => "err"
      | .ok l => s!"ok:{showCands l}")
  | ["read", v, cfg] => do
    let c ← parseVariant v
    let cfg ← parseCfg cfg
    pure (match readInstalled c cfg with
      | .error _ => "err"
      | .ok l => s!"ok:{showInstalled l}")
  | ["cmp", v, cfg, running, payloads] => do
    let c ← parseVariant v
    let cfg ← parseCfg cfg
    let rs ← parseRunning running
    let pl ← parsePayloads payloads
    let model := planFrom c (rs.map (·.1)) (oracleOf rs) cfg
    pure (match model, pl with
      | .error _, none => "same"
      | .error e, some _ => s!"differ model=err:{showErr e}"
      | .ok ps, none => s!"differ impl=err model={showList ((canonPatches ps).map showPStmt) "|"}"
      | .ok ps, some pl =>
        match mapM? parsePatch pl with
        | none => "differ impl=unknown-element"
        | some qs =>
          let a := (canonPatches ps).map showPStmt
          let b := (canonPatches qs).map showPStmt
          if a == b then "same" else s!"differ model={showList a "|"} impl={showList b "|"}")
  | ["apply", cfg, payloads] => do
    let cfg ← parseCfg cfg
    let pl ← parsePayloads payloads
    let pl ← pl
    pure (match mapM? parsePatch pl with
      | none => "err:unknown-element"
      | some ps =>
        match applyAll cfg ps with
        | .error e => s!"err:{showErr e}"
        | .ok c' => s!"ok:{showCfg c'}")
  | ["spec1", cfg, running, payloads, readback, payloads2] => do
    let cfg ← parseCfg cfg
    let rs ← parseRunning running
    let pl ← parsePayloads payloads
    let rb ← parseReadback readback
    let pl2 ← parsePayloads payloads2
    pure (spec1 cfg rs pl rb pl2)
  | ["spec2", cfg, running, payloads] => do
    let cfg ← parseCfg cfg
    let rs ← parseRunning running
    let pl ← parsePayloads payloads
    pure (spec2 cfg rs pl)
  | ["spec3", cfg, running, payloads] => do
    let cfg ← parseCfg cfg
    let rs ← parseRunning running
    let pl ← parsePayloads payloads
    pure (spec3 cfg rs pl)
  | ["specx", cfg, payloads] => do
    -- C02 outside the agent's own states: an installed configuration the (repaired) reader does not
    -- accept must stop the run before anything is loaded — merging an update into a policy-statement
    -- whose content is not fully understood can leave an accepting term nobody checked
    let cfg ← parseCfg cfg
    let pl ← parsePayloads payloads
    pure (match readInstalled .fixed cfg, pl with
      | .error _, some (_ :: _) => "violation update-into-unreadable-configuration"
      | .ok inst, some pl =>
        -- a policy-statement the reader SKIPS (no trailing reject) is treated as not installed; an
        -- update merged into it leaves whatever its accepting terms hold in place
        let skipped := (keys cfg).filter fun n => (alGet n inst).isNone
        (match mapM? parsePatch pl with
         | some ps => if ps.any (fun p => !p.del && skipped.contains p.name) then "violation update-into-skipped-policy" else "ok"
         | none => "ok")
      | _, _ => "ok")
  | _ => none

end Policy
