import Bgpfu.Model.Irr
import Bgpfu.Drive.Proto
/-!
Line-protocol driver for the IRR / RPSL models (family `irr`).

Token syntax (no spaces inside a token):
  prefix   `4.<bits>/<len>` | `6.<bits>/<len>`     (`bits` = value of the leading `len` bits, decimal)
  op       `` | `^-` | `^+` | `^<n>` | `^<n>-<m>`
  expr     reverse polish, items joined by `,`:
             `ANY` `ASPATH` `ATTR` `NOT` `AND` `OR` `F:<filter-set>`
             `L:<prefix><op>;…:<op>`  `S:<as-set>:<op>`  `R:<route-set>:<op>`  `N:<asn>:<op>`
             `X:RSANY:<op>` `X:ASANY:<op>` `X:PEERAS:<op>`
  db       `<d|c>|<as-sets>|<route-sets>|<routes>|<filter-sets>`, each section `.` or entries joined by `,`
             as-set      `NAME=<asn | NAME>;…`
             route-set   `NAME=<prefix><op> | a<asn> | NAME;…`
             routes      `<asn>=<prefix>;…`
             filter-set  `NAME=<m<hex(expr)> | n>;…`
  query    `g<asn>` `6<asn>` `a<as-set>` `r<route-set>` `m<filter-set>`
  faults   `.` or `i<k>=<D|E|F>` / `q<query>=<D|E|F>` joined by `,`
  cfg      `pinned` | `fixed` | `c<peerAsErr><catchPanic><rsRange>` (bits)
-/
namespace Irr
open Rpsl Proto

/-! ### parsing -/

def stripPrefix? (pre s : String) : Option String :=
  let p := pre.toList
  let l := s.toList
  if p.isPrefixOf l then some (String.ofList (l.drop p.length)) else none

def parseFam (s : String) : Option Fam :=
  if s == "4" then some .v4 else if s == "6" then some .v6 else none

def parseOp (s : String) : Option RangeOp :=
  if s == "" then some .none
  else if s == "^-" then some .lessExcl
  else if s == "^+" then some .lessIncl
  else do
    let r ← stripPrefix? "^" s
    match r.splitOn "-" with
    | [n] => do pure (.exact (← n.toNat?))
    | [n, m] => do pure (.range (← n.toNat?) (← m.toNat?))
    | _ => none

def parsePfx (s : String) : Option Pfx :=
  match s.splitOn "." with
  | [f, rest] =>
    match rest.splitOn "/" with
    | [b, l] => do pure { fam := ← parseFam f, bits := ← b.toNat?, len := ← l.toNat? }
    | _ => none
  | _ => none

/-- `<prefix><op>` -/
def parseMemberTok (s : String) : Option (Pfx × RangeOp) :=
  match s.splitOn "^" with
  | [p] => do pure (← parsePfx p, .none)
  | [p, o] => do pure (← parsePfx p, ← parseOp ("^" ++ o))
  | _ => none

def sect (s : String) (sep : String) : List String :=
  if s == "." ∨ s == "" then [] else s.splitOn sep

def parseNamed (kind name : String) : Option Named :=
  if kind == "S" then some (.asSet name)
  else if kind == "R" then some (.routeSet name)
  else if kind == "N" then name.toNat?.map .autNum
  else if kind == "X" then
    (if name == "RSANY" then some .rsAny else if name == "ASANY" then some .asAny
     else if name == "PEERAS" then some .peerAs else none)
  else none

/-- one step of the reverse-polish reader -/
def rpnStep (stack : List Expr) (tok : String) : Option (List Expr) :=
  if tok == "ANY" then some (.any :: stack)
  else if tok == "ASPATH" then some (.asPath :: stack)
  else if tok == "ATTR" then some (.attrMatch :: stack)
  else if tok == "NOT" then
    match stack with
    | a :: st => some (.not a :: st)
    | _ => none
  else if tok == "AND" then
    match stack with
    | b :: a :: st => some (.and a b :: st)
    | _ => none
  else if tok == "OR" then
    match stack with
    | b :: a :: st => some (.or a b :: st)
    | _ => none
  else
    match tok.splitOn ":" with
    | ["F", n] => some (.filterSet n :: stack)
    | ["L", ms, op] => do
      let ms ← mapM? parseMemberTok (sect ms ";")
      let op ← parseOp op
      pure (.prefixSet (.lit ms) op :: stack)
    | [k, n, op] => do
      let nm ← parseNamed k n
      let op ← parseOp op
      pure (.prefixSet (.named nm) op :: stack)
    | _ => none

def parseExpr (s : String) : Option Expr :=
  let rec go (toks : List String) (stack : List Expr) : Option Expr :=
    match toks with
    | [] => match stack with
      | [e] => some e
      | _ => none
    | t :: ts => match rpnStep stack t with
      | some st => go ts st
      | none => none
  go (s.splitOn ",") []

def parseExprHex (s : String) : Option Expr := do parseExpr (← unhexStr s)

def isNat (s : String) : Bool := s.toNat?.isSome

def parseEntry {α} (f : String → Option α) (s : String) : Option (String × List α) :=
  match s.splitOn "=" with
  | [n, ms] => do pure (n, ← mapM? f (sect ms ";"))
  | _ => none

def parseAsMem (s : String) : Option (Mem Nat) :=
  match s.toNat? with
  | some a => some (.leaf a)
  | none => if s == "" then none else some (.set s)

def parseRsMem (s : String) : Option (Mem RsLeaf) :=
  if s.startsWith "4." ∨ s.startsWith "6." then do
    let (p, op) ← parseMemberTok s
    pure (.leaf (.pfx p op))
  else match stripPrefix? "j" s with
  | some r => if isNat r then r.toNat?.map (fun k => .leaf (.junk k)) else some (.set s)
  | none =>
  match stripPrefix? "a" s with
    | some r => if isNat r then r.toNat?.map (fun a => .leaf (.asn a)) else some (.set s)
    | none => if s == "" then none else some (.set s)

def parseFsObj (s : String) : Option FsObj :=
  if s == "n" then some { mpFilter := none }
  else do
    let h ← stripPrefix? "m" s
    pure { mpFilter := some (← parseExprHex h) }

def parseDb (s : String) : Option Db :=
  match s.splitOn "|" with
  | [fl, as, rs, rt, fs] => do
    let emptyIsD ← (if fl == "d" then some true else if fl == "c" then some false else none)
    let asSets ← mapM? (parseEntry parseAsMem) (sect as ",")
    let routeSets ← mapM? (parseEntry parseRsMem) (sect rs ",")
    let routes ← mapM? (fun e => do
      let (n, ps) ← parseEntry parsePfx e
      pure (← n.toNat?, ps)) (sect rt ",")
    let filterSets ← mapM? (parseEntry parseFsObj) (sect fs ",")
    pure { emptyIsD, asSets, routeSets, routes, filterSets }
  | _ => none

def parseQuery (s : String) : Option Query :=
  match s.toList with
  | 'g' :: r => (String.ofList r).toNat?.map .routes4
  | '6' :: r => (String.ofList r).toNat?.map .routes6
  | 'a' :: r => some (.asSetMembers (String.ofList r))
  | 'r' :: r => some (.routeSetMembers (String.ofList r))
  | 'm' :: r => some (.filterSet (String.ofList r))
  | _ => none

def parseErrResp (s : String) : Option ErrResp :=
  if s == "D" then some .keyNotFound else if s == "E" then some .keyNotUnique
  else if s == "F" then some .other else none

def parseFault (s : String) : Option (Sel × ErrResp) :=
  match s.splitOn "=" with
  | [sel, e] => do
    let e ← parseErrResp e
    match sel.toList with
    | 'i' :: r => do pure (.idx (← (String.ofList r).toNat?), e)
    | 'q' :: r => do pure (.query (← parseQuery (String.ofList r)), e)
    | _ => none
  | _ => none

def parseFaults (s : String) : Option Faults := mapM? parseFault (sect s ",")

def bit (s : String) : Option Bool := if s == "1" then some true else if s == "0" then some false else none

def parseCfg (s : String) : Option Cfg :=
  if s == "pinned" then some .pinned
  else if s == "fixed" then some .fixed
  else match s.toList with
    | ['c', a, b, c] => do
      pure { peerAsErr := ← bit a.toString, catchPanic := ← bit b.toString, rsRange := ← bit c.toString }
    | _ => none

def parseProbes (s : String) : Option (List Pfx) := mapM? parsePfx (sect s ",")

/-- `<hex(expr)>*<faults>` joined by `+` -/
def parseItems (s : String) : Option (List (Expr × Faults)) :=
  mapM? (fun it => match it.splitOn "*" with
    | [e, f] => do pure (← parseExprHex e, ← parseFaults f)
    | _ => none) (sect s "+")

/-- `<name>*<hex(expr)>*<faults>` joined by `+` -/
def parseCands (s : String) : Option (List (String × Expr × Faults)) :=
  mapM? (fun it => match it.splitOn "*" with
    | [n, e, f] => do pure (n, ← parseExprHex e, ← parseFaults f)
    | _ => none) (sect s "+")

/-- `<k>:<hex(atom)>` then `A:<k>:<hex(atom)>` / `O:<k>:<hex(atom)>`, joined by `,` -/
def parseFlat (s : String) : Option ((Nat × Expr) × List (BinOp × Nat × Expr)) :=
  match s.splitOn "," with
  | [] => none
  | f :: rest => do
    let first ← (match f.splitOn ":" with
      | [k, e] => do pure (← k.toNat?, ← parseExprHex e)
      | _ => none)
    let rest ← mapM? (fun t => match t.splitOn ":" with
      | [o, k, e] => do
        let op ← (if o == "A" then some BinOp.and else if o == "O" then some BinOp.or else none)
        pure (op, ← k.toNat?, ← parseExprHex e)
      | _ => none) rest
    pure (first, rest)

/-! ### rendering -/

def showOp : RangeOp → String
  | .none => ""
  | .lessExcl => "^-"
  | .lessIncl => "^+"
  | .exact n => s!"^{n}"
  | .range n m => s!"^{n}-{m}"

def hexDigits (n : Nat) : String :=
  let rec go (fuel n : Nat) (acc : List Char) : List Char :=
    match fuel with
    | 0 => acc
    | fuel + 1 => if n < 16 then hexNibble n :: acc else go fuel (n / 16) (hexNibble (n % 16) :: acc)
  String.ofList (go 8 n [])

def dropTrailingZeros (l : List Nat) : List Nat :=
  (l.reverse.dropWhile (· == 0)).reverse

/-- textual address of a prefix (IPv6: trailing zero groups compressed to `::` when there are ≥ 2) -/
def showAddr (p : Pfx) : String :=
  match p.fam with
  | .v4 =>
    let a := (p.bits <<< (32 - p.len)) % 2 ^ 32
    s!"{a / 2 ^ 24 % 256}.{a / 2 ^ 16 % 256}.{a / 2 ^ 8 % 256}.{a % 256}"
  | .v6 =>
    let a := (p.bits <<< (128 - p.len)) % 2 ^ 128
    -- IPv4-mapped addresses in the mixed notation of RFC 4291 §2.2 (3): `::ffff:198.51.100.0`
    if a / 2 ^ 32 == 0xffff && 96 ≤ p.len then
      let v := a % 2 ^ 32
      s!"::ffff:{v / 2 ^ 24 % 256}.{v / 2 ^ 16 % 256}.{v / 2 ^ 8 % 256}.{v % 256}"
    else
    let groups := (List.range 8).map fun i => a / 2 ^ (16 * (7 - i)) % 65536
    let kept := dropTrailingZeros groups
    if groups.length - kept.length ≥ 2 then
      ":".intercalate (kept.map hexDigits) ++ "::"
    else ":".intercalate (groups.map hexDigits)

def showPfx (p : Pfx) : String := s!"{showAddr p}/{p.len}"

def showNamed : Named → String
  | .rsAny => "RS-ANY"
  | .asAny => "AS-ANY"
  | .peerAs => "PeerAS"
  | .routeSet n => n
  | .asSet n => n
  | .autNum a => s!"AS{a}"

def showPse : PrefixSetExpr → String
  | .lit ms => "{" ++ ", ".intercalate (ms.map fun (p, op) => showPfx p ++ showOp op) ++ "}"
  | .named n => showNamed n

/-- RPSL text, every operand parenthesised so that the parse tree is the given tree -/
def showExpr : Expr → String
  | .any => "ANY"
  | .prefixSet s op => showPse s ++ showOp op
  | .asPath => "<^AS65000 .* AS65001$>"
  | .attrMatch => "community(65000:1)"
  | .filterSet n => n
  | .not e => "NOT (" ++ showExpr e ++ ")"
  | .and a b => "(" ++ showExpr a ++ ") AND (" ++ showExpr b ++ ")"
  | .or a b => "(" ++ showExpr a ++ ") OR (" ++ showExpr b ++ ")"

def isAtom : Expr → Bool
  | .not _ | .and _ _ | .or _ _ => false
  | _ => true

def showAtom (e : Expr) : String := if isAtom e then showExpr e else "(" ++ showExpr e ++ ")"

/-- an operator sequence without any parentheses around the operands -/
def showFlat (first : Nat × Expr) (rest : List (BinOp × Nat × Expr)) : String :=
  let item := fun (x : Nat × Expr) => String.join (List.replicate x.1 "NOT ") ++ showAtom x.2
  item first ++ String.join (rest.map fun (op, x) =>
    (match op with | .and => " AND " | .or => " OR ") ++ item x)

/-- member words that are no address prefix with a range operator: plain garbage, near misses, and
words that would be a filter expression of their own once wrapped in braces (TAB is not a separator
of the query protocol, so it stays inside one word) -/
def junkWords : List String :=
  ["not-a-prefix", "10.0.0.0/8^", "10.0.0.0/33", "}<AS65000>{", "}\tOR\tANY\tOR\t{", "10.0.0.0/8}\tAND\t<AS65000>\tAND\t{10.0.0.0/8",
   "AS-FOO", "}\tOR\tPeerAS\tOR\t{", "2001:db8::/32^+x", "10.0.0.0/8,11.0.0.0/8"]

def showItem (name : String) : Item → String
  | .asn a => s!"AS{a}"
  | .junk k => junkWords.getD (k % junkWords.length) "x"
  -- IRRd returns members as they were registered; RPSL accepts both cases of the hex digits, and
  -- every other IPv6 member is written in upper case (`2001:DB8:A::/48`)
  | .member p op => (if p.fam == .v6 && (p.bits + p.len) % 2 == 1 then (showPfx p).toUpper else showPfx p) ++ showOp op
  | .obj o =>
    -- all attributes RFC 2622 makes mandatory (the rpsl crate rejects objects lacking one of them)
    let tail := "tech-c:         TEST1-TEST\nadmin-c:        TEST1-TEST\nmnt-by:         MAINT-TEST\nchanged:        test@example.net 20240101\nsource:         TEST"
    match o.mpFilter with
    | some e => s!"filter-set:     {name}\ndescr:          test object\nmp-filter:      {showExpr e}\n{tail}"
    | none => s!"filter-set:     {name}\ndescr:          test object\nfilter:         ANY\n{tail}"

def Query.name : Query → String
  | .asSetMembers n => n
  | .routeSetMembers n => n
  | .filterSet n => n
  | _ => ""

def Query.isObj : Query → Bool
  | .filterSet _ => true
  | _ => false

/-- the bytes the server writes for a response -/
def wireResponse (q : Query) : Response → String
  | .data items =>
    let body := (if q.isObj then "\n\n" else " ").intercalate (items.map (showItem q.name))
    s!"A{body.utf8ByteSize + 1}\n{body}\nC\n"
  | .empty => "C\n"
  | .err .keyNotFound => "D\n"
  | .err .keyNotUnique => "E\n"
  | .err .other => "F injected fault\n"

def showQuery : Query → String
  | .routes4 a => s!"g{a}"
  | .routes6 a => s!"6{a}"
  | .asSetMembers n => s!"a{n}"
  | .routeSetMembers n => s!"r{n}"
  | .filterSet n => s!"m{n}"

/-- the line the client writes for a query (irrc `Query::cmd`, without the newline) -/
def wireQuery : Query → String
  | .routes4 a => s!"!gAS{a}"
  | .routes6 a => s!"!6AS{a}"
  | .asSetMembers n => s!"!i{n},1"
  | .routeSetMembers n => s!"!i{n},1"
  | .filterSet n => s!"!mfilter-set,{n}"

def respKind : Response → String
  | .data _ => "A"
  | .empty => "C"
  | .err .keyNotFound => "D"
  | .err .keyNotUnique => "E"
  | .err .other => "F"

def showErr : ErrKind → String
  | .keyNotFound => "D" | .keyNotUnique => "E" | .other => "F"
  | .acquire => "acquire" | .dequeue => "dequeue" | .unsupported => "unsupported"

def showPanic : PanicKind → String
  | .peerAs => "peeras" | .asPath => "aspath-regex" | .attrMatch => "attr-match"

def bits (s : PSet) (probes : List Pfx) : String :=
  if probes.isEmpty then "-" else String.ofList (probes.map fun q => if s q then '1' else '0')

def showOutcome (probes : List Pfx) : Outcome PSet → String
  | .ok s => s!"ok={bits s probes}"
  | .err e => s!"err={showErr e}"
  | .panic k => s!"panic={showPanic k}"
  | .diverge => "diverge"

/-- the fake's log as the model predicts it: `<query>:<response kind>` in order -/
def showSent (evs : List Event) : String :=
  let l := evs.filterMap fun
    | .sent _ q r => some s!"{showQuery q}:{respKind r}"
    | _ => none
  if l.isEmpty then "." else ",".intercalate l

def misattributed (evs : List Event) : Bool :=
  evs.any fun
    | .recv cq sq _ => cq != sq
    | _ => false

def connState (st : Ev) : String :=
  match st.conn with
  | none => "lost"
  | some c => if c.unread.isEmpty then "clean" else "dirty"

def partsBits (ps : Parts) (probes : List Pfx) : String :=
  if probes.isEmpty then "-" else
    String.ofList (probes.map fun q =>
      if (match q.fam with | .v4 => ps.1 q.bits q.len | .v6 => ps.2 q.bits q.len) then '1' else '0')

def showOuts (probes : List Pfx) (outs : List (String × Option Parts)) : String :=
  if outs.isEmpty then "." else
    ",".intercalate (outs.map fun (n, r) => match r with
      | some ps => s!"{n}={partsBits ps probes}"
      | none => s!"{n}=none")

def showRun (probes : List Pfx) : RunOutcome → String
  | .done outs => s!"done {showOuts probes outs}"
  | .abort _ => "panic"     -- which candidate panics first depends on the (random) map order
  | .diverge => "diverge"

/-! ### specification predicates on observed behaviour -/

def usesRsRange (db : Db) : Bool :=
  db.routeSets.any fun e => e.2.any fun
    | .leaf (.pfx _ op) => op != .none
    | _ => false

/-- C11: the observed result of evaluating `e` (fault-free) against the reference semantics
(`eval` under `Cfg.fixed`, which `eval_eq_denote` proves equal to `denote`) -/
def spec11 (db : Db) (fuel : Nat) (e : Expr) (probes : List Pfx) (obs : String) : String :=
  let want := showOutcome probes (evaluate .fixed db fuel e [] Ev.fresh).1
  if obs == want ∨ (obs.startsWith "err=" ∧ want.startsWith "err=") then "ok"
  else
    let pinned := showOutcome probes (evaluate .pinned db fuel e [] Ev.fresh).1
    if obs == pinned ∧ usesRsRange db then "violation routeset-range-member-dropped"
    else if obs.startsWith "panic=" then s!"violation {obs.replace "=" "-"}"
    else if obs.startsWith "err=" then "violation spurious-error"
    else "violation wrong-set"

/-- C11, operator precedence: the observed result of evaluating an unparenthesised sequence against
the RFC 2622 reading of it -/
def specPrec (db : Db) (fuel : Nat) (first : Nat × Expr) (rest : List (BinOp × Nat × Expr))
    (probes : List Pfx) (obs : String) : String :=
  let want := showOutcome probes (evaluate .fixed db fuel (parseRfc first rest) [] Ev.fresh).1
  if obs == want ∨ (obs.startsWith "err=" ∧ want.startsWith "err=") then "ok"
  else
    let crate := showOutcome probes (evaluate .fixed db fuel (parseCrate first rest) [] Ev.fresh).1
    if obs == crate then "violation operator-precedence" else "violation wrong-set"

/-- C17: observed outcomes after a history vs. on a fresh evaluator -/
def spec17 (hist fresh : List String) : String :=
  if hist.any (· == "err=acquire") then "violation evaluator-unusable"
  else if hist == fresh then "ok"
  else "violation history-dependent"

/-- C15: the observed outcome of `Policies<Candidate>::evaluate` on a set of candidates against the
per-candidate reference (each candidate evaluated alone under `Cfg.fixed`) -/
def spec15 (db : Db) (fuel : Nat) (cands : List (String × Expr × Faults)) (probes : List Pfx)
    (obs : String) : String :=
  if obs.startsWith "panic=" then s!"violation {obs.replace "=" "-"}"
  else
    let want := cands.map fun (n, e, f) =>
      match (evaluate .fixed db fuel e f Ev.fresh).1 with
      | .ok s => (n, some (partition s))
      | _ => (n, none)
    if obs == s!"done {showOuts probes want}" then "ok" else "violation wrong-outcome"

/-! ### ops -/

def drive : List String → Option String
  /- the fake IRRd: bytes of the response to one query -/
  | ["serve", db, q] => do
    let db ← parseDb db
    let q ← parseQuery q
    pure (hexStr (wireResponse q (serve db q)))
  | ["wire", q] => do
    let q ← parseQuery q
    pure (hexStr (wireQuery q))
  /- RPSL text of an expression (what the harness hands to the real parser) -/
  | ["text", e] => do
    let e ← parseExprHex e
    pure (hexStr (showExpr e))
  /- a sequence of evaluations on one evaluator -/
  | ["evalseq", cfg, db, fuel, items, probes] => do
    let cfg ← parseCfg cfg
    let db ← parseDb db
    let fuel ← fuel.toNat?
    let items ← parseItems items
    let probes ← parseProbes probes
    let (outs, _) := evalSeq cfg db fuel items Ev.fresh
    let shown := outs.map fun (o, ev) =>
      s!"{showOutcome probes o}/{showSent ev}{if misattributed ev then "/MISATTRIBUTED" else ""}"
    pure (";".intercalate shown)
  /- `Policies<Candidate>::evaluate`; outcomes listed in candidate order -/
  | ["evalall", cfg, db, fuel, cands, probes] => do
    let cfg ← parseCfg cfg
    let db ← parseDb db
    let fuel ← fuel.toNat?
    let cands ← parseCands cands
    let probes ← parseProbes probes
    let (r, _, _) := evaluateAll cfg db fuel cands Ev.fresh
    pure (showRun probes r)
  | ["spec11", db, fuel, e, probes, obs] => do
    let db ← parseDb db
    let fuel ← fuel.toNat?
    let e ← parseExprHex e
    let probes ← parseProbes probes
    pure (spec11 db fuel e probes obs)
  | ["flattext", fl] => do
    let (first, rest) ← parseFlat fl
    pure (hexStr (showFlat first rest))
  /- the code's reading of an unparenthesised sequence, evaluated -/
  | ["evalflat", cfg, db, fuel, fl, probes] => do
    let cfg ← parseCfg cfg
    let db ← parseDb db
    let fuel ← fuel.toNat?
    let (first, rest) ← parseFlat fl
    let probes ← parseProbes probes
    let (o, _, ev) := evaluate cfg db fuel (parseCrate first rest) [] Ev.fresh
    pure s!"{showOutcome probes o}/{showSent ev}"
  | ["specprec", db, fuel, fl, probes, obs] => do
    let db ← parseDb db
    let fuel ← fuel.toNat?
    let (first, rest) ← parseFlat fl
    let probes ← parseProbes probes
    pure (specPrec db fuel first rest probes obs)
  | ["spec17", hist, fresh] => pure (spec17 (hist.splitOn ";") (fresh.splitOn ";"))
  | ["spec15", db, fuel, cands, probes, obs1, obs2] => do
    let db ← parseDb db
    let fuel ← fuel.toNat?
    let cands ← parseCands cands
    let probes ← parseProbes probes
    pure (spec15 db fuel cands probes (obs1 ++ " " ++ obs2))
  | ["spec15", db, fuel, cands, probes, obs] => do
    let db ← parseDb db
    let fuel ← fuel.toNat?
    let cands ← parseCands cands
    let probes ← parseProbes probes
    pure (spec15 db fuel cands probes obs)
  | _ => none

end Irr
