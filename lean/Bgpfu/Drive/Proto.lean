/-! Line-protocol helpers for the `modeld` driver: hex, lists. Import-free. -/
namespace Proto

def hexDigit (c : Char) : Option Nat :=
  if '0' ≤ c ∧ c ≤ '9' then some (c.toNat - '0'.toNat)
  else if 'a' ≤ c ∧ c ≤ 'f' then some (c.toNat - 'a'.toNat + 10)
  else if 'A' ≤ c ∧ c ≤ 'F' then some (c.toNat - 'A'.toNat + 10)
  else none

def unhexChars : List Char → Option (List Nat)
  | [] => some []
  | [_] => none
  | a :: b :: rest => do
    let x ← hexDigit a
    let y ← hexDigit b
    let r ← unhexChars rest
    pure ((x * 16 + y) :: r)

/-- `-` denotes the empty byte string -/
def unhex (s : String) : Option (List Nat) :=
  if s == "-" then some [] else unhexChars s.toList

def hexNibble (n : Nat) : Char :=
  if n < 10 then Char.ofNat ('0'.toNat + n) else Char.ofNat ('a'.toNat + n - 10)

def hex (bs : List Nat) : String :=
  if bs.isEmpty then "-" else String.ofList (bs.flatMap fun b => [hexNibble (b / 16 % 16), hexNibble (b % 16)])

def hexList (l : List (List Nat)) : String :=
  if l.isEmpty then "." else ",".intercalate (l.map hex)

def splitList (s : String) : List String :=
  if s == "." then [] else s.splitOn ","

def mapM? {α β} (f : α → Option β) : List α → Option (List β)
  | [] => some []
  | x :: xs => do
    let y ← f x
    let ys ← mapM? f xs
    pure (y :: ys)

/-- bytes of a string (UTF-8) as Nats -/
def bytesOf (s : String) : List Nat := s.toUTF8.toList.map (·.toNat)

def strOf? (bs : List Nat) : Option String :=
  String.fromUTF8? (ByteArray.mk (bs.map (·.toUInt8)).toArray)

def unhexStr (s : String) : Option String := do
  let bs ← unhex s
  strOf? bs

def hexStr (s : String) : String := hex (bytesOf s)

end Proto
