import Bgpfu.Model.Readers
import Bgpfu.Model.Hello
import Bgpfu.Drive.Proto
/-! Line protocol for XML event lists and the `xml` op family.

event list  = events separated by `,` (`.` = empty)
event       = `S|ns|local|raw|span|attrs`  start      `M|…` same fields: empty element
              `E|raw` end   `T|text` text   `C` cdata  `K` comment  `D` decl  `P` pi  `Y` doctype
              `Z` eof   `X` tokenizer error
ns          = `b<hexuri>` bound | `u` unbound | `k` unknown prefix
span        = `n` none | `s<hex>`
attrs       = items separated by `;` (`.` = none); item = `!` (iterator error) or
              `key/ns/local/value` with value = `n` (unescape error) | `s<hex>`
all strings hex (UTF-8), `-` = empty string
-/
namespace Xml
open Proto

def parseNs (s : String) : Option Ns :=
  if s == "u" then some .unbound
  else if s == "k" then some .unknown
  else if s.startsWith "b" then (unhexStr (s.drop 1).toString).map .bound
  else none

def parseOptStr (s : String) : Option (Option String) :=
  if s == "n" then some none
  else if s.startsWith "s" then (unhexStr (s.drop 1).toString).map some
  else none

def parseAttr (s : String) : Option AttrItem :=
  if s == "!" then some .bad else
  match s.splitOn "/" with
  | [k, ns, l, v] => do
    let k ← unhexStr k
    let ns ← parseNs ns
    let l ← unhexStr l
    let v ← parseOptStr v
    pure (.ok { key := k, ns := ns, lname := l, value := v })
  | _ => none

def parseAttrs (s : String) : Option (List AttrItem) :=
  if s == "." then some [] else mapM? parseAttr (s.splitOn ";")

def parseTag (ns l raw span attrs : String) : Option Tag := do
  let ns ← parseNs ns
  let l ← unhexStr l
  let raw ← unhexStr raw
  let span ← parseOptStr span
  let attrs ← parseAttrs attrs
  pure { ns := ns, lname := l, raw := raw, span := span, attrs := attrs }

def parseEv (s : String) : Option Ev :=
  match s.splitOn "|" with
  | ["S", ns, l, raw, span, attrs] => (parseTag ns l raw span attrs).map .start
  | ["M", ns, l, raw, span, attrs] => (parseTag ns l raw span attrs).map .empty
  | ["E", raw] => (unhexStr raw).map .end
  | ["T", t] => (unhexStr t).map .text
  | ["C"] => some .cdata
  | ["K"] => some .comment
  | ["D"] => some .decl
  | ["P"] => some .pi
  | ["Y"] => some .doctype
  | ["Z"] => some .eof
  | ["X"] => some .error
  | _ => none

def parseEvs (s : String) : Option (List Ev) :=
  if s == "." then some [] else mapM? parseEv (s.splitOn ",")

def parseKind (s : String) : Option ReplyKind :=
  if s == "empty" then some .empty else if s == "data" then some .data
  else if s == "bare" then some .bare else if s == "load" then some .load else none

def parseRCfg (s : String) : Option RCfg :=
  if s == "fixed" then some .fixed else if s == "pinned" then some .pinned else none

def showErrType : ErrType → String
  | .transport => "transport" | .rpc => "rpc" | .protocol => "protocol" | .application => "application"
def showSev : Severity → String | .warning => "warning" | .error => "error"

def showErrs (es : List RpcError) : String :=
  if es.isEmpty then "." else ";".intercalate (es.map fun e => s!"{showErrType e.ty}/{e.tag}/{showSev e.severity}")

/-- canonical observable of a reply future -/
def showOutcome : Outcome → String
  | .ok => "ok"
  | .data s => s!"data:{hexStr s}"
  | .rpcError es => s!"rpcerr:{showErrs es}"
  | .err _ => "err"

def showOutcomeDbg : Outcome → String
  | .err e => s!"err:{repr e}"
  | o => showOutcome o

end Xml

namespace Xml
open Proto

/-! ### abstract reply documents (the reply grammar) as the harness describes them -/

inductive Tok where
  | ok | okse | data | cmt | junk
  | err (triple : String) (sev : String)
  | count (k : Nat)
  | results (cs : List Tok)
  | wrap (cs : List Tok)      -- an element outside the grammar around children of the grammar
  deriving Repr, Inhabited

def parseTokFlat (s : String) : Option Tok :=
  if s == "ok" then some .ok else if s == "okse" then some .okse else if s == "data" then some .data
  else if s == "cmt" then some .cmt  else if s == "junk" then some .junk
  else if s.startsWith "junk." then some .junk
  else if s.startsWith "e:" then
    let t := (s.drop 2).toString
    match t.splitOn "/" with
    | [_, _, sev] => some (.err t sev)
    | _ => none
  else if s.startsWith "c" then ((s.drop 1).toString.toNat?).map .count
  else none

/-- `W:<name>:<inner>` — the name holds no colon, the inner tokens may (`e:…`) -/
def parseWrap (s : String) : Option Tok :=
  match (s.drop 2).toString.splitOn ":" with
  | _ :: more =>
    let inner := ":".intercalate more
    if inner == "_" then some (.wrap []) else (mapM? parseTokFlat (inner.splitOn "+")).map .wrap
  | [] => none

def parseTok (s : String) : Option Tok :=
  if s.startsWith "W:" then parseWrap s
  else if s.startsWith "R:" then
    let inner := (s.drop 2).toString
    if inner == "_" then some (.results []) else (mapM? parseTokFlat (inner.splitOn "+")).map .results
  else parseTokFlat s

def parseDoc (s : String) : Option (List Tok) :=
  if s == "." then some [] else mapM? parseTok (s.splitOn ";")

def Tok.isErrSev : Tok → Bool
  | .err _ sev => sev == "error"
  | _ => false

/-- an rpc-error of severity error inside an element the grammar does not know: still carried by the reply -/
def Tok.hidesErrSev : Tok → Bool
  | .wrap cs => cs.any Tok.isErrSev
  | _ => false

def Tok.triple? : Tok → Option String
  | .err t _ => some t
  | _ => none

/-- the children the reader of kind `k` descends into when looking for errors -/
def errScope (k : ReplyKind) (doc : List Tok) : List Tok :=
  match k with
  | .load => doc.flatMap fun | .results cs => cs | _ => []
  | _ => doc

def positive (k : ReplyKind) (doc : List Tok) : Bool :=
  match k with
  | .empty => doc.any fun | .ok => true | .okse => true | _ => false
  | .data => doc.any fun | .data => true | _ => false
  | .bare => true
  | .load => (errScope .load doc).any fun | .ok => true | .okse => true | _ => false

/-- **C08 specification** on an observed outcome: success only without an error-severity
rpc-error (anywhere the grammar allows one for this reply type) and with the positive indication;
reported server errors are exactly the rpc-errors of the reply, in document order. -/
def specReply (k : ReplyKind) (doc : List Tok) (outcome : String) : String :=
  let scope := errScope k doc
  let allErrs := (doc.filterMap Tok.triple?) ++ (if k == .load then scope.filterMap Tok.triple? else [])
  if outcome == "ok" || outcome.startsWith "data:" then
    if scope.any Tok.isErrSev || doc.any Tok.isErrSev || doc.any Tok.hidesErrSev then "violation success-despite-error"
    else if !positive k doc then "violation success-without-positive-indication"
    else "ok"
  else if outcome.startsWith "rpcerr:" then
    let got := splitListSemi (outcome.drop 7).toString
    if got == allErrs then "ok" else "violation reported-errors-differ"
  else if outcome == "err" then "ok"
  else "violation bad-observation"
where
  splitListSemi (s : String) : List String := if s == "." then [] else s.splitOn ";"

/-! ### hello -/

def parseUriEntry (s : String) : Option (String × Option UriParts) :=
  match s.splitOn ":" with
  | [k, "!"] => (unhexStr k).map (·, none)
  | [k, v] =>
    match v.splitOn "/" with
    | [sc, au, pa, qu, fr, qun] => do
      let k ← unhexStr k
      let sc ← unhexStr sc
      let au ← parseOptStr au
      let pa ← unhexStr pa
      let qu ← parseOptStr qu
      let fr ← parseOptStr fr
      let qun ← parseOptStr qun
      pure (k, some { scheme := sc, authority := au, path := pa, query := qu, fragment := fr, queryUnesc := qun })
    | _ => none
  | _ => none

def parseOracle (s : String) : Option UriOracle :=
  if s == "." then some (fun _ => none) else do
    let es ← mapM? parseUriEntry (s.splitOn ";")
    pure fun q => (es.find? (·.1 == q)).bind (·.2)

def capUri : Capability → String
  | .base10 => "urn:ietf:params:netconf:base:1.0"
  | .base11 => "urn:ietf:params:netconf:base:1.1"
  | .writableRunning => "urn:ietf:params:netconf:capability:writable-running:1.0"
  | .candidate => "urn:ietf:params:netconf:capability:candidate:1.0"
  | .confirmedCommit10 => "urn:ietf:params:netconf:capability:confirmed-commit:1.0"
  | .confirmedCommit11 => "urn:ietf:params:netconf:capability:confirmed-commit:1.1"
  | .rollbackOnError => "urn:ietf:params:netconf:capability:rollback-on-error:1.0"
  | .validate10 => "urn:ietf:params:netconf:capability:validate:1.0"
  | .validate11 => "urn:ietf:params:netconf:capability:validate:1.1"
  | .startup => "urn:ietf:params:netconf:capability:startup:1.0"
  | .url schemes => "urn:ietf:params:netconf:capability:url:1.0?scheme=" ++ ",".intercalate schemes
  | .xpath => "urn:ietf:params:netconf:capability:xpath:1.0"
  | .junos => "http://xml.juniper.net/netconf/junos/1.0"
  | .unknown u => u

def insertSorted (s : String) : List String → List String
  | [] => [s]
  | x :: xs => if s == x then x :: xs else if s < x then s :: x :: xs else x :: insertSorted s xs

def sortDedup (l : List String) : List String := l.foldl (fun acc s => insertSorted s acc) []

def showContext : Except Err Context → String
  | .error _ => "err"
  | .ok c =>
    let v := match c.version with | .v10 => "1.0" | .v11 => "1.1"
    let caps := sortDedup (c.serverCaps.map capUri)
    let capsS := if caps.isEmpty then "." else ",".intercalate (caps.map hexStr)
    s!"ok sid={c.sid} ver={v} caps={capsS}"

def allDigits (s : String) : Bool := !s.isEmpty && s.toList.all fun c => '0' ≤ c && c ≤ '9'

/-- **C12 specification** on an observed establishment outcome.
`shape`/`uris`: the hello is structurally a hello and all capability URIs are URIs; `sid`: the raw
session-id text; `bases`: base versions the server advertised; `adv11`: whether the client's own
hello (as found on the wire) advertises :base:1.1. Only clear-cut session-id texts are judged
(all-digit strings); padded / signed ones are C13's business. -/
def specHello (shape uris : Bool) (sid : Option String) (bases : List String) (adv11 : Bool) (outcome : String) : String :=
  let established := outcome.startsWith "ok|"
  let common10 := bases.contains "10"
  let common11 := adv11 && bases.contains "11"
  let wantVer := if common11 then "1.1" else "1.0"
  let sidClear := match sid with | none => true | some s => allDigits s || s.isEmpty || s == "abc" || s == "-1"
  let sidValid := match sid with
    | some s => allDigits s && (match s.toNat? with | some n => 0 < n && n < 2 ^ 32 | none => false)
    | none => false
  if outcome != "err" && !established then "violation bad-observation"
  else if !sidClear then
    -- still: an established session must be usable
    (if established && common11 then "violation v11-unusable" else "ok")
  else
    let want := shape && uris && sidValid && (common10 || common11)
    if established && !want then "violation established-invalid-hello"
    else if !established && want then "violation rejected-valid-hello"
    else if !established then "ok"
    else
      let fields := outcome.splitOn "|"
      let verOk := fields.contains s!"ver={wantVer}"
      let sidOk := match sid with | some s => fields.contains s!"sid={s.toNat?.getD 0}" | none => false
      if !verOk then "violation wrong-version"
      else if !sidOk then "violation wrong-session-id"
      -- RFC 6242 §4.1: both advertised :base:1.1 ⇒ chunked framing required, but only
      -- end-of-message framing exists
      else if common11 then "violation v11-unusable"
      else "ok"

def drive : List String → Option String
  | ["reply", c, k, evs] => do
    let c ← parseRCfg c
    let k ← parseKind k
    let evs ← parseEvs evs
    pure (showOutcome (readMessage c k evs))
  | ["reply-for", c, k, id, evs] => do
    -- single outstanding request with message-id `id`: a reply whose phase-1 id differs is not
    -- found in the request map (Error::RequestNotFound) and fails the reading future
    let c ← parseRCfg c
    let k ← parseKind k
    let id ← id.toNat?
    let evs ← parseEvs evs
    pure (match readPartial c (evs.length + 1) none evs with
      | .error _ => "err"
      | .ok id1 => if id1 == id then showOutcome (phase2 c k id1 evs) else "err")
  | ["reply-dbg", c, k, evs] => do
    let c ← parseRCfg c
    let k ← parseKind k
    let evs ← parseEvs evs
    pure (showOutcomeDbg (readMessage c k evs))
  | ["hello", c, adv, oracle, evs] => do
    let c ← parseRCfg c
    let o ← parseOracle oracle
    let evs ← parseEvs evs
    pure (showContext (establish c (adv == "1") o evs))
  | ["spec-hello", descr, adv, outcome] => do
    let kv := (descr.splitOn "|").map fun f => match f.splitOn "=" with | [k, v] => (k, v) | _ => (f, "")
    let get := fun k => (kv.find? (·.1 == k)).map (·.2)
    let shape ← get "shape"
    let uris ← get "uris"
    let sid ← (get "sid").bind parseOptStr
    let bases ← get "bases"
    pure (specHello (shape == "1") (uris == "1") sid (splitList bases) (adv == "adv11=1") outcome)
  | ["spec-reply", k, doc, outcome] => do
    let k ← parseKind k
    let doc ← parseDoc doc
    pure (specReply k doc outcome)
  | _ => none

end Xml
