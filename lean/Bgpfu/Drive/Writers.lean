import Bgpfu.Model.Writers
import Bgpfu.Drive.Proto
/-! Line protocol for the `ser` family (C10). Values are hex (`-` = empty), `~` = absent. -/
namespace Writers
open Proto Framing

/-- `pinned` | `fixed` | `c<payloadEsc><wsRefs><guard><charGuard>` with 0/1 digits -/
def parseCfg (s : String) : Option Cfg :=
  if s == "pinned" then some .pinned
  else if s == "fixed" then some .fixed
  else match s.toList with
    | ['c', p, w, g, x] =>
      let bit : Char → Option Bool := fun ch => if ch == '0' then some false else if ch == '1' then some true else none
      do pure { payloadEsc := ← bit p, wsRefs := ← bit w, guard := ← bit g, charGuard := ← bit x }
    | _ => none

def parseOpt (s : String) : Option (Option (List Nat)) :=
  if s == "~" then some none else (unhex s).map some

def parseNat (s : String) : Option Nat := s.toNat?

def parseBool (s : String) : Option Bool :=
  if s == "0" then some false else if s == "1" then some true else none

def parseDs (s : String) : Option Datastore :=
  if s == "running" then some .running else if s == "candidate" then some .candidate
  else if s == "startup" then some .startup else none

def parseFilter (s : String) : Option (Option Filter) :=
  if s == "~" then some none
  else match s.splitOn ":" with
    | ["s", h] => (unhex h).map fun b => some (.subtree b)
    | ["x", h] => (unhex h).map fun b => some (.xpath b)
    | _ => none

def parseSource (s : String) : Option Source :=
  match s.splitOn ":" with
  | ["d", d] => (parseDs d).map .datastore
  | ["c", h] => (unhex h).map .config
  | ["u", h] => (unhex h).map .url
  | _ => none

def parseAct (s : String) : Option Act :=
  if s == "merge" then some .merge else if s == "override" then some .override
  else if s == "update" then some .update else if s == "replace" then some .replace
  else if s == "set" then some .set else none

def parseFmt (s : String) : Option Fmt :=
  if s == "text" then some .text else if s == "xml" then some .xml else if s == "json" then some .json else none

def parseLoad (s : String) : Option LoadSrc :=
  match s.splitOn ":" with
  | ["rescue"] => some .rescue
  | ["rollback", n] => (parseNat n).map .rollback
  | ["revision", h] => (unhex h).map .revision
  | ["url", h, f, a] => do pure (.url (← unhex h) (← parseFmt f) (← parseAct a))
  | ["text", a, h] => do pure (.cfgText (← unhex h) (← parseAct a))
  | ["json", a, h] => do pure (.cfgJson (← unhex h) (← parseAct a))
  | ["xml", a, h] => do pure (.cfgXmlRaw (← unhex h) (← parseAct a))
  | _ => none

def parseOp : List String → Option Op
  | ["get", f] => (parseFilter f).map .get
  | ["get-config", d, f] => do pure (.getConfig (← parseDs d) (← parseFilter f))
  | ["edit-config", t, d, e, o, s] => do
    let d ← if d == "merge" then some DefaultOperation.merge else if d == "replace" then some .replace
            else if d == "none" then some .none else none
    let e ← if e == "stop-on-error" then some ErrorOption.stopOnError
            else if e == "continue-on-error" then some .continueOnError
            else if e == "rollback-on-error" then some .rollbackOnError else none
    let o ← if o == "test-then-set" then some TestOption.testThenSet else if o == "set" then some .set
            else if o == "test-only" then some .testOnly else none
    let s ← match s.splitOn ":" with
      | ["c", h] => (unhex h).map EditSrc.config
      | ["u", h] => (unhex h).map EditSrc.url
      | _ => none
    pure (.editConfig (← parseDs t) d e o s)
  | ["copy-config", t, s] => do pure (.copyConfig (← parseDs t) (← parseSource s))
  | ["delete-config", t] =>
    match t.splitOn ":" with
    | ["d", d] => (parseDs d).map fun d => .deleteConfig (.datastore d)
    | ["u", h] => (unhex h).map fun u => .deleteConfig (.url u)
    | _ => none
  | ["lock", t] => (parseDs t).map .lock
  | ["unlock", t] => (parseDs t).map .unlock
  | ["kill-session", n] => (parseNat n).map .killSession
  | ["commit", c, t, p, q] => do pure (.commit (← parseBool c) (← parseNat t) (← parseOpt p) (← parseOpt q))
  | ["cancel-commit", p] => (parseOpt p).map .cancelCommit
  | ["discard-changes"] => some .discardChanges
  | ["validate", s] => (parseSource s).map .validate
  | ["close-session"] => some .closeSession
  | ["close-configuration"] => some .closeConfiguration
  | ["lock-configuration"] => some .lockConfiguration
  | ["unlock-configuration"] => some .unlockConfiguration
  | ["open-configuration", t] =>
    if t == "private" then some (.openConfiguration .priv)
    else if t == "ephemeral" then some (.openConfiguration .ephemeral)
    else match t.splitOn ":" with
      | ["n", h] => (unhex h).map fun n => .openConfiguration (.named n)
      | _ => none
  | ["commit-configuration", c, a, cf, l, s] => do
    let cf ← if cf == "~" then some none else (parseNat cf).map some
    let s ← if s == "~" then some none else (parseBool s).map some
    pure (.commitConfiguration (← parseBool c) (← parseOpt a) cf (← parseOpt l) s)
  | ["load-configuration", s] => (parseLoad s).map .loadConfiguration
  | _ => none

def parseRange (s : String) : Option Range :=
  match s.splitOn "_" with
  | [a, lo, hi] => do pure { addr := ← unhex a, lo := ← parseNat lo, hi := ← parseNat hi }
  | _ => none

def parseRanges (s : String) : Option (List Range) := mapM? parseRange (splitList s)

def parseOld (s : String) : Option (Option (List Range)) :=
  if s == "~" then some none else (parseRanges s).map some

def parseUpdate : List String → Option Update
  | ["del", n] => (unhex n).map .delete
  | ["upd", n, now, e, o4, n4, o6, n6] => do
    pure (.update (← unhex n) (← unhex now) (← unhex e)
      { family := b!"inet", old := ← parseOld o4, new := ← parseRanges n4 }
      { family := b!"inet6", old := ← parseOld o6, new := ← parseRanges n6 })
  | _ => none

def showSend : Option (List Nat) → String
  | some w => hex w
  | none => "refused"

def showParse : Option (List Nat) → String
  | some w => hex w
  | none => "error"

/-- C10 framing clause evaluated on bytes the implementation put on the wire -/
def specFrame (w : List Nat) (cls : String) : String :=
  match find marker w with
  | none => "violation no-marker"
  | some i => if i + marker.length == w.length then "ok" else "violation " ++ cls

/-- ops:
  `wire <cfg> <message-id> <op…>`   → hex of the request on the wire | `refused`
  `hello <cfg> <caps>`              → hex of the client `<hello>` on the wire
  `payload <cfg> <update…>`         → hex of the agent's `<configuration>` payload (no marker)
  `loadupd <cfg> <id> <action> <update…>` → hex of `<load-configuration format="xml" …>` carrying that payload
  `esc <cfg> text|attr <hex>`       → hex of the escaped form
  `parse text|attr <hex>`           → hex of what a conforming parser extracts | `error`
  `specframe <hex> <class>`         → `ok` | `violation <class>` (a delimiter before the end; `<class>` names
                                      the kind of leaf the harness put it in) | `violation no-marker`
-/
def drive : List String → Option String
  | ["variant", c] => do
    -- the variant the registration pins; the harness compares it with what it probed
    let _ ← parseCfg c
    pure c
  | "wire" :: c :: id :: op => do
    let c ← parseCfg c
    let id ← parseNat id
    let op ← parseOp op
    pure (showSend (send c (request c id op)))
  | ["hello", c, caps] => do
    let c ← parseCfg c
    let caps ← mapM? unhex (splitList caps)
    pure (showSend (send c (hello caps)))
  | "payload" :: c :: u => do
    let c ← parseCfg c
    let u ← parseUpdate u
    pure (hex (render c.wsRefs (updateTree u)))
  | "loadupd" :: c :: id :: a :: u => do
    let c ← parseCfg c
    let id ← parseNat id
    let a ← parseAct a
    let u ← parseUpdate u
    pure (showSend (send c (request c id (.loadConfiguration (.cfgXmlTree (updateTree u) a)))))
  | ["esc", c, k, h] => do
    let c ← parseCfg c
    let v ← unhex h
    if k == "text" then pure (hex (escText c.wsRefs v))
    else if k == "attr" then pure (hex (escAttr c.wsRefs v))
    else none
  | ["parse", k, h] => do
    let v ← unhex h
    if k == "text" then pure (showParse (parseText v))
    else if k == "attr" then pure (showParse (parseAttr v))
    else none
  | ["specframe", h, cls] => (unhex h).map (specFrame · cls)
  | _ => none

end Writers
