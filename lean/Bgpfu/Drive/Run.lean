import Bgpfu.Model.Run
import Bgpfu.Drive.Proto
/-! `run` op family (C04).
`run model <n> <fault>`  fault = `none` | `<pos>:<rpcerr|errwarnok|errcount|malformed|wrongid|closebefore|closeafter>`
   → `result=<ok|err> commit=<0|1> closedb=<0|1> closesess=<0|1> names=<comma list | *>`
   (`names=*` for connection-closing faults: how many already-pipelined requests the server still
   reads before it closes is a race the model does not decide)
`run spec <n> <fault> <result> <commit> …` → C04 predicate on the observed run. -/
namespace Run
open Proto

def parseFault (s : String) : Option (Option (Nat × Fault)) :=
  if s == "none" then some none else
  match s.splitOn ":" with
  | [p, k] => do
    let p ← p.toNat?
    let k ← if k == "rpcerr" || k.startsWith "rpcerr-" then some Fault.rpcError else if k == "errwarnok" then some .errWarnOk
      else if k == "manywarnerrok" then some .errWarnOk
      else if k == "errloadsuccess" then some .errWarnOk
      else if k == "errcount" then some .errCount else if k == "malformed" then some .malformed
      else if k == "wrongid" then some .wrongId else if k == "closebefore" then some .closeBefore
      else if k == "closeafter" then some .closeAfter else none
    pure (some (p, k))
  | _ => none

def b01 (b : Bool) : String := if b then "1" else "0"

def showRun (fault : Option (Nat × Fault)) (r : List Req × Bool) : String :=
  let closing := (closesAt fault).isSome
  let names := if closing then "*" else (if r.1.isEmpty then "." else ",".intercalate (r.1.map Req.name))
  s!"result={if r.2 then "ok" else "err"} commit={b01 (r.1.contains .commit)} closedb={b01 (r.1.contains .closeDb)} closesess={b01 (r.1.contains .closeSession)} names={names}"

/-- C04 on an observation -/
def specRun (n : Nat) (fault : Option (Nat × Fault)) (result commit : String) : String :=
  let inRun := match fault with
    | none => false
    | some (p, k) => 1 ≤ p && p ≤ 6 + n && !(p == 6 + n && k.isCloseAfter)
  let beforeCommit := match fault with
    | none => false
    | some (p, _) => 1 ≤ p && p ≤ 3 + n
  if commit == "commit=1" && beforeCommit then "violation commit-after-fault"
  else if result == "result=ok" && inRun then "violation success-despite-fault"
  else if result == "result=err" && !inRun then "violation failure-without-fault"
  else "ok"

def drive : List String → Option String
  | ["model", n, f] => do
    let n ← n.toNat?
    let f ← parseFault f
    pure (showRun f (run n f))
  | "spec" :: n :: f :: result :: commit :: _ => do
    let n ← n.toNat?
    let f ← parseFault f
    pure (specRun n f result commit)
  | _ => none

end Run
