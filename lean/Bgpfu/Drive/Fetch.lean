import Bgpfu.Spec.ConfigGrammar
import Bgpfu.Drive.Xml
/-!
Driver ops of family `fetch` (C16).

  fetch cands <pinned|fixed> <parse-oracle> <unescape-oracle> <events>
      model op: `agent::verif::read_candidates` on the event list of the whole reply document
      (`Drive/Xml.lean` encoding) → canonical result
  fetch spec <config> <parse-oracle> <result>
      spec op: `select` on the harness's abstract description of the generated configuration against
      the implementation's canonical result → `ok` | `violation <class>`

oracle    `.` | entry;entry;…   entry = `<hex key>:<hex value>` | `<hex key>:!` (parse / unescape error)
          Every query the model can make must be present (a missing key is `bad-op`, never a default).
result    `err` | `ok:.` | `ok:item;item;…` sorted;  item = `<hex name>=P<hex Display of the expression>`
          | `<hex name>=M<hex raw text>` (malformed, kept as unevaluable)
config    `.` | stmt,stmt,…     stmt = attrs|body
          attrs = `.` | a;a;…   a = `A<hex value>` jcmd:active | `C<hex value>` jcmd:comment (unescaped
                                 values as generated) | `O` any other attribute
          body  = `.` | b;b;…   b = `N<hex name>` (the name as generated, unescaped) | `T<children>` |
                                 `E` other element | `M` empty element | `X` text | `D` CDATA | `K` comment
          children = `_` (none) | string over r (`<reject/>`) a (other empty element) e (element)
                                 x (text) d (CDATA) k (comment)
-/
namespace Xml.FetchDrive
open Proto Xml

def parseFCfg (s : String) : Option FCfg :=
  if s == "fixed" then some .fixed else if s == "pinned" then some .pinned else none

abbrev Table := List (String × Option String)

def parseEntry (s : String) : Option (String × Option String) :=
  match s.splitOn ":" with
  | [k, "!"] => (unhexStr k).map (·, none)
  | [k, v] => do
    let k ← unhexStr k
    let v ← unhexStr v
    pure (k, some v)
  | _ => none

def parseTable (s : String) : Option Table :=
  if s == "." then some [] else mapM? parseEntry (s.splitOn ";")

def Table.lookup (t : Table) (k : String) : Option (Option String) := (t.find? (·.1 == k)).map (·.2)
def Table.fn (t : Table) (k : String) : Option String := (t.lookup k).join
def Table.has (t : Table) (k : String) : Bool := (t.lookup k).isSome

/-- the parser queries the reader can make on these events: the annotation text of every
`jcmd:comment` attribute of every start tag -/
def parseQueries (evs : List Ev) : List String :=
  evs.flatMap fun
    | .start t => t.attrs.filterMap fun
        | .ok a => if a.ns == .bound JCMD && a.lname == "comment" then a.value.bind annotationRaw else none
        | .bad => none
    | _ => []

/-- the unescape queries: the span of every `<name>` start tag -/
def unescapeQueries (evs : List Ev) : List String :=
  evs.filterMap fun
    | .start t => if t.is XNM "name" then t.span else none
    | _ => none

def insertSortedS (s : String) : List String → List String
  | [] => [s]
  | x :: xs => if s < x then s :: x :: xs else x :: insertSortedS s xs

def sortS (l : List String) : List String := l.foldl (fun acc s => insertSortedS s acc) []

def showItem (x : String × FExpr) : String :=
  match x.2 with
  | .parsed d => s!"{hexStr x.1}=P{hexStr d}"
  | .malformed r => s!"{hexStr x.1}=M{hexStr r}"

def showResult : Except Err (List (String × FExpr)) → String
  | .error _ => "err"
  | .ok l => if l.isEmpty then "ok:." else "ok:" ++ ";".intercalate (sortS (l.map showItem))

def showResultDbg : Except Err (List (String × FExpr)) → String
  | .error e => s!"err:{repr e}"
  | r => showResult r

/-! ### abstract configurations -/

def mkAttr (s : String) : Option Attr :=
  if s == "O" then some { key := "x", ns := .unbound, lname := "x", value := some "" }
  else if s.startsWith "A" then
    (unhexStr (s.drop 1).toString).map fun v => { key := "jcmd:active", ns := .bound JCMD, lname := "active", value := some v }
  else if s.startsWith "C" then
    (unhexStr (s.drop 1).toString).map fun v => { key := "jcmd:comment", ns := .bound JCMD, lname := "comment", value := some v }
  else none

def mkThenItem (c : Char) : Option ThenItem :=
  if c == 'r' then some (.empty (xnmTag "reject" "reject" [] none))
  else if c == 'a' then some (.empty (xnmTag "accept" "accept" [] none))
  else if c == 'e' then some (.elem (xnmTag "next" "next" [] none) [.text "policy"])
  -- an action Junos renders as a container with a same-named leaf: `<metric><metric>100</metric></metric>`
  else if c == 'm' then some (.elem (xnmTag "metric" "metric" [] none)
      [.start (xnmTag "metric" "metric" [] none), .text "100", .end "metric"])
  else if c == 'x' then some (.text "x")
  else if c == 'd' then some .cdata
  else if c == 'k' then some .comment
  else none

def mkBodyItem (s : String) : Option BodyItem :=
  if s == "E" then some (.elem (xnmTag "term" "term" [] none) [])
  else if s == "M" then some (.empty (xnmTag "apply-groups" "apply-groups" [] none))
  else if s == "G" then some (.elem (xnmTag "tag" "tag" [] none) [.start (xnmTag "tag" "tag" [] none), .text "7", .end "tag"])
  else if s == "X" then some (.text "x")
  else if s == "D" then some .cdata
  else if s == "K" then some .comment
  else if s.startsWith "N" then (unhexStr (s.drop 1).toString).map fun n => .name "name" [] n [.text n]
  else if s.startsWith "T" then
    let cs := (s.drop 1).toString
    if cs == "_" then some (.then_ "then" [] none [])
    else (mapM? mkThenItem cs.toList).map fun l => .then_ "then" [] none l
  else none

def listOf {α} (sep : String) (f : String → Option α) (s : String) : Option (List α) :=
  if s == "." then some [] else mapM? f (s.splitOn sep)

def mkStmt (s : String) : Option Stmt :=
  match s.splitOn "|" with
  | [a, b] => do
    let attrs ← listOf ";" mkAttr a
    let body ← listOf ";" mkBodyItem b
    pure { raw := "policy-statement", attrs := attrs, span := none, body := body }
  | _ => none

def mkConfig (s : String) : Option Config := do
  let ss ← listOf "," mkStmt s
  pure { confRaw := "configuration", confAttrs := [], confSpan := none, poRaw := "policy-options", poAttrs := [],
         poSpan := none, items := ss.map .stmt }

/-- the parser queries `select` makes on a configuration -/
def specQueries (cfg : Config) : List String := cfg.stmts.flatMap Stmt.annotations

def parseItem (s : String) : Option (String × String) :=
  match s.splitOn "=" with
  | [n, e] => some (n, e)
  | _ => none

def parseResult (s : String) : Option (Option (List (String × String))) :=
  if s == "err" then some none
  else if s == "ok:." then some (some [])
  else if s.startsWith "ok:" then (mapM? parseItem ((s.drop 3).toString.splitOn ";")).map some
  else none

/-- why a pair the implementation returned is not in the selection: the statements carrying that
name are looked at, the most specific cause first -/
def classifyExtra (cfg : Config) (want : List (String × String)) (x : String × String) : String :=
  if want.any (·.1 == x.1) then "wrong-expression"
  else
    let ss := cfg.stmts.filter (fun s => s.names.head?.map hexStr == some x.1)
    if ss.isEmpty then "unknown-candidate"
    else if ss.any (fun s => !s.inactive && s.annotation.isSome && !s.defaultReject && s.thens.length > 1 && !s.body.any BodyItem.isOther)
      then "extra-then-selected"
    else if ss.any (fun s => !s.inactive && s.annotation.isSome && !s.defaultReject) then "other-content-selected"
    else if ss.any (fun s => s.inactive && s.annotation.isSome) then "inactive-selected"
    else if ss.any (fun s => s.annotation.isNone) then "unannotated-selected"
    else "unexpected-candidate"

/-- **C16 specification predicate** on an observed result -/
def specCands (parse : String → Option String) (cfg : Config) (got : Option (List (String × String))) : String :=
  let sel := select parse some cfg
  let blocked := cfg.stmts.any fun s => !s.inactive && s.annotation.isSome && !s.plain
  match got, sel with
  | none, .error _ => "ok"
  | none, .ok _ => if blocked then "violation other-content-fails-read" else "violation read-fails"
  | some _, .error _ => "violation duplicate-accepted"
  | some l, .ok s =>
    let want := (s.map showItem).filterMap parseItem
    match l.find? (fun x => !want.contains x) with
    | some x => "violation " ++ classifyExtra cfg want x
    | none =>
      match want.find? (fun x => !l.contains x) with
      | some _ => "violation missed-candidate"
      | none => "ok"

def drive : List String → Option String
  | ["cands", c, po, uo, evs] => go c po uo evs false
  | ["cands-dbg", c, po, uo, evs] => go c po uo evs true
  | ["spec", cfg, po, res] => do
    let cfg ← mkConfig cfg
    let po ← parseTable po
    let got ← parseResult res
    if (specQueries cfg).all po.has then pure (specCands po.fn cfg got) else none
  | ["select", cfg, po] => do
    let cfg ← mkConfig cfg
    let po ← parseTable po
    if (specQueries cfg).all po.has then pure (showResult (select po.fn some cfg)) else none
  | _ => none
where
  go (c po uo evs : String) (dbg : Bool) : Option String := do
    let c ← parseFCfg c
    let po ← parseTable po
    let uo ← parseTable uo
    let evs ← parseEvs evs
    if (parseQueries evs).all po.has && (unescapeQueries evs).all uo.has then
      let r := readCandidatesDoc c po.fn uo.fn evs
      pure (if dbg then showResultDbg r else showResult r)
    else none

end Xml.FetchDrive
