import Bgpfu.Model.Framing
import Bgpfu.Drive.Proto
namespace Framing
open Proto

def parseRead (s : String) : Option Read :=
  if s == "e" then some .eof
  else if s == "x" then some .ioErr
  else if s.startsWith "d" then (unhex (s.drop 1).toString).map .data
  else none

def parseEv (s : String) : Option ChanEv :=
  if s == "e" then some .eof
  else if s == "o" then some .other
  else if s == "c" then some .closed
  else if s.startsWith "d" then (unhex (s.drop 1).toString).map .data
  else none

def parseCfg (s : String) : Option Cfg :=
  if s == "fixed" then some .fixed else if s == "pinned" then some .pinned else none

def parsePumpCfg (s : String) : Option PumpCfg :=
  if s == "fixed" then some .fixed else if s == "pinned" then some .pinned else none

def showOut : Out → String
  | .msg m buf _ => s!"msg:{hex m}:{hex buf}"
  | .pending buf => s!"pending:{hex buf}"
  | .err buf => s!"err:{hex buf}"
  | .spin buf => s!"spin:{hex buf}"

def showEnd : PumpEnd → String
  | .running => "running" | .exited => "exited" | .spinning => "spinning"

def fuelFor (rs : List Read) : Nat :=
  (rs.map fun | .data bs => bs.length | _ => 0).sum + 2

def outKind : Out → String
  | .msg .. => "msg" | .pending _ => "pending" | .err _ => "err" | .spin _ => "spin"

/-- what the *next* `recv` does after the stream ended (EOF is sticky; after an I/O error the
    socket keeps failing) -/
def againKind (c : Cfg) : Out → String
  | .err b => outKind (recv c b [.eof])
  | _ => "-"

/-- C06/C07 specification evaluated on what the implementation was observed to do:
    the delivered messages are exactly the greedy split of the stream the peer sent; with the peer
    still connected the receiver then blocks; with the peer gone it fails, and fails again. -/
def specVerdict (stream : List Byte) (st : String) (obs : List (List Byte)) (e again : String) : String :=
  let want := (split stream).1
  let closed := st != "open"
  -- an abortive close (TCP reset, SIGKILL) may destroy bytes the client had not read yet:
  -- then the delivered messages need only be a prefix of the split
  if st == "aborted" ∧ obs.length ≤ want.length ∧ obs == want.take obs.length then
    (if e == "spin" ∨ again == "spin" then "violation spin-after-close"
     else if e == "pending" ∨ again == "pending" then "violation hang-after-close"
     else if e == "err" ∧ again == "err" then "ok" else "violation bad-observation")
  else if obs != want then
    (if obs.length < want.length ∧ obs == want.take obs.length then
      (if e == "spin" then "violation spin" else "violation undelivered-message")
     else "violation wrong-messages")
  else if !closed then
    (if e == "pending" then "ok" else if e == "spin" then "violation spin" else "violation spurious-error")
  else
    (if e == "spin" ∨ again == "spin" then "violation spin-after-close"
     else if e == "pending" ∨ again == "pending" then "violation hang-after-close"
     else if e == "err" ∧ again == "err" then "ok" else "violation bad-observation")

/-- ops:
  `recvall <cfg> <bufhex> <reads>`  → `msgs=<list> end=<out>`
  `pump <cfg> <events>`             → `msgs=<list> buf=<hex> end=<status>`
  `split <hex>`                     → `msgs=<list> rest=<hex>`   (the specification)
-/
def drive : List String → Option String
  | ["recvall", c, b, rs] => do
    let c ← parseCfg c
    let b ← unhex b
    let rs ← mapM? parseRead (splitList rs)
    let (ms, fin) := recvAll c (b.length + (rs.map fun | .data bs => bs.length | _ => 0).sum + 2) b rs
    pure s!"msgs={hexList ms} end={showOut fin}"
  | ["pump", c, evs] => do
    let c ← parsePumpCfg c
    let evs ← mapM? parseEv (splitList evs)
    let (ms, buf, fin) := pump c evs []
    pure s!"msgs={hexList ms} buf={hex buf} end={showEnd fin}"
  | ["recvobs", c, rs] => do
    let c ← parseCfg c
    let rs ← mapM? parseRead (splitList rs)
    let (ms, fin) := recvAll c (fuelFor rs) [] rs
    pure s!"msgs={hexList ms} end={outKind fin} again={againKind c fin}"
  | ["pumpobs", c, evs] => do
    let c ← parsePumpCfg c
    let evs ← mapM? parseEv (splitList evs)
    let (ms, _, fin) := pump c evs []
    -- receivers: running → blocked; exited → queue closed ⇒ Err(DequeueMessage), again and again;
    -- spinning → receivers blocked while the pump task burns CPU
    pure (match fin with
      | .running => s!"msgs={hexList ms} end=pending again=-"
      | .exited => s!"msgs={hexList ms} end=err again=err"
      | .spinning => s!"msgs={hexList ms} end=spin again=-")
  | ["spec", stream, st, obs, e, again] => do
    let s ← unhex stream
    let obs ← mapM? unhex (splitList obs)
    pure (specVerdict s st obs e again)
  | ["split", s] => do
    let s ← unhex s
    let (ms, r) := split s
    pure s!"msgs={hexList ms} rest={hex r}"
  | _ => none

end Framing
