import Bgpfu.Model.LogTable
import Bgpfu.Model.LogTableGen
import Bgpfu.Drive.Proto
/-! `modeld` ops of family `logs` (C20): summary of the generated table, its side condition as a spec op, and the
correspondence of the table with the metadata of the events/spans the real code emitted at run time.

* `logs summary`                       → counts (for the evidence file)
* `logs count <instrument|event|errtext>` → number of entries of that kind (compared with the harness' own count
                                         of the constructs in the source text)
* `logs specsafe`                      → `ok` | `violation unsafe-formatter:<file>:<line>:<field>` (first unsafe field)
* `logs unsafe`                        → all unsafe fields, `;`-separated, or `none`
* `logs specsite <event|span> <hexfile> <line> <level> <names>` → the table has this site with exactly these named
                                         fields at this level: `ok` | `violation unlisted-site` | `violation
                                         level-mismatch` | `violation field-mismatch`
* `logs render <hexpassword> <hexkey>` → number of records and of distinct rendered values (smoke test of `logged`)
-/
namespace LogTable
open Proto

def kindName : Kind → String
  | .instrument => "instrument" | .event => "event" | .errtext => "errtext"

def levelName : Level → String
  | .error => "error" | .warn => "warn" | .info => "info" | .debug => "debug" | .trace => "trace"

def fmtName : Formatter → String
  | .redacting => "redacting" | .opaque => "opaque" | .derivesSecret => "derives_secret" | .unknown => "unknown"

def countKind (t : Table) (k : Kind) : Nat := (t.filter (fun e => e.kind == k)).length

def countFmt (t : Table) (f : Formatter) : Nat :=
  (t.map (fun e => (e.fields.filter (fun x => x.fmt == f)).length)).sum

def summary (t : Table) : String :=
  s!"entries={t.length} instrument={countKind t .instrument} event={countKind t .event} errtext={countKind t .errtext} " ++
  s!"fields={(t.map (·.fields.length)).sum} redacting={countFmt t .redacting} opaque={countFmt t .opaque} " ++
  s!"derives_secret={countFmt t .derivesSecret} unknown={countFmt t .unknown} " ++
  s!"secret-flow-fields={(t.map (fun e => (e.fields.filter (fun x => !x.why.startsWith "no-secret-flow")).length)).sum} " ++
  s!"allSafe={allSafe t}"

def unsafeName (p : Entry × Field) : String :=
  s!"{p.1.file}:{p.1.line}:{p.2.name.replace " " "_"}:{fmtName p.2.fmt}"

/-- named fields of a site; a field that is itself called `message` (`trace!(?message)`) is indistinguishable at run
time from the formatted message and is left out on both sides -/
def namedFields (e : Entry) : List String :=
  ((e.fields.filter (fun f => !f.inMessage)).map (·.name)).filter (· != "message")

def sameSet (a b : List String) : Bool := a.all (b.contains ·) && b.all (a.contains ·)

/-- runtime metadata of one callsite against the table -/
def specSite (t : Table) (kind file : String) (line : Nat) (level : String) (names : List String) : String :=
  let here := t.filter (fun e => e.file == file && e.line ≤ line && line ≤ e.lineEnd && e.kind != .errtext)
  let want : Kind := if kind == "span" then .instrument else .event
  match here.filter (fun e => e.kind == want) with
  | [] =>
    -- `ret` / `err` of an instrumented function are events emitted from inside the attribute
    if kind == "event" && here.any (fun e => e.kind == .instrument &&
        names.all (fun n => n == "return" || n == "error") && names.all (fun n => (namedFields e).contains n)) then "ok"
    else "violation unlisted-site"
  | es =>
    if es.any (fun e => levelName e.level == level &&
        sameSet ((namedFields e).filter (fun n => n != "return" && n != "error")) names) then "ok"
    else if es.any (fun e => levelName e.level == level) then "violation field-mismatch"
    else "violation level-mismatch"

def drive : List String → Option String
  | ["summary"] => some (summary LogTableGen.table)
  | ["count", k] =>
    match k with
    | "instrument" => some (toString (countKind LogTableGen.table .instrument))
    | "event" => some (toString (countKind LogTableGen.table .event))
    | "errtext" => some (toString (countKind LogTableGen.table .errtext))
    | _ => none
  | ["specsafe"] =>
    match unsafeFields LogTableGen.table with
    | [] => some "ok"
    | p :: _ => some s!"violation unsafe-formatter:{unsafeName p}"
  | ["unsafe"] =>
    match unsafeFields LogTableGen.table with
    | [] => some "none"
    | ps => some (";".intercalate (ps.map unsafeName))
  | ["specsite", kind, hfile, line, level, names] => do
    let file ← unhexStr hfile
    let ln ← line.toNat?
    if kind != "event" && kind != "span" then none
    some (specSite LogTableGen.table kind file ln level (splitList names))
  | ["render", hp, hk] => do
    let p ← unhexStr hp
    let k ← unhexStr hk
    let ls := logged LogTableGen.table ⟨p.toList, k.toList⟩
    let vals := (ls.flatMap (·.values)).map (·.2)
    some s!"records={ls.length} values={vals.length} distinct={vals.eraseDups.length}"
  | _ => none

end LogTable
