import Bgpfu.Model.Session
import Bgpfu.Drive.Proto
/-! `sess` op family.
`sess run <pinned|fixed> <acts>` — acts `,`-separated:
  `s1`/`s0` send (builder ok / fails) · `g1`/`g0` gate open / closed · `p<f>` poll future f ·
  `d<id|n>/<tag>/<0|1>` deliver a message (phase-1 id or none, tag, phase 2 ok) · `x<f>` drop future f ·
  `c` close the transport · `r<n>` n fair rounds (poll every live future once per round)
answer: `sent=<ids> futs=<fid>:<id>:<pending|ok<tag>|err|dropped>;…`
`sess spec <acts> <observed answer>` — C05/C18 predicate on the observed behaviour.
-/
namespace Session
open Proto

def parseAct (s : String) : Option (List Act) :=
  -- `s2`: the transport reports an error after the request reached the server; for the client this is
  -- the same as any failed `rpc()`: the id is consumed and nothing is registered (the server's answer
  -- to it arrives as a reply with an id nobody waits for)
  if s == "s1" then some [.send true] else if s == "s0" then some [.send false] else if s == "s2" then some [.send false]
  else if s == "g1" then some [.gate true] else if s == "g0" then some [.gate false]
  else if s == "c" then some [.close]
  else if s.startsWith "p" then ((s.drop 1).toString.toNat?).map fun f => [.poll f]
  else if s.startsWith "x" then ((s.drop 1).toString.toNat?).map fun f => [.drop f]
  -- `D…` is `d…` with the reply padded to more than 1 MiB: the size of a message is not part of the model
  else if s.startsWith "d" || s.startsWith "D" then
    match (s.drop 1).toString.splitOn "/" with
    | [i, t, p] => do
      let id ← if i == "n" then some none else i.toNat?.map some
      let t ← t.toNat?
      pure [.deliver { id := id, tag := t, p2 := p == "1" }]
    | _ => none
  else none

def showPc : Pc → String
  | .done (.ok t) => s!"ok{t}"
  | .done .err => "err"
  | .dropped => "dropped"
  | _ => "pending"

def showSt (s : St) : String :=
  let sent := if s.sent.isEmpty then "." else ",".intercalate (s.sent.map toString)
  let futs := if s.futs.isEmpty then "." else ";".intercalate (s.futs.map fun f => s!"{f.fid}:{f.id}:{showPc f.pc}")
  s!"sent={sent} futs={futs}"

/-- run the action list; `r<n>` expands to n fair rounds on the state reached so far -/
def runActs (s : St) : List String → Option St
  | [] => some s
  | a :: rest =>
    if a.startsWith "r" then
      match (a.drop 1).toString.toNat? with
      | some n => runActs (St.rounds n s) rest
      | none => none
    else match parseAct a with
      | some acts => runActs (s.run acts) rest
      | none => none

/-- **C05 / C18 specification** evaluated on the observed final statuses.
Deliveries `d<id>/<tag>/1` are the server's replies. For every future that resolved `ok<tag>`:
the server sent a well-formed reply with that tag for exactly that future's message-id (own reply
only; never an unknown-id message), and no two futures resolved with the same delivered message.
After the final fair rounds (the schedule must end in `r<n>`, with the transport still open and
the gate open) and a fully responsive server (every request whose future was not dropped has been
answered with exactly one well-formed reply bearing its id, and nothing else was sent): every
future that was not dropped must have resolved `ok<tag>`. -/
def specSched (acts : List String) (obs : String) : String :=
  let delivs : List (Option Nat × Nat × Bool) := acts.filterMap fun a =>
    if a.startsWith "d" || a.startsWith "D" then
      match (a.drop 1).toString.splitOn "/" with
      | [i, t, p] => some (if i == "n" then none else i.toNat?, t.toNat?.getD 0, p == "1")
      | _ => none
    else none
  let futs : List (Nat × Nat × String) :=
    match obs.splitOn " futs=" with
    | [_, fs] => if fs == "." then [] else (fs.splitOn ";").filterMap fun f =>
        match f.splitOn ":" with
        | [a, b, c] => some (a.toNat?.getD 0, b.toNat?.getD 0, c)
        | _ => none
    | _ => []
  -- safety
  let bad := futs.filter fun (_, id, st) =>
    st.startsWith "ok" && !(delivs.any fun (i, t, p) => i == some id && p && s!"ok{t}" == st)
  let oks := futs.filter fun (_, _, st) => st.startsWith "ok"
  let dupTags := oks.any fun (f, _, st) => oks.any fun (g, _, st') => f != g && st == st'
  if !bad.isEmpty then "violation foreign-or-unknown-reply-delivered"
  else if dupTags then "violation reply-delivered-twice"
  else
    -- liveness, only for clean schedules
    let closed := acts.contains "c"
    let gateEnds := (acts.filter fun a => a == "g0" || a == "g1").getLast?
    let clean := !closed && gateEnds != some "g0" &&
      delivs.all (fun (i, _, p) => p && (match i with | some k => futs.any (fun (_, id, _) => id == k) | none => false)) &&
      delivs.all (fun (i, t, _) => (delivs.filter fun (i', t', _) => i' == i && t' != t).isEmpty) &&
      (delivs.map (·.1)).eraseDups.length == delivs.length &&
      -- fully responsive server: every request whose future is still wanted has been answered
      futs.all (fun (_, id, st) => st == "dropped" || delivs.any fun (i, _, _) => i == some id) &&
      -- enough fair rounds: theorem `all_complete` needs inbox.length + live.length of them
      (match acts.getLast? with
        | some a => a.startsWith "r" && (match (a.drop 1).toString.toNat? with
            | some n => delivs.length + futs.length ≤ n
            | none => false)
        | none => false)
    -- C07 (session part): once the transport has failed, fair polling completes EVERY future that was
    -- not dropped — with its parked reply or with an error — nothing stays pending
    let endsWithRounds := (match acts.getLast? with | some a => a.startsWith "r" | none => false)
    if closed && endsWithRounds && futs.any (fun (_, _, st) => st == "pending") then
      "violation pending-after-close"
    else if !clean then "ok"
    else
      let stuck := futs.filter fun (_, id, st) =>
        st != "dropped" && (delivs.any fun (i, _, _) => i == some id) && !st.startsWith "ok"
      if stuck.isEmpty then "ok"
      else
        -- which class: did the schedule drop a future (C18) or not (C05)?
        if acts.any (·.startsWith "x") then "violation survivor-not-completed-after-drop"
        else "violation request-not-completed"

def drive : List String → Option String
  | ["run", c, acts] => do
    let lock ← if c == "pinned" then some true else if c == "fixed" then some false else none
    let s ← runActs { lockAcrossSend := lock } (splitList acts)
    pure (showSt s)
  | ["spec", acts, sent, futs] => some (specSched (splitList acts) (sent ++ " " ++ futs))
  | _ => none

end Session
