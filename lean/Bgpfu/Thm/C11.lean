import Bgpfu.Lemmas.EvalSound
import Bgpfu.Thm.C17
/-!
# C11 — filter-expression evaluation equals RPSL set semantics over the IRR data

`evaluate cfg db fuel e [] : Ev → …` is the model of `RpslEvaluator::evaluate` talking to the
(fault-free) IRRd `serve db`; `RpslSpec.denote db fuel e : Pfx → Prop` is the reference semantics
written from RFC 2622 / RFC 4012 (`Model/RpslSpec.lean`), with set expansion as the inductive
reachability relation `Reach`.  Prefix sets are compared extensionally, on every prefix whose
length exists in its address family (`Pfx.Valid`).  Side conditions: range operators stay within
the family's prefix length (`OpsOk`, `DbOpsOk`: the upper bound of a `^n-m`), and — for the code as
it is (`Cfg.pinned`) — no route-set member carries a range operator (`RsPlain`; defect D16).
Helper lemmas: `Lemmas/Closure`, `Lemmas/Rpsl`, `Lemmas/Resolve`, `Lemmas/EvalSound`.
-/
namespace Irr
open Rpsl RpslSpec

/-- the fake IRRd's recursive expansion (`!i<set>,1`) is the reflexive-transitive closure of
membership, for every database — nested, cyclic and self-referencing sets included -/
theorem serve_expansion_correct {α : Type} (g : Graph α) (s : String) (x : α) :
    x ∈ expand g s ↔ LeafOf g s x :=
  mem_expand g s x

/-- **as-set**: whenever the as-set resolver succeeds, its result is exactly the set of `route` /
`route6` prefixes originated by the ASes in the membership closure of the set (both families;
cyclic databases included; ASes without routes contribute nothing). -/
theorem asset_correct (db : Db) (s : String) (st : Ev) (hst : Clean st) (P : PSet)
    (h : (resolveAsSet { db := db, faults := [] } s st).1 = .ok P) (p : Pfx) :
    P p = true ↔ ∃ a, LeafOf db.asSets s a ∧ Routes db a p :=
  resolveAsSet_sound db s st hst P h p

/-- **evaluation = denotation**: for every database, every expression (any nesting of AND / OR /
NOT, range operators on literals and on sets, as-sets, route-sets, aut-nums, filter-set
indirection) and every evaluator between evaluations: if the evaluation succeeds, the resulting
set is the RFC 2622 / 4012 denotation of the expression. -/
theorem eval_eq_denote (cfg : Cfg) (db : Db) (hrs : RsOk cfg db) (hdb : DbOpsOk db)
    (fuel : Nat) (e : Expr) (hops : OpsOk e) (st : Ev) (hst : Clean st)
    (P : PSet) (st' : Ev) (ev : List Event)
    (h : evaluate cfg db fuel e [] st = (.ok P, st', ev)) (q : Pfx) (hq : q.Valid) :
    P q = true ↔ denote db fuel e q :=
  eval_sound cfg db hrs hdb fuel e _ (beginEval_clean st hst) hops P st' ev h q hq

/-- the code as it is in /repo, on databases whose route-set members are plain prefixes -/
theorem eval_eq_denote_pinned (db : Db) (hplain : RsPlain db) (hdb : DbOpsOk db)
    (fuel : Nat) (e : Expr) (hops : OpsOk e) (P : PSet) (st' : Ev) (ev : List Event)
    (h : evaluate .pinned db fuel e [] Ev.fresh = (.ok P, st', ev)) (q : Pfx) (hq : q.Valid) :
    P q = true ↔ denote db fuel e q :=
  eval_eq_denote .pinned db (.inr hplain) hdb fuel e hops Ev.fresh fresh_clean P st' ev h q hq

/-- with the repair of the route-set resolver, on every database -/
theorem eval_eq_denote_fixed (db : Db) (hdb : DbOpsOk db)
    (fuel : Nat) (e : Expr) (hops : OpsOk e) (P : PSet) (st' : Ev) (ev : List Event)
    (h : evaluate .fixed db fuel e [] Ev.fresh = (.ok P, st', ev)) (q : Pfx) (hq : q.Valid) :
    P q = true ↔ denote db fuel e q :=
  eval_eq_denote .fixed db (.inl ⟨rfl, hdb⟩) hdb fuel e hops Ev.fresh fresh_clean P st' ev h q hq

/-- the result does not depend on the history of the evaluator (C17) -/
theorem eval_eq_denote_after_history (cfg : Cfg) (db : Db) (hrs : RsOk cfg db) (hdb : DbOpsOk db)
    (fuel : Nat) (hist : List (Expr × Faults)) (e : Expr) (hops : OpsOk e)
    (P : PSet) (st' : Ev) (ev : List Event)
    (h : evaluate cfg db fuel e [] (evalSeq cfg db fuel hist Ev.fresh).2 = (.ok P, st', ev))
    (q : Pfx) (hq : q.Valid) : P q = true ↔ denote db fuel e q :=
  eval_eq_denote cfg db hrs hdb fuel e hops _ (evalSeq_clean cfg db fuel hist Ev.fresh fresh_clean)
    P st' ev h q hq

/-- **partition**: the IPv4 and IPv6 parts handed to the router (eval.rs:47-50) reunite to the
evaluated set: every prefix is in exactly the part of its own family, with unchanged membership. -/
theorem partition_lossless (s : PSet) (q : Pfx) :
    s q = (match q.fam with
      | .v4 => (partition s).1 q.bits q.len
      | .v6 => (partition s).2 q.bits q.len) := by
  obtain ⟨f, b, l⟩ := q
  cases f <;> rfl

/-- what the agent installs for a candidate (`candOut`) is the denotation, family by family -/
theorem installed_eq_denote (cfg : Cfg) (db : Db) (hrs : RsOk cfg db) (hdb : DbOpsOk db)
    (fuel : Nat) (e : Expr) (hops : OpsOk e) (ps : Parts)
    (h : candOut (evaluate cfg db fuel e [] Ev.fresh).1 = some ps) (q : Pfx) (hq : q.Valid) :
    (match q.fam with
      | .v4 => ps.1 q.bits q.len
      | .v6 => ps.2 q.bits q.len) = true ↔ denote db fuel e q := by
  rcases he : evaluate cfg db fuel e [] Ev.fresh with ⟨o, st', ev⟩
  rw [he] at h
  cases o with
  | ok P =>
    simp only [candOut, Option.some.injEq] at h
    rw [← h, ← partition_lossless]
    exact eval_eq_denote cfg db hrs hdb fuel e hops Ev.fresh fresh_clean P st' ev he q hq
  | err k => simp [candOut] at h
  | panic k => simp [candOut] at h
  | diverge => simp [candOut] at h

/-- the model's set-level range operator agrees with rpsl's range-level `apply` on a single
`<prefix><op>` (this is what ties `applyOp` to `eval/apply.rs` + generic-ip's `with_length_range`) -/
theorem rangeop_member_agrees (op : RangeOp) (p q : Pfx) (hq : q.Valid)
    (hw : OpWithin p.fam.maxLen op) :
    (∃ r, memberRange op p = some r ∧ r.mem q = true) ↔ opSet op (· = p) q :=
  member_mem op p q hq hw

/-- … and on sets: rpsl applies the operator to `output.ranges()`; whatever list of well-formed
ranges generic-ip aggregates the set into, the surviving ranges denote the model's `applyOp` -/
theorem rangeop_set_agrees (op : RangeOp) (rs : List Range) (hrs : ∀ r ∈ rs, r.Wf) (q : Pfx) :
    applyOp op (PSet.ofRanges rs) q = true ↔ PSet.ofRanges (applyRanges op rs) q = true :=
  applyOp_ofRanges op rs hrs q

/-! ### the code as it is: route-set members with a range operator are dropped (D16) -/

def cexDb : Db :=
  { emptyIsD := true, asSets := [], routes := [], filterSets := []
    routeSets := [("RS-X", [.leaf (.pfx ⟨.v4, 10, 8⟩ .lessIncl)])] }

/-- `RS-X = {10.0.0.0/8^+}`: RFC 2622 puts 10.0.0.0/9 into the set; the evaluator returns the empty
set without any error (the member does not parse as `Prefix<Any>` and the error is sunk) -/
theorem routeset_range_member_dropped_cex :
    okAt (evaluate .pinned cexDb 1 (.prefixSet (.named (.routeSet "RS-X")) .none) [] Ev.fresh).1 ⟨.v4, 20, 9⟩
        = false ∧
      (evaluate .pinned cexDb 1 (.prefixSet (.named (.routeSet "RS-X")) .none) [] Ev.fresh).1.isOk = true ∧
      denote cexDb 1 (.prefixSet (.named (.routeSet "RS-X")) .none) ⟨.v4, 20, 9⟩ := by
  refine ⟨by decide, by decide, ?_⟩
  refine ⟨⟨.v4, 20, 9⟩, ⟨.pfx ⟨.v4, 10, 8⟩ .lessIncl, ⟨"RS-X", _, .refl, rfl, by simp⟩, ?_⟩, by decide, rfl⟩
  exact ⟨⟨.v4, 10, 8⟩, rfl, by decide, trivial⟩

/-- with the repair the member is honoured -/
example :
    okAt (evaluate .fixed cexDb 1 (.prefixSet (.named (.routeSet "RS-X")) .none) [] Ev.fresh).1 ⟨.v4, 20, 9⟩
      = true := by decide

/-! ### the parser in front of the evaluator: operator precedence -/

/-- The rpsl crate's grammar gives `AND`, `OR` equal precedence, nests to the right, and lets `NOT`
extend over everything to its right: `A AND B OR C` is read as `A AND (B OR C)` and `NOT A AND B`
as `NOT (A AND B)`, where RFC 2622 §5.4 prescribes `(A AND B) OR C` and `(NOT A) AND B`.  With
`A, B, C = {10.0.0.0/8}, {11.0.0.0/8}, {12.0.0.0/8}` the results differ on 12.0.0.0/8 resp.
11.0.0.0/8 (spec class `operator-precedence`; `eval_eq_denote` is about the tree the parser built). -/
theorem operator_precedence_cex :
    let a : Expr := .prefixSet (.lit [(⟨.v4, 10, 8⟩, .none)]) .none
    let b : Expr := .prefixSet (.lit [(⟨.v4, 11, 8⟩, .none)]) .none
    let c : Expr := .prefixSet (.lit [(⟨.v4, 12, 8⟩, .none)]) .none
    parseCrate (0, a) [(.and, 0, b), (.or, 0, c)] = .and a (.or b c) ∧
    parseRfc (0, a) [(.and, 0, b), (.or, 0, c)] = .or (.and a b) c ∧
    okAt (evaluate .pinned cexDb 1 (parseCrate (0, a) [(.and, 0, b), (.or, 0, c)]) [] Ev.fresh).1 ⟨.v4, 12, 8⟩ = false ∧
    okAt (evaluate .pinned cexDb 1 (parseRfc (0, a) [(.and, 0, b), (.or, 0, c)]) [] Ev.fresh).1 ⟨.v4, 12, 8⟩ = true ∧
    parseCrate (1, a) [(.and, 0, b)] = .not (.and a b) ∧
    parseRfc (1, a) [(.and, 0, b)] = .and (.not a) b ∧
    okAt (evaluate .pinned cexDb 1 (parseCrate (1, a) [(.and, 0, b)]) [] Ev.fresh).1 ⟨.v4, 12, 8⟩ = true ∧
    okAt (evaluate .pinned cexDb 1 (parseRfc (1, a) [(.and, 0, b)]) [] Ev.fresh).1 ⟨.v4, 12, 8⟩ = false := by
  decide

/-! ### Non-vacuity (database `exDb` of C17: cyclic as-sets) -/

/-- the cyclic as-sets expand to both ASes, from either entry point -/
example : expand exDb.asSets "AS-A" = [1, 2] ∧ expand exDb.asSets "AS-B" = [2, 1] := by decide

/-- `(AS-A^+ AND NOT {10.0.0.0/8^9-24}) OR FLTR-F` on the cyclic database: succeeds; contains
10.0.0.0/8, 10.0.0.0/25, 2001:db8::/48 and 192.0.2.0/24; does not contain 10.0.0.0/9 or 11.0.0.0/8 -/
example :
    let e : Expr := .or (.and (.prefixSet (.named (.asSet "AS-A")) .lessIncl)
        (.not (.prefixSet (.lit [(⟨.v4, 10, 8⟩, .range 9 24)]) .none))) (.filterSet "FLTR-F")
    let o := (evaluate .pinned exDb 2 e [] Ev.fresh).1
    okAt o ⟨.v4, 10, 8⟩ = true ∧ okAt o ⟨.v4, 10 * 2 ^ 17, 25⟩ = true ∧
      okAt o ⟨.v6, 0x20010db8 * 2 ^ 16, 48⟩ = true ∧ okAt o ⟨.v4, 0xc00002, 24⟩ = true ∧
      okAt o ⟨.v4, 20, 9⟩ = false ∧ okAt o ⟨.v4, 11, 8⟩ = false := by decide

end Irr
