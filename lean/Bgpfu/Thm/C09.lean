import Bgpfu.Lemmas.Builders
import Bgpfu.Lemmas.BuildersConverse
/-!
# C09 — requests use only what the server's advertised capabilities permit

Property theorems only (helper lemmas: `Bgpfu.Lemmas.Builders`).

* `Builders.build cfg ctx b` — the model of `session.rpc::<O, _>(build_fn)` up to the point where
  the request is handed to the transport (`Model/Builders.lean`, mirrors /repo/netconf arm by arm);
  `ctx.caps` is the server's capability set, **any** `List Capability` (with arbitrary URL scheme
  lists), `b` the operation with **any** sequence of builder calls.
* `Rfc.requires r` — the RFC 6241 section 8 table (`Model/Rfc6241.lean`), written from the RFC.
* `Cfg.pinned` is /repo as it is; `Cfg.fixed` is /repo with the proposed repairs (D6, E1, E2).
-/
namespace Builders
open Caps Rfc

/-- The request shapes on which the code as it is (`Cfg.pinned`) deviates from the RFC table. -/
def deviates : Request → Bool
  | .get (some .xpath) => true                       -- D6
  | .editConfig (.ds .startup) _ _ _ _ => true       -- E1
  | .deleteConfig (.ds .candidate) => true           -- E2
  | _ => false

/-- Safety for an arbitrary configuration, with one hypothesis per unchecked builder method. -/
theorem sent_implies_permitted_of (cfg : Cfg) (ctx : Ctx) (b : Build) (r : Request)
    (h : build cfg ctx b = .ok r)
    (hget : cfg.getFilterCheck = false → r ≠ .get (some .xpath))
    (hedit : cfg.editStartupCheck = false → ∀ a b c d, r ≠ .editConfig (.ds .startup) a b c d)
    (hdel : cfg.deleteCandidateCheck = false → r ≠ .deleteConfig (.ds .candidate)) :
    ∀ q ∈ requires r, q.check ctx.caps = true := by
  rw [← allOk_iff]
  cases b with
  | get cs => exact get_safe cfg ctx cs r h hget
  | getConfig cs => exact getConfig_safe cfg ctx cs r h
  | editConfig cs => exact editConfig_safe cfg ctx cs r h hedit
  | copyConfig cs => exact copyConfig_safe cfg ctx cs r h
  | deleteConfig cs => exact deleteConfig_safe cfg ctx cs r h hdel
  | lock cs => exact lock_safe cfg ctx cs r h
  | unlock cs => exact unlock_safe cfg ctx cs r h
  | killSession cs => exact killSession_safe cfg ctx cs r h
  | commit cs => exact commit_safe cfg ctx cs r h
  | cancelCommit cs => exact cancelCommit_safe cfg ctx cs r h
  | discardChanges => exact discardChanges_safe cfg ctx r h
  | validate cs => exact validate_safe cfg ctx cs r h
  | closeSession => exact closeSession_safe cfg ctx r h
  | closeConfiguration =>
    refine junos_safe cfg ctx _ r h rfl ?_
    obtain ⟨_, o, ho, rfl⟩ := (build_ok_iff ..).1 h
    simp only [runBuilder, Except.ok.injEq] at ho; subst ho; exact ⟨_, rfl⟩
  | lockConfiguration =>
    refine junos_safe cfg ctx _ r h rfl ?_
    obtain ⟨_, o, ho, rfl⟩ := (build_ok_iff ..).1 h
    simp only [runBuilder, Except.ok.injEq] at ho; subst ho; exact ⟨_, rfl⟩
  | unlockConfiguration =>
    refine junos_safe cfg ctx _ r h rfl ?_
    obtain ⟨_, o, ho, rfl⟩ := (build_ok_iff ..).1 h
    simp only [runBuilder, Except.ok.injEq] at ho; subst ho; exact ⟨_, rfl⟩
  | openConfiguration cs =>
    refine junos_safe cfg ctx _ r h rfl ?_
    obtain ⟨_, o, ho, rfl⟩ := (build_ok_iff ..).1 h
    simp only [runBuilder] at ho
    obtain ⟨st, _, hf⟩ := run_ok ho
    simp only [OpenConfiguration.finish] at hf
    split at hf
    · cases hf; exact ⟨_, rfl⟩
    · cases hf
  | loadConfiguration cs =>
    refine junos_safe cfg ctx _ r h rfl ?_
    obtain ⟨_, o, ho, rfl⟩ := (build_ok_iff ..).1 h
    simp only [runBuilder] at ho
    obtain ⟨st, _, hf⟩ := run_ok ho
    simp only [LoadConfiguration.finish] at hf
    split at hf
    · next src _ => cases hf; cases src <;> exact ⟨_, rfl⟩
    · cases hf
  | commitConfiguration cs =>
    refine junos_safe cfg ctx _ r h rfl ?_
    obtain ⟨_, o, ho, rfl⟩ := (build_ok_iff ..).1 h
    simp only [runBuilder] at ho
    obtain ⟨st, _, hf⟩ := run_ok ho
    simp only [CommitConfiguration.finish, Except.ok.injEq] at hf
    subst hf; exact ⟨_, rfl⟩

/-- **C09, safety (code with the proposed repairs).**  For every capability set the server may
advertise (any list of capabilities, any URL scheme lists), every operation and every sequence
of builder calls: if a request reaches the transport, every requirement the RFC 6241 §8 table
attaches to that request is met by the advertised capabilities. -/
theorem sent_implies_permitted (ctx : Ctx) (b : Build) (r : Request)
    (h : build .fixed ctx b = .ok r) : ∀ q ∈ requires r, q.check ctx.caps = true :=
  sent_implies_permitted_of .fixed ctx b r h (by simp [Cfg.fixed]) (by simp [Cfg.fixed]) (by simp [Cfg.fixed])

/-- Full statement for the code **as it is**: `build .pinned ctx b = .ok r → ∀ q ∈ requires r, …`
is false (`get_xpath_unchecked_cex`, `edit_config_startup_cex`, `delete_config_candidate_cex`).
Proved part: it holds for every request outside the three deviating shapes. -/
theorem sent_implies_permitted_pinned_partial (ctx : Ctx) (b : Build) (r : Request)
    (h : build .pinned ctx b = .ok r) (hdev : deviates r = false) :
    ∀ q ∈ requires r, q.check ctx.caps = true := by
  refine sent_implies_permitted_of .pinned ctx b r h ?_ ?_ ?_
  · intro _ hr; subst hr; simp [deviates] at hdev
  · intro _ a b c d hr; subst hr; simp [deviates] at hdev
  · intro _ hr; subst hr; simp [deviates] at hdev

/-- **C09, converse (both configurations).**  If the operation itself is permitted
(`opRequires`), every builder call's argument is permitted by the RFC table (`callsRequire`),
the arguments are valid as such (`argsValid`: URL texts are URIs, the kill-session id is
non-zero and not the own session) and the mandatory parameters are supplied and compatible
(`complete`), then the build succeeds and a request is sent. -/
theorem permitted_implies_buildable (cfg : Cfg) (ctx : Ctx) (b : Build)
    (hop : ∀ q ∈ opRequires b, q.check ctx.caps = true)
    (hcalls : ∀ q ∈ callsRequire b, q.check ctx.caps = true)
    (hargs : argsValid ctx b = true)
    (hcomp : complete b = true) :
    ∃ r, build cfg ctx b = .ok r := by
  cases b with
  | get cs => exact get_buildable cfg ctx cs hcalls
  | getConfig cs => exact getConfig_buildable cfg ctx cs hcalls hcomp
  | editConfig cs => exact editConfig_buildable cfg ctx cs hcalls hargs hcomp
  | copyConfig cs => exact copyConfig_buildable cfg ctx cs hcalls hcomp
  | deleteConfig cs => exact deleteConfig_buildable cfg ctx cs hcalls hargs hcomp
  | lock cs => exact lock_buildable cfg ctx cs hcalls hcomp
  | unlock cs => exact unlock_buildable cfg ctx cs hcalls hcomp
  | killSession cs => exact killSession_buildable cfg ctx cs hargs hcomp
  | commit cs => exact commit_buildable cfg ctx cs hop hcalls hcomp
  | cancelCommit cs => exact cancelCommit_buildable cfg ctx cs hop
  | discardChanges =>
    have := hop (.cap .candidate) (by simp [opRequires])
    exact build_of_run (o := .discardChanges)
      (by simpa [requiredCapabilities, Requirements.check, contains, Requirement.check] using this) rfl
  | validate cs => exact validate_buildable cfg ctx cs hop hcalls hcomp
  | closeSession => exact build_of_run (o := .closeSession) (by simp [requiredCapabilities, Requirements.check]) rfl
  | closeConfiguration =>
    exact build_of_run (o := .closeConfiguration)
      (by simpa [requiredCapabilities] using junosReq_of (hop _ (by simp [opRequires]))) rfl
  | lockConfiguration =>
    exact build_of_run (o := .lockConfiguration)
      (by simpa [requiredCapabilities] using junosReq_of (hop _ (by simp [opRequires]))) rfl
  | unlockConfiguration =>
    exact build_of_run (o := .unlockConfiguration)
      (by simpa [requiredCapabilities] using junosReq_of (hop _ (by simp [opRequires]))) rfl
  | openConfiguration cs => exact openConfiguration_buildable cfg ctx cs hop hcomp
  | loadConfiguration cs => exact loadConfiguration_buildable cfg ctx cs hop hcomp
  | commitConfiguration cs => exact commitConfiguration_buildable cfg ctx cs hop

/-- **C09, converse, at the level of requests** — the second sentence of the property as it
stands: every request the builder API can express at all (`callsFor r = some b`: `b` is the
canonical way of asking for `r`) and whose content stays within the advertised capabilities
(every entry of the RFC table for `r` holds) is built and sent, exactly as `r`.
(`hk`: a kill-session request names another, valid session.) -/
theorem permitted_request_buildable (caps : List Capability) (sid : Nat) (r : Request) (b : Build)
    (hb : callsFor r = some b)
    (hk : ∀ n, r = .killSession n → n ≠ 0 ∧ n ≠ sid)
    (hp : ∀ q ∈ requires r, q.check caps = true) :
    build .fixed ⟨caps, sid⟩ b = .ok r :=
  request_buildable caps sid r b hb hk ((allOk_iff _ _).2 hp)

/-- **Nothing is sent on a local failure** (session.rs:296-318): a failing build leaves the
transport untouched (only the message-id counter advances). -/
theorem nothing_sent_on_error (cfg : Cfg) (s : Session) (b : Build) (e : ErrKind)
    (h : build cfg s.ctx b = .error e) :
    (s.rpc cfg b).1.wire = s.wire ∧ (s.rpc cfg b).2 = .error e := by
  simp [Session.rpc, h]

/-- and a successful one appends exactly the rendered request, under a fresh message-id -/
theorem sent_is_built (cfg : Cfg) (s : Session) (b : Build) (r : Request)
    (h : build cfg s.ctx b = .ok r) :
    (s.rpc cfg b).1.wire = s.wire ++ [(s.lastMessageId + 1, r)] ∧ (s.rpc cfg b).2 = .ok () := by
  simp [Session.rpc, h]

/-- Session-level form of safety: everything a session ever put on the wire is permitted. -/
theorem session_wire_permitted (s : Session) (bs : List Build)
    (hs : ∀ p ∈ s.wire, ∀ q ∈ requires p.2, q.check s.ctx.caps = true) :
    ∀ p ∈ (bs.foldl (fun s b => (s.rpc .fixed b).1) s).wire,
      ∀ q ∈ requires p.2, q.check s.ctx.caps = true := by
  induction bs generalizing s with
  | nil => simpa using hs
  | cons b bs ih =>
    simp only [List.foldl_cons]
    have hctx : (s.rpc .fixed b).1.ctx = s.ctx := by
      simp only [Session.rpc]; split <;> rfl
    have := ih (s.rpc .fixed b).1 (by
      rw [hctx]
      cases hb : build .fixed s.ctx b with
      | error e => rw [(nothing_sent_on_error .fixed s b e hb).1]; exact hs
      | ok r =>
        rw [(sent_is_built .fixed s b r hb).1]
        intro p hp
        rcases List.mem_append.1 hp with hp | hp
        · exact hs p hp
        · simp only [List.mem_singleton] at hp; subst hp
          exact sent_implies_permitted s.ctx b r hb)
    rw [hctx] at this
    exact this

/-! ### counter-examples for the code as it is (`Cfg.pinned`) -/

/-- **D6**: a server advertising only `:base:1.0`; `get` with an XPath filter is sent although
`:xpath` was not advertised (get.rs `Builder::filter` has no context and performs no check). -/
theorem get_xpath_unchecked_cex :
    build .pinned ⟨[.base10], 4⟩ (.get [.filter (some .xpath)]) = .ok (.get (some .xpath))
    ∧ (Requirement.cap .xpath) ∈ requires (.get (some .xpath))
    ∧ (Requirement.cap .xpath).check [.base10] = false := by decide

/-- the repaired builder refuses it locally -/
theorem get_xpath_checked_fixed :
    build .fixed ⟨[.base10], 4⟩ (.get [.filter (some .xpath)]) = .error .unsupportedFilterType := by decide

/-- **E1**: with `:startup` advertised, `edit-config` is sent with `<target><startup/>`, which RFC
6241 permits under no capability (8.7.5.1 does not list edit-config; YANG `edit-config/target` has
only `candidate` and `running`). -/
theorem edit_config_startup_cex :
    build .pinned ⟨[.base10, .startup], 4⟩ (.editConfig [.target .startup, .config])
      = .ok (.editConfig (.ds .startup) none none none .config)
    ∧ Requirement.never ∈ requires (.editConfig (.ds .startup) none none none .config) := by decide

theorem edit_config_startup_fixed :
    build .fixed ⟨[.base10, .startup], 4⟩ (.editConfig [.target .startup, .config])
      = .error .unsupportedTarget := by decide

/-- **E2**: with `:candidate` advertised, `delete-config` is sent with `<target><candidate/>`;
RFC 6241 permits only `<startup/>` (8.7.5.1) and URLs (8.8.5.3) as delete-config targets. -/
theorem delete_config_candidate_cex :
    build .pinned ⟨[.base10, .candidate], 4⟩ (.deleteConfig [.target .candidate])
      = .ok (.deleteConfig (.ds .candidate))
    ∧ Requirement.never ∈ requires (.deleteConfig (.ds .candidate)) := by decide

theorem delete_config_candidate_fixed :
    build .fixed ⟨[.base10, .candidate], 4⟩ (.deleteConfig [.target .candidate])
      = .error .unsupportedTarget := by decide

/-- **E3** (hello reader, not a builder): the span of
`<capability>…url:1.0?scheme=https&amp;foo=bar&amp;scheme=sftp</capability>` is parsed without
resolving `&amp;`, so the second `scheme` argument is lost and `sftp` URLs are refused although the
server advertised the scheme; with character references resolved both schemes are found. -/
theorem url_scheme_after_amp_lost_cex :
    urlSchemes "scheme=https&amp;foo=bar&amp;scheme=sftp".toList = ["https".toList]
    ∧ urlSchemes "scheme=https&foo=bar&scheme=sftp".toList = ["https".toList, "sftp".toList]
    ∧ build .pinned ⟨[.base10, .url (urlSchemes "scheme=https&amp;foo=bar&amp;scheme=sftp".toList)], 4⟩
        (.deleteConfig [.url (some "sftp".toList)]) = .error .unsupportedUrlScheme
    ∧ build .pinned ⟨[.base10, .url (urlSchemes "scheme=https&foo=bar&scheme=sftp".toList)], 4⟩
        (.deleteConfig [.url (some "sftp".toList)]) = .ok (.deleteConfig (.url "sftp".toList)) := by
  decide

/-! ### non-vacuity -/

/-- a request with every optional edit-config parameter is built when (and only when) the
capabilities are there -/
example :
    build .fixed ⟨[.base11, .candidate, .validate11, .rollbackOnError, .url ["file".toList, "https".toList]], 4⟩
      (.editConfig [.target .candidate, .url (some "https".toList), .defaultOperation .replace,
                    .errorOption .rollbackOnError, .testOption .testOnly])
      = .ok (.editConfig (.ds .candidate) (some .replace) (some .rollbackOnError) (some .testOnly)
              (.url "https".toList)) := by decide

example :
    build .fixed ⟨[.base11, .candidate, .validate10, .rollbackOnError, .url ["file".toList]], 4⟩
      (.editConfig [.target .candidate, .url (some "https".toList)]) = .error .unsupportedUrlScheme
    ∧ build .fixed ⟨[.base11, .candidate, .validate10], 4⟩
      (.editConfig [.target .candidate, .config, .testOption .testOnly]) = .error .unsupportedOperParameterValue
    ∧ build .fixed ⟨[.base11, .candidate, .validate10], 4⟩
      (.editConfig [.target .candidate, .config, .testOption .set])
        = .ok (.editConfig (.ds .candidate) none none (some .set) .config) := by decide

/-- confirmed-commit 1.0 allows `confirmed`/`confirm-timeout` but not `persist` -/
example :
    build .fixed ⟨[.base10, .candidate, .confirmedCommit10], 4⟩
      (.commit [.confirmed true, .confirmTimeout 120]) = .ok (.commit true (some 120) none none)
    ∧ build .fixed ⟨[.base10, .candidate, .confirmedCommit10], 4⟩
      (.commit [.confirmed true, .persist (some ['t'])]) = .error .unsupportedOperationParameter
    ∧ build .fixed ⟨[.base10, .confirmedCommit11], 4⟩ (.commit []) = .error .unsupportedOperation := by decide

/-- the hypotheses of `permitted_implies_buildable` are satisfiable, and its conclusion is not
trivially true: the same calls fail without the capability -/
example :
    (∀ q ∈ callsRequire (.getConfig [.source .candidate, .filter (some .xpath)]),
        q.check [.base10, .candidate, .xpath] = true)
    ∧ complete (.getConfig [.source .candidate, .filter (some .xpath)]) = true
    ∧ build .fixed ⟨[.base10, .xpath], 4⟩ (.getConfig [.source .candidate, .filter (some .xpath)])
        = .error .unsupportedSource := by decide

/-- `callsFor` is defined on the requests the API can express and undefined only where no builder
method exists (e.g. a URL as copy-config target) -/
example :
    callsFor (.editConfig (.ds .candidate) (some .replace) none (some .testOnly) (.url "file".toList))
      = some (.editConfig [.target .candidate, .url (some "file".toList), .defaultOperation .replace,
                           .testOption .testOnly])
    ∧ callsFor (.commit true (some 120) (some ['t']) none)
      = some (.commit [.confirmed true, .confirmTimeout 120, .persist (some ['t'])])
    ∧ callsFor (.copyConfig (.url "file".toList) (.ds .running)) = none := by decide

/-- capability parsing: the `:url:1.0` query is split into schemes; anything that is not an exact
match is `Unknown` -/
example :
    classify [] ⟨"urn".toList, none, urnCap "capability:url:1.0",
        some "scheme=http,ftp&x=1&scheme=file".toList, none⟩
      = .url ["http".toList, "ftp".toList, "file".toList]
    ∧ classify ['u'] ⟨"urn".toList, none, urnCap "capability:xpath:1.0", some [], none⟩ = .unknown ['u'] := by
  decide

end Builders

/-! ## Exactness of capability recognition (`impl FromStr for Capability`, capabilities.rs:123-183)

For **every** decomposition `p : UriParts` of the capability text (whatever iri-string returns):
a capability of the table is recognised **iff** the five components are exactly those of the
table (`UriParts.Is`: scheme, authority, path as given, **no** query, **no** fragment). So no URI
with a query or a fragment — not even an empty one (`some []`: `…base:1.0#`, `…base:1.0?`) —,
another scheme spelling or a longer/shorter path is ever taken for it. -/
namespace Caps

theorem classify_base10_iff (raw : Str) (p : UriParts) :
    classify raw p = .base10 ↔ p.Is "urn" none "ietf:params:netconf:base:1.0" := by caps_exact

theorem classify_base11_iff (raw : Str) (p : UriParts) :
    classify raw p = .base11 ↔ p.Is "urn" none "ietf:params:netconf:base:1.1" := by caps_exact

theorem classify_writableRunning_iff (raw : Str) (p : UriParts) :
    classify raw p = .writableRunning ↔ p.Is "urn" none "ietf:params:netconf:capability:writable-running:1.0" := by
  caps_exact

theorem classify_candidate_iff (raw : Str) (p : UriParts) :
    classify raw p = .candidate ↔ p.Is "urn" none "ietf:params:netconf:capability:candidate:1.0" := by caps_exact

theorem classify_confirmedCommit10_iff (raw : Str) (p : UriParts) :
    classify raw p = .confirmedCommit10 ↔ p.Is "urn" none "ietf:params:netconf:capability:confirmed-commit:1.0" := by
  caps_exact

theorem classify_confirmedCommit11_iff (raw : Str) (p : UriParts) :
    classify raw p = .confirmedCommit11 ↔ p.Is "urn" none "ietf:params:netconf:capability:confirmed-commit:1.1" := by
  caps_exact

theorem classify_rollbackOnError_iff (raw : Str) (p : UriParts) :
    classify raw p = .rollbackOnError ↔ p.Is "urn" none "ietf:params:netconf:capability:rollback-on-error:1.0" := by
  caps_exact

theorem classify_validate10_iff (raw : Str) (p : UriParts) :
    classify raw p = .validate10 ↔ p.Is "urn" none "ietf:params:netconf:capability:validate:1.0" := by caps_exact

theorem classify_validate11_iff (raw : Str) (p : UriParts) :
    classify raw p = .validate11 ↔ p.Is "urn" none "ietf:params:netconf:capability:validate:1.1" := by caps_exact

theorem classify_startup_iff (raw : Str) (p : UriParts) :
    classify raw p = .startup ↔ p.Is "urn" none "ietf:params:netconf:capability:startup:1.0" := by caps_exact

theorem classify_xpath_iff (raw : Str) (p : UriParts) :
    classify raw p = .xpath ↔ p.Is "urn" none "ietf:params:netconf:capability:xpath:1.0" := by caps_exact

theorem classify_junos_iff (raw : Str) (p : UriParts) :
    classify raw p = .junos ↔ p.Is "http" (some "xml.juniper.net") "/netconf/junos/1.0" := by caps_exact

/-- the `:url:1.0` capability: exact scheme, no authority, exact path, no fragment, **some** query;
its scheme list is `urlSchemes` of that query -/
theorem classify_url_iff (raw : Str) (p : UriParts) (l : List Str) :
    classify raw p = .url l ↔
      p.scheme = "urn".toList ∧ p.authority = none ∧ p.path = "ietf:params:netconf:capability:url:1.0".toList ∧
        p.fragment = none ∧ ∃ q, p.query = some q ∧ l = urlSchemes q := by
  constructor
  · intro h
    unfold classify at h
    dsimp only at h
    repeat' (replace h := ite_cases h; rcases h with ⟨hc, h⟩ | ⟨_, h⟩)
    all_goals first | (cases h; done) | skip
    simp only [Bool.and_eq_true, beq_iff_eq] at hc
    split at h
    · next q hq =>
      cases h
      exact ⟨hc.1.1.1, hc.1.1.2, hc.1.2.trans (by decide), hc.2, q, hq, rfl⟩
    · cases h
  · rintro ⟨h1, h2, h3, h4, q, h5, rfl⟩
    simp [classify, h1, h2, h3, h4, h5, urnCap]

/-- anything else is `Unknown` and keeps the capability text as it stands -/
theorem classify_unknown (raw t : Str) (p : UriParts) (h : classify raw p = .unknown t) : t = raw := by
  unfold classify at h
  dsimp only at h
  repeat' (replace h := ite_cases h; rcases h with ⟨hc, h⟩ | ⟨_, h⟩)
  all_goals first | (cases h; done) | skip
  · split at h
    · cases h
    · cases h; rfl
  · cases h; rfl

/-- the reader (`readCapability`, with or without resolving character references in the query)
recognises a non-`:url` capability exactly when `classify` does on the parts iri-string reports -/
theorem readCapability_eq_iff (b : Bool) (t : CapText) (k : Capability) (hk : ∀ l, k ≠ .url l) :
    readCapability b t = some k ↔ ∃ p, t.parts = some p ∧ classify t.text p = k := by
  unfold readCapability
  cases hp : t.parts with
  | none => simp
  | some p =>
    simp only [Option.some.injEq, exists_eq_left']
    split
    · next l hl =>
      constructor
      · intro h
        exfalso
        cases b <;> simp only [Bool.false_eq_true, if_false, if_true] at h
        · cases h; exact hk _ rfl
        · split at h
          · cases h; exact hk _ rfl
          · cases h; exact hk _ rfl
          · cases h
      · intro h; rw [hl] at h; exact absurd h.symm (hk l)
    · next c hc => simp

/-- **C09/C12, exactness at the reader**: `:base:1.0` is recognised iff the capability text is a
URI whose components are exactly `urn`, no authority, `ietf:params:netconf:base:1.0`, no query, no
fragment. -/
theorem readCapability_base10_iff (b : Bool) (t : CapText) :
    readCapability b t = some .base10 ↔ ∃ p, t.parts = some p ∧ p.Is "urn" none "ietf:params:netconf:base:1.0" := by
  rw [readCapability_eq_iff b t _ (fun _ h => by cases h)]
  simp only [classify_base10_iff]

theorem readCapability_base11_iff (b : Bool) (t : CapText) :
    readCapability b t = some .base11 ↔ ∃ p, t.parts = some p ∧ p.Is "urn" none "ietf:params:netconf:base:1.1" := by
  rw [readCapability_eq_iff b t _ (fun _ h => by cases h)]
  simp only [classify_base11_iff]

/-! ### the scheme list of `:url:1.0` -/

/-- **the schemes are exactly the comma-separated values of the parameters named `scheme`**: `x` is
a scheme of the query iff one of its `&`-separated parameters is `scheme=` followed by a value one
of whose `,`-separated pieces is `x`. (`splitOn c` is *the* decomposition into `c`-free pieces
separated by `c`: `split_is_the_decomposition`.) -/
theorem url_schemes_mem_iff (q x : Str) :
    x ∈ urlSchemes q ↔
      ∃ param ∈ splitOn '&' q, ∃ value, param = "scheme=".toList ++ value ∧ x ∈ splitOn ',' value :=
  mem_urlSchemes_iff q x

/-- `str::split(c)` yields the one and only list of `c`-free pieces that, joined by `c`, give the text -/
theorem split_is_the_decomposition (c : Char) (l : Str) (ps : List Str) :
    splitOn c l = ps ↔ ps ≠ [] ∧ (∀ p ∈ ps, c ∉ p) ∧ joinSep c ps = l :=
  splitOn_eq_iff c l ps

/-- the same, declaratively: for a query written as `&`-free parameters joined by `&` -/
theorem url_schemes_of_params_mem_iff (params : List Str) (hne : params ≠ []) (hfree : ∀ p ∈ params, '&' ∉ p)
    (x : Str) :
    x ∈ urlSchemes (joinSep '&' params) ↔
      ∃ value, ("scheme=".toList ++ value) ∈ params ∧ x ∈ splitOn ',' value :=
  mem_urlSchemes_joinSep_iff params hne hfree x

/-- a parameter whose name is not exactly `scheme` (`fallback-scheme=…`, `xscheme=…`, `scheme` without
`=`, `Scheme=…`) contributes nothing: if no parameter starts with `scheme=`, there are no schemes -/
theorem url_schemes_nil_without_scheme_param (q : Str)
    (h : ∀ param ∈ splitOn '&' q, ¬ "scheme=".toList <+: param) : urlSchemes q = [] :=
  urlSchemes_eq_nil q h

/-- … and other parameters never change what the `scheme` parameters contribute -/
theorem url_schemes_ignore_other_params (params other : List Str) (hne : params ≠ [])
    (hfree : ∀ p ∈ params ++ other, '&' ∉ p) (hother : ∀ p ∈ other, ¬ "scheme=".toList <+: p) (x : Str) :
    x ∈ urlSchemes (joinSep '&' (params ++ other)) ↔ x ∈ urlSchemes (joinSep '&' params) :=
  urlSchemes_append_other params other hne hfree hother x

/-! ### near misses (non-vacuity and documentation; all by evaluation) -/

/-- `urn:ietf:params:netconf:base:1.0#` — an empty fragment is a fragment -/
theorem base10_empty_fragment_is_unknown :
    classify "urn:ietf:params:netconf:base:1.0#".toList
      ⟨"urn".toList, none, "ietf:params:netconf:base:1.0".toList, none, some []⟩
      = .unknown "urn:ietf:params:netconf:base:1.0#".toList := by decide

/-- `urn:ietf:params:netconf:base:1.0?` — an empty query is a query -/
theorem base10_empty_query_is_unknown :
    classify "urn:ietf:params:netconf:base:1.0?".toList
      ⟨"urn".toList, none, "ietf:params:netconf:base:1.0".toList, some [], none⟩
      = .unknown "urn:ietf:params:netconf:base:1.0?".toList := by decide

/-- `urn:ietf:params:netconf:base:1.00`, `…base:1.`, `URN:…`, `urn://host/…`: longer / shorter path,
another scheme spelling, an authority -/
theorem base10_near_misses_are_unknown :
    classify [] ⟨"urn".toList, none, "ietf:params:netconf:base:1.00".toList, none, none⟩ = .unknown []
    ∧ classify [] ⟨"urn".toList, none, "ietf:params:netconf:base:1.".toList, none, none⟩ = .unknown []
    ∧ classify [] ⟨"URN".toList, none, "ietf:params:netconf:base:1.0".toList, none, none⟩ = .unknown []
    ∧ classify [] ⟨"urn".toList, some [], "ietf:params:netconf:base:1.0".toList, none, none⟩ = .unknown []
    ∧ classify [] ⟨"urn".toList, none, "ietf:params:netconf:base:1.0".toList, none, none⟩ = .base10 := by decide

/-- `?scheme=file&fallback-scheme=ftp`: only the parameter named `scheme` counts -/
theorem url_other_parameter_names_ignored :
    urlSchemes "scheme=file&fallback-scheme=ftp".toList = ["file".toList]
    ∧ urlSchemes "xscheme=http&fallback-scheme=ftp&scheme".toList = []
    ∧ urlSchemes "fallback-scheme=ftp&scheme=file,sftp&Scheme=http".toList = ["file".toList, "sftp".toList]
    ∧ classify [] ⟨"urn".toList, none, "ietf:params:netconf:capability:url:1.0".toList,
        some "scheme=file&fallback-scheme=ftp".toList, none⟩ = .url ["file".toList]
    ∧ urlSchemeAdvertised [.url (urlSchemes "scheme=file&fallback-scheme=ftp".toList)] "ftp".toList = false := by
  decide

end Caps
