import Bgpfu.Model.Session
/-!
# C05 — each RPC caller receives exactly the reply to its own request

`St` with `lockAcrossSend = false` is the session as it is in /repo now; `true` is the pinned
snapshot. Reachable states: `St.run {} acts` for arbitrary action lists `acts` (any interleaving of
sends, gate changes, polls of any future, deliveries of any message, drops, close).
-/
namespace Session

/-- message-ids are handed out by incrementing a counter, also when the builder fails -/
theorem send_consumes_id (s : St) (b : Bool) (h : s.rpc = none) : (s.send b).1.nextId = s.nextId + 1 := by
  unfold St.send
  simp only [h, Option.isSome_none, Bool.false_eq_true, if_false]
  split
  · rfl
  · split
    · rfl
    · split
      · simp [St.register]
      · split <;> rfl

/-- the schedule of C18's lost-reply window, on the pinned and on the current session -/
def d13Schedule : List Act :=
  [.send true, .send true, .poll 0, .gate false, .send true, .deliver ⟨some 2, 22, true⟩, .poll 0, .drop 0,
   .gate true, .deliver ⟨some 3, 33, true⟩]

example : ((St.rounds 4 (St.run { lockAcrossSend := false } d13Schedule)).futs.map (·.pc))
    = [.dropped, .done (.ok 22), .done (.ok 33)] := by decide

/-- **Defect D13 of the pinned snapshot**: the reply to request 2, already read by the dropped
future, is lost; requests 2 and 3 never complete. -/
theorem drop_in_reqlock_window_cex :
    ((St.rounds 4 (St.run { lockAcrossSend := true } d13Schedule)).futs.map (·.pc)) = [.dropped, .reading, .waitRx]
    ∧ (St.run { lockAcrossSend := true } d13Schedule).lost = [⟨some 2, 22, true⟩] := by decide

end Session
