import Bgpfu.Model.Session
import Bgpfu.Lemmas.SessionLive
/-!
# C05 — each RPC caller receives exactly the reply to its own request

`St` with `lockAcrossSend = false` is the session as it is in /repo now; `true` is the pinned
snapshot. Reachable states: `St.run {} acts` for arbitrary action lists `acts` (any interleaving of
sends, gate changes, polls of any future, deliveries of any message, drops, close).
-/
namespace Session

/-- message-ids are handed out by incrementing a counter, also when the builder fails -/
theorem send_consumes_id (s : St) (b : Bool) (h : s.rpc = none) : (s.send b).1.nextId = s.nextId + 1 := by
  unfold St.send
  simp only [h, Option.isSome_none, Bool.false_eq_true, if_false]
  split
  · rfl
  · split
    · rfl
    · split
      · simp [St.register]
      · split <;> rfl

/-- the schedule of C18's lost-reply window, on the pinned and on the current session -/
def d13Schedule : List Act :=
  [.send true, .send true, .poll 0, .gate false, .send true, .deliver ⟨some 2, 22, true⟩, .poll 0, .drop 0,
   .gate true, .deliver ⟨some 3, 33, true⟩]

example : ((St.rounds 4 (St.run { lockAcrossSend := false } d13Schedule)).futs.map (·.pc))
    = [.dropped, .done (.ok 22), .done (.ok 33)] := by decide

/-- **Defect D13 of the pinned snapshot**: the reply to request 2, already read by the dropped
future, is lost; requests 2 and 3 never complete. -/
theorem drop_in_reqlock_window_cex :
    ((St.rounds 4 (St.run { lockAcrossSend := true } d13Schedule)).futs.map (·.pc)) = [.dropped, .reading, .waitRx]
    ∧ (St.run { lockAcrossSend := true } d13Schedule).lost = [⟨some 2, 22, true⟩] := by decide

/-! ## Safety, in every reachable state of the current code

`Inv` (Lemmas/Session.lean) is an inductive invariant: it holds initially and is preserved by every
action, so it holds after any action list (`run_inv`). The theorems below are its consequences. -/

/-- **no message-id is ever reused**: the ids written to the transport are strictly increasing (and
bounded by the id counter), whatever sends failed in the builder, in the transport, or were blocked. -/
theorem ids_fresh (acts : List Act) :
    (St.run {} acts).sent.Pairwise (· < ·) ∧ ∀ x ∈ (St.run {} acts).sent, x ≤ (St.run {} acts).nextId :=
  ⟨(run_inv acts).1.sentInc, (run_inv acts).1.sentLe⟩

/-- **own reply only**: a future that resolved `ok t` carries message-id `i` such that the server
delivered a message with id `i`, payload `t`, whose phase 2 succeeds. -/
theorem own_reply_only (acts : List Act) (f : Fut) (t : Nat) (hf : f ∈ (St.run {} acts).futs)
    (hpc : f.pc = .done (.ok t)) :
    ∃ m ∈ (St.run {} acts).delivered, m.id = some f.id ∧ m.tag = t ∧ m.p2 = true :=
  (run_inv acts).1.resOk f.fid f t ((run_inv acts).find hf) hpc

/-- **no reply is delivered twice**: two distinct futures have distinct message-ids, so (with
`own_reply_only`) no delivered message can be the source of both results. -/
theorem no_double_delivery (acts : List Act) (f g : Fut) (hf : f ∈ (St.run {} acts).futs)
    (hg : g ∈ (St.run {} acts).futs) (hne : f ≠ g) :
    f.id ≠ g.id ∧ f.fid ≠ g.fid ∧ ∀ m : Msg, ¬ (m.id = some f.id ∧ m.id = some g.id) := by
  have hinv := run_inv acts
  have h1 : f.id ≠ g.id := fun he => hne (eq_of_map_nodup (·.id) hinv.idNodup hf hg he)
  refine ⟨h1, fun he => hne (eq_of_map_nodup (·.fid) hinv.1.fidNodup hf hg he), ?_⟩
  rintro m ⟨h2, h3⟩
  rw [h2] at h3
  exact h1 (Option.some.inj h3)

/-- **unknown ids are never delivered**: every `ok` stems from a message that passed phase 1 with the
id of the future that got it; if no future has id `i`, no result stems from a message with id `i`. -/
theorem unknown_id_never_delivered (acts : List Act) (f : Fut) (t : Nat) (hf : f ∈ (St.run {} acts).futs)
    (hpc : f.pc = .done (.ok t)) :
    ∃ m ∈ (St.run {} acts).delivered, m.tag = t ∧ m.id = some f.id ∧ m.id ≠ none ∧
      ∀ i, (∀ g ∈ (St.run {} acts).futs, g.id ≠ i) → m.id ≠ some i := by
  obtain ⟨m, hm, h1, h2, _⟩ := own_reply_only acts f t hf hpc
  refine ⟨m, hm, h2, h1, by simp [h1], ?_⟩
  intro i hi he
  rw [h1] at he
  exact hi f hf (Option.some.inj he)

/-- … and operationally: a future that takes a message off the transport which fails phase 1, or
whose id has no pending request, fails; the message goes to `lost`, no slot changes. -/
theorem unknown_id_goes_to_lost (acts : List Act) (f : Fid) (fu : Fut) (m : Msg) (rest : List Msg)
    (hf : (St.run {} acts).fut f = some fu) (hr : Reads (St.run {} acts) f fu)
    (hi : (St.run {} acts).inbox = m :: rest)
    (hb : m.id = none ∨ ∃ mid, m.id = some mid ∧ (St.run {} acts).slot mid ≠ some .pending) :
    let s' := (St.run {} acts).poll f
    s'.fut f = some { fu with pc := .done .err } ∧ s'.lost = (St.run {} acts).lost ++ [m] ∧
      s'.slots = (St.run {} acts).slots ∧ ∀ g, g ≠ f → s'.fut g = (St.run {} acts).fut g := by
  intro s'
  have e : s' = _ := poll_bad_msg (run_inv acts) hf hr hi hb
  rw [e]
  simp only [St.fut_eq, findFut_setPc] at hf ⊢
  refine ⟨by simp [hf], trivial, trivial, ?_⟩
  intro g hg
  simp [hg]

/-- **the receive lock is never leaked**: in every reachable state the lock is free only if nobody
waits for it; its owner is a live future (handed the lock, or reading from the transport), never a
finished or dropped one; exactly the futures queued or handed the lock are in `waitRx`. -/
theorem rx_lock_never_leaked (acts : List Act) :
    let s := St.run {} acts
    (s.rxOwner = none → s.rxQueue = []) ∧
    (∀ g, s.rxOwner = some g → ∃ fu ∈ s.live, fu.fid = g ∧ (fu.pc = .waitRx ∨ fu.pc = .reading)) ∧
    (∀ g ∈ s.rxQueue, s.rxOwner ≠ some g ∧ ∃ fu ∈ s.live, fu.fid = g ∧ fu.pc = .waitRx) ∧
    s.rxQueue.Nodup ∧
    (∀ fu ∈ s.futs, fu.pc = .waitRx → s.rxOwner = some fu.fid ∨ fu.fid ∈ s.rxQueue) ∧
    (∀ fu ∈ s.futs, fu.pc = .reading → s.rxOwner = some fu.fid) := by
  intro s
  have hinv : Inv s := run_inv acts
  refine ⟨hinv.2.freeOk, ?_, ?_, hinv.1.queueNodup, ?_, ?_⟩
  · intro g hg
    obtain ⟨fu, hf, hpc⟩ := hinv.2.ownOk g hg (by simp)
    refine ⟨fu, ?_, findFut_fid hf, hpc⟩
    rw [St.live_eq, List.mem_filter]
    exact ⟨findFut_mem hf, by rcases hpc with h | h <;> simp [Fut.isLive, h]⟩
  · intro g hg
    obtain ⟨_, h2, fu, hf, hpc⟩ := hinv.2.qOk g hg
    refine ⟨h2, fu, ?_, findFut_fid hf, hpc⟩
    rw [St.live_eq, List.mem_filter]
    exact ⟨findFut_mem hf, by simp [Fut.isLive, hpc]⟩
  · intro fu hm hpc
    exact hinv.2.waitOk fu.fid fu (hinv.find hm) (by simp) hpc
  · intro fu hm hpc
    exact (hinv.2.readOk fu.fid fu (hinv.find hm) (by simp) hpc).1

/-! ## Liveness under a fair scheduler (`St.rounds`: every live future is polled once per round) -/

/-- **all complete** (responsive server, fair scheduler): in every reachable state that is `Clean`
— transport open; every message on it passes both parse phases and answers a pending request, no
two the same one; the reply of every live future is parked in its slot (passing phase 2) or on the
transport — `inbox + live` fair rounds (or more) complete **every** live future with **its own**
reply (`St.reply`: the message parked for its id, else the message with its id on the transport);
no future is created, removed or re-labelled on the way. Drops, blocked sends and earlier failures
anywhere in `acts` are allowed. -/
theorem all_complete (acts : List Act) (hc : Clean (St.run {} acts)) (n : Nat)
    (hn : (St.run {} acts).inbox.length + (St.run {} acts).live.length ≤ n) :
    let s := St.run {} acts
    (St.rounds n s).live = [] ∧
    (St.rounds n s).futs.map (fun f => (f.fid, f.id)) = s.futs.map (fun f => (f.fid, f.id)) ∧
    ∀ f0 ∈ s.live, ∀ f ∈ (St.rounds n s).futs, f.fid = f0.fid →
      ∃ m, s.reply f0.id = some m ∧ m.id = some f0.id ∧ f.pc = .done (.ok m.tag) := by
  intro s
  have hinv : Inv s := run_inv acts
  obtain ⟨h1, h2⟩ := clean_rounds hinv hc n hn
  refine ⟨h1, rounds_keys n hinv, ?_⟩
  intro f0 hf0 f hf hfid
  obtain ⟨_, m, hr, hpc⟩ := h2 f0 hf0 f hf hfid
  refine ⟨m, hr, ?_, hpc⟩
  -- the reply found for `f0.id` does carry that id
  simp only [St.reply, St.slot_eq] at hr
  split at hr
  · rename_i m' hs
    cases hr
    exact (hinv.1.readyOk f0.id m hs).1
  · simpa using List.find?_some hr

/-- **C14, session clause**: a future that takes a message failing phase 1 off the transport
resolves with an error and hands the receive lock on; the message goes to `lost`; no slot, no other
future and nothing else on the transport is touched. -/
theorem others_still_delivered (acts : List Act) (f : Fid) (fu : Fut) (m : Msg) (rest : List Msg)
    (hf : (St.run {} acts).fut f = some fu) (hr : Reads (St.run {} acts) f fu)
    (hi : (St.run {} acts).inbox = m :: rest) (hm : m.id = none) :
    let s := St.run {} acts
    s.poll f = { s with inbox := rest, lost := s.lost ++ [m], futs := setPc f (.done .err) s.futs,
                        rxOwner := s.rxQueue.head?, rxQueue := s.rxQueue.tail } ∧
    (s.poll f).fut f = some { fu with pc := .done .err } ∧ (∀ g, g ≠ f → (s.poll f).fut g = s.fut g) ∧
    (s.poll f).rxOwner ≠ some f := by
  intro s
  have hs : s = St.run {} acts := rfl
  clear_value s; subst hs
  have hinv : Inv (St.run {} acts) := run_inv acts
  have e := poll_bad_msg hinv hf hr hi (.inl hm)
  refine ⟨e, ?_, ?_, ?_⟩
  · rw [e]; simp only [St.fut_eq, findFut_setPc] at hf ⊢; simp [hf]
  · intro g hg; rw [e]; simp only [St.fut_eq, findFut_setPc]; simp [hg]
  · have := (rx_lock_never_leaked (acts ++ [.poll f])).2.1 f
    intro he
    simp only [run_append] at this
    obtain ⟨fu', hfu', hfid, hpc⟩ := this he
    have h1 := (poll_inv f hinv).find (List.mem_filter.mp hfu').1
    rw [hfid, e] at h1
    simp only [findFut_setPc, if_true, St.fut_eq] at h1 hf
    rw [hf] at h1
    simp only [Option.map_some, Option.some.injEq] at h1
    rw [← h1] at hpc
    simp at hpc

/-- … and the others still obtain their replies: if the rest of the transport and the other live
futures satisfy the conditions of `all_complete`, the state after the failed read is `Clean`, so
`all_complete` (applied to `acts ++ [.poll f]`) completes every other live future with its own reply. -/
theorem others_complete_after_garbage (acts : List Act) (f : Fid) (fu : Fut) (m : Msg) (rest : List Msg)
    (hf : (St.run {} acts).fut f = some fu) (hr : Reads (St.run {} acts) f fu)
    (hi : (St.run {} acts).inbox = m :: rest) (hm : m.id = none)
    (hopen : (St.run {} acts).closed = false)
    (hrest : ∀ m' ∈ rest, m'.p2 = true ∧ m'.id.bind (St.run {} acts).slot = some .pending)
    (hnodup : (rest.map (·.id)).Nodup)
    (hothers : ∀ g ∈ (St.run {} acts).live, g.fid ≠ f →
      (({ (St.run {} acts) with inbox := rest } : St).reply g.id).map (·.p2) = some true)
    (n : Nat) (hn : rest.length + (St.run {} acts).live.length ≤ n + 1) :
    let s' := (St.run {} acts).poll f
    Clean s' ∧ (St.rounds n s').live = [] ∧
    ∀ g0 ∈ (St.run {} acts).live, g0.fid ≠ f → ∀ g ∈ (St.rounds n s').futs, g.fid = g0.fid →
      ∃ m', ({ (St.run {} acts) with inbox := rest } : St).reply g0.id = some m' ∧ g.pc = .done (.ok m'.tag) := by
  intro s'
  have hinv : Inv (St.run {} acts) := run_inv acts
  have hclean : Clean s' := clean_after_bad hinv hf hr hi (.inl hm) hopen hrest hnodup hothers
  have e : s' = _ := poll_bad_msg hinv hf hr hi (.inl hm)
  have hs' : s' = St.run {} (acts ++ [.poll f]) := by simp [St.run, St.step, s']
  -- the live futures of `s'` are those of `s` other than `f`
  have hlive : ∀ g, g ∈ s'.live ↔ g ∈ (St.run {} acts).live ∧ g.fid ≠ f := by
    intro g
    rw [mem_live_iff (poll_inv f hinv), mem_live_iff hinv]
    show findFut s'.futs g.fid = some g ∧ _ ↔ _
    rw [e]
    simp only [findFut_setPc_some]
    constructor
    · rintro ⟨⟨hgf, a, _, ha⟩ | ⟨hgf, hfg⟩, hl⟩
      · rw [ha] at hl; simp [Fut.isLive] at hl
      · exact ⟨⟨hfg, hl⟩, hgf⟩
    · rintro ⟨⟨h1, h2⟩, h3⟩; exact ⟨.inr ⟨h3, h1⟩, h2⟩
  have hlen : s'.inbox.length + s'.live.length ≤ n := by
    have h1 : s'.inbox = rest := by rw [e]
    have h2 : s'.live.length + 1 ≤ (St.run {} acts).live.length := by
      have hfl : fu.isLive = true := by
        rcases hr with h | ⟨h, _⟩ | ⟨h, _⟩ <;> simp [Fut.isLive, h]
      have := liveCount_done .err hf hfl
      show liveCount s'.futs + 1 ≤ liveCount (St.run {} acts).futs
      rw [e]; exact Nat.le_of_eq this
    rw [h1]; omega
  have hall := all_complete (acts ++ [.poll f]) (hs' ▸ hclean) n (hs' ▸ hlen)
  rw [← hs'] at hall
  refine ⟨hclean, hall.1, ?_⟩
  intro g0 hg0 hne g hg hfid
  obtain ⟨m', hm', _, hpc⟩ := hall.2.2 g0 ((hlive g0).mpr ⟨hg0, hne⟩) g hg hfid
  refine ⟨m', ?_, hpc⟩
  rw [e] at hm'; exact hm'

/-- **C07, session clause**: once the transport is closed and drained, a poll of the lock owner, or of
any live future when the lock is free, finishes that future — with its parked reply if there is
one (`parkedRes`), else with an error; `live` fair rounds leave no live future; every later
`rpc()` fails and registers nothing. -/
theorem close_fails_all (acts : List Act) (hc : (St.run {} acts).closed = true) (he : (St.run {} acts).inbox = []) :
    let s := St.run {} acts
    (∀ f fu, s.fut f = some fu → fu.isLive = true → (s.rxOwner = some f ∨ s.rxOwner = none) →
      (s.poll f).fut f = some { fu with pc := .done (parkedRes (s.slot fu.id)) }) ∧
    (∀ n, s.live.length ≤ n → (St.rounds n s).live = [] ∧
      ∀ f0 ∈ s.live, ∀ f ∈ (St.rounds n s).futs, f.fid = f0.fid →
        f.id = f0.id ∧ f.pc = .done (parkedRes (s.slot f0.id))) ∧
    (∀ b, s.send b = ({ s with nextId := s.nextId + 1 }, .sendErr)) := by
  intro s
  have hinv : Inv s := run_inv acts
  exact ⟨fun f fu hf hl ho => closed_poll_result hinv hc he hf hl ho,
    fun n hn => closed_rounds hinv hc he n hn, fun b => closed_send hinv hc b⟩

/-! ## The hypotheses are satisfiable (non-vacuity) -/

/-- three pipelined requests, replies delivered out of order, the first future is reading: `Clean` -/
example : Clean (St.run {} [.send true, .send true, .send true, .poll 0, .deliver ⟨some 3, 33, true⟩,
    .deliver ⟨some 1, 11, true⟩, .poll 1, .deliver ⟨some 2, 22, true⟩]) := by decide

example : ((St.rounds 6 (St.run {} [.send true, .send true, .send true, .poll 0, .deliver ⟨some 3, 33, true⟩,
    .deliver ⟨some 1, 11, true⟩, .poll 1, .deliver ⟨some 2, 22, true⟩])).futs.map (·.pc))
    = [.done (.ok 11), .done (.ok 22), .done (.ok 33)] := by decide

/-- a clean state after a drop and with a parked reply -/
example : Clean (St.run {} [.send true, .send true, .send true, .poll 0, .poll 1, .deliver ⟨some 2, 22, true⟩,
    .poll 0, .drop 0, .deliver ⟨some 3, 33, true⟩]) := by decide

/-- a reachable closed, drained state with live futures (one of them with its reply parked) -/
example : let s := St.run {} [.send true, .send true, .send true, .poll 0, .poll 1, .deliver ⟨some 2, 22, true⟩,
    .poll 0, .close]
    s.closed = true ∧ s.inbox = [] ∧ s.live.length = 3 ∧ s.slot 2 = some (.ready ⟨some 2, 22, true⟩) ∧
    (St.rounds 3 s).futs.map (·.pc) = [.done .err, .done (.ok 22), .done .err] := by decide

/-- a reachable state in which a future reads a message failing phase 1 while another one waits -/
example : let s := St.run {} [.send true, .send true, .poll 0, .poll 1, .deliver ⟨none, 0, false⟩,
    .deliver ⟨some 2, 22, true⟩]
    s.fut 0 = some ⟨0, 1, .reading⟩ ∧ Reads s 0 ⟨0, 1, .reading⟩ ∧ s.inbox.head? = some ⟨none, 0, false⟩ ∧
    ((St.rounds 2 (s.poll 0)).futs.map (·.pc)) = [.done .err, .done (.ok 22)] := by
  refine ⟨by decide, .inl rfl, by decide, by decide⟩

end Session

/-! ## message-ids are never reused — not even the ids of `rpc()` calls that failed

`Session::rpc` draws its id first (`self.last_message_id.increment()`, session.rs:288) and may then
fail in the builder, in the transport before anything was written, or in the transport after the
bytes left (the server has then seen a request with that id). The ghost list `consumed` records
the id of **every** executed `send` action, successful or not (`send_draws_next_id`); `nextId` is the
counter. `rollbackOnFail = false` (the default, `{}`) is the code as it is. -/
namespace Session

/-- **every executed `send` draws exactly the next id**, whatever becomes of the call (builder ok or
not, transport open, closed or blocked): the counter goes up by one and the drawn id is recorded. -/
theorem send_draws_next_id (acts : List Act) (b : Bool) (hr : (St.run {} acts).rpc = none) :
    let s := St.run {} acts
    (s.step (.send b)).nextId = s.nextId + 1 ∧ (s.step (.send b)).consumed = s.consumed ++ [s.nextId + 1] :=
  (step_nextId (run_ids acts).rb (.send b)).1 b rfl hr

/-- a `send` while another `rpc()` call is still blocked in the transport is not executed at all
(`rpc()` takes `&mut self`, assumption A2): nothing changes, no id is drawn -/
theorem send_while_blocked_is_noop (acts : List Act) (b : Bool) (k : Nat) (hr : (St.run {} acts).rpc = some k) :
    (St.run {} acts).step (.send b) = St.run {} acts :=
  (step_nextId (run_ids acts).rb (.send b)).2.1 b k rfl hr

/-- no other action touches the counter or the record: not a poll or a drop of any future, not a
delivery, not the gate, not the failure of the transport — in particular **not the failure of a
blocked `rpc()`** (`.gate true` / `.close` with a call in flight): its id stays consumed. -/
theorem other_actions_keep_ids (acts : List Act) (a : Act) (ha : ∀ b, a ≠ .send b) :
    let s := St.run {} acts
    (s.step a).nextId = s.nextId ∧ (s.step a).consumed = s.consumed :=
  (step_nextId (run_ids acts).rb a).2.2 ha

/-- **the id counter never decreases**, along any history and any continuation of it -/
theorem nextId_never_decreases (acts more : List Act) :
    (St.run {} acts).nextId ≤ (St.run {} (acts ++ more)).nextId := by
  rw [run_append]
  exact run_nextId_le (run_ids acts) more

/-- **no message-id is ever reused, failed calls included**: in every reachable state the ids drawn
by all `send` actions so far are exactly `1, 2, …, nextId` — each once, in increasing order; every id
on the wire, every reply future's id and the id of a blocked call are among them. -/
theorem ids_never_reused (acts : List Act) :
    let s := St.run {} acts
    s.consumed = List.range' 1 s.nextId ∧ s.consumed.Pairwise (· < ·) ∧ s.consumed.Nodup ∧
    (∀ x ∈ s.sent, x ∈ s.consumed) ∧ (∀ f ∈ s.futs, f.id ∈ s.consumed) ∧
    (∀ k, s.rpc = some k → k ∈ s.consumed) := by
  intro s
  have h : Ids s := run_ids acts
  refine ⟨h.cons, ?_, ?_, h.sentCons, ?_, h.rpcLe⟩
  · rw [h.cons]; exact List.pairwise_lt_range'
  · rw [h.cons]; exact List.nodup_range'
  · intro f hf
    apply h.sentCons
    rw [← (run_inv acts).1.idsSent]
    exact List.mem_map.2 ⟨f, hf, rfl⟩

/-- … stated on the history: two different executed `send` actions — whether either of them
succeeded or failed — never draw the same id; the later one draws a greater one. -/
theorem distinct_sends_draw_distinct_ids (before between : List Act) (b1 b2 : Bool)
    (h1 : (St.run {} before).rpc = none) (h2 : (St.run {} (before ++ .send b1 :: between)).rpc = none) :
    let s1 := St.run {} before
    let s2 := St.run {} (before ++ .send b1 :: between)
    -- the ids the two calls draw
    (s1.step (.send b1)).consumed = s1.consumed ++ [s1.nextId + 1] ∧
    (s2.step (.send b2)).consumed = s2.consumed ++ [s2.nextId + 1] ∧
    s1.nextId + 1 < s2.nextId + 1 := by
  intro s1 s2
  refine ⟨(send_draws_next_id before b1 h1).2, (send_draws_next_id _ b2 h2).2, ?_⟩
  have e : s2 = St.run {} ((before ++ [.send b1]) ++ between) := by simp [s2]
  have h3 := nextId_never_decreases (before ++ [.send b1]) between
  rw [← e] at h3
  have h4 : (St.run {} (before ++ [.send b1])).nextId = s1.nextId + 1 := by
    rw [run_append]; exact (send_draws_next_id before b1 h1).1
  omega

/-- **the variant that gives the id back** (`rollbackOnFail = true`: a failing `rpc()` sets the
counter back): history send-ok, send-failed, send-ok — the failed call (whose bytes may have reached
the server) and the next call both carry id 2. The same history on the code as it is: 1, 2, 3. Also
when the failing call was blocked in the transport and fails on `close`. -/
theorem rollback_reuses_id_cex :
    (St.run { rollbackOnFail := true } [.send true, .send false, .send true]).consumed = [1, 2, 2]
    ∧ (St.run { rollbackOnFail := true } [.send true, .send false, .send true]).sent = [1, 2]
    ∧ ¬ (St.run { rollbackOnFail := true } [.send true, .send false, .send true]).consumed.Nodup
    ∧ (St.run {} [.send true, .send false, .send true]).consumed = [1, 2, 3]
    ∧ (St.run {} [.send true, .send false, .send true]).sent = [1, 3]
    ∧ (St.run { rollbackOnFail := true } [.send true, .gate false, .send true, .close, .send true]).consumed = [1, 2, 2]
    ∧ (St.run {} [.send true, .gate false, .send true, .close, .send true]).consumed = [1, 2, 3] := by
  decide

/-- non-vacuity: a history with failed builders, a blocked and then failing send, drops and polls -/
example : let s := St.run {} [.send true, .send false, .poll 0, .gate false, .send true, .send true, .close,
      .send true, .drop 0, .send false]
    s.consumed = [1, 2, 3, 4, 5] ∧ s.sent = [1] ∧ s.nextId = 5 := by decide

end Session
