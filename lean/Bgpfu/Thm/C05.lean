import Bgpfu.Model.Session
import Bgpfu.Lemmas.SessionLive
/-!
# C05 — each RPC caller receives exactly the reply to its own request

`St` with `lockAcrossSend = false` is the session as it is in /repo now; `true` is the pinned
snapshot. Reachable states: `St.run {} acts` for arbitrary action lists `acts` (any interleaving of
sends, gate changes, polls of any future, deliveries of any message, drops, close).
-/
namespace Session

/-- message-ids are handed out by incrementing a counter, also when the builder fails -/
theorem send_consumes_id (s : St) (b : Bool) (h : s.rpc = none) : (s.send b).1.nextId = s.nextId + 1 := by
  unfold St.send
  simp only [h, Option.isSome_none, Bool.false_eq_true, if_false]
  split
  · rfl
  · split
    · rfl
    · split
      · simp [St.register]
      · split <;> rfl

/-- the schedule of C18's lost-reply window, on the pinned and on the current session -/
def d13Schedule : List Act :=
  [.send true, .send true, .poll 0, .gate false, .send true, .deliver ⟨some 2, 22, true⟩, .poll 0, .drop 0,
   .gate true, .deliver ⟨some 3, 33, true⟩]

example : ((St.rounds 4 (St.run { lockAcrossSend := false } d13Schedule)).futs.map (·.pc))
    = [.dropped, .done (.ok 22), .done (.ok 33)] := by decide

/-- **Defect D13 of the pinned snapshot**: the reply to request 2, already read by the dropped
future, is lost; requests 2 and 3 never complete. -/
theorem drop_in_reqlock_window_cex :
    ((St.rounds 4 (St.run { lockAcrossSend := true } d13Schedule)).futs.map (·.pc)) = [.dropped, .reading, .waitRx]
    ∧ (St.run { lockAcrossSend := true } d13Schedule).lost = [⟨some 2, 22, true⟩] := by decide

/-! ## Safety, in every reachable state of the current code

`Inv` (Lemmas/Session.lean) is an inductive invariant: it holds initially and is preserved by every
action, so it holds after any action list (`run_inv`). The theorems below are its consequences. -/

/-- **no message-id is ever reused**: the ids written to the transport are strictly increasing (and
bounded by the id counter), whatever sends failed in the builder, in the transport, or were blocked. -/
theorem ids_fresh (acts : List Act) :
    (St.run {} acts).sent.Pairwise (· < ·) ∧ ∀ x ∈ (St.run {} acts).sent, x ≤ (St.run {} acts).nextId :=
  ⟨(run_inv acts).1.sentInc, (run_inv acts).1.sentLe⟩

/-- **own reply only**: a future that resolved `ok t` carries message-id `i` such that the server
delivered a message with id `i`, payload `t`, whose phase 2 succeeds. -/
theorem own_reply_only (acts : List Act) (f : Fut) (t : Nat) (hf : f ∈ (St.run {} acts).futs)
    (hpc : f.pc = .done (.ok t)) :
    ∃ m ∈ (St.run {} acts).delivered, m.id = some f.id ∧ m.tag = t ∧ m.p2 = true :=
  (run_inv acts).1.resOk f.fid f t ((run_inv acts).find hf) hpc

/-- **no reply is delivered twice**: two distinct futures have distinct message-ids, so (with
`own_reply_only`) no delivered message can be the source of both results. -/
theorem no_double_delivery (acts : List Act) (f g : Fut) (hf : f ∈ (St.run {} acts).futs)
    (hg : g ∈ (St.run {} acts).futs) (hne : f ≠ g) :
    f.id ≠ g.id ∧ f.fid ≠ g.fid ∧ ∀ m : Msg, ¬ (m.id = some f.id ∧ m.id = some g.id) := by
  have hinv := run_inv acts
  have h1 : f.id ≠ g.id := fun he => hne (eq_of_map_nodup (·.id) hinv.idNodup hf hg he)
  refine ⟨h1, fun he => hne (eq_of_map_nodup (·.fid) hinv.1.fidNodup hf hg he), ?_⟩
  rintro m ⟨h2, h3⟩
  rw [h2] at h3
  exact h1 (Option.some.inj h3)

/-- **unknown ids are never delivered**: every `ok` stems from a message that passed phase 1 with the
id of the future that got it; if no future has id `i`, no result stems from a message with id `i`. -/
theorem unknown_id_never_delivered (acts : List Act) (f : Fut) (t : Nat) (hf : f ∈ (St.run {} acts).futs)
    (hpc : f.pc = .done (.ok t)) :
    ∃ m ∈ (St.run {} acts).delivered, m.tag = t ∧ m.id = some f.id ∧ m.id ≠ none ∧
      ∀ i, (∀ g ∈ (St.run {} acts).futs, g.id ≠ i) → m.id ≠ some i := by
  obtain ⟨m, hm, h1, h2, _⟩ := own_reply_only acts f t hf hpc
  refine ⟨m, hm, h2, h1, by simp [h1], ?_⟩
  intro i hi he
  rw [h1] at he
  exact hi f hf (Option.some.inj he)

/-- … and operationally: a future that takes a message off the transport which fails phase 1, or
whose id has no pending request, fails; the message goes to `lost`, no slot changes. -/
theorem unknown_id_goes_to_lost (acts : List Act) (f : Fid) (fu : Fut) (m : Msg) (rest : List Msg)
    (hf : (St.run {} acts).fut f = some fu) (hr : Reads (St.run {} acts) f fu)
    (hi : (St.run {} acts).inbox = m :: rest)
    (hb : m.id = none ∨ ∃ mid, m.id = some mid ∧ (St.run {} acts).slot mid ≠ some .pending) :
    let s' := (St.run {} acts).poll f
    s'.fut f = some { fu with pc := .done .err } ∧ s'.lost = (St.run {} acts).lost ++ [m] ∧
      s'.slots = (St.run {} acts).slots ∧ ∀ g, g ≠ f → s'.fut g = (St.run {} acts).fut g := by
  intro s'
  have e : s' = _ := poll_bad_msg (run_inv acts) hf hr hi hb
  rw [e]
  simp only [St.fut_eq, findFut_setPc] at hf ⊢
  refine ⟨by simp [hf], trivial, trivial, ?_⟩
  intro g hg
  simp [hg]

/-- **the receive lock is never leaked**: in every reachable state the lock is free only if nobody
waits for it; its owner is a live future (handed the lock, or reading from the transport), never a
finished or dropped one; exactly the futures queued or handed the lock are in `waitRx`. -/
theorem rx_lock_never_leaked (acts : List Act) :
    let s := St.run {} acts
    (s.rxOwner = none → s.rxQueue = []) ∧
    (∀ g, s.rxOwner = some g → ∃ fu ∈ s.live, fu.fid = g ∧ (fu.pc = .waitRx ∨ fu.pc = .reading)) ∧
    (∀ g ∈ s.rxQueue, s.rxOwner ≠ some g ∧ ∃ fu ∈ s.live, fu.fid = g ∧ fu.pc = .waitRx) ∧
    s.rxQueue.Nodup ∧
    (∀ fu ∈ s.futs, fu.pc = .waitRx → s.rxOwner = some fu.fid ∨ fu.fid ∈ s.rxQueue) ∧
    (∀ fu ∈ s.futs, fu.pc = .reading → s.rxOwner = some fu.fid) := by
  intro s
  have hinv : Inv s := run_inv acts
  refine ⟨hinv.2.freeOk, ?_, ?_, hinv.1.queueNodup, ?_, ?_⟩
  · intro g hg
    obtain ⟨fu, hf, hpc⟩ := hinv.2.ownOk g hg (by simp)
    refine ⟨fu, ?_, findFut_fid hf, hpc⟩
    rw [St.live_eq, List.mem_filter]
    exact ⟨findFut_mem hf, by rcases hpc with h | h <;> simp [Fut.isLive, h]⟩
  · intro g hg
    obtain ⟨_, h2, fu, hf, hpc⟩ := hinv.2.qOk g hg
    refine ⟨h2, fu, ?_, findFut_fid hf, hpc⟩
    rw [St.live_eq, List.mem_filter]
    exact ⟨findFut_mem hf, by simp [Fut.isLive, hpc]⟩
  · intro fu hm hpc
    exact hinv.2.waitOk fu.fid fu (hinv.find hm) (by simp) hpc
  · intro fu hm hpc
    exact (hinv.2.readOk fu.fid fu (hinv.find hm) (by simp) hpc).1

end Session
