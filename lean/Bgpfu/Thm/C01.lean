import Bgpfu.Lemmas.Policy
import Bgpfu.Lemmas.FetchInstalled
/-!
# C01 — an agent run converges the installed prefix filters to the evaluated target

Property theorems only (helper lemmas: `Bgpfu.Lemmas.Policy`).  The pipeline is
`run c cfg ev = readInstalled c cfg >>= fun inst => applyAll cfg ((compare ev inst).map (render c))`
over the reference Junos model (`Model/Junos.lean`).  `Cfg.fixed` is the repaired behaviour (a family
that is empty before and after is not written; names are unescaped); `Cfg.pinned` is the code as it
is pinned — for it the property is false, see the `_cex` theorems at the end.

Hypotheses that appear below and what they stand for:
* `AgentState cfg`  — decidable well-formedness (`agentState`): unique policy names; every policy ends
  in reject, has unique term names, and every term is named `inet`/`inet6`, has that family, an
  accept action and at least one valid route-filter. `reachable_agentState` shows that it holds of
  every state in the closure of the empty configuration under runs.
* `EvValid ev`      — the evaluated ranges satisfy the type invariant of `PrefixRange<Ipv4/Ipv6>`.
-/
namespace Policy

/-- **Read-back.** Every agent state is read back by the agent's own reader, successfully and
faithfully: same policy names, and per policy and family exactly the installed route-filters
(as a duplicate-free list). -/
theorem readback_total {cfg : JCfg} (h : AgentState cfg) :
    ∃ inst, readInstalled .fixed cfg = .ok inst ∧ keys inst = keys cfg ∧
      ∀ n, (alGet n cfg = none → alGet n inst = none) ∧
        ∀ p, alGet n cfg = some p → ∃ i, alGet n inst = some i ∧ i.v4.Nodup ∧ i.v6.Nodup ∧
          (∀ x, x ∈ i.v4 ↔ x ∈ filtersOf .v4 p) ∧ (∀ x, x ∈ i.v6 ↔ x ∈ filtersOf .v6 p) := by
  refine ⟨viewCfg cfg, readInstalled_agentState h, keys_viewCfg cfg, ?_⟩
  intro n
  rw [alGet_viewCfg]
  refine ⟨fun hn => by simp [hn], ?_⟩
  intro p hp
  refine ⟨viewP p, by simp [hp], nodup_dedup _, nodup_dedup _, fun x => mem_dedup x _, fun x => mem_dedup x _⟩

/-- what C01 demands of the configuration `cfg'` after a run from `cfg` with evaluation results `ev` -/
structure Converged (ev : List (Str × Evaluated)) (cfg cfg' : JCfg) : Prop where
  /-- the result is again a state the agent can read back -/
  state : AgentState cfg'
  /-- every evaluated policy is installed with exactly its evaluated IPv4 / IPv6 range sets … -/
  evaluated : ∀ n e a b, alGet n ev = some ⟨e, some (a, b)⟩ →
    ∃ p, alGet n cfg' = some p ∧ Installs p a b ∧ convergedTo p a b = true
  /-- … no policy is left that is not (any longer) a managed candidate … -/
  managedOnly : ∀ n, n ∈ keys cfg' → n ∈ keys ev
  /-- … and a candidate whose evaluation failed keeps what it had. -/
  failedKept : ∀ n e, alGet n ev = some ⟨e, none⟩ → alGet n cfg' = alGet n cfg

/-- **Convergence, for every order of the updates.** From an agent state, for every evaluated map
and *every permutation* `us` of the update list that `compare` emits for the read-back `inst` of
that state, loading the rendered updates succeeds and the result is `Converged`. -/
theorem run_converges {cfg : JCfg} (hs : AgentState cfg) (ev : List (Str × Evaluated)) (hv : EvValid ev)
    {inst : List (Str × Installed)} (hi : readInstalled .fixed cfg = .ok inst)
    (us : List Update) (hp : us.Perm (compare ev inst)) :
    ∃ cfg', applyAll cfg (us.map (render .fixed)) = .ok cfg' ∧ Converged ev cfg cfg' := by
  rw [readInstalled_agentState hs] at hi
  simp only [Except.ok.injEq] at hi
  subst hi
  have hnd : (us.map Update.name).Nodup :=
    (List.Perm.nodup_iff (hp.map Update.name)).2 (compare_names_nodup ev _)
  have hsub : ∀ u ∈ us, u ∈ compare ev (viewCfg cfg) := fun u hu => hp.mem_iff.1 hu
  obtain ⟨cfg', h1, h2, h3, h4, h5⟩ := applyUpdates .fixed hs ev us hnd hsub
  -- the policy an update leaves behind
  have hupd : ∀ n e a b, alGet n ev = some ⟨e, some (a, b)⟩ →
      ∃ p, alGet n cfg' = some p ∧ Installs p a b := by
    intro n e a b hn
    have hc := compareOne_evaluated (viewCfg cfg) hn
    have hmem : Update.update n e ⟨(alGet n (viewCfg cfg)).map (·.v4), a⟩ ⟨(alGet n (viewCfg cfg)).map (·.v6), b⟩
        ∈ us := hp.mem_iff.2 (mem_compare.2 ⟨Or.inl ((alGet_isSome_iff n ev).1 (by simp [hn])), hc⟩)
    obtain ⟨p', a1, a2, a3, a4, a5, a6⟩ := update_applies .fixed hs hc
    have := h2 _ hmem
    simp only [Update.name] at this
    rw [a1] at this
    simp only [Except.ok.injEq] at this
    refine ⟨p', this.symm, ?_⟩
    exact installs_of_newOk a2 a3 a4 a5 a6 (hv n e a b hn).1 (hv n e a b hn).2
  refine ⟨cfg', h1, ⟨⟨h4, ?_⟩, ?_, ?_, ?_⟩⟩
  · -- every policy of the result is well formed
    intro n p hg
    by_cases hin : n ∈ us.map Update.name
    · obtain ⟨u, hu, hname⟩ := List.mem_map.1 hin
      have hc := (mem_compare.1 (hsub u hu)).2
      cases u with
      | delete m =>
        simp only [Update.name] at hname hc
        subst hname
        have := h2 _ hu
        simp only [Update.name] at this
        rw [delete_applies .fixed hc] at this
        simp only [Except.ok.injEq] at this
        rw [← this] at hg; cases hg
      | update m e d4 d6 =>
        simp only [Update.name] at hname hc
        subst hname
        obtain ⟨_, hev, _⟩ := compareOne_update_inv hc
        obtain ⟨p', hp', hinst⟩ := hupd m e d4.new d6.new hev
        rw [hp'] at hg
        simp only [Option.some.injEq] at hg
        subst hg
        exact hinst.1
    · rw [h3 n hin] at hg
      exact hs.2 n p hg
  · intro n e a b hn
    obtain ⟨p, hp1, hp2⟩ := hupd n e a b hn
    exact ⟨p, hp1, hp2, convergedTo_of_installs hp2⟩
  · -- nothing unmanaged is left
    intro n hn
    cases hev : alGet n ev with
    | some _ => exact (alGet_isSome_iff n ev).1 (by simp [hev])
    | none =>
      exfalso
      rcases h5 n hn with hk | hk
      · -- installed and not a candidate: deleted
        rw [← keys_viewCfg] at hk
        cases hi : alGet n (viewCfg cfg) with
        | none => exact absurd hk ((alGet_eq_none_iff _ _).1 hi)
        | some i =>
          have hc := compareOne_unmanaged hev hi
          have hmem : Update.delete n ∈ us := hp.mem_iff.2 (mem_compare.2 ⟨Or.inr hk, hc⟩)
          have := h2 _ hmem
          simp only [Update.name] at this
          rw [delete_applies .fixed hc] at this
          simp only [Except.ok.injEq] at this
          exact absurd hn ((alGet_eq_none_iff _ _).1 this.symm)
      · obtain ⟨u, hu, hname⟩ := List.mem_map.1 hk
        have hm := mem_compare.1 (hsub u hu)
        rw [hname] at hm
        rcases hm.1 with h | h
        · exact absurd h ((alGet_eq_none_iff _ _).1 hev)
        · -- then it is installed, handled as above
          cases hi : alGet n (viewCfg cfg) with
          | none => exact absurd h ((alGet_eq_none_iff _ _).1 hi)
          | some i =>
            have hc := compareOne_unmanaged hev hi
            have hmem : Update.delete n ∈ us := hp.mem_iff.2 (mem_compare.2 ⟨Or.inr h, hc⟩)
            have := h2 _ hmem
            simp only [Update.name] at this
            rw [delete_applies .fixed hc] at this
            simp only [Except.ok.injEq] at this
            exact absurd hn ((alGet_eq_none_iff _ _).1 this.symm)
  · intro n e hn
    apply h3
    intro hin
    obtain ⟨u, hu, hname⟩ := List.mem_map.1 hin
    have hm := (mem_compare.1 (hsub u hu)).2
    rw [hname, compareOne_failed hn] at hm
    cases hm

theorem run_converges_emitted {cfg : JCfg} (hs : AgentState cfg) (ev : List (Str × Evaluated))
    (hv : EvValid ev) : ∃ cfg', run .fixed cfg ev = .ok cfg' ∧ Converged ev cfg cfg' := by
  rw [run_eq hs]
  exact run_converges hs ev hv (readInstalled_agentState hs) _ (List.Perm.refl _)

/-- **Semantics.** After a run, an evaluated policy accepts a route iff one of the evaluated ranges
of the route's address family matches it (first-match evaluation of the reference Junos model;
everything else is rejected by the trailing `then reject`). -/
theorem run_accepts_exactly {ev : List (Str × Evaluated)} {cfg cfg' : JCfg} (h : Converged ev cfg cfg')
    {n e : Str} {a b : List Range} (hn : alGet n ev = some ⟨e, some (a, b)⟩) :
    ∃ p, alGet n cfg' = some p ∧ ∀ r : Route,
      accepts p r = true ↔ ∃ g ∈ (if r.v6 then b else a), g.matchesRoute r = true := by
  obtain ⟨p, hp, hi, _⟩ := h.evaluated n e a b hn
  refine ⟨p, hp, fun r => ?_⟩
  rw [accepts_iff (restricted_wf hi.1) hi.1.1]
  cases hr : r.v6
  · simp only [famOf, Bool.false_eq_true, if_false]
    constructor
    · rintro ⟨g, hg, hm⟩; exact ⟨g, (hi.2.1 g).1 ((acceptSet_wf hi.1 .v4 g).1 hg), hm⟩
    · rintro ⟨g, hg, hm⟩; exact ⟨g, (acceptSet_wf hi.1 .v4 g).2 ((hi.2.1 g).2 hg), hm⟩
  · simp only [famOf, if_true]
    constructor
    · rintro ⟨g, hg, hm⟩; exact ⟨g, (hi.2.2 g).1 ((acceptSet_wf hi.1 .v6 g).1 hg), hm⟩
    · rintro ⟨g, hg, hm⟩; exact ⟨g, (acceptSet_wf hi.1 .v6 g).2 ((hi.2.2 g).2 hg), hm⟩

/-- semantic equality of two configurations: the same policies exist, and corresponding policies
accept the same routes and hold the same route-filter sets per family -/
def SemEq (c d : JCfg) : Prop :=
  ∀ n, (alGet n c = none ↔ alGet n d = none) ∧
    ∀ p q, alGet n c = some p → alGet n d = some q →
      (∀ r : Route, accepts p r = accepts q r) ∧ ∀ f x, x ∈ filtersOf f p ↔ x ∈ filtersOf f q

/-- **Idempotence.** A further run with unchanged inputs succeeds and leaves the configuration
semantically unchanged. -/
theorem run_idempotent {cfg c1 : JCfg} (hs : AgentState cfg) (ev : List (Str × Evaluated)) (hv : EvValid ev)
    (h1 : run .fixed cfg ev = .ok c1) : ∃ c2, run .fixed c1 ev = .ok c2 ∧ SemEq c1 c2 := by
  obtain ⟨c1', e1, k1⟩ := run_converges_emitted hs ev hv
  rw [h1] at e1
  simp only [Except.ok.injEq] at e1
  subst e1
  obtain ⟨c2, e2, k2⟩ := run_converges_emitted k1.state ev hv
  refine ⟨c2, e2, fun n => ?_⟩
  cases hev : alGet n ev with
  | none =>
    have hnk : n ∉ keys ev := (alGet_eq_none_iff _ _).1 hev
    have g1 : alGet n c1 = none := (alGet_eq_none_iff _ _).2 (fun h => hnk (k1.managedOnly n h))
    have g2 : alGet n c2 = none := (alGet_eq_none_iff _ _).2 (fun h => hnk (k2.managedOnly n h))
    simp [g1, g2]
  | some v =>
    obtain ⟨e, rg⟩ := v
    cases rg with
    | none =>
      have := k2.failedKept n e hev
      rw [this]
      refine ⟨Iff.rfl, ?_⟩
      intro p q hp hq
      rw [hp] at hq
      simp only [Option.some.injEq] at hq
      subst hq
      exact ⟨fun _ => rfl, fun _ _ => Iff.rfl⟩
    | some ab =>
      obtain ⟨a, b⟩ := ab
      obtain ⟨p1, hp1, i1, _⟩ := k1.evaluated n e a b hev
      obtain ⟨p2, hp2, i2, _⟩ := k2.evaluated n e a b hev
      refine ⟨by simp [hp1, hp2], ?_⟩
      intro p q hp hq
      rw [hp1] at hp; rw [hp2] at hq
      simp only [Option.some.injEq] at hp hq
      subst hp; subst hq
      have hfil : ∀ f x, x ∈ filtersOf f p1 ↔ x ∈ filtersOf f p2 := by
        intro f x
        cases f
        · exact (i1.2.1 x).trans (i2.2.1 x).symm
        · exact (i1.2.2 x).trans (i2.2.2 x).symm
      refine ⟨fun r => ?_, hfil⟩
      have := accepts_iff (restricted_wf i1.1) i1.1.1 r
      have h2 := accepts_iff (restricted_wf i2.1) i2.1.1 r
      have hex : (∃ g ∈ acceptSet (famOf r.v6) p1, g.matchesRoute r = true) ↔
          (∃ g ∈ acceptSet (famOf r.v6) p2, g.matchesRoute r = true) := by
        constructor
        · rintro ⟨g, hg, hm⟩
          exact ⟨g, (acceptSet_wf i2.1 _ g).2 ((hfil _ g).1 ((acceptSet_wf i1.1 _ g).1 hg)), hm⟩
        · rintro ⟨g, hg, hm⟩
          exact ⟨g, (acceptSet_wf i1.1 _ g).2 ((hfil _ g).2 ((acceptSet_wf i2.1 _ g).1 hg)), hm⟩
      rw [Bool.eq_iff_iff, this, h2]; exact hex

/-- **Histories.** Any sequence of consecutive runs with changing (valid) inputs succeeds, stays
inside the agent states, and the last run is converged for its inputs. -/
theorem runs_history (evs : List (List (Str × Evaluated))) {cfg : JCfg} (hs : AgentState cfg)
    (hv : ∀ ev ∈ evs, EvValid ev) :
    ∃ cfg', runs .fixed cfg evs = .ok cfg' ∧ AgentState cfg' ∧
      ∀ pre ev, evs = pre ++ [ev] →
        ∃ mid, runs .fixed cfg pre = .ok mid ∧ AgentState mid ∧ run .fixed mid ev = .ok cfg' ∧
          Converged ev mid cfg' := by
  induction evs generalizing cfg with
  | nil => exact ⟨cfg, rfl, hs, fun pre ev h => by simp at h⟩
  | cons ev rest ih =>
    obtain ⟨c1, e1, k1⟩ := run_converges_emitted hs ev (hv ev (by simp))
    obtain ⟨c2, e2, s2, h2⟩ := ih k1.state (fun x hx => hv x (by simp [hx]))
    refine ⟨c2, by simp [runs, e1, e2], s2, ?_⟩
    intro pre last hsplit
    cases pre with
    | nil =>
      simp only [List.nil_append, List.cons.injEq] at hsplit
      obtain ⟨rfl, rfl⟩ := hsplit
      simp only [runs] at e2
      simp only [Except.ok.injEq] at e2
      subst e2
      exact ⟨cfg, rfl, hs, e1, k1⟩
    | cons x pre' =>
      simp only [List.cons_append, List.cons.injEq] at hsplit
      obtain ⟨rfl, hrest⟩ := hsplit
      obtain ⟨mid, m1, m2, m3, m4⟩ := h2 pre' last hrest
      exact ⟨mid, by simp [runs, e1, m1], m2, m3, m4⟩

/-! ### Histories in which the router changes between runs

The ephemeral configuration is not the agent's alone: a reboot empties it (Junos does not keep an
ephemeral instance across a restart), an operator may delete a policy. The agent keeps nothing
from one run to the next — every run reads the installed state afresh — so whatever happens between
two runs, as long as it leaves an agent state, the next run converges for its own inputs. (A daemon
that carried the installed state over from its previous run would satisfy `runs_history` and fail
this.) -/

/-- runs with an external change `e` of the installed configuration before each of them -/
def runsExt : JCfg → List ((JCfg → JCfg) × List (Str × Evaluated)) → Except Err JCfg
  | cfg, [] => .ok cfg
  | cfg, (e, ev) :: rest =>
    match run .fixed (e cfg) ev with
    | .error x => .error x
    | .ok cfg' => runsExt cfg' rest

theorem runs_with_external_changes (steps : List ((JCfg → JCfg) × List (Str × Evaluated))) {cfg : JCfg}
    (hs : AgentState cfg)
    (he : ∀ s ∈ steps, ∀ c, AgentState c → AgentState (s.1 c))
    (hv : ∀ s ∈ steps, EvValid s.2) :
    ∃ cfg', runsExt cfg steps = .ok cfg' ∧ AgentState cfg' ∧
      ∀ pre e ev, steps = pre ++ [(e, ev)] →
        ∃ mid, runsExt cfg pre = .ok mid ∧ AgentState mid ∧ run .fixed (e mid) ev = .ok cfg' ∧
          Converged ev (e mid) cfg' := by
  induction steps generalizing cfg with
  | nil => exact ⟨cfg, rfl, hs, fun pre e ev h => by simp at h⟩
  | cons st rest ih =>
    obtain ⟨e, ev⟩ := st
    have hs1 : AgentState (e cfg) := he (e, ev) (by simp) cfg hs
    obtain ⟨c1, e1, k1⟩ := run_converges_emitted hs1 ev (hv (e, ev) (by simp))
    obtain ⟨c2, e2, s2, h2⟩ := ih k1.state (fun x hx => he x (by simp [hx])) (fun x hx => hv x (by simp [hx]))
    refine ⟨c2, by simp [runsExt, e1, e2], s2, ?_⟩
    intro pre e' last hsplit
    cases pre with
    | nil =>
      simp only [List.nil_append, List.cons.injEq, Prod.mk.injEq] at hsplit
      obtain ⟨⟨rfl, rfl⟩, rfl⟩ := hsplit
      simp only [runsExt, Except.ok.injEq] at e2
      subst e2
      exact ⟨cfg, rfl, hs, e1, k1⟩
    | cons x pre' =>
      simp only [List.cons_append, List.cons.injEq] at hsplit
      obtain ⟨rfl, hrest⟩ := hsplit
      obtain ⟨mid, m1, m2, m3, m4⟩ := h2 pre' e' last hrest
      exact ⟨mid, by simp [runsExt, e1, m1], m2, m3, m4⟩

/-- a reboot: the ephemeral instance is empty afterwards — an agent state -/
theorem agentState_reboot (c : JCfg) : AgentState ((fun _ : JCfg => ([] : JCfg)) c) :=
  ⟨by simp [keys], fun n p h => by simp [alGet] at h⟩

/-- so: any history of runs with a reboot before any of them ends converged for the last inputs -/
theorem runs_with_reboots (steps : List (Bool × List (Str × Evaluated))) {cfg : JCfg} (hs : AgentState cfg)
    (hv : ∀ s ∈ steps, EvValid s.2) :
    ∃ cfg', runsExt cfg (steps.map fun s => ((if s.1 then fun _ => [] else id), s.2)) = .ok cfg' ∧
      AgentState cfg' := by
  obtain ⟨c, h1, h2, _⟩ := runs_with_external_changes
    (steps.map fun s => ((if s.1 then fun _ => ([] : JCfg) else id), s.2)) hs
    (by
      intro s hsm c hc
      obtain ⟨t, _, rfl⟩ := List.mem_map.1 hsm
      cases t.1
      · simpa using hc
      · simpa using agentState_reboot c)
    (by
      intro s hsm
      obtain ⟨t, ht, rfl⟩ := List.mem_map.1 hsm
      exact hv t ht)
  exact ⟨c, h1, h2⟩

/-- the states the agent can produce: closure of the empty configuration under (successful) runs -/
inductive Reachable : JCfg → Prop where
  | empty : Reachable []
  | step {cfg cfg' : JCfg} {ev : List (Str × Evaluated)} :
      Reachable cfg → EvValid ev → run .fixed cfg ev = .ok cfg' → Reachable cfg'

/-- every producible state satisfies the decidable predicate (so all theorems above apply to it) -/
theorem reachable_agentState {cfg : JCfg} (h : Reachable cfg) : AgentState cfg := by
  induction h with
  | empty => exact ⟨by simp [keys], fun n p h => by simp [alGet] at h⟩
  | step _ hv hr ih =>
    obtain ⟨c', e, k⟩ := run_converges_emitted ih _ hv
    rw [hr] at e
    simp only [Except.ok.injEq] at e
    subst e
    exact k.state

/-! ### Non-vacuity -/

/-- "p1", "p2" -/
def exP1 : Str := [112, 49]
def exP2 : Str := [112, 50]
/-- 192.0.2.0/24^24-32, 10.0.0.0/8^16-24, 2001:db8::/32^48-64 -/
def exA : Range := ⟨false, 3221225984, 24, 24, 32⟩
def exB : Range := ⟨false, 167772160, 8, 16, 24⟩
def exC : Range := ⟨true, 42540766411282592856903984951653826560, 32, 48, 64⟩

/-- two policies, `p1` IPv4-only (one family empty), `p2` dual-stack -/
def exEv : List (Str × Evaluated) :=
  [(exP1, ⟨[65], some ([exA, exB], [])⟩), (exP2, ⟨[66], some ([exB], [exC])⟩)]

/-- the hypotheses are satisfiable and the conclusion is as expected on a concrete instance:
from the empty configuration the run installs both policies, `p1` without an `inet6` term; the
result is an agent state; it reads back as installed; a second run is a no-op; then `p1` loses its
management mark and `p2` flips to IPv6-only: `p1` is deleted, `p2`'s `inet` term is deleted. -/
example :
    (match run .fixed [] exEv with
     | .ok c1 =>
       agentState c1 && (keys c1 == [exP1, exP2])
       && (match alGet exP1 c1 with
           | some p => convergedTo p [exA, exB] [] && (keys p.terms == [inet])
           | none => false)
       && (match run .fixed c1 exEv with
           | .ok c2 => semEqCfg c1 c2
           | .error _ => false)
       && (match run .fixed c1 [(exP2, ⟨[66], some ([], [exC])⟩)] with
           | .ok c3 => agentState c3 && (keys c3 == [exP2])
               && (match alGet exP2 c3 with
                   | some p => keys p.terms == [inet6]
                   | none => false)
           | .error _ => false)
     | .error _ => false) = true := by decide

/-- a reboot between two runs: the second run restores everything (and equals a first run on an
empty router); without the reboot it finds nothing to do and leaves the same state -/
example :
    (runsExt [] [(id, exEv), ((fun _ => []), exEv)]).toOption = (run .fixed [] exEv).toOption ∧
    (runsExt [] [(id, exEv), (id, exEv)]).toOption = (run .fixed [] exEv).toOption ∧
    (run .fixed [] exEv).toOption.isSome = true := by decide

example : EvValid exEv := by
  intro n e a b h
  simp only [exEv, alGet] at h
  split at h
  · simp only [Option.some.injEq, Evaluated.mk.injEq, Prod.mk.injEq] at h
    obtain ⟨_, rfl, rfl⟩ := h
    exact ⟨by decide, by decide⟩
  · split at h
    · simp only [Option.some.injEq, Evaluated.mk.injEq, Prod.mk.injEq] at h
      obtain ⟨_, rfl, rfl⟩ := h
      exact ⟨by decide, by decide⟩
    · cases h

/-! ### The pinned code (defects D9, D15-names) -/

/-- **D9.** With the pinned `write_xml` (a family that is empty before and after is written as an
empty `<term>`), the state installed for an IPv4-only policy from the empty configuration cannot be
read back by the agent's own reader (`<then>` missing): the next run fails. -/
theorem readback_pinned_cex :
    ∃ c1, run { Cfg.fixed with skipEmptyFamily := false } [] [(exP1, ⟨[65], some ([exA], [])⟩)] = .ok c1 ∧
      readInstalled .fixed c1 = .error .noThen ∧ agentState c1 = false := by
  refine ⟨[(exP1, ⟨some (commentPrefix ++ [65]),
      [(inet, ⟨some inet, [exA], true⟩), (inet6, ⟨none, [], false⟩)], true⟩)], by rfl, by rfl, by decide⟩

/-- **D9, second form.** Also from a readable state: once a family has been emptied (term deleted),
every further run of the pinned code re-creates it as an empty term, so the run is not idempotent
and the run after that fails. -/
theorem rerun_pinned_cex :
    (match run { Cfg.fixed with skipEmptyFamily := false }
        [(exP1, ⟨none, [(inet, ⟨some inet, [exA], true⟩)], true⟩)] [(exP1, ⟨[65], some ([exA], [])⟩)] with
     | .ok c1 => !agentState c1 && !semEqCfg c1 [(exP1, ⟨none, [(inet, ⟨some inet, [exA], true⟩)], true⟩)]
     | .error _ => false) = true := by decide

/-- "a&b" -/
def exAmp : Str := [97, 38, 98]

/-- **D15 (names).** With raw (still escaped) names the policy is installed under the escaped name,
the next run does not recognise it, adds the new ranges to the stale ones (no route-filter is ever
deleted) and sends a delete for a name that does not exist. -/
theorem raw_names_cex :
    (match run { Cfg.fixed with unescapeNames := false } []
        [(xmlEsc exAmp, ⟨[65], some ([exA], [])⟩)] with
     | .ok c1 =>
       (alGet exAmp c1).isNone &&
       (match plan { Cfg.fixed with unescapeNames := false } c1 [(xmlEsc exAmp, ⟨[65], some ([exB], [])⟩)] with
        | .ok ps => (ps.map (·.del)) == [false, true] &&
            (match applyAll c1 (ps.take 1) with
             | .ok c2 => (match alGet (xmlEsc exAmp) c2 with
                 | some p => seteq (filtersOf .v4 p) [exA, exB]
                 | none => false)
             | .error _ => false) &&
            (match applyAll c1 ps with
             | .ok _ => false
             | .error e => e == .stmtNotFound)
        | .error _ => false)
     | .error _ => false) = true := by decide

end Policy

/-!
# C01, read-back at event level — the real reader in place of the abstract one

`readInstalled` above works on the reference configuration structure. The code is an event-level pull
parser (`Maybe<Installed>::read_xml`, `Term`, `TermFrom`, `RouteFilter`, `try_into_ranges` under the
generic `Policies<T>` loops); `Xml.readInstalledDoc` (`Model/FetchInstalled.lean`) models it loop by
loop, arm by arm on the tokenizer's event list, and `Xml.renderGetConfig` (`Spec/InstalledGrammar.lean`,
DESIGN.md Appendix B) is the `<get-config>` reply document for a configuration, as that event list.
The theorems below say that on every such document the event-level reader *is* the abstract reader,
so `readback_total` and `run_converges` hold with the event-level reader in their place.

A configuration is given at text level (`Xml.TCfg`; names and families are `String`s) and denotes the
reference configuration `c.toJ enc` under a text encoding `enc` (UTF-8). Hypotheses, both relative to
the configuration and decidable for concrete oracles (see the examples):
* `o.Consistent c` — the library oracles (`quick_xml::escape::unescape`, generic-ip
  `Prefix<A>::from_str`, `PrefixLength<A>::from_str`) behave on the texts of `c` as the abstract model
  assumes of them (`Policy.readRange`); `unescape_satisfiable` shows the one clause that quantifies
  over all texts is satisfiable;
* `EncOK enc c` — `enc` is injective on the strings the reader compares, maps the two family names to
  `inet` / `inet6`, and commutes with trimming on the family values of `c`.
-/
namespace Policy
open Xml (IOracle TCfg TTerm TPolicy EncOK renderGetConfig readInstalledDoc encNames)

/-- **The event-level reader on the rendered reply is the abstract reader**, for every
configuration: same policies in the same order with the same range sets, or both fail — including
every error case of the abstract reader (term without accept, term without from/family, term name ≠
family, unknown family, duplicate family term, malformed range, duplicate policy) and the skipping
of a policy without default reject. (Results are compared as `Option`: the abstract reader's error
*classes* are a modelling device; `readInstalledEv_refines` gives the real reader's classes.) -/
theorem readInstalledEv_render (o : IOracle) (enc : String → Str) (c : TCfg) (hC : o.Consistent c) (hE : EncOK enc c) :
    (readInstalledDoc o (renderGetConfig c)).toOption.map (encNames enc)
      = (readInstalled .fixed (c.toJ enc)).toOption :=
  Xml.readInstalledDoc_abs o enc c hC hE

/-- **Refinement with the real reader's error classes**: on every rendered reply the event-level
loops compute the child-level semantics `posAbs` (`Lemmas/FetchInstalled.lean`: `termAbs`,
`termsAbs`, `policyAbs`), which names the `ReadError` variant of each failure. -/
theorem readInstalledEv_refines (o : IOracle) (c : TCfg) (hU : ∀ s, o.unescape (Xml.escS s) = some s) :
    readInstalledDoc o (renderGetConfig c) = Xml.posAbs o [] c :=
  Xml.readInstalledDoc_refines o hU c

/-- **Totality** (every event list, reply document or not, every oracle): the reader model never
runs out of fuel — `evs.length + 1` loop iterations always suffice. -/
theorem readInstalledEv_total (o : IOracle) (evs : List Xml.Ev) : readInstalledDoc o evs ≠ .error .fuel := by
  unfold readInstalledDoc
  apply Xml.readData_total
  intro t rest
  exact Xml.policiesLoop_total _ (Xml.readInstalledStmt_good o) _ _ _ _ (Nat.lt_succ_self _)

/-- the hypothesis on `unescape` (the only one that quantifies over all texts) is satisfiable -/
theorem unescape_satisfiable : ∃ u : String → Option String, ∀ s, u (Xml.escS s) = some s :=
  ⟨fun s => some (Xml.unescS s), fun s => congrArg some (Xml.unescS_escS s)⟩

/-- **Read-back, event level.** The reply document of every agent state is read by the event-level
reader, successfully and faithfully (`readback_total` with the real reader in place of the abstract
one). -/
theorem readback_total_ev (o : IOracle) (enc : String → Str) (c : TCfg) (hC : o.Consistent c) (hE : EncOK enc c)
    (h : AgentState (c.toJ enc)) :
    ∃ inst, readInstalledDoc o (renderGetConfig c) = .ok inst ∧ keys (encNames enc inst) = keys (c.toJ enc) ∧
      ∀ n, (alGet n (c.toJ enc) = none → alGet n (encNames enc inst) = none) ∧
        ∀ p, alGet n (c.toJ enc) = some p → ∃ i, alGet n (encNames enc inst) = some i ∧ i.v4.Nodup ∧ i.v6.Nodup ∧
          (∀ x, x ∈ i.v4 ↔ x ∈ filtersOf .v4 p) ∧ (∀ x, x ∈ i.v6 ↔ x ∈ filtersOf .v6 p) := by
  obtain ⟨inst', h1, h2, h3⟩ := readback_total h
  have hr := readInstalledEv_render o enc c hC hE
  rw [h1] at hr
  cases hd : readInstalledDoc o (renderGetConfig c) with
  | error e => rw [hd] at hr; cases hr
  | ok inst =>
    rw [hd] at hr
    simp only [Except.toOption, Option.map_some, Option.some.injEq] at hr
    subst hr
    exact ⟨inst, rfl, h2, h3⟩

/-- **Convergence, event level.** `run_converges` with the installed policies obtained by the
event-level reader from the reply document of the state. -/
theorem run_converges_ev (o : IOracle) (enc : String → Str) (c : TCfg) (hC : o.Consistent c) (hE : EncOK enc c)
    (hs : AgentState (c.toJ enc)) (ev : List (Str × Evaluated)) (hv : EvValid ev)
    {inst : List (String × Installed)} (hi : readInstalledDoc o (renderGetConfig c) = .ok inst)
    (us : List Update) (hp : us.Perm (compare ev (encNames enc inst))) :
    ∃ cfg', applyAll (c.toJ enc) (us.map (render .fixed)) = .ok cfg' ∧ Converged ev (c.toJ enc) cfg' := by
  have hr := readInstalledEv_render o enc c hC hE
  rw [hi] at hr
  have hi' : readInstalled .fixed (c.toJ enc) = .ok (encNames enc inst) := by
    cases ha : readInstalled .fixed (c.toJ enc) with
    | error e => rw [ha] at hr; cases hr
    | ok l =>
      rw [ha] at hr
      simp only [Except.toOption, Option.map_some, Option.some.injEq] at hr
      rw [hr]
  exact run_converges hs ev hv hi' us hp

/-! ### Non-vacuity (event level) -/

instance exceptDecEq {ε α} [DecidableEq ε] [DecidableEq α] : DecidableEq (Except ε α)
  | .ok a, .ok b => if h : a = b then isTrue (by rw [h]) else isFalse (fun h' => h (by cases h'; rfl))
  | .error a, .error b => if h : a = b then isTrue (by rw [h]) else isFalse (fun h' => h (by cases h'; rfl))
  | .ok _, .error _ => isFalse (fun h => by cases h)
  | .error _, .ok _ => isFalse (fun h => by cases h)

set_option maxRecDepth 100000

/-- library oracles of the examples: a finite table of what quick-xml / generic-ip answer -/
def exOracle : IOracle where
  unescape s := if s == "a&amp;b" then some "a&b" else some s
  parsePrefix f s :=
    match f with
    | .v4 => if s == "192.0.2.0/24" then some (3221225984, 24) else if s == "10.0.0.0/8" then some (167772160, 8) else none
    | .v6 => if s == "2001:db8::/32" then some (42540766411282592856903984951653826560, 32) else none
  parseLen f s :=
    let n := if s == "/8" then some 8 else if s == "/16" then some 16 else if s == "/24" then some 24
      else if s == "/32" then some 32 else if s == "/48" then some 48 else if s == "/64" then some 64 else none
    match n with
    | some k => if k ≤ f.bits then some k else none
    | none => none

/-- text as code points (equal to UTF-8 on the ASCII texts of the examples) -/
def exEnc (s : String) : Str := s.toList.map Char.toNat

def exTerm4 : TTerm := { name := "inet", family := some "inet", filters := [exA, exB], accept := true }
def exTerm6 : TTerm := { name := "inet6", family := some "inet6", filters := [exC], accept := true }

/-- a dual-stack policy with an XML metacharacter in its name, and a policy without default reject -/
def exT : TCfg :=
  [{ name := "a&b", terms := [exTerm4, exTerm6], reject := true },
   { name := "unmanaged", terms := [exTerm4], reject := false }]

/-- the hypotheses of the theorems hold of the example (checked by evaluation; the `unescape` clause
for all texts is `unescape_satisfiable`) -/
example : (∀ r ∈ exT.ranges, Xml.RangeOK exOracle r) ∧ EncOK exEnc exT := by decide

/-- the event-level reader on the rendered document: the managed policy with its ranges
(`10.0.0.0/8` with `prefix-length-range` /16 to /24 read as `^16-24`), the other one skipped -/
example : readInstalledDoc exOracle (renderGetConfig exT) = .ok [("a&b", ⟨[exA, exB], [exC]⟩)] := by decide

/-- … which is what the abstract reader says of the denoted reference configuration -/
example : readInstalled .fixed (exT.toJ exEnc) = .ok [(exEnc "a&b", ⟨[exA, exB], [exC]⟩)] := by decide

def exOne (t : TTerm) : TCfg := [{ name := "p1", terms := [t], reject := true }]

/-- the error cases, event level and abstract side by side -/
example :
    -- term without `<then><accept/></then>`
    readInstalledDoc exOracle (renderGetConfig (exOne { exTerm4 with accept := false })) = .error .missing
    ∧ readInstalled .fixed ((exOne { exTerm4 with accept := false }).toJ exEnc) = .error .noThen
    -- term without `<from>`
    ∧ readInstalledDoc exOracle (renderGetConfig (exOne { exTerm4 with family := none, filters := [] })) = .error .missing
    ∧ readInstalled .fixed ((exOne { exTerm4 with family := none, filters := [] }).toJ exEnc) = .error .noFrom
    -- term name ≠ family
    ∧ readInstalledDoc exOracle (renderGetConfig (exOne { exTerm4 with name := "v4" })) = .error .other
    ∧ readInstalled .fixed ((exOne { exTerm4 with name := "v4" }).toJ exEnc) = .error .nameMismatch
    -- unknown family
    ∧ readInstalledDoc exOracle (renderGetConfig (exOne { exTerm4 with name := "iso", family := some "iso" })) = .error .other
    ∧ readInstalled .fixed ((exOne { exTerm4 with name := "iso", family := some "iso" }).toJ exEnc) = .error .unknownFamily
    -- duplicate family term
    ∧ readInstalledDoc exOracle (renderGetConfig [{ name := "p1", terms := [exTerm4, exTerm4], reject := true }]) = .error .other
    ∧ readInstalled .fixed (TCfg.toJ exEnc [{ name := "p1", terms := [exTerm4, exTerm4], reject := true }]) = .error .dupFamily
    -- IPv6 prefix in an `inet` term
    ∧ readInstalledDoc exOracle (renderGetConfig (exOne { exTerm4 with filters := [exC] })) = .error .other
    ∧ readInstalled .fixed ((exOne { exTerm4 with filters := [exC] }).toJ exEnc) = .error .badRange
    -- duplicate policy
    ∧ readInstalledDoc exOracle (renderGetConfig (exOne exTerm4 ++ exOne exTerm4)) = .error .other
    ∧ readInstalled .fixed ((exOne exTerm4 ++ exOne exTerm4).toJ exEnc) = .error .dupPolicy
    -- padded family text is trimmed by both; the term name is not
    ∧ readInstalledDoc exOracle (renderGetConfig (exOne { exTerm4 with family := some " inet\n" })) = .ok [("p1", ⟨[exA, exB], []⟩)]
    ∧ readInstalled .fixed ((exOne { exTerm4 with family := some " inet\n" }).toJ exEnc) = .ok [(exEnc "p1", ⟨[exA, exB], []⟩)]
    ∧ readInstalledDoc exOracle (renderGetConfig (exOne { exTerm4 with name := " inet" })) = .error .other
    ∧ readInstalled .fixed ((exOne { exTerm4 with name := " inet" }).toJ exEnc) = .error .nameMismatch
    -- no configuration at all
    ∧ readInstalledDoc exOracle (renderGetConfig []) = .ok [] := by
  refine ⟨?_, ?_, ?_, ?_, ?_, ?_, ?_, ?_, ?_, ?_, ?_, ?_, ?_, ?_, ?_, ?_, ?_, ?_, ?_⟩ <;> decide

/-- the state installed by the example run of C01 is an agent state whose reply document is read
back by the event-level reader as installed -/
example :
    let c : TCfg := [{ name := "p1", comment := some (commentPrefix ++ [65]), terms := [exTerm4], reject := true },
                     { name := "p2", comment := some (commentPrefix ++ [66]),
                       terms := [{ exTerm4 with filters := [exB] }, exTerm6], reject := true }]
    run .fixed [] exEv = .ok (c.toJ exEnc) ∧ agentState (c.toJ exEnc) = true ∧ EncOK exEnc c ∧
      (∀ r ∈ c.ranges, Xml.RangeOK exOracle r) ∧
      readInstalledDoc exOracle (renderGetConfig c) = .ok [("p1", ⟨[exA, exB], []⟩), ("p2", ⟨[exB], [exC]⟩)] := by
  decide

end Policy
