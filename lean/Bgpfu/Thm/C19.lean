import Bgpfu.Lemmas.Daemon
/-!
# C19 — the daemon retries with bounded back-off and stays responsive to signals

Property theorems only (helper lemmas live in `Bgpfu.Lemmas.Daemon`).

All statements are about the *timeline* `trace c p init evs` of the loop model
(`Bgpfu.Model.Daemon`): the events the loop observed, for **every** list of events `evs` the
environment may offer (every sequence of run outcomes and durations, every placement of signals),
every period `p` (milliseconds; `0 < p` where needed — `init_loop` takes a `NonZeroU64`) and every
position in the timeline.  In a timeline `tick t` is "a run starts at `t`", `runDone t ok` is
"that run ended at `t`", `hup/int/term t` is "the signal arm fired at `t`".  A *retry delay* is
`t₂ - t₁` for adjacent `runDone t₁ false, tick t₂`.

`Cfg.pinned` is the update rule of task.rs:174 as it is in the pinned tree
(`min(period, 2·backoff)`), `Cfg.fixed` the repaired rule (`min(max(period, 60 s), 2·backoff)`).
Theorems that hold for both are stated for an arbitrary `c`.
-/
set_option linter.unusedSimpArgs false
namespace Daemon

/-- **Master statement.** The delay after a failed run is the back-off sequence at the number of
consecutive failures before it (`backoffAt c p 0 = 60 s`, `backoffAt c p (n+1) = backoffNext …`). -/
theorem retry_delay_eq (c : Cfg) (p : Nat) (evs pre post : List Ev) (t₁ t₂ : Nat)
    (h : trace c p init evs = pre ++ .runDone t₁ false :: .tick t₂ :: post) :
    t₂ = t₁ + backoffAt c p (streak pre) := by
  obtain ⟨evs₁, h2, ha, hb⟩ := trace_pair c p init evs pre _ _ post h
  have hbo := backoff_init c p evs₁
  rw [h2] at hbo
  accepts_prop at hb
  omega

/-- **The first retry delay is one minute**: at start, and again after every successful run (no
failed run since — `pre` may contain anything before the last success, and SIGHUP-triggered runs). -/
theorem first_retry_is_minute (c : Cfg) (p : Nat) (evs pre post : List Ev) (t₁ t₂ : Nat)
    (h : trace c p init evs = pre ++ .runDone t₁ false :: .tick t₂ :: post)
    (hfirst : streak pre = 0) :
    t₂ = t₁ + minBackoff := by
  have := retry_delay_eq c p evs pre post t₁ t₂ h
  rw [hfirst] at this
  simpa [backoffAt] using this

/-- `streak pre = 0` holds when no run has failed yet … -/
theorem streak_zero_at_start (pre : List Ev) (h : ∀ t, Ev.runDone t false ∉ pre) : streak pre = 0 :=
  streakFrom_zero pre h

/-- … and when no run has failed since the last successful one. -/
theorem streak_zero_after_success (pre₀ mid : List Ev) (t₀ : Nat) (h : ∀ t, Ev.runDone t false ∉ mid) :
    streak (pre₀ ++ .runDone t₀ true :: mid) = 0 := by
  simp only [streak, streakFrom_append, streakFrom]
  exact streakFrom_zero mid h

/-- **Every retry delay is at most `max 60 s period`** … -/
theorem delay_le_max (c : Cfg) (p : Nat) (evs pre post : List Ev) (t₁ t₂ : Nat)
    (h : trace c p init evs = pre ++ .runDone t₁ false :: .tick t₂ :: post) :
    t₂ - t₁ ≤ max minBackoff p := by
  have := retry_delay_eq c p evs pre post t₁ t₂ h
  have := backoffAt_le c p (streak pre)
  omega

/-- … **and at least `min 60 s period`, hence positive**: after a run (failed or not) the next run
never starts without delay. -/
theorem delay_pos (c : Cfg) (p : Nat) (hp : 0 < p) (evs pre post : List Ev) (t₁ t₂ : Nat) (ok : Bool)
    (h : trace c p init evs = pre ++ .runDone t₁ ok :: .tick t₂ :: post) :
    min minBackoff p ≤ t₂ - t₁ ∧ t₁ < t₂ := by
  cases ok with
  | false =>
    have := retry_delay_eq c p evs pre post t₁ t₂ h
    have := backoffAt_ge c p (streak pre)
    simp only [minBackoff] at *
    omega
  | true =>
    obtain ⟨evs₁, -, -, hb⟩ := trace_pair c p init evs pre _ _ post h
    accepts_prop at hb
    simp only [minBackoff]
    omega

/-- **Runs never follow each other without delay**: a run start in the timeline is the very first
event (`first_run_immediate`), or directly follows the end of the previous run by at least
`min 60 s period > 0`, or directly follows a SIGHUP observed at that same instant. -/
theorem run_needs_delay_or_hup (c : Cfg) (p : Nat) (evs pre post : List Ev) (e : Ev) (t : Nat)
    (h : trace c p init evs = pre ++ e :: .tick t :: post) :
    (∃ t₁ ok, e = .runDone t₁ ok ∧ t₁ + min minBackoff p ≤ t) ∨ e = .hup t := by
  obtain ⟨evs₁, h2, ha, hb⟩ := trace_pair c p init evs pre _ _ post h
  cases e with
  | tick t' => simp [accepts, next] at hb
  | int t' => simp [accepts, next] at hb
  | term t' => simp [accepts, next] at hb
  | hup t' =>
    accepts_prop at hb
    right; rw [hb.2.1]
  | runDone t₁ ok =>
    left
    refine ⟨t₁, ok, rfl, ?_⟩
    have hbo := backoff_init c p evs₁
    have := backoffAt_ge c p (streak (trace c p init evs₁))
    cases ok <;>
      (accepts_prop at hb) <;>
      simp only [minBackoff] at * <;> omega

/-- the first run starts at once (the first `interval.tick()` completes immediately) -/
theorem first_run_immediate (c : Cfg) (p : Nat) (evs post : List Ev) (t : Nat)
    (h : trace c p init evs = .tick t :: post) : t = 0 := by
  obtain ⟨ha, -⟩ := trace_head c p init evs _ _ h
  simpa [accepts, init] using ha

/-- runs do not overlap and no signal arm fires while a run is awaited: the event after a run
start is the end of that run -/
theorem run_is_awaited (c : Cfg) (p : Nat) (evs pre post : List Ev) (e : Ev) (t : Nat)
    (h : trace c p init evs = pre ++ .tick t :: e :: post) :
    ∃ t' ok, e = .runDone t' ok ∧ t ≤ t' := by
  obtain ⟨evs₁, -, -, hb⟩ := trace_pair c p init evs pre _ _ post h
  cases e with
  | runDone t' ok =>
    accepts_prop at hb
    exact ⟨t', ok, rfl, hb.2⟩
  | _ => simp [accepts, next] at hb

/-- **A successful run restores the normal period** … -/
theorem success_restores (c : Cfg) (p : Nat) (evs pre post : List Ev) (t₁ t₂ : Nat)
    (h : trace c p init evs = pre ++ .runDone t₁ true :: .tick t₂ :: post) :
    t₂ = t₁ + p := by
  obtain ⟨evs₁, -, -, hb⟩ := trace_pair c p init evs pre _ _ post h
  accepts_prop at hb
  exact hb.2.1

/-- … **and the back-off**: the first failure after a success (whatever happened before it, and
with any number of SIGHUP-triggered successful runs in between) is retried after one minute again. -/
theorem success_resets_backoff (c : Cfg) (p : Nat) (evs pre₀ mid post : List Ev) (t₀ t₁ t₂ : Nat)
    (h : trace c p init evs = (pre₀ ++ .runDone t₀ true :: mid) ++ .runDone t₁ false :: .tick t₂ :: post)
    (hmid : ∀ t, Ev.runDone t false ∉ mid) :
    t₂ = t₁ + minBackoff :=
  first_retry_is_minute c p evs _ post t₁ t₂ h (streak_zero_after_success pre₀ mid t₀ hmid)

/-- **Along consecutive failures the retry delay never shrinks** (repaired rule, every period):
for two retry delays in the timeline with no successful run in between — SIGHUP-triggered failed
runs in between are allowed — the later one is at least the earlier one. -/
theorem delay_monotone (p : Nat) (evs pre mid post : List Ev) (t₁ t₂ t₃ t₄ : Nat)
    (h : trace .fixed p init evs
      = pre ++ .runDone t₁ false :: .tick t₂ :: (mid ++ .runDone t₃ false :: .tick t₄ :: post))
    (hmid : ∀ t, Ev.runDone t true ∉ mid) :
    t₂ - t₁ ≤ t₄ - t₃ := by
  have h1 := retry_delay_eq .fixed p evs pre _ t₁ t₂ h
  have h' : trace .fixed p init evs
      = (pre ++ .runDone t₁ false :: .tick t₂ :: mid) ++ .runDone t₃ false :: .tick t₄ :: post := by
    simp [h]
  have h2 := retry_delay_eq .fixed p evs _ post t₃ t₄ h'
  have hs : streak pre + 1 ≤ streak (pre ++ .runDone t₁ false :: .tick t₂ :: mid) := by
    simp only [streak, streakFrom_append, streakFrom]
    exact streakFrom_ge _ mid hmid
  have := backoffAt_fixed_mono p (Nat.le_of_succ_le hs)
  omega

/-- **… and grows strictly until it has reached the cap `max 60 s period`** (repaired rule). -/
theorem delay_grows (p : Nat) (evs pre mid post : List Ev) (t₁ t₂ t₃ t₄ : Nat)
    (h : trace .fixed p init evs
      = pre ++ .runDone t₁ false :: .tick t₂ :: (mid ++ .runDone t₃ false :: .tick t₄ :: post))
    (hmid : ∀ t, Ev.runDone t true ∉ mid)
    (hcap : t₂ - t₁ < max p minBackoff) :
    t₂ - t₁ < t₄ - t₃ := by
  have h1 := retry_delay_eq .fixed p evs pre _ t₁ t₂ h
  have h' : trace .fixed p init evs
      = (pre ++ .runDone t₁ false :: .tick t₂ :: mid) ++ .runDone t₃ false :: .tick t₄ :: post := by
    simp [h]
  have h2 := retry_delay_eq .fixed p evs _ post t₃ t₄ h'
  have hs : streak pre + 1 ≤ streak (pre ++ .runDone t₁ false :: .tick t₂ :: mid) := by
    simp only [streak, streakFrom_append, streakFrom]
    exact streakFrom_ge _ mid hmid
  have h3 := backoffAt_fixed_mono p hs
  have h4 := backoffAt_fixed_strict p (streak pre) (by omega)
  omega

/-- closed form (repaired rule): the `n+1`-st consecutive failure is retried after
`min (max period 60 s) (60 s · 2ⁿ)`; in particular never sooner than after one minute. -/
theorem delay_closed_form (p : Nat) (evs pre post : List Ev) (t₁ t₂ : Nat)
    (h : trace .fixed p init evs = pre ++ .runDone t₁ false :: .tick t₂ :: post) :
    t₂ - t₁ = min (max p minBackoff) (minBackoff * 2 ^ streak pre) ∧ minBackoff ≤ t₂ - t₁ := by
  have h1 := retry_delay_eq .fixed p evs pre post t₁ t₂ h
  have h2 := backoffAt_fixed_closed p (streak pre)
  have h3 := backoffAt_fixed_ge_min p (streak pre)
  omega

/-- **SIGHUP triggers an immediate run** (1): whenever the loop is waiting — at any instant `t`
between the last event and the timer's deadline — a SIGHUP is observed and the run it triggers
starts at that very instant. -/
theorem hup_immediate (c : Cfg) (p : Nat) (evs : List Ev) (t : Nat)
    (hw : (run c p init evs).phase = .waiting)
    (h1 : (run c p init evs).now ≤ t) (h2 : t ≤ (run c p init evs).deadline) :
    trace c p init (evs ++ [.hup t, .tick t]) = trace c p init evs ++ [.hup t, .tick t] := by
  rw [trace_append]
  congr 1
  simp [trace, accepts, next, hw, h1, h2]

/-- **SIGHUP triggers an immediate run** (2): nothing else can come first — whatever the loop
observes next after a SIGHUP at `t` happens at `t`, and it is the run start or another signal. -/
theorem hup_then_run (c : Cfg) (p : Nat) (evs pre post : List Ev) (e : Ev) (t : Nat)
    (h : trace c p init evs = pre ++ .hup t :: e :: post) :
    e = .tick t ∨ e = .hup t ∨ e = .int t ∨ e = .term t := by
  obtain ⟨evs₁, -, ha, hb⟩ := trace_pair c p init evs pre _ _ post h
  cases e with
  | runDone t' ok =>
    accepts_prop at ha
    accepts_prop at hb
    simp [ha.1] at hb
  | tick t' =>
    accepts_prop at hb
    simp [hb.2.1]
  | hup t' =>
    accepts_prop at hb
    have : t' = t := by omega
    simp [this]
  | int t' =>
    accepts_prop at hb
    have : t' = t := by omega
    simp [this]
  | term t' =>
    accepts_prop at hb
    have : t' = t := by omega
    simp [this]

/-- **SIGINT / SIGTERM while waiting end the loop** (1): whenever the loop is waiting, the signal
is observed at the instant it arrives, the loop is then in its exited state, and *nothing* the
environment offers afterwards (`more`) is observed — in particular no further run. -/
theorem int_term_exit (c : Cfg) (p : Nat) (evs more : List Ev) (t : Nat) (e : Ev)
    (he : e = .int t ∨ e = .term t)
    (hw : (run c p init evs).phase = .waiting)
    (h1 : (run c p init evs).now ≤ t) (h2 : t ≤ (run c p init evs).deadline) :
    trace c p init (evs ++ e :: more) = trace c p init evs ++ [e] ∧
    (run c p init (evs ++ e :: more)).phase = .exited := by
  have hex : ∀ (s : State), s.phase = .exited → ∀ more, trace c p s more = [] ∧ run c p s more = s := by
    intro s hs more
    induction more with
    | nil => simp [trace, run]
    | cons a as ih =>
      have : accepts s a = false := by cases a <;> simp [accepts, hs]
      simp [trace, run, step, this, ih]
  rw [trace_append, run_append]
  rcases he with rfl | rfl
  · have hacc : accepts (run c p init evs) (.int t) = true := by simp [accepts, hw, h1, h2]
    have hx := hex (next c p (run c p init evs) (.int t)) (by simp [next]) more
    simp only [trace, run, step, hacc, if_true, hx.1, hx.2]
    simp [next]
  · have hacc : accepts (run c p init evs) (.term t) = true := by simp [accepts, hw, h1, h2]
    have hx := hex (next c p (run c p init evs) (.term t)) (by simp [next]) more
    simp only [trace, run, step, hacc, if_true, hx.1, hx.2]
    simp [next]

/-- **SIGINT / SIGTERM end the loop** (2): an exit signal is the last event of every timeline that
contains one. -/
theorem exit_is_last (c : Cfg) (p : Nat) (evs pre post : List Ev) (t : Nat) (e : Ev)
    (he : e = .int t ∨ e = .term t)
    (h : trace c p init evs = pre ++ e :: post) : post = [] := by
  cases post with
  | nil => rfl
  | cons b post' =>
    obtain ⟨evs₁, -, -, hb⟩ := trace_pair c p init evs pre _ _ post' h
    rcases he with rfl | rfl <;> cases b <;> simp [accepts, next] at hb

/-- The model op of the correspondence run prints a timeline: every event `schedule` emits is one
the loop accepts, so all theorems above apply verbatim to what is compared with the implementation. -/
theorem schedule_is_timeline (c : Cfg) (p hz fuel : Nat) (s : State)
    (runs : List (Nat × Bool)) (sigs : List (Nat × Sig)) :
    trace c p s (schedule c p hz fuel s runs sigs) = schedule c p hz fuel s runs sigs := by
  induction fuel generalizing s runs sigs with
  | zero => simp [schedule, trace]
  | succ n ih =>
    simp only [schedule]
    split
    · simp [trace]
    · split
      · simp [trace]
      · split
        · rename_i hacc
          simp [trace, hacc, ih]
        · exact ih _ _ _

/-! ### Non-vacuity and the pinned rule -/

/-- period 300 s, five failures in a row: retried after 60, 120, 240, 300, 300 s -/
example : trace .fixed 300000 init
    [.tick 0, .runDone 1000 false, .tick 61000, .runDone 61000 false, .tick 181000,
     .runDone 190000 false, .tick 430000, .runDone 430000 false, .tick 730000,
     .runDone 730000 false, .tick 1030000]
  = [.tick 0, .runDone 1000 false, .tick 61000, .runDone 61000 false, .tick 181000,
     .runDone 190000 false, .tick 430000, .runDone 430000 false, .tick 730000,
     .runDone 730000 false, .tick 1030000] := by decide

/-- a success restores period and back-off; events the loop cannot observe (a tick before the
deadline, a signal during a run) are not part of the timeline -/
example : trace .fixed 300000 init
    [.tick 0, .hup 5, .runDone 10 false, .tick 500, .tick 60010, .runDone 60010 true, .tick 360010,
     .runDone 360010 false, .tick 420010]
  = [.tick 0, .runDone 10 false, .tick 60010, .runDone 60010 true, .tick 360010,
     .runDone 360010 false, .tick 420010] := by decide

/-- SIGHUP in the middle of a wait starts a run there; SIGTERM in the next wait ends the loop -/
example : trace .fixed 300000 init
    [.tick 0, .runDone 0 false, .hup 30137, .tick 30137, .runDone 30137 false, .term 100001, .tick 150137]
  = [.tick 0, .runDone 0 false, .hup 30137, .tick 30137, .runDone 30137 false, .term 100001] := by decide

/-- the hypotheses of `hup_immediate` / `int_term_exit` are satisfiable -/
example : (run .fixed 300000 init [.tick 0, .runDone 0 false]).phase = .waiting
    ∧ (run .fixed 300000 init [.tick 0, .runDone 0 false]).now ≤ 30137
    ∧ 30137 ≤ (run .fixed 300000 init [.tick 0, .runDone 0 false]).deadline := by decide

/-- period 10 s under the repaired rule: 60, 60, 60 s -/
example : starts (trace .fixed 10000 init
    [.tick 0, .runDone 0 false, .tick 60000, .runDone 60000 false, .tick 70000, .tick 120000,
     .runDone 120000 false, .tick 180000])
  = [0, 60000, 120000, 180000] := by decide

/-- `schedule` on a script: period 120 s, SIGHUP at 30.137 s, SIGINT at 200.333 s -/
example : schedule .fixed 120000 600500 40 init [] [(30137, .hup), (200333, .int)]
  = [.tick 0, .runDone 0 false, .hup 30137, .tick 30137, .runDone 30137 false, .tick 150137,
     .runDone 150137 false, .int 200333] := by decide

/-- **D12**: with the pinned rule and a period of 10 s the second retry delay (10 s) is *smaller*
than the first (60 s): `delay_monotone` is false for `Cfg.pinned`. -/
theorem delay_shrinks_cex :
    ∃ evs pre mid post t₁ t₂ t₃ t₄,
      trace .pinned 10000 init evs
        = pre ++ .runDone t₁ false :: .tick t₂ :: (mid ++ .runDone t₃ false :: .tick t₄ :: post)
      ∧ (∀ t, Ev.runDone t true ∉ mid) ∧ t₄ - t₃ < t₂ - t₁ :=
  ⟨[.tick 0, .runDone 0 false, .tick 60000, .runDone 60000 false, .tick 70000],
   [.tick 0], [], [], 0, 60000, 60000, 70000, by decide, by simp, by decide⟩

/-- the same history under the pinned rule as a back-off sequence: 60 s, then 10 s for ever -/
theorem backoff_pinned_small_period_cex :
    backoffAt .pinned 10000 0 = 60000 ∧ ∀ n, backoffAt .pinned 10000 (n + 1) = 10000 := by
  refine ⟨rfl, fun n => ?_⟩
  have h1 := backoffAt_ge .pinned 10000 n
  simp only [backoffAt, backoffNext, cap_pinned, minBackoff] at *
  omega

/-! ### how a run ends: a panic is a failed run

`Loop::start` runs the updater job in a task of its own and joins it through `handle_task`
(task.rs): `Ok(Ok(()))` is a success; an `Err` returned by the job AND a `JoinError` (the task
panicked, in any part of the run — connection set-up, compare, load) are both a failed run. So the
event a run contributes to the timeline is `runDone t false` in both cases, and every theorem above
about failed runs is about panicking runs as well. (Awaiting the job in place instead would let the
panic unwind through the loop: no retry, no further run, no signal handling — the daemon is gone.)
The correspondence run scripts panicking runs (`x=` indices of the daemon op) next to failing ones. -/

inductive JobEnd where
  | ok | err | panicked
  deriving DecidableEq, Repr

/-- `handle_task(tokio::spawn(job))` -/
def JobEnd.success : JobEnd → Bool
  | .ok => true
  | _ => false

def doneEv (t : Nat) (e : JobEnd) : Ev := .runDone t e.success

theorem panic_is_a_failed_run (t : Nat) : doneEv t .panicked = doneEv t .err := rfl

/-- the retry after a run that panicked comes after exactly the back-off delay, like after any failure -/
theorem retry_after_panic (c : Cfg) (p : Nat) (evs pre post : List Ev) (t₁ t₂ : Nat)
    (h : trace c p init evs = pre ++ doneEv t₁ .panicked :: .tick t₂ :: post) :
    t₂ = t₁ + backoffAt c p (streak pre) :=
  retry_delay_eq c p evs pre post t₁ t₂ h

/-- a daemon whose first two runs panic: retries at 60 s and 180 s, and SIGTERM still ends it -/
example :
    trace .fixed 3600000 init
      [.tick 0, doneEv 5 .panicked, .tick 60005, doneEv 60010 .panicked, .tick 180010]
      = [.tick 0, .runDone 5 false, .tick 60005, .runDone 60010 false, .tick 180010] := by decide

end Daemon
