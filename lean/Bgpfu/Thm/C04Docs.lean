import Bgpfu.Thm.C04
import Bgpfu.Thm.C08
/-!
# C04 ∘ C08 — what "positively acknowledged" means on the wire

`Thm/C04.lean` treats the server's answer to each request as acknowledged / not acknowledged.
Here the answer is a reply *document* (an event list), and "acknowledged" is what the client's reply
reader (`Xml.readMessage`, both parse phases + `into_result`, the subject of C08) makes of it. The run
program is the same phase program (`Run.phases`), without connection faults.

Result: whatever documents the server sends, commit is requested only if every earlier request —
in particular every load — was answered by a document the reader accepts; and a load answered by
ANY document of the reply grammar that carries an `<rpc-error>` of severity error anywhere the grammar
allows one (directly under `<rpc-reply>` or inside `<load-configuration-results>`, before or after
warnings, with or without `<ok/>`) means: no commit, and the run fails.
-/
namespace Run
open Xml

/-- the reply type of each request of the run (`type Reply = …` of the operation) -/
def Req.kind : Req → ReplyKind
  | .openDb => .bare          -- junos/open_configuration.rs: BareReply
  | .getRunning => .data      -- get_config.rs: DataReply
  | .getCandidate => .data
  | .load _ => .load          -- junos/load_configuration.rs: its own Reply
  | .commit => .empty         -- junos/commit_configuration.rs: EmptyReply
  | .closeDb => .bare         -- junos/mod.rs: BareReply
  | .closeSession => .empty   -- close_session.rs: EmptyReply

/-- is `evs` a positive acknowledgement of request `r`? (`.await?` on the reply future, then `into_result()?`) -/
def ackDoc (r : Req) (evs : List Ev) : Bool := (readMessage .fixed r.kind evs).isSuccess

/-- awaiting the replies of one phase in order; `start` = number of requests sent before this phase -/
def ackAll (docs : Nat → List Ev) : (start : Nat) → List Req → Bool
  | _, [] => true
  | start, r :: rs => ackDoc r (docs (start + 1)) && ackAll docs (start + 1) rs

/-- the phase program against a server that answers the request at position `p` with `docs p` -/
def runDocsPhases (docs : Nat → List Ev) : List (List Req) → (start : Nat) → (trace : List Req) → List Req × Bool
  | [], _, trace => (trace, true)
  | ph :: rest, start, trace =>
    if ackAll docs start ph then runDocsPhases docs rest (start + ph.length) (trace ++ ph)
    else (trace ++ ph, false)

def runDocs (n : Nat) (docs : Nat → List Ev) : List Req × Bool := runDocsPhases docs (phases n) 0 []

theorem ackAll_iff (docs : Nat → List Ev) (start : Nat) (l : List Req) :
    ackAll docs start l = true ↔ ∀ j, (h : j < l.length) → ackDoc l[j] (docs (start + 1 + j)) = true := by
  induction l generalizing start with
  | nil => simp [ackAll]
  | cons r rs ih =>
    simp only [ackAll, Bool.and_eq_true, ih, List.length_cons]
    constructor
    · rintro ⟨h0, hr⟩ j hj
      cases j with
      | zero => simpa using h0
      | succ j =>
        have := hr j (by omega)
        have e : start + 1 + 1 + j = start + 1 + (j + 1) := by omega
        rw [e] at this
        simpa using this
    · intro h
      refine ⟨by simpa using h 0 (by omega), fun j hj => ?_⟩
      have := h (j + 1) (by omega)
      have e : start + 1 + 1 + j = start + 1 + (j + 1) := by omega
      rw [e]
      simpa using this

theorem loads_no_commit (n : Nat) : ((List.range n).map Req.load).contains Req.commit = false := by
  simp

/-- **commit only after every earlier request was answered by a document the reader accepts** —
for every number of loads and every assignment of reply documents (any event lists at all). -/
theorem commit_requires_accepted_replies (n : Nat) (docs : Nat → List Ev)
    (h : (runDocs n docs).1.contains .commit = true) :
    ackDoc .openDb (docs 1) = true ∧ ackDoc .getRunning (docs 2) = true ∧ ackDoc .getCandidate (docs 3) = true ∧
    ∀ i, i < n → ackDoc (.load i) (docs (4 + i)) = true := by
  unfold runDocs phases at h
  simp only [runDocsPhases] at h
  by_cases h1 : ackAll docs 0 [.openDb] = true
  · simp only [h1, if_true] at h
    by_cases h2 : ackAll docs (0 + [Req.openDb].length) [.getRunning, .getCandidate] = true
    · simp only [h2, if_true] at h
      by_cases h3 : ackAll docs (0 + [Req.openDb].length + [Req.getRunning, Req.getCandidate].length)
          ((List.range n).map Req.load) = true
      · refine ⟨?_, ?_, ?_, ?_⟩
        · simpa [ackAll] using h1
        · have := (ackAll_iff docs _ _).mp h2 0 (by simp); simpa using this
        · have := (ackAll_iff docs _ _).mp h2 1 (by simp); simpa using this
        · intro i hi
          have := (ackAll_iff docs _ _).mp h3 i (by simpa using hi)
          simpa [Nat.add_comm, Nat.add_left_comm, Nat.add_assoc] using this
      · simp only [h3, Bool.false_eq_true, if_false] at h
        simp at h
    · simp only [h2, Bool.false_eq_true, if_false] at h
      simp at h
  · simp only [h1, Bool.false_eq_true, if_false] at h
    simp at h

/-- a run that returns Ok went through the commit phase -/
theorem ok_run_commits (n : Nat) (docs : Nat → List Ev) (h : (runDocs n docs).2 = true) :
    (runDocs n docs).1.contains .commit = true := by
  unfold runDocs phases at h ⊢
  simp only [runDocsPhases] at h ⊢
  split
  · split
    · split
      · split
        · split
          · split <;> simp
          · simp
        · simp
      · rename_i h1 h2 h3; simp only [h1, h2, h3, if_true, Bool.false_eq_true, if_false] at h
    · rename_i h1 h2; simp only [h1, h2, if_true, Bool.false_eq_true, if_false] at h
  · rename_i h1; simp only [h1, Bool.false_eq_true, if_false] at h

/-- … and then the run as a whole fails -/
theorem unaccepted_load_fails_run (n : Nat) (docs : Nat → List Ev) (i : Nat) (hi : i < n)
    (hbad : ackDoc (.load i) (docs (4 + i)) = false) :
    (runDocs n docs).1.contains .commit = false ∧ (runDocs n docs).2 = false := by
  have hc : (runDocs n docs).1.contains .commit = false := by
    cases hcc : (runDocs n docs).1.contains .commit with
    | false => rfl
    | true =>
      have := (commit_requires_accepted_replies n docs hcc).2.2.2 i hi
      rw [hbad] at this; cases this
  refine ⟨hc, ?_⟩
  cases hr : (runDocs n docs).2 with
  | false => rfl
  | true => rw [ok_run_commits n docs hr] at hc; cases hc

/-- **a load answered with an error is never followed by a commit** — for every document of the
reply grammar (any number / order / severity of rpc-errors, `<ok/>` present or not, comments,
`<load-configuration-results>` with its own children) that carries an rpc-error of severity
error, at any load position, whatever all other replies are. -/
theorem no_commit_after_error_reply (n : Nat) (docs : Nat → List Ev) (i : Nat) (hi : i < n)
    (raw idAttr : String) (extra : List AttrItem) (cs : List Top) (id : Nat) (g : GoodDoc raw idAttr cs id)
    (hdoc : docs (4 + i) = replyDoc raw idAttr extra cs) (herr : errorSeverityInReply cs = true) :
    (runDocs n docs).1.contains .commit = false ∧ (runDocs n docs).2 = false := by
  apply unaccepted_load_fails_run n docs i hi
  cases ha : ackDoc (.load i) (docs (4 + i)) with
  | false => rfl
  | true =>
    unfold ackDoc at ha
    rw [hdoc] at ha
    have := success_no_error_severity (Req.load i).kind raw idAttr extra cs id g ha
    rw [herr] at this; cases this

/-! ### non-vacuity -/

/-- the documents of a fault-free run with one load -/
def okDocs : Nat → List Ev
  | 1 => replyDoc "rpc-reply" "1" [] []
  | 2 => replyDoc "rpc-reply" "2" [] [.data "<configuration/>" [.empty { ns := .bound XNM, lname := "configuration", raw := "configuration", attrs := [], span := none }]]
  | 3 => replyDoc "rpc-reply" "3" [] [.data "<configuration/>" [.empty { ns := .bound XNM, lname := "configuration", raw := "configuration", attrs := [], span := none }]]
  | 4 => replyDoc "rpc-reply" "4" [] [.results "load-configuration-results" [.ok]]
  | 5 => replyDoc "rpc-reply" "5" [] [.ok]
  | 6 => replyDoc "rpc-reply" "6" [] []
  | _ => replyDoc "rpc-reply" "7" [] [.ok]

example : runDocs 1 okDocs = ([.openDb, .getRunning, .getCandidate, .load 0, .commit, .closeDb, .closeSession], true) := by decide

/-- the same run, the load answered with error, warning, `<ok/>`: no commit, run fails -/
example : runDocs 1 (fun p => if p = 4 then
      replyDoc "rpc-reply" "4" [] [.results "load-configuration-results" [.err exErr, .err exWarn, .ok]] else okDocs p)
    = ([.openDb, .getRunning, .getCandidate, .load 0], false) := by decide

end Run
