import Bgpfu.Lemmas.Framing
/-!
# C07 — peer disconnect surfaces as an error, never as a hang or busy loop (transport loops)

The receive loops are structurally recursive on the list of read events: one loop iteration per
event, so "bounded time" is "bounded by the number of events the peer/OS produced" by construction.
What has to be proved is that end-of-stream is never ignored (`spin`) and never leaves the call
blocked (`pending`).  The session-level part (every pending reply future fails after the transport
failed) is in `Bgpfu.Thm.C07s`.
-/
namespace Framing

def Read.isData : Read → Bool
  | .data _ => true
  | _ => false

theorem specRecv_ne_spin (reads : List Read) (buf b : List Byte) : specRecv reads buf ≠ .spin b := by
  induction reads generalizing buf with
  | nil => simp only [specRecv]; split <;> simp
  | cons r rs ih =>
    simp only [specRecv]
    split
    · simp
    · cases r with
      | data bs => exact ih _
      | eof => simp
      | ioErr => simp

/-- **The client never spins**: no sequence of read results makes `recv` loop without blocking. -/
theorem recv_never_spins (buf : List Byte) (reads : List Read) (b : List Byte) :
    recv .fixed buf reads ≠ .spin b := by
  rw [recv_eq_spec]; exact specRecv_ne_spin reads buf b

theorem specRecv_pending (reads : List Read) (buf b : List Byte)
    (h : specRecv reads buf = .pending b) : ∀ r ∈ reads, r.isData = true := by
  induction reads generalizing buf with
  | nil => simp
  | cons r rs ih =>
    simp only [specRecv] at h
    split at h
    · cases h
    · cases r with
      | data bs =>
        intro x hx
        rcases List.mem_cons.mp hx with rfl | hx
        · rfl
        · exact ih _ h x hx
      | eof => cases h
      | ioErr => cases h

/-- **The client never waits forever after a disconnect**: `recv` can only be left blocked if the
stream has neither ended nor failed. -/
theorem recv_pending_only_if_open (buf : List Byte) (reads : List Read) (b : List Byte)
    (h : recv .fixed buf reads = .pending b) : ∀ r ∈ reads, r.isData = true := by
  rw [recv_eq_spec] at h; exact specRecv_pending reads buf b h

/-- **EOF / I/O error at any point** — idle, mid-message, mid-delimiter (any `buf`, any data read
before it): unless a complete message is already available, the call fails. -/
theorem eof_errors (buf : List Byte) (cs : List (List Byte)) (r : Read) (rest : List Read)
    (hr : r.isData = false) (hno : find marker (buf ++ cs.flatten) = none) :
    recv .fixed buf (datas cs ++ r :: rest) = .err (buf ++ cs.flatten) := by
  rw [recv_eq_spec]
  induction cs generalizing buf with
  | nil =>
    simp only [List.flatten_nil, List.append_nil] at hno
    cases r with
    | data bs => cases hr
    | eof => simp [datas, specRecv, hno]
    | ioErr => simp [datas, specRecv, hno]
  | cons c cs ih =>
    have hb : find marker buf = none := by
      cases hf : find marker buf with
      | none => rfl
      | some i =>
        have := find_append_some marker buf (c ++ cs.flatten) i marker_ne_nil hf
        simp only [List.flatten_cons] at hno
        rw [hno] at this; cases this
    have := ih (buf ++ c) (by simpa using hno)
    simpa [datas, specRecv, hb] using this

/-- after the failure the same holds for every later call: the residue has no delimiter, and the
next read is again EOF (sticky), so every subsequent `recv` fails as well. -/
theorem eof_errors_again (b : List Byte) (rest : List Read) (hno : find marker b = none) :
    recv .fixed b (.eof :: rest) = .err b := by
  simpa [datas] using eof_errors b [] .eof rest rfl (by simpa using hno)

/-! ### SSH pump -/

def ChanEv.ends : ChanEv → Bool
  | .eof => true
  | .closed => true
  | _ => false

/-- **The pump terminates on channel EOF and on channel closure** (whatever came before), after
which `in_queue_tx` is dropped and every `recv` returns `Err(DequeueMessage)`. -/
theorem pump_exits_on_close (pre : List ChanEv) (e : ChanEv) (post : List ChanEv) (buf : List Byte)
    (hpre : ∀ x ∈ pre, x.ends = false) (he : e.ends = true) :
    (pump .fixed (pre ++ e :: post) buf).2.2 = .exited := by
  induction pre generalizing buf with
  | nil =>
    cases e with
    | data bs => cases he
    | other => cases he
    | eof => simp [pump]
    | closed => simp [pump, PumpCfg.fixed]
  | cons x xs ih =>
    have hx := hpre x (by simp)
    have hxs : ∀ y ∈ xs, y.ends = false := fun y hy => hpre y (by simp [hy])
    cases x with
    | data bs => simp only [List.cons_append, pump]; exact ih _ hxs
    | other => simp only [List.cons_append, pump]; exact ih _ hxs
    | eof => cases hx
    | closed => cases hx

/-- the pump never spins -/
theorem pump_never_spins (evs : List ChanEv) (buf : List Byte) :
    (pump .fixed evs buf).2.2 ≠ .spinning := by
  induction evs generalizing buf with
  | nil => simp [pump]
  | cons x xs ih =>
    cases x with
    | data bs => simp only [pump]; exact ih _
    | other => simp only [pump]; exact ih _
    | eof => simp [pump]
    | closed => simp [pump, PumpCfg.fixed]

/-! ### Non-vacuity and the pinned snapshot -/

example : recv .fixed [] (datas [[60, 97]] ++ .eof :: []) = .err [60, 97] := by decide

/-- The pinned loop ignores a 0-byte read: at EOF it busy-loops (defect D3). -/
theorem recv_spins_cex : recv .pinned [60, 97] [.eof] = .spin [60, 97] := by decide

/-- The pinned pump ignores `channel.wait() == None`: it spins and receivers hang (defect D4). -/
theorem pump_spins_cex : (pump .pinned [.closed] []).2.2 = .spinning := by decide

end Framing
