import Bgpfu.Lemmas.Totality
/-!
# C14 — arbitrary bytes from the server produce an error, never a panic or a hang (reader part)

Every reader is a structurally recursive, total Lean function over the event list the tokenizer
produced — there is no `partial`, so "returns in bounded time" is "consumes at least one event per
iteration and never needs more iterations than there are events". The model's only artificial
failure is `Err.fuel`; the theorems show it is unreachable for **every** event list (well-formed
or not, including tokenizer errors and EOF at any position), i.e. each loop's iteration count is
bounded by the number of events. The byte-level robustness of the tokenizer itself (quick-xml)
is exercised by the `fuzz` correspondence op, not proved. The session-level clause (other
outstanding requests still get their replies) is `C05`'s `others_still_delivered`.
-/
namespace Xml

/-- Both parse phases of a reply terminate within `evs.length + 1` iterations each, on every event list. -/
theorem readMessage_total (c : RCfg) (k : ReplyKind) (evs : List Ev) : readMessage c k evs ≠ .err .fuel := by
  unfold readMessage
  split
  · rename_i e he
    intro h; simp only [Outcome.err.injEq] at h; subst h
    exact readPartial_total c _ none evs (by omega) he
  · unfold phase2
    split
    · rename_i e he
      intro h; simp only [Outcome.err.injEq] at h; subst h
      exact fromXmlReply_total c k _ none evs (by omega) he
    · split
      · rename_i b _ _; cases b <;> simp [Body.intoResult]
      · simp

/-- Session establishment terminates on every event list and every URI oracle. -/
theorem establish_total (c : RCfg) (adv : Bool) (o : UriOracle) (evs : List Ev) :
    establish c adv o evs ≠ .error .fuel := by
  unfold establish
  split
  · rename_i e he
    intro h; simp only [Except.error.injEq] at h; subst h
    exact fromXmlHello_total c o _ none evs (by omega) he
  · split <;> simp

/-- Every nested reader consumes at least one event when it succeeds and never runs out of fuel
when `fuel > evs.length` (the bounded-iteration invariant, restated for the outermost loops). -/
theorem reader_loops_bounded (c : RCfg) (k : ReplyKind) (o : UriOracle) (fuel : Nat) (t : Tag) (evs : List Ev) :
    Good evs fuel (readBody c k fuel t evs) ∧ Good evs fuel (readRpcError fuel t evs) ∧
    Good evs fuel (helloLoop c o fuel t.raw none none evs) :=
  ⟨readBody_good c k fuel t evs, errorLoop_good fuel t.raw {} evs, helloLoop_good c o fuel t.raw none none evs⟩

theorem fromXmlReply_needs_root (c : RCfg) (k : ReplyKind) (fuel : Nat) (this : Option (Nat × Body)) (evs : List Ev)
    (v : Nat × Body) (h : fromXmlReply c k fuel this evs = .ok v) (hn : this = none) :
    ∃ t, Ev.start t ∈ evs ∧ t.is BASE "rpc-reply" = true := by
  fun_induction fromXmlReply c k fuel this evs <;> simp_all
  all_goals first
    | (rename_i t _ _ _ _ _; exact Or.inl (by assumption))
    | (rename_i ih; exact ih)
    | skip
  all_goals grind

/-- **Garbage is not a value**: a message without an `<rpc-reply>` element in the base namespace
at top level never resolves to a successful result. -/
theorem success_needs_rpc_reply (c : RCfg) (k : ReplyKind) (evs : List Ev)
    (h : readMessage c k evs = .ok ∨ ∃ s, readMessage c k evs = .data s) :
    ∃ t, Ev.start t ∈ evs ∧ t.is BASE "rpc-reply" = true := by
  unfold readMessage at h
  split at h
  · rcases h with h | ⟨s, h⟩ <;> cases h
  · unfold phase2 at h
    split at h
    · rcases h with h | ⟨s, h⟩ <;> cases h
    · rename_i id2 b hb
      exact fromXmlReply_needs_root c k _ none evs _ hb rfl

/-! ### Non-vacuity: garbage event lists -/

example : readMessage .fixed .empty [] = .err .xml := by decide
example : readMessage .fixed .data [.text "<<<", .error, .error, .eof] = .err .unexpected := by decide
example : readMessage .fixed .load [.start { ns := .unknown, lname := "rpc-reply", raw := "x:rpc-reply", attrs := [.bad], span := none }, .eof]
    = .err .unexpected := by decide

end Xml
