import Bgpfu.Lemmas.Framing
/-!
# C06 — message boundaries do not depend on how the byte stream is segmented

Property theorems only (helper lemmas live in `Bgpfu.Lemmas.Framing`).
`Cfg.fixed` / `PumpCfg.fixed` are the loops as they are in /repo now (the correspondence run
checks that); `Cfg.pinned` / `PumpCfg.pinned` are the loops of the pinned snapshot.
-/
namespace Framing

/-- A message body is well framed if the first delimiter in `m ++ marker` is the appended one. -/
def WellFramed (m : List Byte) : Prop := find marker (m ++ marker) = some m.length

instance (m : List Byte) : Decidable (WellFramed m) := by unfold WellFramed; infer_instance

/-- the wire stream of a message sequence -/
def wire (ms : List (List Byte)) : List Byte := (ms.map (· ++ marker)).flatten

/-- **C06 (TLS / local CLI transports), main theorem.**
For every initial buffer and *every* way `cs` of cutting the rest of the stream into reads, repeated
`recv` calls return exactly the greedy split of the concatenated stream, in order, each once, and
then block with exactly the incomplete residue in the buffer. Nothing depends on `cs` except its
concatenation. -/
theorem recvAll_eq_split (fuel : Nat) (buf : List Byte) (cs : List (List Byte))
    (hfuel : (split (buf ++ cs.flatten)).1.length < fuel) :
    recvAll .fixed fuel buf (datas cs)
      = ((split (buf ++ cs.flatten)).1, .pending (split (buf ++ cs.flatten)).2) := by
  induction fuel generalizing buf cs with
  | zero => omega
  | succ n ih =>
    rw [recvAll, recv_eq_spec]
    rcases specRecv_datas cs buf with ⟨h1, h2⟩ | ⟨i, cs', buf', h1, h2, h3, _⟩
    · rw [h2, split_none _ h1]
    · rw [h2]
      simp only []
      rw [split_some _ i h1] at hfuel ⊢
      rw [← h3] at hfuel ⊢
      rw [ih buf' cs' (by simpa using hfuel)]

/-- Two segmentations of the same stream are indistinguishable. -/
theorem chunking_independent (fuel : Nat) (cs₁ cs₂ : List (List Byte))
    (h : cs₁.flatten = cs₂.flatten) (hfuel : (split cs₁.flatten).1.length < fuel) :
    recvAll .fixed fuel [] (datas cs₁) = recvAll .fixed fuel [] (datas cs₂) := by
  rw [recvAll_eq_split fuel [] cs₁ (by simpa using hfuel),
      recvAll_eq_split fuel [] cs₂ (by simpa [← h] using hfuel), h]

/-- The greedy split of the wire form of well-framed messages is those messages. -/
theorem split_wire (ms : List (List Byte)) (h : ∀ m ∈ ms, WellFramed m) :
    split (wire ms) = (ms.map (· ++ marker), []) := by
  induction ms with
  | nil => simp [wire, split_none, find, marker]
  | cons m ms ih =>
    have hm : WellFramed m := h m (by simp)
    have hw : wire (m :: ms) = (m ++ marker) ++ wire ms := by simp [wire]
    have hf : find marker (wire (m :: ms)) = some m.length := by
      rw [hw]; exact find_append_some _ _ _ _ marker_ne_nil hm
    rw [split_some _ _ hf, hw]
    have e1 : ((m ++ marker) ++ wire ms).take (m.length + 6) = m ++ marker := by
      rw [List.take_append_of_le_length (by simp [marker_length])]
      rw [List.take_of_length_le (by simp [marker_length])]
    have e2 : ((m ++ marker) ++ wire ms).drop (m.length + 6) = wire ms := by
      rw [List.drop_append_of_le_length (by simp [marker_length])]
      rw [List.drop_of_length_le (by simp [marker_length])]
      simp
    rw [e1, e2, ih (fun x hx => h x (by simp [hx]))]
    simp

/-- **C06, user-level statement**: the peer sends well-framed messages `ms`; however the stream is
cut into reads, the session layer receives exactly `ms` (with their delimiters), each once, in
order, and is then blocked with an empty buffer. -/
theorem recvAll_framed (ms : List (List Byte)) (cs : List (List Byte))
    (hms : ∀ m ∈ ms, WellFramed m) (hcs : cs.flatten = wire ms) :
    recvAll .fixed (ms.length + 1) [] (datas cs) = (ms.map (· ++ marker), .pending []) := by
  have := recvAll_eq_split (ms.length + 1) [] cs (by simp [hcs, split_wire ms hms])
  simpa [hcs, split_wire ms hms] using this

/-- **Promptness**: `recv` never blocks while a complete delimiter has already arrived. -/
theorem recv_prompt (buf : List Byte) (cs : List (List Byte)) (b : List Byte)
    (h : recv .fixed buf (datas cs) = .pending b) : find marker (buf ++ cs.flatten) = none := by
  rw [recv_eq_spec] at h
  rcases specRecv_datas cs buf with ⟨h1, _⟩ | ⟨i, cs', buf', _, h2, _, _⟩
  · exact h1
  · rw [h2] at h; cases h

/-- and the message is delivered using only the reads up to the one that completed the delimiter:
if the delimiter is complete after the first `k` reads, at most `k` reads are consumed. -/
theorem recv_minimal (buf : List Byte) (cs₁ cs₂ : List (List Byte)) (i : Nat)
    (h : find marker (buf ++ cs₁.flatten) = some i) :
    ∃ m buf' cs', recv .fixed buf (datas (cs₁ ++ cs₂)) = .msg m buf' (datas (cs' ++ cs₂)) := by
  rw [recv_eq_spec]
  induction cs₁ generalizing buf with
  | nil =>
    simp only [List.flatten_nil, List.append_nil] at h
    refine ⟨buf.take (i + 6), buf.drop (i + 6), [], ?_⟩
    cases cs₂ with
    | nil => simp [datas, specRecv, h, marker_length]
    | cons c cs => simp [datas, specRecv, h, marker_length]
  | cons c cs ih =>
    cases hf : find marker buf with
    | some j =>
      exact ⟨buf.take (j + 6), buf.drop (j + 6), c :: cs, by simp [datas, specRecv, hf, marker_length]⟩
    | none =>
      obtain ⟨m, buf', cs', h'⟩ := ih (buf ++ c) (by simpa using h)
      exact ⟨m, buf', cs', by simpa [datas, specRecv, hf] using h'⟩

/-- **C06 (SSH transport)**: starting from a buffer without a complete delimiter (the pump's
invariant; initially the buffer is empty), the pump enqueues exactly the greedy split of the
channel-data stream, whatever the packetisation, and keeps exactly the incomplete residue. -/
theorem pump_eq_split (buf : List Byte) (cs : List (List Byte)) (hbuf : find marker buf = none) :
    pump .fixed (cs.map .data) buf
      = ((split (buf ++ cs.flatten)).1, (split (buf ++ cs.flatten)).2, .running) := by
  induction cs generalizing buf with
  | nil =>
    simp only [List.map_nil, pump, List.flatten_nil, List.append_nil]
    rw [split_none _ hbuf]
  | cons c cs ih =>
    have h1 : pumpData .fixed buf c = split (buf ++ c) := by simp [pumpData, PumpCfg.fixed]
    simp only [List.map_cons, pump, h1, List.flatten_cons]
    rw [ih _ (split_residue (buf ++ c))]
    rw [← List.append_assoc, split_append (buf ++ c) cs.flatten]

/-- user-level form for the SSH pump -/
theorem pump_framed (ms : List (List Byte)) (cs : List (List Byte))
    (hms : ∀ m ∈ ms, WellFramed m) (hcs : cs.flatten = wire ms) :
    pump .fixed (cs.map .data) [] = (ms.map (· ++ marker), [], .running) := by
  have := pump_eq_split [] cs (by decide)
  simpa [hcs, split_wire ms hms] using this

/-- **Promptness (SSH)**: after every packet the pump's buffer holds no complete delimiter, i.e.
every message whose delimiter has arrived has already been enqueued. -/
theorem pump_prompt (buf : List Byte) (cs : List (List Byte)) (hbuf : find marker buf = none) :
    find marker (pump .fixed (cs.map .data) buf).2.1 = none := by
  rw [pump_eq_split buf cs hbuf]; exact split_residue _

/-- **Robustness of the repair**: any restart distance of at least `marker.length - 1` bytes (e.g.
the whole marker length) gives the same behaviour; only a smaller one — in particular 0, the pinned
snapshot — can miss a delimiter. -/
theorem recv_any_sufficient_back (back : Nat) (hb : marker.length - 1 ≤ back) (buf : List Byte) (reads : List Read) :
    recv { back := back, eofCheck := true } buf reads = recv .fixed buf reads := by
  unfold recv
  rw [recvLoop_eq_spec_back back hb reads 0 buf (by intro j hj; omega),
      recvLoop_eq_spec reads 0 buf (by intro j hj; omega)]

/-- a restart distance of 4 (one short) already misses a delimiter cut 5|1 -/
theorem recv_back_4_cex :
    recv { back := 4, eofCheck := true } [] (datas [[60, 97, 47, 62, 93, 93, 62, 93, 93], [62]])
      = .pending [60, 97, 47, 62, 93, 93, 62, 93, 93, 62] := by decide

/-! ### Non-vacuity and the pinned snapshot -/

/-- `<a/>` is well framed, `]]>` is not (EOM framing is inherently ambiguous for such bodies). -/
example : WellFramed [60, 97, 47, 62] ∧ ¬ WellFramed [93, 93, 62] := by decide

/-- a concrete instance of `recvAll_framed`: two messages, the first delimiter cut 3|3 -/
example : recvAll .fixed 3 [] (datas [[60, 97, 47, 62, 93, 93, 62], [93, 93, 62, 60, 98], [47, 62, 93, 93, 62, 93, 93, 62]])
    = ([[60, 97, 47, 62, 93, 93, 62, 93, 93, 62], [60, 98, 47, 62, 93, 93, 62, 93, 93, 62]], .pending []) := by decide

/-- The pinned loop (`searched = buf.len()`) misses a delimiter split across two reads:
the delimiter is complete in the buffer and `recv` blocks forever (defect D1). -/
theorem recv_straddle_cex :
    recv .pinned [] (datas [[60, 97, 47, 62, 93, 93, 62], [93, 93, 62]])
      = .pending [60, 97, 47, 62, 93, 93, 62, 93, 93, 62] := by decide

/-- The pinned SSH pump enqueues one message per packet: with two messages in one packet the
second stays in the buffer until more traffic arrives (defect D2). -/
theorem pump_two_in_one_cex :
    pump .pinned [.data (wire [[60, 97, 47, 62], [60, 98, 47, 62]])] []
      = ([[60, 97, 47, 62, 93, 93, 62, 93, 93, 62]], [60, 98, 47, 62, 93, 93, 62, 93, 93, 62], .running) := by decide

end Framing
