import Bgpfu.Lemmas.Framing
import Bgpfu.Lemmas.PumpQueue
/-!
# C06 — message boundaries do not depend on how the byte stream is segmented

Property theorems only (helper lemmas live in `Bgpfu.Lemmas.Framing`).
`Cfg.fixed` / `PumpCfg.fixed` are the loops as they are in /repo now (the correspondence run
checks that); `Cfg.pinned` / `PumpCfg.pinned` are the loops of the pinned snapshot.
-/
namespace Framing

/-- A message body is well framed if the first delimiter in `m ++ marker` is the appended one. -/
def WellFramed (m : List Byte) : Prop := find marker (m ++ marker) = some m.length

instance (m : List Byte) : Decidable (WellFramed m) := by unfold WellFramed; infer_instance

/-- the wire stream of a message sequence -/
def wire (ms : List (List Byte)) : List Byte := (ms.map (· ++ marker)).flatten

/-- **C06 (TLS / local CLI transports), main theorem.**
For every initial buffer and *every* way `cs` of cutting the rest of the stream into reads, repeated
`recv` calls return exactly the greedy split of the concatenated stream, in order, each once, and
then block with exactly the incomplete residue in the buffer. Nothing depends on `cs` except its
concatenation. -/
theorem recvAll_eq_split (fuel : Nat) (buf : List Byte) (cs : List (List Byte))
    (hfuel : (split (buf ++ cs.flatten)).1.length < fuel) :
    recvAll .fixed fuel buf (datas cs)
      = ((split (buf ++ cs.flatten)).1, .pending (split (buf ++ cs.flatten)).2) := by
  induction fuel generalizing buf cs with
  | zero => omega
  | succ n ih =>
    rw [recvAll, recv_eq_spec]
    rcases specRecv_datas cs buf with ⟨h1, h2⟩ | ⟨i, cs', buf', h1, h2, h3, _⟩
    · rw [h2, split_none _ h1]
    · rw [h2]
      simp only []
      rw [split_some _ i h1] at hfuel ⊢
      rw [← h3] at hfuel ⊢
      rw [ih buf' cs' (by simpa using hfuel)]

/-- Two segmentations of the same stream are indistinguishable. -/
theorem chunking_independent (fuel : Nat) (cs₁ cs₂ : List (List Byte))
    (h : cs₁.flatten = cs₂.flatten) (hfuel : (split cs₁.flatten).1.length < fuel) :
    recvAll .fixed fuel [] (datas cs₁) = recvAll .fixed fuel [] (datas cs₂) := by
  rw [recvAll_eq_split fuel [] cs₁ (by simpa using hfuel),
      recvAll_eq_split fuel [] cs₂ (by simpa [← h] using hfuel), h]

/-- The greedy split of the wire form of well-framed messages is those messages. -/
theorem split_wire (ms : List (List Byte)) (h : ∀ m ∈ ms, WellFramed m) :
    split (wire ms) = (ms.map (· ++ marker), []) := by
  induction ms with
  | nil => simp [wire, split_none, find, marker]
  | cons m ms ih =>
    have hm : WellFramed m := h m (by simp)
    have hw : wire (m :: ms) = (m ++ marker) ++ wire ms := by simp [wire]
    have hf : find marker (wire (m :: ms)) = some m.length := by
      rw [hw]; exact find_append_some _ _ _ _ marker_ne_nil hm
    rw [split_some _ _ hf, hw]
    have e1 : ((m ++ marker) ++ wire ms).take (m.length + 6) = m ++ marker := by
      rw [List.take_append_of_le_length (by simp [marker_length])]
      rw [List.take_of_length_le (by simp [marker_length])]
    have e2 : ((m ++ marker) ++ wire ms).drop (m.length + 6) = wire ms := by
      rw [List.drop_append_of_le_length (by simp [marker_length])]
      rw [List.drop_of_length_le (by simp [marker_length])]
      simp
    rw [e1, e2, ih (fun x hx => h x (by simp [hx]))]
    simp

/-- **C06, user-level statement**: the peer sends well-framed messages `ms`; however the stream is
cut into reads, the session layer receives exactly `ms` (with their delimiters), each once, in
order, and is then blocked with an empty buffer. -/
theorem recvAll_framed (ms : List (List Byte)) (cs : List (List Byte))
    (hms : ∀ m ∈ ms, WellFramed m) (hcs : cs.flatten = wire ms) :
    recvAll .fixed (ms.length + 1) [] (datas cs) = (ms.map (· ++ marker), .pending []) := by
  have := recvAll_eq_split (ms.length + 1) [] cs (by simp [hcs, split_wire ms hms])
  simpa [hcs, split_wire ms hms] using this

/-- **Promptness**: `recv` never blocks while a complete delimiter has already arrived. -/
theorem recv_prompt (buf : List Byte) (cs : List (List Byte)) (b : List Byte)
    (h : recv .fixed buf (datas cs) = .pending b) : find marker (buf ++ cs.flatten) = none := by
  rw [recv_eq_spec] at h
  rcases specRecv_datas cs buf with ⟨h1, _⟩ | ⟨i, cs', buf', _, h2, _, _⟩
  · exact h1
  · rw [h2] at h; cases h

/-- and the message is delivered using only the reads up to the one that completed the delimiter:
if the delimiter is complete after the first `k` reads, at most `k` reads are consumed. -/
theorem recv_minimal (buf : List Byte) (cs₁ cs₂ : List (List Byte)) (i : Nat)
    (h : find marker (buf ++ cs₁.flatten) = some i) :
    ∃ m buf' cs', recv .fixed buf (datas (cs₁ ++ cs₂)) = .msg m buf' (datas (cs' ++ cs₂)) := by
  rw [recv_eq_spec]
  induction cs₁ generalizing buf with
  | nil =>
    simp only [List.flatten_nil, List.append_nil] at h
    refine ⟨buf.take (i + 6), buf.drop (i + 6), [], ?_⟩
    cases cs₂ with
    | nil => simp [datas, specRecv, h, marker_length]
    | cons c cs => simp [datas, specRecv, h, marker_length]
  | cons c cs ih =>
    cases hf : find marker buf with
    | some j =>
      exact ⟨buf.take (j + 6), buf.drop (j + 6), c :: cs, by simp [datas, specRecv, hf, marker_length]⟩
    | none =>
      obtain ⟨m, buf', cs', h'⟩ := ih (buf ++ c) (by simpa using h)
      exact ⟨m, buf', cs', by simpa [datas, specRecv, hf] using h'⟩

/-- **C06 (SSH transport)**: starting from a buffer without a complete delimiter (the pump's
invariant; initially the buffer is empty), the pump enqueues exactly the greedy split of the
channel-data stream, whatever the packetisation, and keeps exactly the incomplete residue. -/
theorem pump_eq_split (buf : List Byte) (cs : List (List Byte)) (hbuf : find marker buf = none) :
    pump .fixed (cs.map .data) buf
      = ((split (buf ++ cs.flatten)).1, (split (buf ++ cs.flatten)).2, .running) := by
  induction cs generalizing buf with
  | nil =>
    simp only [List.map_nil, pump, List.flatten_nil, List.append_nil]
    rw [split_none _ hbuf]
  | cons c cs ih =>
    have h1 : pumpData .fixed buf c = split (buf ++ c) := by simp [pumpData, PumpCfg.fixed]
    simp only [List.map_cons, pump, h1, List.flatten_cons]
    rw [ih _ (split_residue (buf ++ c))]
    rw [← List.append_assoc, split_append (buf ++ c) cs.flatten]

/-- user-level form for the SSH pump -/
theorem pump_framed (ms : List (List Byte)) (cs : List (List Byte))
    (hms : ∀ m ∈ ms, WellFramed m) (hcs : cs.flatten = wire ms) :
    pump .fixed (cs.map .data) [] = (ms.map (· ++ marker), [], .running) := by
  have := pump_eq_split [] cs (by decide)
  simpa [hcs, split_wire ms hms] using this

/-- **Promptness (SSH)**: after every packet the pump's buffer holds no complete delimiter, i.e.
every message whose delimiter has arrived has already been enqueued. -/
theorem pump_prompt (buf : List Byte) (cs : List (List Byte)) (hbuf : find marker buf = none) :
    find marker (pump .fixed (cs.map .data) buf).2.1 = none := by
  rw [pump_eq_split buf cs hbuf]; exact split_residue _

/-- **Robustness of the repair**: any restart distance of at least `marker.length - 1` bytes (e.g.
the whole marker length) gives the same behaviour; only a smaller one — in particular 0, the pinned
snapshot — can miss a delimiter. -/
theorem recv_any_sufficient_back (back : Nat) (hb : marker.length - 1 ≤ back) (buf : List Byte) (reads : List Read) :
    recv { back := back, eofCheck := true } buf reads = recv .fixed buf reads := by
  unfold recv
  rw [recvLoop_eq_spec_back back hb reads 0 buf (by intro j hj; omega),
      recvLoop_eq_spec reads 0 buf (by intro j hj; omega)]

/-- a restart distance of 4 (one short) already misses a delimiter cut 5|1 -/
theorem recv_back_4_cex :
    recv { back := 4, eofCheck := true } [] (datas [[60, 97, 47, 62, 93, 93, 62, 93, 93], [62]])
      = .pending [60, 97, 47, 62, 93, 93, 62, 93, 93, 62] := by decide

/-! ### Non-vacuity and the pinned snapshot -/

/-- `<a/>` is well framed, `]]>` is not (EOM framing is inherently ambiguous for such bodies). -/
example : WellFramed [60, 97, 47, 62] ∧ ¬ WellFramed [93, 93, 62] := by decide

/-- a concrete instance of `recvAll_framed`: two messages, the first delimiter cut 3|3 -/
example : recvAll .fixed 3 [] (datas [[60, 97, 47, 62, 93, 93, 62], [93, 93, 62, 60, 98], [47, 62, 93, 93, 62, 93, 93, 62]])
    = ([[60, 97, 47, 62, 93, 93, 62, 93, 93, 62], [60, 98, 47, 62, 93, 93, 62, 93, 93, 62]], .pending []) := by decide

/-- The pinned loop (`searched = buf.len()`) misses a delimiter split across two reads:
the delimiter is complete in the buffer and `recv` blocks forever (defect D1). -/
theorem recv_straddle_cex :
    recv .pinned [] (datas [[60, 97, 47, 62, 93, 93, 62], [93, 93, 62]])
      = .pending [60, 97, 47, 62, 93, 93, 62, 93, 93, 62] := by decide

/-- The pinned SSH pump enqueues one message per packet: with two messages in one packet the
second stays in the buffer until more traffic arrives (defect D2). -/
theorem pump_two_in_one_cex :
    pump .pinned [.data (wire [[60, 97, 47, 62], [60, 98, 47, 62]])] []
      = ([[60, 97, 47, 62, 93, 93, 62, 93, 93, 62]], [60, 98, 47, 62, 93, 93, 62, 93, 93, 62], .running) := by decide

/-! ## The SSH pump and its *bounded* queue (`mpsc::channel(32)`, ssh.rs:59,95)

`pump` above is the pump with an unbounded queue. The small-step model `PQ` (Model/Framing.lean) adds
the queue capacity, the suspended `send(..).await` and the consumer. Reachable states are
`PQ.run true cap acts (PQ.init evs)` for an arbitrary interleaving `acts` of pump polls and `recv()` calls. -/

/-- **Bounded queue, safety.** In every reachable state, for every capacity and every interleaving:
the queue never exceeds its capacity, and *delivered ++ queued ++ split-off-but-not-yet-enqueued* is a
prefix of the output of the unbounded pump — same messages, same order, each at one place (the
concatenation is a prefix, so nothing is duplicated or reordered) — and what is missing is exactly what
the unbounded pump would still produce from the unprocessed events (nothing is dropped). -/
theorem pumpq_safety (cap : Nat) (evs : List ChanEv) (acts : List PQAct) :
    let s := PQ.run true cap acts (PQ.init evs)
    s.delivered ++ s.queue ++ s.todo <+: (pump .fixed evs []).1 ∧
    s.queue.length ≤ cap ∧
    s.delivered ++ s.queue ++ s.todo ++ (pump .fixed s.evs s.buf).1 = (pump .fixed evs []).1 := by
  intro s
  have h : s.Inv (pump .fixed evs []).1 cap := PQ.run_inv acts (PQ.init_inv evs cap)
  exact ⟨⟨_, h.1⟩, h.2, h.1⟩

/-- **Bounded queue, liveness (general fairness).** From every reachable state (after any `acts`), any
continuation that consists of at least
`pending events + 2 * (messages of the unbounded pump not yet delivered)` *rounds* — a round is any
stretch of the schedule in which the pump is polled at least once and `recv()` is called at least once, in
any order, any number of times — ends with every message of the unbounded pump delivered, in order,
nothing left in the queue or in the pump, and the pump in the final status of the unbounded pump.
Needs `cap ≥ 1` only. No assumption on the events: if they contain `eof`/`closed`, `(pump .fixed evs []).1`
is the messages completed before it (`pump_data_then_end`, `pumpq_delivers_before_eof`). -/
theorem pumpq_liveness (cap : Nat) (hcap : 1 ≤ cap) (evs : List ChanEv) (acts : List PQAct)
    (rounds : List (List PQAct)) (hfair : ∀ r ∈ rounds, PQAct.pump ∈ r ∧ PQAct.consume ∈ r)
    (hlen : (PQ.run true cap acts (PQ.init evs)).evs.length +
        2 * ((pump .fixed evs []).1.length - (PQ.run true cap acts (PQ.init evs)).delivered.length) ≤ rounds.length) :
    let s' := PQ.run true cap (acts ++ rounds.flatten) (PQ.init evs)
    s'.delivered = (pump .fixed evs []).1 ∧ s'.queue = [] ∧ s'.todo = [] ∧ s'.evs = [] ∧
    s'.st = (pump .fixed evs []).2.2 := by
  intro s'
  have hs : s' = PQ.run true cap rounds.flatten (PQ.run true cap acts (PQ.init evs)) := PQ.run_append ..
  have hinv : (PQ.run true cap acts (PQ.init evs)).Inv (pump .fixed evs []).1 cap :=
    PQ.run_inv acts (PQ.init_inv evs cap)
  have hinv' : s'.Inv (pump .fixed evs []).1 cap := PQ.run_inv _ (PQ.init_inv evs cap)
  have hst : s'.StInv (pump .fixed evs []).2.2 := PQ.run_stInv _ (PQ.init_stInv evs)
  have hw := PQ.rounds_work hcap rounds (PQ.run true cap acts (PQ.init evs)) hfair
  have hb := PQ.work_le_of_inv hinv
  rw [← hs] at hw
  obtain ⟨h1, h2, h3, h4⟩ := PQ.done_of_work_zero (s := s') (by omega)
  refine ⟨?_, h3, h2, h1, PQ.st_of_done hst h1⟩
  have := hinv'.1
  rw [h2, h3, h4] at this
  simpa using this

/-- **Bounded queue, liveness (explicit schedule and bound).** From the reachable state after `acts`,
the round-robin schedule pump, consume, pump, consume, … of `2 * n` steps, for any
`n ≥ pending events + 2 * undelivered messages`, delivers everything. -/
theorem pumpq_liveness_round_robin (cap : Nat) (hcap : 1 ≤ cap) (evs : List ChanEv) (acts : List PQAct) (n : Nat)
    (hn : (PQ.run true cap acts (PQ.init evs)).evs.length +
        2 * ((pump .fixed evs []).1.length - (PQ.run true cap acts (PQ.init evs)).delivered.length) ≤ n) :
    let s' := PQ.run true cap (acts ++ roundRobin n) (PQ.init evs)
    (roundRobin n).length = 2 * n ∧
    s'.delivered = (pump .fixed evs []).1 ∧ s'.queue = [] ∧ s'.todo = [] ∧ s'.evs = [] ∧
    s'.st = (pump .fixed evs []).2.2 := by
  intro s'
  refine ⟨roundRobin_length n, ?_⟩
  have := pumpq_liveness cap hcap evs acts (List.replicate n [PQAct.pump, PQAct.consume])
    (by intro r hr; rw [List.eq_of_mem_replicate hr]; simp) (by simpa using hn)
  rw [← roundRobin_eq] at this
  exact this

/-- **user-level form, channel stays open**: the peer sends well-framed messages `ms`, packetised in any
way `cs`; with any queue capacity `≥ 1`, after `cs.length + 2 * ms.length` rounds of any fair schedule the
session has received exactly `ms` (with delimiters), each once, in order; the pump is running and idle. -/
theorem pumpq_delivers_framed (cap : Nat) (hcap : 1 ≤ cap) (ms : List (List Byte)) (cs : List (List Byte))
    (hms : ∀ m ∈ ms, WellFramed m) (hcs : cs.flatten = wire ms)
    (rounds : List (List PQAct)) (hfair : ∀ r ∈ rounds, PQAct.pump ∈ r ∧ PQAct.consume ∈ r)
    (hlen : cs.length + 2 * ms.length ≤ rounds.length) :
    let s' := PQ.run true cap rounds.flatten (PQ.init (cs.map .data))
    s'.delivered = ms.map (· ++ marker) ∧ s'.queue = [] ∧ s'.todo = [] ∧ s'.evs = [] ∧ s'.st = .running := by
  have hp := pump_framed ms cs hms hcs
  have := pumpq_liveness cap hcap (cs.map .data) [] rounds hfair (by simpa [PQ.run, PQ.init, hp] using hlen)
  simpa [hp] using this

/-- **what happens at `eof` / channel closure**: the messages completed by the data before it are all
delivered (they were enqueued before the pump exited, and a closed `mpsc` queue still hands out what it
holds); the pump ends `exited`, so the next `recv()` finds the queue empty and closed
(`Err(DequeueMessage)`); events after the end are never looked at. -/
theorem pumpq_delivers_before_eof (cap : Nat) (hcap : 1 ≤ cap) (cs : List (List Byte)) (e : ChanEv) (post : List ChanEv)
    (he : e = .eof ∨ e = .closed)
    (rounds : List (List PQAct)) (hfair : ∀ r ∈ rounds, PQAct.pump ∈ r ∧ PQAct.consume ∈ r)
    (hlen : (cs.length + 1 + post.length) + 2 * (split cs.flatten).1.length ≤ rounds.length) :
    let s' := PQ.run true cap rounds.flatten (PQ.init (cs.map .data ++ e :: post))
    s'.delivered = (split cs.flatten).1 ∧ s'.queue = [] ∧ s'.todo = [] ∧ s'.evs = [] ∧ s'.st = .exited := by
  have hp := pump_data_then_end cs e post [] (by decide) he
  simp only [List.nil_append] at hp
  have := pumpq_liveness cap hcap (cs.map .data ++ e :: post) [] rounds hfair
    (by simp only [PQ.run, PQ.init, hp.1, List.length_append, List.length_map, List.length_cons, List.length_nil]; omega)
  simpa [hp.1, hp.2] using this

/-! ### Non-vacuity, and the variant that does not wait for room in the queue -/

/-- capacity 1, one packet completing three messages `<a/>`, `<b/>`, `<c/>`: after three polls of the pump the
queue is full and the pump is suspended in `send` with two messages in hand (back-pressure, nothing lost);
six fair rounds later all three have been delivered in order. -/
example :
    let evs := [ChanEv.data (wire [[60, 97, 47, 62], [60, 98, 47, 62], [60, 99, 47, 62]])]
    let s := PQ.run true 1 [.pump, .pump, .pump] (PQ.init evs)
    let s' := PQ.run true 1 ([.pump, .pump, .pump] ++ roundRobin 6) (PQ.init evs)
    s.queue = [[60, 97, 47, 62, 93, 93, 62, 93, 93, 62]] ∧
    s.todo = [[60, 98, 47, 62, 93, 93, 62, 93, 93, 62], [60, 99, 47, 62, 93, 93, 62, 93, 93, 62]] ∧
    s.delivered = [] ∧
    s'.delivered = [[60, 97, 47, 62, 93, 93, 62, 93, 93, 62], [60, 98, 47, 62, 93, 93, 62, 93, 93, 62],
                    [60, 99, 47, 62, 93, 93, 62, 93, 93, 62]] ∧
    s'.queue = [] ∧ s'.todo = [] ∧ s'.st = .running := by decide

/-- the same schedule as in `pumpq_nowait_cex`, with the code as it is (it waits): all three delivered -/
example :
    (PQ.run true 2 ([.pump, .pump, .pump, .pump] ++ roundRobin 8)
      (PQ.init [.data (wire [[60, 97, 47, 62], [60, 98, 47, 62], [60, 99, 47, 62]])])).delivered
    = [[60, 97, 47, 62, 93, 93, 62, 93, 93, 62], [60, 98, 47, 62, 93, 93, 62, 93, 93, 62],
       [60, 99, 47, 62, 93, 93, 62, 93, 93, 62]] := by decide

/-- **The variant that leaves the enqueue loop when the queue is full** (`try_reserve` + `break` instead of
`send(..).await`; it resumes only on the next `ChannelMsg::Data`): capacity 2, one packet with three
messages, then silence. The pump is polled before the consumer gets to run (4 polls), then the schedule
is fair for as long as one likes (here 8 rounds): the third message stays in `in_buf`, complete, and is
never delivered. -/
theorem pumpq_nowait_cex :
    let s := PQ.run false 2 ([.pump, .pump, .pump, .pump] ++ roundRobin 8)
      (PQ.init [.data (wire [[60, 97, 47, 62], [60, 98, 47, 62], [60, 99, 47, 62]])])
    s.delivered = [[60, 97, 47, 62, 93, 93, 62, 93, 93, 62], [60, 98, 47, 62, 93, 93, 62, 93, 93, 62]] ∧
    s.queue = [] ∧ s.todo = [] ∧ s.evs = [] ∧ s.st = .running ∧
    s.buf = [60, 99, 47, 62, 93, 93, 62, 93, 93, 62] := by decide

/-- … and not only for 8 rounds: after those 4 polls *no* continuation whatsoever delivers the third
message (the consumer only ever sees the first two), and it stays in the buffer. -/
theorem pumpq_nowait_stranded (acts : List PQAct) :
    let s := PQ.run false 2 ([.pump, .pump, .pump, .pump] ++ acts)
      (PQ.init [.data (wire [[60, 97, 47, 62], [60, 98, 47, 62], [60, 99, 47, 62]])])
    s.delivered ++ s.queue = [[60, 97, 47, 62, 93, 93, 62, 93, 93, 62], [60, 98, 47, 62, 93, 93, 62, 93, 93, 62]] ∧
    s.buf = [60, 99, 47, 62, 93, 93, 62, 93, 93, 62] := by
  intro s
  have hs : s = PQ.run false 2 acts (PQ.run false 2 [.pump, .pump, .pump, .pump]
      (PQ.init [.data (wire [[60, 97, 47, 62], [60, 98, 47, 62], [60, 99, 47, 62]])])) := PQ.run_append ..
  have h0 : PQ.run false 2 [.pump, .pump, .pump, .pump]
      (PQ.init [.data (wire [[60, 97, 47, 62], [60, 98, 47, 62], [60, 99, 47, 62]])])
      = { evs := [], buf := [60, 99, 47, 62, 93, 93, 62, 93, 93, 62], todo := [],
          queue := [[60, 97, 47, 62, 93, 93, 62, 93, 93, 62], [60, 98, 47, 62, 93, 93, 62, 93, 93, 62]],
          delivered := [], st := .running } := by decide
  rw [h0] at hs
  rw [hs]
  refine And.symm (PQ.stuck_run false 2 acts
    { evs := [], buf := [60, 99, 47, 62, 93, 93, 62, 93, 93, 62], todo := [],
      queue := [[60, 97, 47, 62, 93, 93, 62, 93, 93, 62], [60, 98, 47, 62, 93, 93, 62, 93, 93, 62]],
      delivered := [], st := .running } rfl rfl)

/-! ### channel messages that are not data are invisible

RFC 4254 orders `exit-status`, window adjustments and extended data (stderr) in no way relative to the
data packets of a channel; only EOF and CLOSE end the byte stream. The SSH pump ignores them
(`ChanEv.other`), wherever they are interleaved. -/

/-- removing the non-data messages from a channel history -/
def dropOther : List ChanEv → List ChanEv
  | [] => []
  | .other :: evs => dropOther evs
  | e :: evs => e :: dropOther evs

/-- **any** interleaving of non-data channel messages (exit-status before the last data packets,
stderr in the middle of a message, …) leaves the delivered messages, the buffer and the end state of
the pump exactly as they are without them — for every configuration, history and initial buffer -/
theorem pump_other_invisible (c : PumpCfg) (evs : List ChanEv) (buf : List Byte) :
    pump c evs buf = pump c (dropOther evs) buf := by
  induction evs generalizing buf with
  | nil => rfl
  | cons e evs ih =>
    cases e with
    | data bs => simp only [pump, dropOther]; rw [ih]
    | eof => simp [pump, dropOther]
    | other => simp only [pump, dropOther]; exact ih buf
    | closed => simp [pump, dropOther]

/-- a pump that treated `exit-status` like EOF (hung up on it) loses what follows: here the second of
two pipelined replies, although the server sent it before EOF -/
theorem exit_status_as_eof_cex :
    (pump .fixed [.data (wire [[60, 97, 47, 62]]), .other, .data (wire [[60, 98, 47, 62]]), .eof] []).1
      = [[60, 97, 47, 62, 93, 93, 62, 93, 93, 62], [60, 98, 47, 62, 93, 93, 62, 93, 93, 62]]
    ∧ (pump .fixed [.data (wire [[60, 97, 47, 62]]), .eof, .data (wire [[60, 98, 47, 62]]), .eof] []).1
      = [[60, 97, 47, 62, 93, 93, 62, 93, 93, 62]] := by decide

end Framing
