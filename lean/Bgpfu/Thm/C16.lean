import Bgpfu.Lemmas.Fetch
import Bgpfu.Lemmas.FetchTotal
/-!
# C16 — exactly the active, annotated, default-reject policy statements are managed

The theorems quantify over **all configurations of the grammar** `Bgpfu.Spec.ConfigGrammar`: any
number and mix of statements; per statement any attribute list (any order, duplicates, unrelated
attributes such as the duplicate `xmlns:jcmd` Junos emits, any number of `jcmd:active` /
`jcmd:comment` attributes with any values) and any body (names, `then` elements with arbitrary
children, other elements with arbitrary inert content, empty elements, text, CDATA, comments, in
any order and number); comments between the elements of every level; any qualified names; and over
**all oracles** `parseExpr` (the rpsl parser) and `unescape` (quick-xml). `readCandidates c` is the
event-level model of `Policies<Candidate>::read_xml` (`Model/Fetch.lean`): `.fixed` with the
proposed repair (other content skips the statement; `<then>` accepted once), `.pinned` as the code
is in /repo now. `select` is the specification (`Spec/ConfigGrammar.lean`).

A statement whose `bgpfu-fltr:` expression does not parse is *managed but never evaluated*
(`FExpr.malformed`, the C03 repair): it is selected with the raw text, so that its installed
policy is left alone; the expressions handed to the evaluator are exactly the parseable ones
(`parsed_iff_parseable`).
-/
namespace Xml

instance {ε α} [DecidableEq ε] [DecidableEq α] : DecidableEq (Except ε α)
  | .ok a, .ok b => if h : a = b then isTrue (by rw [h]) else isFalse (fun h' => h (by cases h'; rfl))
  | .error a, .error b => if h : a = b then isTrue (by rw [h]) else isFalse (fun h' => h (by cases h'; rfl))
  | .ok _, .error _ => isFalse (fun h => by cases h)
  | .error _, .ok _ => isFalse (fun h => by cases h)

/-- **Refinement**: on every configuration of the grammar the event-level reader (either variant)
computes its child-level semantics. -/
theorem readCandidates_refines (c : FCfg) (parseExpr unescape : String → Option String) (cfg : Config)
    (hwf : cfg.WF unescape) (dataRaw : String) (rest : List Ev) :
    readCandidates c parseExpr unescape dataRaw (cfg.render dataRaw ++ rest)
      = poAbs (stmtAbs c parseExpr unescape) [] cfg.items := by
  unfold readCandidates
  apply policiesLoop_render (readCandidate c parseExpr unescape) (stmtAbs c parseExpr unescape) cfg
  · intro s hs fuel tail hf
    exact readCandidate_refines c parseExpr unescape s (hwf s hs) fuel tail hf
  · simp

/-- **C16, main statement.** For every configuration of the grammar, every attribute order and
duplication, every oracle: the repaired reader returns exactly the specified selection — the
managed (name, expression) pairs in document order, or the duplicate-name error. -/
theorem candidates_eq_select (parseExpr unescape : String → Option String) (cfg : Config)
    (hwf : cfg.WF unescape) (dataRaw : String) (rest : List Ev) :
    readCandidates .fixed parseExpr unescape dataRaw (cfg.render dataRaw ++ rest)
      = select parseExpr unescape cfg := by
  rw [readCandidates_refines .fixed parseExpr unescape cfg hwf]
  rw [poAbs_ok _ (Stmt.selected parseExpr unescape) cfg.items
    (fun s hs => stmtAbs_fixed parseExpr unescape s (hwf s hs))]
  rw [addAll_nil]
  rfl

/-- no annotated active statement has other content -/
def NoOtherContent (cfg : Config) : Prop :=
  ∀ s ∈ cfg.stmts, s.inactive = false → s.annotation.isSome → s.plain = true

/-- **C16 for the code as it is in /repo (restricted).** Full statement (false, see the two `_cex`
below): `∀ cfg, cfg.WF unescape → readCandidates .pinned … (cfg.render …) = select … cfg`.
Proved: the same under the hypothesis that no annotated active statement has other content
(anything but one name, one `then` holding only `<reject/>`, comments). -/
theorem candidates_eq_select_pinned_partial (parseExpr unescape : String → Option String) (cfg : Config)
    (hwf : cfg.WF unescape) (hplain : NoOtherContent cfg) (dataRaw : String) (rest : List Ev) :
    readCandidates .pinned parseExpr unescape dataRaw (cfg.render dataRaw ++ rest)
      = select parseExpr unescape cfg := by
  rw [← candidates_eq_select parseExpr unescape cfg hwf dataRaw rest,
    readCandidates_refines .pinned parseExpr unescape cfg hwf, readCandidates_refines .fixed parseExpr unescape cfg hwf]
  exact poAbs_congr _ _ cfg.items (fun s hs => stmtAbs_pinned_plain parseExpr unescape s (hplain s hs)) []

/-! ### consequences of the main statement -/

theorem mem_bodyNames (bs : List BodyItem) (span : String) (h : span ∈ bodyNames bs) :
    ∃ raw attrs inner, BodyItem.name raw attrs span inner ∈ bs := by
  induction bs with
  | nil => simp [bodyNames] at h
  | cons b bs ih =>
    rw [bodyNames_cons] at h
    cases b with
    | name r a sp i =>
      simp only [List.cons_append, List.nil_append, List.mem_cons] at h
      rcases h with rfl | h
      · exact ⟨r, a, i, by simp⟩
      · obtain ⟨r', a', i', hm⟩ := ih h; exact ⟨r', a', i', by simp [hm]⟩
    | _ =>
      simp only [List.nil_append] at h
      obtain ⟨r', a', i', hm⟩ := ih h; exact ⟨r', a', i', by simp [hm]⟩

/-- what it means for `(n, e)` to be selected from statement `s` -/
structure SelectedFrom (parseExpr unescape : String → Option String) (s : Stmt) (n : String) (e : FExpr) : Prop where
  active : s.inactive = false
  defaultReject : s.defaultReject = true
  /-- the name is the unescaped text of the statement's `<name>` element -/
  name : ∃ raw attrs span inner, BodyItem.name raw attrs span inner ∈ s.body ∧ s.names = [span] ∧ unescape span = some n
  /-- the expression is the parser's verdict on exactly the annotation text of the statement's last
  annotation attribute, after decoration stripping -/
  expr : ∃ a ∈ s.attrs, ∃ v raw, a.isComment = true ∧ a.value = some v ∧ annotationRaw v = some raw ∧
    s.annotation = some raw ∧ e = toFExpr parseExpr raw

theorem selected_some (parseExpr unescape : String → Option String) (s : Stmt) (n : String) (e : FExpr)
    (h : s.selected parseExpr unescape = some (n, e)) : SelectedFrom parseExpr unescape s n e := by
  unfold Stmt.selected at h
  cases hi : s.inactive with
  | true => simp [hi] at h
  | false =>
    simp only [hi, Bool.false_eq_true, if_false] at h
    cases ha : s.annotation with
    | none => simp [ha] at h
    | some raw =>
      simp only [ha] at h
      cases hd : s.defaultReject with
      | false => simp [hd] at h
      | true =>
        simp only [hd, if_true, Option.map_eq_some_iff, Prod.mk.injEq] at h
        obtain ⟨n', hn', rfl, rfl⟩ := h
        have hlen : s.names.length = 1 := by
          simp only [Stmt.defaultReject, Bool.and_eq_true, beq_iff_eq] at hd
          exact hd.1.2
        obtain ⟨span, hspan⟩ : ∃ span, s.names = [span] := by
          cases hh : s.names with
          | nil => simp [hh] at hlen
          | cons x xs => cases xs with
            | nil => exact ⟨x, rfl⟩
            | cons y ys => simp [hh] at hlen
        have hu : unescape span = some n' := by simpa [hspan] using hn'
        obtain ⟨r, a, i, hm⟩ := mem_bodyNames s.body span (by
          have : span ∈ s.names := by simp [hspan]
          exact this)
        refine ⟨hi, hd, ⟨r, a, span, i, hm, hspan, hu⟩, ?_⟩
        have hmem : raw ∈ s.annotations := List.mem_of_getLast? ha
        simp only [Stmt.annotations, List.mem_filterMap] at hmem
        obtain ⟨at', hat, hv⟩ := hmem
        by_cases hc : at'.isComment = true
        · simp only [hc, if_true] at hv
          cases hval : at'.value with
          | none => simp [hval] at hv
          | some v =>
            simp only [hval, Option.bind_some] at hv
            exact ⟨at', hat, v, raw, hc, hval, hv, ha, rfl⟩
        · simp [hc] at hv

/-- **Names and expressions are exactly those in the configuration**: every pair returned by the
repaired reader comes from an active, default-reject statement of the configuration; its name is
the unescaped text of that statement's only `<name>` element, its expression is `parseExpr` applied
to exactly the annotation text (after decoration stripping) of the statement's last annotation. -/
theorem names_exprs_exact (parseExpr unescape : String → Option String) (cfg : Config)
    (hwf : cfg.WF unescape) (dataRaw : String) (rest : List Ev) (l : List (String × FExpr))
    (h : readCandidates .fixed parseExpr unescape dataRaw (cfg.render dataRaw ++ rest) = .ok l)
    (n : String) (e : FExpr) (hm : (n, e) ∈ l) :
    ∃ s ∈ cfg.stmts, SelectedFrom parseExpr unescape s n e := by
  rw [candidates_eq_select parseExpr unescape cfg hwf] at h
  unfold select at h
  simp only [] at h
  split at h
  · simp only [Except.ok.injEq] at h
    subst h
    obtain ⟨s, hs, hsel⟩ := List.mem_filterMap.mp hm
    exact ⟨s, hs, selected_some parseExpr unescape s n e hsel⟩
  · cases h

/-- **Nothing is missed**: a successful read contains the pair of every statement `select` manages. -/
theorem every_managed_selected (parseExpr unescape : String → Option String) (cfg : Config)
    (hwf : cfg.WF unescape) (dataRaw : String) (rest : List Ev) (l : List (String × FExpr))
    (h : readCandidates .fixed parseExpr unescape dataRaw (cfg.render dataRaw ++ rest) = .ok l)
    (s : Stmt) (hs : s ∈ cfg.stmts) (x : String × FExpr) (hx : s.selected parseExpr unescape = some x) : x ∈ l := by
  rw [candidates_eq_select parseExpr unescape cfg hwf] at h
  unfold select at h
  simp only [] at h
  split at h
  · simp only [Except.ok.injEq] at h
    subst h
    exact List.mem_filterMap.mpr ⟨s, hs, hx⟩
  · cases h

/-- the expression handed to the evaluator is a parsed one iff the annotation text parses -/
theorem parsed_iff_parseable (parseExpr : String → Option String) (raw d : String) :
    toFExpr parseExpr raw = .parsed d ↔ parseExpr raw = some d := by
  unfold toFExpr
  cases parseExpr raw <;> simp

/-- a statement that is not selected does not influence the result at all -/
theorem unselected_irrelevant (parseExpr unescape : String → Option String) (cfg : Config)
    (pre post : List PoItem) (s : Stmt) (hitems : cfg.items = pre ++ .stmt s :: post)
    (hwf : cfg.WF unescape) (hsel : s.selected parseExpr unescape = none) (dataRaw : String) (rest : List Ev) :
    readCandidates .fixed parseExpr unescape dataRaw (cfg.render dataRaw ++ rest)
      = readCandidates .fixed parseExpr unescape dataRaw ({ cfg with items := pre ++ post }.render dataRaw ++ rest) := by
  have hst : cfg.stmts = stmtsOf pre ++ s :: stmtsOf post := by simp [Config.stmts, hitems, stmtsOf]
  have hwf' : ({ cfg with items := pre ++ post } : Config).WF unescape := by
    intro x hx
    apply hwf x
    have : x ∈ stmtsOf pre ++ stmtsOf post := by simpa [Config.stmts, stmtsOf] using hx
    rw [hst]
    rcases List.mem_append.mp this with h | h
    · exact List.mem_append.mpr (Or.inl h)
    · exact List.mem_append.mpr (Or.inr (List.mem_cons_of_mem _ h))
  rw [candidates_eq_select parseExpr unescape cfg hwf, candidates_eq_select parseExpr unescape _ hwf']
  have : ({ cfg with items := pre ++ post } : Config).stmts = stmtsOf pre ++ stmtsOf post := by
    simp [Config.stmts, stmtsOf]
  simp only [select, hst, this, List.filterMap_append, List.filterMap_cons, hsel]

/-- **Inactive statements are never selected**: whatever else its attributes (in whatever order) and
its body are, a statement with a `jcmd:active="false"` attribute is not managed and does not change
the result. -/
theorem inactive_never_selected (parseExpr unescape : String → Option String) (cfg : Config)
    (pre post : List PoItem) (s : Stmt) (hitems : cfg.items = pre ++ .stmt s :: post)
    (hwf : cfg.WF unescape) (hin : s.inactive = true) (dataRaw : String) (rest : List Ev) :
    readCandidates .fixed parseExpr unescape dataRaw (cfg.render dataRaw ++ rest)
      = readCandidates .fixed parseExpr unescape dataRaw ({ cfg with items := pre ++ post }.render dataRaw ++ rest) :=
  unselected_irrelevant parseExpr unescape cfg pre post s hitems hwf (by simp [Stmt.selected, hin]) dataRaw rest

/-- **Statements without the annotation are never selected.** -/
theorem unannotated_never_selected (parseExpr unescape : String → Option String) (cfg : Config)
    (pre post : List PoItem) (s : Stmt) (hitems : cfg.items = pre ++ .stmt s :: post)
    (hwf : cfg.WF unescape) (hann : s.annotation = none) (dataRaw : String) (rest : List Ev) :
    readCandidates .fixed parseExpr unescape dataRaw (cfg.render dataRaw ++ rest)
      = readCandidates .fixed parseExpr unescape dataRaw ({ cfg with items := pre ++ post }.render dataRaw ++ rest) :=
  unselected_irrelevant parseExpr unescape cfg pre post s hitems hwf
    (by unfold Stmt.selected; split <;> simp [hann]) dataRaw rest

/-- **Statements with other content are never selected** — and, with the repair, do not disturb the
selection of the other statements. -/
theorem other_content_never_selected (parseExpr unescape : String → Option String) (cfg : Config)
    (pre post : List PoItem) (s : Stmt) (hitems : cfg.items = pre ++ .stmt s :: post)
    (hwf : cfg.WF unescape) (hother : s.defaultReject = false) (dataRaw : String) (rest : List Ev) :
    readCandidates .fixed parseExpr unescape dataRaw (cfg.render dataRaw ++ rest)
      = readCandidates .fixed parseExpr unescape dataRaw ({ cfg with items := pre ++ post }.render dataRaw ++ rest) :=
  unselected_irrelevant parseExpr unescape cfg pre post s hitems hwf
    (by unfold Stmt.selected; split
        · rfl
        · split <;> simp [hother]) dataRaw rest

/-! ### attribute order

A statement's attributes may come in any order (`jcmd:active` before or after `jcmd:comment`,
namespace declarations anywhere); XML gives the order no meaning. With at most one annotation — an
element cannot carry the same attribute twice — the selection is the same for every order. -/

theorem selected_attr_perm (parseExpr unescape : String → Option String) (s : Stmt) (attrs' : List Attr)
    (hp : s.attrs.Perm attrs') (h1 : s.annotations.length ≤ 1) :
    Stmt.selected parseExpr unescape { s with attrs := attrs' } = Stmt.selected parseExpr unescape s := by
  have hin : ({ s with attrs := attrs' } : Stmt).inactive = s.inactive := by
    simp only [Stmt.inactive]
    exact (List.Perm.any_eq hp).symm
  have hpa : s.annotations.Perm ({ s with attrs := attrs' } : Stmt).annotations := by
    simp only [Stmt.annotations]
    exact List.Perm.filterMap _ hp
  have han : ({ s with attrs := attrs' } : Stmt).annotations = s.annotations := by
    generalize ha : s.annotations = l at hpa h1
    generalize ({ s with attrs := attrs' } : Stmt).annotations = l' at hpa
    match l, h1 with
    | [], _ => exact (List.Perm.nil_eq hpa).symm
    | [x], _ => exact (List.perm_singleton.mp hpa.symm)
    | _ :: _ :: _, h => simp at h
  have hann : ({ s with attrs := attrs' } : Stmt).annotation = s.annotation := by
    simp only [Stmt.annotation, han]
  simp only [Stmt.selected, hin, hann]
  rfl

/-- … hence so is what the reader returns for the whole configuration: reordering the attributes of
any one statement (here: the statement `s` between `pre` and `post`) changes nothing -/
theorem readCandidates_attr_order (parseExpr unescape : String → Option String) (cfg : Config)
    (pre post : List PoItem) (s : Stmt) (attrs' : List Attr)
    (hitems : cfg.items = pre ++ .stmt s :: post) (hwf : cfg.WF unescape)
    (hp : s.attrs.Perm attrs') (h1 : s.annotations.length ≤ 1) (dataRaw : String) (rest : List Ev) :
    readCandidates .fixed parseExpr unescape dataRaw
        ({ cfg with items := pre ++ PoItem.stmt { s with attrs := attrs' } :: post }.render dataRaw ++ rest)
      = readCandidates .fixed parseExpr unescape dataRaw (cfg.render dataRaw ++ rest) := by
  have hst : cfg.stmts = stmtsOf pre ++ s :: stmtsOf post := by simp [Config.stmts, hitems, stmtsOf]
  have hst' : ({ cfg with items := pre ++ PoItem.stmt { s with attrs := attrs' } :: post } : Config).stmts
      = stmtsOf pre ++ { s with attrs := attrs' } :: stmtsOf post := by simp [Config.stmts, stmtsOf]
  have hs : s.WF unescape := hwf s (by rw [hst]; simp)
  have hwf' : ({ cfg with items := pre ++ PoItem.stmt { s with attrs := attrs' } :: post } : Config).WF unescape := by
    intro x hx
    rw [hst'] at hx
    rcases List.mem_append.mp hx with h | h
    · exact hwf x (by rw [hst]; exact List.mem_append.mpr (Or.inl h))
    · rcases List.mem_cons.mp h with rfl | h
      · exact ⟨fun a ha => hs.attrs a (hp.mem_iff.mpr ha), hs.body, hs.inert, hs.keyed⟩
      · exact hwf x (by rw [hst]; exact List.mem_append.mpr (Or.inr (List.mem_cons_of_mem _ h)))
  rw [candidates_eq_select parseExpr unescape cfg hwf, candidates_eq_select parseExpr unescape _ hwf']
  simp only [select, hst, hst', List.filterMap_append, List.filterMap_cons,
    selected_attr_perm parseExpr unescape s attrs' hp h1]

/-- any element, empty element, text or CDATA next to name / `then`, a second name, a second
`then`, or a `then` holding anything but `<reject/>` makes a statement "other content" -/
theorem other_item_not_defaultReject (s : Stmt) (h : s.body.any BodyItem.isOther = true) : s.defaultReject = false := by
  simp [Stmt.defaultReject, h]

end Xml

namespace Xml

/-- **Totality** (every event list, grammar document or not, either variant): the reader model never
runs out of fuel — `evs.length + 1` loop iterations always suffice. -/
theorem readCandidates_total (c : FCfg) (parseExpr unescape : String → Option String) (dataRaw : String) (evs : List Ev) :
    readCandidates c parseExpr unescape dataRaw evs ≠ .error .fuel :=
  policiesLoop_total _ (readCandidate_good c parseExpr unescape) _ _ _ _ (Nat.lt_succ_self _)

/-! ### non-vacuity: a configuration mixing all statement kinds -/

def jcmdNs : Attr := { key := "xmlns:jcmd", ns := .bound "http://www.w3.org/2000/xmlns/", lname := "jcmd", value := some JCMD }
def jcmdComment (v : String) : Attr := { key := "jcmd:comment", ns := .bound JCMD, lname := "comment", value := some v }
def jcmdActive (v : String) : Attr := { key := "jcmd:active", ns := .bound JCMD, lname := "active", value := some v }
def junosChanged : Attr := { key := "junos:changed-seconds", ns := .unknown, lname := "changed-seconds", value := some "1" }

def nameItem (s : String) : BodyItem := .name "name" [] s [.text s]
def rejectItem : ThenItem := .empty (xnmTag "reject" "reject" [] none)
def acceptItem : ThenItem := .empty (xnmTag "accept" "accept" [] none)
def thenReject : BodyItem := .then_ "then" [] none [rejectItem]
def termItem : BodyItem :=
  .elem (xnmTag "term" "term" [] none)
    [.start (xnmTag "name" "name" [] (some "t")), .text "t", .end "name",
     .start (xnmTag "then" "then" [] none), .empty (xnmTag "accept" "accept" [] none), .end "then"]

def exStmt (attrs : List Attr) (body : List BodyItem) : PoItem :=
  .stmt { raw := "policy-statement", attrs := attrs, span := none, body := body }

/-- the parser and unescape oracles of the examples -/
def exParse (s : String) : Option String :=
  if s == " AS-FOO" then some "AS-FOO" else if s == " AS-BAR & { 10.0.0.0/8^+ }" then some "AS-BAR AND {10.0.0.0/8^+}" else none
def exUnescape (s : String) : Option String := if s == "a&amp;b" then some "a&b" else some s

def exItems : List PoItem :=
  [ -- managed; duplicate xmlns:jcmd, unrelated attribute, comment inside
    exStmt [jcmdNs, junosChanged, jcmdNs, jcmdComment "/* bgpfu-fltr: AS-FOO */"] [nameItem "fltr-foo", .comment, thenReject],
    .comment,
    -- inactive, attribute before the annotation
    exStmt [jcmdNs, jcmdActive "false", jcmdNs, jcmdComment "/* bgpfu-fltr: AS-FOO */"] [nameItem "off-1", thenReject],
    -- inactive, attribute after the annotation; arbitrary body
    exStmt [jcmdNs, jcmdComment "/* bgpfu-fltr: AS-FOO */", jcmdActive "false"] [nameItem "off-2", termItem],
    -- not annotated
    exStmt [] [nameItem "plain", termItem, .then_ "then" [] none [acceptItem]],
    -- a comment that is not an annotation
    exStmt [jcmdNs, jcmdComment "/* managed by hand */"] [nameItem "hand", thenReject],
    -- annotated, but with a term: other content
    exStmt [jcmdNs, jcmdComment "/* bgpfu-fltr: AS-FOO */"] [nameItem "mixed", termItem, thenReject],
    -- annotated, `then accept`
    exStmt [jcmdNs, jcmdComment "/* bgpfu-fltr: AS-FOO */"] [nameItem "acc", .then_ "then" [] none [acceptItem]],
    -- annotated, two `then`
    exStmt [jcmdNs, jcmdComment "/* bgpfu-fltr: AS-FOO */"] [nameItem "two", .then_ "then" [] none [], thenReject],
    -- escaped characters in name and expression, `/** … **/` decoration, active="true", last annotation wins
    exStmt [jcmdActive "true", jcmdComment "bgpfu-fltr: AS-OLD", jcmdNs, jcmdComment "/** bgpfu-fltr: AS-BAR & { 10.0.0.0/8^+ } **/"]
      [thenReject, nameItem "a&amp;b"],
    -- malformed expression: managed, not evaluable
    exStmt [jcmdNs, jcmdComment "bgpfu-fltr: AS-FOO AND"] [nameItem "broken", thenReject] ]

def exCfg (items : List PoItem) : Config :=
  { confRaw := "configuration", confAttrs := [], confSpan := none, poRaw := "policy-options", poAttrs := [],
    poSpan := none, items := items, c1 := 1, c4 := 2 }

example : (exCfg exItems).WF exUnescape := by decide

/-- the repaired reader on the mixed configuration: exactly the three managed statements -/
example : readCandidates .fixed exParse exUnescape "data" ((exCfg exItems).render "data" ++ [.end "rpc-reply", .eof])
    = .ok [("fltr-foo", .parsed "AS-FOO"), ("a&b", .parsed "AS-BAR AND {10.0.0.0/8^+}"), ("broken", .malformed "AS-FOO AND")] := by
  decide

example : select exParse exUnescape (exCfg exItems)
    = .ok [("fltr-foo", .parsed "AS-FOO"), ("a&b", .parsed "AS-BAR AND {10.0.0.0/8^+}"), ("broken", .malformed "AS-FOO AND")] := by
  decide

/-- the restricted theorem is not vacuous either: a configuration satisfying `NoOtherContent` with
managed, inactive and unannotated statements -/
def exPlainItems : List PoItem := [exItems[0], exItems[2], exItems[3], exItems[4], exItems[9], exItems[10]]
example : (exCfg exPlainItems).WF exUnescape ∧ NoOtherContent (exCfg exPlainItems) := by
  unfold NoOtherContent; decide
example : readCandidates .pinned exParse exUnescape "data" ((exCfg exPlainItems).render "data")
    = .ok [("fltr-foo", .parsed "AS-FOO"), ("a&b", .parsed "AS-BAR AND {10.0.0.0/8^+}"), ("broken", .malformed "AS-FOO AND")] := by
  decide

/-- two managed statements of the same name: error -/
example : readCandidates .fixed exParse exUnescape "data" ((exCfg [exItems[0], exItems[0]]).render "data") = .error .other := by
  decide
/-- … but a managed and an unmanaged one of the same name: fine -/
example : readCandidates .fixed exParse exUnescape "data"
    ((exCfg [exItems[0], exStmt [] [nameItem "fltr-foo", thenReject]]).render "data") = .ok [("fltr-foo", .parsed "AS-FOO")] := by
  decide

/-! ### counter-examples for the code as it is in /repo (`.pinned`) -/

/-- **Deviation 1 (`other-content-fails-read`).** One annotated statement that also holds a term
makes the whole read fail: the well-formed managed statement next to it is lost, i.e. no policy is
updated at all. The full statement for `.pinned` is false. -/
theorem other_content_fails_read_cex :
    ∃ (cfg : Config), cfg.WF exUnescape ∧
      select exParse exUnescape cfg = .ok [("fltr-foo", .parsed "AS-FOO")] ∧
      readCandidates .pinned exParse exUnescape "data" (cfg.render "data") = .error .unexpected ∧
      readCandidates .fixed exParse exUnescape "data" (cfg.render "data") = .ok [("fltr-foo", .parsed "AS-FOO")] :=
  ⟨exCfg [exItems[0], exItems[6]], by decide, by decide, by decide, by decide⟩

/-- the same with `then accept` instead of a term -/
theorem then_accept_fails_read_cex :
    ∃ (cfg : Config), cfg.WF exUnescape ∧
      select exParse exUnescape cfg = .ok [("fltr-foo", .parsed "AS-FOO")] ∧
      readCandidates .pinned exParse exUnescape "data" (cfg.render "data") = .error .unexpected :=
  ⟨exCfg [exItems[0], exItems[7]], by decide, by decide, by decide⟩

/-- **Deviation 2 (`extra-then-selected`).** `<then></then><then><reject/></then>`: the guard of the
`then` arm is `!reject_policy`, so a second `then` is read when the first one held no reject; the
statement is selected although it does not consist of one default reject action. -/
theorem extra_then_selected_cex :
    ∃ (cfg : Config), cfg.WF exUnescape ∧
      select exParse exUnescape cfg = .ok [] ∧
      readCandidates .pinned exParse exUnescape "data" (cfg.render "data") = .ok [("two", .parsed "AS-FOO")] :=
  ⟨exCfg [exItems[8]], by decide, by decide, by decide⟩

end Xml
