import Bgpfu.Lemmas.Writers
import Bgpfu.Lemmas.SendLoop
import Bgpfu.Thm.C06
/-!
# C10 — serialised requests are well-formed, delimiter-safe and carry values unchanged

Property theorems only (helper lemmas and the specification predicates `MF`, `namesOk`, `WFC`,
`WFDoc`, `Sub`, `Escaped` live in `Bgpfu.Lemmas.Writers`; the model in `Bgpfu.Model.Writers`).

Values are byte strings (`List Nat`; every Rust `String` is one, non-ASCII text = bytes ≥ 128).
`Cfg.pinned` is the code as it is in /repo (the correspondence run checks that byte for byte),
`Cfg.fixed` the repaired variant. `ws` below is `Cfg.wsRefs`.

**Value domain.** A conforming XML 1.0 parser (`parseText`, `parseAttr`) first normalises line
ends (§2.11: CR LF and CR become LF) and, in attribute values, turns a literal TAB/LF/CR into a
space (§3.3.3). quick-xml's `escape` leaves these three bytes alone, so
  * text leaves are recovered for every value **without CR**,
  * attribute leaves are recovered for every value **without TAB, LF, CR**;
for the remaining values recovery fails (`text_cr_pinned_cex`, `attr_ws_pinned_cex`; the XPath
`select` expression is such a leaf and multi-line XPath is ordinary input, so this is inside the
property's domain — defect D17). The repaired variant (`ws = true`) writes them as character
references and recovery holds for **all** byte strings. Bytes that are not XML `Char`s (C0
controls) cannot be carried by XML 1.0 at all and are outside the domain; `WFC` does not model the
`Char` production.
-/
namespace Writers
open Framing (marker find OccAt)

-- the `decide` proofs below evaluate `render` on ~150-byte messages
set_option maxRecDepth 8000

/-! ## escaping -/

/-- `unescape ∘ escape = id`, for all byte strings -/
theorem unescape_escape (s : List Nat) : unescape (escape s) = some s := unesc_escape s

/-- the output of `escape` contains none of `<` `>` `"` `'`, and `&` only as the first byte of
one of the five predefined references (`Escaped` = (plain byte | reference)*). In particular it
contains no `>`, hence no `]]>` and no part of a delimiter that needs a `>`. -/
theorem escape_no_meta (s : List Nat) :
    (∀ x ∈ escape s, x ≠ 60 ∧ x ≠ 62 ∧ x ≠ 34 ∧ x ≠ 39) ∧ Escaped (escape s) :=
  ⟨fun x hx => by rw [← escText_false] at hx; exact escText_mem false s x hx, escaped_escape s⟩

/-- the same for the writers actually used for text and attribute leaves, in both variants -/
theorem escaped_leaves_no_meta (ws : Bool) (s : List Nat) :
    (∀ x ∈ escText ws s, x ≠ 60 ∧ x ≠ 62 ∧ x ≠ 34 ∧ x ≠ 39) ∧
    (∀ x ∈ escAttr ws s, x ≠ 60 ∧ x ≠ 62 ∧ x ≠ 34 ∧ x ≠ 39) :=
  ⟨escText_mem ws s, escAttr_mem ws s⟩

/-! ## the delimiter occurs exactly once, at the end -/

/-- **`no_marker_inside`.** Side condition, exactly: element and attribute names are XML names
(`namesOk`; true of every builder, `request_namesOk`) and every raw leaf is marker-free (`MF`).
Nothing is required of the escaped leaves, and no condition relates a raw leaf to its neighbours:
in this code a raw fragment is always the *entire* content of its element (`XNode.raw`), so its
neighbours are the `>` of a start tag — preceded by a name byte or `"`, never by `]` — and the
`<` of an end tag, and neither can be part of a delimiter occurrence. Then the delimiter occurs
in the message at exactly one position: where `to_xml` appended it. -/
theorem no_marker_inside (ws : Bool) (m : XNode) (hn : namesOk m = true) (hr : ∀ r ∈ rawLeaves m, MF r) (j : Nat) :
    OccAt marker (toWire ws m) j ↔ j = (render ws m).length :=
  occ_wire_iff _ (good_render ws m hn hr).mf (good_render ws m hn hr).ends j

/-- … in the form used by C06: the message is *well framed* (`Framing.WellFramed (render ws m)`),
i.e. the receiver's greedy split cuts it exactly at its end -/
theorem wire_well_framed (ws : Bool) (m : XNode) (hn : namesOk m = true) (hr : ∀ r ∈ rawLeaves m, MF r) :
    find marker (render ws m ++ marker) = some (render ws m).length :=
  find_wire _ (good_render ws m hn hr).mf (good_render ws m hn hr).ends

/-- why "entire content of its element" matters: two marker-free raw writes next to each other
can form a delimiter -/
theorem raw_adjacent_cex : MF b!"]]>]]" ∧ MF b!">" ∧ ¬ MF (b!"]]>]]" ++ b!">") := by decide

/-- **repaired `to_xml`** (`guard`): whatever the raw leaves contain, a message that is sent
carries the delimiter exactly once, at the end (and a body containing it is refused). -/
theorem send_guard_framed (c : Cfg) (hg : c.guard = true) (m : XNode) (hn : namesOk m = true) (w : List Nat)
    (h : send c m = some w) (j : Nat) : OccAt marker w j ↔ j + 6 = w.length := by
  unfold send at h
  split at h
  · cases h
  · rename_i hf
    split at h
    · cases h
    cases h
    have hmf : MF (render c.wsRefs m) := by
      rw [mf_iff_find]
      cases hx : find marker (render c.wsRefs m) with
      | none => rfl
      | some i => simp [hg, hx] at hf
    rw [toWire, occ_wire_iff _ hmf (endsGt_render _ m hn)]
    simp [Framing.marker_length]

/-! ## well-formedness -/

/-- **`wf_of_wf_fragments`.** `F` is whatever the caller guarantees about the fragments it
supplies (a fragment is `content`). If every raw leaf satisfies `F`, the message is a single
well-formed element whose content is built from character data, references, elements and
`F`-fragments. -/
theorem wf_of_wf_fragments (F : List Nat → Prop) (ws : Bool) (m : XNode) (hn : namesOk m = true)
    (hr : ∀ r ∈ rawLeaves m, F r) : WFDoc F (render ws m) :=
  wf_render F ws m hn hr

/-- closed form: fragments from the produced subset itself give a document of the subset (no
opaque fragments left) -/
theorem wf_of_subset_fragments (ws : Bool) (m : XNode) (hn : namesOk m = true)
    (hr : ∀ r ∈ rawLeaves m, WFC (fun _ => False) r) : WFDoc (fun _ => False) (render ws m) := by
  rcases wf_render (WFC (fun _ => False)) ws m hn hr with h | ⟨n, names, ab, c, h1, h2, h3, h4, e⟩
  · exact Or.inl h
  · exact Or.inr ⟨n, names, ab, c, h1, h2, h3, wfc_flatten _ c h4, e⟩

/-- no raw leaves at all: unconditionally well-formed -/
theorem wf_of_no_raw (ws : Bool) (m : XNode) (hn : namesOk m = true) (hr : rawLeaves m = []) :
    WFDoc (fun _ => False) (render ws m) :=
  wf_render _ ws m hn (by simp [hr])

/-! ## values are recovered -/

/-- **`values_recovered`, text leaves.** For every escaped text leaf anywhere in the message: the
message is `pre ++ <n attrs> ++ span ++ </n> ++ post`, the span is found by scanning from the end
of the start tag to the next `<`, and a conforming parser's value for it is the caller's value. -/
theorem values_recovered_text (ws : Bool) (m : XNode) (n : List Nat) (as : List Attr) (v : List Nat)
    (hs : Sub (.text n as v) m) (hd : ws = true ∨ 13 ∉ v) :
    ∃ pre post, render ws m = pre ++ openTag ws n as ++ (escText ws v ++ closeTag n ++ post) ∧
      (escText ws v ++ closeTag n ++ post).takeWhile (· != 60) = escText ws v ∧
      parseText (escText ws v) = some v := by
  obtain ⟨pre, post, e⟩ := sub_render ws _ m hs
  refine ⟨pre, post, by simp [e, render], ?_, ?_⟩
  · have : escText ws v ++ closeTag n ++ post = escText ws v ++ 60 :: (47 :: n ++ [62] ++ post) := by
      simp [closeTag]
    rw [this]
    exact takeWhile_span _ _ _ 60 (fun b hb => by simpa using (escText_mem ws v b hb).1) (by simp)
  · rw [parseText, eol_id _ (escText_no13 ws v hd)]
    exact unesc_escText ws v

/-- **`values_recovered`, attribute leaves.** For every attribute of every node: the message is
`pre ++ ␣name=" ++ span ++ " ++ post`, the span ends at the next `"`, and a conforming parser's
(normalised) value for it is the caller's value. -/
theorem values_recovered_attr (ws : Bool) (m t : XNode) (a : Attr) (hs : Sub t m) (ha : a ∈ t.attrs)
    (hd : ws = true ∨ (9 ∉ a.value ∧ 10 ∉ a.value ∧ 13 ∉ a.value)) :
    ∃ pre post, render ws m = pre ++ (32 :: a.name ++ [61, 34]) ++ (escAttr ws a.value ++ 34 :: post) ∧
      (escAttr ws a.value ++ 34 :: post).takeWhile (· != 34) = escAttr ws a.value ∧
      parseAttr (escAttr ws a.value) = some a.value := by
  obtain ⟨p1, q1, e1⟩ := sub_render ws t m hs
  obtain ⟨p2, q2, e2⟩ := render_attr ws t a ha
  refine ⟨p1 ++ p2, q2 ++ q1, by simp [e1, e2, attrBytes], ?_, ?_⟩
  · exact takeWhile_span _ _ _ 34 (fun b hb => by simpa using (escAttr_mem ws _ b hb).2.2.1) (by simp)
  · rw [parseAttr, eol_id _ (escAttr_no13 ws _ (by rcases hd with h | h; exact Or.inl h; exact Or.inr h.2.2))]
    exact unesc_escAttr ws _ hd

/-- both kinds of escaped leaf, repaired variant: recovered for **all** byte strings -/
theorem values_recovered_fixed (v : List Nat) : parseText (escText true v) = some v ∧ parseAttr (escAttr true v) = some v :=
  ⟨by rw [parseText, eol_id _ (escText_no13 true v (Or.inl rfl))]; exact unesc_escText true v,
   by rw [parseAttr, eol_id _ (escAttr_no13 true v (Or.inl rfl))]; exact unesc_escAttr true v (Or.inl rfl)⟩

/-- D17, attribute leaves, code as it is: a line feed in an XPath `select` expression comes back
as a space; so do TAB and CR -/
theorem attr_ws_pinned_cex :
    parseAttr (escAttr false b!"a\nb") = some b!"a b" ∧ parseAttr (escAttr false b!"\t") = some b!" " ∧
    parseAttr (escAttr false b!"\r") = some b!" " := by decide

/-- D17, text leaves, code as it is: a carriage return in a log message / token / instance name
comes back as a line feed -/
theorem text_cr_pinned_cex :
    parseText (escText false b!"a\rb") = some b!"a\nb" ∧ parseText (escText false b!"a\r\nb") = some b!"a\nb" := by
  decide

/-! ## per operation -/

/-- every name any builder writes is an XML name (caller-supplied element trees must be, too) -/
theorem request_names (c : Cfg) (id : Nat) (op : Op) (ht : ∀ t ∈ op.trees, namesOk t = true) :
    namesOk (request c id op) = true := request_namesOk c id op ht

/-- **the table**: the raw leaves of a request are exactly `rawParams c op` — subtree filters,
`<config>` fragments (copy-config, validate, edit-config with `Opaque`), XML `load-configuration`
data, and — in the code as it is — the text / JSON `load-configuration` payloads. Every other
parameter (XPath `select`, URLs, tokens, session ids, timeouts, instance names, log messages,
at-time, enumeration values, message-id, format/action) is an escaped leaf. -/
theorem request_raw_leaves (c : Cfg) (id : Nat) (op : Op) : rawLeaves (request c id op) = rawParams c op :=
  request_rawLeaves c id op

/-- framing, per operation: marker-free raw parameters ⇒ delimiter exactly once, at the end -/
theorem request_framed (c : Cfg) (id : Nat) (op : Op) (ht : ∀ t ∈ op.trees, namesOk t = true)
    (hr : ∀ r ∈ rawParams c op, MF r) (j : Nat) :
    OccAt marker (toWire c.wsRefs (request c id op)) j ↔ j = (render c.wsRefs (request c id op)).length :=
  no_marker_inside _ _ (request_namesOk c id op ht) (by rw [request_rawLeaves]; exact hr) j

/-- well-formedness, per operation -/
theorem request_wf (F : List Nat → Prop) (c : Cfg) (id : Nat) (op : Op) (ht : ∀ t ∈ op.trees, namesOk t = true)
    (hr : ∀ r ∈ rawParams c op, F r) : WFDoc F (render c.wsRefs (request c id op)) :=
  wf_render F _ _ (request_namesOk c id op ht) (by rw [request_rawLeaves]; exact hr)

/-- operations without a raw parameter: well-formed and well framed for **all** parameter values -/
theorem request_no_raw (c : Cfg) (id : Nat) (op : Op) (ht : op.trees = []) (h0 : rawParams c op = []) :
    WFDoc (fun _ => False) (render c.wsRefs (request c id op)) ∧
    find marker (toWire c.wsRefs (request c id op)) = some (render c.wsRefs (request c id op)).length := by
  have hn := request_namesOk c id op (by simp [ht])
  exact ⟨wf_render _ _ _ hn (by simp [request_rawLeaves, h0]), wire_well_framed _ _ hn (by simp [request_rawLeaves, h0])⟩

/-- repaired text / JSON payloads are escaped leaves: for **every** payload the request is
well-formed, the delimiter occurs once at the end, and the payload is recovered -/
theorem load_text_fixed (id : Nat) (p : List Nat) (a : Act) :
    WFDoc (fun _ => False) (render true (request .fixed id (.loadConfiguration (.cfgText p a)))) ∧
    find marker (toWire true (request .fixed id (.loadConfiguration (.cfgText p a)))) =
      some (render true (request .fixed id (.loadConfiguration (.cfgText p a)))).length ∧
    Sub (.text (dataTag .text a) [] p) (request .fixed id (.loadConfiguration (.cfgText p a))) ∧
    parseText (escText true p) = some p := by
  have h := request_no_raw .fixed id (.loadConfiguration (.cfgText p a)) rfl rfl
  refine ⟨h.1, h.2, ?_, (values_recovered_fixed p).1⟩
  have e : request .fixed id (.loadConfiguration (.cfgText p a)) =
      .elem b!"rpc" [⟨b!"message-id", dec id⟩]
        [.elem b!"load-configuration" [Fmt.text.attr, a.attr] [.text (dataTag .text a) [] p]] := rfl
  rw [e]
  exact Sub.kid _ _ _ _ _ (List.mem_singleton.mpr rfl) (Sub.kid _ _ _ _ _ (List.mem_singleton.mpr rfl) (Sub.refl _))

theorem load_json_fixed (id : Nat) (p : List Nat) (a : Act) :
    WFDoc (fun _ => False) (render true (request .fixed id (.loadConfiguration (.cfgJson p a)))) ∧
    find marker (toWire true (request .fixed id (.loadConfiguration (.cfgJson p a)))) =
      some (render true (request .fixed id (.loadConfiguration (.cfgJson p a)))).length ∧
    Sub (.text (dataTag .json a) [] p) (request .fixed id (.loadConfiguration (.cfgJson p a))) ∧
    parseText (escText true p) = some p := by
  have h := request_no_raw .fixed id (.loadConfiguration (.cfgJson p a)) rfl rfl
  refine ⟨h.1, h.2, ?_, (values_recovered_fixed p).1⟩
  have e : request .fixed id (.loadConfiguration (.cfgJson p a)) =
      .elem b!"rpc" [⟨b!"message-id", dec id⟩]
        [.elem b!"load-configuration" [Fmt.json.attr, a.attr] [.text (dataTag .json a) [] p]] := rfl
  rw [e]
  exact Sub.kid _ _ _ _ _ (List.mem_singleton.mpr rfl) (Sub.kid _ _ _ _ _ (List.mem_singleton.mpr rfl) (Sub.refl _))

/-- **D7, code as it is** (`write_all`): a text payload that is the delimiter puts a second
delimiter inside the message (at byte 89 of 143+6); a payload `<` is not even character data
(`parseText` fails: the document is not well-formed), and `&lt;` comes back as `<`. -/
theorem text_payload_raw_cex :
    rawParams .pinned (.loadConfiguration (.cfgText b!"]]>]]>" .merge)) = [b!"]]>]]>"] ∧
    find marker (toWire false (request .pinned 1 (.loadConfiguration (.cfgText b!"]]>]]>" .merge)))) = some 89 ∧
    (render false (request .pinned 1 (.loadConfiguration (.cfgText b!"]]>]]>" .merge)))).length = 143 ∧
    parseText b!"<" = none ∧ parseText b!"a & b" = none ∧ parseText b!"&lt;" = some b!"<" := by decide

theorem json_payload_raw_cex :
    find marker (toWire false (request .pinned 1 (.loadConfiguration (.cfgJson b!"]]>]]>" .merge)))) = some 89 ∧
    parseText b!"{\"a\":\"<&>\"}" = none := by decide

/-- the client `<hello>`: always well-formed and well framed -/
theorem hello_ok (ws : Bool) (caps : List (List Nat)) :
    WFDoc (fun _ => False) (render ws (hello caps)) ∧
    find marker (toWire ws (hello caps)) = some (render ws (hello caps)).length :=
  ⟨wf_render _ _ _ (hello_namesOk caps) (by simp [hello_rawLeaves]),
   wire_well_framed _ _ (hello_namesOk caps) (by simp [hello_rawLeaves])⟩

/-- the agent's `<configuration>` payload has no raw leaf: policy names, the comment carrying the
filter expression and the prefixes are all escaped, so it is well-formed content for every name and
expression, and so is the `<load-configuration>` request that carries it -/
theorem agent_payload_ok (c : Cfg) (id : Nat) (u : Update) (a : Act) :
    WFDoc (fun _ => False) (render c.wsRefs (updateTree u)) ∧
    WFDoc (fun _ => False) (render c.wsRefs (request c id (.loadConfiguration (.cfgXmlTree (updateTree u) a)))) ∧
    find marker (toWire c.wsRefs (request c id (.loadConfiguration (.cfgXmlTree (updateTree u) a)))) =
      some (render c.wsRefs (request c id (.loadConfiguration (.cfgXmlTree (updateTree u) a)))).length := by
  have ht : ∀ t ∈ (Op.loadConfiguration (.cfgXmlTree (updateTree u) a)).trees, namesOk t = true := by
    intro t h; simp [Op.trees] at h; subst h; exact updateTree_namesOk u
  have hn := request_namesOk c id _ ht
  have hr : rawLeaves (request c id (.loadConfiguration (.cfgXmlTree (updateTree u) a))) = [] := by
    rw [request_rawLeaves]; simp [rawParams, updateTree_rawLeaves]
  exact ⟨wf_render _ _ _ (updateTree_namesOk u) (by simp [updateTree_rawLeaves]),
    wf_render _ _ _ hn (by simp [hr]), wire_well_framed _ _ hn (by simp [hr])⟩

/-- **D18**: a *well-formed* caller-supplied fragment can contain the delimiter (inside an
attribute value, a comment or a processing instruction), and the code as it is embeds it
verbatim: a second delimiter inside the message. The repaired `to_xml` refuses to send it. -/
theorem fragment_marker_cex :
    WFC (fun _ => False) b!"<a x=\"]]>]]>\"/>" ∧
    find marker (toWire false (request .pinned 1
      (.editConfig .candidate .merge .stopOnError .testThenSet (.config b!"<a x=\"]]>]]>\"/>")))) = some 76 ∧
    (render false (request .pinned 1
      (.editConfig .candidate .merge .stopOnError .testThenSet (.config b!"<a x=\"]]>]]>\"/>")))).length = 114 ∧
    send .fixed (request .fixed 1
      (.editConfig .candidate .merge .stopOnError .testThenSet (.config b!"<a x=\"]]>]]>\"/>"))) = none := by
  refine ⟨?_, by decide, by decide, by decide⟩
  have hv : AttValWF b!"]]>]]>" := by
    repeat (first | exact AttValWF.nil | apply AttValWF.char _ _ (by decide) (by decide) (by decide))
  have := WFC.empty (F := fun _ => False) b!"a" [b!"x"] b!" x=\"]]>]]>\"" [] (by decide)
    (AttrsWF.cons b!"x" b!"]]>]]>" [] [] (by decide) hv AttrsWF.nil) (by decide) WFC.nil
  simpa using this

/-! ## characters XML cannot carry -/

/-- **repaired `to_xml`** (`charGuard`): every message that is sent consists of XML 1.0 `Char`s
only — whatever the caller put into text values, attribute values, payloads and fragments. -/
theorem sent_chars_ok (c : Cfg) (hg : c.charGuard = true) (m : XNode) (w : List Nat)
    (h : send c m = some w) : charsOk w = true := by
  unfold send at h
  split at h
  · cases h
  · split at h
    · cases h
    · rename_i hx
      cases h
      cases hc : charsOk (toWire c.wsRefs m) with
      | true => rfl
      | false => simp [hg, hc] at hx

/-- a refusal has one of the two stated reasons (no other path to `none`) -/
theorem refused_only_for_reason (c : Cfg) (m : XNode) (h : send c m = none) :
    (c.guard = true ∧ (find marker (render c.wsRefs m)).isSome = true) ∨
    (c.charGuard = true ∧ charsOk (toWire c.wsRefs m) = false) := by
  unfold send at h
  split at h
  · rename_i h1; left; simpa using h1
  · split at h
    · rename_i h2; right; simpa using h2
    · cases h

/-- **D19**: the code of the pinned snapshot sends a log message containing U+0001 as it is — the
message is not an XML document (no conforming parser accepts the byte, escaped or not); the
repaired `to_xml` refuses it. -/
theorem control_char_sent_cex :
    send .pinned (request .pinned 1 (.commitConfiguration false none none (some [1]) none)) =
      some b!"<rpc message-id=\"1\"><commit-configuration><log>\x01</log></commit-configuration></rpc>]]>]]>" ∧
    send .fixed (request .fixed 1 (.commitConfiguration false none none (some [1]) none)) = none := by
  refine ⟨by decide, by decide⟩

/-- U+FFFE / U+FFFF are refused as well, U+FFFD and supplementary-plane text pass -/
example : charsOk [97, 239, 191, 189, 98, 240, 157, 132, 158] = true ∧ charsOk [97, 239, 191, 190] = false ∧ charsOk [239, 191, 191] = false := by decide

/-! ## non-vacuity -/

/-- the hypotheses of the framing / well-formedness theorems are satisfiable: an ordinary subtree
filter is marker-free content of the subset -/
example : MF b!"<configuration><policy-options/></configuration>" := by decide

/-- concrete instances: the exact bytes of three requests (the correspondence run compares
these functions with the real builders on ≈ 900 more) -/
example : toWire false (request .pinned 7 (.get (some (.xpath b!"<\"]]>")))) =
    b!"<rpc message-id=\"7\"><get><filter type=\"xpath\" select=\"&lt;&quot;]]&gt;\"/></get></rpc>]]>]]>" := by decide

example : toWire false (request .pinned 12 (.commitConfiguration false none (some 61) (some b!"a&b") (some true))) =
    b!"<rpc message-id=\"12\"><commit-configuration><confirmed/><confirm-timeout>2</confirm-timeout><log>a&amp;b</log><force-synchronize/></commit-configuration></rpc>]]>]]>" := by
  decide

example : send .fixed (request .fixed 1 (.loadConfiguration (.cfgText b!"]]>]]>" .set))) =
    some b!"<rpc message-id=\"1\"><load-configuration format=\"text\" action=\"set\"><configuration-set>]]&gt;]]&gt;</configuration-set></load-configuration></rpc>]]>]]>" := by
  decide

/-- an instance of `values_recovered_attr` with all hypotheses discharged -/
example : parseAttr (escAttr false b!"/a[b='<&>\"']") = some b!"/a[b='<&>\"']" := by decide

/-- and of `no_marker_inside` -/
example (j : Nat) : OccAt marker (toWire false (request .pinned 3 (.get (some (.subtree b!"<a>]]&gt;</a>"))))) j ↔
    j = (render false (request .pinned 3 (.get (some (.subtree b!"<a>]]&gt;</a>"))))).length :=
  request_framed .pinned 3 _ (by simp [Op.trees]) (by simp [rawParams]; decide) j

/-! ## the bytes reach the socket: `write_all` is a loop over partial writes

`SendHandle::send` of the TLS and CLI transports hands the serialised message to `write_all`
(tls.rs:106, junos_local.rs:116). One call of the underlying `poll_write` may accept only part of the
buffer; `caps` below lists, call by call, how many bytes the writer is prepared to accept (`0` = the call
fails). Model: `Framing.writeAll` (Model/SendLoop.lean); `Framing.writeOnce` is the variant with a single
`write_buf` call. -/

open Framing (writeAll writeOnce writeMany recvAll datas split pump)

/-- **`write_all` writes all of it.** For every message and every sequence of partial-write sizes, as long
as no call fails (every size ≥ 1) and the writer does not stop accepting for good (`data.length ≤ caps.length`
is enough calls in the worst case of one byte per call): the chunks written, concatenated, are the message,
and `write_all` reports success. -/
theorem write_all_complete (data : List Nat) (caps : List Nat) (hpos : ∀ c ∈ caps, 1 ≤ c)
    (hlen : data.length ≤ caps.length) :
    (writeAll data caps).1.flatten = data ∧ (writeAll data caps).2 = true :=
  Framing.writeAll_complete data caps hpos hlen

/-- … and with *no* assumption on the sizes (failing calls, too few calls): what was written is a prefix of
the message — never reordered, duplicated or padded — every write is non-empty, and `Ok(())` is reported
exactly when nothing is missing. -/
theorem write_all_prefix (data : List Nat) (caps : List Nat) :
    (∃ rest, (writeAll data caps).1.flatten ++ rest = data ∧ ((writeAll data caps).2 = true ↔ rest = [])) ∧
    ∀ ch ∈ (writeAll data caps).1, ch ≠ [] :=
  ⟨Framing.writeAll_spec data caps, Framing.writeAll_chunks data caps⟩

/-- the stream a sequence of `send` calls puts on the socket (`p.2` = the partial-write sizes of that call) -/
def sentChunks (ws : Bool) (sends : List (XNode × List Nat)) : List (List Nat) :=
  writeMany writeAll (sends.map fun p => (toWire ws p.1, p.2))

theorem sentChunks_flatten (ws : Bool) (sends : List (XNode × List Nat))
    (hc : ∀ p ∈ sends, (∀ c ∈ p.2, 1 ≤ c) ∧ (toWire ws p.1).length ≤ p.2.length) :
    (sentChunks ws sends).flatten = Framing.wire (sends.map fun p => render ws p.1) := by
  unfold sentChunks
  rw [Framing.writeMany_flatten _ (by
    intro q hq
    obtain ⟨p, hp, rfl⟩ := List.mem_map.mp hq
    exact hc p hp)]
  simp [Framing.wire, List.map_map, Function.comp_def, toWire]

/-- composition core: all that is needed of the messages is that each is well framed (C06) -/
theorem written_then_received_wf (ws : Bool) (sends : List (XNode × List Nat)) (cs : List (List Nat))
    (hwf' : ∀ p ∈ sends, Framing.WellFramed (render ws p.1))
    (hc : ∀ p ∈ sends, (∀ c ∈ p.2, 1 ≤ c) ∧ (toWire ws p.1).length ≤ p.2.length)
    (hcs : cs.flatten = (sentChunks ws sends).flatten) :
    split (sentChunks ws sends).flatten = (sends.map fun p => toWire ws p.1, []) ∧
    recvAll .fixed (sends.length + 1) [] (datas cs) = (sends.map fun p => toWire ws p.1, .pending []) ∧
    pump .fixed (cs.map .data) [] = (sends.map fun p => toWire ws p.1, [], .running) := by
  have hwf : ∀ m ∈ sends.map (fun p => render ws p.1), Framing.WellFramed m := by
    intro m hmem
    obtain ⟨p, hp, rfl⟩ := List.mem_map.mp hmem
    exact hwf' p hp
  have hfl := sentChunks_flatten ws sends hc
  have e : (sends.map fun p => render ws p.1).map (· ++ marker) = sends.map fun p => toWire ws p.1 := by
    simp [List.map_map, Function.comp_def, toWire]
  refine ⟨?_, ?_, ?_⟩
  · rw [hfl, Framing.split_wire _ hwf, e]
  · have := Framing.recvAll_framed _ cs hwf (hcs.trans hfl)
    rwa [List.length_map, e] at this
  · have := Framing.pump_framed _ cs hwf (hcs.trans hfl)
    rwa [e] at this

/-- **Sender and receiver composed (C10 ∘ C06), full statement, any number of messages.**
Requests whose names are XML names and whose raw leaves are marker-free (`no_marker_inside`) are
serialised by `to_xml`, each is written with `write_all` under ANY partial-write sizes (no failing call), and
the byte stream is cut into the receiver's reads in ANY way `cs` (in particular: as the chunks that were
written). Then the receiver's greedy split of the stream, the receive loop `recvAll` of C06 run on `cs`, and
the SSH pump run on `cs` as packets, all yield exactly the serialised requests — each once, in order,
nothing left over. -/
theorem written_then_received (ws : Bool) (sends : List (XNode × List Nat)) (cs : List (List Nat))
    (hm : ∀ p ∈ sends, namesOk p.1 = true ∧ ∀ r ∈ rawLeaves p.1, MF r)
    (hc : ∀ p ∈ sends, (∀ c ∈ p.2, 1 ≤ c) ∧ (toWire ws p.1).length ≤ p.2.length)
    (hcs : cs.flatten = (sentChunks ws sends).flatten) :
    split (sentChunks ws sends).flatten = (sends.map fun p => toWire ws p.1, []) ∧
    recvAll .fixed (sends.length + 1) [] (datas cs) = (sends.map fun p => toWire ws p.1, .pending []) ∧
    pump .fixed (cs.map .data) [] = (sends.map fun p => toWire ws p.1, [], .running) :=
  written_then_received_wf ws sends cs (fun p hp => wire_well_framed ws p.1 (hm p hp).1 (hm p hp).2) hc hcs

/-- the same for the repaired `to_xml` (`guard`), with no condition on the raw leaves: every message that
`send` does not refuse arrives -/
theorem sent_then_received_guard (c : Cfg) (hg : c.guard = true) (sends : List (XNode × List Nat))
    (cs : List (List Nat)) (hn : ∀ p ∈ sends, namesOk p.1 = true)
    (hs : ∀ p ∈ sends, send c p.1 ≠ none)
    (hc : ∀ p ∈ sends, (∀ k ∈ p.2, 1 ≤ k) ∧ (toWire c.wsRefs p.1).length ≤ p.2.length)
    (hcs : cs.flatten = (sentChunks c.wsRefs sends).flatten) :
    split (sentChunks c.wsRefs sends).flatten = (sends.map fun p => toWire c.wsRefs p.1, []) ∧
    recvAll .fixed (sends.length + 1) [] (datas cs) = (sends.map fun p => toWire c.wsRefs p.1, .pending []) ∧
    pump .fixed (cs.map .data) [] = (sends.map fun p => toWire c.wsRefs p.1, [], .running) := by
  refine written_then_received_wf c.wsRefs sends cs (fun p hp => ?_) hc hcs
  have hmf : MF (render c.wsRefs p.1) := by
    rw [mf_iff_find]
    cases hx : find marker (render c.wsRefs p.1) with
    | none => rfl
    | some i => exact absurd (by simp [send, hg, hx]) (hs p hp)
  exact find_wire _ hmf (endsGt_render _ p.1 (hn p hp))

/-- the receiver reads exactly the chunks that were written -/
theorem written_chunks_received (ws : Bool) (sends : List (XNode × List Nat))
    (hm : ∀ p ∈ sends, namesOk p.1 = true ∧ ∀ r ∈ rawLeaves p.1, MF r)
    (hc : ∀ p ∈ sends, (∀ c ∈ p.2, 1 ≤ c) ∧ (toWire ws p.1).length ≤ p.2.length) :
    recvAll .fixed (sends.length + 1) [] (datas (sentChunks ws sends))
      = (sends.map fun p => toWire ws p.1, .pending []) :=
  (written_then_received ws sends _ hm hc rfl).2.1

/-- **a single `write_buf` call instead of the loop**: a 43-byte request, a writer that accepts 16 bytes per
call. One call writes the first 16 bytes and the rest is never written: the peer's receiver finds no
delimiter and waits, holding `<rpc message-id=`. With the loop (same sizes) the request arrives. -/
theorem write_once_cex :
    let msg := toWire false (request .pinned 7 (.get none))
    msg.length = 43 ∧
    (writeOnce msg [16, 16, 16]).1.flatten = b!"<rpc message-id=" ∧
    (writeOnce msg [16, 16, 16]).2 = false ∧
    recvAll .fixed 2 [] (datas (writeOnce msg [16, 16, 16]).1) = ([], .pending b!"<rpc message-id=") ∧
    recvAll .fixed 2 [] (datas (writeAll msg [16, 16, 16]).1) = ([msg], .pending []) := by decide

/-- non-vacuity of `written_then_received`: two requests, the first written 7 bytes at a time, the
second in writes of 1, 2, 3, … bytes; the delimiter of the first is cut 5|1 by the writes -/
example :
    let m1 := request .pinned 7 (.get none)
    let m2 := request .pinned 8 (.get (some (.xpath b!"/a")))
    let sends := [(m1, List.replicate 43 7), (m2, List.range' 1 80)]
    (sentChunks false sends).length = 19 ∧
    recvAll .fixed 3 [] (datas (sentChunks false sends)) = ([toWire false m1, toWire false m2], .pending []) := by
  decide

/-! ### the delimiter guard looks at the message, not at the writes that produced it

A caller-supplied payload serialiser may hand its output to the writer in any number of writes (a
streamed fragment). `to_xml` searches the finished body, so where the writes end is irrelevant. A
guard that searched each write on its own would be weaker: a delimiter straddling two writes passes it. -/

/-- the variant that checks every written block on its own -/
def sendChunked (blocks : List (List Nat)) : Option (List Nat) :=
  if blocks.any (fun b => (find marker b).isSome) then none else some (blocks.flatten ++ marker)

/-- a delimiter inside one block is a delimiter of the whole: whatever the whole-message guard lets
through, the per-block guard lets through as well (it is the weaker one) -/
theorem occ_in_block_occ_in_flatten (pre post : List (List Nat)) (b : List Nat) (j : Nat)
    (h : OccAt marker b j) : ∃ k, OccAt marker ((pre ++ b :: post).flatten) k := by
  refine ⟨pre.flatten.length + j, ?_⟩
  have : (pre ++ b :: post).flatten = pre.flatten ++ (b ++ post.flatten) := by simp
  rw [this]
  exact occAt_append_right _ _ _ (Framing.occAt_append _ _ _ _ h)

theorem whole_guard_implies_block_guard (blocks : List (List Nat))
    (h : find marker blocks.flatten = none) : ∀ b ∈ blocks, find marker b = none := by
  intro b hb
  rw [Framing.find_none_iff _ _ Framing.marker_ne_nil] at h ⊢
  intro j hj
  obtain ⟨pre, post, rfl⟩ := List.append_of_mem hb
  obtain ⟨k, hk⟩ := occ_in_block_occ_in_flatten pre post b j hj
  exact h k hk

/-- … and strictly weaker: `<!-- ]]>]` + `]> -->` passes block by block, and what is sent contains the
delimiter in its body (the peer cuts it in two frames) -/
theorem per_block_guard_cex :
    let blocks := [b!"<c><!-- ]]>]", b!"]> --></c>"]
    (blocks.all fun b => (find marker b).isNone) = true ∧
    (find marker blocks.flatten).isSome = true ∧
    (sendChunked blocks).isSome = true ∧
    (Framing.split ((sendChunked blocks).getD [])).1.length = 2 := by decide

end Writers
