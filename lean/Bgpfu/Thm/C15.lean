import Bgpfu.Thm.C17
/-!
# C15 (evaluator part) — one unevaluable policy does not prevent the others from being evaluated

`evaluateAll cfg db fuel cands` models `Policies<Candidate>::evaluate` (junos-agent/src/policies/
eval.rs): all candidates on one evaluator, in the (arbitrary) order of the map.  A candidate is
`(name, expression, faults the server injects while it is evaluated)`; `solo` is its outcome when
evaluated alone on a fresh evaluator; `candOut` turns an outcome into `Evaluated.ranges`.
`Cfg.fixed` has the two repairs proposed for D11 (PeerAS resolver returns an error; a panic inside
one candidate's evaluation is caught and fails that candidate); `Cfg.pinned` is /repo as it is.
The load/commit part of C15 is in the agent-run model, not here.
-/
namespace Irr
open Rpsl

/-- **isolation**: in every list of candidates — hence in every evaluation order — and on every
evaluator that is between evaluations, a run that completes gives every candidate exactly the
result it has when evaluated alone.  Uses C17's invariant (`evaluateAll_eq`). -/
theorem eval_isolated (cfg : Cfg) (db : Db) (fuel : Nat) (l : List (String × Expr × Faults)) (st : Ev)
    (hst : Clean st) (outs : List (String × Option Parts))
    (h : (evaluateAll cfg db fuel l st).1 = .done outs) :
    outs = l.map fun c => (c.1, candOut (solo cfg db fuel c)) := by
  rw [evaluateAll_eq cfg db fuel l st hst] at h
  have := runSpec_of_done cfg _ outs h
  rw [this, List.map_map]
  rfl

/-- **errors do not abort** (both configurations): if no candidate panics or diverges on its own,
the run completes, candidates whose evaluation fails (IRRd error, unknown as-set, …) get
`ranges = None`, and all the others get their own result. -/
theorem err_does_not_abort (cfg : Cfg) (db : Db) (fuel : Nat) (l : List (String × Expr × Faults))
    (st : Ev) (hst : Clean st)
    (hp : ∀ c ∈ l, ∀ k, solo cfg db fuel c ≠ .panic k) (hd : ∀ c ∈ l, solo cfg db fuel c ≠ .diverge) :
    (evaluateAll cfg db fuel l st).1 = .done (l.map fun c => (c.1, candOut (solo cfg db fuel c))) := by
  rw [evaluateAll_eq cfg db fuel l st hst, runSpec_done]
  · simp [List.map_map, Function.comp]
  · intro x hx k hk
    obtain ⟨c, hc, rfl⟩ := List.mem_map.mp hx
    exact absurd hk (hp c hc k)
  · intro x hx
    obtain ⟨c, hc, rfl⟩ := List.mem_map.mp hx
    exact hd c hc

/-- **unsupported constructs do not abort** (`Cfg.fixed`): no expression — PeerAS, AS-path
regexps and attribute matches included — makes the run panic; a candidate using one gets
`ranges = None` and every other candidate its own result.  (`diverge` = unbounded filter-set
recursion, excluded: cyclic filter-sets overflow the stack in either configuration.) -/
theorem unsupported_does_not_abort (db : Db) (fuel : Nat) (l : List (String × Expr × Faults))
    (st : Ev) (hst : Clean st) (hd : ∀ c ∈ l, solo .fixed db fuel c ≠ .diverge) :
    (evaluateAll .fixed db fuel l st).1 = .done (l.map fun c => (c.1, candOut (solo .fixed db fuel c))) := by
  rw [evaluateAll_eq .fixed db fuel l st hst, runSpec_done]
  · simp [List.map_map, Function.comp]
  · intros; rfl
  · intro x hx
    obtain ⟨c, hc, rfl⟩ := List.mem_map.mp hx
    exact hd c hc

/-- under `Cfg.fixed` the evaluator never panics on PeerAS at all: it reports an error -/
theorem peeras_is_error_fixed (db : Db) (fuel : Nat) (op : RangeOp) (st : Ev) :
    (evaluate .fixed db fuel (.prefixSet (.named .peerAs) op) [] st).1 = .err .unsupported := by
  cases fuel <;> rfl

/-- the evaluator is left clean by a run, aborted or not (so a caught panic cannot poison it) -/
theorem run_leaves_evaluator_clean (cfg : Cfg) (db : Db) (fuel : Nat) (l : List (String × Expr × Faults))
    (st : Ev) (hst : Clean st) : Clean (evaluateAll cfg db fuel l st).2.1 :=
  evaluateAll_clean cfg db fuel l st hst

/-! ### the code as it is: one PeerAS / AS-path / attribute-match policy aborts the whole run -/

def RunOutcome.aborted : RunOutcome → Option PanicKind
  | .abort k => some k
  | _ => none

def RunOutcome.names : RunOutcome → List String
  | .done outs => outs.map (·.1)
  | _ => []

/-- defect D11: with `p0 = AS-A` (evaluable) and `p1 = PeerAS`, `Policies::evaluate` panics in the
resolver (`unimplemented!()`), in either order; no candidate gets a result -/
theorem peeras_panics_cex :
    (evaluateAll .pinned exDb 2 [("p0", exAsA, []), ("p1", .prefixSet (.named .peerAs) .none, [])] Ev.fresh).1.aborted
        = some .peerAs ∧
    (evaluateAll .pinned exDb 2 [("p1", .prefixSet (.named .peerAs) .none, []), ("p0", exAsA, [])] Ev.fresh).1.aborted
        = some .peerAs := by decide

/-- same for an AS-path regular expression and an attribute match (`todo!()` in the rpsl crate) -/
theorem aspath_attr_panic_cex :
    (evaluateAll .pinned exDb 2 [("p0", exAsA, []), ("p1", .and exAsA .asPath, [])] Ev.fresh).1.aborted
        = some .asPath ∧
    (evaluateAll .pinned exDb 2 [("p0", exAsA, []), ("p1", .attrMatch, [])] Ev.fresh).1.aborted
        = some .attrMatch := by decide

/-! ### Non-vacuity -/

/-- with the repairs the same policy sets complete, `p0` has its result and `p1` has none -/
example :
    (evaluateAll .fixed exDb 2 [("p0", exAsA, []), ("p1", .prefixSet (.named .peerAs) .none, []),
        ("p2", .asPath, []), ("p3", exAsA, [(.query (.asSetMembers "AS-A"), .keyNotFound)])] Ev.fresh).1.names
      = ["p0", "p1", "p2", "p3"] := by decide

example :
    (match (evaluateAll .fixed exDb 2 [("p1", .asPath, []), ("p0", exAsA, [])] Ev.fresh).1 with
      | .done [(_, none), (_, some ps)] => ps.1 10 8 && ps.2 0x20010db8 32 && !ps.1 11 8
      | _ => false) = true := by decide

end Irr
